(* Store/ProofsLink.v — hasher.store (wstore) on a working trie whose clean nodes and references are nodes of the parent
   root: the root it writes follows only its own entries and nodes of the parent root (the link condition of
   Store/ProofsPrune.v), its entries are well-formed blobs, and it reads back — with freshness required in the hist space
   only (after a pruner round the deduped space answers for every version of a path, so the reader is no longer silent
   at a new version).  Then: histories of canonical commits / other commits / pruner rounds keep the invariant. *)
From Coq Require Import List NArith Bool Arith Lia.
From Verif Require Import Trie.Model Store.Model Store.Proofs Store.ProofsCommit Store.ProofsReach Store.ProofsPrune.
Import ListNotations.

Section PL.
  Variable V : Type.
  Notation snode := (snode V).
  Notation wnode := (wnode V).
  Notation node := (node V).
  Notation store := (store V).
  Notation getter := (getter V).

  (* the clean nodes (r = false) and references (r = true) of a working trie, with their paths and versions *)
  Inductive WTop : list nat -> wnode -> list nat -> ver -> bool -> Prop :=
  | WTop_ref p v : WTop p (WRef v) p v true
  | WTop_short_clean p k c v : WTop p (WShort k c (Clean v)) p v false
  | WTop_full_clean p cs v : WTop p (WFull cs (Clean v)) p v false
  | WTop_short p k c f q w r : WTop (p ++ k) c q w r -> WTop p (WShort k c f) q w r
  | WTop_full p cs f i c q w r : nth_error cs i = Some c -> WTop (p ++ [i]) c q w r -> WTop p (WFull cs f) q w r.

  (* ---- encodings of coherent working tries are well-formed blobs ---- *)
  Lemma coh_wfk g : forall p n, Coh V g p n -> wfk V (enc V n) = true /\ wfk V (enc_child V n) = true.
  Proof.
    apply (Coh_mut V g (fun p n _ => wfk V (enc V n) = true /\ wfk V (enc_child V n) = true)
                       (fun p i cs _ => forallb (wfk V) (map (enc_child V) cs) = true)).
    - intros; split; reflexivity.
    - intros; split; reflexivity.
    - intros; split; reflexivity.
    - intros p k c f Hk _ [_ IH] _.
      assert (E : wfk V (enc V (WShort k c f)) = true).
      { rewrite enc_short. cbn [wfk]. rewrite IH. destruct k; [contradiction|reflexivity]. }
      split; auto. destruct f; [exact E|reflexivity].
    - intros p cs f _ IH _.
      assert (E : wfk V (enc V (WFull cs f)) = true) by (rewrite enc_full; exact IH).
      split; auto. destruct f; [exact E|reflexivity].
    - reflexivity.
    - intros p i c t _ [_ IHc] _ IHt. cbn [map forallb]. rewrite IHc, IHt. reflexivity.
  Qed.

  Lemma coh_blob_ok g p n : Coh V g p n -> is_inner V n -> blob_ok V (enc V n).
  Proof.
    intros HC Hi. split; [|apply (coh_wfk g p n HC)].
    destruct n; cbn in Hi; try contradiction; exact I.
  Qed.

  Lemma nth_error_map_inv {A B} (f : A -> B) l i y : nth_error (map f l) i = Some y -> exists x, nth_error l i = Some x /\ y = f x.
  Proof.
    revert i. induction l as [|a l IH]; intros [|i] H; cbn in H; try discriminate.
    - inversion H. exists a. auto.
    - apply IH; auto.
  Qed.

  Lemma Reach_ref_inv (g : getter) p v q w b : Reach V g p (SRef v) q w b ->
    exists b0, g p v = Some b0 /\ ((q = p /\ w = v /\ b = b0) \/ Reach V g p b0 q w b).
  Proof. intros R. inversion R; subst; eauto 7. Qed.
  Lemma Reach_short_inv (g : getter) p k c q w b : Reach V g p (SShort k c) q w b -> Reach V g (p ++ k) c q w b.
  Proof. intros R. inversion R; subst; auto. Qed.
  Lemma Reach_full_inv (g : getter) p cs q w b : Reach V g p (SFull cs) q w b ->
    exists i c, nth_error cs i = Some c /\ Reach V g (p ++ [i]) c q w b.
  Proof. intros R. inversion R; subst; eauto. Qed.

  (* ---- what resolving the encoding of a coherent working trie follows ---- *)
  Section Follow.
    Variable g : getter.
    Variable newv : ver.

    Definition old_case (p : list nat) (n : wnode) (q : list nat) (w : ver) (b : snode) : Prop :=
      exists q0 w0 b0 r, WTop p n q0 w0 r /\ w0 <> newv /\ g q0 w0 = Some b0 /\
                         ((q0 = q /\ w0 = w /\ b0 = b) \/ Reach V g q0 b0 q w b).
    Definition new_case (q : list nat) (w : ver) (b : snode) : Prop :=
      w = newv /\ exists m, Coh V g q m /\ is_inner V m /\ b = enc V m.

    Lemma old_case_short p k c f q w b : old_case (p ++ k) c q w b -> old_case p (WShort k c f) q w b.
    Proof. intros [q0 [w0 [b0 [r [T X]]]]]. exists q0, w0, b0, r. split; auto. apply WTop_short; auto. Qed.
    Lemma old_case_full p cs f i c q w b : nth_error cs i = Some c -> old_case (p ++ [i]) c q w b -> old_case p (WFull cs f) q w b.
    Proof. intros Hi [q0 [w0 [b0 [r [T X]]]]]. exists q0, w0, b0, r. split; auto. eapply WTop_full; eauto. Qed.

    Lemma coh_follow : forall p n, Coh V g p n ->
      (forall q0, ~ WTop p n q0 newv true) ->
      forall q w b, Reach V g p (enc_child V n) q w b -> old_case p n q w b \/ new_case q w b.
    Proof.
      apply (Coh_mut V g
        (fun p n _ => (forall q0, ~ WTop p n q0 newv true) ->
           forall q w b, Reach V g p (enc_child V n) q w b -> old_case p n q w b \/ new_case q w b)
        (fun p i cs _ => (forall j c q0, nth_error cs j = Some c -> ~ WTop (p ++ [i + j]%nat) c q0 newv true) ->
           forall j c q w b, nth_error cs j = Some c -> Reach V g (p ++ [i + j]%nat) (enc_child V c) q w b ->
           old_case (p ++ [i + j]%nat) c q w b \/ new_case q w b)).
      - intros p _ q w b R. inversion R.
      - intros p v _ q w b R. inversion R.
      - (* reference *)
        intros p v Hno q w b R. cbn [enc_child] in R.
        assert (Hv : v <> newv) by (intros ->; apply (Hno p); constructor).
        left. destruct (Reach_ref_inv g p v q w b R) as [b0 [Hg [[-> [-> ->]]|R0]]].
        + exists p, v, b0, true. split; [constructor|]. auto 10.
        + exists p, v, b0, true. split; [constructor|]. auto 10.
      - (* short *)
        intros p k c f Hk HC IH Hf Hno q w b R.
        assert (Hno' : forall q0, ~ WTop (p ++ k) c q0 newv true) by (intros q0 T; apply (Hno q0); apply WTop_short; auto).
        assert (Inner : forall q w b, Reach V g p (enc V (WShort k c f)) q w b -> old_case p (WShort k c f) q w b \/ new_case q w b).
        { intros q1 w1 b1 R1. rewrite enc_short in R1. apply Reach_short_inv in R1.
          destruct (IH Hno' _ _ _ R1) as [O|N]; auto. left. apply old_case_short; auto. }
        destruct f as [|v]; cbn [enc_child] in R; [apply Inner; exact R|].
        pose proof (Hf v eq_refl) as Hgv.
        destruct (ver_eqb v newv) eqn:Ev.
        + apply ver_eqb_eq in Ev. subst v.
          destruct (Reach_ref_inv g p newv q w b R) as [b0 [Hg [[-> [-> ->]]|R0]]].
          * right. split; auto. rewrite Hgv in Hg. inversion Hg; subst.
            exists (WShort k c (Clean newv)). split; [constructor; auto|split; [exact I|reflexivity]].
          * rewrite Hgv in Hg. inversion Hg; subst. apply Inner; auto.
        + assert (Hv : v <> newv) by (intros ->; rewrite (proj2 (ver_eqb_eq newv newv) eq_refl) in Ev; discriminate).
          left. destruct (Reach_ref_inv g p v q w b R) as [b0 [Hg [[-> [-> ->]]|R0]]].
          * exists p, v, b0, false. split; [constructor|]. auto 10.
          * exists p, v, b0, false. split; [constructor|]. auto 10.
      - (* full *)
        intros p cs f HC IH Hf Hno q w b R.
        assert (Hno' : forall j c q0, nth_error cs j = Some c -> ~ WTop (p ++ [0 + j]%nat) c q0 newv true).
        { intros j c q0 Hj T. apply (Hno q0). eapply WTop_full; eauto. }
        assert (Inner : forall q w b, Reach V g p (enc V (WFull cs f)) q w b -> old_case p (WFull cs f) q w b \/ new_case q w b).
        { intros q1 w1 b1 R1. rewrite enc_full in R1. apply Reach_full_inv in R1. destruct R1 as [i [x [Hx R1]]].
          destruct (nth_error_map_inv _ _ _ _ Hx) as [c0 [Hc0 ->]].
          destruct (IH Hno' i c0 _ _ _ Hc0 R1) as [O|N]; auto. left. eapply old_case_full; eauto. }
        destruct f as [|v]; cbn [enc_child] in R; [apply Inner; exact R|].
        pose proof (Hf v eq_refl) as Hgv.
        destruct (ver_eqb v newv) eqn:Ev.
        + apply ver_eqb_eq in Ev. subst v.
          destruct (Reach_ref_inv g p newv q w b R) as [b0 [Hg [[-> [-> ->]]|R0]]].
          * right. split; auto. rewrite Hgv in Hg. inversion Hg; subst.
            exists (WFull cs (Clean newv)). split; [constructor; auto|split; [exact I|reflexivity]].
          * rewrite Hgv in Hg. inversion Hg; subst. apply Inner; auto.
        + assert (Hv : v <> newv) by (intros ->; rewrite (proj2 (ver_eqb_eq newv newv) eq_refl) in Ev; discriminate).
          left. destruct (Reach_ref_inv g p v q w b R) as [b0 [Hg [[-> [-> ->]]|R0]]].
          * exists p, v, b0, false. split; [constructor|]. auto 10.
          * exists p, v, b0, false. split; [constructor|]. auto 10.
      - intros p i _ j c q w b Hj. destruct j; discriminate.
      - intros p i c t HC IHc HCt IHt Hno j c0 q w b Hj R.
        destruct j as [|j]; cbn in Hj.
        + inversion Hj; subst c0. rewrite Nat.add_0_r in *. apply IHc; auto.
          intros q0 T. apply (Hno 0%nat c q0); [reflexivity|]. rewrite Nat.add_0_r. exact T.
        + rewrite Nat.add_succ_r in *. apply (IHt (fun j' c' q0 Hj' => ltac:(
            intros T; apply (Hno (S j') c' q0 Hj'); rewrite Nat.add_succ_r; exact T)) j c0 q w b Hj R).
    Qed.
  End Follow.

  (* ---- the clean nodes of the working trie after hasher.store: stamped newv, or clean nodes it had before ---- *)
  Section After.
    Variable big : wnode -> bool.
    Variable skip : bool.
    Variable newv : ver.
    Variable g : getter.

    Lemma wstore_wtop : forall p n, Coh V g p n ->
      forall q w r, WTop p (fst (wstore V big skip newv p n)) q w r -> (w = newv /\ r = false) \/ WTop p n q w r.
    Proof.
      apply (Coh_mut V g
        (fun p n _ => forall q w r, WTop p (fst (wstore V big skip newv p n)) q w r -> (w = newv /\ r = false) \/ WTop p n q w r)
        (fun p i cs _ => forall j c', nth_error (fst (wchildren V big skip newv p cs i)) j = Some c' ->
           exists c, nth_error cs j = Some c /\
             forall q w r, WTop (p ++ [i + j]%nat) c' q w r -> (w = newv /\ r = false) \/ WTop (p ++ [i + j]%nat) c q w r)).
      - intros p q w r T. cbn in T. auto.
      - intros p v q w r T. cbn in T. auto.
      - intros p v q w r T. cbn in T. auto.
      - (* short *)
        intros p k c f Hk HC IH Hf q w r T. rewrite wstore_short in T.
        assert (Child : forall c' ec, (if is_dirty_inner V c then wstore V big skip newv (p ++ k) c else (c, [])) = (c', ec) ->
                  forall q w r, WTop (p ++ k) c' q w r -> (w = newv /\ r = false) \/ WTop (p ++ k) c q w r).
        { intros c' ec E q0 w0 r0 T0. destruct (is_dirty_inner V c).
          - apply IH. rewrite E. exact T0.
          - inversion E; subst. auto. }
        destruct (if is_dirty_inner V c then wstore V big skip newv (p ++ k) c else (c, [])) as [c' ec] eqn:E.
        cbv zeta in T. destruct (is_root p || skip); cbn [fst] in T.
        + inversion T; subst; auto.
          destruct (Child c' ec eq_refl _ _ _ H6) as [X|X]; auto. right. apply WTop_short; auto.
        + inversion T; subst.
          * right. constructor.
          * destruct (Child c' ec eq_refl _ _ _ H6) as [X|X]; auto. right. apply WTop_short; auto.
      - (* full *)
        intros p cs f HC IH Hf q w r T. rewrite wstore_full in T. cbv zeta in T.
        destruct (wchildren V big skip newv p cs 0) as [cs' ecs] eqn:E. cbn [fst snd] in *.
        assert (Child : forall i c', nth_error cs' i = Some c' -> forall q w r, WTop (p ++ [i]) c' q w r ->
                  (w = newv /\ r = false) \/ WTop p (WFull cs f) q w r).
        { intros i c' Hi q0 w0 r0 T0. destruct (IH i c' Hi) as [c [Hc X]]. cbn in X.
          destruct (X _ _ _ T0) as [Y|Y]; auto. right. eapply WTop_full; eauto. }
        destruct (is_root p || big (WFull cs' f) || skip); cbn [fst] in T.
        + inversion T; subst; auto. eapply Child; eauto.
        + inversion T; subst.
          * right. constructor.
          * eapply Child; eauto.
      - intros p i j c' Hj. rewrite wchildren_nil in Hj. destruct j; discriminate.
      - intros p i c t HC IHc HCt IHt j c' Hj. rewrite wchildren_cons in Hj.
        destruct (if is_dirty_inner V c && (i <? 16)%nat then wstore V big skip newv (p ++ [i]) c else (c, [])) as [c1 ec] eqn:E1.
        destruct (wchildren V big skip newv p t (S i)) as [t' et] eqn:E2. cbn [fst] in *.
        destruct j as [|j]; cbn in Hj.
        + inversion Hj; subst c'. exists c. split; [reflexivity|]. rewrite Nat.add_0_r.
          intros q w r T. destruct (is_dirty_inner V c && (i <? 16)%nat).
          * apply IHc. rewrite E1. exact T.
          * inversion E1; subst. auto.
        + destruct (IHt j c' Hj) as [c0 [Hc0 X]]. exists c0. split; [exact Hc0|]. rewrite Nat.add_succ_r. exact X.
    Qed.
  End After.

  (* ---- reading back, for an abstract getter that is silent at the new version ---- *)
  Lemma wstore_reads_back_g (g0 : getter) newv big skip n t :
    (forall p, g0 p newv = None) ->
    Coh V g0 [] n -> WRes V g0 [] n t -> is_inner V n ->
    let n' := fst (wstore V big skip newv [] n) in
    let g0' := with_entries V g0 newv (snd (wstore V big skip newv [] n)) in
    Res V g0' [] (SRef newv) t /\ Coh V g0' [] n' /\ WRes V g0' [] n' t /\ enc_child V n' = SRef newv /\
    (forall q b, g0' q newv = Some b -> lookup V q (snd (wstore V big skip newv [] n)) = Some b).
  Proof.
    intros Fresh HC HW Hin n' g0'.
    set (es := snd (wstore V big skip newv [] n)) in *.
    assert (S1 : sub V g0 g0').
    { intros p w b H. unfold g0', with_entries. destruct (ver_eqb w newv) eqn:E; auto.
      apply ver_eqb_eq in E; subst. rewrite Fresh in H. discriminate. }
    assert (En : entries_in V newv g0' es).
    { intros q b I. unfold g0', with_entries. assert (E : ver_eqb newv newv = true) by (apply ver_eqb_eq; auto). rewrite E.
      destruct (wstore_paths V big skip newv g0 [] n HC q b I) as [_ L]. fold es in L. rewrite L. reflexivity. }
    destruct (wstore_sound_local V big skip newv g0 g0' S1 [] n t HW HC (or_introl eq_refl) n' es) as [C1 W1]; auto.
    { unfold n', es. destruct (wstore V big skip newv [] n); reflexivity. }
    assert (Cl : enc_child V n' = SRef newv).
    { unfold n'. destruct n; cbn in Hin; try contradiction.
      - rewrite wstore_short. destruct (if is_dirty_inner V n then _ else _). cbn. reflexivity.
      - rewrite wstore_full. cbn. reflexivity. }
    split; [|split; [exact C1|split; [exact W1|split; [exact Cl|]]]].
    - destruct (coh_enc V g0' [] n' t W1 C1) as [_ E2]. rewrite Cl in E2. exact E2.
    - intros q b H. unfold g0', with_entries in H.
      rewrite (proj2 (ver_eqb_eq newv newv) eq_refl) in H. destruct (lookup V q es); auto.
      rewrite Fresh in H. discriminate.
  Qed.

  (* a working trie that only uses references on which two getters agree *)
  Lemma coh_wres_transfer (g g0 : getter) (Old : list nat -> ver -> snode -> Prop) :
    (forall q w b, Old q w b -> g0 q w = Some b /\ g q w = Some b) ->
    (forall q w b q1 w1 b1, Old q w b -> Reach V g q b q1 w1 b1 -> Old q1 w1 b1) ->
    forall p n t, WRes V g p n t -> Coh V g p n ->
      (forall q w r, WTop p n q w r -> exists b, Old q w b) ->
      WRes V g0 p n t /\ Coh V g0 p n.
  Proof.
    intros Hag Hcl.
    apply (WRes_mut V g
      (fun p n t _ => Coh V g p n -> (forall q w r, WTop p n q w r -> exists b, Old q w b) -> WRes V g0 p n t /\ Coh V g0 p n)
      (fun p i cs cts _ => CohL V g p i cs ->
         (forall j c q w r, nth_error cs j = Some c -> WTop (p ++ [i + j]%nat) c q w r -> exists b, Old q w b) ->
         WResL V g0 p i cs cts /\ CohL V g0 p i cs)).
    - intros; split; constructor.
    - intros; split; constructor.
    - intros p k c f c' _ IH HC HT. inversion HC as [| | |p0 k0 c0 f0 Hk Hcc Hf|]; subst.
      destruct (IH Hcc) as [W C]. { intros q w r T. apply (HT q w r). apply WTop_short; auto. }
      split; constructor; auto.
      intros v Ev. subst f. destruct (HT p v false (WTop_short_clean p k c v)) as [b Ob].
      destruct (Hag _ _ _ Ob) as [E0 E]. rewrite (Hf v eq_refl) in E. inversion E; subst. exact E0.
    - intros p cs f cs' _ IH HC HT. inversion HC as [| | | |p0 cs0 f0 Hcc Hf]; subst.
      destruct (IH Hcc) as [W C]. { intros j c q w r Hj T. apply (HT q w r). eapply WTop_full; eauto. }
      split; constructor; auto.
      intros v Ev. subst f. destruct (HT p v false (WTop_full_clean p cs v)) as [b Ob].
      destruct (Hag _ _ _ Ob) as [E0 E]. rewrite (Hf v eq_refl) in E. inversion E; subst. exact E0.
    - intros p v b t Hg Hr _ HT. split; [|constructor].
      destruct (HT p v true (WTop_ref p v)) as [b0 Ob].
      destruct (Hag _ _ _ Ob) as [E0 E]. rewrite Hg in E. inversion E; subst b0.
      eapply WRes_ref; eauto.
      apply (ResC_transfer V (fun q w b1 => g0 q w = Some b1) g g0); [auto|].
      apply Res_ResC; auto. intros q w b1 R. apply (Hag q w b1). eapply Hcl; eauto.
    - intros; split; constructor.
    - intros p i c c' t t' _ IHc _ IHt HC HT. inversion HC as [|p0 i0 c0 t0 Hc0 Ht0]; subst.
      destruct (IHc Hc0) as [W1 C1].
      { intros q w r T. apply (HT 0%nat c q w r); [reflexivity|]. rewrite Nat.add_0_r. exact T. }
      destruct (IHt Ht0) as [W2 C2].
      { intros j c1 q w r Hj T. apply (HT (S j) c1 q w r); [exact Hj|]. rewrite Nat.add_succ_r. exact T. }
      split; constructor; auto.
  Qed.

  Lemma lookup_In q (es : list (list nat * snode)) b : lookup V q es = Some b -> In (q, b) es.
  Proof.
    induction es as [|[p b'] es IH]; cbn; [discriminate|].
    destruct (path_eqb q p) eqn:E; auto. intros H. inversion H; subst. apply path_eqb_eq in E. subst. left; auto.
  Qed.

  (* ---------------------------------------------------------------- the canonical commit through hasher.store *)
  (* every clean node and every reference of the working trie is a node of the head root (none if there is no root yet) *)
  Definition derived (g : getter) (chain : list (ver * node)) (n : wnode) : Prop :=
    forall q w r, WTop [] n q w r -> match chain with [] => False | vt :: _ => exists b, RR V g (fst vt) q w b end.

  (* The general form, for any store (pruned or not): `Old` is any set of stored nodes that contains every clean node and
     reference of the working trie, is closed under what resolving them follows, resolves, and does not contain a node
     of version newv.  No freshness of newv is needed beyond that: the commit only changes what the reader answers at
     version newv, and the new root refers to newv only at the paths it writes. *)
  Theorem wstore_general (s : store) name newv big skip n t (Old : list nat -> ver -> snode -> Prop) :
    (forall q w b, Old q w b -> w <> newv /\ sget V s name q w = Some b) ->
    (forall q w b q1 w1 b1, Old q w b -> Reach V (sget V s name) q b q1 w1 b1 -> Old q1 w1 b1) ->
    (forall q w b, Old q w b -> exists t', Res V (sget V s name) q b t') ->
    (forall q w r, WTop [] n q w r -> exists b, Old q w b) ->
    Coh V (sget V s name) [] n -> WRes V (sget V s name) [] n t -> is_inner V n ->
    let es := snd (wstore V big skip newv [] n) in
    let n' := fst (wstore V big skip newv [] n) in
    let g' := sget V (commit V s name newv es) name in
    Res V g' [] (SRef newv) t /\ Coh V g' [] n' /\ WRes V g' [] n' t /\
    (forall q w b, Reach V g' [] (SRef newv) q w b ->
       (w = newv /\ lookup V q es = Some b /\ blob_ok V b) \/ Old q w b).
  Proof.
    intros O1 Old_cl O3 Hder' HC HW Hin es n' g'.
    set (g := sget V s name) in *.
    set (g0 := fun p w => if ver_eqb w newv then None else g p w).
    assert (Old_ne : forall q w b, Old q w b -> w <> newv) by (intros q w b O; apply (O1 q w b O)).
    assert (Old_get : forall q w b, Old q w b -> g0 q w = Some b /\ g q w = Some b).
    { intros q w b O. destruct (O1 q w b O) as [Hn E]. split; auto. unfold g0. rewrite ver_eqb_false by auto. exact E. }
    destruct (coh_wres_transfer g g0 Old Old_get Old_cl [] n t HW HC Hder') as [HW0 HC0].
    assert (Fresh0 : forall p, g0 p newv = None).
    { intros p. unfold g0. rewrite (proj2 (ver_eqb_eq newv newv) eq_refl). reflexivity. }
    destruct (wstore_reads_back_g g0 newv big skip n t Fresh0 HC0 HW0 Hin) as [R0 [C0' [W0' [Cl Hlk]]]].
    fold es in R0, C0', W0', Hlk. fold n' in C0', W0', Cl.
    set (g0' := with_entries V g0 newv es) in *.
    (* the store after the commit answers everything g0' answers *)
    assert (S2 : sub V g0' g').
    { intros p w b H. unfold g'. rewrite sget_commit. unfold g0', with_entries in H. unfold with_entries.
      destruct (ver_eqb w newv) eqn:E.
      - destruct (lookup V p es); auto. apply ver_eqb_eq in E. subst. rewrite Fresh0 in H. discriminate.
      - unfold g0 in H. rewrite E in H. exact H. }
    assert (Hag : forall q w b, Reach V g0' [] (SRef newv) q w b -> g' q w = Some b).
    { intros q w b R. apply S2. eapply Reach_get; eauto. }
    destruct (resolution_transfer V g0' g' [] (SRef newv) t R0 Hag) as [T1 [T2 _]].
    split; [exact T1|split; [eapply Coh_mono; eauto|split; [eapply WRes_mono; eauto|]]].
    intros q w b R. apply T2 in R.
    assert (NoRef : forall q0, ~ WTop [] n' q0 newv true).
    { intros q0 T. destruct (wstore_wtop big skip newv g0 [] n HC0 _ _ _ T) as [[_ X]|X]; [discriminate|].
      destruct (Hder' _ _ _ X) as [b0 O]. apply (Old_ne _ _ _ O). reflexivity. }
    rewrite <- Cl in R.
    destruct (coh_follow g0' newv [] n' C0' NoRef q w b R) as [[q0 [w0 [b0 [r [T [Hne [Hg Hor]]]]]]]|[E [m [Cm [Im Eb]]]]].
    - (* below, or at, a clean node the trie had before *)
      right.
      destruct (wstore_wtop big skip newv g0 [] n HC0 _ _ _ T) as [[X _]|X]; [contradiction|].
      destruct (Hder' _ _ _ X) as [b0' O].
      assert (Eb : b0' = b0).
      { destruct (Old_get _ _ _ O) as [E0 _]. unfold g0', with_entries in Hg. rewrite ver_eqb_false in Hg by auto.
        rewrite E0 in Hg. inversion Hg; auto. }
      subst b0'.
      destruct Hor as [[-> [-> ->]]|Rb]; auto.
      apply (Old_cl q0 w0 b0); auto.
      (* the sub-resolution below an old node is the same through g0' and g *)
      destruct (O3 _ _ _ O) as [t' Ht'].
      assert (Hag' : forall q1 w1 b1, Reach V g q0 b0 q1 w1 b1 -> g0' q1 w1 = Some b1).
      { intros q1 w1 b1 R1. unfold g0', with_entries.
        assert (O1' : Old q1 w1 b1) by (eapply Old_cl; eauto).
        rewrite ver_eqb_false by (eapply Old_ne; eauto). apply (Old_get _ _ _ O1'). }
      destruct (resolution_transfer V g g0' q0 b0 t' Ht' Hag') as [_ [T2' _]].
      apply T2'. exact Rb.
    - (* written by this commit *)
      left. subst w. split; [reflexivity|]. split.
      + apply Hlk. eapply Reach_get; eauto.
      + subst b. eapply coh_blob_ok; eauto.
  Qed.

  Theorem wstore_links (s : store) name chain P newv big skip n t :
    Inv V s name chain P -> hist_fresh V s name newv -> (P <= fst newv)%N ->
    match chain with [] => True | vt :: _ => (fst (fst vt) < fst newv)%N end ->
    Coh V (sget V s name) [] n -> WRes V (sget V s name) [] n t -> is_inner V n ->
    derived (sget V s name) chain n ->
    let es := snd (wstore V big skip newv [] n) in
    link_cond V s name chain newv es /\ Res V (sget V (commit V s name newv es) name) [] (SRef newv) t.
  Proof.
    intros HI Hfr HP Hlt HC HW Hin Hder es.
    set (g := sget V s name) in *.
    set (Old := fun q w b => match chain with [] => False | vt :: _ => RR V g (fst vt) q w b end).
    assert (Old_ne : forall q w b, Old q w b -> w <> newv).
    { intros q w b O. unfold Old in O. destruct chain as [|vt chain]; [contradiction|].
      apply (followed_not_fresh V s name (vt :: chain) P newv HI Hfr HP vt (or_introl eq_refl) q w b O). }
    destruct (wstore_general s name newv big skip n t Old) as [HR [_ [_ HL]]]; auto.
    - intros q w b O. split; [eapply Old_ne; eauto|]. unfold Old in O. destruct chain; [contradiction|]. eapply Reach_get; eauto.
    - intros q w b q1 w1 b1 O R. unfold Old in *. destruct chain; [contradiction|]. eapply Reach_trans; eauto.
    - intros q w b O. unfold Old in O. destruct chain as [|vt chain]; [contradiction|].
      destruct HI as [_ [HF _]]. rewrite Forall_forall in HF. destruct (HF vt (or_introl eq_refl)) as [HRv _].
      eapply Res_sub; eauto.
    - intros q w r T. specialize (Hder q w r T). unfold Old. destruct chain; [contradiction|]. exact Hder.
    - split; [|exact HR]. intros q w b R. destruct (HL q w b R) as [X|O]; [left; exact X|right].
      split; [eapply Old_ne; eauto|exact O].
  Qed.

  (* ---------------------------------------------------------------- histories *)
  (* the life of one trie in the store: canonical commits through hasher.store on a working trie derived from the head
     root, any other commit (another trie; a fork of this one at a version fresh in the hist space and not below the
     pruned mark), pruner rounds [base, target) with aligned bounds, base not below the previous target, checkpointing
     the newest canonical root below target through the version-filtered iterator *)
  Inductive History (name : N) : store -> list (ver * node) -> N -> Prop :=
  | H_init s P : (0 < hf V s)%N -> History name s [] P
  | H_commit s chain P newv big skip n t :
      History name s chain P ->
      hist_fresh V s name newv -> (P <= fst newv)%N ->
      match chain with [] => True | vt :: _ => (fst (fst vt) < fst newv)%N end ->
      Coh V (sget V s name) [] n -> WRes V (sget V s name) [] n t -> is_inner V n ->
      derived (sget V s name) chain n ->
      History name (commit V s name newv (snd (wstore V big skip newv [] n))) ((newv, t) :: chain) P
  | H_other s chain P name' v' es :
      History name s chain P ->
      name' <> name \/ (hist_fresh V s name v' /\ (P <= fst v')%N) ->
      History name (commit V s name' v' es) chain P
  | H_prune s newer anchor older P base target cps f nodes :
      History name s (newer ++ anchor :: older) P ->
      (P <= base)%N -> (base <= target)%N -> (base mod hf V s = 0)%N -> (target mod hf V s = 0)%N ->
      Forall (fun vt => (target <= fst (fst vt))%N) newer -> (fst (fst anchor) < target)%N ->
      checkpoint_nodes V f s name (fst anchor) base = Some nodes ->
      cps_for V name cps nodes ->
      History name (prune V s cps base target) (live_after V name newer anchor) target.

  Theorem History_Inv name s chain P : History name s chain P -> Inv V s name chain P.
  Proof.
    induction 1.
    - split; [auto|split; [constructor|exact I]].
    - destruct (wstore_links s name chain P newv big skip n t) as [HL HR]; auto.
      apply Inv_canonical_commit; auto.
    - apply Inv_other_commit; auto.
    - eapply Inv_prune; eauto.
  Qed.

  (* prune_preserves_recent: after any history — commits, forks, any number of pruner rounds — every live canonical root
     (after a round: those at or above the target, and for a storage trie also the root the round checkpointed) resolves
     to exactly the trie that its commit denoted *)
  Theorem history_roots_resolve name s chain P v t :
    History name s chain P -> In (v, t) chain -> Res V (sget V s name) [] (SRef v) t.
  Proof.
    intros H I. destruct (History_Inv name s chain P H) as [_ [HF _]].
    rewrite Forall_forall in HF. destruct (HF (v, t) I) as [HR _]. exact HR.
  Qed.
  (* one round, in the shape of the property: every live root resolves to the same trie before and after the round *)
  Theorem prune_round_preserves name s newer anchor older P base target cps f nodes v t :
    History name s (newer ++ anchor :: older) P ->
    (P <= base)%N -> (base <= target)%N -> (base mod hf V s = 0)%N -> (target mod hf V s = 0)%N ->
    Forall (fun vt => (target <= fst (fst vt))%N) newer -> (fst (fst anchor) < target)%N ->
    checkpoint_nodes V f s name (fst anchor) base = Some nodes ->
    cps_for V name cps nodes ->
    In (v, t) (live_after V name newer anchor) ->
    Res V (sget V s name) [] (SRef v) t /\ Res V (sget V (prune V s cps base target) name) [] (SRef v) t.
  Proof.
    intros H HPb Hbt Hab Hat Hnew Hanc Hit Hcps Hin. split.
    - apply (history_roots_resolve name s (newer ++ anchor :: older) P); auto.
      unfold live_after in Hin. apply in_app_or in Hin. apply in_or_app.
      destruct Hin as [I|I]; auto. right. destruct (root_only name); [destruct I|destruct I as [<-|[]]; left; auto].
    - apply (history_roots_resolve name (prune V s cps base target) (live_after V name newer anchor) target); auto.
      eapply H_prune; eauto.
  Qed.

  (* ---------------------------------------------------------------- never silently different: what fails keeps failing *)
  (* an account / index root that does not answer (pruned) does not come back: not by a further round ... *)
  Lemma failed_root_prune (s : store) cps base target name v :
    root_only name = true -> sget V s name [] v = None -> sget V (prune V s cps base target) name [] v = None.
  Proof.
    intros Hr H. rewrite sget_prune. unfold sget in H. cbn [is_root andb] in *. rewrite Hr in *.
    destruct (hist_find V (hist V s) name [] v); [discriminate|].
    destruct (in_deleted V s base target v); reflexivity.
  Qed.

  (* ... nor by a commit of another trie or another version *)
  Lemma failed_root_commit (s : store) name' v' es name v :
    sget V s name [] v = None -> name' <> name \/ v <> v' -> sget V (commit V s name' v' es) name [] v = None.
  Proof. intros H Hne. destruct (commit_other_agrees V s name' v' es name [] v Hne) as [E _]. rewrite E. exact H. Qed.

  (* state below the target: a storage trie is only ever opened through the account trie of its block (state.go), whose
     root is in the deleted partitions — the read fails whatever the deduped space holds for the storage trie *)
  Definition read_through_account (f : nat) (s : store) (acc_ver : ver) (sname : N) (sver : ver) : option node :=
    match open_root V f s 0 acc_ver with
    | Some _ => open_root V f s sname sver
    | None => None
    end.

  Lemma pruned_state_fails f (s : store) cps base target acc_ver sname sver :
    in_deleted V s base target acc_ver = true ->
    read_through_account f (prune V s cps base target) acc_ver sname sver = None.
  Proof.
    intros Hd. unfold read_through_account, open_root.
    destruct f as [|f]; [reflexivity|]. cbn [expand].
    rewrite (pruned_root_fails V s cps base target 0 acc_ver eq_refl Hd). reflexivity.
  Qed.

  (* a helper to discharge hist_fresh on a concrete store *)
  Lemma hist_fresh_check (s : store) name v :
    forallb (fun e => negb ((name =? fst (fst (fst e)))%N && ver_eqb v (snd (fst e)))) (hist V s) = true ->
    hist_fresh V s name v.
  Proof.
    intros H p. induction (hist V s) as [|[[[n' p'] v'] b] l IH]; [reflexivity|].
    cbn in H. apply andb_true_iff in H. destruct H as [H1 H2]. cbn [hist_find].
    rewrite (IH H2). destruct (name =? n')%N, (path_eqb p p'), (ver_eqb v v'); cbn in *; auto; discriminate.
  Qed.
  (* the same through the fuel-based reader open_root *)
  Theorem history_roots_open name s chain P v t :
    History name s chain P -> In (v, t) chain ->
    exists f0, forall f, (f0 <= f)%nat -> open_root V f s name v = Some t.
  Proof. intros H I. apply Res_expand. eapply history_roots_resolve; eauto. Qed.

  Theorem prune_round_preserves_open name s newer anchor older P base target cps f nodes v t :
    History name s (newer ++ anchor :: older) P ->
    (P <= base)%N -> (base <= target)%N -> (base mod hf V s = 0)%N -> (target mod hf V s = 0)%N ->
    Forall (fun vt => (target <= fst (fst vt))%N) newer -> (fst (fst anchor) < target)%N ->
    checkpoint_nodes V f s name (fst anchor) base = Some nodes ->
    cps_for V name cps nodes ->
    In (v, t) (live_after V name newer anchor) ->
    exists f0, forall f', (f0 <= f')%nat ->
      open_root V f' s name v = Some t /\ open_root V f' (prune V s cps base target) name v = Some t.
  Proof.
    intros H HPb Hbt Hab Hat Hnew Hanc Hit Hcps Hin.
    destruct (prune_round_preserves name s newer anchor older P base target cps f nodes v t) as [R1 R2]; auto.
    destruct (Res_expand V _ _ _ _ R1) as [f1 E1]. destruct (Res_expand V _ _ _ _ R2) as [f2 E2].
    exists (Nat.max f1 f2). intros f' Hf. split; [apply E1|apply E2]; lia.
  Qed.
  (* ---------------------------------------------------------------- any store, pruned or not *)
  (* commit_preserves_roots without a freshness premise on the reader: a commit of (name, v) changes what the reader
     answers only at version v of trie name, so every root that does not follow a node of that version — any root of
     another trie, and any root of this trie whose followed nodes have other versions — resolves to the same trie, with
     the same fuel *)
  Theorem commit_preserves_roots_any f (s : store) name v es name' v' t :
    open_root V f s name' v' = Some t ->
    name' <> name \/ (forall q w b, Reach V (sget V s name') [] (SRef v') q w b -> w <> v) ->
    open_root V f (commit V s name v es) name' v' = Some t.
  Proof.
    intros H Hc. unfold open_root in *. apply (expand_agree V f (sget V s name')); auto.
    intros q w b R.
    assert (Hne : name <> name' \/ w <> v) by (destruct Hc as [Hc|Hc]; [left; congruence|right; eapply Hc; eauto]).
    destruct (commit_other_agrees V s name v es name' q w Hne) as [E _]. rewrite E. eapply Reach_get; eauto.
  Qed.

  (* caches: a cache that agrees with the store on the nodes a root follows is invisible for that root ... *)
  Theorem cache_invisible_on_followed f (cache g : getter) p n t :
    expand V f g p n = Some t ->
    (forall q w b b', Reach V g p n q w b -> cache q w = Some b' -> b' = b) ->
    expand V f (cached_get V cache g) p n = Some t.
  Proof.
    intros H Hc. apply (expand_agree V f g); auto.
    intros q w b R. unfold cached_get. destruct (cache q w) as [b'|] eqn:E.
    - f_equal. eapply Hc; eauto.
    - eapply Reach_get; eauto.
  Qed.

  (* ... in particular a cache filled before a pruner round (coherent with the store then, and not flushed by the round —
     the real node cache survives the round and may still hold deleted hist nodes) is invisible for every live root after it *)
  Theorem cache_survives_round name s newer anchor older P base target cps f nodes (cache : getter) v t :
    History name s (newer ++ anchor :: older) P ->
    (P <= base)%N -> (base <= target)%N -> (base mod hf V s = 0)%N -> (target mod hf V s = 0)%N ->
    Forall (fun vt => (target <= fst (fst vt))%N) newer -> (fst (fst anchor) < target)%N ->
    checkpoint_nodes V f s name (fst anchor) base = Some nodes ->
    cps_for V name cps nodes ->
    cache_coherent V cache (sget V s name) ->
    In (v, t) (live_after V name newer anchor) ->
    Res V (cached_get V cache (sget V (prune V s cps base target) name)) [] (SRef v) t.
  Proof.
    intros H HPb Hbt Hab Hat Hnew Hanc Hit Hcps Hcoh Hin.
    pose proof (History_Inv _ _ _ _ H) as HI.
    assert (HR : Res V (sget V s name) [] (SRef v) t).
    { destruct (prune_round_preserves name s newer anchor older P base target cps f nodes v t) as [R1 _]; auto. }
    destruct (resolution_transfer V (sget V s name) (cached_get V cache (sget V (prune V s cps base target) name)) [] (SRef v) t HR) as [T _]; auto.
    intros q w b R. unfold cached_get. destruct (cache q w) as [b'|] eqn:E.
    - pose proof (Hcoh q w b' E) as X. pose proof (Reach_get V _ _ _ _ _ _ R) as Y. congruence.
    - apply (prune_agrees V s name P base target cps newer anchor older f nodes HI HPb Hbt Hab Hat Hnew Hanc Hit Hcps (v, t) Hin q w b R).
  Qed.
End PL.
