(* Store/WorkTrie.v — trie.go on *working tries*: tryGet / insert / delete over the in-memory tree of a handle, whose
   untouched subtrees are unresolved references (refNode) loaded lazily through the trie's DatabaseReader, and whose
   loaded / created nodes carry the dirty flag (Store/Model.v wnode).  Definitions only.

   node.go decodeNode(ref, blob): the node a reference resolves to is decoded with flags.ref = the reference (clean,
   version of the reference); every full / short node decoded *inside* it (an embedded child: decodeNode(nil, ..)) has
   flags.dirty = true; reference children stay refNodes (dec_top / dec_emb).
   trie.go newFlag(): every node created by insert / delete is dirty.  Where insert / delete return `false, n` (nothing
   changed below) the OLD node n is kept, whatever was resolved below it; only the reference case returns the node it
   resolved (`false, rn`).  tryGet keeps the flags of the nodes it copies (n.copy(): only the child pointer and the cache
   generation change), so a clean node stays clean with its reference child replaced by the loaded clean node.

   Paths: `prefix` is the absolute path of the node (the `prefix` argument of insert / delete, key[:pos] of tryGet) —
   it is what resolveRef hands to the reader.  `key` is the rest of the key.
   Recursion is by fuel, aligned with Trie/Model.v: one unit per key-consuming step; fuel = S (length key) always
   suffices.  Resolving a reference does not consume fuel: the reference case resolves and dispatches on the resolved
   node in the same step (Go: a second call of insert with the same key, which repeats the len(key) == 0 test with the
   same answer).  Two deviations, both unreachable on stores written by hasher.store:
     - a stored blob that is itself a reference (db.Put is only ever called with the encoding of a full or short node):
       Go would resolve again at the same path; the model reports an error (None);
     - where Go panics ("invalid node": a value node met with a non-empty key; index out of range on an exhausted key)
       the model returns its input unchanged, as Trie/Model.v does.
   A reader error (MissingNodeError) is None: Update / Get return the error and leave t.root as it was. *)
From Coq Require Import List NArith Bool Arith.
From Verif Require Import Trie.Model Store.Model.
Import ListNotations.
Local Open Scope nat_scope.

Section WorkTrie.
  Variable V : Type.
  Variable veqb : V -> V -> bool.
  Notation snode := (snode V).
  Notation wnode := (wnode V).
  Variable get : list nat -> ver -> option snode.          (* the handle's DatabaseReader (muxdb: caches, hist, deduped) *)

  (* node.go decodeNode(nil, ..): an embedded node *)
  Fixpoint dec_emb (b : snode) : wnode :=
    match b with
    | SNil => WNil
    | SValue v => WValue v
    | SShort k c => WShort k (dec_emb c) Dirty
    | SFull cs => WFull (map dec_emb cs) Dirty
    | SRef v => WRef v
    end.

  (* node.go mustDecodeNode(ref, blob, gen): the node a reference of version v resolves to *)
  Definition dec_top (v : ver) (b : snode) : wnode :=
    match b with
    | SShort k c => WShort k (dec_emb c) (Clean v)
    | SFull cs => WFull (map dec_emb cs) (Clean v)
    | _ => dec_emb b
    end.

  (* trie.go resolveRef / resolve *)
  Definition w_resolve_ref (prefix : list nat) (v : ver) : option wnode :=
    match get prefix v with Some b => Some (dec_top v b) | None => None end.
  Definition w_resolve (n : wnode) (prefix : list nat) : option wnode :=
    match n with WRef v => w_resolve_ref prefix v | _ => Some n end.

  Definition wis_nil (n : wnode) : bool := match n with WNil => true | _ => false end.
  Definition wchild (cs : list wnode) (i : nat) : wnode := nth i cs WNil.
  Fixpoint wupd (cs : list wnode) (i : nat) (x : wnode) : list wnode :=
    match cs, i with
    | [], _ => []
    | _ :: t, O => x :: t
    | c :: t, S j => c :: wupd t j x
    end.
  Definition wempty_children : list wnode := repeat WNil 17.

  (* the pos loop of delete *)
  Fixpoint wsingle_pos_from (cs : list wnode) (i : nat) : option nat :=
    match cs with
    | [] => None
    | c :: t =>
      if wis_nil c then wsingle_pos_from t (S i)
      else if forallb wis_nil t then Some i else None
    end.
  Definition wsingle_pos (cs : list wnode) : option nat := wsingle_pos_from cs 0.

  (* ---------------------------------------------------------------- tryGet *)
  (* result: value, the node that replaces n in its parent, didResolve *)
  Definition get_step (rec : wnode -> list nat -> list nat -> option (option V * wnode * bool))
             (n : wnode) (prefix key : list nat) : option (option V * wnode * bool) :=
    match n with
    | WNil => Some (None, WNil, false)
    | WValue v => Some (Some v, n, false)
    | WShort k c fl =>
      if prefix_len k key =? length k then
        match rec c (prefix ++ k) (skipn (length k) key) with
        | None => None
        | Some (val, c', dr) => Some (val, if dr then WShort k c' fl else n, dr)
        end
      else Some (None, n, false)
    | WFull cs fl =>
      match key with
      | [] => Some (None, n, false)                        (* Go: index out of range *)
      | i :: r =>
        match rec (wchild cs i) (prefix ++ [i]) r with
        | None => None
        | Some (val, c', dr) => Some (val, if dr then WFull (wupd cs i c') fl else n, dr)
        end
      end
    | WRef _ => None                                       (* a blob that is itself a reference: see the header *)
    end.

  Fixpoint w_get (fuel : nat) (n : wnode) (prefix key : list nat) {struct fuel} : option (option V * wnode * bool) :=
    match fuel with
    | O => Some (None, n, false)
    | S f =>
      match n with
      | WRef v =>
        match w_resolve_ref prefix v with
        | None => None
        | Some rn =>
          match get_step (w_get f) rn prefix key with
          | None => None
          | Some (val, nn, _) => Some (val, nn, true)
          end
        end
      | _ => get_step (w_get f) n prefix key
      end
    end.

  (* ---------------------------------------------------------------- insert *)
  (* one switch of insert on a node that is not a reference, the key being non-empty;
     rec is insert itself on the children (and on nil for the two sides of a split) *)
  Definition ins_step (rec : wnode -> list nat -> list nat -> wnode -> option (bool * wnode))
             (n : wnode) (prefix key : list nat) (x : wnode) : option (bool * wnode) :=
    match n with
    | WShort k c fl =>
      let m := prefix_len key k in
      if m =? length k then
        match rec c (prefix ++ firstn m key) (skipn m key) x with
        | None => None
        | Some (d, nn) => if d then Some (true, WShort k nn Dirty) else Some (false, n)
        end
      else
        match rec WNil (prefix ++ firstn (S m) k) (skipn (S m) k) c with
        | None => None
        | Some (_, b1) =>
          match rec WNil (prefix ++ firstn (S m) key) (skipn (S m) key) x with
          | None => None
          | Some (_, b2) =>
            let branch := WFull (wupd (wupd wempty_children (nth m k 0) b1) (nth m key 0) b2) Dirty in
            if m =? 0 then Some (true, branch) else Some (true, WShort (firstn m key) branch Dirty)
          end
        end
    | WFull cs fl =>
      match key with
      | [] => Some (false, n)                              (* not reached: ins_step is used with a non-empty key *)
      | i :: r =>
        match rec (wchild cs i) (prefix ++ [i]) r x with
        | None => None
        | Some (d, nn) => if d then Some (true, WFull (wupd cs i nn) Dirty) else Some (false, n)
        end
      end
    | WNil => Some (true, WShort key x Dirty)
    | WValue _ => Some (false, n)                          (* Go: panic "invalid node" *)
    | WRef _ => None                                       (* a blob that is itself a reference: see the header *)
    end.

  Fixpoint w_insert (fuel : nat) (n : wnode) (prefix key : list nat) (x : wnode) {struct fuel} : option (bool * wnode) :=
    match fuel with
    | O => Some (false, n)
    | S f =>
      match key with
      | [] =>
        match n, x with
        | WValue a, WValue b => Some (negb (veqb a b), x)
        | _, _ => Some (true, x)
        end
      | _ :: _ =>
        match n with
        | WRef v =>
          match w_resolve_ref prefix v with
          | None => None
          | Some rn =>
            match ins_step (w_insert f) rn prefix key x with
            | None => None
            | Some (d, nn) => if d then Some (true, nn) else Some (false, rn)
            end
          end
        | _ => ins_step (w_insert f) n prefix key x
        end
      end
    end.

  (* ---------------------------------------------------------------- delete *)
  Definition del_step (rec : wnode -> list nat -> list nat -> option (bool * wnode))
             (n : wnode) (prefix key : list nat) : option (bool * wnode) :=
    match n with
    | WShort k c fl =>
      let m := prefix_len key k in
      if m <? length k then Some (false, n)
      else if m =? length key then Some (true, WNil)
      else
        match rec c (prefix ++ firstn (length k) key) (skipn (length k) key) with
        | None => None
        | Some (d, ch) =>
          if d then
            match ch with
            | WShort k2 c2 _ => Some (true, WShort (k ++ k2) c2 Dirty)
            | _ => Some (true, WShort k ch Dirty)
            end
          else Some (false, n)
        end
    | WFull cs fl =>
      match key with
      | [] => Some (false, n)                              (* Go: index out of range *)
      | i :: r =>
        match rec (wchild cs i) (prefix ++ [i]) r with
        | None => None
        | Some (d, nn) =>
          if d then
            let cs' := wupd cs i nn in
            match wsingle_pos cs' with
            | Some pos =>
              if negb (pos =? 16) then
                (* the remaining entry is resolved just for the check; if it is not a short node the UNRESOLVED
                   entry n.children[pos] becomes the child of the new one-nibble short node *)
                match w_resolve (wchild cs' pos) (prefix ++ [pos]) with
                | None => None
                | Some (WShort k2 c2 _) => Some (true, WShort (pos :: k2) c2 Dirty)
                | Some _ => Some (true, WShort [pos] (wchild cs' pos) Dirty)
                end
              else Some (true, WShort [pos] (wchild cs' pos) Dirty)
            | None => Some (true, WFull cs' Dirty)
            end
          else Some (false, n)
        end
      end
    | WValue _ => Some (true, WNil)
    | WNil => Some (false, WNil)
    | WRef _ => None                                       (* a blob that is itself a reference: see the header *)
    end.

  Fixpoint w_delete (fuel : nat) (n : wnode) (prefix key : list nat) {struct fuel} : option (bool * wnode) :=
    match fuel with
    | O => Some (false, n)
    | S f =>
      match n with
      | WRef v =>
        match w_resolve_ref prefix v with
        | None => None
        | Some rn =>
          match del_step (w_delete f) rn prefix key with
          | None => None
          | Some (d, nn) => if d then Some (true, nn) else Some (false, rn)
          end
        end
      | _ => del_step (w_delete f) n prefix key
      end
    end.

  (* ---------------------------------------------------------------- the handle (trie.Trie) *)
  (* Trie.Get: value and the new t.root *)
  Definition wt_get (w : wnode) (key : list nat) : option (option V * wnode) :=
    match w_get (S (length key)) w [] key with
    | Some (val, w', _) => Some (val, w')
    | None => None
    end.

  (* Trie.Update on a hex key (the caller has applied keybytesToHex; None = empty value = delete): the new t.root *)
  Definition wt_update (w : wnode) (key : list nat) (ov : option V) : option wnode :=
    match (match ov with
           | Some v => w_insert (S (length key)) w [] key (WValue v)
           | None => w_delete (S (length key)) w [] key
           end) with
    | Some (_, w') => Some w'
    | None => None
    end.

  (* what a client does with a handle between two commits *)
  Inductive hop : Type :=
  | HGet (key : list nat)
  | HUpd (key : list nat) (ov : option V).

  Definition hop_key (o : hop) : list nat := match o with HGet k => k | HUpd k _ => k end.

  Fixpoint wt_run (ops : list hop) (w : wnode) : option wnode :=
    match ops with
    | [] => Some w
    | HGet k :: r => match wt_get w k with Some (_, w') => wt_run r w' | None => None end
    | HUpd k ov :: r => match wt_update w k ov with Some w' => wt_run r w' | None => None end
    end.

  (* Trie.Commit(db, newVer, skipHash): nothing for an empty trie; otherwise the root is resolved if it is still a
     reference and handed to hasher.store (Store/Model.v wstore).  Result: the new t.root and the entries put. *)
  Definition wt_commit (big : wnode -> bool) (skip : bool) (newv : ver) (w : wnode)
    : option (wnode * list (list nat * snode)) :=
    match w with
    | WNil => Some (WNil, [])
    | _ =>
      match w_resolve w [] with
      | Some r => Some (wstore V big skip newv [] r)
      | None => None
      end
    end.

  (* the paths of the dirty full / short nodes hasher.store visits (it descends through dirty nodes only) *)
  Fixpoint dirty_paths (path : list nat) (n : wnode) {struct n} : list (list nat) :=
    match n with
    | WShort k c Dirty => path :: dirty_paths (path ++ k) c
    | WFull cs Dirty =>
      path :: (fix go (l : list wnode) (i : nat) : list (list nat) :=
                 match l with
                 | [] => []
                 | c :: t => dirty_paths (path ++ [i]) c ++ go t (S i)
                 end) cs 0
    | _ => []
    end.
End WorkTrie.

Arguments HGet {V}.
Arguments HUpd {V}.

(* the logical counterpart of a list of handle operations: reads do not change the trie *)
Fixpoint lrun {V : Type} (veqb : V -> V -> bool) (ops : list (hop V)) (t : node V) : node V :=
  match ops with
  | [] => t
  | HGet _ :: r => lrun veqb r t
  | HUpd k ov :: r => lrun veqb r (trie_update V veqb t k ov)
  end.
