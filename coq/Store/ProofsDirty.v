(* Store/ProofsDirty.v — which nodes insert / delete on a working trie leave dirty: when they report `true` every full /
   short node of the result met along the key is dirty and no reference is left on that walk (so hasher.store, which
   descends through dirty nodes only, reaches and rewrites every node on the modified path); when they report `false`
   the old node is kept (ProofsWork.v w_insert_ok / w_delete_ok, last conjunct).  Purely structural: no hypothesis on the
   store or on the trie. *)
From Coq Require Import List NArith Bool Arith Lia.
From Verif Require Import Trie.Model Trie.Keys Store.Model Store.ProofsCommit Store.WorkTrie Store.ProofsWork.
Import ListNotations.
Local Open Scope nat_scope.

Section PD.
  Variable V : Type.
  Variable veqb : V -> V -> bool.
  Notation snode := (snode V).
  Notation wnode := (wnode V).
  Variable g : list nat -> ver -> option snode.

  (* walking n along key: every full / short node met is dirty and no reference is met, until the key leaves the trie,
     ends, or reaches a value / an empty slot *)
  Inductive Spine : wnode -> list nat -> Prop :=
  | Sp_nil key : Spine WNil key
  | Sp_val v key : Spine (WValue v) key
  | Sp_short_off k c key : prefix_len k key <> length k -> Spine (WShort k c Dirty) key
  | Sp_short_on k c key : prefix_len k key = length k -> Spine c (skipn (length k) key) -> Spine (WShort k c Dirty) key
  | Sp_full_end cs : Spine (WFull cs Dirty) []
  | Sp_full cs i r : Spine (wchild V cs i) r -> Spine (WFull cs Dirty) (i :: r).

  (* ---- lists ---- *)
  Lemma prefix_len_firstn : forall m (key : list nat), prefix_len (firstn m key) key = length (firstn m key).
  Proof.
    induction m as [|m IH]; intros key; [reflexivity|]. destruct key as [|a key]; [reflexivity|].
    cbn. rewrite Nat.eqb_refl, IH. reflexivity.
  Qed.

  Lemma prefix_len_app_same (k : list nat) : forall a b, prefix_len (k ++ a) (k ++ b) = length k + prefix_len a b.
  Proof. induction k as [|x k IH]; intros a b; cbn; [reflexivity|]. rewrite Nat.eqb_refl, IH. reflexivity. Qed.

  Lemma skipn_skipn {A} : forall x y (l : list A), skipn x (skipn y l) = skipn (y + x) l.
  Proof.
    intros x y. revert x. induction y as [|y IH]; intros x l; [reflexivity|].
    destruct l as [|a l]; cbn; [destruct x; reflexivity|]. apply IH.
  Qed.

  Lemma skipn_cons_nth (l : list nat) : forall m j r, skipn m l = j :: r -> nth m l 0 = j /\ skipn (S m) l = r.
  Proof.
    induction l as [|a l IH]; intros m j r H.
    - destruct m; discriminate.
    - destruct m as [|m]; cbn in H.
      + inversion H; subst. split; reflexivity.
      + apply IH in H. exact H.
  Qed.

  Lemma wchild_beyond (cs : list wnode) i : length cs <= i -> wchild V cs i = WNil.
  Proof. intros H. apply nth_overflow. exact H. Qed.

  (* the slot just written holds what was written (or nothing, if the index is beyond the children) *)
  Lemma spine_wupd_slot (cs : list wnode) i x r : Spine x r -> Spine (wchild V (wupd V cs i x) i) r.
  Proof.
    intros H. destruct (Nat.lt_ge_cases i (length cs)) as [L|L].
    - rewrite wchild_wupd_same by exact L. exact H.
    - rewrite wupd_beyond by exact L. rewrite wchild_beyond by exact L. constructor.
  Qed.

  (* a short node in front of a spine *)
  Lemma spine_prepend k k2 c2 f2 key :
    Spine (WShort k2 c2 f2) key -> Spine (WShort (k ++ k2) c2 Dirty) (k ++ key).
  Proof.
    intros H. inversion H; subst.
    - apply Sp_short_off. rewrite prefix_len_app_same, app_length. lia.
    - apply Sp_short_on.
      + rewrite prefix_len_app_same, app_length. lia.
      + rewrite app_length, <- skipn_skipn. rewrite skipn_app, Nat.sub_diag, skipn_all. cbn. assumption.
  Qed.

  Lemma spine_leaf (k : list nat) v : Spine (wmk_leaf V k (WValue v)) k.
  Proof.
    destruct k as [|a k]; cbn [wmk_leaf]; [constructor|].
    apply Sp_short_on; [apply prefix_len_refl|constructor].
  Qed.

  (* ---------------------------------------------------------------- insert *)
  Definition ins_spine (f : nat) : Prop := forall n p key v n',
    w_insert V veqb g f n p key (WValue v) = Some (true, n') -> Spine n' key.

  Lemma ins_step_spine f : ins_spine f -> forall n p key v n', key <> [] ->
    ins_step V (w_insert V veqb g f) n p key (WValue v) = Some (true, n') -> Spine n' key.
  Proof.
    intros IH n p key v n' Hkey H. destruct n as [|a|k c fl|cs fl|w]; cbn [ins_step] in H.
    - inversion H; subst. apply Sp_short_on; [apply prefix_len_refl|constructor].
    - discriminate.
    - set (m := prefix_len key k) in *.
      pose proof (prefix_len_le_r key k) as Hm. fold m in Hm.
      pose proof (prefix_len_le_l key k) as Hm'. fold m in Hm'.
      destruct (m =? length k) eqn:E.
      + apply Nat.eqb_eq in E.
        destruct (w_insert V veqb g f c (p ++ firstn m key) (skipn m key) (WValue v)) as [[d nn]|] eqn:E1; [|discriminate].
        destruct d; [|discriminate]. inversion H; subst n'.
        apply Sp_short_on; [rewrite prefix_len_comm; exact E|].
        rewrite <- E. eapply IH; eauto.
      + destruct (w_insert V veqb g f WNil (p ++ firstn (S m) k) (skipn (S m) k) c) as [[d1 b1]|]; [|discriminate].
        destruct (w_insert V veqb g f WNil (p ++ firstn (S m) key) (skipn (S m) key) (WValue v)) as [[d2 b2]|] eqn:E2; [|discriminate].
        assert (B2 : Spine b2 (skipn (S m) key)).
        { destruct f as [|f]; [cbn in E2; inversion E2; constructor|].
          rewrite w_insert_nil in E2. inversion E2; subst. apply spine_leaf. }
        assert (SB : Spine (WFull (wupd V (wupd V (wempty_children V) (nth m k 0) b1) (nth m key 0) b2) Dirty) (skipn m key)).
        { destruct (skipn m key) as [|j r] eqn:Es; [constructor|].
          destruct (skipn_cons_nth key m j r Es) as [Ej Er]. rewrite Ej, <- Er.
          apply Sp_full. apply spine_wupd_slot. exact B2. }
        set (branch := WFull (wupd V (wupd V (wempty_children V) (nth m k 0) b1) (nth m key 0) b2) Dirty) in *.
        destruct (m =? 0) eqn:Z; inversion H; subst n'.
        * apply Nat.eqb_eq in Z. assert (Es : skipn m key = key) by (rewrite Z; reflexivity). rewrite Es in SB. exact SB.
        * apply Sp_short_on; [apply prefix_len_firstn|].
          rewrite firstn_length_le by exact Hm'. exact SB.
    - destruct key as [|i r]; [congruence|].
      destruct (w_insert V veqb g f (wchild V cs i) (p ++ [i]) r (WValue v)) as [[d nn]|] eqn:E1; [|discriminate].
      destruct d; [|discriminate]. inversion H; subst n'.
      apply Sp_full. apply spine_wupd_slot. eapply IH; eauto.
    - discriminate.
  Qed.

  Theorem insert_spine : forall f, ins_spine f.
  Proof.
    induction f as [|f IH]; intros n p key v n' H; [cbn in H; discriminate|].
    destruct key as [|i r].
    - cbn [w_insert] in H. destruct n; inversion H; subst; constructor.
    - destruct n as [|a|k c fl|cs fl|w].
      1-4: (eapply ins_step_spine; [exact IH|discriminate|exact H]).
      cbn [w_insert] in H. destruct (w_resolve_ref V g p w) as [rn|]; [|discriminate].
      destruct (ins_step V (w_insert V veqb g f) rn p (i :: r) (WValue v)) as [[d nn]|] eqn:E1; [|discriminate].
      destruct d; [|discriminate]. inversion H; subst n'.
      eapply ins_step_spine; [exact IH|discriminate|exact E1].
  Qed.
  (* ---------------------------------------------------------------- delete *)
  Definition del_spine (f : nat) : Prop := forall n p key n',
    w_delete V g f n p key = Some (true, n') -> Spine n' key.

  Lemma spine_not_ref n key : Spine n key -> not_ref V n.
  Proof. intros H. inversion H; exact I. Qed.

  (* the one-nibble (or merged) short node that replaces a full node reduced to its entry at pos *)
  Lemma spine_collapse (cs : list wnode) i r pos nn cn :
    Spine nn r ->
    forall p, w_resolve V g (wchild V (wupd V cs i nn) pos) p = Some cn ->
    Spine (match cn with
           | WShort k2 c2 _ => WShort (pos :: k2) c2 Dirty
           | _ => WShort [pos] (wchild V (wupd V cs i nn) pos) Dirty
           end) (i :: r).
  Proof.
    intros Hn p Hr.
    destruct (Nat.eq_dec pos i) as [->|Ne].
    - (* the remaining entry is the slot just written *)
      pose proof (spine_wupd_slot cs i nn r Hn) as Hs.
      assert (Ec : cn = wchild V (wupd V cs i nn) i).
      { pose proof (spine_not_ref _ _ Hs) as Nr. destruct (wchild V (wupd V cs i nn) i); cbn in *; try congruence. contradiction. }
      rewrite <- Ec in *.
      destruct cn as [|a|k2 c2 f2|cs2 f2|w].
      + apply Sp_short_on; [cbn; rewrite Nat.eqb_refl; reflexivity|exact Hs].
      + apply Sp_short_on; [cbn; rewrite Nat.eqb_refl; reflexivity|exact Hs].
      + apply (spine_prepend [i] k2 c2 f2 r Hs).
      + apply Sp_short_on; [cbn; rewrite Nat.eqb_refl; reflexivity|exact Hs].
      + apply Sp_short_on; [cbn; rewrite Nat.eqb_refl; reflexivity|exact Hs].
    - assert (Z : forall k2, prefix_len (pos :: k2) (i :: r) <> length (pos :: k2)).
      { intros k2. cbn. apply Nat.eqb_neq in Ne. rewrite Ne. discriminate. }
      destruct cn; apply Sp_short_off; apply Z.
  Qed.

  Lemma del_step_spine f : del_spine f -> forall n p key n',
    del_step V g (w_delete V g f) n p key = Some (true, n') -> Spine n' key.
  Proof.
    intros IH n p key n' H. destruct n as [|a|k c fl|cs fl|w]; cbn [del_step] in H.
    - discriminate.
    - inversion H; constructor.
    - set (m := prefix_len key k) in *.
      pose proof (prefix_len_le_r key k) as Hm. fold m in Hm.
      destruct (m <? length k) eqn:E1; [discriminate|]. apply Nat.ltb_ge in E1.
      assert (Em : prefix_len k key = length k) by (rewrite prefix_len_comm; fold m; lia).
      destruct (m =? length key); [inversion H; constructor|].
      destruct (w_delete V g f c (p ++ firstn (length k) key) (skipn (length k) key)) as [[d ch]|] eqn:E2; [|discriminate].
      destruct d; [|discriminate].
      pose proof (IH _ _ _ _ E2) as Hs.
      destruct ch as [|a|k2 c2 f2|cs2 f2|w]; inversion H; subst n'.
      + apply Sp_short_on; auto.
      + apply Sp_short_on; auto.
      + rewrite (prefix_len_full k key Em) at 1. apply (spine_prepend k k2 c2 f2 _ Hs).
      + apply Sp_short_on; auto.
      + apply Sp_short_on; auto.
    - destruct key as [|i r]; [discriminate|].
      destruct (w_delete V g f (wchild V cs i) (p ++ [i]) r) as [[d nn]|] eqn:E2; [|discriminate].
      destruct d; [|discriminate].
      pose proof (IH _ _ _ _ E2) as Hs. cbv zeta in H.
      pose proof (spine_wupd_slot cs i nn r Hs) as Hslot.
      assert (Plain : forall pos, Spine (WShort [pos] (wchild V (wupd V cs i nn) pos) Dirty) (i :: r)).
      { intros pos. destruct (Nat.eq_dec pos i) as [->|Ne].
        - apply Sp_short_on; [cbn; rewrite Nat.eqb_refl; reflexivity|exact Hslot].
        - apply Sp_short_off. cbn. apply Nat.eqb_neq in Ne. rewrite Ne. discriminate. }
      destruct (wsingle_pos V (wupd V cs i nn)) as [pos|].
      + destruct (negb (pos =? 16)).
        * destruct (w_resolve V g (wchild V (wupd V cs i nn) pos) (p ++ [pos])) as [cn|] eqn:Er; [|discriminate].
          pose proof (spine_collapse cs i r pos nn cn Hs _ Er) as Hc.
          destruct cn; inversion H; subst n'; exact Hc.
        * inversion H; subst n'. apply Plain.
      + inversion H; subst n'. apply Sp_full. exact Hslot.
    - discriminate.
  Qed.

  Theorem delete_spine : forall f, del_spine f.
  Proof.
    induction f as [|f IH]; intros n p key n' H; [cbn in H; discriminate|].
    destruct n as [|a|k c fl|cs fl|w].
    1-4: (eapply del_step_spine; [exact IH|exact H]).
    cbn [w_delete] in H. destruct (w_resolve_ref V g p w) as [rn|]; [|discriminate].
    destruct (del_step V g (w_delete V g f) rn p key) as [[d nn]|] eqn:E1; [|discriminate].
    destruct d; [|discriminate]. inversion H; subst n'.
    eapply del_step_spine; [exact IH|exact E1].
  Qed.

  (* Trie.Update: whenever the root changes, it is dirty along the updated key *)
  Corollary update_spine w key ov d w' :
    (match ov with
     | Some v => w_insert V veqb g (S (length key)) w [] key (WValue v)
     | None => w_delete V g (S (length key)) w [] key
     end) = Some (d, w') -> d = true -> Spine w' key.
  Proof.
    intros H ->. destruct ov as [v|]; [eapply insert_spine; eauto|eapply delete_spine; eauto].
  Qed.
End PD.
