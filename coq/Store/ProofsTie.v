(* Store/ProofsTie.v — the executable checks the correspondence harness runs on the recorded writes of the real code mean
   what they are used for: link_check = 0 on the entries of a commit is the link condition of Store/ProofsPrune.v
   (the premise under which a canonical commit preserves the chain invariant), and prune_round is the round of the
   History theorems. *)
From Coq Require Import List NArith Bool Arith Lia.
From Verif Require Import Trie.Model Store.Model Store.Proofs Store.ProofsCommit Store.ProofsReach Store.ProofsPrune.
Import ListNotations.

Section PT.
  Variable V : Type.
  Variable veqb : V -> V -> bool.
  Hypothesis veqb_eq : forall a b, veqb a b = true -> a = b.
  Notation snode := (snode V).
  Notation store := (store V).

  Lemma snode_eqb_eq : forall a b : snode, snode_eqb V veqb a b = true -> a = b.
  Proof.
    fix IH 1. intros a b. destruct a as [|x|k c|cs|v], b as [|y|k' c'|cs'|v']; cbn; try discriminate; intros H.
    - reflexivity.
    - f_equal. apply veqb_eq; auto.
    - apply andb_true_iff in H. destruct H as [Hk Hc]. apply path_eqb_eq in Hk. f_equal; auto.
    - f_equal. revert cs' H. induction cs as [|c cs IHcs]; intros [|c' cs'] H; try discriminate; auto.
      apply andb_true_iff in H. destruct H as [Hc Ht]. f_equal; auto.
    - f_equal. apply ver_eqb_eq; auto.
  Qed.

  Lemma wfk_b_wfk : wfk_b V = wfk V.
  Proof. reflexivity. Qed.

  Lemma blob_ok_b_ok b : blob_ok_b V b = true -> blob_ok V b.
  Proof.
    unfold blob_ok_b, blob_ok. rewrite wfk_b_wfk. destruct b; try discriminate; intros H; (split; [exact I|exact H]).
  Qed.

  Lemma elookup_lookup q (es : list (list nat * snode)) : elookup V q es = lookup V q es.
  Proof. reflexivity. Qed.

  Lemma node_mem_In x l : node_mem V veqb x l = true -> In x l.
  Proof.
    unfold node_mem. rewrite existsb_exists. intros [y [I H]].
    apply andb_true_iff in H. destruct H as [H Hb]. apply andb_true_iff in H. destruct H as [Hp Hv].
    apply path_eqb_eq in Hp. apply ver_eqb_eq in Hv. apply snode_eqb_eq in Hb.
    destruct x as [[q w] b], y as [[q' w'] b']. cbn in *. subst. exact I.
  Qed.

  (* with no filter the iterator's report is what the resolution follows *)
  Lemma ver_ltb_zero w : ver_ltb w (0, 0)%N = false.
  Proof.
    unfold ver_ltb. cbn [fst snd]. apply orb_false_iff. split.
    - apply N.ltb_ge. lia.
    - apply andb_false_iff. right. apply N.ltb_ge. lia.
  Qed.

  Lemma Reach_ReachMin_zero g p n q w b : Reach V g p n q w b -> ReachMin V g (0, 0)%N p n q w b.
  Proof.
    induction 1.
    - apply ReachMin_short; auto.
    - eapply ReachMin_full; eauto.
    - apply ReachMin_here; auto. apply ver_ltb_zero.
    - eapply ReachMin_below; eauto. apply ver_ltb_zero.
  Qed.

  Lemma reach_list_spec f (s : store) name v l : reach_list V f s name v = Some l ->
    forall q w b, In (q, w, b) l <-> RR V (sget V s name) v q w b.
  Proof.
    intros H q w b. unfold reach_list in H. rewrite (iter_nodes_spec V _ _ _ _ _ _ H). unfold RR. split.
    - intros R. apply ReachMin_Reach in R. tauto.
    - apply Reach_ReachMin_zero.
  Qed.

  (* link_check = 0 on the recorded entries of a commit: the link condition towards the given parent root *)
  Theorem link_check_sound f (s : store) name newv es parent :
    link_check V veqb f s name newv es parent = 0%N ->
    (forall q w b, RR V (sget V (commit V s name newv es) name) newv q w b ->
       (w = newv /\ lookup V q es = Some b /\ blob_ok V b) \/
       (w <> newv /\ match parent with Some vp => RR V (sget V s name) vp q w b | None => False end)) /\
    (forall q b, In (q, b) es -> RR V (sget V (commit V s name newv es) name) newv q newv b).
  Proof.
    unfold link_check.
    destruct (reach_list V f (commit V s name newv es) name newv) as [new|] eqn:En; [|discriminate].
    destruct (match parent with Some vp => reach_list V f s name vp | None => Some [] end) as [old|] eqn:Eo; [|discriminate].
    destruct (forallb _ new) eqn:F1; cbn [negb]; [|discriminate].
    destruct (forallb _ es) eqn:F2; cbn [negb]; [|discriminate].
    destruct (forallb (fun e => blob_ok_b V (snd e)) es) eqn:F3; cbn [negb]; [|discriminate].
    intros _. rewrite forallb_forall in F1, F2, F3. split.
    - intros q w b R. apply (reach_list_spec _ _ _ _ _ En) in R. specialize (F1 _ R). cbn [fst snd] in F1.
      destruct (ver_eqb w newv) eqn:Ev.
      + apply ver_eqb_eq in Ev. left. split; auto.
        destruct (elookup V q es) as [b'|] eqn:El; [|discriminate]. apply snode_eqb_eq in F1. subst b'.
        rewrite elookup_lookup in El. split; auto.
        apply blob_ok_b_ok. apply (F3 (q, b)).
        clear - El. induction es as [|[p x] es IH]; cbn in El; [discriminate|].
        destruct (path_eqb q p) eqn:E; [|right; auto]. inversion El; subst. apply path_eqb_eq in E. subst. left; auto.
      + right. split; [intros ->; rewrite (proj2 (ver_eqb_eq newv newv) eq_refl) in Ev; discriminate|].
        apply node_mem_In in F1. destruct parent as [vp|].
        * apply (reach_list_spec _ _ _ _ _ Eo). exact F1.
        * inversion Eo; subst. destruct F1.
    - intros q b I. specialize (F2 _ I). cbn [fst snd] in F2. apply node_mem_In in F2.
      apply (reach_list_spec _ _ _ _ _ En). exact F2.
  Qed.

  (* hence a checked commit on top of a state satisfying the invariant keeps it (Inv_canonical_commit), once the new root
     resolves — which open_root on the model store decides *)
  Corollary checked_commit_keeps_invariant f (s : store) name chain P newv es t :
    Inv V s name chain P -> hist_fresh V s name newv -> (P <= fst newv)%N ->
    match chain with [] => True | vt :: _ => (fst (fst vt) < fst newv)%N end ->
    link_check V veqb f s name newv es (match chain with [] => None | vt :: _ => Some (fst vt) end) = 0%N ->
    Res V (sget V (commit V s name newv es) name) [] (SRef newv) t ->
    Inv V (commit V s name newv es) name ((newv, t) :: chain) P.
  Proof.
    intros HI Hfr HP Hlt Hlc HR. apply Inv_canonical_commit; auto.
    destruct (link_check_sound f s name newv es _ Hlc) as [H _].
    intros q w b R. destruct (H q w b R) as [X|[Hn X]]; [left; exact X|right].
    split; auto. destruct chain; auto.
  Qed.

  (* the round the harness asks the model for is the round of the History theorems *)
  Lemma prune_round_is_prune f (s : store) tries base target s' cps :
    prune_round V f s tries base target = Some (s', cps) ->
    s' = prune V s cps base target /\
    (forall name nodes, In (name, nodes) cps -> exists v, In (name, v) tries /\ checkpoint_nodes V f s name v base = Some nodes).
  Proof.
    unfold prune_round. destruct (checkpoint_all V f s tries base) as [cps0|] eqn:E; [|discriminate].
    intros H. inversion H as [[Hs Hc]]. subst cps0 s'. split; [reflexivity|]. clear H.
    revert cps E. induction tries as [|[nm v] tries IH]; intros cps E; cbn in E.
    - inversion E; subst. intros name nodes [].
    - destruct (checkpoint_nodes V f s nm v base) as [nd|] eqn:En; [|discriminate].
      destruct (checkpoint_all V f s tries base) as [r|] eqn:Er; [|discriminate].
      inversion E; subst. intros name nodes [I|I].
      + inversion I; subst. exists v. split; [left; auto|auto].
      + destruct (IH r eq_refl name nodes I) as [v' [I' Hc]]. exists v'. split; [right; auto|auto].
  Qed.
End PT.
