(* Store/ExamplesCompose.v — one store holding the accounts trie (name 0) and a storage trie (name 2), deduped partition
   factor 1 (df = Some 1), three blocks committing both, one round [0,2): instances of the History theorems for a storage
   trie (whose checkpointed root stays live), of state_read_preserved, of prune_round_cps_for and of the cache theorems
   with a non-empty cache. *)
From Coq Require Import List NArith Bool Arith Lia.
From Verif Require Import Trie.Model Store.Model Store.Proofs Store.ProofsCommit Store.ProofsReach Store.ProofsPrune Store.ProofsLink
  Store.ProofsCompose Store.ExamplesPrune.
Import ListNotations.

Definition zs0 : store nat := mkStore nat [] [] 2%N (Some 1%N).
Definition cmn (name : N) (s : store nat) (v : ver) (n : wnode nat) : store nat :=
  commit nat s name v (snd (wstore nat bigT false v [] n)).
Definition zs1 := cmn 2 zs0 v0 xn0.
Definition zs2 := cmn 0 zs1 v0 xn0.
Definition zs3 := cmn 2 zs2 v1 xn1.
Definition zs4 := cmn 0 zs3 v1 xn1.
Definition zs5 := cmn 2 zs4 v2 xn2.
Definition zs6 := cmn 0 zs5 v2 xn2.
Definition zchain : list (ver * node nat) := [(v2, xt2); (v1, xt1); (v0, xt0)].

Ltac other_tac := apply H_other; [|left; discriminate].
Ltac commit_tac name s chain v n t H tn tt :=
  apply (H_commit nat name s chain 0%N v bigT false n t H);
  [ fresh_tac | cbn; lia | first [exact I|cbn; lia] | unfold tn, leaf; coh_tac | unfold tn, tt, leaf, lf; wres_tac | exact I | ].

Lemma zH0 : History nat 0 zs6 zchain 0.
Proof.
  assert (H1 : History nat 0 zs1 [] 0) by (other_tac; apply H_init; reflexivity).
  assert (H2 : History nat 0 zs2 [(v0, xt0)] 0).
  { commit_tac 0%N zs1 (@nil (ver * node nat)) v0 xn0 xt0 H1 xn0 xt0. intros q w r T. unfold xn0, leaf in T. wtop_inv. }
  assert (H3 : History nat 0 zs3 [(v0, xt0)] 0) by (other_tac; exact H2).
  assert (H4 : History nat 0 zs4 [(v1, xt1); (v0, xt0)] 0).
  { commit_tac 0%N zs3 [(v0, xt0)] v1 xn1 xt1 H3 xn1 xt1. intros q w r T. unfold xn1, leaf in T. wtop_inv. cbn [fst]. reach_branch v0 v0. }
  assert (H5 : History nat 0 zs5 [(v1, xt1); (v0, xt0)] 0) by (other_tac; exact H4).
  commit_tac 0%N zs5 [(v1, xt1); (v0, xt0)] v2 xn2 xt2 H5 xn2 xt2. intros q w r T. unfold xn2, leaf in T. wtop_inv. cbn [fst]. reach_branch v1 v0.
Qed.

Lemma zH2 : History nat 2 zs6 zchain 0.
Proof.
  assert (H1 : History nat 2 zs1 [(v0, xt0)] 0).
  { commit_tac 2%N zs0 (@nil (ver * node nat)) v0 xn0 xt0 (H_init nat 2 zs0 0%N eq_refl) xn0 xt0. intros q w r T. unfold xn0, leaf in T. wtop_inv. }
  assert (H2 : History nat 2 zs2 [(v0, xt0)] 0) by (other_tac; exact H1).
  assert (H3 : History nat 2 zs3 [(v1, xt1); (v0, xt0)] 0).
  { commit_tac 2%N zs2 [(v0, xt0)] v1 xn1 xt1 H2 xn1 xt1. intros q w r T. unfold xn1, leaf in T. wtop_inv. cbn [fst]. reach_branch v0 v0. }
  assert (H4 : History nat 2 zs4 [(v1, xt1); (v0, xt0)] 0) by (other_tac; exact H3).
  assert (H5 : History nat 2 zs5 zchain 0).
  { commit_tac 2%N zs4 [(v1, xt1); (v0, xt0)] v2 xn2 xt2 H4 xn2 xt2. intros q w r T. unfold xn2, leaf in T. wtop_inv. cbn [fst]. reach_branch v1 v0. }
  other_tac. exact H5.
Qed.

(* the round [0,2) through the executable prune_round on both tries *)
Definition ztries : list (N * ver) := [(0%N, v1); (2%N, v1)].
Definition zround := Eval vm_compute in prune_round nat 10 zs6 ztries 0 2.
Definition zs7 : store nat := match zround with Some (s, _) => s | None => zs6 end.
Definition zcps := match zround with Some (_, c) => c | None => [] end.

Example z_round_is_prune : prune_round nat 10 zs6 ztries 0 2 = Some (zs7, zcps) /\ zs7 = prune nat zs6 zcps 0 2.
Proof. split; vm_compute; reflexivity. Qed.

(* prune_round_cps_for gives the checkpoint premise for both tries *)
Example z_cps_for : exists nodesA nodesS,
  checkpoint_nodes nat 10 zs6 0 v1 0 = Some nodesA /\ cps_for nat 0 zcps nodesA /\
  checkpoint_nodes nat 10 zs6 2 v1 0 = Some nodesS /\ cps_for nat 2 zcps nodesS.
Proof.
  assert (ND : NoDup (map fst ztries)) by (repeat constructor; cbn; intuition discriminate).
  destruct (prune_round_cps_for nat 10 zs6 ztries 0%N 2%N zs7 zcps 0%N v1 (proj1 z_round_is_prune) ND) as [nA [A1 A2]]; [left; reflexivity|].
  destruct (prune_round_cps_for nat 10 zs6 ztries 0%N 2%N zs7 zcps 2%N v1 (proj1 z_round_is_prune) ND) as [nS [S1 S2]]; [right; left; reflexivity|].
  exists nA, nS. auto.
Qed.

(* a state read after the round: block 2's account root, and the storage root (v1) its leaf is taken to name — the root the
   round checkpointed, in the deleted partition, served from the deduped space (partition 1/1) — reads the same trie *)
Example z_state_read : exists f0, forall f, (f0 <= f)%nat ->
  read_through_account nat f zs6 v2 2 v1 = Some xt1 /\
  read_through_account nat f (prune nat zs6 zcps 0 2) v2 2 v1 = Some xt1.
Proof.
  destruct z_cps_for as [nA [nS [A1 [A2 [S1 S2]]]]].
  apply (state_read_preserved nat zs6 2%N [(v2, xt2)] (v1, xt1) [(v0, xt0)] [(v2, xt2)] (v1, xt1) [(v0, xt0)] 0%N 0%N 2%N zcps
           10%nat nA 10%nat nS v2 xt2 v1 xt1); auto.
  - exact zH0.
  - exact zH2.
  - cbn; lia.
  - cbn; lia.
  - repeat constructor; cbn; lia.
  - cbn; lia.
  - repeat constructor; cbn; lia.
  - cbn; lia.
  - left; reflexivity.
  - right; left; reflexivity.
Qed.

Example z_reads_computed :
  open_root nat 10 zs7 2 v1 = Some xt1 /\ open_root nat 10 zs7 0 v1 = None /\
  hist_find nat (hist nat zs7) 2 [] v1 = None /\ read_through_account nat 10 zs7 v2 2 v1 = Some xt1.
Proof. repeat split; vm_compute; reflexivity. Qed.

(* a non-empty cache: it holds the branch node of the accounts trie (path [1], version v0) as read before the round *)
Definition zcache : list nat -> ver -> option (snode nat) :=
  fun p w => if path_eqb p [1%nat] && ver_eqb w v0 then sget nat zs6 0 p w else None.

Example z_cache : (exists b, zcache [1%nat] v0 = Some b) /\ cache_coherent nat zcache (sget nat zs6 0) /\
  Res nat (cached_get nat zcache (sget nat (prune nat zs6 zcps 0 2) 0)) [] (SRef v2) xt2.
Proof.
  assert (Hc : cache_coherent nat zcache (sget nat zs6 0)).
  { intros p w b H. unfold zcache in H. destruct (path_eqb p [1%nat] && ver_eqb w v0); [exact H|discriminate]. }
  split; [eexists; vm_compute; reflexivity|]. split; [exact Hc|].
  destruct z_cps_for as [nA [_ [A1 [A2 _]]]].
  apply (cache_survives_round nat 0%N zs6 [(v2, xt2)] (v1, xt1) [(v0, xt0)] 0%N 0%N 2%N zcps 10%nat nA zcache v2 xt2); auto.
  - exact zH0.
  - cbn; lia.
  - cbn; lia.
  - repeat constructor; cbn; lia.
  - cbn; lia.
  - left; reflexivity.
Qed.
