(* Store/Proofs.v — facts about the node store model: commits at a fresh version do not disturb resolvable roots,
   caches that only hold what the store holds are invisible, pruning leaves hist entries outside the deleted
   partitions alone and makes pruned account/index roots fail. *)
From Coq Require Import List NArith Bool Arith Lia.
From Verif Require Import Trie.Model Store.Model.
Import ListNotations.
Open Scope N_scope.

Lemma ver_eqb_eq a b : ver_eqb a b = true <-> a = b.
Proof.
  destruct a, b; unfold ver_eqb; cbn. rewrite andb_true_iff, !N.eqb_eq. split; [intros [-> ->]; auto|intros E; inversion E; auto].
Qed.

Section P.
  Variable V : Type.
  Notation snode := (snode V).
  Notation store := (store V).

  (* ---- getters that agree give the same expansion ---- *)
  Lemma expand_ext : forall f (g1 g2 : list nat -> ver -> option snode) p n,
    (forall p v, g2 p v = g1 p v) -> expand V f g2 p n = expand V f g1 p n.
  Proof.
    induction f; intros g1 g2 p n H; cbn; auto.
    destruct n; auto.
    - rewrite (IHf g1 g2) by auto. reflexivity.
    - assert (E : forall l i,
        (fix go (l : list snode) (i : nat) : option (list (node V)) :=
           match l with [] => Some [] | c :: t =>
             match expand V f g2 (p ++ [i]) c, go t (S i) with Some c', Some t' => Some (c' :: t') | _, _ => None end end) l i =
        (fix go (l : list snode) (i : nat) : option (list (node V)) :=
           match l with [] => Some [] | c :: t =>
             match expand V f g1 (p ++ [i]) c, go t (S i) with Some c', Some t' => Some (c' :: t') | _, _ => None end end) l i).
      { induction l; intros i; auto. rewrite (IHf g1 g2) by auto. rewrite IHl. reflexivity. }
      rewrite E. reflexivity.
    - rewrite H. destruct (g1 p v); auto.
  Qed.

  (* a getter extended only at a version that answered nothing before: successful expansions are unchanged *)
  Lemma expand_fresh : forall f (g1 g2 : list nat -> ver -> option snode) v0,
    (forall p v, v <> v0 -> g2 p v = g1 p v) -> (forall p, g1 p v0 = None) ->
    forall p n t, expand V f g1 p n = Some t -> expand V f g2 p n = Some t.
  Proof.
    induction f; intros g1 g2 v0 Hne Hfresh p n t H; cbn in *; [discriminate|].
    destruct n; auto.
    - destruct (expand V f g1 (p ++ k) n) eqn:E; [|discriminate].
      rewrite (IHf g1 g2 v0 Hne Hfresh _ _ _ E). auto.
    - assert (G : forall l i r,
        (fix go (l : list snode) (i : nat) : option (list (node V)) :=
           match l with [] => Some [] | c :: t =>
             match expand V f g1 (p ++ [i]) c, go t (S i) with Some c', Some t' => Some (c' :: t') | _, _ => None end end) l i = Some r ->
        (fix go (l : list snode) (i : nat) : option (list (node V)) :=
           match l with [] => Some [] | c :: t =>
             match expand V f g2 (p ++ [i]) c, go t (S i) with Some c', Some t' => Some (c' :: t') | _, _ => None end end) l i = Some r).
      { induction l; intros i r Hr; auto.
        destruct (expand V f g1 (p ++ [i]) a) eqn:E; [|discriminate].
        rewrite (IHf g1 g2 v0 Hne Hfresh _ _ _ E).
        match type of Hr with match ?X with _ => _ end = _ => destruct X eqn:E2; [|discriminate] end.
        rewrite (IHl _ _ E2). auto. }
      match type of H with match ?X with _ => _ end = _ => destruct X eqn:E; [|discriminate] end.
      rewrite (G _ _ _ E). auto.
    - destruct (g1 p v) eqn:E; [|discriminate].
      assert (v <> v0) by (intros ->; rewrite Hfresh in E; discriminate).
      rewrite Hne, E by auto. eapply IHf; eauto.
  Qed.

  (* ---- commit ---- *)
  Lemma hist_find_app_other (es : list (list nat * snode)) l name v name' p v' :
    (name' =? name) && ver_eqb v' v = false ->
    hist_find V (map (fun e => (name, fst e, v, snd e)) es ++ l) name' p v' = hist_find V l name' p v'.
  Proof.
    intros H. induction es as [|e es IH]; cbn; auto.
    replace ((name' =? name) && path_eqb p (fst e) && ver_eqb v' v) with false; auto.
    destruct (name' =? name), (path_eqb p (fst e)), (ver_eqb v' v); cbn in *; auto; discriminate.
  Qed.

  Lemma sget_commit_other (s : store) name v es name' p v' :
    (name' =? name) && ver_eqb v' v = false ->
    sget V (commit V s name v es) name' p v' = sget V s name' p v'.
  Proof.
    intros H. unfold sget, commit; cbn. rewrite hist_find_app_other by auto. reflexivity.
  Qed.

  (* Committing version v of trie `name` never changes what a resolvable root (name', v') resolves to, provided
     v is fresh for `name` (nothing in the store answers for (name, _, v) before the commit). *)
  Theorem commit_preserves_roots_lemma f (s : store) name v es name' v' t :
    (forall p, sget V s name p v = None) ->
    open_root V f s name' v' = Some t ->
    open_root V f (commit V s name v es) name' v' = Some t.
  Proof.
    intros Hfresh H. unfold open_root in *.
    destruct (name' =? name) eqn:En.
    - apply N.eqb_eq in En; subst name'.
      apply (expand_fresh f (sget V s name) (sget V (commit V s name v es) name) v); auto.
      intros p w Hw. apply sget_commit_other. rewrite N.eqb_refl; cbn.
      destruct (ver_eqb w v) eqn:E; auto. apply ver_eqb_eq in E. congruence.
    - rewrite (expand_ext f (sget V s name') (sget V (commit V s name v es) name')); auto.
      intros p w. apply sget_commit_other. rewrite En; auto.
  Qed.

  (* ---- caches ---- *)
  Definition cache_coherent (cache get : list nat -> ver -> option snode) : Prop :=
    forall p v b, cache p v = Some b -> get p v = Some b.

  Lemma cached_get_same cache get : cache_coherent cache get ->
    forall p v, cached_get V cache get p v = get p v.
  Proof. intros H p v. unfold cached_get. destruct (cache p v) eqn:E; auto. symmetry; auto. Qed.

  Theorem resolve_independent_of_cache_lemma f cache get p n :
    cache_coherent cache get -> expand V f (cached_get V cache get) p n = expand V f get p n.
  Proof. intros H. apply expand_ext. apply cached_get_same; auto. Qed.

  (* filling the cache with what was read or committed keeps it coherent *)
  Lemma cache_fill_coherent cache get p0 v0 b0 :
    cache_coherent cache get -> get p0 v0 = Some b0 ->
    cache_coherent (fun p v => if path_eqb p p0 && ver_eqb v v0 then get p v else cache p v) get.
  Proof.
    intros H G p v b. destruct (path_eqb p p0 && ver_eqb v v0); auto.
  Qed.

  (* ---- pruning ---- *)
  Lemma hist_find_filter (l : list (N * list nat * ver * snode)) (keep : ver -> bool) name p v :
    keep v = true ->
    hist_find V (filter (fun e => keep (snd (fst e))) l) name p v = hist_find V l name p v.
  Proof.
    intros K. induction l as [|[[[n' p'] v'] b] l IH]; cbn; auto.
    destruct (keep v') eqn:E; cbn.
    - rewrite IH. reflexivity.
    - rewrite IH. destruct ((name =? n') && path_eqb p p' && ver_eqb v v') eqn:M; auto.
      apply andb_true_iff in M. destruct M as [_ M]. apply ver_eqb_eq in M. subst. congruence.
  Qed.

  Lemma hist_find_filter_gone (l : list (N * list nat * ver * snode)) (keep : ver -> bool) name p v :
    keep v = false ->
    hist_find V (filter (fun e => keep (snd (fst e))) l) name p v = None.
  Proof.
    intros K. induction l as [|[[[n' p'] v'] b] l IH]; cbn; auto.
    destruct (keep v') eqn:E; cbn; auto.
    destruct ((name =? n') && path_eqb p p' && ver_eqb v v') eqn:M; auto.
    apply andb_true_iff in M. destruct M as [_ M]. apply ver_eqb_eq in M. subst. congruence.
  Qed.

  Definition checkpoints (s : store) (cps : list (N * list (list nat * ver * snode))) : store :=
    fold_left (fun st c => checkpoint V st (fst c) (snd c)) cps s.
  Definition prune (s : store) (cps : list (N * list (list nat * ver * snode))) (base target : N) : store :=
    delete_history V (checkpoints s cps) base target.

  Lemma checkpoints_hist (cps : list (N * list (list nat * ver * snode))) : forall s : store,
    hist V (checkpoints s cps) = hist V s /\ hf V (checkpoints s cps) = hf V s.
  Proof. unfold checkpoints. induction cps; cbn; intros; auto. destruct (IHcps (checkpoint V s (fst a) (snd a))); auto. Qed.

  (* every node written at a version outside the deleted partitions is served from hist exactly as before *)
  Theorem prune_keeps_hist_outside (s : store) cps base target name p v :
    in_deleted V s base target v = false ->
    hist_find V (hist V (prune s cps base target)) name p v = hist_find V (hist V s) name p v.
  Proof.
    intros H. unfold prune, delete_history; cbn.
    destruct (checkpoints_hist cps s) as [Eh Ef].
    rewrite Eh.
    rewrite (hist_find_filter (hist V s) (fun w => negb (in_deleted V (checkpoints s cps) base target w))); auto.
    unfold in_deleted in *. rewrite Ef. rewrite H. reflexivity.
  Qed.

  (* with an aligned target, "outside" is in particular every version at or above the target *)
  Lemma aligned_recent_outside (s : store) base target v :
    0 < hf V s -> target mod hf V s = 0 -> target <= fst v -> in_deleted V s base target v = false.
  Proof.
    intros Hf Ha Hv. unfold in_deleted.
    apply andb_false_iff. right. apply N.ltb_ge.
    apply N.div_le_mono; lia.
  Qed.

  (* a pruned root of the account / index trie fails: it is never looked up in the deduped space *)
  Theorem pruned_root_fails (s : store) cps base target name v :
    root_only name = true -> in_deleted V s base target v = true ->
    sget V (prune s cps base target) name [] v = None.
  Proof.
    intros R H. unfold sget.
    replace (hist_find V (hist V (prune s cps base target)) name [] v) with (@None snode).
    - cbn. rewrite R. reflexivity.
    - symmetry. unfold prune, delete_history; cbn.
      destruct (checkpoints_hist cps s) as [Eh Ef]. rewrite Eh.
      apply (hist_find_filter_gone (hist V s) (fun w => negb (in_deleted V (checkpoints s cps) base target w))).
      unfold in_deleted in *. rewrite Ef, H. reflexivity.
  Qed.
End P.
