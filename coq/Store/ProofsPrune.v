(* Store/ProofsPrune.v — the chain-history argument for pruning.

   One trie `name`; its canonical roots newest first (`chain`), each with the logical trie it resolved to when committed.
   Invariant (Inv): every live canonical root resolves to its trie; the nodes it follows are well-formed blobs, their
   versions do not increase downwards, and those at or above the pruned mark P are in the hist space; consecutive roots are
   `linked`: a node followed from a root is either written by that root's own commit or followed from its parent.
   Steps: a canonical commit (abstract here: its entries satisfy the link condition — ProofsLink.v proves hasher.store
   does), any other commit at a version that is fresh in the hist space (forks, other tries), and a pruner round
   (checkpoint of the last root below target through the version-filtered iterator, then partition delete).
   Result: the invariant is preserved by all three, so after any number of rounds every live root still resolves
   to exactly the trie committed. *)
From Coq Require Import List NArith Bool Arith Lia.
From Verif Require Import Trie.Model Store.Model Store.Proofs Store.ProofsCommit Store.ProofsReach.
Import ListNotations.
Open Scope N_scope.

Section PP.
  Variable V : Type.
  Notation snode := (snode V).
  Notation node := (node V).
  Notation store := (store V).
  Notation getter := (getter V).

  (* ---------------------------------------------------------------- the deduped space after checkpoints *)
  Lemma optn_eqb_eq a b : optn_eqb a b = true <-> a = b.
  Proof.
    destruct a, b; cbn; try (split; [discriminate|intros E; discriminate]); try tauto.
    rewrite N.eqb_eq. split; [intros ->; auto|intros E; inversion E; auto].
  Qed.

  Lemma dedup_find_app (l old : list (option N * N * list nat * snode)) pt name q b :
    (forall pt' q' b', In (pt', name, q', b') l -> pt' = pt -> q' = q -> b' = b) ->
    ((exists b', In (pt, name, q, b') l) \/ dedup_find V old pt name q = Some b) ->
    dedup_find V (l ++ old) pt name q = Some b.
  Proof.
    induction l as [|[[[pt' n'] q'] b'] l IH]; intros H1 H2; cbn.
    - destruct H2 as [[b' []]|H2]; auto.
    - destruct (optn_eqb pt pt' && (name =? n') && path_eqb q q') eqn:M.
      + apply andb_true_iff in M. destruct M as [M Mq]. apply andb_true_iff in M. destruct M as [Mp Mn].
        apply optn_eqb_eq in Mp. apply N.eqb_eq in Mn. apply path_eqb_eq in Mq. subst.
        f_equal. apply (H1 pt' q' b'); auto. left; auto.
      + apply IH.
        * intros pt0 q0 b0 I. apply H1. right; auto.
        * destruct H2 as [[b0 [E|I]]|H2]; auto.
          -- exfalso. inversion E; subst.
             assert (X : optn_eqb pt pt = true) by (apply optn_eqb_eq; auto).
             rewrite X, N.eqb_refl, path_eqb_refl in M. discriminate.
          -- left. eauto.
  Qed.

  Lemma dedup_find_checkpoint (s : store) name' nodes pt name q b :
    (forall q' w' b', name' = name -> In (q', w', b') nodes -> dptn V s (fst w') = pt -> q' = q -> b' = b) ->
    ((name' = name /\ exists w' b', In (q, w', b') nodes /\ dptn V s (fst w') = pt) \/
     dedup_find V (dedup V s) pt name q = Some b) ->
    dedup_find V (dedup V (checkpoint V s name' nodes)) pt name q = Some b.
  Proof.
    intros H1 H2. unfold checkpoint. cbn [dedup]. apply dedup_find_app.
    - intros pt' q' b' I Ept Eq. apply in_map_iff in I. destruct I as [[[q0 w0] b0] [E I]].
      cbn in E. inversion E; subst. apply in_rev in I. eapply H1; eauto.
    - destruct H2 as [[En [w' [b' [I Ept]]]]|H2]; auto.
      left. exists b'. apply in_map_iff. exists (q, w', b'). cbn. subst. split; auto. apply -> in_rev. exact I.
  Qed.

  Lemma dptn_checkpoint (s : store) name nodes m : dptn V (checkpoint V s name nodes) m = dptn V s m.
  Proof. reflexivity. Qed.

  Lemma dedup_find_checkpoints (cps : list (N * list (list nat * ver * snode))) : forall (s : store) pt name q b,
    (forall nodes q' w' b', In (name, nodes) cps -> In (q', w', b') nodes -> dptn V s (fst w') = pt -> q' = q -> b' = b) ->
    ((exists nodes w' b', In (name, nodes) cps /\ In (q, w', b') nodes /\ dptn V s (fst w') = pt) \/
     dedup_find V (dedup V s) pt name q = Some b) ->
    dedup_find V (dedup V (checkpoints V s cps)) pt name q = Some b.
  Proof.
    induction cps as [|[name' nodes] cps IH]; intros s pt name q b H1 H2.
    - cbn. destruct H2 as [[nodes [w' [b' [[] _]]]]|H2]; auto.
    - change (checkpoints V s ((name', nodes) :: cps)) with (checkpoints V (checkpoint V s name' nodes) cps).
      assert (Hd : dedup_find V (dedup V (checkpoint V s name' nodes)) pt name q = Some b ->
                   dedup_find V (dedup V (checkpoints V (checkpoint V s name' nodes) cps)) pt name q = Some b).
      { intros Hd. apply IH; auto. intros nodes0 q' w' b' I I' Ept Eq. eapply (H1 nodes0); eauto. right; auto. }
      destruct H2 as [[nodes0 [w' [b' [[E|I] [I' Ept]]]]]|H2].
      + inversion E; subst. apply Hd. apply dedup_find_checkpoint.
        * intros q' w0 b0 _ I0 Ept0 Eq. eapply (H1 nodes0); eauto. left; auto.
        * left. split; auto. eauto.
      + apply IH.
        * intros nodes1 q' w0 b0 I0 I1 Ept0 Eq. eapply (H1 nodes1); eauto. right; auto.
        * left. exists nodes0, w', b'. auto.
      + apply Hd. apply dedup_find_checkpoint; auto.
        intros q' w0 b0 En I0 Ept0 Eq. subst name'. eapply (H1 nodes); eauto. left; auto.
  Qed.

  (* the reader after a pruner round *)
  Lemma sget_prune (s : store) cps base target name q w :
    sget V (prune V s cps base target) name q w =
    match (if in_deleted V s base target w then None else hist_find V (hist V s) name q w) with
    | Some b => Some b
    | None => if is_root q && root_only name then None
              else dedup_find V (dedup V (checkpoints V s cps)) (dptn V s (fst w)) name q
    end.
  Proof.
    unfold sget.
    assert (Eh : hist_find V (hist V (prune V s cps base target)) name q w =
                 if in_deleted V s base target w then None else hist_find V (hist V s) name q w).
    { destruct (in_deleted V s base target w) eqn:D.
      - unfold prune, delete_history; cbn [hist].
        destruct (checkpoints_hist V cps s) as [Eh Ef]. rewrite Eh.
        apply (hist_find_filter_gone V (hist V s) (fun w0 => negb (in_deleted V (checkpoints V s cps) base target w0))).
        unfold in_deleted in *. rewrite Ef, D. reflexivity.
      - apply prune_keeps_hist_outside; auto. }
    rewrite Eh.
    replace (dptn V (prune V s cps base target) (fst w)) with (dptn V s (fst w)); [reflexivity|].
    unfold dptn, prune, delete_history. cbn [df]. rewrite checkpoints_df. reflexivity.
  Qed.

  (* ---------------------------------------------------------------- commits at another name / version *)
  Definition hist_fresh (s : store) (name : N) (v : ver) : Prop := forall p, hist_find V (hist V s) name p v = None.

  Lemma ver_eqb_false a b : a <> b -> ver_eqb a b = false.
  Proof. intros H. destruct (ver_eqb a b) eqn:E; auto. apply ver_eqb_eq in E. contradiction. Qed.

  Lemma commit_other_agrees (s : store) name' v' es name q w :
    name' <> name \/ w <> v' ->
    sget V (commit V s name' v' es) name q w = sget V s name q w /\
    hist_find V (hist V (commit V s name' v' es)) name q w = hist_find V (hist V s) name q w.
  Proof.
    intros H.
    assert (E : (name =? name') && ver_eqb w v' = false).
    { destruct H as [H|H].
      - replace (name =? name') with false; auto. symmetry. apply N.eqb_neq. congruence.
      - rewrite ver_eqb_false by auto. apply andb_false_r. }
    split; [apply sget_commit_other; auto|]. unfold commit. cbn [hist]. apply hist_find_app_other; auto.
  Qed.

  Lemma hist_find_commit (s : store) name v es q :
    hist_find V (hist V (commit V s name v es)) name q v =
    match lookup V q es with Some b => Some b | None => hist_find V (hist V s) name q v end.
  Proof.
    unfold commit. cbn [hist]. induction es as [|[p b] es IH]; cbn [map app hist_find lookup fst snd]; auto.
    rewrite N.eqb_refl. cbn [andb]. replace (ver_eqb v v) with true by (symmetry; apply ver_eqb_eq; auto).
    rewrite andb_true_r. destruct (path_eqb q p); auto.
  Qed.

  (* ---------------------------------------------------------------- the chain of canonical roots *)
  Definition RR (g : getter) (v : ver) q w b : Prop := Reach V g [] (SRef v) q w b.

  Fixpoint linked (g : getter) (vs : list ver) : Prop :=
    match vs with
    | [] => True
    | v :: rest =>
      match rest with
      | [] => forall q w b, RR g v q w b -> w = v \/ fst w < fst v
      | v' :: _ => fst v' < fst v /\ forall q w b, RR g v q w b -> w = v \/ RR g v' q w b
      end /\ linked g rest
    end.

  Lemma linked_bound g : forall rest v, linked g (v :: rest) -> forall q w b, RR g v q w b -> w = v \/ fst w < fst v.
  Proof.
    induction rest as [|v' rest IH]; intros v [H1 H2] q w b R.
    - exact (H1 q w b R).
    - destruct H1 as [Hlt Hst]. destruct (Hst q w b R) as [E|R']; auto.
      right. destruct (IH v' H2 q w b R') as [E|L]; [subst; auto|lia].
  Qed.

  Lemma linked_tail g : forall a b, linked g (a ++ b) -> linked g b.
  Proof. induction a as [|x a IH]; intros b H; auto. destruct H as [_ H]. auto. Qed.

  Lemma linked_descend g T : forall newer vi older, linked g (newer ++ vi :: older) ->
    Forall (fun v => T <= fst v) newer ->
    forall v, In v newer -> forall q w b, RR g v q w b -> fst w < T -> RR g vi q w b.
  Proof.
    induction newer as [|v0 newer IH]; intros vi older HL HF v Hin q w b R Hw; [destruct Hin|].
    inversion HF as [|x l Hv0 HF']; subst.
    destruct Hin as [->|Hin]; [|eapply IH; eauto; apply (linked_tail g [v0]); exact HL].
    destruct newer as [|v1 newer].
    - cbn in HL. destruct HL as [[_ Hst] _]. destruct (Hst q w b R) as [E|R']; auto. subst. lia.
    - cbn [app] in HL. destruct HL as [[_ Hst] HL']. destruct (Hst q w b R) as [E|R']; [subst; lia|].
      eapply (IH vi older); eauto. left; auto.
  Qed.

  Lemma linked_keep_anchor g : forall newer vi older, linked g (newer ++ vi :: older) -> linked g (newer ++ [vi]).
  Proof.
    induction newer as [|v0 newer IH]; intros vi older HL.
    - cbn. split; auto. apply (linked_bound g older vi). exact HL.
    - destruct HL as [H1 H2]. specialize (IH vi older H2). split; auto.
      destruct newer; exact H1.
  Qed.

  Lemma linked_drop_anchor g : forall newer vi older, linked g (newer ++ vi :: older) -> linked g newer.
  Proof.
    induction newer as [|v0 newer IH]; intros vi older HL; [exact I|].
    destruct HL as [H1 H2]. specialize (IH vi older H2). split; auto.
    destruct newer as [|v1 newer]; [|exact H1].
    cbn in H1. destruct H1 as [Hlt Hst]. intros q w b R. destruct (Hst q w b R) as [E|R']; auto.
    right. destruct (linked_bound g older vi H2 q w b R') as [E|L]; [subst; auto|lia].
  Qed.

  Lemma linked_ext g g' : forall vs,
    (forall v, In v vs -> forall q w b, RR g' v q w b <-> RR g v q w b) -> linked g vs -> linked g' vs.
  Proof.
    induction vs as [|v rest IH]; intros HE HL; [exact I|].
    destruct HL as [H1 H2]. split; [|apply IH; auto; intros; apply HE; right; auto].
    destruct rest as [|v' rest].
    - intros q w b R. apply (H1 q w b). apply HE; auto. left; auto.
    - destruct H1 as [Hlt Hst]. split; auto. intros q w b R.
      destruct (Hst q w b) as [E|R']; [apply HE; auto; left; auto|auto|].
      right. apply HE; auto. right; left; auto.
  Qed.

  (* ---------------------------------------------------------------- the invariant *)
  Definition root_ok (s : store) (name P : N) (vt : ver * node) : Prop :=
    Res V (sget V s name) [] (SRef (fst vt)) (snd vt) /\
    (forall q w b, RR (sget V s name) (fst vt) q w b -> blob_ok V b) /\
    (forall q w b q1 w1 b1, RR (sget V s name) (fst vt) q w b -> Reach V (sget V s name) q b q1 w1 b1 -> fst w1 <= fst w) /\
    (forall q w b, RR (sget V s name) (fst vt) q w b -> P <= fst w -> hist_find V (hist V s) name q w = Some b).

  Definition Inv (s : store) (name : N) (chain : list (ver * node)) (P : N) : Prop :=
    0 < hf V s /\ Forall (root_ok s name P) chain /\ linked (sget V s name) (map fst chain).

  (* a store that answers every followed reference of a root identically keeps the root *)
  Lemma root_ok_transfer (s s' : store) name P P' vt :
    root_ok s name P vt ->
    (forall q w b, RR (sget V s name) (fst vt) q w b -> sget V s' name q w = Some b) ->
    (forall q w b, RR (sget V s name) (fst vt) q w b -> P' <= fst w -> hist_find V (hist V s') name q w = Some b) ->
    root_ok s' name P' vt /\ (forall q w b, RR (sget V s' name) (fst vt) q w b <-> RR (sget V s name) (fst vt) q w b).
  Proof.
    intros [HR [Hb [Hm Hh]]] Hag Hh'.
    destruct (resolution_transfer V (sget V s name) (sget V s' name) [] (SRef (fst vt)) (snd vt) HR Hag) as [T1 [T2 T3]].
    split; [|exact T2].
    split; [exact T1|split; [|split]].
    - intros q w b R. apply (Hb q w b). apply T2; auto.
    - intros q w b q1 w1 b1 R R1. apply T2 in R. apply (Hm q w b q1 w1 b1 R). apply (T3 q w b q1 w1 b1 R). exact R1.
    - intros q w b R HP. apply Hh'; auto. apply T2; auto.
  Qed.

  Lemma Inv_transfer (s s' : store) name chain chain' P P' :
    Inv s name chain P -> 0 < hf V s' ->
    (forall vt, In vt chain' -> In vt chain) ->
    (forall vt, In vt chain' -> forall q w b, RR (sget V s name) (fst vt) q w b -> sget V s' name q w = Some b) ->
    (forall vt, In vt chain' -> forall q w b, RR (sget V s name) (fst vt) q w b -> P' <= fst w ->
                hist_find V (hist V s') name q w = Some b) ->
    linked (sget V s name) (map fst chain') ->
    Inv s' name chain' P'.
  Proof.
    intros [Hf [HF HL]] Hf' Hsub Hag Hh HL'.
    rewrite Forall_forall in HF.
    split; [auto|split].
    - apply Forall_forall. intros vt I.
      destruct (root_ok_transfer s s' name P P' vt (HF vt (Hsub vt I)) (Hag vt I) (Hh vt I)); auto.
    - apply (linked_ext (sget V s name)); auto.
      intros v I. apply in_map_iff in I. destruct I as [vt [<- I]].
      destruct (root_ok_transfer s s' name P P' vt (HF vt (Hsub vt I)) (Hag vt I) (Hh vt I)); auto.
  Qed.

  (* ---- a commit at a version that is fresh in the hist space and not below the pruned mark (forks of this trie), or of
     another trie, preserves the invariant *)
  Lemma followed_not_fresh (s : store) name chain P v' :
    Inv s name chain P -> hist_fresh s name v' -> P <= fst v' ->
    forall vt, In vt chain -> forall q w b, RR (sget V s name) (fst vt) q w b -> w <> v'.
  Proof.
    intros [_ [HF _]] Hfr HP vt I q w b R E. subst w.
    rewrite Forall_forall in HF. destruct (HF vt I) as [_ [_ [_ Hh]]].
    specialize (Hh q v' b R HP). rewrite (Hfr q) in Hh. discriminate.
  Qed.

  Theorem Inv_other_commit (s : store) name chain P name' v' es :
    Inv s name chain P -> name' <> name \/ (hist_fresh s name v' /\ P <= fst v') ->
    Inv (commit V s name' v' es) name chain P.
  Proof.
    intros HI Hc.
    assert (Hne : forall vt, In vt chain -> forall q w b, RR (sget V s name) (fst vt) q w b -> name' <> name \/ w <> v').
    { intros vt I q w b R. destruct Hc as [Hc|[Hfr HP]]; auto. right. eapply followed_not_fresh; eauto. }
    pose proof HI as [Hf [HF HL]]. rewrite Forall_forall in HF.
    apply (Inv_transfer s (commit V s name' v' es) name chain chain P P); auto.
    - intros vt I q w b R. destruct (commit_other_agrees s name' v' es name q w (Hne vt I q w b R)) as [E _].
      rewrite E. eapply Reach_get; eauto.
    - intros vt I q w b R HP. destruct (commit_other_agrees s name' v' es name q w (Hne vt I q w b R)) as [_ E].
      rewrite E. destruct (HF vt I) as [_ [_ [_ Hh]]]. auto.
  Qed.

  (* ---- a canonical commit: the new root's followed nodes are its own entries or nodes of the parent root *)
  Definition link_cond (s : store) name (chain : list (ver * node)) newv es : Prop :=
    forall q w b, RR (sget V (commit V s name newv es) name) newv q w b ->
      (w = newv /\ lookup V q es = Some b /\ blob_ok V b) \/
      (w <> newv /\ match chain with [] => False | vt :: _ => RR (sget V s name) (fst vt) q w b end).

  Theorem Inv_canonical_commit (s : store) name chain P newv es t :
    Inv s name chain P -> hist_fresh s name newv -> P <= fst newv ->
    match chain with [] => True | vt :: _ => fst (fst vt) < fst newv end ->
    link_cond s name chain newv es ->
    Res V (sget V (commit V s name newv es) name) [] (SRef newv) t ->
    Inv (commit V s name newv es) name ((newv, t) :: chain) P.
  Proof.
    intros HI Hfr HP Hlt Hlink HR.
    set (s' := commit V s name newv es) in *.
    assert (HI' : Inv s' name chain P) by (apply Inv_other_commit; auto).
    pose proof HI as [Hf [HF HL]]. pose proof HI' as [Hf' [HF' HL']].
    rewrite Forall_forall in HF, HF'.
    (* followed nodes of the old roots are the same in s and s' *)
    assert (Hsame : forall vt, In vt chain -> forall q w b, RR (sget V s' name) (fst vt) q w b <-> RR (sget V s name) (fst vt) q w b).
    { intros vt I.
      assert (Hne : forall q w b, RR (sget V s name) (fst vt) q w b -> name <> name \/ w <> newv).
      { intros q w b R. right. exact (followed_not_fresh s name chain P newv HI Hfr HP vt I q w b R). }
      destruct (root_ok_transfer s s' name P P vt (HF vt I)) as [_ X]; auto.
      - intros q w b R. destruct (commit_other_agrees s name newv es name q w (Hne q w b R)) as [E _].
        fold s' in E. rewrite E. eapply Reach_get; eauto.
      - intros q w b R HP'. destruct (commit_other_agrees s name newv es name q w (Hne q w b R)) as [_ E].
        fold s' in E. rewrite E. destruct (HF vt I) as [_ [_ [_ Hh]]]. auto. }
    assert (Hbound : forall q w b, RR (sget V s' name) newv q w b -> w = newv \/ fst w < fst newv).
    { intros q w b R. destruct (Hlink q w b R) as [[E _]|[_ Ho]]; auto.
      destruct chain as [|vt chain]; [contradiction|].
      right. destruct (linked_bound (sget V s name) (map fst chain) (fst vt) HL q w b Ho) as [E|L]; [subst; auto|lia]. }
    split; [auto|split].
    - constructor; [|apply Forall_forall; auto].
      split; [exact HR|split; [|split]]; cbn [fst snd].
      + intros q w b R. destruct (Hlink q w b R) as [[_ [_ Hb]]|[_ Ho]]; auto.
        destruct chain as [|vt chain]; [contradiction|].
        destruct (HF vt (or_introl eq_refl)) as [_ [Hb _]]. eauto.
      + intros q w b q1 w1 b1 R R1.
        destruct (Hlink q w b R) as [[E _]|[Hn Ho]].
        * subst w. destruct (Hbound q1 w1 b1 (Reach_trans V _ _ _ _ _ _ R _ _ _ R1)) as [E|L]; [subst; lia|lia].
        * destruct chain as [|vt chain]; [contradiction|].
          destruct (HF' vt (or_introl eq_refl)) as [_ [_ [Hm _]]].
          apply (Hm q w b q1 w1 b1); auto. apply Hsame; auto. left; auto.
      + intros q w b R HPw. destruct (Hlink q w b R) as [[E [Hl _]]|[Hn Ho]].
        * subst w. unfold s'. rewrite hist_find_commit, Hl. reflexivity.
        * destruct chain as [|vt chain]; [contradiction|].
          destruct (HF' vt (or_introl eq_refl)) as [_ [_ [_ Hh]]]. apply Hh; auto. apply Hsame; auto. left; auto.
    - cbn [map linked fst]. split; [|exact HL'].
      destruct chain as [|vt chain]; cbn [map].
      + intros q w b R. exact (Hbound q w b R).
      + split; [exact Hlt|]. intros q w b R. destruct (Hlink q w b R) as [[E _]|[_ Ho]]; auto.
        right. apply Hsame; auto. left; auto.
  Qed.

  (* ---------------------------------------------------------------- a pruner round *)
  Lemma root_ref_is_root g v w b : (forall q0 w0 b0, RR g v q0 w0 b0 -> blob_ok V b0) -> RR g v [] w b -> w = v.
  Proof.
    intros Hb R. unfold RR in *. inversion R as [| |p0 w0 b0 Hg|p0 w0 b0 q0 w1 b1 Hg R0]; subst; auto.
    exfalso. destruct (Hb [] v b0 (Reach_here V g [] v b0 Hg)) as [Hi Hk].
    pose proof (Reach_longer V g [] b0 [] w b Hi Hk R0). cbn in H. lia.
  Qed.

  Lemma aligned_below_outside (s : store) base target w :
    0 < hf V s -> base mod hf V s = 0 -> fst w < base -> in_deleted V s base target w = false.
  Proof.
    intros Hf Ha Hw. unfold in_deleted. apply andb_false_iff. left. apply N.leb_gt.
    apply N.div_lt_upper_bound; [lia|].
    rewrite (N.div_mod base (hf V s)) in Hw by lia. rewrite Ha, N.add_0_r in Hw. exact Hw.
  Qed.

  (* the checkpoints of this trie in the round: all of them are the iterator's report `nodes`, and it is there unless empty *)
  Definition cps_for (name : N) (cps : list (N * list (list nat * ver * snode))) (nodes : list (list nat * ver * snode)) : Prop :=
    (forall nodes', In (name, nodes') cps -> nodes' = nodes) /\ (nodes <> [] -> In (name, nodes) cps).

  Definition live_after (name : N) (newer : list (ver * node)) (anchor : ver * node) : list (ver * node) :=
    newer ++ (if root_only name then [] else [anchor]).

  Lemma prune_agrees (s : store) name P base target cps newer anchor older f nodes :
    Inv s name (newer ++ anchor :: older) P ->
    P <= base -> base <= target -> base mod hf V s = 0 -> target mod hf V s = 0 ->
    Forall (fun vt => target <= fst (fst vt)) newer -> fst (fst anchor) < target ->
    iter_nodes V f (sget V s name) (base, 0) [] (SRef (fst anchor)) = Some nodes ->
    cps_for name cps nodes ->
    forall vt, In vt (live_after name newer anchor) ->
    forall q w b, RR (sget V s name) (fst vt) q w b -> sget V (prune V s cps base target) name q w = Some b.
  Proof.
    intros [Hf [HF HL]] HPb Hbt Hab Hat Hnew Hanc Hit [Hc1 Hc2] vt Hin q w b R.
    rewrite Forall_forall in HF.
    assert (Ivt : In vt (newer ++ anchor :: older)).
    { unfold live_after in Hin. apply in_app_or in Hin. apply in_or_app.
      destruct Hin as [I|I]; auto. right. destruct (root_only name); [destruct I|destruct I as [<-|[]]; left; auto]. }
    assert (Ianc : In anchor (newer ++ anchor :: older)) by (apply in_or_app; right; left; auto).
    destruct (HF vt Ivt) as [_ [Hbv [_ Hhv]]].
    destruct (HF anchor Ianc) as [_ [Hba [Hma _]]].
    pose proof (Reach_get V _ _ _ _ _ _ R) as Hg.
    rewrite sget_prune.
    destruct (N.le_gt_cases target (fst w)) as [Hw|Hw].
    { (* written at or above the target: still in hist *)
      rewrite aligned_recent_outside by auto. rewrite (Hhv q w b R) by lia. reflexivity. }
    (* below the target: a node of the anchor root *)
    assert (Ra : RR (sget V s name) (fst anchor) q w b).
    { unfold live_after in Hin. apply in_app_or in Hin. destruct Hin as [I|I].
      - rewrite map_app in HL. cbn [map] in HL.
        apply (linked_descend (sget V s name) target (map fst newer) (fst anchor) (map fst older) HL) with (v := fst vt); auto.
        + apply Forall_forall. intros v Iv. apply in_map_iff in Iv. destruct Iv as [x [<- Ix]].
          rewrite Forall_forall in Hnew. auto.
        + apply in_map; auto.
      - destruct (root_only name); [destruct I|destruct I as [<-|[]]; exact R]. }
    destruct (if in_deleted V s base target w then None else hist_find V (hist V s) name q w) as [b'|] eqn:Eh.
    { (* still served from hist *)
      destruct (in_deleted V s base target w); [discriminate|].
      unfold sget in Hg. rewrite Eh in Hg. exact Hg. }
    assert (Hnr : is_root q && root_only name = false).
    { destruct q; [|reflexivity]. cbn [is_root andb].
      destruct (root_only name) eqn:Ero; auto. exfalso.
      unfold live_after in Hin. rewrite Ero, app_nil_r in Hin.
      pose proof (root_ref_is_root _ _ _ _ Hbv R) as E. subst w.
      rewrite Forall_forall in Hnew. specialize (Hnew vt Hin). cbn beta in Hnew. unfold ver in *. lia. }
    rewrite Hnr.
    destruct (N.le_gt_cases base (fst w)) as [Hbw|Hbw].
    - (* in [base, target): copied by the checkpoint *)
      assert (RM : ReachMin V (sget V s name) (base, 0) [] (SRef (fst anchor)) q w b).
      { apply Reach_ReachMin; auto. intros q0 w0 b0 R0 R1. eapply Hma; eauto. }
      assert (Inod : In (q, w, b) nodes) by (apply (iter_nodes_spec V _ _ _ _ _ _ Hit); auto).
      apply dedup_find_checkpoints.
      + intros nodes' q' w' b' I I' _ Eq. subst q'. rewrite (Hc1 nodes' I) in I'.
        apply (iter_nodes_spec V _ _ _ _ _ _ Hit) in I'. apply ReachMin_Reach in I'. destruct I' as [R' _].
        destruct (Reach_functional V _ _ _ _ _ _ Ra Hba eq_refl w' b' R'); auto.
      + left. exists nodes, w, b. split; [|split]; auto. apply Hc2. intros E. rewrite E in Inod. destruct Inod.
    - (* older than base: already in the deduped space, and this round does not write its path *)
      assert (Hd : in_deleted V s base target w = false) by (apply aligned_below_outside; auto).
      rewrite Hd in Eh. unfold sget in Hg. rewrite Eh, Hnr in Hg.
      apply dedup_find_checkpoints; auto.
      intros nodes' q' w' b' I I' _ Eq. subst q'. exfalso. rewrite (Hc1 nodes' I) in I'.
      apply (iter_nodes_spec V _ _ _ _ _ _ Hit) in I'. apply ReachMin_Reach in I'. destruct I' as [R' Hlt].
      destruct (Reach_functional V _ _ _ _ _ _ Ra Hba eq_refl w' b' R') as [E _]. subst w'.
      unfold ver_ltb in Hlt. cbn [fst snd] in Hlt. apply orb_false_iff in Hlt. destruct Hlt as [Hlt _].
      apply N.ltb_ge in Hlt. lia.
  Qed.

  Lemma hf_prune (s : store) cps base target : hf V (prune V s cps base target) = hf V s.
  Proof. unfold prune, delete_history. cbn [hf]. destruct (checkpoints_hist V cps s); auto. Qed.

  Theorem Inv_prune (s : store) name P base target cps newer anchor older f nodes :
    Inv s name (newer ++ anchor :: older) P ->
    P <= base -> base <= target -> base mod hf V s = 0 -> target mod hf V s = 0 ->
    Forall (fun vt => target <= fst (fst vt)) newer -> fst (fst anchor) < target ->
    iter_nodes V f (sget V s name) (base, 0) [] (SRef (fst anchor)) = Some nodes ->
    cps_for name cps nodes ->
    Inv (prune V s cps base target) name (live_after name newer anchor) target.
  Proof.
    intros HI HPb Hbt Hab Hat Hnew Hanc Hit Hcps.
    pose proof HI as [Hf [HF HL]]. rewrite Forall_forall in HF.
    assert (Hsub : forall vt, In vt (live_after name newer anchor) -> In vt (newer ++ anchor :: older)).
    { intros vt Hin. unfold live_after in Hin. apply in_app_or in Hin. apply in_or_app.
      destruct Hin as [I|I]; auto. right. destruct (root_only name); [destruct I|destruct I as [<-|[]]; left; auto]. }
    apply (Inv_transfer s (prune V s cps base target) name (newer ++ anchor :: older) (live_after name newer anchor) P target); auto.
    - rewrite hf_prune; auto.
    - intros vt Hin q w b R. eapply prune_agrees; eauto.
    - intros vt Hin q w b R Hw.
      rewrite prune_keeps_hist_outside by (apply aligned_recent_outside; auto).
      destruct (HF vt (Hsub vt Hin)) as [_ [_ [_ Hh]]]. apply Hh; auto. lia.
    - rewrite map_app in HL. cbn [map] in HL. unfold live_after. rewrite map_app.
      destruct (root_only name); cbn [map].
      + rewrite app_nil_r. eapply linked_drop_anchor; eauto.
      + eapply linked_keep_anchor; eauto.
  Qed.
End PP.
