(* Store/ProofsCommit.v — hasher.store (Store/Model.v wstore) is sound: what a commit writes, read back through the
   store, is the logical trie the working trie denoted; memory and store stay coherent. *)
From Coq Require Import List NArith Bool Arith Lia.
From Verif Require Import Trie.Model Store.Model Store.Proofs.
Import ListNotations.

Section PC.
  Variable V : Type.
  Notation snode := (snode V).
  Notation wnode := (wnode V).
  Notation node := (node V).
  Definition getter := list nat -> ver -> option snode.

  (* ---- resolution as a relation (no fuel) ---- *)
  Inductive Res (get : getter) : list nat -> snode -> node -> Prop :=
  | Res_nil p : Res get p SNil Nil
  | Res_val p v : Res get p (SValue v) (Value v)
  | Res_short p k c c' : Res get (p ++ k) c c' -> Res get p (SShort k c) (Short k c')
  | Res_full p cs cs' : ResL get p 0 cs cs' -> Res get p (SFull cs) (Full cs')
  | Res_ref p v b t : get p v = Some b -> Res get p b t -> Res get p (SRef v) t
  with ResL (get : getter) : list nat -> nat -> list snode -> list node -> Prop :=
  | ResL_nil p i : ResL get p i [] []
  | ResL_cons p i c c' t t' : Res get (p ++ [i]) c c' -> ResL get p (S i) t t' -> ResL get p i (c :: t) (c' :: t').

  Scheme Res_mut := Induction for Res Sort Prop
  with ResL_mut := Induction for ResL Sort Prop.

  Definition sub (g g' : getter) : Prop := forall p v b, g p v = Some b -> g' p v = Some b.

  Lemma Res_mono g g' : sub g g' -> forall p n t, Res g p n t -> Res g' p n t.
  Proof.
    intros S.
    apply (Res_mut g (fun p n t _ => Res g' p n t) (fun p i cs cs' _ => ResL g' p i cs cs')); intros; try (constructor; auto).
    eapply Res_ref; eauto.
  Qed.

  (* the fuel-based expand of Store/Model.v computes a resolution *)
  Lemma expand_Res : forall f (g : getter) p n t, expand V f g p n = Some t -> Res g p n t.
  Proof.
    induction f; intros g p n t H; cbn in H; [discriminate|].
    destruct n.
    - inversion H; constructor.
    - inversion H; constructor.
    - destruct (expand V f g (p ++ k) n) eqn:E; [|discriminate]. inversion H; subst. constructor; auto.
    - assert (G : forall l i r,
        (fix go (l : list snode) (i : nat) : option (list node) :=
           match l with [] => Some [] | c :: t0 =>
             match expand V f g (p ++ [i]) c, go t0 (S i) with Some c', Some t' => Some (c' :: t') | _, _ => None end end) l i = Some r ->
        ResL g p i l r).
      { induction l; intros i r Hr; [inversion Hr; constructor|].
        destruct (expand V f g (p ++ [i]) a) eqn:E; [|discriminate].
        match type of Hr with match ?X with _ => _ end = _ => destruct X eqn:E2; [|discriminate] end.
        inversion Hr; subst. constructor; auto. }
      match type of H with match ?X with _ => _ end = _ => destruct X eqn:E; [|discriminate] end.
      inversion H; subst. constructor. apply G; auto.
    - destruct (g p v) eqn:E; [|discriminate]. eapply Res_ref; eauto.
  Qed.

  (* ---- what a working trie denotes, and its coherence with the store ---- *)
  Inductive WRes (get : getter) : list nat -> wnode -> node -> Prop :=
  | WRes_nil p : WRes get p WNil Nil
  | WRes_val p v : WRes get p (WValue v) (Value v)
  | WRes_short p k c f c' : WRes get (p ++ k) c c' -> WRes get p (WShort k c f) (Short k c')
  | WRes_full p cs f cs' : WResL get p 0 cs cs' -> WRes get p (WFull cs f) (Full cs')
  | WRes_ref p v b t : get p v = Some b -> Res get p b t -> WRes get p (WRef v) t
  with WResL (get : getter) : list nat -> nat -> list wnode -> list node -> Prop :=
  | WResL_nil p i : WResL get p i [] []
  | WResL_cons p i c c' t t' : WRes get (p ++ [i]) c c' -> WResL get p (S i) t t' -> WResL get p i (c :: t) (c' :: t').

  Scheme WRes_mut := Induction for WRes Sort Prop
  with WResL_mut := Induction for WResL Sort Prop.

  (* a clean node's blob in the store is its encoding; no empty short keys (distinct paths) *)
  Inductive Coh (get : getter) : list nat -> wnode -> Prop :=
  | Coh_nil p : Coh get p WNil
  | Coh_val p v : Coh get p (WValue v)
  | Coh_ref p v : Coh get p (WRef v)
  | Coh_short p k c f : k <> [] -> Coh get (p ++ k) c ->
      (forall v, f = Clean v -> get p v = Some (enc V (WShort k c f))) -> Coh get p (WShort k c f)
  | Coh_full p cs f : CohL get p 0 cs ->
      (forall v, f = Clean v -> get p v = Some (enc V (WFull cs f))) -> Coh get p (WFull cs f)
  with CohL (get : getter) : list nat -> nat -> list wnode -> Prop :=
  | CohL_nil p i : CohL get p i []
  | CohL_cons p i c t : Coh get (p ++ [i]) c -> CohL get p (S i) t -> CohL get p i (c :: t).

  Scheme Coh_mut := Induction for Coh Sort Prop
  with CohL_mut := Induction for CohL Sort Prop.

  Lemma WRes_mono g g' : sub g g' -> forall p n t, WRes g p n t -> WRes g' p n t.
  Proof.
    intros S.
    apply (WRes_mut g (fun p n t _ => WRes g' p n t) (fun p i cs cs' _ => WResL g' p i cs cs')); intros; try (constructor; auto).
    eapply WRes_ref; eauto. eapply Res_mono; eauto.
  Qed.

  Lemma Coh_mono g g' : sub g g' -> forall p n, Coh g p n -> Coh g' p n.
  Proof.
    intros S.
    apply (Coh_mut g (fun p n _ => Coh g' p n) (fun p i cs _ => CohL g' p i cs)); intros; constructor; auto.
  Qed.

  Lemma enc_flag_short k c f f' : enc V (WShort k c f) = enc V (WShort k c f').
  Proof. reflexivity. Qed.
  Lemma enc_flag_full cs f f' : enc V (WFull cs f) = enc V (WFull cs f').
  Proof. reflexivity. Qed.
  Lemma enc_short k c f : enc V (WShort k c f) = SShort k (enc_child V c).
  Proof. reflexivity. Qed.
  Lemma enc_full cs f : enc V (WFull cs f) = SFull (map (enc_child V) cs).
  Proof. reflexivity. Qed.

  (* a coherent working trie: its encoding (inline or by reference) resolves to what it denotes *)
  Lemma coh_enc g : forall p n t, WRes g p n t -> Coh g p n -> Res g p (enc V n) t /\ Res g p (enc_child V n) t.
  Proof.
    apply (WRes_mut g (fun p n t _ => Coh g p n -> Res g p (enc V n) t /\ Res g p (enc_child V n) t)
                      (fun p i cs cs' _ => CohL g p i cs -> ResL g p i (map (enc_child V) cs) cs')).
    - intros p _. split; constructor.
    - intros p v _. split; constructor.
    - intros p k c f c' Hc IH HC. inversion HC as [| | |p0 k0 c0 f0 Hk Hcc Hf|]; subst.
      destruct (IH Hcc) as [_ I2].
      assert (E : Res g p (enc V (WShort k c f)) (Short k c')) by (rewrite enc_short; constructor; auto).
      split; auto. destruct f as [|v]; cbn [enc_child]; auto.
      eapply Res_ref; [apply (Hf v eq_refl)|exact E].
    - intros p cs f cs' Hc IH HC. inversion HC as [| | | |p0 cs0 f0 Hcc Hf]; subst.
      assert (E : Res g p (enc V (WFull cs f)) (Full cs')) by (rewrite enc_full; constructor; auto).
      split; auto. destruct f as [|v]; cbn [enc_child]; auto.
      eapply Res_ref; [apply (Hf v eq_refl)|exact E].
    - intros p v b t Hg Hr _. split; cbn; eapply Res_ref; eauto.
    - intros p i _. constructor.
    - intros p i c c' t t' Hc IHc Ht IHt HC. inversion HC; subst. cbn [map]. constructor; auto. apply IHc; auto.
  Qed.

  (* ---- hasher.store ---- *)
  Section Store.
    Variable big : wnode -> bool.
    Variable skip : bool.
    Variable newv : ver.

    Definition wchildren (path : list nat) (l : list wnode) (i : nat) : list wnode * list (list nat * snode) :=
      wchildren_with V (fun p c => wstore V big skip newv p c) path l i.
    Arguments wchildren : simpl never.

    Lemma wchildren_cons path c t i :
      wchildren path (c :: t) i =
      let '(c', ec) := if is_dirty_inner V c && (i <? 16)%nat
                       then wstore V big skip newv (path ++ [i]) c else (c, []) in
      let '(t', et) := wchildren path t (S i) in
      (c' :: t', ec ++ et).
    Proof. reflexivity. Qed.

    Lemma wchildren_nil path i : wchildren path [] i = ([], []).
    Proof. reflexivity. Qed.

    Lemma wstore_full path cs f :
      wstore V big skip newv path (WFull cs f) =
      let r := wchildren path cs 0 in
      let n1 := WFull (fst r) f in
      if is_root path || big n1 || skip
      then (WFull (fst r) (Clean newv), (path, enc V n1) :: snd r)
      else (n1, snd r).
    Proof. reflexivity. Qed.

    Lemma wstore_short path k c f :
      wstore V big skip newv path (WShort k c f) =
      let '(c', ec) := if is_dirty_inner V c then wstore V big skip newv (path ++ k) c else (c, []) in
      let n1 := WShort k c' f in
      if is_root path || skip
      then (WShort k c' (Clean newv), (path, enc V n1) :: ec)
      else (n1, ec).
    Proof. reflexivity. Qed.

    Definition storable (p : list nat) (n : wnode) : Prop := is_root p = true \/ is_dirty_inner V n = true.

    Variables g g' : getter.
    Hypothesis Hsub : sub g g'.

    Definition entries_in (es : list (list nat * snode)) : Prop := forall q b, In (q, b) es -> g' q newv = Some b.

    Lemma wstore_sound_local : forall p n t, WRes g p n t ->
      Coh g p n -> storable p n ->
      forall n' es, wstore V big skip newv p n = (n', es) -> entries_in es ->
      Coh g' p n' /\ WRes g' p n' t.
    Proof.
      apply (WRes_mut g
        (fun p n t _ => Coh g p n -> storable p n ->
           forall n' es, wstore V big skip newv p n = (n', es) -> entries_in es -> Coh g' p n' /\ WRes g' p n' t)
        (fun p i cs cts _ => CohL g p i cs ->
           forall cs' es, wchildren p cs i = (cs', es) -> entries_in es -> CohL g' p i cs' /\ WResL g' p i cs' cts)).
      - intros p _ _ n' es H _. inversion H; subst. split; constructor.
      - intros p v _ _ n' es H _. inversion H; subst. split; constructor.
      - (* short *)
        intros p k c f ct Hc IH HC Hst n' es H Hin.
        inversion HC as [| | |p0 k0 c0 f0 Hk Hcc Hf|]; subst.
        rewrite wstore_short in H.
        assert (Child : forall c' ec, (if is_dirty_inner V c then wstore V big skip newv (p ++ k) c else (c, [])) = (c', ec) ->
                        entries_in ec -> Coh g' (p ++ k) c' /\ WRes g' (p ++ k) c' ct).
        { intros c' ec E Hec. destruct (is_dirty_inner V c) eqn:D.
          - apply (IH Hcc (or_intror D) c' ec E Hec).
          - inversion E; subst. split; [eapply Coh_mono; eauto|eapply WRes_mono; eauto]. }
        destruct (if is_dirty_inner V c then wstore V big skip newv (p ++ k) c else (c, [])) as [c' ec] eqn:E.
        cbv zeta in H. destruct (is_root p || skip) eqn:St; inversion H; subst n' es.
        + destruct (Child c' ec eq_refl) as [C1 C2]. { intros q b I. apply Hin. right; auto. }
          split; [|constructor; auto]. constructor; auto.
          intros v Ev. inversion Ev; subst v. rewrite (enc_flag_short k c' (Clean newv) f). apply Hin. left; auto.
        + destruct (Child c' ec eq_refl Hin) as [C1 C2].
          split; [|constructor; auto]. constructor; auto.
          intros v Ev. exfalso. destruct Hst as [R|D]; [rewrite R in St; discriminate|]. subst f. cbn in D. discriminate.
      - (* full *)
        intros p cs f cts Hc IH HC Hst n' es H Hin.
        inversion HC as [| | | |p0 cs0 f0 Hcc Hf]; subst.
        rewrite wstore_full in H. cbv zeta in H.
        destruct (wchildren p cs 0) as [cs' ecs] eqn:E. cbn [fst snd] in H.
        destruct (is_root p || big (WFull cs' f) || skip) eqn:St; inversion H; subst n' es.
        + destruct (IH Hcc cs' ecs eq_refl) as [C1 C2]. { intros q b I. apply Hin. right; auto. }
          split; [|constructor; auto]. constructor; auto.
          intros v Ev. inversion Ev; subst v. rewrite (enc_flag_full cs' (Clean newv) f). apply Hin. left; auto.
        + destruct (IH Hcc cs' ecs eq_refl Hin) as [C1 C2].
          split; [|constructor; auto]. constructor; auto.
          intros v Ev. exfalso. destruct Hst as [R|D]; [rewrite R in St; discriminate|]. subst f. cbn in D. discriminate.
      - (* ref *)
        intros p v b t Hg Hr _ _ n' es H _. inversion H; subst. split; [constructor|].
        eapply WRes_ref; [apply Hsub; eauto|eapply Res_mono; eauto].
      - intros p i _ cs' es H _. rewrite wchildren_nil in H. inversion H; subst. split; constructor.
      - intros p i c ct t tt Hc IHc Ht IHt HC cs' es H Hin.
        inversion HC as [|p0 i0 c0 t0 Hc0 Ht0]; subst. rewrite wchildren_cons in H.
        destruct (if is_dirty_inner V c && (i <? 16)%nat then wstore V big skip newv (p ++ [i]) c else (c, [])) as [c' ec] eqn:E1.
        destruct (wchildren p t (S i)) as [t' et] eqn:E2. inversion H; subst cs' es.
        assert (Hec : entries_in ec) by (intros q b I; apply Hin; apply in_or_app; auto).
        assert (Het : entries_in et) by (intros q b I; apply Hin; apply in_or_app; auto).
        destruct (IHt Ht0 t' et eq_refl Het) as [T1 T2].
        assert (Cc : Coh g' (p ++ [i]) c' /\ WRes g' (p ++ [i]) c' ct).
        { destruct (is_dirty_inner V c && (i <? 16)%nat) eqn:D.
          - apply andb_true_iff in D. destruct D as [D _]. apply (IHc Hc0 (or_intror D) c' ec E1 Hec).
          - inversion E1; subst. split; [eapply Coh_mono; eauto|eapply WRes_mono; eauto]. }
        destruct Cc. split; constructor; auto.
    Qed.
  End Store.

  (* ---- the entries of one commit: distinct paths, found again by path ---- *)
  Lemma path_eqb_eq a : forall b, path_eqb a b = true <-> a = b.
  Proof.
    induction a as [|x a IH]; destruct b as [|y b]; cbn; try (split; [discriminate|intros E; discriminate]); try tauto.
    rewrite andb_true_iff, Nat.eqb_eq, IH. split; [intros [-> ->]; auto|intros E; inversion E; auto].
  Qed.
  Lemma path_eqb_refl a : path_eqb a a = true.
  Proof. apply path_eqb_eq; auto. Qed.

  Fixpoint lookup (q : list nat) (es : list (list nat * snode)) : option snode :=
    match es with
    | [] => None
    | (p, b) :: t => if path_eqb q p then Some b else lookup q t
    end.

  Lemma lookup_app q e1 e2 : lookup q (e1 ++ e2) = match lookup q e1 with Some b => Some b | None => lookup q e2 end.
  Proof. induction e1 as [|[p b] e1 IH]; cbn; auto. destruct (path_eqb q p); auto. Qed.

  Lemma lookup_none q es : (forall q' b', In (q', b') es -> q' <> q) -> lookup q es = None.
  Proof.
    induction es as [|[p b] es IH]; cbn; intros H; auto.
    destruct (path_eqb q p) eqn:E.
    - apply path_eqb_eq in E. exfalso. apply (H p b); auto.
    - apply IH. intros q' b' I. apply (H q' b'); auto.
  Qed.

  Section Paths.
    Variable big : wnode -> bool.
    Variable skip : bool.
    Variable newv : ver.
    Variable g : getter.

    Lemma wstore_paths : forall p n, Coh g p n ->
      forall q b, In (q, b) (snd (wstore V big skip newv p n)) ->
      (exists r, q = p ++ r) /\ lookup q (snd (wstore V big skip newv p n)) = Some b.
    Proof.
      apply (Coh_mut g
        (fun p n _ => forall q b, In (q, b) (snd (wstore V big skip newv p n)) ->
           (exists r, q = p ++ r) /\ lookup q (snd (wstore V big skip newv p n)) = Some b)
        (fun p i cs _ => forall q b, In (q, b) (snd (wchildren big skip newv p cs i)) ->
           (exists j r, (i <= j)%nat /\ q = p ++ j :: r) /\ lookup q (snd (wchildren big skip newv p cs i)) = Some b)).
      - intros p q b I. cbn in I. tauto.
      - intros p v q b I. cbn in I. tauto.
      - intros p v q b I. cbn in I. tauto.
      - (* short *)
        intros p k c f Hk Hc IH Hf q b I. rewrite wstore_short in *.
        assert (Child : forall c' ec, (if is_dirty_inner V c then wstore V big skip newv (p ++ k) c else (c, [])) = (c', ec) ->
                  forall q b, In (q, b) ec -> (exists r, q = (p ++ k) ++ r) /\ lookup q ec = Some b).
        { intros c' ec E q0 b0 I0. destruct (is_dirty_inner V c).
          - specialize (IH q0 b0). rewrite E in IH. cbn [snd] in IH. auto.
          - inversion E; subst. cbn in I0. tauto. }
        destruct (if is_dirty_inner V c then wstore V big skip newv (p ++ k) c else (c, [])) as [c' ec] eqn:E.
        cbv zeta in *. destruct (is_root p || skip); cbn [snd] in *.
        + destruct I as [I|I].
          * inversion I; subst. split; [exists []; rewrite app_nil_r; auto|]. cbn. rewrite path_eqb_refl. reflexivity.
          * destruct (Child c' ec eq_refl q b I) as [[r Er] L]. split; [exists (k ++ r); rewrite Er, app_assoc; auto|].
            cbn. destruct (path_eqb q p) eqn:Q; auto. apply path_eqb_eq in Q. exfalso.
            rewrite Er, <- app_assoc in Q. apply (f_equal (@length nat)) in Q. rewrite !app_length in Q.
            destruct k; [congruence|cbn in Q; lia].
        + destruct (Child c' ec eq_refl q b I) as [[r Er] L]. split; auto. exists (k ++ r). rewrite Er, app_assoc; auto.
      - (* full *)
        intros p cs f Hc IH Hf q b I. rewrite wstore_full in *. cbv zeta in *.
        destruct (wchildren big skip newv p cs 0) as [cs' ecs] eqn:E. cbn [fst snd] in *.
        destruct (is_root p || big (WFull cs' f) || skip); cbn [snd] in *.
        + destruct I as [I|I].
          * inversion I; subst. split; [exists []; rewrite app_nil_r; auto|]. cbn. rewrite path_eqb_refl. reflexivity.
          * destruct (IH q b I) as [[j [r [_ Er]]] L]. split; [exists (j :: r); auto|].
            cbn. destruct (path_eqb q p) eqn:Q; auto. apply path_eqb_eq in Q. exfalso.
            rewrite Er in Q. apply (f_equal (@length nat)) in Q. rewrite app_length in Q. cbn in Q. lia.
        + destruct (IH q b I) as [[j [r [_ Er]]] L]. split; auto. exists (j :: r); auto.
      - intros p i q b I. cbn in I. tauto.
      - (* children *)
        intros p i c t Hc IHc Ht IHt q b I. rewrite wchildren_cons in *.
        assert (Child : forall c' ec, (if is_dirty_inner V c && (i <? 16)%nat then wstore V big skip newv (p ++ [i]) c else (c, [])) = (c', ec) ->
                  forall q b, In (q, b) ec -> (exists r, q = p ++ i :: r) /\ lookup q ec = Some b).
        { intros c' ec E q0 b0 I0. destruct (is_dirty_inner V c && (i <? 16)%nat).
          - specialize (IHc q0 b0). rewrite E in IHc. cbn [snd] in IHc. destruct (IHc I0) as [[r Er] L].
            split; auto. exists r. rewrite Er, <- app_assoc. reflexivity.
          - inversion E; subst. cbn in I0. tauto. }
        destruct (if is_dirty_inner V c && (i <? 16)%nat then wstore V big skip newv (p ++ [i]) c else (c, [])) as [c' ec] eqn:E1.
        destruct (wchildren big skip newv p t (S i)) as [t' et] eqn:E2. cbn [snd] in *.
        rewrite lookup_app. apply in_app_or in I. destruct I as [I|I].
        + destruct (Child c' ec eq_refl q b I) as [[r Er] L]. rewrite L. split; auto. exists i, r; auto.
        + destruct (IHt q b I) as [[j [r [Lj Er]]] L].
          rewrite (lookup_none q ec).
          * split; auto. exists j, r; split; auto; lia.
          * intros q' b' I' Q. destruct (Child c' ec eq_refl q' b' I') as [[r' Er'] _].
            rewrite Er, Er' in Q. apply app_inv_head in Q. inversion Q. lia.
    Qed.
  End Paths.

  (* ---- the getter after a commit ---- *)
  Definition with_entries (g : getter) (v : ver) (es : list (list nat * snode)) : getter :=
    fun p w => if ver_eqb w v then match lookup p es with Some b => Some b | None => g p w end else g p w.

  Lemma sget_commit (s : store V) name v es p w :
    sget V (commit V s name v es) name p w = with_entries (sget V s name) v es p w.
  Proof.
    unfold with_entries, sget, commit. cbn [hist dedup hf df dptn].
    induction es as [|[q b] es IH]; cbn [map app hist_find lookup fst snd].
    - destruct (ver_eqb w v); reflexivity.
    - rewrite N.eqb_refl. cbn [andb]. rewrite (andb_comm (path_eqb p q)).
      destruct (ver_eqb w v) eqn:E; cbn [andb].
      + destruct (path_eqb p q); auto; rewrite E in IH; exact IH.
      + try (rewrite E in IH); exact IH.
  Qed.

  Definition is_inner (n : wnode) : Prop := match n with WShort _ _ _ | WFull _ _ => True | _ => False end.

  (* Trie.Commit(newVer): the root written by hasher.store, read back through the store, is the trie the handle denoted;
     the handle (with its new flags) still denotes it and is coherent with the new store *)
  Theorem commit_reads_back_lemma (s : store V) name newv big skip n t :
    (forall p, sget V s name p newv = None) ->
    Coh (sget V s name) [] n -> WRes (sget V s name) [] n t -> is_inner n ->
    let n' := fst (wstore V big skip newv [] n) in
    let s' := commit V s name newv (snd (wstore V big skip newv [] n)) in
    Res (sget V s' name) [] (SRef newv) t /\ Coh (sget V s' name) [] n' /\ WRes (sget V s' name) [] n' t.
  Proof.
    intros Fresh HC HW Hin n' s'.
    set (g := sget V s name) in *. set (es := snd (wstore V big skip newv [] n)) in *.
    set (g' := with_entries g newv es).
    assert (S1 : sub g g').
    { intros p w b H. unfold g', with_entries. destruct (ver_eqb w newv) eqn:E; auto.
      apply ver_eqb_eq in E; subst. rewrite Fresh in H. discriminate. }
    assert (S2 : sub g' (sget V s' name)) by (intros p w b H; unfold s'; rewrite sget_commit; exact H).
    assert (En : entries_in newv g' es).
    { intros q b I. unfold g', with_entries. assert (E : ver_eqb newv newv = true) by (apply ver_eqb_eq; auto). rewrite E.
      destruct (wstore_paths big skip newv g [] n HC q b I) as [_ L]. fold es in L. rewrite L. reflexivity. }
    destruct (wstore_sound_local big skip newv g g' S1 [] n t HW HC (or_introl eq_refl) n' es) as [C1 W1]; auto.
    { unfold n', es. destruct (wstore V big skip newv [] n); reflexivity. }
    assert (R1 : Res g' [] (SRef newv) t).
    { destruct (coh_enc g' [] n' t W1 C1) as [_ E2].
      assert (Cl : enc_child V n' = SRef newv).
      { unfold n'. destruct n; cbn in Hin; try contradiction.
        - rewrite wstore_short. destruct (if is_dirty_inner V n then _ else _). cbn. reflexivity.
        - rewrite wstore_full. cbn. reflexivity. }
      rewrite Cl in E2. exact E2. }
    split; [eapply Res_mono; eauto|split; [eapply Coh_mono; eauto|eapply WRes_mono; eauto]].
  Qed.

  (* ---- pruning: resolution with a condition on every reference that is followed ---- *)
  Inductive ResC (ok : list nat -> ver -> snode -> Prop) (get : getter) : list nat -> snode -> node -> Prop :=
  | ResC_nil p : ResC ok get p SNil Nil
  | ResC_val p v : ResC ok get p (SValue v) (Value v)
  | ResC_short p k c c' : ResC ok get (p ++ k) c c' -> ResC ok get p (SShort k c) (Short k c')
  | ResC_full p cs cs' : ResCL ok get p 0 cs cs' -> ResC ok get p (SFull cs) (Full cs')
  | ResC_ref p v b t : get p v = Some b -> ok p v b -> ResC ok get p b t -> ResC ok get p (SRef v) t
  with ResCL (ok : list nat -> ver -> snode -> Prop) (get : getter) : list nat -> nat -> list snode -> list node -> Prop :=
  | ResCL_nil p i : ResCL ok get p i [] []
  | ResCL_cons p i c c' t t' : ResC ok get (p ++ [i]) c c' -> ResCL ok get p (S i) t t' -> ResCL ok get p i (c :: t) (c' :: t').

  Scheme ResC_mut := Induction for ResC Sort Prop
  with ResCL_mut := Induction for ResCL Sort Prop.

  Lemma ResC_transfer (ok : list nat -> ver -> snode -> Prop) (g g' : getter) :
    (forall p v b, g p v = Some b -> ok p v b -> g' p v = Some b) ->
    forall p n t, ResC ok g p n t -> Res g' p n t.
  Proof.
    intros H.
    apply (ResC_mut ok g (fun p n t _ => Res g' p n t) (fun p i cs cs' _ => ResL g' p i cs cs')); intros; try (constructor; auto).
    eapply Res_ref; eauto.
  Qed.

  (* every reference followed while resolving is either stored (hist) at a version outside the deleted partitions, or
     its blob is what the deduped space holds for its path after the checkpoints (and it is not an account/index root) *)
  Definition survives (s : store V) (cps : list (N * list (list nat * ver * snode))) (base target : N) (name : N)
             (p : list nat) (v : ver) (b : snode) : Prop :=
    (in_deleted V s base target v = false /\ hist_find V (hist V s) name p v = Some b) \/
    (in_deleted V s base target v = true /\ (is_root p && root_only name = false) /\
     dedup_find V (dedup V (checkpoints V s cps)) (dptn V s (fst v)) name p = Some b).

  Lemma checkpoints_df (cps : list (N * list (list nat * ver * snode))) : forall s : store V, df V (checkpoints V s cps) = df V s.
  Proof. unfold checkpoints. induction cps; cbn; intros; auto. rewrite IHcps. reflexivity. Qed.

  (* prune_preserves_recent, conditional on the reachability lemma (every followed reference survives):
     a root that resolved before the checkpoint + delete round resolves to the same trie after it *)
  Theorem prune_preserves_resolution (s : store V) cps base target name p n t :
    ResC (survives s cps base target name) (sget V s name) p n t ->
    Res (sget V (prune V s cps base target) name) p n t.
  Proof.
    apply ResC_transfer. intros q v b Hg [[Nd Hh]|[Dl [Nr Dd]]].
    - unfold sget. rewrite (prune_keeps_hist_outside V s cps base target name q v Nd). rewrite Hh. reflexivity.
    - unfold sget.
      replace (hist_find V (hist V (prune V s cps base target)) name q v) with (@None snode).
      + rewrite Nr. unfold prune, delete_history. cbn [dedup df dptn].
        unfold dptn in Dd. rewrite <- (checkpoints_df cps s) in Dd. exact Dd.
      + symmetry. unfold prune, delete_history; cbn [hist].
        destruct (checkpoints_hist V cps s) as [Eh Ef]. rewrite Eh.
        apply (hist_find_filter_gone V (hist V s) (fun w => negb (in_deleted V (checkpoints V s cps) base target w))).
        unfold in_deleted in *. rewrite Ef, Dl. reflexivity.
  Qed.
End PC.
