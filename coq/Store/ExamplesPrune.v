(* Store/ExamplesPrune.v — a concrete history for the account trie (name 0): four canonical blocks v0..v3 and a two-block
   dead fork (1,1),(2,1) branching from block 0, on a store with HistPtnFactor 2 and the production deduped factor (none);
   then one pruner round [0,2) that checkpoints the root of block 1.  Used as the non-vacuity witness of the History
   theorems and as the model-level witness of finding F8. *)
From Coq Require Import List NArith Bool Arith Lia.
From Verif Require Import Trie.Model Store.Model Store.Proofs Store.ProofsCommit Store.ProofsReach Store.ProofsPrune Store.ProofsLink.
Import ListNotations.

Definition bigT : wnode nat -> bool := fun _ => true.        (* every full node has a hash: stored standalone *)
Definition leaf (k x : nat) : wnode nat := WShort [k; 16%nat] (WValue x) Dirty.
Definition lf (k x : nat) : node nat := Short [k; 16%nat] (Value x).

Definition v0 : ver := (0, 0)%N.
Definition v1 : ver := (1, 0)%N.
Definition v2 : ver := (2, 0)%N.
Definition v3 : ver := (3, 0)%N.
Definition w1 : ver := (1, 1)%N.                             (* the fork: block 1', block 2' *)
Definition w2 : ver := (2, 1)%N.

Definition xs0 : store nat := mkStore nat [] [] 2%N None.

(* working tries at commit time (children: 0 empty, 1 a branch with two leaves, 2 a leaf) *)
Definition xn0 : wnode nat := WFull [WNil; WFull [leaf 1 10; leaf 2 20] Dirty; leaf 3 1] Dirty.           (* genesis *)
Definition xn1 : wnode nat := WFull [WNil; WFull [leaf 1 10; leaf 2 20] (Clean v0); leaf 3 2] Dirty.      (* branch loaded, clean *)
Definition xf1 : wnode nat := WFull [WNil; WFull [leaf 1 99; leaf 2 20] Dirty; leaf 3 1] Dirty.           (* fork on block 0: rewrites the branch *)
Definition xf2 : wnode nat := WFull [WNil; WRef w1; leaf 3 7] Dirty.                                     (* fork on block 1': keeps its branch *)
Definition xn2 : wnode nat := WFull [WNil; WRef v0; leaf 3 3] Dirty.                                     (* branch not loaded *)
Definition xn3 : wnode nat := WFull [WNil; WFull [leaf 1 11; leaf 2 20] Dirty; leaf 3 3] Dirty.           (* rewrites the branch *)

Definition xt0 : node nat := Full [Nil; Full [lf 1 10; lf 2 20]; lf 3 1].
Definition xt1 : node nat := Full [Nil; Full [lf 1 10; lf 2 20]; lf 3 2].
Definition xt2 : node nat := Full [Nil; Full [lf 1 10; lf 2 20]; lf 3 3].
Definition xt3 : node nat := Full [Nil; Full [lf 1 11; lf 2 20]; lf 3 3].
Definition xtf2 : node nat := Full [Nil; Full [lf 1 99; lf 2 20]; lf 3 7].       (* what block 2' committed *)
Definition xtf2' : node nat := Full [Nil; Full [lf 1 10; lf 2 20]; lf 3 7].      (* what it reads after the round *)

Definition cm (s : store nat) (v : ver) (n : wnode nat) : store nat :=
  commit nat s 0 v (snd (wstore nat bigT false v [] n)).

Definition xs1 := cm xs0 v0 xn0.
Definition xs2 := cm xs1 v1 xn1.
Definition xs3 := cm xs2 w1 xf1.
Definition xs4 := cm xs3 w2 xf2.
Definition xs5 := cm xs4 v2 xn2.
Definition xs6 := cm xs5 v3 xn3.

Definition xnodes : list (list nat * ver * snode nat) :=
  Eval vm_compute in match checkpoint_nodes nat 10 xs6 0 v1 0 with Some l => l | None => [] end.
Definition xcps : list (N * list (list nat * ver * snode nat)) := [(0%N, xnodes)].
Definition xs7 := prune nat xs6 xcps 0 2.

Ltac coh_tac :=
  repeat first
    [ apply Coh_nil | apply Coh_val | apply Coh_ref | apply CohL_nil | apply CohL_cons
    | apply Coh_short; [discriminate| |let E := fresh in intros ? E; first [discriminate E|inversion E; subst; vm_compute; reflexivity]]
    | apply Coh_full; [|let E := fresh in intros ? E; first [discriminate E|inversion E; subst; vm_compute; reflexivity]] ].

Ltac wres_tac :=
  repeat first
    [ apply WRes_nil | apply WRes_val | apply WRes_short | apply WRes_full | apply WResL_nil | apply WResL_cons
    | eapply WRes_ref; [vm_compute; reflexivity|]
    | apply Res_nil | apply Res_val | apply Res_short | apply Res_full | apply ResL_nil | apply ResL_cons
    | eapply Res_ref; [vm_compute; reflexivity|] ].

Ltac wtop_inv :=
  repeat match goal with
  | H : WTop _ _ WNil _ _ _ |- _ => inversion H
  | H : WTop _ _ (WValue _) _ _ _ |- _ => inversion H
  | H : WTop _ _ (WShort _ _ _) _ _ _ |- _ => inversion H; subst; clear H
  | H : WTop _ _ (WFull _ _) _ _ _ |- _ => inversion H; subst; clear H
  | H : WTop _ _ (WRef _) _ _ _ |- _ => inversion H; subst; clear H
  | H : nth_error [] ?i = Some _ |- _ => destruct i; discriminate H
  | H : nth_error (_ :: _) ?i = Some _ |- _ => destruct i; cbn in H; [inversion H; subst; clear H|]
  end.

Ltac fresh_tac := apply hist_fresh_check; vm_compute; reflexivity.

(* the branch at path [1], version v, is a node of root r *)
Ltac reach_branch r v :=
  eexists; unfold RR;
  eapply Reach_below; [vm_compute; reflexivity|];
  eapply (Reach_full _ _ _ _ 1%nat); [reflexivity|];
  apply Reach_here; vm_compute; reflexivity.

Lemma xH1 : History nat 0 xs1 [(v0, xt0)] 0.
Proof.
  apply (H_commit nat 0 xs0 [] 0%N v0 bigT false xn0 xt0).
  - apply H_init. reflexivity.
  - intros p. reflexivity.
  - cbn; lia.
  - exact I.
  - unfold xn0, leaf. coh_tac.
  - unfold xn0, xt0, leaf, lf. wres_tac.
  - exact I.
  - intros q w r T. unfold xn0, leaf in T. wtop_inv.
Qed.

Lemma xH2 : History nat 0 xs2 [(v1, xt1); (v0, xt0)] 0.
Proof.
  apply (H_commit nat 0 xs1 _ 0%N v1 bigT false xn1 xt1 xH1).
  - fresh_tac.
  - cbn; lia.
  - cbn; lia.
  - unfold xn1, leaf. coh_tac.
  - unfold xn1, xt1, leaf, lf. wres_tac.
  - exact I.
  - intros q w r T. unfold xn1, leaf in T. wtop_inv. cbn [fst]. reach_branch v0 v0.
Qed.

Lemma xH4 : History nat 0 xs4 [(v1, xt1); (v0, xt0)] 0.
Proof.
  apply H_other; [apply H_other; [exact xH2|]|]; right; (split; [fresh_tac|cbn; lia]).
Qed.

Lemma xH5 : History nat 0 xs5 [(v2, xt2); (v1, xt1); (v0, xt0)] 0.
Proof.
  apply (H_commit nat 0 xs4 _ 0%N v2 bigT false xn2 xt2 xH4).
  - fresh_tac.
  - cbn; lia.
  - cbn; lia.
  - unfold xn2, leaf. coh_tac.
  - unfold xn2, xt2, leaf, lf. wres_tac.
  - exact I.
  - intros q w r T. unfold xn2, leaf in T. wtop_inv. cbn [fst]. reach_branch v1 v0.
Qed.

Lemma xH6 : History nat 0 xs6 [(v3, xt3); (v2, xt2); (v1, xt1); (v0, xt0)] 0.
Proof.
  apply (H_commit nat 0 xs5 _ 0%N v3 bigT false xn3 xt3 xH5).
  - fresh_tac.
  - cbn; lia.
  - cbn; lia.
  - unfold xn3, leaf. coh_tac.
  - unfold xn3, xt3, leaf, lf. wres_tac.
  - exact I.
  - intros q w r T. unfold xn3, leaf in T. wtop_inv.
Qed.

(* the round [0,2): blocks 2 and 3 stay live *)
Lemma xH7 : History nat 0 xs7 [(v3, xt3); (v2, xt2)] 2.
Proof.
  apply (H_prune nat 0 xs6 [(v3, xt3); (v2, xt2)] (v1, xt1) [(v0, xt0)] 0%N 0%N 2%N xcps 10 xnodes).
  - exact xH6.
  - cbn; lia.
  - cbn; lia.
  - reflexivity.
  - reflexivity.
  - repeat constructor; cbn; lia.
  - cbn; lia.
  - vm_compute. reflexivity.
  - split.
    + intros nodes' [E|[]]. inversion E. reflexivity.
    + intros _. left. reflexivity.
Qed.

(* what the round did, computed: two nodes checkpointed (the root of block 1 and the branch written by block 0);
   block 2 reads the branch from the deduped space; the pruned root of block 1 fails *)
Example x_checkpointed : map (fun e => fst e) xnodes = [([], v1); ([1%nat], v0)].
Proof. vm_compute. reflexivity. Qed.
Example x_block2_after : open_root nat 10 xs7 0 v2 = Some xt2 /\ hist_find nat (hist nat xs7) 0 [1%nat] v0 = None.
Proof. split; vm_compute; reflexivity. Qed.
Example x_block3_after : open_root nat 10 xs7 0 v3 = Some xt3.
Proof. vm_compute. reflexivity. Qed.
Example x_block1_after : open_root nat 10 xs7 0 v1 = None.
Proof. vm_compute. reflexivity. Qed.

(* F8 in the model: block 2' (version (2,1) >= target, on a fork that left the canonical chain below block target-1)
   resolved to xtf2 before the round and resolves — silently — to a different trie after it *)
Example x_fork_before : open_root nat 10 xs6 0 w2 = Some xtf2.
Proof. vm_compute. reflexivity. Qed.
Example x_fork_after : open_root nat 10 xs7 0 w2 = Some xtf2'.
Proof. vm_compute. reflexivity. Qed.
Example x_fork_differs : xtf2 <> xtf2'.
Proof. discriminate. Qed.

(* ---- a second round [2,4) on the pruned store: blocks 4 and 5 keep the branch written by block 3 by reference; the
   checkpoint of block 3 overwrites the deduped entry of path [1] (the deduped key has no version) *)
Definition v4 : ver := (4, 0)%N.
Definition v5 : ver := (5, 0)%N.
Definition xn4 : wnode nat := WFull [WNil; WFull [leaf 1 11; leaf 2 20] (Clean v3); leaf 3 4] Dirty.
Definition xn5 : wnode nat := WFull [WNil; WRef v3; leaf 3 5] Dirty.
Definition xt4 : node nat := Full [Nil; Full [lf 1 11; lf 2 20]; lf 3 4].
Definition xt5 : node nat := Full [Nil; Full [lf 1 11; lf 2 20]; lf 3 5].
Definition xs8 := cm xs7 v4 xn4.
Definition xs9 := cm xs8 v5 xn5.
Definition xnodes2 : list (list nat * ver * snode nat) :=
  Eval vm_compute in match checkpoint_nodes nat 10 xs9 0 v3 2 with Some l => l | None => [] end.
Definition xcps2 : list (N * list (list nat * ver * snode nat)) := [(0%N, xnodes2)].
Definition xs10 := prune nat xs9 xcps2 2 4.

Lemma xH8 : History nat 0 xs8 [(v4, xt4); (v3, xt3); (v2, xt2)] 2.
Proof.
  apply (H_commit nat 0 xs7 _ 2%N v4 bigT false xn4 xt4 xH7).
  - fresh_tac.
  - cbn; lia.
  - cbn; lia.
  - unfold xn4, leaf. coh_tac.
  - unfold xn4, xt4, leaf, lf. wres_tac.
  - exact I.
  - intros q w r T. unfold xn4, leaf in T. wtop_inv. cbn [fst]. reach_branch v3 v3.
Qed.

Lemma xH9 : History nat 0 xs9 [(v5, xt5); (v4, xt4); (v3, xt3); (v2, xt2)] 2.
Proof.
  apply (H_commit nat 0 xs8 _ 2%N v5 bigT false xn5 xt5 xH8).
  - fresh_tac.
  - cbn; lia.
  - cbn; lia.
  - unfold xn5, leaf. coh_tac.
  - unfold xn5, xt5, leaf, lf. wres_tac.
  - exact I.
  - intros q w r T. unfold xn5, leaf in T. wtop_inv. cbn [fst]. reach_branch v4 v3.
Qed.

Lemma xH10 : History nat 0 xs10 [(v5, xt5); (v4, xt4)] 4.
Proof.
  apply (H_prune nat 0 xs9 [(v5, xt5); (v4, xt4)] (v3, xt3) [(v2, xt2)] 2%N 2%N 4%N xcps2 10 xnodes2).
  - exact xH9.
  - cbn; lia.
  - cbn; lia.
  - reflexivity.
  - reflexivity.
  - repeat constructor; cbn; lia.
  - cbn; lia.
  - vm_compute. reflexivity.
  - split.
    + intros nodes' [E|[]]. inversion E. reflexivity.
    + intros _. left. reflexivity.
Qed.

Example x_round2 : map (fun e => fst e) xnodes2 = [([], v3); ([1%nat], v3)] /\
  open_root nat 10 xs10 0 v4 = Some xt4 /\ open_root nat 10 xs10 0 v5 = Some xt5 /\
  open_root nat 10 xs10 0 v2 = None /\ open_root nat 10 xs10 0 w2 = None.
Proof. repeat split; vm_compute; reflexivity. Qed.

(* ---- never_silently_different over all roots of a trie, canonical or not: refuted by block 2' (finding F8) ---- *)
(* "whatever root of the trie resolved before a pruner round of a valid history and still resolves after it, resolves to
   the same trie" *)
Definition never_silently_different_statement (V : Type) : Prop :=
  forall name (s : store V) newer anchor older P base target cps f nodes,
    History V name s (newer ++ anchor :: older) P ->
    (P <= base)%N -> (base <= target)%N -> (base mod hf V s = 0)%N -> (target mod hf V s = 0)%N ->
    Forall (fun vt => (target <= fst (fst vt))%N) newer -> (fst (fst anchor) < target)%N ->
    checkpoint_nodes V f s name (fst anchor) base = Some nodes ->
    cps_for V name cps nodes ->
    forall fu v t t', open_root V fu s name v = Some t -> open_root V fu (prune V s cps base target) name v = Some t' -> t = t'.

Lemma never_silently_different_refuted : ~ never_silently_different_statement nat.
Proof.
  intros H.
  apply x_fork_differs.
  apply (H 0%N xs6 [(v3, xt3); (v2, xt2)] (v1, xt1) [(v0, xt0)] 0%N 0%N 2%N xcps 10%nat xnodes xH6) with (fu := 10%nat) (v := w2).
  - cbn; lia.
  - cbn; lia.
  - reflexivity.
  - reflexivity.
  - repeat constructor; cbn; lia.
  - cbn; lia.
  - vm_compute. reflexivity.
  - split.
    + intros nodes' [E|[]]. inversion E. reflexivity.
    + intros _. left. reflexivity.
  - exact x_fork_before.
  - exact x_fork_after.
Qed.

(* ---- on the pruned store xs7 (after round [0,2)): the reader is no longer silent at a new version (the premise of
   commit_preserves_roots / commit_reads_back fails), while the premises of their any-store forms hold ---- *)
Example x_old_freshness_fails : sget nat xs7 0 [1%nat] v4 <> None.
Proof. vm_compute. discriminate. Qed.

Example x_commit_any_premise : forall q w b, Reach nat (sget nat xs7 0) [] (SRef v3) q w b -> w <> v4.
Proof.
  intros q w b R.
  apply (followed_not_fresh nat xs7 0 [(v3, xt3); (v2, xt2)] 2%N v4 (History_Inv nat 0 xs7 _ 2%N xH7)) with (vt := (v3, xt3)) (q := q) (b := b).
  - fresh_tac.
  - cbn; lia.
  - left; reflexivity.
  - exact R.
Qed.

Example x_commit_after_prune : open_root nat 10 xs8 0 v3 = Some xt3 /\ Res nat (sget nat xs8 0) [] (SRef v4) xt4.
Proof.
  split; [vm_compute; reflexivity|].
  apply (history_roots_resolve nat 0 xs8 _ 2%N v4 xt4 xH8). left; reflexivity.
Qed.

(* the conditional theorem's premise on the first round: every node root v2 follows survives *)
Example x_survives : ResC nat (survives nat xs6 xcps 0 2 0) (sget nat xs6 0) [] (SRef v2) xt2.
Proof.
  unfold xt2, lf.
  repeat first
    [ apply ResC_nil | apply ResC_val | apply ResC_short | apply ResC_full | apply ResCL_nil | apply ResCL_cons
    | eapply ResC_ref;
      [ vm_compute; reflexivity
      | first [ left; split; vm_compute; reflexivity | right; split; [|split]; vm_compute; reflexivity ]
      | ] ].
Qed.
