(* Store/ProofsReach.v — which stored nodes a resolution follows (Reach), independent of what they resolve to:
   transfer of a resolution between two stores that agree on the followed references, one node per path,
   and the specification of the version-filtered iterator (Store/Model.v iter_nodes = trie/iterator.go with minVer). *)
From Coq Require Import List NArith Bool Arith Lia.
From Verif Require Import Trie.Model Store.Model Store.Proofs Store.ProofsCommit.
Import ListNotations.

Section PR.
  Variable V : Type.
  Notation snode := (snode V).
  Notation node := (node V).
  Notation getter := (getter V).

  (* Reach g p n q w b: resolving the stored node n (sitting at path p) through g loads the standalone node (q, w),
     whose blob is b *)
  Inductive Reach (g : getter) : list nat -> snode -> list nat -> ver -> snode -> Prop :=
  | Reach_short p k c q w b : Reach g (p ++ k) c q w b -> Reach g p (SShort k c) q w b
  | Reach_full p cs i c q w b : nth_error cs i = Some c -> Reach g (p ++ [i]) c q w b -> Reach g p (SFull cs) q w b
  | Reach_here p w b : g p w = Some b -> Reach g p (SRef w) p w b
  | Reach_below p w b q w' b' : g p w = Some b -> Reach g p b q w' b' -> Reach g p (SRef w) q w' b'.

  Lemma Reach_get g p n q w b : Reach g p n q w b -> g q w = Some b.
  Proof. induction 1; auto. Qed.

  Lemma Reach_prefix g p n q w b : Reach g p n q w b -> exists r, q = p ++ r.
  Proof.
    induction 1.
    - destruct IHReach as [r ->]. exists (k ++ r). rewrite app_assoc. reflexivity.
    - destruct IHReach as [r ->]. exists ([i] ++ r). rewrite app_assoc. reflexivity.
    - exists []. rewrite app_nil_r. reflexivity.
    - auto.
  Qed.

  Lemma Reach_trans g p n q w b : Reach g p n q w b ->
    forall q1 w1 b1, Reach g q b q1 w1 b1 -> Reach g p n q1 w1 b1.
  Proof.
    induction 1; intros q1 w1 b1 H1.
    - apply Reach_short; auto.
    - eapply Reach_full; eauto.
    - eapply Reach_below; eauto.
    - eapply Reach_below; eauto.
  Qed.

  (* ---- resolutions and the references they follow ---- *)
  Lemma ResL_nth g p i cs cs' : ResL V g p i cs cs' ->
    forall j c, nth_error cs j = Some c -> exists c', Res V g (p ++ [i + j]%nat) c c'.
  Proof.
    induction 1; intros j c0 Hj.
    - destruct j; discriminate.
    - destruct j as [|j]; cbn in Hj.
      + inversion Hj; subst. rewrite Nat.add_0_r. eauto.
      + destruct (IHResL j c0 Hj) as [c1 Hc1]. exists c1. rewrite Nat.add_succ_r. exact Hc1.
  Qed.

  (* the node a followed reference loads resolves too *)
  Lemma Res_sub g p n q w b : Reach g p n q w b -> forall t, Res V g p n t -> exists t', Res V g q b t'.
  Proof.
    induction 1; intros t Ht.
    - inversion Ht; subst. eauto.
    - inversion Ht as [| | |p0 cs0 cs' HL|]; subst.
      destruct (ResL_nth g p 0 cs cs' HL i c H) as [c' Hc']. cbn in Hc'. eauto.
    - inversion Ht as [| | | |p0 v0 b0 t0 Hg Hr]; subst. rewrite H in Hg. inversion Hg; subst. eauto.
    - inversion Ht as [| | | |p0 v0 b0 t0 Hg Hr]; subst. rewrite H in Hg. inversion Hg; subst. eauto.
  Qed.

  (* a resolution all of whose followed references satisfy ok is a conditioned resolution *)
  Lemma Res_ResC (ok : list nat -> ver -> snode -> Prop) g : forall p n t, Res V g p n t ->
    (forall q w b, Reach g p n q w b -> ok q w b) -> ResC V ok g p n t.
  Proof.
    apply (Res_mut V g
      (fun p n t _ => (forall q w b, Reach g p n q w b -> ok q w b) -> ResC V ok g p n t)
      (fun p i cs cs' _ => (forall j c q w b, nth_error cs j = Some c -> Reach g (p ++ [i + j]%nat) c q w b -> ok q w b) ->
                           ResCL V ok g p i cs cs')).
    - intros; constructor.
    - intros; constructor.
    - intros p k c c' _ IH H. constructor. apply IH. intros q w b R. apply H. apply Reach_short; auto.
    - intros p cs cs' _ IH H. constructor. apply IH. intros j c q w b Hj R. apply H. eapply Reach_full; eauto.
    - intros p v b t Hg _ IH H. eapply ResC_ref; eauto.
      + apply H. apply Reach_here; auto.
      + apply IH. intros q w b0 R. apply H. eapply Reach_below; eauto.
    - intros; constructor.
    - intros p i c c' t t' _ IHc _ IHt H. constructor.
      + apply IHc. intros q w b R. apply (H 0%nat c q w b); [reflexivity|]. rewrite Nat.add_0_r. exact R.
      + apply IHt. intros j c0 q w b Hj R. apply (H (S j) c0 q w b); [exact Hj|]. rewrite Nat.add_succ_r. exact R.
  Qed.

  (* ---- two getters that agree on what a resolution follows ---- *)
  Lemma Reach_into g g' p n q w b : Reach g p n q w b ->
    (forall q0 w0 b0, Reach g p n q0 w0 b0 -> g' q0 w0 = Some b0) -> Reach g' p n q w b.
  Proof.
    induction 1; intros Hag.
    - apply Reach_short. apply IHReach. intros; apply Hag; apply Reach_short; auto.
    - eapply Reach_full; eauto. apply IHReach. intros; apply Hag; eapply Reach_full; eauto.
    - apply Reach_here. apply Hag. apply Reach_here; auto.
    - eapply Reach_below.
      + apply Hag. apply Reach_here; eauto.
      + apply IHReach. intros; apply Hag; eapply Reach_below; eauto.
  Qed.

  Lemma Reach_back g g' p n q w b : Reach g' p n q w b -> forall t, Res V g p n t ->
    (forall q0 w0 b0, Reach g p n q0 w0 b0 -> g' q0 w0 = Some b0) -> Reach g p n q w b.
  Proof.
    induction 1; intros t Ht Hag.
    - inversion Ht; subst. apply Reach_short. eapply IHReach; eauto. intros; apply Hag; apply Reach_short; auto.
    - inversion Ht as [| | |p0 cs0 cs' HL|]; subst.
      destruct (ResL_nth g p 0 cs cs' HL i c H) as [c' Hc']. cbn in Hc'.
      eapply Reach_full; eauto. eapply IHReach; eauto. intros; apply Hag; eapply Reach_full; eauto.
    - inversion Ht as [| | | |p0 v0 b0 t0 Hg Hr]; subst.
      assert (E : g' p w = Some b0) by (apply Hag; apply Reach_here; auto).
      rewrite H in E. inversion E; subst. apply Reach_here; auto.
    - inversion Ht as [| | | |p0 v0 b0 t0 Hg Hr]; subst.
      assert (E : g' p w = Some b0) by (apply Hag; apply Reach_here; auto).
      rewrite H in E. inversion E; subst. eapply Reach_below; eauto.
      eapply IHReach; eauto. intros; apply Hag; eapply Reach_below; eauto.
  Qed.

  (* the transfer principle: a root that resolves through g, and whose followed references g' answers identically,
     resolves to the same trie through g', follows the same references, and so does every node below *)
  Theorem resolution_transfer g g' p n t :
    Res V g p n t -> (forall q w b, Reach g p n q w b -> g' q w = Some b) ->
    Res V g' p n t /\
    (forall q w b, Reach g' p n q w b <-> Reach g p n q w b) /\
    (forall q w b q1 w1 b1, Reach g p n q w b -> (Reach g' q b q1 w1 b1 <-> Reach g q b q1 w1 b1)).
  Proof.
    intros HR Hag. split; [|split].
    - apply (ResC_transfer V (fun q w b => g' q w = Some b) g g'); [auto|].
      apply Res_ResC; auto.
    - intros q w b. split; intros R.
      + eapply Reach_back; eauto.
      + eapply Reach_into; eauto.
    - intros q w b q1 w1 b1 R.
      destruct (Res_sub g p n q w b R t HR) as [t' Ht'].
      assert (Hag' : forall q0 w0 b0, Reach g q b q0 w0 b0 -> g' q0 w0 = Some b0).
      { intros q0 w0 b0 R0. apply Hag. eapply Reach_trans; eauto. }
      split; intros R1.
      + eapply Reach_back; eauto.
      + eapply Reach_into; eauto.
  Qed.

  (* ---- one node per path ---- *)
  Fixpoint wfk (n : snode) : bool :=
    match n with
    | SShort k c => negb (is_root k) && wfk c
    | SFull cs => forallb wfk cs
    | _ => true
    end.
  Definition is_inner_s (n : snode) : Prop := match n with SShort _ _ | SFull _ => True | _ => False end.
  (* a stored blob: a short or full node, no empty key inside *)
  Definition blob_ok (b : snode) : Prop := is_inner_s b /\ wfk b = true.

  Lemma wfk_nth cs i c : forallb wfk cs = true -> nth_error cs i = Some c -> wfk c = true.
  Proof. intros H Hi. rewrite forallb_forall in H. apply H. eapply nth_error_In; eauto. Qed.

  Lemma Reach_longer g p n q w b : is_inner_s n -> wfk n = true -> Reach g p n q w b -> (length p < length q)%nat.
  Proof.
    intros Hi Hw R. destruct n; cbn in Hi; try contradiction.
    - inversion R as [p0 k0 c0 q0 w0 b0 R0| | |]; subst. destruct (Reach_prefix _ _ _ _ _ _ R0) as [r ->].
      cbn in Hw. apply andb_true_iff in Hw. destruct Hw as [Hk _]. destruct k; [discriminate|].
      rewrite !app_length. cbn. lia.
    - inversion R as [|p0 cs0 i c0 q0 w0 b0 Hn R0| |]; subst. destruct (Reach_prefix _ _ _ _ _ _ R0) as [r ->].
      rewrite !app_length. cbn. lia.
  Qed.

  Lemma Reach_functional g p n q w b : Reach g p n q w b ->
    (forall q0 w0 b0, Reach g p n q0 w0 b0 -> blob_ok b0) -> wfk n = true ->
    forall w' b', Reach g p n q w' b' -> w' = w /\ b' = b.
  Proof.
    induction 1; intros Hok Hw w2 b2 R2.
    - inversion R2; subst. cbn in Hw. apply andb_true_iff in Hw. destruct Hw as [_ Hw].
      apply IHReach; auto. intros; eapply Hok; apply Reach_short; eauto.
    - inversion R2 as [|p0 cs0 i0 c0 q0 w0 b0 Hn0 R0| |]; subst.
      destruct (Reach_prefix _ _ _ _ _ _ H0) as [r Er]. destruct (Reach_prefix _ _ _ _ _ _ R0) as [r0 Er0].
      rewrite Er in Er0. rewrite <- !app_assoc in Er0. apply app_inv_head in Er0. cbn in Er0. inversion Er0; subst i0.
      rewrite H in Hn0. inversion Hn0; subst c0.
      apply IHReach; auto.
      + intros; eapply Hok; eapply Reach_full; eauto.
      + cbn in Hw. eapply wfk_nth; eauto.
    - inversion R2 as [| |p0 w0 b0 Hg0|p0 w0 b0 q0 w1 b1 Hg0 R0]; subst.
      + rewrite H in Hg0. inversion Hg0; auto.
      + exfalso. rewrite H in Hg0. inversion Hg0; subst b0.
        destruct (Hok p w b (Reach_here g p w b H)) as [Hi Hk].
        pose proof (Reach_longer g p b p w2 b2 Hi Hk R0). lia.
    - destruct (Hok p w b (Reach_here g p w b H)) as [Hi Hk].
      inversion R2 as [| |p0 w0 b0 Hg0|p0 w0 b0 q0 w1 b1 Hg0 R0]; subst.
      + exfalso. pose proof (Reach_longer g q b q w' b' Hi Hk H0). lia.
      + rewrite H in Hg0. inversion Hg0; subst b0.
        apply IHReach; auto. intros; eapply Hok; eapply Reach_below; eauto.
  Qed.

  (* ---- the iterator with a version filter ---- *)
  Inductive ReachMin (g : getter) (min : ver) : list nat -> snode -> list nat -> ver -> snode -> Prop :=
  | ReachMin_short p k c q w b : ReachMin g min (p ++ k) c q w b -> ReachMin g min p (SShort k c) q w b
  | ReachMin_full p cs i c q w b : nth_error cs i = Some c -> ReachMin g min (p ++ [i]) c q w b ->
      ReachMin g min p (SFull cs) q w b
  | ReachMin_here p w b : ver_ltb w min = false -> g p w = Some b -> ReachMin g min p (SRef w) p w b
  | ReachMin_below p w b q w' b' : ver_ltb w min = false -> g p w = Some b -> ReachMin g min p b q w' b' ->
      ReachMin g min p (SRef w) q w' b'.

  Lemma ReachMin_Reach g min p n q w b : ReachMin g min p n q w b -> Reach g p n q w b /\ ver_ltb w min = false.
  Proof.
    induction 1.
    - destruct IHReachMin. split; auto. apply Reach_short; auto.
    - destruct IHReachMin. split; auto. eapply Reach_full; eauto.
    - split; auto. apply Reach_here; auto.
    - destruct IHReachMin. split; auto. eapply Reach_below; eauto.
  Qed.

  (* what the iterator reports is exactly what is reachable through nodes that all pass the filter *)
  Lemma iter_nodes_spec g min : forall f p n l, iter_nodes V f g min p n = Some l ->
    forall q w b, In (q, w, b) l <-> ReachMin g min p n q w b.
  Proof.
    induction f; intros p n l H q w b; cbn in H; [discriminate|].
    destruct n.
    - inversion H; subst. split; [intros Hin; inversion Hin|intros R; inversion R].
    - inversion H; subst. split; [intros Hin; inversion Hin|intros R; inversion R].
    - rewrite (IHf _ _ _ H). split; intros R; [apply ReachMin_short; auto|inversion R; auto].
    - assert (G : forall cs i l,
        (fix go (l : list snode) (i : nat) : option (list (list nat * ver * snode)) :=
           match l with [] => Some [] | c :: t =>
             match iter_nodes V f g min (p ++ [i]) c, go t (S i) with Some a, Some b => Some (a ++ b) | _, _ => None end end) cs i = Some l ->
        (In (q, w, b) l <-> exists j c, nth_error cs j = Some c /\ ReachMin g min (p ++ [i + j]%nat) c q w b)).
      { intros cs0. induction cs0 as [|c cs0 IHcs]; intros i l0 Hl.
        - inversion Hl; subst. split; [intros Hin; inversion Hin|intros [j [c [Hj _]]]; destruct j; discriminate].
        - destruct (iter_nodes V f g min (p ++ [i]) c) as [a|] eqn:Ea; [|discriminate].
          match type of Hl with match ?X with _ => _ end = _ => destruct X as [b0|] eqn:Eb; [|discriminate] end.
          inversion Hl; subst l0. rewrite in_app_iff, (IHf _ _ _ Ea), (IHcs _ _ Eb). split.
          + intros [R|[j [c0 [Hj R]]]].
            * exists 0%nat, c. rewrite Nat.add_0_r. auto.
            * exists (S j), c0. rewrite Nat.add_succ_r. auto.
          + intros [j [c0 [Hj R]]]. destruct j as [|j]; cbn in Hj.
            * inversion Hj; subst. rewrite Nat.add_0_r in R. auto.
            * right. exists j, c0. rewrite Nat.add_succ_r in R. auto. }
      rewrite (G _ _ _ H). split.
      + intros [j [c [Hj R]]]. cbn in R. eapply ReachMin_full; eauto.
      + intros R. inversion R; subst. exists i, c. auto.
    - destruct (ver_ltb v min) eqn:Elt.
      + inversion H; subst. split; [intros Hin; inversion Hin|]. intros R. inversion R; subst; congruence.
      + destruct (g p v) as [b0|] eqn:Eg; [|discriminate].
        destruct (iter_nodes V f g min p b0) as [r|] eqn:Er; [|discriminate].
        inversion H; subst l. cbn [In]. rewrite (IHf _ _ _ Er). split.
        * intros [E|R]; [inversion E; subst; apply ReachMin_here; auto|eapply ReachMin_below; eauto].
        * intros R. inversion R; subst.
          -- left. congruence.
          -- right. congruence.
  Qed.

  (* versions do not increase along a path from the root (every node on the way to (q,w) is at least as recent):
     then a node that passes the filter is reported *)
  Lemma Reach_ReachMin g base p n q w b : Reach g p n q w b ->
    (forall q0 w0 b0, Reach g p n q0 w0 b0 -> Reach g q0 b0 q w b -> (fst w <= fst w0)%N) ->
    (base <= fst w)%N -> ReachMin g (base, 0%N) p n q w b.
  Proof.
    assert (Lt : forall u : ver, (base <= fst u)%N -> ver_ltb u (base, 0%N) = false).
    { intros u Hu. unfold ver_ltb. cbn [fst snd]. apply orb_false_iff. split.
      - apply N.ltb_ge; auto.
      - apply andb_false_iff. right. apply N.ltb_ge. lia. }
    induction 1; intros Hmono Hb.
    - apply ReachMin_short. apply IHReach; auto. intros; eapply Hmono; eauto. apply Reach_short; eauto.
    - eapply ReachMin_full; eauto. apply IHReach; auto. intros; eapply Hmono; eauto. eapply Reach_full; eauto.
    - apply ReachMin_here; auto.
    - assert (Hw : (fst w' <= fst w)%N) by (apply (Hmono p w b); [apply Reach_here; auto|auto]).
      eapply ReachMin_below; eauto.
      + apply Lt. lia.
      + apply IHReach; auto. intros; eapply Hmono; eauto. eapply Reach_below; eauto.
  Qed.
  (* ---- resolution is a function, and the fuel-based expand computes it ---- *)
  Lemma Res_fun g : forall p n t, Res V g p n t -> forall t', Res V g p n t' -> t = t'.
  Proof.
    apply (Res_mut V g (fun p n t _ => forall t', Res V g p n t' -> t = t')
                       (fun p i cs cs' _ => forall cs'', ResL V g p i cs cs'' -> cs' = cs'')).
    - intros p t' H. inversion H; auto.
    - intros p v t' H. inversion H; auto.
    - intros p k c c' _ IH t' H. inversion H; subst. f_equal. auto.
    - intros p cs cs' _ IH t' H. inversion H; subst. f_equal. auto.
    - intros p v b t Hg _ IH t' H. inversion H as [| | | |p0 v0 b0 t0 Hg0 Hr0]; subst.
      rewrite Hg in Hg0. inversion Hg0; subst. auto.
    - intros p i cs'' H. inversion H; auto.
    - intros p i c c' t t' _ IHc _ IHt cs'' H. inversion H; subst. f_equal; auto.
  Qed.

  Lemma Res_expand g : forall p n t, Res V g p n t -> exists f0, forall f, (f0 <= f)%nat -> expand V f g p n = Some t.
  Proof.
    apply (Res_mut V g
      (fun p n t _ => exists f0, forall f, (f0 <= f)%nat -> expand V f g p n = Some t)
      (fun p i cs cs' _ => exists f0, forall f, (f0 <= f)%nat ->
         (fix go (l : list snode) (i : nat) : option (list node) :=
            match l with [] => Some [] | c :: t0 =>
              match expand V f g (p ++ [i]) c, go t0 (S i) with Some c', Some t' => Some (c' :: t') | _, _ => None end end) cs i = Some cs')).
    - intros p. exists 1%nat. intros f Hf. destruct f; [lia|reflexivity].
    - intros p v. exists 1%nat. intros f Hf. destruct f; [lia|reflexivity].
    - intros p k c c' _ [f0 IH]. exists (S f0). intros f Hf. destruct f as [|f]; [lia|].
      cbn. rewrite IH by lia. reflexivity.
    - intros p cs cs' _ [f0 IH]. exists (S f0). intros f Hf. destruct f as [|f]; [lia|].
      cbn. rewrite IH by lia. reflexivity.
    - intros p v b t Hg _ [f0 IH]. exists (S f0). intros f Hf. destruct f as [|f]; [lia|].
      cbn. rewrite Hg. apply IH. lia.
    - intros p i. exists 0%nat. intros f _. reflexivity.
    - intros p i c c' t t' _ [f1 IHc] _ [f2 IHt]. exists (Nat.max f1 f2). intros f Hf.
      rewrite IHc by lia. rewrite IHt by lia. reflexivity.
  Qed.
  (* same fuel: a getter that answers the followed references identically gives the same expansion *)
  Lemma expand_agree : forall f (g g' : getter) p n t, expand V f g p n = Some t ->
    (forall q w b, Reach g p n q w b -> g' q w = Some b) -> expand V f g' p n = Some t.
  Proof.
    induction f; intros g g' p n t H Hag; cbn in *; [discriminate|].
    destruct n; auto.
    - destruct (expand V f g (p ++ k) n) eqn:E; [|discriminate].
      rewrite (IHf g g' _ _ _ E); auto. intros; apply Hag; apply Reach_short; auto.
    - assert (G : forall l i r,
        (forall j c q w b, nth_error l j = Some c -> Reach g (p ++ [i + j]%nat) c q w b -> g' q w = Some b) ->
        (fix go (l : list snode) (i : nat) : option (list node) :=
           match l with [] => Some [] | c :: t => match expand V f g (p ++ [i]) c, go t (S i) with Some c', Some t' => Some (c' :: t') | _, _ => None end end) l i = Some r ->
        (fix go (l : list snode) (i : nat) : option (list node) :=
           match l with [] => Some [] | c :: t => match expand V f g' (p ++ [i]) c, go t (S i) with Some c', Some t' => Some (c' :: t') | _, _ => None end end) l i = Some r).
      { induction l as [|a l IHl]; intros i r Hl Hr; auto.
        destruct (expand V f g (p ++ [i]) a) eqn:E; [|discriminate].
        rewrite (IHf g g' _ _ _ E).
        - match type of Hr with match ?X with _ => _ end = _ => destruct X eqn:E2; [|discriminate] end.
          rewrite (IHl (S i) l0); auto.
          intros j c q w b Hj R. apply (Hl (S j) c q w b Hj). rewrite Nat.add_succ_r. exact R.
        - intros q w b R. apply (Hl 0%nat a q w b eq_refl). rewrite Nat.add_0_r. exact R. }
      match type of H with match ?X with _ => _ end = _ => destruct X eqn:E; [|discriminate] end.
      rewrite (G cs 0%nat l); auto.
      intros j c q w b Hj R. apply Hag. eapply Reach_full; eauto.
    - destruct (g p v) eqn:E; [|discriminate].
      rewrite (Hag p v s); [|apply Reach_here; auto].
      apply (IHf g g'); auto. intros; apply Hag; eapply Reach_below; eauto.
  Qed.
End PR.
