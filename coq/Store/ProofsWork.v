(* Store/ProofsWork.v — trie.go's tryGet / insert / delete on working tries (Store/WorkTrie.v) refine C06's logical
   get / insert / delete (Trie/Model.v), never fail on a live root, keep the handle coherent with the store, and every
   clean node / reference of the result is a node of the root the handle was opened at (`derived` of ProofsLink.v).

   Good g Old p n t  — the working trie n at path p denotes the logical trie t through the reader g, is coherent with
   it, and every clean node and every reference of n is in Old — a set of stored nodes (path, version, blob) that the
   reader answers, closed under what resolving them follows, made of well-formed full / short blobs (instantiated with
   "the nodes the head root follows").  The simulations hold for every fuel and need no well-formedness of the trie. *)
From Coq Require Import List NArith Bool Arith Lia.
From Verif Require Import Trie.Model Trie.Keys Trie.ProofsWf Trie.Theorems
  Store.Model Store.Proofs Store.ProofsCommit Store.ProofsReach Store.ProofsPrune Store.ProofsLink Store.WorkTrie.
Import ListNotations.
Local Open Scope nat_scope.

Section PW.
  Variable V : Type.
  Variable veqb : V -> V -> bool.
  Hypothesis veqb_sound : forall a b, veqb a b = true -> a = b.
  Notation snode := (snode V).
  Notation wnode := (wnode V).
  Notation node := (node V).
  Notation getter := (getter V).

  (* ---------------------------------------------------------------- lists *)
  Lemma snode_ind' (P : snode -> Prop) :
    P SNil -> (forall v, P (SValue v)) -> (forall k c, P c -> P (SShort k c)) ->
    (forall cs, Forall P cs -> P (SFull cs)) -> (forall v, P (SRef v)) -> forall n, P n.
  Proof.
    intros H0 H1 H2 H3 H4. fix IH 1. intros n. destruct n as [|v|k c|cs|v].
    - exact H0.
    - apply H1.
    - apply H2. apply IH.
    - apply H3. induction cs as [|c cs IHcs]; constructor; [apply IH|exact IHcs].
    - apply H4.
  Qed.

  Lemma firstn_S_nth {A} (d : A) : forall (l : list A) m, m < length l -> firstn (S m) l = firstn m l ++ [nth m l d].
  Proof.
    induction l as [|a l IH]; intros m Hm; cbn in Hm; [lia|].
    destruct m; cbn; [reflexivity|]. f_equal. apply IH. lia.
  Qed.

  Lemma firstn_full_prefix (k key : list nat) : prefix_len k key = length k -> firstn (length k) key = k.
  Proof.
    intros H. rewrite (prefix_len_full k key H) at 1. rewrite firstn_app, Nat.sub_diag, firstn_all. cbn. apply app_nil_r.
  Qed.

  Lemma wupd_length (cs : list wnode) : forall i x, length (wupd V cs i x) = length cs.
  Proof. induction cs; destruct i; cbn; auto. Qed.

  Lemma wchild_wupd_same (cs : list wnode) : forall i x, i < length cs -> wchild V (wupd V cs i x) i = x.
  Proof. induction cs; destruct i; cbn; intros; try lia; auto. apply IHcs; lia. Qed.

  Lemma wupd_beyond (cs : list wnode) : forall i x, length cs <= i -> wupd V cs i x = cs.
  Proof. induction cs; destruct i; cbn; intros; try lia; auto. f_equal. apply IHcs; lia. Qed.

  Lemma map_wupd_same {B} (f : wnode -> B) (cs : list wnode) : forall i x,
    f x = f (wchild V cs i) -> map f (wupd V cs i x) = map f cs.
  Proof.
    induction cs as [|c cs IH]; intros [|i] x H; cbn in *; auto.
    - rewrite H. reflexivity.
    - f_equal. apply IH. exact H.
  Qed.

  (* ---------------------------------------------------------------- decoding *)
  Lemma enc_dec_emb : forall c : snode, enc V (dec_emb V c) = c /\ enc_child V (dec_emb V c) = c.
  Proof.
    apply snode_ind'.
    - split; reflexivity.
    - split; reflexivity.
    - intros k c [_ IH].
      assert (E : enc V (dec_emb V (SShort k c)) = SShort k c) by (cbn [dec_emb]; rewrite enc_short, IH; reflexivity).
      split; [exact E|exact E].
    - intros cs HF.
      assert (E : enc V (dec_emb V (SFull cs)) = SFull cs).
      { cbn [dec_emb]. rewrite enc_full. f_equal. rewrite map_map.
        induction HF as [|c cs [_ Hc] _ IH]; cbn; [reflexivity|]. rewrite Hc, IH. reflexivity. }
      split; [exact E|exact E].
    - split; reflexivity.
  Qed.

  Lemma enc_dec_top v b : is_inner_s V b -> enc V (dec_top V v b) = b /\ enc_child V (dec_top V v b) = SRef v.
  Proof.
    destruct b as [| |k c|cs|]; cbn [is_inner_s]; try contradiction; intros _.
    - split; [|reflexivity]. cbn [dec_top]. rewrite enc_short. rewrite (proj2 (enc_dec_emb c)). reflexivity.
    - split; [|reflexivity]. cbn [dec_top]. rewrite enc_full, map_map. f_equal.
      induction cs as [|c cs IH]; cbn; [reflexivity|]. rewrite (proj2 (enc_dec_emb c)), IH. reflexivity.
  Qed.

  Definition not_ref (n : wnode) : Prop := match n with WRef _ => False | _ => True end.

  Lemma dec_top_not_ref v b : is_inner_s V b -> not_ref (dec_top V v b).
  Proof. destruct b; cbn; auto. Qed.

  (* ---------------------------------------------------------------- the invariant of a handle *)
  Section Inv.
    Variable g : getter.
    Variable Old : list nat -> ver -> snode -> Prop.
    Hypothesis Old_get : forall q w b, Old q w b -> g q w = Some b.
    Hypothesis Old_cl : forall q w b q1 w1 b1, Old q w b -> Reach V g q b q1 w1 b1 -> Old q1 w1 b1.
    Hypothesis Old_ok : forall q w b, Old q w b -> blob_ok V b.

    Inductive Good : list nat -> wnode -> node -> Prop :=
    | Good_nil p : Good p WNil Nil
    | Good_val p v : Good p (WValue v) (Value v)
    | Good_short p k c f c' : k <> [] -> Good (p ++ k) c c' ->
        (forall v, f = Clean v -> Old p v (enc V (WShort k c f))) -> Good p (WShort k c f) (Short k c')
    | Good_full p cs f cs' : GoodL p 0 cs cs' ->
        (forall v, f = Clean v -> Old p v (enc V (WFull cs f))) -> Good p (WFull cs f) (Full cs')
    | Good_ref p v b t : Old p v b -> Res V g p b t -> Good p (WRef v) t
    with GoodL : list nat -> nat -> list wnode -> list node -> Prop :=
    | GoodL_nil p i : GoodL p i [] []
    | GoodL_cons p i c c' t t' : Good (p ++ [i]) c c' -> GoodL p (S i) t t' -> GoodL p i (c :: t) (c' :: t').

    Scheme Good_mut := Induction for Good Sort Prop
    with GoodL_mut := Induction for GoodL Sort Prop.

    (* ---- what it contains: denotation, coherence, derived ---- *)
    Lemma Good_WRes : forall p n t, Good p n t -> WRes V g p n t.
    Proof.
      apply (Good_mut (fun p n t _ => WRes V g p n t) (fun p i cs cs' _ => WResL V g p i cs cs')); intros; try (constructor; auto).
      eapply WRes_ref; eauto.
    Qed.

    Lemma Good_Coh : forall p n t, Good p n t -> Coh V g p n.
    Proof.
      apply (Good_mut (fun p n t _ => Coh V g p n) (fun p i cs cs' _ => CohL V g p i cs)); intros; try (constructor; auto).
    Qed.

    Definition AllTop (p : list nat) (n : wnode) : Prop := forall q w r, WTop V p n q w r -> exists b, Old q w b.

    Lemma Good_tops : forall p n t, Good p n t -> AllTop p n.
    Proof.
      apply (Good_mut (fun p n t _ => AllTop p n)
               (fun p i cs cs' _ => forall j c, nth_error cs j = Some c -> AllTop (p ++ [i + j]) c)).
      - intros p q w r T. inversion T.
      - intros p v q w r T. inversion T.
      - intros p k c f c' Hk _ IH Hf q w r T. inversion T; subst.
        + eexists. apply Hf. reflexivity.
        + eapply IH; eauto.
      - intros p cs f cs' _ IH Hf q w r T. inversion T; subst.
        + eexists. apply Hf. reflexivity.
        + eapply (IH i c); eauto.
      - intros p v b t Ho _ q w r T. inversion T; subst. eauto.
      - intros p i j c Hj. destruct j; discriminate.
      - intros p i c c' t t' _ IHc _ IHt j c0 Hj. destruct j as [|j]; cbn in Hj.
        + inversion Hj; subst. rewrite Nat.add_0_r. exact IHc.
        + rewrite Nat.add_succ_r. apply (IHt j c0 Hj).
    Qed.

    Lemma Good_ref_inv p v t : Good p (WRef v) t -> exists b, Old p v b /\ Res V g p b t.
    Proof. intros H. inversion H; subst. eauto. Qed.
    Lemma Good_short_inv p k c f t : Good p (WShort k c f) t ->
      exists c', t = Short k c' /\ k <> [] /\ Good (p ++ k) c c' /\ (forall v, f = Clean v -> Old p v (enc V (WShort k c f))).
    Proof. intros H. inversion H; subst. eauto 6. Qed.
    Lemma Good_full_inv p cs f t : Good p (WFull cs f) t ->
      exists cs', t = Full cs' /\ GoodL p 0 cs cs' /\ (forall v, f = Clean v -> Old p v (enc V (WFull cs f))).
    Proof. intros H. inversion H; subst. eauto 6. Qed.
    Lemma Good_nil_inv p t : Good p WNil t -> t = Nil.
    Proof. intros H. inversion H; subst. reflexivity. Qed.
    Lemma Good_val_inv p v t : Good p (WValue v) t -> t = Value v.
    Proof. intros H. inversion H; subst. reflexivity. Qed.

    (* a reference / a resolved blob denotes a short or a full node *)
    Lemma Res_inner p b t : is_inner_s V b -> Res V g p b t -> is_nil V t = false /\ (forall v, t <> Value v).
    Proof.
      intros Hi HR. destruct b; cbn in Hi; try contradiction; inversion HR; subst; split; try reflexivity; intros; discriminate.
    Qed.

    Lemma Good_ref_inner p v t : Good p (WRef v) t -> is_nil V t = false /\ (forall x, t <> Value x).
    Proof.
      intros H. destruct (Good_ref_inv _ _ _ H) as [b [O R]]. eapply Res_inner; eauto. apply (Old_ok _ _ _ O).
    Qed.

    Lemma Good_is_nil p n t : Good p n t -> wis_nil V n = is_nil V t.
    Proof.
      intros H. destruct n; try (inversion H; subst; reflexivity).
      destruct (Good_ref_inner _ _ _ H) as [E _]. rewrite E. reflexivity.
    Qed.

    Lemma Good_value_iff p n t a : Good p n t -> (n = WValue a <-> t = Value a).
    Proof.
      intros H. destruct n; try (inversion H; subst; split; intros E; try discriminate; inversion E; reflexivity).
      split; [discriminate|]. intros E. destruct (Good_ref_inner _ _ _ H) as [_ X]. exfalso. eapply X; eauto.
    Qed.

    (* ---- children lists ---- *)
    Lemma GoodL_child p i cs cs' : GoodL p i cs cs' -> forall j, Good (p ++ [i + j]) (wchild V cs j) (child V cs' j).
    Proof.
      induction 1; intros j.
      - unfold wchild, child. destruct j; cbn; constructor.
      - destruct j as [|j].
        + rewrite Nat.add_0_r. exact H.
        + rewrite Nat.add_succ_r. apply (IHGoodL j).
    Qed.

    Lemma GoodL_upd p i cs cs' : GoodL p i cs cs' -> forall j x x', Good (p ++ [i + j]) x x' ->
      GoodL p i (wupd V cs j x) (upd V cs' j x').
    Proof.
      induction 1; intros j x x' Hx.
      - destruct j; constructor.
      - destruct j as [|j]; cbn.
        + rewrite Nat.add_0_r in Hx. constructor; auto.
        + rewrite Nat.add_succ_r in Hx. constructor; auto.
    Qed.

    Lemma GoodL_repeat p : forall n i, GoodL p i (repeat WNil n) (repeat Nil n).
    Proof. induction n; intros i; cbn; constructor; [constructor|auto]. Qed.

    Lemma GoodL_forallb_nil p i cs cs' : GoodL p i cs cs' -> forallb (wis_nil V) cs = forallb (is_nil V) cs'.
    Proof.
      induction 1; cbn; [reflexivity|]. rewrite (Good_is_nil _ _ _ H), IHGoodL. reflexivity.
    Qed.

    Lemma GoodL_single_pos p i cs cs' : GoodL p i cs cs' -> forall j, wsingle_pos_from V cs j = single_pos_from V cs' j.
    Proof.
      induction 1; intros j; cbn; [reflexivity|].
      rewrite (Good_is_nil _ _ _ H), (GoodL_forallb_nil _ _ _ _ H0), IHGoodL. reflexivity.
    Qed.

    (* ---- decoding a stored node ---- *)
    Lemma Good_dec_emb : forall q c t, Res V g q c t ->
      wfk V c = true -> (forall q1 w1 b1, Reach V g q c q1 w1 b1 -> Old q1 w1 b1) -> Good q (dec_emb V c) t.
    Proof.
      apply (Res_mut V g
        (fun q c t _ => wfk V c = true -> (forall q1 w1 b1, Reach V g q c q1 w1 b1 -> Old q1 w1 b1) -> Good q (dec_emb V c) t)
        (fun q i cs cs' _ => forallb (wfk V) cs = true ->
           (forall j c q1 w1 b1, nth_error cs j = Some c -> Reach V g (q ++ [i + j]) c q1 w1 b1 -> Old q1 w1 b1) ->
           GoodL q i (map (dec_emb V) cs) cs')).
      - intros; constructor.
      - intros; constructor.
      - intros q k c c' _ IH Hw Hr. cbn in Hw. apply andb_true_iff in Hw. destruct Hw as [Hk Hw].
        cbn [dec_emb]. constructor.
        + destruct k; [discriminate|discriminate].
        + apply IH; auto. intros q1 w1 b1 R. apply Hr. apply Reach_short; auto.
        + intros v E. discriminate.
      - intros q cs cs' _ IH Hw Hr. cbn in Hw. cbn [dec_emb]. constructor.
        + apply IH; auto. intros j c q1 w1 b1 Hj R. apply Hr. eapply Reach_full; eauto.
        + intros v E. discriminate.
      - intros q v b t Hg HRb _ _ Hr. cbn [dec_emb].
        assert (O : Old q v b) by (apply Hr; apply Reach_here; auto).
        eapply Good_ref; eauto.
      - intros; constructor.
      - intros q i c c' t t' _ IHc _ IHt Hw Hr. cbn in Hw. apply andb_true_iff in Hw. destruct Hw as [Hc Ht].
        cbn [map]. constructor.
        + apply IHc; auto. intros q1 w1 b1 R. apply (Hr 0 c q1 w1 b1); [reflexivity|]. rewrite Nat.add_0_r. exact R.
        + apply IHt; auto. intros j c0 q1 w1 b1 Hj R. apply (Hr (S j) c0 q1 w1 b1); [exact Hj|]. rewrite Nat.add_succ_r. exact R.
    Qed.

    Lemma Good_dec_top p v b t : Old p v b -> Res V g p b t -> Good p (dec_top V v b) t.
    Proof.
      intros O HR. destruct (Old_ok _ _ _ O) as [Hi Hw].
      assert (Hcl : forall q1 w1 b1, Reach V g p b q1 w1 b1 -> Old q1 w1 b1) by (intros; eapply Old_cl; eauto).
      pose proof (proj1 (enc_dec_top v b Hi)) as Ee.
      destruct b as [| |k c|cs|]; cbn in Hi; try contradiction.
      - inversion HR; subst. cbn [dec_top] in *. cbn in Hw. apply andb_true_iff in Hw. destruct Hw as [Hk Hw]. constructor.
        + destruct k; discriminate.
        + apply Good_dec_emb; auto. intros q1 w1 b1 R. apply Hcl. apply Reach_short; auto.
        + intros v0 E. inversion E; subst. rewrite Ee. exact O.
      - inversion HR; subst. cbn [dec_top] in *. cbn in Hw. constructor.
        + pose proof (Good_dec_emb p (SFull cs) (Full cs') HR Hw Hcl) as X. cbn [dec_emb] in X. inversion X; subst. assumption.
        + intros v0 E. inversion E; subst. rewrite Ee. exact O.
    Qed.

    (* trie.go resolve on a good node: succeeds, the result is not a reference, denotes the same, encodes the same *)
    Lemma Good_resolve p n t : Good p n t ->
      exists n', w_resolve V g n p = Some n' /\ Good p n' t /\ not_ref n' /\ enc_child V n' = enc_child V n /\
                 (not_ref n -> n' = n).
    Proof.
      intros H. destruct n; try (exists n; cbn; repeat split; auto; fail).
      - eexists; cbn; repeat split; auto.
      - eexists; cbn; repeat split; auto.
      - eexists; cbn; repeat split; auto.
      - eexists; cbn; repeat split; auto.
      - destruct (Good_ref_inv _ _ _ H) as [b [O R]]. cbn. unfold w_resolve_ref. rewrite (Old_get _ _ _ O).
        eexists; split; [reflexivity|]. destruct (Old_ok _ _ _ O) as [Hi _].
        split; [apply Good_dec_top; auto|split; [apply dec_top_not_ref; auto|split]].
        + apply (enc_dec_top v b Hi).
        + intros [].
    Qed.

    (* ---------------------------------------------------------------- tryGet *)
    Definition get_ok (f : nat) : Prop := forall n p key t, Good p n t ->
      exists val n' dr, w_get V g f n p key = Some (val, n', dr) /\ val = get V f t key /\
        Good p n' t /\ enc_child V n' = enc_child V n /\ (dr = false -> n' = n).

    Lemma w_get_S_nonref f n p key : not_ref n -> w_get V g (S f) n p key = get_step V (w_get V g f) n p key.
    Proof. destruct n; cbn [not_ref]; intros H; try reflexivity. contradiction. Qed.

    Lemma get_step_ok f : get_ok f -> forall n p key t, Good p n t -> not_ref n ->
      exists val n' dr, get_step V (w_get V g f) n p key = Some (val, n', dr) /\ val = get V (S f) t key /\
        Good p n' t /\ enc_child V n' = enc_child V n /\ (dr = false -> n' = n).
    Proof.
      intros IH n p key t HG Hnr. destruct n as [|a|k c fl|cs fl|w]; cbn [not_ref] in Hnr; try contradiction.
      - apply Good_nil_inv in HG as ->. exists None, WNil, false. cbn. auto 6 using Good_nil.
      - pose proof (Good_val_inv _ _ _ HG) as ->. exists (Some a), (WValue a), false. cbn. auto 6.
      - destruct (Good_short_inv _ _ _ _ _ HG) as [c' [-> [Hk [Hc Hf]]]]. cbn [get_step get].
        destruct (prefix_len k key =? length k).
        + destruct (IH c (p ++ k) (skipn (length k) key) c' Hc) as [val [c1 [dr [E1 [E2 [G1 [E3 E4]]]]]]].
          rewrite E1. exists val, (if dr then WShort k c1 fl else WShort k c fl), dr.
          split; [reflexivity|split; [exact E2|]]. destruct dr; [|auto].
          split; [|split; [|discriminate]].
          * constructor; auto. intros v Ev. rewrite (enc_short V k c1 fl), E3, <- (enc_short V k c fl). auto.
          * destruct fl; cbn [enc_child]; [|reflexivity]. rewrite !enc_short, E3. reflexivity.
        + exists None, (WShort k c fl), false. auto 6.
      - destruct (Good_full_inv _ _ _ _ HG) as [cs' [-> [Hc Hf]]]. cbn [get_step get].
        destruct key as [|i r].
        + exists None, (WFull cs fl), false. auto 6.
        + pose proof (GoodL_child _ _ _ _ Hc i) as Hi. cbn [Nat.add] in Hi.
          destruct (IH _ _ r _ Hi) as [val [c1 [dr [E1 [E2 [G1 [E3 E4]]]]]]].
          rewrite E1. exists val, (if dr then WFull (wupd V cs i c1) fl else WFull cs fl), dr.
          split; [reflexivity|split; [exact E2|]]. destruct dr; [|auto].
          assert (Em : map (enc_child V) (wupd V cs i c1) = map (enc_child V) cs) by (apply map_wupd_same; exact E3).
          split; [|split; [|discriminate]].
          * replace (Full cs') with (Full (upd V cs' i (child V cs' i))) by (f_equal; apply upd_same).
            constructor.
            -- apply GoodL_upd; auto.
            -- intros v Ev. rewrite (enc_full V (wupd V cs i c1) fl), Em, <- (enc_full V cs fl). auto.
          * destruct fl; cbn [enc_child]; [|reflexivity]. rewrite !enc_full, Em. reflexivity.
    Qed.

    Lemma w_get_ok : forall f, get_ok f.
    Proof.
      induction f as [|f IH]; intros n p key t HG.
      - exists None, n, false. cbn. auto 6.
      - destruct n as [|a|k c fl|cs fl|w].
        1-4: rewrite w_get_S_nonref by exact I; apply get_step_ok; auto; exact I.
        destruct (Good_resolve _ _ _ HG) as [rn [Er [Gr [Nr [Ee _]]]]]. cbn in Er.
        destruct (get_step_ok f IH rn p key t Gr Nr) as [val [n' [dr [E1 [E2 [G1 [E3 _]]]]]]].
        exists val, n', true. cbn [w_get]. rewrite Er, E1.
        split; [reflexivity|split; [exact E2|split; [exact G1|split; [congruence|discriminate]]]].
    Qed.

    (* ---------------------------------------------------------------- insert *)
    Definition wmk_leaf (k : list nat) (x : wnode) : wnode := match k with [] => x | _ => WShort k x Dirty end.

    Lemma w_insert_nil f p k x : w_insert V veqb g (S f) WNil p k x = Some (true, wmk_leaf k x).
    Proof. destruct k; reflexivity. Qed.

    Lemma Good_mk_leaf p k x x' : Good (p ++ k) x x' -> Good p (wmk_leaf k x) (mk_leaf V k x').
    Proof.
      destruct k as [|a k]; cbn [wmk_leaf mk_leaf]; intros H.
      - rewrite app_nil_r in H. exact H.
      - constructor; auto; discriminate.
    Qed.

    Lemma ins_nil_sim f p k x x' : Good (p ++ k) x x' ->
      exists d b, w_insert V veqb g f WNil p k x = Some (d, b) /\ Good p b (snd (insert V veqb f Nil k x')).
    Proof.
      intros H. destruct f as [|f].
      - exists false, WNil. cbn. split; [reflexivity|constructor].
      - exists true, (wmk_leaf k x). rewrite w_insert_nil, insert_nil. cbn [snd]. split; [reflexivity|apply Good_mk_leaf; exact H].
    Qed.

    Lemma ins_nil_val f p k v :
      exists d b, w_insert V veqb g f WNil p k (WValue v) = Some (d, b) /\
                  forall P, Good P b (snd (insert V veqb f Nil k (Value v))).
    Proof.
      destruct f as [|f].
      - exists false, WNil. cbn. split; [reflexivity|constructor].
      - exists true, (wmk_leaf k (WValue v)). rewrite w_insert_nil, insert_nil. cbn [snd]. split; [reflexivity|].
        intros P. apply Good_mk_leaf. constructor.
    Qed.

    Definition ins_ok (f : nat) : Prop := forall n p key v t, Good p n t ->
      exists d n', w_insert V veqb g f n p key (WValue v) = Some (d, n') /\
        Good p n' (snd (insert V veqb f t key (Value v))) /\ fst (insert V veqb f t key (Value v)) = d /\
        (d = false -> n' = n \/ exists w, n = WRef w /\ w_resolve_ref V g p w = Some n').

    Lemma ins_step_ok f : ins_ok f -> forall n p key v t, key <> [] -> Good p n t -> not_ref n ->
      exists d n', ins_step V (w_insert V veqb g f) n p key (WValue v) = Some (d, n') /\
        Good p n' (snd (insert V veqb (S f) t key (Value v))) /\ fst (insert V veqb (S f) t key (Value v)) = d /\
        (d = false -> n' = n).
    Proof.
      intros IH n p key v t Hkey HG Hnr. destruct key as [|i r]; [congruence|]. clear Hkey.
      destruct n as [|a|k c fl|cs fl|w]; cbn [not_ref] in Hnr; try contradiction.
      - apply Good_nil_inv in HG as ->. exists true, (WShort (i :: r) (WValue v) Dirty). cbn.
        split; [reflexivity|split; [|split; [reflexivity|discriminate]]].
        constructor; [discriminate|constructor|discriminate].
      - pose proof (Good_val_inv _ _ _ HG) as ->. exists false, (WValue a). cbn. auto.
      - destruct (Good_short_inv _ _ _ _ _ HG) as [c' [-> [Hk [Hc Hf]]]]. cbn [ins_step insert].
        set (key := i :: r) in *. set (m := prefix_len key k) in *.
        pose proof (prefix_len_le_r key k) as Hm. fold m in Hm.
        destruct (m =? length k) eqn:E.
        + apply Nat.eqb_eq in E.
          assert (Ef : firstn m key = k).
          { rewrite E. apply firstn_full_prefix. rewrite prefix_len_comm. exact E. }
          rewrite Ef.
          destruct (IH c (p ++ k) (skipn m key) v c' Hc) as [d [nn [E1 [G1 [E2 E3]]]]]. rewrite E1.
          destruct (insert V veqb f c' (skipn m key) (Value v)) as [d0 t1]. cbn [fst snd] in *. subst d0.
          destruct d.
          * exists true, (WShort k nn Dirty). split; [reflexivity|split; [|split; [reflexivity|discriminate]]].
            cbn [snd]. constructor; auto. discriminate.
          * exists false, (WShort k c fl). cbn [fst snd]. auto.
        + apply Nat.eqb_neq in E. assert (Hlt : m < length k) by lia.
          assert (Hc1 : Good ((p ++ firstn (S m) k) ++ skipn (S m) k) c c').
          { rewrite <- app_assoc, firstn_skipn. exact Hc. }
          destruct (ins_nil_sim f _ _ _ _ Hc1) as [d1 [b1 [E1 G1]]]. rewrite E1.
          destruct (ins_nil_val f (p ++ firstn (S m) key) (skipn (S m) key) v) as [d2 [b2 [E2 G2]]]. rewrite E2.
          set (b1' := snd (insert V veqb f Nil (skipn (S m) k) c')) in *.
          set (b2' := snd (insert V veqb f Nil (skipn (S m) key) (Value v))) in *.
          assert (Ep : (p ++ firstn m key) ++ [0 + nth m k 0] = p ++ firstn (S m) k).
          { cbn [Nat.add]. rewrite <- app_assoc. f_equal. rewrite (firstn_S_nth 0) by exact Hlt.
            unfold m. rewrite prefix_firstn. reflexivity. }
          assert (GB : Good (p ++ firstn m key)
                         (WFull (wupd V (wupd V (wempty_children V) (nth m k 0) b1) (nth m key 0) b2) Dirty)
                         (Full (upd V (upd V (empty_children V) (nth m k 0) b1') (nth m key 0) b2'))).
          { constructor; [|discriminate]. apply GoodL_upd; [|apply G2]. apply GoodL_upd; [apply GoodL_repeat|].
            rewrite Ep. exact G1. }
          destruct (m =? 0) eqn:Z.
          * apply Nat.eqb_eq in Z.
            assert (Ep0 : p ++ firstn m key = p) by (rewrite Z; cbn [firstn]; apply app_nil_r).
            rewrite Ep0 in GB.
            eexists true, _. split; [reflexivity|split; [exact GB|split; [reflexivity|discriminate]]].
          * apply Nat.eqb_neq in Z.
            eexists true, _. split; [reflexivity|split; [|split; [reflexivity|discriminate]]].
            cbn [snd]. constructor; [|exact GB|discriminate].
            unfold key. destruct m; [congruence|discriminate].
      - destruct (Good_full_inv _ _ _ _ HG) as [cs' [-> [Hc Hf]]]. cbn [ins_step insert].
        pose proof (GoodL_child _ _ _ _ Hc i) as Hi. cbn [Nat.add] in Hi.
        destruct (IH _ _ r v _ Hi) as [d [nn [E1 [G1 [E2 E3]]]]]. rewrite E1.
        destruct (insert V veqb f (child V cs' i) r (Value v)) as [d0 t1]. cbn [fst snd] in *. subst d0.
        destruct d.
        + exists true, (WFull (wupd V cs i nn) Dirty). split; [reflexivity|split; [|split; [reflexivity|discriminate]]].
          cbn [snd]. constructor; [|discriminate]. apply GoodL_upd; auto.
        + exists false, (WFull cs fl). cbn [fst snd]. auto.
    Qed.

    Lemma w_insert_S_nonref f n p i r x : not_ref n ->
      w_insert V veqb g (S f) n p (i :: r) x = ins_step V (w_insert V veqb g f) n p (i :: r) x.
    Proof. destruct n; cbn [not_ref]; intros H; try reflexivity. contradiction. Qed.

    Lemma w_insert_ok : forall f, ins_ok f.
    Proof.
      induction f as [|f IH]; intros n p key v t HG.
      - exists false, n. cbn. auto.
      - destruct key as [|i r].
        + (* the key is exhausted: the value replaces whatever is there *)
          cbn [w_insert insert].
          destruct n as [|a|k c fl|cs fl|w].
          * apply Good_nil_inv in HG as ->. exists true, (WValue v). cbn.
            split; [reflexivity|split; [constructor|split; [reflexivity|discriminate]]].
          * pose proof (Good_val_inv _ _ _ HG) as ->. exists (negb (veqb a v)), (WValue v). cbn.
            split; [reflexivity|split; [constructor|split; [reflexivity|]]].
            intros E. apply negb_false_iff in E. apply veqb_sound in E. subst. auto.
          * destruct (Good_short_inv _ _ _ _ _ HG) as [c' [-> _]]. exists true, (WValue v). cbn.
            split; [reflexivity|split; [constructor|split; [reflexivity|discriminate]]].
          * destruct (Good_full_inv _ _ _ _ HG) as [cs' [-> _]]. exists true, (WValue v). cbn.
            split; [reflexivity|split; [constructor|split; [reflexivity|discriminate]]].
          * destruct (Good_ref_inner _ _ _ HG) as [_ Hv]. exists true, (WValue v).
            assert (E : (match t with Value a => (negb (veqb a v), Value v) | _ => (true, Value v) end) = (true, Value v)).
            { destruct t; auto. exfalso. eapply Hv; eauto. }
            rewrite E. cbn. split; [reflexivity|split; [constructor|split; [reflexivity|discriminate]]].
        + destruct n as [|a|k c fl|cs fl|w].
          1-4: rewrite w_insert_S_nonref by exact I;
               (destruct (ins_step_ok f IH _ p (i :: r) v t ltac:(discriminate) HG I) as [d [n' [E1 [G1 [E2 E3]]]]]);
               exists d, n'; auto 6.
          destruct (Good_resolve _ _ _ HG) as [rn [Er [Gr [Nr _]]]]. cbn [w_resolve] in Er.
          destruct (ins_step_ok f IH rn p (i :: r) v t ltac:(discriminate) Gr Nr) as [d [n' [E1 [G1 [E2 E3]]]]].
          cbn [w_insert]. rewrite Er, E1. destruct d.
          * exists true, n'. split; [reflexivity|split; [exact G1|split; [exact E2|discriminate]]].
          * exists false, rn. rewrite (E3 eq_refl) in G1.
            split; [reflexivity|split; [exact G1|split; [exact E2|]]]. intros _. right. exists w. auto.
    Qed.

    (* ---------------------------------------------------------------- delete *)
    Definition del_ok (f : nat) : Prop := forall n p key t, Good p n t ->
      exists d n', w_delete V g f n p key = Some (d, n') /\
        Good p n' (snd (delete V f t key)) /\ fst (delete V f t key) = d /\
        (d = true -> not_ref n') /\
        (d = false -> n' = n \/ exists w, n = WRef w /\ w_resolve_ref V g p w = Some n').

    Lemma del_step_ok f : del_ok f -> forall n p key t, Good p n t -> not_ref n ->
      exists d n', del_step V g (w_delete V g f) n p key = Some (d, n') /\
        Good p n' (snd (delete V (S f) t key)) /\ fst (delete V (S f) t key) = d /\
        (d = true -> not_ref n') /\ (d = false -> n' = n).
    Proof.
      intros IH n p key t HG Hnr.
      destruct n as [|a|k c fl|cs fl|w]; cbn [not_ref] in Hnr; try contradiction.
      - apply Good_nil_inv in HG as ->. exists false, WNil. cbn.
        split; [reflexivity|split; [constructor|split; [reflexivity|split; [discriminate|auto]]]].
      - pose proof (Good_val_inv _ _ _ HG) as ->. exists true, WNil. cbn.
        split; [reflexivity|split; [constructor|split; [reflexivity|split; [auto|discriminate]]]].
      - destruct (Good_short_inv _ _ _ _ _ HG) as [c' [-> [Hk [Hc Hf]]]]. cbn [del_step delete].
        set (m := prefix_len key k) in *.
        pose proof (prefix_len_le_r key k) as Hm. fold m in Hm.
        destruct (m <? length k) eqn:E1.
        { exists false, (WShort k c fl). cbn [fst snd].
          split; [reflexivity|split; [exact HG|split; [reflexivity|split; [discriminate|auto]]]]. }
        apply Nat.ltb_ge in E1. assert (Em : m = length k) by lia.
        destruct (m =? length key).
        { exists true, WNil. cbn [fst snd].
          split; [reflexivity|split; [constructor|split; [reflexivity|split; [intros _; exact I|discriminate]]]]. }
        assert (Ef : firstn (length k) key = k).
        { apply firstn_full_prefix. rewrite prefix_len_comm. exact Em. }
        rewrite Ef.
        destruct (IH c (p ++ k) (skipn (length k) key) c' Hc) as [d [ch [E2 [G2 [E3 [E4 E5]]]]]]. rewrite E2.
        destruct (delete V f c' (skipn (length k) key)) as [d0 ch']. cbn [fst snd] in *. subst d0.
        destruct d.
        + specialize (E4 eq_refl).
          destruct ch as [|a|k2 c2 f2|cs2 f2|w]; cbn [not_ref] in E4; try contradiction.
          * apply Good_nil_inv in G2 as ->. eexists true, _.
            split; [reflexivity|split; [|split; [reflexivity|split; [intros _; exact I|discriminate]]]].
            cbn [snd]. apply Good_short; [exact Hk|constructor|discriminate].
          * pose proof (Good_val_inv _ _ _ G2) as ->. eexists true, _.
            split; [reflexivity|split; [|split; [reflexivity|split; [intros _; exact I|discriminate]]]].
            cbn [snd]. apply Good_short; [exact Hk|exact G2|discriminate].
          * destruct (Good_short_inv _ _ _ _ _ G2) as [c2' [-> [Hk2 [Hc2 _]]]]. eexists true, _.
            split; [reflexivity|split; [|split; [reflexivity|split; [intros _; exact I|discriminate]]]].
            cbn [snd]. apply Good_short.
            -- destruct k; [congruence|discriminate].
            -- rewrite app_assoc. exact Hc2.
            -- discriminate.
          * destruct (Good_full_inv _ _ _ _ G2) as [cs2' [-> _]]. eexists true, _.
            split; [reflexivity|split; [|split; [reflexivity|split; [intros _; exact I|discriminate]]]].
            cbn [snd]. apply Good_short; [exact Hk|exact G2|discriminate].
        + exists false, (WShort k c fl). cbn [fst snd].
          split; [reflexivity|split; [exact HG|split; [reflexivity|split; [discriminate|auto]]]].
      - destruct (Good_full_inv _ _ _ _ HG) as [cs' [-> [Hc Hf]]]. cbn [del_step delete].
        destruct key as [|i r].
        { exists false, (WFull cs fl). cbn [fst snd].
          split; [reflexivity|split; [exact HG|split; [reflexivity|split; [discriminate|auto]]]]. }
        pose proof (GoodL_child _ _ _ _ Hc i) as Hi. cbn [Nat.add] in Hi.
        destruct (IH _ _ r _ Hi) as [d [nn [E2 [G2 [E3 [E4 E5]]]]]]. rewrite E2.
        destruct (delete V f (child V cs' i) r) as [d0 nn']. cbn [fst snd] in *. subst d0.
        destruct d.
        2:{ exists false, (WFull cs fl). cbn [fst snd].
            split; [reflexivity|split; [exact HG|split; [reflexivity|split; [discriminate|auto]]]]. }
        assert (Hc1 : GoodL p 0 (wupd V cs i nn) (upd V cs' i nn')) by (apply GoodL_upd; auto).
        cbv zeta. unfold wsingle_pos, single_pos. rewrite (GoodL_single_pos _ _ _ _ Hc1 0).
        destruct (single_pos_from V (upd V cs' i nn') 0) as [pos|].
        2:{ eexists true, _.
            split; [reflexivity|split; [|split; [reflexivity|split; [intros _; exact I|discriminate]]]].
            cbn [snd]. apply Good_full; [exact Hc1|discriminate]. }
        pose proof (GoodL_child _ _ _ _ Hc1 pos) as Hp. cbn [Nat.add] in Hp.
        assert (Plain : Good p (WShort [pos] (wchild V (wupd V cs i nn) pos) Dirty) (Short [pos] (child V (upd V cs' i nn') pos))).
        { apply Good_short; [discriminate|exact Hp|discriminate]. }
        destruct (negb (pos =? 16)).
        2:{ eexists true, _.
            split; [reflexivity|split; [exact Plain|split; [reflexivity|split; [intros _; exact I|discriminate]]]]. }
        destruct (Good_resolve _ _ _ Hp) as [cn [Er [Gc [Nc _]]]]. rewrite Er.
        remember (child V (upd V cs' i nn') pos) as tp eqn:Etp.
        destruct cn as [|a|k2 c2 f2|cs2 f2|w]; cbn [not_ref] in Nc; try contradiction.
        * apply Good_nil_inv in Gc. rewrite Gc in *. eexists true, _.
          split; [reflexivity|split; [exact Plain|split; [reflexivity|split; [intros _; exact I|discriminate]]]].
        * pose proof (Good_val_inv _ _ _ Gc) as Et. rewrite Et in *. eexists true, _.
          split; [reflexivity|split; [exact Plain|split; [reflexivity|split; [intros _; exact I|discriminate]]]].
        * destruct (Good_short_inv _ _ _ _ _ Gc) as [c2' [Et [Hk2 [Hc2 _]]]]. rewrite Et in *. eexists true, _.
          split; [reflexivity|split; [|split; [reflexivity|split; [intros _; exact I|discriminate]]]].
          cbn [snd]. apply Good_short; [discriminate| |discriminate].
          rewrite <- app_assoc in Hc2. exact Hc2.
        * destruct (Good_full_inv _ _ _ _ Gc) as [cs2' [Et _]]. rewrite Et in *. eexists true, _.
          split; [reflexivity|split; [exact Plain|split; [reflexivity|split; [intros _; exact I|discriminate]]]].
    Qed.

    Lemma w_delete_S_nonref f n p key : not_ref n ->
      w_delete V g (S f) n p key = del_step V g (w_delete V g f) n p key.
    Proof. destruct n; cbn [not_ref]; intros H; try reflexivity. contradiction. Qed.

    Lemma w_delete_ok : forall f, del_ok f.
    Proof.
      induction f as [|f IH]; intros n p key t HG.
      - exists false, n. cbn. split; [reflexivity|split; [exact HG|split; [reflexivity|split; [discriminate|auto]]]].
      - destruct n as [|a|k c fl|cs fl|w].
        1-4: rewrite w_delete_S_nonref by exact I;
             (destruct (del_step_ok f IH _ p key t HG I) as [d [n' [E1 [G1 [E2 [E3 E4]]]]]]);
             exists d, n'; auto 8.
        destruct (Good_resolve _ _ _ HG) as [rn [Er [Gr [Nr _]]]]. cbn [w_resolve] in Er.
        destruct (del_step_ok f IH rn p key t Gr Nr) as [d [n' [E1 [G1 [E2 [E3 E4]]]]]].
        cbn [w_delete]. rewrite Er, E1. destruct d.
        + exists true, n'. split; [reflexivity|split; [exact G1|split; [exact E2|split; [exact E3|discriminate]]]].
        + exists false, rn. rewrite (E4 eq_refl) in G1.
          split; [reflexivity|split; [exact G1|split; [exact E2|split; [discriminate|]]]]. intros _. right. exists w. auto.
    Qed.

    (* ---------------------------------------------------------------- the handle: Trie.Get / Trie.Update *)
    Theorem wt_get_refines w key t : Good [] w t ->
      exists val w', wt_get V g w key = Some (val, w') /\ val = trie_get V t key /\ Good [] w' t.
    Proof.
      intros HG. destruct (w_get_ok (S (length key)) w [] key t HG) as [val [w' [dr [E1 [E2 [G1 _]]]]]].
      exists val, w'. unfold wt_get. rewrite E1. auto.
    Qed.

    Theorem wt_update_refines w key ov t : Good [] w t ->
      exists w', wt_update V veqb g w key ov = Some w' /\ Good [] w' (trie_update V veqb t key ov).
    Proof.
      intros HG. unfold wt_update, trie_update, trie_insert, trie_delete. destruct ov as [v|].
      - destruct (w_insert_ok (S (length key)) w [] key v t HG) as [d [w' [E1 [G1 _]]]]. rewrite E1. eauto.
      - destruct (w_delete_ok (S (length key)) w [] key t HG) as [d [w' [E1 [G1 _]]]]. rewrite E1. eauto.
    Qed.

    (* any sequence of reads, updates and deletes: never a missing node, the handle denotes what C06's trie_update gives,
       stays coherent, and its clean nodes and references stay in Old *)
    Theorem wt_run_refines : forall ops w t, Good [] w t ->
      exists w', wt_run V veqb g ops w = Some w' /\ Good [] w' (lrun veqb ops t).
    Proof.
      induction ops as [|[k|k ov] ops IH]; intros w t HG; cbn [wt_run lrun].
      - eauto.
      - destruct (wt_get_refines w k t HG) as [val [w' [E1 [_ G1]]]]. rewrite E1. apply IH; auto.
      - destruct (wt_update_refines w k ov t HG) as [w' [E1 G1]]. rewrite E1. apply IH; auto.
    Qed.

    (* Trie.Commit's own resolution of the root, and the premises of the canonical commit step *)
    Lemma wt_commit_resolve big skip newv w :
      wt_commit V g big skip newv w =
      match w_resolve V g w [] with Some r => Some (wstore V big skip newv [] r) | None => None end.
    Proof. destruct w; reflexivity. Qed.

    Lemma Good_root_inner w t : Good [] w t -> wfc V t -> t <> Nil ->
      exists r, w_resolve V g w [] = Some r /\ Good [] r t /\ is_inner V r /\ w <> WNil.
    Proof.
      intros HG Hw Hn. destruct (Good_resolve _ _ _ HG) as [r [Er [Gr [Nr _]]]].
      exists r. split; [exact Er|split; [exact Gr|split]].
      - destruct r as [|a| | |]; cbn in *; auto.
        + apply Good_nil_inv in Gr. contradiction.
        + pose proof (Good_val_inv _ _ _ Gr) as ->. destruct Hw as [E|E]; [discriminate|inversion E].
      - intros ->. apply Good_nil_inv in HG. contradiction.
    Qed.

    (* conversely: a coherent working trie that denotes t and whose followed nodes are all in Old is Good *)
    Lemma Good_of_coherent : forall p n t, WRes V g p n t -> Coh V g p n ->
      (forall q w b, Reach V g p (enc_child V n) q w b -> Old q w b) -> Good p n t.
    Proof.
      apply (WRes_mut V g
        (fun p n t _ => Coh V g p n -> (forall q w b, Reach V g p (enc_child V n) q w b -> Old q w b) -> Good p n t)
        (fun p i cs cts _ => CohL V g p i cs ->
           (forall j c q w b, nth_error cs j = Some c -> Reach V g (p ++ [i + j]) (enc_child V c) q w b -> Old q w b) ->
           GoodL p i cs cts)).
      - intros; constructor.
      - intros; constructor.
      - intros p k c f c' _ IH HC HR. inversion HC as [| | |p0 k0 c0 f0 Hk Hcc Hf|]; subst.
        assert (Inner : forall q w b, Reach V g p (enc V (WShort k c f)) q w b -> Old q w b).
        { intros q w b R. apply HR. destruct f as [|v]; cbn [enc_child]; [exact R|].
          eapply Reach_below; [apply (Hf v eq_refl)|exact R]. }
        constructor; auto.
        + apply IH; auto. intros q w b R. apply Inner. rewrite enc_short. apply Reach_short. exact R.
        + intros v Ev. subst f. apply HR. cbn [enc_child]. apply Reach_here. apply (Hf v eq_refl).
      - intros p cs f cs' _ IH HC HR. inversion HC as [| | | |p0 cs0 f0 Hcc Hf]; subst.
        assert (Inner : forall q w b, Reach V g p (enc V (WFull cs f)) q w b -> Old q w b).
        { intros q w b R. apply HR. destruct f as [|v]; cbn [enc_child]; [exact R|].
          eapply Reach_below; [apply (Hf v eq_refl)|exact R]. }
        constructor; auto.
        + apply IH; auto. intros j c q w b Hj R. apply Inner. rewrite enc_full.
          eapply Reach_full; [apply map_nth_error; exact Hj|exact R].
        + intros v Ev. subst f. apply HR. cbn [enc_child]. apply Reach_here. apply (Hf v eq_refl).
      - intros p v b t Hg Hr _ HR. eapply Good_ref; eauto. apply HR. cbn [enc_child]. apply Reach_here. exact Hg.
      - intros; constructor.
      - intros p i c c' t t' _ IHc _ IHt HC HR. inversion HC as [|p0 i0 c0 t0 Hc0 Ht0]; subst. constructor.
        + apply IHc; auto. intros q w b R. apply (HR 0%nat c q w b); [reflexivity|]. rewrite Nat.add_0_r. exact R.
        + apply IHt; auto. intros j c1 q w b Hj R. apply (HR (S j) c1 q w b); [exact Hj|]. rewrite Nat.add_succ_r. exact R.
    Qed.
  End Inv.

  (* ---------------------------------------------------------------- handles opened at the head root of a history *)
  Notation store := (store V).
  Local Open Scope N_scope.

  (* trie.New(Root{hash, ver}, db): a reference to the head root; the empty trie if nothing was committed yet *)
  Definition head_handle (chain : list (ver * node)) : wnode :=
    match chain with [] => WNil | vt :: _ => WRef (fst vt) end.
  Definition head_trie (chain : list (ver * node)) : node :=
    match chain with [] => Nil | vt :: _ => snd vt end.
  (* the nodes the head root follows *)
  Definition head_old (g : getter) (chain : list (ver * node)) : list nat -> ver -> snode -> Prop :=
    fun q w b => match chain with [] => False | vt :: _ => RR V g (fst vt) q w b end.

  Section Head.
    Variable s : store.
    Variable name : N.
    Variable chain : list (ver * node).
    Variable P : N.
    Hypothesis HI : Inv V s name chain P.
    Let g := sget V s name.

    Lemma head_old_get q w b : head_old g chain q w b -> g q w = Some b.
    Proof. unfold head_old. destruct chain; [contradiction|]. apply Reach_get. Qed.
    Lemma head_old_cl q w b q1 w1 b1 : head_old g chain q w b -> Reach V g q b q1 w1 b1 -> head_old g chain q1 w1 b1.
    Proof. unfold head_old. destruct chain; [contradiction|]. intros R R1. eapply Reach_trans; eauto. Qed.
    Lemma head_old_ok q w b : head_old g chain q w b -> blob_ok V b.
    Proof.
      unfold head_old. destruct chain as [|vt ch]; [contradiction|]. intros R.
      destruct HI as [_ [HF _]]. inversion HF as [|x l [_ [Hb _]] _]; subst. eapply Hb; eauto.
    Qed.

    Lemma head_handle_good : Good g (head_old g chain) [] (head_handle chain) (head_trie chain).
    Proof.
      unfold head_handle, head_trie, head_old. destruct chain as [|vt ch]; [constructor|].
      destruct HI as [_ [HF _]]. inversion HF as [|x l [HR _] _]; subst.
      inversion HR as [| | | |p0 v0 b t0 Hg Hr]; subst.
      apply (Good_ref g _ [] (fst vt) b (snd vt)); [|exact Hr].
      unfold RR. apply Reach_here. exact Hg.
    Qed.

    (* `derived`, coherence and denotation for every handle obtained from the head root by reads, updates and deletes;
       the operations never fail (no MissingNodeError on a live root) *)
    Theorem handle_from_ops ops :
      exists w, wt_run V veqb g ops (head_handle chain) = Some w /\
        WRes V g [] w (lrun veqb ops (head_trie chain)) /\ Coh V g [] w /\ derived V g chain w.
    Proof.
      destruct (wt_run_refines g (head_old g chain) head_old_get head_old_cl head_old_ok ops _ _ head_handle_good)
        as [w [E GW]].
      exists w. split; [exact E|split; [|split]].
      - eapply Good_WRes; eauto. apply head_old_get.
      - eapply Good_Coh; eauto. apply head_old_get.
      - intros q w0 r T. destruct (Good_tops g (head_old g chain) _ _ _ GW q w0 r T) as [b Hb].
        unfold head_old in Hb. destruct chain; [contradiction|eauto].
    Qed.
  End Head.

  (* ---------------------------------------------------------------- histories given as lists of operations *)
  Definition hop_valid (o : hop V) : Prop := vkey (hop_key V o).

  Lemma lrun_wfc : forall ops t, wfc V t -> Forall hop_valid ops -> wfc V (lrun veqb ops t).
  Proof.
    induction ops as [|[k|k ov] ops IH]; intros t Ht Hv; cbn [lrun]; auto; inversion Hv; subst.
    - apply IH; auto.
    - apply IH; auto. apply update_wf_root; auto.
  Qed.

  (* one block of the canonical chain: a handle opened at the head root, the operations, Trie.Commit(newv) *)
  Definition commit_ops (s : store) (name : N) (chain : list (ver * node)) (newv : ver)
             (big : wnode -> bool) (skip : bool) (ops : list (hop V)) : store :=
    match wt_run V veqb (sget V s name) ops (head_handle chain) with
    | Some w =>
      match wt_commit V (sget V s name) big skip newv w with
      | Some (_, es) => commit V s name newv es
      | None => s
      end
    | None => s
    end.

  (* History of Store/ProofsLink.v with the canonical commit step given by what the client DID (operations on valid keys
     leaving a non-empty trie) instead of a working trie with hypotheses about it *)
  Inductive OpsHistory (name : N) : store -> list (ver * node) -> N -> Prop :=
  | OH_init s P : (0 < hf V s)%N -> OpsHistory name s [] P
  | OH_block s chain P newv big skip ops :
      OpsHistory name s chain P ->
      hist_fresh V s name newv -> (P <= fst newv)%N ->
      match chain with [] => True | vt :: _ => (fst (fst vt) < fst newv)%N end ->
      Forall hop_valid ops -> lrun veqb ops (head_trie chain) <> Nil ->
      OpsHistory name (commit_ops s name chain newv big skip ops)
                 ((newv, lrun veqb ops (head_trie chain)) :: chain) P
  | OH_other s chain P name' v' es :
      OpsHistory name s chain P ->
      name' <> name \/ (hist_fresh V s name v' /\ (P <= fst v')%N) ->
      OpsHistory name (commit V s name' v' es) chain P
  | OH_prune s newer anchor older P base target cps f nodes :
      OpsHistory name s (newer ++ anchor :: older) P ->
      (P <= base)%N -> (base <= target)%N -> (base mod hf V s = 0)%N -> (target mod hf V s = 0)%N ->
      Forall (fun vt => (target <= fst (fst vt))%N) newer -> (fst (fst anchor) < target)%N ->
      checkpoint_nodes V f s name (fst anchor) base = Some nodes ->
      cps_for V name cps nodes ->
      OpsHistory name (prune V s cps base target) (live_after V name newer anchor) target.

  Definition all_wfc (chain : list (ver * node)) : Prop := Forall (fun vt => wfc V (snd vt)) chain.

  Lemma head_trie_wfc chain : all_wfc chain -> wfc V (head_trie chain).
  Proof. intros H. destruct chain; [left; reflexivity|]. inversion H; auto. Qed.

  (* the step: the store commit_ops computes is a canonical commit step of History, whose premises about the working
     trie (coherent, denotes the trie, inner, derived) are all discharged *)
  Lemma commit_ops_step name s chain P newv big skip ops :
    History V name s chain P -> all_wfc chain ->
    hist_fresh V s name newv -> (P <= fst newv)%N ->
    match chain with [] => True | vt :: _ => (fst (fst vt) < fst newv)%N end ->
    Forall hop_valid ops -> lrun veqb ops (head_trie chain) <> Nil ->
    History V name (commit_ops s name chain newv big skip ops) ((newv, lrun veqb ops (head_trie chain)) :: chain) P /\
    wfc V (lrun veqb ops (head_trie chain)).
  Proof.
    intros H W Hfr HP Hlt Hv Hne.
    pose proof (History_Inv V name s chain P H) as HI.
    set (g := sget V s name). set (Old := head_old g chain).
    assert (Wt : wfc V (lrun veqb ops (head_trie chain))) by (apply lrun_wfc; auto; apply head_trie_wfc; auto).
    split; [|exact Wt].
    destruct (wt_run_refines g Old (head_old_get s name chain P HI) (head_old_cl s name chain P HI)
                (head_old_ok s name chain P HI) ops _ _ (head_handle_good s name chain P HI)) as [w [E GW]].
    destruct (Good_root_inner g Old (head_old_get s name chain P HI) (head_old_cl s name chain P HI)
                (head_old_ok s name chain P HI) w _ GW Wt Hne) as [r [Er [Gr [Ir _]]]].
    unfold commit_ops. fold g. rewrite E, wt_commit_resolve, Er.
    destruct (wstore V big skip newv [] r) as [r' es] eqn:Ew.
    replace es with (snd (wstore V big skip newv [] r)) by (rewrite Ew; reflexivity).
    apply H_commit; auto.
    - eapply Good_Coh; eauto. apply (head_old_get s name chain P HI).
    - eapply Good_WRes; eauto. apply (head_old_get s name chain P HI).
    - intros q w0 b T. destruct (Good_tops g Old _ _ _ Gr q w0 b T) as [b0 Hb].
      unfold Old, head_old in Hb. destruct chain; [contradiction|eauto].
  Qed.

  Theorem ops_history_sound name s chain P :
    OpsHistory name s chain P -> History V name s chain P /\ all_wfc chain.
  Proof.
    induction 1 as [s P Hf|s chain P newv big skip ops _ [IH W] Hfr HP Hlt Hv Hne|s chain P name' v' es _ [IH W] Hc|
                    s newer anchor older P base target cps f nodes _ [IH W] HPb Hbt Hab Hat Hnew Hanc Hit Hcps].
    - split; [apply H_init; auto|constructor].
    - destruct (commit_ops_step name s chain P newv big skip ops IH W Hfr HP Hlt Hv Hne) as [H1 H2].
      split; [exact H1|constructor; auto].
    - split; [apply H_other; auto|exact W].
    - split; [eapply H_prune; eauto|].
      unfold all_wfc in *. rewrite Forall_forall in *. intros vt I. apply W.
      unfold live_after in I. apply in_app_or in I. apply in_or_app. destruct I as [I|I]; auto.
      right. destruct (root_only name); [destruct I|destruct I as [<-|[]]; left; auto].
  Qed.

  (* every live canonical root of a history given by operations resolves to the trie its operations produced from the
     parent's trie, which is a well-formed trie — so equal content means equal tree (C06 trie_canonical) *)
  Theorem ops_history_roots name s chain P v t :
    OpsHistory name s chain P -> In (v, t) chain ->
    Res V (sget V s name) [] (SRef v) t /\ wfc V t.
  Proof.
    intros H I. destruct (ops_history_sound name s chain P H) as [HH W]. split.
    - eapply history_roots_resolve; eauto.
    - unfold all_wfc in W. rewrite Forall_forall in W. apply (W (v, t) I).
  Qed.
  (* prune_preserves_recent_rounds with the history given as operation lists *)
  Theorem ops_history_roots_open name s chain P v t :
    OpsHistory name s chain P -> In (v, t) chain ->
    Res V (sget V s name) [] (SRef v) t /\
    (exists f0, forall f, (f0 <= f)%nat -> open_root V f s name v = Some t) /\ wfc V t.
  Proof.
    intros H I. destruct (ops_history_sound name s chain P H) as [HH _].
    destruct (ops_history_roots name s chain P v t H I) as [R W].
    split; [exact R|split; [eapply history_roots_open; eauto|exact W]].
  Qed.

  (* prune_preserves_recent, one round *)
  Theorem ops_prune_round_preserves name s newer anchor older P base target cps f nodes v t :
    OpsHistory name s (newer ++ anchor :: older) P ->
    (P <= base)%N -> (base <= target)%N -> (base mod hf V s = 0)%N -> (target mod hf V s = 0)%N ->
    Forall (fun vt => (target <= fst (fst vt))%N) newer -> (fst (fst anchor) < target)%N ->
    checkpoint_nodes V f s name (fst anchor) base = Some nodes ->
    cps_for V name cps nodes ->
    In (v, t) (live_after V name newer anchor) ->
    exists f0, forall f', (f0 <= f')%nat ->
      open_root V f' s name v = Some t /\ open_root V f' (prune V s cps base target) name v = Some t.
  Proof.
    intros H. destruct (ops_history_sound name s _ P H) as [HH _]. intros. eapply prune_round_preserves_open; eauto.
  Qed.

  (* root_is_mpt without a well-formedness premise: the tries two live roots (of any two histories given by operations)
     resolve to are equal as trees as soon as they have the same content — so any hash of the tree is a function of the
     key/value set *)
  Theorem ops_history_canonical name s chain P v t name' s' chain' P' v' t' :
    OpsHistory name s chain P -> In (v, t) chain ->
    OpsHistory name' s' chain' P' -> In (v', t') chain' ->
    (forall k, vkey k -> trie_get V t k = trie_get V t' k) ->
    t = t' /\ Res V (sget V s name) [] (SRef v) t /\ Res V (sget V s' name') [] (SRef v') t.
  Proof.
    intros H I H' I' Heq.
    destruct (ops_history_roots name s chain P v t H I) as [R W].
    destruct (ops_history_roots name' s' chain' P' v' t' H' I') as [R' W'].
    assert (E : t = t') by (apply canonical_get; auto).
    subst t'. auto.
  Qed.
  (* ---------------------------------------------------------------- handles kept across a commit (root-node cache) *)
  (* muxdb keeps the root node a commit returns (Cache.AddRootNode / trie.FromRootNode): the next handle on that root is
     the committed working trie itself instead of a reference to it.  It is Good for the new head as well. *)
  Lemma wstore_root_clean big skip newv (n : wnode) : is_inner V n ->
    enc_child V (fst (wstore V big skip newv [] n)) = SRef newv.
  Proof.
    intros Hin. destruct n; cbn in Hin; try contradiction.
    - rewrite wstore_short. destruct (if is_dirty_inner V n then _ else _). reflexivity.
    - rewrite wstore_full. reflexivity.
  Qed.

  Theorem committed_handle_good name s chain P newv big skip n t :
    History V name s chain P -> hist_fresh V s name newv -> (P <= fst newv)%N ->
    match chain with [] => True | vt :: _ => (fst (fst vt) < fst newv)%N end ->
    Coh V (sget V s name) [] n -> WRes V (sget V s name) [] n t -> is_inner V n ->
    derived V (sget V s name) chain n ->
    let s' := commit V s name newv (snd (wstore V big skip newv [] n)) in
    Good (sget V s' name) (head_old (sget V s' name) ((newv, t) :: chain)) [] (fst (wstore V big skip newv [] n)) t.
  Proof.
    intros H Hfr HP Hlt HC HW Hin Hder s'.
    pose proof (History_Inv V name s chain P H) as HI.
    assert (H' : History V name s' ((newv, t) :: chain) P) by (apply H_commit; auto).
    pose proof (History_Inv V name s' _ P H') as HI'.
    set (g := sget V s name) in *.
    set (Old := fun q w b => match chain with [] => False | vt :: _ => RR V g (fst vt) q w b end).
    assert (Old_ne : forall q w b, Old q w b -> w <> newv).
    { intros q w b O. unfold Old in O. destruct chain as [|vt ch]; [contradiction|].
      apply (followed_not_fresh V s name (vt :: ch) P newv HI Hfr HP vt (or_introl eq_refl) q w b O). }
    destruct (wstore_general V s name newv big skip n t Old) as [_ [HC' [HW' _]]]; auto.
    - intros q w b O. split; [eapply Old_ne; eauto|]. unfold Old in O. destruct chain; [contradiction|]. eapply Reach_get; eauto.
    - intros q w b q1 w1 b1 O R. unfold Old in *. destruct chain; [contradiction|]. eapply Reach_trans; eauto.
    - intros q w b O. unfold Old in O. destruct chain as [|vt ch]; [contradiction|].
      destruct HI as [_ [HF _]]. rewrite Forall_forall in HF. destruct (HF vt (or_introl eq_refl)) as [HRv _].
      eapply Res_sub; eauto.
    - intros q w r T. specialize (Hder q w r T). unfold Old. destruct chain; [contradiction|]. exact Hder.
    - apply (Good_of_coherent (sget V s' name) (head_old (sget V s' name) ((newv, t) :: chain))); auto.
      intros q w b R. unfold head_old, RR. cbn [fst]. rewrite <- (wstore_root_clean big skip newv n Hin). exact R.
  Qed.

  (* one block from ANY Good start handle (a reference to the head root, or the node tree a previous commit left): the
     operations, Trie.Commit; result: the handle the commit returns and the store *)
  Definition block_from (s : store) (name : N) (w0 : wnode) (newv : ver)
             (big : wnode -> bool) (skip : bool) (ops : list (hop V)) : option (wnode * store) :=
    match wt_run V veqb (sget V s name) ops w0 with
    | Some w =>
      match wt_commit V (sget V s name) big skip newv w with
      | Some (w', es) => Some (w', commit V s name newv es)
      | None => None
      end
    | None => None
    end.

  Lemma commit_ops_block_from s name chain newv big skip ops :
    commit_ops s name chain newv big skip ops =
    match block_from s name (head_handle chain) newv big skip ops with Some (_, s') => s' | None => s end.
  Proof.
    unfold commit_ops, block_from. destruct (wt_run V veqb (sget V s name) ops (head_handle chain)); [|reflexivity].
    destruct (wt_commit V (sget V s name) big skip newv w) as [[w' es]|]; reflexivity.
  Qed.

  Theorem block_from_step name s chain P w0 newv big skip ops :
    History V name s chain P -> all_wfc chain ->
    Good (sget V s name) (head_old (sget V s name) chain) [] w0 (head_trie chain) ->
    hist_fresh V s name newv -> (P <= fst newv)%N ->
    match chain with [] => True | vt :: _ => (fst (fst vt) < fst newv)%N end ->
    Forall hop_valid ops -> lrun veqb ops (head_trie chain) <> Nil ->
    exists w' s', block_from s name w0 newv big skip ops = Some (w', s') /\
      History V name s' ((newv, lrun veqb ops (head_trie chain)) :: chain) P /\
      wfc V (lrun veqb ops (head_trie chain)) /\
      Good (sget V s' name) (head_old (sget V s' name) ((newv, lrun veqb ops (head_trie chain)) :: chain)) [] w'
           (lrun veqb ops (head_trie chain)).
  Proof.
    intros H W G0 Hfr HP Hlt Hv Hne.
    pose proof (History_Inv V name s chain P H) as HI.
    set (g := sget V s name) in *. set (Old := head_old g chain) in *.
    assert (Wt : wfc V (lrun veqb ops (head_trie chain))) by (apply lrun_wfc; auto; apply head_trie_wfc; auto).
    destruct (wt_run_refines g Old (head_old_get s name chain P HI) (head_old_cl s name chain P HI)
                (head_old_ok s name chain P HI) ops _ _ G0) as [w [E GW]].
    destruct (Good_root_inner g Old (head_old_get s name chain P HI) (head_old_cl s name chain P HI)
                (head_old_ok s name chain P HI) w _ GW Wt Hne) as [r [Er [Gr [Ir _]]]].
    unfold block_from. fold g. rewrite E, wt_commit_resolve, Er.
    destruct (wstore V big skip newv [] r) as [r' es] eqn:Ew.
    assert (Ees : es = snd (wstore V big skip newv [] r)) by (rewrite Ew; reflexivity).
    assert (Er' : r' = fst (wstore V big skip newv [] r)) by (rewrite Ew; reflexivity).
    assert (C1 : Coh V g [] r) by (eapply Good_Coh; eauto; apply (head_old_get s name chain P HI)).
    assert (C2 : WRes V g [] r (lrun veqb ops (head_trie chain))) by (eapply Good_WRes; eauto; apply (head_old_get s name chain P HI)).
    assert (C3 : derived V g chain r).
    { intros q w1 b T. destruct (Good_tops g Old _ _ _ Gr q w1 b T) as [b0 Hb].
      unfold Old, head_old in Hb. destruct chain; [contradiction|eauto]. }
    exists r', (commit V s name newv es). split; [reflexivity|]. subst es r'.
    split; [apply H_commit; auto|split; [exact Wt|]].
    apply (committed_handle_good name s chain P newv big skip r _ H Hfr HP Hlt C1 C2 Ir C3).
  Qed.
  (* ---------------------------------------------------------------- the root-node cache across other store steps *)
  (* Good only depends on the reader through the nodes of Old *)
  Lemma Good_transfer (g g' : getter) (Old Old' : list nat -> ver -> snode -> Prop) :
    (forall q w b, Old q w b -> Old' q w b) ->
    (forall q w b t, Old q w b -> Res V g q b t -> Res V g' q b t) ->
    forall p n t, Good g Old p n t -> Good g' Old' p n t.
  Proof.
    intros H1 H2.
    apply (Good_mut g Old (fun p n t _ => Good g' Old' p n t) (fun p i cs cs' _ => GoodL g' Old' p i cs cs')); intros; try (constructor; auto).
    eapply Good_ref; eauto.
  Qed.

  (* a store that answers every node the head root follows identically keeps every Good handle of the head *)
  Lemma head_Good_transfer (s s' : store) name chain P w t :
    Inv V s name chain P ->
    (forall q w0 b, head_old (sget V s name) chain q w0 b -> sget V s' name q w0 = Some b) ->
    Good (sget V s name) (head_old (sget V s name) chain) [] w t ->
    Good (sget V s' name) (head_old (sget V s' name) chain) [] w t.
  Proof.
    intros HI Hag. set (g := sget V s name) in *. set (g' := sget V s' name) in *.
    destruct chain as [|vt ch].
    - apply Good_transfer; [intros q w0 b []|intros q w0 b t0 []].
    - destruct HI as [_ [HF _]]. inversion HF as [|x l [HR _] _]; subst.
      destruct (resolution_transfer V g g' [] (SRef (fst vt)) (snd vt) HR Hag) as [_ [T2 _]].
      apply Good_transfer.
      + intros q w0 b O. unfold head_old, RR in *. apply T2. exact O.
      + intros q w0 b t0 O R.
        destruct (resolution_transfer V g g' q b t0 R) as [T1 _]; [|exact T1].
        intros q0 w1 b0 R0. apply Hag. unfold head_old, RR in *. eapply Reach_trans; eauto.
  Qed.

  (* OpsHistory with muxdb's root-node cache: `cache` is the node tree kept for the head root, if any.  A block starts from
     a reference to the head root or from the kept tree; its commit leaves its own tree; other commits (other tries, forks)
     and pruner rounds that keep the head leave the kept tree in place; it may be dropped at any time (eviction, restart). *)
  Inductive OpsHistoryC (name : N) : store -> list (ver * node) -> N -> option wnode -> Prop :=
  | OC_init s P : (0 < hf V s)%N -> OpsHistoryC name s [] P None
  | OC_block s chain P cache newv big skip ops w0 w' s' :
      OpsHistoryC name s chain P cache ->
      w0 = head_handle chain \/ cache = Some w0 ->
      hist_fresh V s name newv -> (P <= fst newv)%N ->
      match chain with [] => True | vt :: _ => (fst (fst vt) < fst newv)%N end ->
      Forall hop_valid ops -> lrun veqb ops (head_trie chain) <> Nil ->
      block_from s name w0 newv big skip ops = Some (w', s') ->
      OpsHistoryC name s' ((newv, lrun veqb ops (head_trie chain)) :: chain) P (Some w')
  | OC_evict s chain P cache : OpsHistoryC name s chain P cache -> OpsHistoryC name s chain P None
  | OC_other s chain P cache name' v' es :
      OpsHistoryC name s chain P cache ->
      name' <> name \/ (hist_fresh V s name v' /\ (P <= fst v')%N) ->
      OpsHistoryC name (commit V s name' v' es) chain P cache
  | OC_prune s newer anchor older P cache base target cps f nodes :
      OpsHistoryC name s (newer ++ anchor :: older) P cache ->
      (P <= base)%N -> (base <= target)%N -> (base mod hf V s = 0)%N -> (target mod hf V s = 0)%N ->
      Forall (fun vt => (target <= fst (fst vt))%N) newer -> (fst (fst anchor) < target)%N ->
      checkpoint_nodes V f s name (fst anchor) base = Some nodes ->
      cps_for V name cps nodes ->
      OpsHistoryC name (prune V s cps base target) (live_after V name newer anchor) target
                  (match newer with [] => None | _ => cache end).

  Definition cache_good (s : store) name chain (cache : option wnode) : Prop :=
    forall w, cache = Some w -> Good (sget V s name) (head_old (sget V s name) chain) [] w (head_trie chain).

  Theorem ops_history_cache_sound name s chain P cache :
    OpsHistoryC name s chain P cache ->
    History V name s chain P /\ all_wfc chain /\ cache_good s name chain cache.
  Proof.
    induction 1 as [s P Hf|s chain P cache newv big skip ops w0 w' s' _ [IH [W CG]] Hst Hfr HP Hlt Hv Hne Hb|
                    s chain P cache _ [IH [W CG]]|s chain P cache name' v' es _ [IH [W CG]] Hc|
                    s newer anchor older P cache base target cps f nodes _ [IH [W CG]] HPb Hbt Hab Hat Hnew Hanc Hit Hcps].
    - split; [apply H_init; auto|split; [constructor|intros w E; discriminate]].
    - assert (G0 : Good (sget V s name) (head_old (sget V s name) chain) [] w0 (head_trie chain)).
      { destruct Hst as [->|E]; [|apply CG; exact E].
        apply (head_handle_good s name chain P). apply History_Inv; auto. }
      destruct (block_from_step name s chain P w0 newv big skip ops IH W G0 Hfr HP Hlt Hv Hne) as [w2 [s2 [E [H2 [W2 G2]]]]].
      rewrite Hb in E. inversion E; subst w2 s2.
      split; [exact H2|split; [constructor; auto|]]. intros w E'. inversion E'; subst. exact G2.
    - split; [exact IH|split; [exact W|intros w E; discriminate]].
    - split; [apply H_other; auto|split; [exact W|]].
      intros w E. pose proof (History_Inv V name s chain P IH) as HI.
      apply (head_Good_transfer s _ name chain P w _ HI); [|apply CG; exact E].
      intros q w0 b O. unfold head_old in O. destruct chain as [|vt ch]; [contradiction|].
      assert (Hne : name' <> name \/ w0 <> v').
      { destruct Hc as [Hc|[Hfr HP]]; auto. right.
        eapply (followed_not_fresh V s name (vt :: ch) P v' HI Hfr HP vt (or_introl eq_refl)); eauto. }
      destruct (commit_other_agrees V s name' v' es name q w0 Hne) as [Eq _]. rewrite Eq. eapply Reach_get; eauto.
    - pose proof (History_Inv V name s _ P IH) as HI.
      split; [eapply H_prune; eauto|split].
      + unfold all_wfc in *. rewrite Forall_forall in *. intros vt I. apply W.
        unfold live_after in I. apply in_app_or in I. apply in_or_app. destruct I as [I|I]; auto.
        right. destruct (root_only name); [destruct I|destruct I as [<-|[]]; left; auto].
      + destruct newer as [|n0 newer']; [intros w E; discriminate|].
        intros w E. specialize (CG w E).
        assert (Eh : head_trie (live_after V name (n0 :: newer') anchor) = head_trie ((n0 :: newer') ++ anchor :: older)) by reflexivity.
        rewrite Eh.
        assert (Eo : forall g, head_old g (live_after V name (n0 :: newer') anchor) = head_old g ((n0 :: newer') ++ anchor :: older)) by reflexivity.
        rewrite Eo.
        apply (head_Good_transfer s _ name _ P w _ HI); [|exact CG].
        intros q w0 b O. cbn [app head_old] in O.
        apply (prune_agrees V s name P base target cps (n0 :: newer') anchor older f nodes HI HPb Hbt Hab Hat Hnew Hanc Hit Hcps n0);
          [unfold live_after; left; reflexivity|exact O].
  Qed.
End PW.
