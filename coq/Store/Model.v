(* Store/Model.v — model of the muxdb node store (muxdb/trie.go reader and writer, backend.go key spaces and
   DeleteHistoryNodes, Trie.Checkpoint) and of resolving a stored root into a logical trie.  Definitions only.

   hist space   : key (name, path, version)                      [AppendHistNodeKey: partition = major / hf]
   deduped space: key (major / df or none, name, path)            [AppendDedupedNodeKey: df = MaxUint32 -> no partition]
   reader       : hist first; a root (empty path) of the account ("a") or index ("i") trie only from hist;
                  then deduped.  Blobs are stored nodes: embedded children inline, other children as references
                  (path implied, version explicit; the hash inside a reference is never checked on load).
   Names are numbers (0 = account trie, 1 = index trie, >= 2 storage tries). *)
From Coq Require Import List NArith Bool Arith.
From Verif Require Import Trie.Model.
Import ListNotations.
Open Scope N_scope.

Definition ver := (N * N)%type.                       (* major, minor *)
Definition ver_eqb (a b : ver) : bool := (fst a =? fst b) && (snd a =? snd b).

Fixpoint path_eqb (a b : list nat) : bool :=
  match a, b with
  | [], [] => true
  | x :: a', y :: b' => Nat.eqb x y && path_eqb a' b'
  | _, _ => false
  end.

Section Store.
  Variable V : Type.

  (* a stored node: like Trie.Model.node plus references *)
  Inductive snode : Type :=
  | SNil
  | SValue (v : V)
  | SShort (k : list nat) (c : snode)
  | SFull (cs : list snode)
  | SRef (v : ver).

  Record store := mkStore {
    hist : list (N * list nat * ver * snode);
    dedup : list (option N * N * list nat * snode);
    hf : N;                                            (* HistPtnFactor *)
    df : option N                                      (* DedupedPtnFactor; None = MaxUint32 *)
  }.

  Definition dptn (s : store) (major : N) : option N :=
    match df s with Some f => Some (major / f) | None => None end.
  Definition optn_eqb (a b : option N) : bool :=
    match a, b with Some x, Some y => x =? y | None, None => true | _, _ => false end.

  Fixpoint hist_find (l : list (N * list nat * ver * snode)) (name : N) (p : list nat) (v : ver) : option snode :=
    match l with
    | [] => None
    | (n', p', v', b) :: t =>
      if (name =? n') && path_eqb p p' && ver_eqb v v' then Some b else hist_find t name p v
    end.
  Fixpoint dedup_find (l : list (option N * N * list nat * snode)) (pt : option N) (name : N) (p : list nat) : option snode :=
    match l with
    | [] => None
    | (pt', n', p', b) :: t =>
      if optn_eqb pt pt' && (name =? n') && path_eqb p p' then Some b else dedup_find t pt name p
    end.

  Definition root_only (name : N) : bool := name <? 2.
  Definition is_root (p : list nat) : bool := match p with [] => true | _ => false end.

  (* muxdb/trie.go newDatabaseReader (without the caches) *)
  Definition sget (s : store) (name : N) (p : list nat) (v : ver) : option snode :=
    match hist_find (hist s) name p v with
    | Some b => Some b
    | None =>
      if is_root p && root_only name then None
      else dedup_find (dedup s) (dptn s (fst v)) name p
    end.

  (* Trie.Commit: every standalone node of the commit is put under (name, path, newVer) *)
  Definition commit (s : store) (name : N) (v : ver) (entries : list (list nat * snode)) : store :=
    mkStore (map (fun e => (name, fst e, v, snd e)) entries ++ hist s) (dedup s) (hf s) (df s).

  (* Trie.Checkpoint: the standalone nodes met by the iterator (path, version, blob) go to the deduped space *)
  Definition checkpoint (s : store) (name : N) (nodes : list (list nat * ver * snode)) : store :=
    mkStore (hist s)
            (map (fun e => (dptn s (fst (snd (fst e))), name, fst (fst e), snd e)) (rev nodes) ++ dedup s)
            (hf s) (df s).

  (* backend.DeleteHistoryNodes: whole partitions [base/hf, target/hf) *)
  Definition in_deleted (s : store) (base target : N) (v : ver) : bool :=
    (base / hf s <=? fst v / hf s) && (fst v / hf s <? target / hf s).
  Definition delete_history (s : store) (base target : N) : store :=
    mkStore (filter (fun e => negb (in_deleted s base target (snd (fst e)))) (hist s)) (dedup s) (hf s) (df s).

  (* resolving a stored node into the logical trie through a getter; fuel bounds the depth *)
  Fixpoint expand (fuel : nat) (get : list nat -> ver -> option snode) (p : list nat) (n : snode) : option (node V) :=
    match fuel with
    | O => None
    | S f =>
      match n with
      | SNil => Some Nil
      | SValue v => Some (Value v)
      | SShort k c =>
        match expand f get (p ++ k) c with Some c' => Some (Short k c') | None => None end
      | SFull cs =>
        match (fix go (l : list snode) (i : nat) : option (list (node V)) :=
                 match l with
                 | [] => Some []
                 | c :: t =>
                   match expand f get (p ++ [i]) c, go t (S i) with
                   | Some c', Some t' => Some (c' :: t')
                   | _, _ => None
                   end
                 end) cs 0%nat with
        | Some cs' => Some (Full cs')
        | None => None
        end
      | SRef v =>
        match get p v with Some b => expand f get p b | None => None end
      end
    end.

  (* NewTrie(name, Root{_, v}) then reading everything *)
  Definition open_root (fuel : nat) (s : store) (name : N) (v : ver) : option (node V) :=
    expand fuel (sget s name) [] (SRef v).

  (* trie/iterator.go with minVer, as used by muxdb Trie.Checkpoint(baseMajorVer) on a trie opened at a stored root:
     pre-order walk; a child that is a reference (or a loaded clean node: cache() gives its ref, !dirty) whose version
     compares below minVer is skipped together with its whole subtree (peek for the root, nextChild for the children of
     full / short nodes); embedded nodes (decoded with ref = nil, hence dirty) are entered without a test and have no blob;
     value nodes are leaves.  Every standalone node met is reported as (path, version, blob as read through the reader) —
     these are exactly the iterations for which Blob() is non-empty, i.e. the deduped-space puts of Checkpoint.
     A reference that cannot be loaded makes the iterator fail (Checkpoint returns the error and the pruner does not
     delete): None.  fuel bounds the depth. *)
  Definition ver_ltb (a b : ver) : bool := (fst a <? fst b) || ((fst a =? fst b) && (snd a <? snd b)).

  Fixpoint iter_nodes (fuel : nat) (get : list nat -> ver -> option snode) (min : ver) (p : list nat) (n : snode)
    : option (list (list nat * ver * snode)) :=
    match fuel with
    | O => None
    | S f =>
      match n with
      | SNil => Some []
      | SValue _ => Some []
      | SShort k c => iter_nodes f get min (p ++ k) c
      | SFull cs =>
        (fix go (l : list snode) (i : nat) : option (list (list nat * ver * snode)) :=
           match l with
           | [] => Some []
           | c :: t =>
             match iter_nodes f get min (p ++ [i]) c, go t (S i) with
             | Some a, Some b => Some (a ++ b)
             | _, _ => None
             end
           end) cs 0%nat
      | SRef w =>
        if ver_ltb w min then Some []
        else match get p w with
             | None => None
             | Some b => match iter_nodes f get min p b with Some r => Some ((p, w, b) :: r) | None => None end
             end
      end
    end.

  (* the nodes Trie.Checkpoint(base) of the trie opened at root (name, v) puts into the deduped space
     (pruner.go: the index trie and the account trie of block target-1, and each storage trie met whose
     StorageMajorVer >= base — for an older storage root the iterator's own root test gives the same: nothing) *)
  Definition checkpoint_nodes (fuel : nat) (s : store) (name : N) (v : ver) (base : N)
    : option (list (list nat * ver * snode)) :=
    iter_nodes fuel (sget s name) (base, 0) [] (SRef v).

  (* one round of the pruner for one trie: checkpoint the root of block target-1, then delete [base, target) *)
  Definition prune_trie (fuel : nat) (s : store) (name : N) (v : ver) (base target : N) : option store :=
    match checkpoint_nodes fuel s name v base with
    | Some nodes => Some (delete_history (checkpoint s name nodes) base target)
    | None => None
    end.

  (* the cache layer: a partial map answering before the store *)
  Definition cached_get (cache : list nat -> ver -> option snode) (get : list nat -> ver -> option snode)
             (p : list nat) (v : ver) : option snode :=
    match cache p v with Some b => Some b | None => get p v end.
End Store.

Arguments SNil {V}.
Arguments SValue {V}.
Arguments SShort {V}.
Arguments SFull {V}.
Arguments SRef {V}.

(* ---------------------------------------------------------------- the working trie of a handle and hasher.store *)
Section Working.
  Variable V : Type.

  (* nodeFlag: dirty (not stored standalone: new, or embedded in its parent) or clean with the version it is stored at *)
  Inductive flag := Dirty | Clean (v : ver).

  (* a trie in memory: loaded/created nodes carry flags; WRef is a refNode (not loaded, or dropped from the cache) *)
  Inductive wnode : Type :=
  | WNil
  | WValue (v : V)
  | WShort (k : list nat) (c : wnode) (f : flag)
  | WFull (cs : list wnode) (f : flag)
  | WRef (v : ver).

  (* node.go encode: a child is written inline when it is dirty, as a reference (path implied, version) otherwise *)
  Fixpoint enc (n : wnode) : snode V :=
    match n with
    | WNil => SNil
    | WValue v => SValue v
    | WShort k c _ => SShort k (match c with
                                | WShort _ _ (Clean v) | WFull _ (Clean v) | WRef v => SRef v
                                | _ => enc c
                                end)
    | WFull cs _ => SFull (map (fun c => match c with
                                         | WShort _ _ (Clean v) | WFull _ (Clean v) | WRef v => SRef v
                                         | _ => enc c
                                         end) cs)
    | WRef v => SRef v
    end.

  Definition enc_child (c : wnode) : snode V :=
    match c with
    | WShort _ _ (Clean v) | WFull _ (Clean v) | WRef v => SRef v
    | _ => enc c
    end.

  Definition is_dirty_inner (c : wnode) : bool :=
    match c with WShort _ _ Dirty | WFull _ Dirty => true | _ => false end.

  (* hasher.go store: dirty full/short children are stored first (children 0..15 of a full node, the child of a short
     node); a full node is put when it is the root, has a hash (`big`: its consensus encoding is >= 32 bytes) or hashes are
     skipped; a short node only when it is the root or hashes are skipped (otherwise it stays embedded, hence dirty).
     The replacement of expired cached children by their references (cacheTTL) does not change what is written and is
     left out.  Result: the node with its flags after the commit, and the (path, blob) entries put at newVer. *)
  (* the loop over the children of a full node; rec is hasher.store itself *)
  Definition wchildren_with (rec : list nat -> wnode -> wnode * list (list nat * snode V)) (path : list nat)
    : list wnode -> nat -> list wnode * list (list nat * snode V) :=
    fix go (l : list wnode) (i : nat) : list wnode * list (list nat * snode V) :=
      match l with
      | [] => ([], [])
      | c :: t =>
        let '(c', ec) := if is_dirty_inner c && (i <? 16)%nat then rec (path ++ [i]) c else (c, []) in
        let '(t', et) := go t (S i) in
        (c' :: t', ec ++ et)
      end.

  Fixpoint wstore (big : wnode -> bool) (skip : bool) (newv : ver) (path : list nat) (n : wnode) {struct n}
    : wnode * list (list nat * snode V) :=
    match n with
    | WFull cs f =>
      let r := wchildren_with (fun p c => wstore big skip newv p c) path cs 0%nat in
      let n1 := WFull (fst r) f in
      if is_root path || big n1 || skip
      then (WFull (fst r) (Clean newv), (path, enc n1) :: snd r)
      else (n1, snd r)
    | WShort k c f =>
      let '(c', ec) := if is_dirty_inner c then wstore big skip newv (path ++ k) c else (c, []) in
      let n1 := WShort k c' f in
      if is_root path || skip
      then (WShort k c' (Clean newv), (path, enc n1) :: ec)
      else (n1, ec)
    | _ => (n, [])                                   (* Go: panic "unexpected node" *)
    end.

  (* iterator.go with minVer (Trie.Checkpoint): the standalone nodes reachable from a loaded root whose version is not
     below min, as (path, version, blob as read from the store); children whose version is below min are skipped *)
  Definition ver_lt (a b : ver) : bool := (fst a <? fst b) || ((fst a =? fst b) && (snd a <? snd b)).
End Working.

Arguments WNil {V}.
Arguments WValue {V}.
Arguments WShort {V}.
Arguments WFull {V}.
Arguments WRef {V}.

(* ---------------------------------------------------------------- executable checks for the correspondence harness
   The harness records what a real Trie.Commit puts (hist keys and blobs) and what a real pruner round puts and deletes,
   decodes keys and blobs, and replays them on this store model: link_check evaluates the link condition of
   Store/ProofsPrune.v on the real entries (every node the new root follows is an entry of the commit or a node the
   parent root follows; nothing else is written; entries are well-formed blobs), prune_round predicts the deduped puts
   (checkpoint_nodes per trie) and deleted_keys the hist deletions of a round. *)
Section Tie.
  Variable V : Type.
  Variable veqb : V -> V -> bool.

  Fixpoint snode_eqb (a b : snode V) : bool :=
    match a, b with
    | SNil, SNil => true
    | SValue x, SValue y => veqb x y
    | SShort k c, SShort k' c' => path_eqb k k' && snode_eqb c c'
    | SFull cs, SFull cs' =>
      (fix go (l l' : list (snode V)) : bool :=
         match l, l' with
         | [], [] => true
         | x :: t, y :: t' => snode_eqb x y && go t t'
         | _, _ => false
         end) cs cs'
    | SRef v, SRef v' => ver_eqb v v'
    | _, _ => false
    end.

  Fixpoint wfk_b (n : snode V) : bool :=
    match n with
    | SShort k c => negb (is_root k) && wfk_b c
    | SFull cs => forallb wfk_b cs
    | _ => true
    end.
  Definition blob_ok_b (b : snode V) : bool :=
    match b with SShort _ _ | SFull _ => wfk_b b | _ => false end.

  (* every standalone node followed while resolving root (name, v), in pre-order *)
  Definition reach_list (f : nat) (s : store V) (name : N) (v : ver) : option (list (list nat * ver * snode V)) :=
    iter_nodes V f (sget V s name) (0, 0) [] (SRef v).

  Definition node_mem (x : list nat * ver * snode V) (l : list (list nat * ver * snode V)) : bool :=
    existsb (fun y => path_eqb (fst (fst x)) (fst (fst y)) && ver_eqb (snd (fst x)) (snd (fst y)) && snode_eqb (snd x) (snd y)) l.

  Fixpoint elookup (q : list nat) (es : list (list nat * snode V)) : option (snode V) :=
    match es with
    | [] => None
    | (p, b) :: t => if path_eqb q p then Some b else elookup q t
    end.

  (* 0 ok; 1 the new root does not resolve; 2 the parent root does not resolve; 3 a followed node is neither an entry of
     the commit nor a node of the parent root; 4 an entry is not followed from the new root; 5 an entry is not a
     well-formed blob *)
  Definition link_check (f : nat) (s : store V) (name : N) (newv : ver) (es : list (list nat * snode V)) (parent : option ver) : N :=
    let s' := commit V s name newv es in
    match reach_list f s' name newv with
    | None => 1
    | Some new =>
      match (match parent with Some vp => reach_list f s name vp | None => Some [] end) with
      | None => 2
      | Some old =>
        if negb (forallb (fun x => if ver_eqb (snd (fst x)) newv
                                   then match elookup (fst (fst x)) es with Some b => snode_eqb b (snd x) | None => false end
                                   else node_mem x old) new) then 3
        else if negb (forallb (fun e => node_mem (fst e, newv, snd e) new) es) then 4
        else if negb (forallb (fun e => blob_ok_b (snd e)) es) then 5
        else 0
      end
    end.

  (* the checkpoints of a round: one iterator pass per trie (name, root version) over the pre-round store *)
  Fixpoint checkpoint_all (f : nat) (s : store V) (tries : list (N * ver)) (base : N)
    : option (list (N * list (list nat * ver * snode V))) :=
    match tries with
    | [] => Some []
    | (name, v) :: t =>
      match checkpoint_nodes V f s name v base, checkpoint_all f s t base with
      | Some nodes, Some r => Some ((name, nodes) :: r)
      | _, _ => None
      end
    end.

  Definition prune_round (f : nat) (s : store V) (tries : list (N * ver)) (base target : N)
    : option (store V * list (N * list (list nat * ver * snode V))) :=
    match checkpoint_all f s tries base with
    | Some cps => Some (delete_history V (fold_left (fun st c => checkpoint V st (fst c) (snd c)) cps s) base target, cps)
    | None => None
    end.

  (* the hist keys DeleteHistoryNodes [base, target) removes *)
  Definition deleted_keys (s : store V) (base target : N) : list (N * list nat * ver) :=
    map (fun e => fst e) (filter (fun e => in_deleted V s base target (snd (fst e))) (hist V s)).
End Tie.
