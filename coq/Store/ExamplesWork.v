(* Store/ExamplesWork.v — a concrete history of the account trie (name 0) given ONLY by lists of handle operations
   (Trie.Get / Trie.Update on hex keys) per block: four blocks, a pruner round [0,2) checkpointing block 1, and a fifth
   block whose operations run on the pruned store (its handle loads nodes from the deduped space).  Non-vacuity witness
   of OpsHistory and of the theorems of Store/ProofsWork.v; the working tries, their flags and what hasher.store writes
   are all computed by the transcriptions (WorkTrie.v w_get / w_insert / w_delete, Model.v wstore). *)
From Coq Require Import List NArith Bool Arith Lia.
From Verif Require Import Trie.Model Trie.Keys Trie.ProofsWf Trie.Theorems
  Store.Model Store.Proofs Store.ProofsCommit Store.ProofsReach Store.ProofsPrune Store.ProofsLink
  Store.ExamplesPrune Store.WorkTrie Store.ProofsWork Store.ProofsDirty.
Import ListNotations.

Definition bigF : wnode nat -> bool := fun _ => false.       (* no full node below the root has a hash: all embedded *)

Definition ka : list nat := [1; 1; 16]%nat.
Definition kb : list nat := [1; 2; 16]%nat.
Definition kc : list nat := [3; 16]%nat.
Definition kd : list nat := [1; 3; 16]%nat.
Definition ke : list nat := [3; 4; 16]%nat.
Definition kf : list nat := [5; 1; 16]%nat.          (* a subtree written by block 0 and not touched before block 4 *)
Definition kg : list nat := [5; 2; 16]%nat.

Definition yops0 : list (hop nat) :=
  [HUpd ka (Some 10%nat); HUpd kb (Some 20%nat); HUpd kc (Some 1%nat); HUpd kf (Some 7%nat); HUpd kg (Some 8%nat)].
Definition yops1 : list (hop nat) := [HGet ka; HUpd kc (Some 2%nat); HUpd kc (Some 2%nat)].          (* the second update is a no-op *)
Definition yops2 : list (hop nat) := [HUpd ka None; HUpd kd (Some 30%nat); HGet kc].                 (* a delete below the branch *)
Definition yops3 : list (hop nat) := [HUpd kc None; HUpd ke (Some 5%nat); HGet kb].                  (* collapses / splits at the root *)
Definition yops4 : list (hop nat) := [HGet kf; HUpd kg None; HUpd ka (Some 11%nat)].                 (* on the pruned store *)

Definition ys0 : store nat := mkStore nat [] [] 2%N None.

Definition yc0 : list (ver * node nat) := [].
Definition yt0 := lrun Nat.eqb yops0 (head_trie nat yc0).
Definition ys1 := commit_ops nat Nat.eqb ys0 0 yc0 v0 bigT false yops0.
Definition yc1 := (v0, yt0) :: yc0.
Definition yt1 := lrun Nat.eqb yops1 (head_trie nat yc1).
Definition ys2 := commit_ops nat Nat.eqb ys1 0 yc1 v1 bigF false yops1.
Definition yc2 := (v1, yt1) :: yc1.
Definition yt2 := lrun Nat.eqb yops2 (head_trie nat yc2).
Definition ys3 := commit_ops nat Nat.eqb ys2 0 yc2 v2 bigT false yops2.
Definition yc3 := (v2, yt2) :: yc2.
Definition yt3 := lrun Nat.eqb yops3 (head_trie nat yc3).
Definition ys4 := commit_ops nat Nat.eqb ys3 0 yc3 v3 bigF false yops3.
Definition yc4 := (v3, yt3) :: yc3.

Definition ynodes : list (list nat * ver * snode nat) :=
  Eval vm_compute in match checkpoint_nodes nat 12 ys4 0 v1 0 with Some l => l | None => [] end.
Definition ycps : list (N * list (list nat * ver * snode nat)) := [(0%N, ynodes)].
Definition ys5 := prune nat ys4 ycps 0 2.
Definition yc5 := [(v3, yt3); (v2, yt2)].
Definition yt4 := lrun Nat.eqb yops4 (head_trie nat yc5).
Definition ys6 := commit_ops nat Nat.eqb ys5 0 yc5 v4 bigT false yops4.
Definition yc6 := (v4, yt4) :: yc5.

Lemma nat_eqb_sound : forall a b : nat, Nat.eqb a b = true -> a = b.
Proof. intros a b. apply Nat.eqb_eq. Qed.

Ltac valid_tac := unfold hop_valid; cbn; repeat (constructor; try lia).

Lemma yH1 : OpsHistory nat Nat.eqb 0 ys1 yc1 0.
Proof.
  apply (OH_block nat Nat.eqb 0 ys0 yc0 0%N v0 bigT false yops0).
  - apply OH_init. reflexivity.
  - intros p. reflexivity.
  - cbn; lia.
  - exact I.
  - valid_tac.
  - vm_compute. discriminate.
Qed.

Lemma yH2 : OpsHistory nat Nat.eqb 0 ys2 yc2 0.
Proof.
  apply (OH_block nat Nat.eqb 0 ys1 yc1 0%N v1 bigF false yops1 yH1).
  - fresh_tac.
  - cbn; lia.
  - cbn; lia.
  - valid_tac.
  - vm_compute. discriminate.
Qed.

Lemma yH3 : OpsHistory nat Nat.eqb 0 ys3 yc3 0.
Proof.
  apply (OH_block nat Nat.eqb 0 ys2 yc2 0%N v2 bigT false yops2 yH2).
  - fresh_tac.
  - cbn; lia.
  - cbn; lia.
  - valid_tac.
  - vm_compute. discriminate.
Qed.

Lemma yH4 : OpsHistory nat Nat.eqb 0 ys4 yc4 0.
Proof.
  apply (OH_block nat Nat.eqb 0 ys3 yc3 0%N v3 bigF false yops3 yH3).
  - fresh_tac.
  - cbn; lia.
  - cbn; lia.
  - valid_tac.
  - vm_compute. discriminate.
Qed.

(* the round [0,2): blocks 2 and 3 stay live *)
Lemma yH5 : OpsHistory nat Nat.eqb 0 ys5 yc5 2.
Proof.
  apply (OH_prune nat Nat.eqb 0 ys4 [(v3, yt3); (v2, yt2)] (v1, yt1) [(v0, yt0)] 0%N 0%N 2%N ycps 12 ynodes).
  - exact yH4.
  - cbn; lia.
  - cbn; lia.
  - reflexivity.
  - reflexivity.
  - repeat constructor; cbn; lia.
  - cbn; lia.
  - vm_compute. reflexivity.
  - split.
    + intros nodes' [E|[]]. inversion E. reflexivity.
    + intros _. left. reflexivity.
Qed.

(* block 4: its operations run on the pruned store *)
Lemma yH6 : OpsHistory nat Nat.eqb 0 ys6 yc6 2.
Proof.
  apply (OH_block nat Nat.eqb 0 ys5 yc5 2%N v4 bigT false yops4 yH5).
  - fresh_tac.
  - cbn; lia.
  - cbn; lia.
  - valid_tac.
  - vm_compute. discriminate.
Qed.

(* what was computed: the tries, what the commits wrote, what the handle of block 4 loaded *)
Example y_tries :
  trie_get nat yt0 ka = Some 10%nat /\ trie_get nat yt1 kc = Some 2%nat /\
  trie_get nat yt2 ka = None /\ trie_get nat yt2 kd = Some 30%nat /\ trie_get nat yt3 kc = None /\ trie_get nat yt3 ke = Some 5%nat /\
  trie_get nat yt4 ka = Some 11%nat /\ trie_get nat yt4 kg = None /\ trie_get nat yt4 kf = Some 7%nat.
Proof. repeat split; vm_compute; reflexivity. Qed.

(* hist keys written per block: block 0 writes the root and both branches (every full node stored); block 1 only the root
   (the branches are referenced); block 2 the root and the rewritten branch *)
Example y_written :
  map (fun e => (snd (fst (fst e)), snd (fst e))) (hist nat ys3) =
  [([], v2); ([1%nat], v2); ([], v1); ([], v0); ([1%nat], v0); ([5%nat], v0)].
Proof. vm_compute. reflexivity. Qed.

Example y_reads_after :
  open_root nat 12 ys6 0 v4 = Some yt4 /\ open_root nat 12 ys6 0 v3 = Some yt3 /\ open_root nat 12 ys6 0 v2 = Some yt2 /\
  open_root nat 12 ys6 0 v1 = None.
Proof. repeat split; vm_compute; reflexivity. Qed.

(* the handle of block 4: its operations load the branch at path [5] written by block 0, which after the round only the
   deduped space holds, and collapse it (the delete leaves one leaf, which is embedded in the new root) *)
Example y_handle4_loaded :
  hist_find nat (hist nat ys5) 0 [5%nat] v0 = None /\ sget nat ys5 0 [5%nat] v0 <> None /\
  (exists w, wt_run nat Nat.eqb (sget nat ys5 0) yops4 (head_handle nat yc5) = Some w /\ w <> WNil).
Proof.
  split; [vm_compute; reflexivity|split; [vm_compute; discriminate|]].
  eexists. split; [vm_compute; reflexivity|discriminate].
Qed.

(* two different operation lists with the same content give the same tree *)
Definition yopsA : list (hop nat) := [HUpd ka (Some 1%nat); HUpd kb (Some 2%nat)].
Definition yopsB : list (hop nat) := [HUpd kb (Some 2%nat); HUpd kc (Some 9%nat); HUpd ka (Some 5%nat); HUpd kc None; HUpd ka (Some 1%nat)].
Example y_same_tree : lrun Nat.eqb yopsA Nil = lrun Nat.eqb yopsB Nil.
Proof. vm_compute. reflexivity. Qed.

(* a client that keeps the node tree its commit returned (muxdb's root-node cache) instead of re-opening a reference:
   blocks 0 and 1 again through block_from; the stores are the same as with reference handles *)
Definition ykept0 := block_from nat Nat.eqb ys0 0 WNil v0 bigT false yops0.
Definition ykept1 :=
  match ykept0 with
  | Some (w, s) => block_from nat Nat.eqb s 0 w v1 bigF false yops1
  | None => None
  end.
Example y_kept_handle_same_stores :
  (match ykept0 with Some (_, s) => s = ys1 | None => False end) /\
  (match ykept1 with Some (w, s) => s = ys2 /\ enc_child nat w = SRef v1 | None => False end).
Proof. split; vm_compute; auto. Qed.

(* a delete that reports `true` on a handle opened as a reference: the result is dirty along the key *)
Example y_delete_dirty :
  exists w', w_delete nat (sget nat ys2 0) 4 (WRef v1) [] ka = Some (true, w') /\ Spine nat w' ka.
Proof.
  eexists. split; [vm_compute; reflexivity|].
  eapply (delete_spine nat (sget nat ys2 0) 4 (WRef v1) [] ka). vm_compute. reflexivity.
Qed.
(* and one that reports `false` (the key is absent): the root reference is replaced by the clean node it resolved to *)
Example y_delete_clean :
  exists w', w_delete nat (sget nat ys2 0) 4 (WRef v1) [] kd = Some (false, w') /\
             w_resolve_ref nat (sget nat ys2 0) [] v1 = Some w' /\ dirty_paths nat [] w' = [].
Proof. eexists. split; [vm_compute; reflexivity|split; vm_compute; reflexivity]. Qed.

(* the same two blocks as a history with the root-node cache: block 0 from the empty trie leaves its tree, block 1 starts
   from it; then a commit of another trie (name 7), which leaves the kept tree in place, and block 2 from the kept tree *)
Definition ykw1 : wnode nat := Eval vm_compute in match ykept0 with Some (w, _) => w | None => WNil end.
Definition ykw2 : wnode nat := Eval vm_compute in match ykept1 with Some (w, _) => w | None => WNil end.
Definition ys2' : store nat := commit nat ys2 7 (9, 9)%N [([], SShort [16%nat] (SValue 1%nat))].
Definition ykept2 := block_from nat Nat.eqb ys2' 0 ykw2 v2 bigT false yops2.
Definition ykw3 : wnode nat := Eval vm_compute in match ykept2 with Some (w, _) => w | None => WNil end.
Definition ys3' : store nat := Eval vm_compute in match ykept2 with Some (_, s) => s | None => ys2' end.

Lemma yC2 : OpsHistoryC nat Nat.eqb 0 ys2 yc2 0 (Some ykw2).
Proof.
  apply (OC_block nat Nat.eqb 0 ys1 yc1 0%N (Some ykw1) v1 bigF false yops1 ykw1 ykw2 ys2).
  - apply (OC_block nat Nat.eqb 0 ys0 yc0 0%N None v0 bigT false yops0 WNil ykw1 ys1).
    + apply OC_init. reflexivity.
    + left. reflexivity.
    + intros p. reflexivity.
    + cbn; lia.
    + exact I.
    + valid_tac.
    + vm_compute. discriminate.
    + vm_compute. reflexivity.
  - right. reflexivity.
  - fresh_tac.
  - cbn; lia.
  - cbn; lia.
  - valid_tac.
  - vm_compute. discriminate.
  - vm_compute. reflexivity.
Qed.

Lemma yC3 : OpsHistoryC nat Nat.eqb 0 ys3' yc3 0 (Some ykw3).
Proof.
  apply (OC_block nat Nat.eqb 0 ys2' yc2 0%N (Some ykw2) v2 bigT false yops2 ykw2 ykw3 ys3').
  - apply OC_other; [exact yC2|left; discriminate].
  - right. reflexivity.
  - fresh_tac.
  - cbn; lia.
  - cbn; lia.
  - valid_tac.
  - vm_compute. discriminate.
  - vm_compute. reflexivity.
Qed.

Example y_cache_reads : open_root nat 12 ys3' 0 v2 = Some yt2 /\ open_root nat 12 ys3' 0 v1 = Some yt1 /\ ykw2 <> WRef v1.
Proof. repeat split; try (vm_compute; reflexivity). discriminate. Qed.
