(* Store/ProofsCompose.v — the per-trie pruning theorems composed for a state read (account root, then the storage trie the
   leaf names), and the link from the executable prune_round to the checkpoint premise of the History theorems. *)
From Coq Require Import List NArith Bool Arith Lia.
From Verif Require Import Trie.Model Store.Model Store.Proofs Store.ProofsCommit Store.ProofsReach Store.ProofsPrune Store.ProofsLink.
Import ListNotations.

Section PCo.
  Variable V : Type.
  Notation snode := (snode V).
  Notation store := (store V).

  (* One store, two tries: the accounts trie (name 0) and a storage trie sname, each with its own History over the same
     store, pruned by the same round (one cps list holding the checkpoint of each).  If the account root av is live after the
     round in the accounts history and the storage root sv — the one the account leaf names — is live after the round in the
     storage trie's history (live_after keeps the checkpointed root of a storage trie for exactly this reason), then the
     state read "open the account root, then the storage root" answers the same trie before and after the round.
     That the storage root named by a leaf of a live account root IS a live root of the storage trie's history (the storage
     trie's canonical commits are those of the canonical blocks; the leaf names the newest at or below its block) is a
     premise here: it relates the State model to the store and is not derived. *)
  Theorem state_read_preserved (s : store) sname
      newerA anchorA olderA newerS anchorS olderS P base target cps fA nodesA fS nodesS av at_ sv st :
    History V 0%N s (newerA ++ anchorA :: olderA) P ->
    History V sname s (newerS ++ anchorS :: olderS) P ->
    (P <= base)%N -> (base <= target)%N -> (base mod hf V s = 0)%N -> (target mod hf V s = 0)%N ->
    Forall (fun vt => (target <= fst (fst vt))%N) newerA -> (fst (fst anchorA) < target)%N ->
    Forall (fun vt => (target <= fst (fst vt))%N) newerS -> (fst (fst anchorS) < target)%N ->
    checkpoint_nodes V fA s 0%N (fst anchorA) base = Some nodesA -> cps_for V 0%N cps nodesA ->
    checkpoint_nodes V fS s sname (fst anchorS) base = Some nodesS -> cps_for V sname cps nodesS ->
    In (av, at_) (live_after V 0%N newerA anchorA) ->
    In (sv, st) (live_after V sname newerS anchorS) ->
    exists f0, forall f, (f0 <= f)%nat ->
      read_through_account V f s av sname sv = Some st /\
      read_through_account V f (prune V s cps base target) av sname sv = Some st.
  Proof.
    intros HA HS HPb Hbt Hab Hat HnA HaA HnS HaS HcA HpA HcS HpS IA IS.
    destruct (prune_round_preserves_open V 0%N s newerA anchorA olderA P base target cps fA nodesA av at_) as [f1 E1]; auto.
    destruct (prune_round_preserves_open V sname s newerS anchorS olderS P base target cps fS nodesS sv st) as [f2 E2]; auto.
    exists (Nat.max f1 f2). intros f Hf.
    destruct (E1 f) as [A1 A2]; [lia|]. destruct (E2 f) as [S1 S2]; [lia|].
    unfold read_through_account. rewrite A1, A2. auto.
  Qed.

  (* the executable round (prune_round, what the harness compares with the real pruner) gives the checkpoint premise of the
     History theorems for every trie handed to it, when each trie is handed once *)
  Lemma checkpoint_all_names f (s : store) base : forall tries cps,
    checkpoint_all V f s tries base = Some cps -> map fst cps = map fst tries.
  Proof.
    induction tries as [|[nm v] tries IH]; intros cps E; cbn in E.
    - inversion E. reflexivity.
    - destruct (checkpoint_nodes V f s nm v base); [|discriminate].
      destruct (checkpoint_all V f s tries base) as [r|]; [|discriminate].
      inversion E; subst. cbn. f_equal. auto.
  Qed.

  Theorem prune_round_cps_for f (s : store) tries base target s' cps name v :
    prune_round V f s tries base target = Some (s', cps) ->
    NoDup (map fst tries) -> In (name, v) tries ->
    exists nodes, checkpoint_nodes V f s name v base = Some nodes /\ cps_for V name cps nodes.
  Proof.
    unfold prune_round. destruct (checkpoint_all V f s tries base) as [cps0|] eqn:E; [|discriminate].
    intros H. inversion H as [[Hs Hc]]. subst cps0. clear H Hs. revert cps E.
    induction tries as [|[nm w] tries IH]; intros cps E Hnd Hin; [destruct Hin|].
    cbn in E. destruct (checkpoint_nodes V f s nm w base) as [nd|] eqn:En; [|discriminate].
    destruct (checkpoint_all V f s tries base) as [r|] eqn:Er; [|discriminate].
    inversion E; subst cps. cbn in Hnd. inversion Hnd as [|x l Hnotin Hnd']; subst.
    pose proof (checkpoint_all_names f s base tries r Er) as Hnames.
    destruct Hin as [Heq|Hin].
    - inversion Heq; subst nm w. exists nd. split; auto. split.
      + intros nodes' [I|I]; [inversion I; auto|].
        exfalso. apply Hnotin. rewrite <- Hnames. apply in_map_iff. exists (name, nodes'). auto.
      + intros _. left. reflexivity.
    - destruct (IH r eq_refl Hnd' Hin) as [nodes [Hc [C1 C2]]]. exists nodes. split; auto. split.
      + intros nodes' [I|I]; [|auto]. inversion I; subst. exfalso. apply Hnotin. apply in_map_iff. exists (name, v). auto.
      + intros Hne. right. auto.
  Qed.
End PCo.
