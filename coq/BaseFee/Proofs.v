(* BaseFee/Proofs.v — bounds of the base fee recurrence. *)
From Coq Require Import ZArith Lia List.
Import ListNotations.
From Verif Require Import BaseFee.Model.
Open Scope Z_scope.

Lemma gas_target_nowrap gl : 0 <= gl <= max_nowrap_gas_limit -> gas_target gl = gl * 75 / 100.
Proof.
  intros H. unfold gas_target, gas_target_percentage.
  rewrite Z.mod_small; [reflexivity|].
  unfold max_nowrap_gas_limit, gas_target_percentage, two64 in *.
  change ((18446744073709551616 - 1) / 75) with 245956587649460688 in H. lia.
Qed.

Lemma target_bounds gl : 2 <= gl -> 0 < gl * 75 / 100 /\ gl - gl * 75 / 100 <= gl * 75 / 100 /\ gl * 75 / 100 <= gl.
Proof. intros H. pose proof (Z.div_mod (gl * 75) 100 ltac:(lia)). pose proof (Z.mod_pos_bound (gl*75) 100 ltac:(lia)). lia. Qed.

Lemma scaled_le pb d t : 0 <= pb -> 0 <= d <= t -> 0 < t -> 0 <= pb * d / t / 8 <= pb / 8.
Proof.
  intros Hpb Hd Ht. split.
  - apply Z.div_pos; [|lia]. apply Z.div_pos; [|lia]. apply Z.mul_nonneg_nonneg; lia.
  - apply Z.div_le_mono; [lia|]. apply Z.div_le_upper_bound; [lia|].
    rewrite (Z.mul_comm t pb). apply Z.mul_le_mono_nonneg_l; lia.
Qed.

Lemma basefee_bounds_lemma galactica pnum gl gu pb :
  0 <= galactica -> galactica < pnum + 1 < two32 ->
  min_gas_limit <= gl <= max_nowrap_gas_limit -> 0 <= gu <= gl -> initial_base_fee <= pb ->
  exists next, calc_base_fee galactica pnum gl gu pb = BfFee next /\
    initial_base_fee <= next /\ Z.abs (next - pb) <= pb / 8.
Proof.
  intros Hg0 Hn Hgl Hgu Hpb. unfold calc_base_fee.
  rewrite Z.mod_small by (unfold two32 in *; lia).
  destruct (pnum + 1 <? galactica) eqn:E1; [apply Z.ltb_lt in E1; lia|].
  destruct (pnum + 1 =? galactica) eqn:E2; [apply Z.eqb_eq in E2; lia|].
  rewrite gas_target_nowrap by (unfold min_gas_limit in *; lia).
  unfold min_gas_limit, initial_base_fee, base_fee_change_denominator in *.
  destruct (target_bounds gl ltac:(lia)) as [Ht [Hd Hle]].
  set (t := gl * 75 / 100) in *.
  assert (H8 : 1 <= pb / 8) by (apply Z.div_le_lower_bound; lia).
  destruct (gu =? t) eqn:E3.
  { exists pb. split; [reflexivity|]. rewrite Z.sub_diag. cbn. lia. }
  destruct (t =? 0) eqn:E4; [apply Z.eqb_eq in E4; lia|].
  apply Z.eqb_neq in E3.
  destruct (gu >? t) eqn:E5.
  - apply Z.gtb_lt in E5.
    pose proof (scaled_le pb (gu - t) t ltac:(lia) ltac:(lia) Ht) as [Hlo Hhi].
    eexists. split; [reflexivity|]. lia.
  - assert (gu < t) by (pose proof (Zgt_cases gu t) as G; rewrite E5 in G; lia).
    pose proof (scaled_le pb (t - gu) t ltac:(lia) ltac:(lia) Ht) as [Hlo Hhi].
    eexists. split; [reflexivity|]. lia.
Qed.

(* at the fork block and before it *)
Lemma basefee_first_block galactica pnum gl gu pb :
  pnum + 1 < two32 -> 0 <= pnum -> pnum + 1 = galactica ->
  calc_base_fee galactica pnum gl gu pb = BfFee initial_base_fee.
Proof.
  intros H H0 E. unfold calc_base_fee. rewrite Z.mod_small by lia.
  rewrite (proj2 (Z.ltb_ge _ _)) by lia. rewrite (proj2 (Z.eqb_eq _ _)) by lia. reflexivity.
Qed.

Lemma basefee_before_fork galactica pnum gl gu pb :
  pnum + 1 < two32 -> 0 <= pnum -> pnum + 1 < galactica ->
  calc_base_fee galactica pnum gl gu pb = BfNone.
Proof.
  intros H H0 E. unfold calc_base_fee. rewrite Z.mod_small by lia.
  rewrite (proj2 (Z.ltb_lt _ _)) by lia. reflexivity.
Qed.

(* above the no-wrap bound the uint64 product gasLimit*75 wraps and the 1/8 bound fails: stated precondition *)
Lemma basefee_wrap_example_lemma :
  exists gl gu pb next, max_nowrap_gas_limit < gl < two64 /\ 0 <= gu <= gl /\ initial_base_fee <= pb /\
    calc_base_fee 1 5 gl gu pb = BfFee next /\ pb / 8 < Z.abs (next - pb).
Proof.
  exists (max_nowrap_gas_limit + 5), (max_nowrap_gas_limit + 5), initial_base_fee. eexists.
  split; [vm_compute; split; reflexivity|]. split; [vm_compute; split; discriminate|].
  split; [vm_compute; discriminate|]. split; [vm_compute; reflexivity|]. vm_compute. reflexivity.
Qed.

(* direction of the move: unchanged exactly at the gas target floor(75% of the gas limit), never up below it, strictly up above it *)
Lemma basefee_direction_lemma galactica pnum gl gu pb :
  0 <= galactica -> galactica < pnum + 1 < two32 ->
  min_gas_limit <= gl <= max_nowrap_gas_limit -> 0 <= gu <= gl -> initial_base_fee <= pb ->
  exists next, calc_base_fee galactica pnum gl gu pb = BfFee next /\
    (gu = gl * 75 / 100 -> next = pb) /\ (gu < gl * 75 / 100 -> next <= pb) /\ (gu > gl * 75 / 100 -> pb < next).
Proof.
  intros Hg0 Hn Hgl Hgu Hpb. unfold calc_base_fee.
  rewrite Z.mod_small by (unfold two32 in *; lia).
  destruct (pnum + 1 <? galactica) eqn:E1; [apply Z.ltb_lt in E1; lia|].
  destruct (pnum + 1 =? galactica) eqn:E2; [apply Z.eqb_eq in E2; lia|].
  rewrite gas_target_nowrap by (unfold min_gas_limit in *; lia).
  unfold min_gas_limit, initial_base_fee, base_fee_change_denominator in *.
  destruct (target_bounds gl ltac:(lia)) as [Ht [Hd Hle]].
  set (t := gl * 75 / 100) in *.
  destruct (gu =? t) eqn:E3.
  { apply Z.eqb_eq in E3. exists pb. split; [reflexivity|]. repeat split; lia. }
  destruct (t =? 0) eqn:E4; [apply Z.eqb_eq in E4; lia|].
  apply Z.eqb_neq in E3.
  destruct (gu >? t) eqn:E5.
  - apply Z.gtb_lt in E5. eexists. split; [reflexivity|]. repeat split; lia.
  - assert (gu < t) by (pose proof (Zgt_cases gu t) as G; rewrite E5 in G; lia).
    pose proof (scaled_le pb (t - gu) t ltac:(lia) ltac:(lia) Ht) as [Hlo Hhi].
    eexists. split; [reflexivity|]. repeat split; lia.
Qed.

(* inductive closure: along any chain of post-fork headers whose base fees are produced by the recurrence (the fork block itself
   carries initial_base_fee, basefee_first_block), every base fee is >= the floor — the precondition `initial_base_fee <= pb` of
   basefee_bounds is therefore an invariant of the chain, not an extra assumption *)
Fixpoint chain_fees (galactica pnum pb : Z) (hs : list (Z * Z)) : option (list Z) :=
  match hs with
  | [] => Some []
  | (gl, gu) :: t =>
    match calc_base_fee galactica pnum gl gu pb with
    | BfFee n => match chain_fees galactica (pnum + 1) n t with Some l => Some (n :: l) | None => None end
    | _ => None
    end
  end.

Lemma basefee_chain_lemma galactica hs : forall pnum pb,
  0 <= galactica -> galactica < pnum + 1 -> pnum + Z.of_nat (length hs) < two32 ->
  Forall (fun h => min_gas_limit <= fst h <= max_nowrap_gas_limit /\ 0 <= snd h <= fst h) hs ->
  initial_base_fee <= pb ->
  exists fs, chain_fees galactica pnum pb hs = Some fs /\ length fs = length hs /\ Forall (fun f => initial_base_fee <= f) fs.
Proof.
  induction hs as [|[gl gu] t IH]; intros pnum pb Hg Hn Hl HF Hpb.
  - exists []. repeat split; constructor.
  - inversion HF as [|? ? [H1 H2] HF']; subst. cbn [fst snd] in *. cbn [length] in Hl. rewrite Nat2Z.inj_succ in Hl.
    destruct (basefee_bounds_lemma galactica pnum gl gu pb Hg ltac:(lia) H1 H2 Hpb) as [n [E [Hn1 _]]].
    cbn [chain_fees]. rewrite E.
    destruct (IH (pnum + 1) n Hg ltac:(lia) ltac:(lia) HF' Hn1) as [fs [E2 [L F]]]. rewrite E2.
    exists (n :: fs). split; [reflexivity|]. split; [cbn; lia|constructor; assumption].
Qed.
