(* BaseFee/Model.v — hand model of consensus/upgrade/galactica/galactica.go CalcBaseFee (definitions only).
   big.Int arithmetic is Z arithmetic; the two uint64 expressions of the code are written with their wrap:
     parent.Number()+1                          (uint32)
     parent.GasLimit() * GasTargetPercentage / 100   (uint64 product, then uint64 division)
   big.Int.Div by zero panics in Go: result BfPanics. *)
From Coq Require Import ZArith.
Open Scope Z_scope.

Definition two64 : Z := 18446744073709551616.
Definition two32 : Z := 4294967296.
Definition initial_base_fee : Z := 10000000000000.       (* thor.InitialBaseFee *)
Definition gas_target_percentage : Z := 75.               (* thor.GasTargetPercentage *)
Definition base_fee_change_denominator : Z := 8.          (* thor.BaseFeeChangeDenominator *)
Definition min_gas_limit : Z := 1000000.                  (* thor.MinGasLimit *)
Definition max_nowrap_gas_limit : Z := (two64 - 1) / gas_target_percentage.

Inductive bf_result := BfNone | BfFee (z : Z) | BfPanics.

Definition gas_target (gl : Z) : Z := ((gl * gas_target_percentage) mod two64) / 100.

(* galactica : fork height; pnum gl gu pb : number, gas limit, gas used, base fee of the PARENT header *)
Definition calc_base_fee (galactica pnum gl gu pb : Z) : bf_result :=
  let next_num := (pnum + 1) mod two32 in
  if next_num <? galactica then BfNone
  else if next_num =? galactica then BfFee initial_base_fee
  else
    let target := gas_target gl in
    if gu =? target then BfFee pb
    else if target =? 0 then BfPanics
    else if gu >? target then
      let y := pb * (gu - target) / target in
      BfFee (pb + Z.max (y / base_fee_change_denominator) 1)
    else
      let y := pb * (target - gu) / target in
      BfFee (Z.max (pb - y / base_fee_change_denominator) initial_base_fee).
