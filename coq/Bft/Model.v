(* Bft/Model.v — executable model of bft/justifier.go, bft/engine.go, bft/casts.go and of the import / propose path of
   cmd/thor/node/block_exec.go + packer_loop.go (definitions only; proofs are in Bft/Proofs*.v).

   What is inside: the vote map and its counters (AddBlock / Summarize with the code's `>` thresholds and integer
   division), computeState rebuilt from the checkpoint (the cache-hit path is `add_block` on the parent's justifier, see
   Proofs: incremental_eq_scratch), the persisted quality records, findCheckpointByQuality with sort.Search's binary
   search and every error branch, CommitBlock (quality record, finalization, Mark), Accepts, Select/BetterThan,
   ShouldVote (lazy newCasts, recentJC, the `quality >= headQuality-1` window over casts at or above finalized),
   Justified() with its one-entry cache, node import guards (known / parent missing / bft rejected), restart.
   What is data: ids (the number is embedded as in block.Number), signers, COM bits, total scores, the validator
   weights and the max-block-proposers parameter (fixed per run), forkConfig.FINALITY = 0.
   Not modelled: the state/justifier LRU caches (pure memoisation: tied by the correspondence run and by the
   incremental-vs-scratch theorem), Resync, PoS "signer absent from committee" error, DB read errors. *)
From Coq Require Import List NArith Bool Lia.
From Verif Require Import Bft.Tree.
Import ListNotations.
Open Scope N_scope.

(* ---------------------------------------------------------------- configuration / epoch arithmetic *)

Record cfg := mkCfg { c_L : N;                (* thor.EpochLength() *)
                      c_mbp : N;              (* max block proposers (PoA threshold base) *)
                      c_pos : bool;           (* PoS active: weights / total weight in force *)
                      c_total : N;            (* total locked weight *)
                      c_w : list (N * N) }.   (* signer -> weight *)

Definition checkpoint (L n : N) : N := n / L * L.                    (* getCheckPoint *)
Definition is_checkpoint (L n : N) : bool := checkpoint L n =? n.    (* isCheckPoint *)
Definition storepoint (L n : N) : N := checkpoint L n + L - 1.       (* getStorePoint *)

Definition weight_of (c : cfg) (s : N) : N :=
  if c_pos c then match find (fun kv => fst kv =? s) (c_w c) with Some kv => snd kv | None => 0 end else 0.
Definition thr_votes (c : cfg) : N := if c_pos c then 0 else c_mbp c * 2 / 3.
Definition thr_weight (c : cfg) : N := if c_pos c then c_total c * 2 / 3 else 0.

(* ---------------------------------------------------------------- justifier.go *)

Record vote := mkV { v_com : bool; v_w : N }.
Record justifier := mkJ { j_pq : N; j_tv : N; j_tw : N; j_votes : list (N * vote);
                          j_com : N; j_comw : N; j_jw : N }.
Definition new_js (pq tv tw : N) : justifier := mkJ pq tv tw [] 0 0 0.

Definition lookup_vote (vs : list (N * vote)) (s : N) : option vote :=
  match find (fun kv => fst kv =? s) vs with Some kv => Some (snd kv) | None => None end.
Definition set_vote (vs : list (N * vote)) (s : N) (v : vote) : list (N * vote) :=
  map (fun kv => if fst kv =? s then (s, v) else kv) vs.

(* AddBlock: first vote of a signer is recorded with its weight; a later vote with the other COM bit turns the
   signer's vote into non-COM (keeping the first weight); anything else changes nothing *)
Definition add_block (js : justifier) (s : N) (com : bool) (w : N) : justifier :=
  match lookup_vote (j_votes js) s with
  | None =>
      mkJ (j_pq js) (j_tv js) (j_tw js) ((s, mkV com w) :: j_votes js)
          (if com then j_com js + 1 else j_com js)
          (if com then j_comw js + w else j_comw js)
          (j_jw js + w)
  | Some prev =>
      if eqb (v_com prev) com then js
      else mkJ (j_pq js) (j_tv js) (j_tw js) (set_vote (j_votes js) s (mkV false (v_w prev)))
               (if v_com prev then j_com js - 1 else j_com js)
               (if v_com prev then j_comw js - v_w prev else j_comw js)
               (j_jw js)
  end.

Record bstate := mkS { s_q : N; s_just : bool; s_comm : bool }.

Definition summarize (js : justifier) : bstate :=
  let j := if j_tw js =? 0 then j_tv js <? N.of_nat (length (j_votes js)) else j_tw js <? j_jw js in
  let c := if j_tw js =? 0 then j_tv js <? j_com js else j_tw js <? j_comw js in
  mkS (if j then j_pq js + 1 else j_pq js) j c.

(* ---------------------------------------------------------------- computeState (from the checkpoint) *)

Definition get_q (qs : list (N * N)) (id : N) : N :=
  match find (fun kv => fst kv =? id) qs with Some kv => snd kv | None => 0 end.

Fixpoint take_while {A} (f : A -> bool) (l : list A) : list A :=
  match l with [] => [] | x :: t => if f x then x :: take_while f t else [] end.

Definition in_epoch (cp : N) (x : blk) : bool := (cp <=? b_num x) && (0 <? b_num x).

(* the blocks computeState walks: the block, its parent, ... down to the checkpoint (genesis excluded) *)
Definition segment (c : cfg) (ch : list blk) : list blk :=
  match ch with [] => [] | b :: _ => take_while (in_epoch (checkpoint (c_L c) (b_num b))) ch end.

(* newJustifier: quality of the last block of the previous round as persisted; 0 in the first round *)
Definition parent_quality (c : cfg) (qs : list (N * N)) (ch : list blk) : N :=
  match ch with
  | [] => 0
  | b :: _ => if b_num b / c_L c =? 0 then 0
              else match at_num ch (checkpoint (c_L c) (b_num b) - 1) with
                   | Some p => get_q qs (b_id p) | None => 0 end
  end.

Definition add_blk (c : cfg) (js : justifier) (x : blk) : justifier :=
  add_block js (b_signer x) (b_com x) (weight_of c (b_signer x)).
Definition tally (c : cfg) (pq : N) (seg : list blk) : justifier :=
  fold_left (add_blk c) seg (new_js pq (thr_votes c) (thr_weight c)).

Definition state_of_chain (c : cfg) (qs : list (N * N)) (ch : list blk) : bstate :=
  match ch with
  | [] => mkS 0 false false
  | b :: _ => if b_num b =? 0 then mkS 0 false false
              else summarize (tally c (parent_quality c qs ch) (segment c ch))
  end.

(* the block need not be stored yet (Select runs before AddBlock) *)
Definition compute_state (c : cfg) (r : repo) (qs : list (N * N)) (b : blk) : bstate :=
  state_of_chain c qs (b :: chain_of r (b_parent b)).

(* ---------------------------------------------------------------- findCheckpointByQuality *)

Inductive res (A : Type) : Type := Ok (a : A) | Err (code : N).
Arguments Ok {A} a.
Arguments Err {A} code.
(* codes: 1 "headID precedes finalized"  2 "failed find the block by quality" (search ran off the end)
          3 "failed to find the block by quality" (quality at the landing index differs)  4 block id not found on the chain
          9 Mark on the nil casts map (Go: panic) *)

Definition quality_at (r : repo) (qs : list (N * N)) (head n : N) : res N :=
  match block_at r head n with Some x => Ok (get_q qs (b_id x)) | None => Err 4 end.

(* sort.Search(n, f): i, j := 0, n; for i < j { h := (i+j)/2; if !f(h) { i = h+1 } else { j = h } }; return i *)
Fixpoint bsearch (fuel : nat) (f : N -> res bool) (i j : N) : res N :=
  match fuel with
  | O => Ok i
  | S k => if i <? j then
             let h := (i + j) / 2 in
             match f h with
             | Err e => Err e
             | Ok false => bsearch k f (h + 1) j
             | Ok true => bsearch k f i h
             end
           else Ok i
  end.

Definition find_cp (c : cfg) (r : repo) (qs : list (N * N)) (target finalized head : N) : res N :=
  if idnum head <? idnum finalized then Err 1 else
  let L := c_L c in
  let start := idnum finalized in
  let get := fun i => quality_at r qs head (storepoint L (start + i * L)) in
  let n := (idnum head - start) / L + 1 in
  match bsearch (S (N.to_nat n)) (fun i => match get i with Ok q => Ok (target <=? q) | Err e => Err e end) 0 n with
  | Err e => Err e
  | Ok num =>
      if num =? n then Err 2 else
      match get num with
      | Err e => Err e
      | Ok q => if negb (q =? target) then Err 3 else
                match block_at r head (start + num * L) with Some x => Ok (b_id x) | None => Err 4 end
      end
  end.

(* ---------------------------------------------------------------- engine *)

Record engine := mkE { e_master : N; e_fin : N; e_qs : list (N * N);
                       e_casts : option (list (N * N));     (* nil until the first ShouldVote *)
                       e_jc : option (N * N * N) }.         (* Justified()'s one-entry cache: (storeID, finalized, value) *)

Definition mark (ca : list (N * N)) (cp q : N) : list (N * N) :=
  (cp, q) :: filter (fun kv => negb (fst kv =? cp)) ca.
Definition merge_max (ca : list (N * N)) (cp q : N) : list (N * N) :=
  match find (fun kv => fst kv =? cp) ca with
  | Some kv => if snd kv <? q then mark ca cp q else ca
  | None => (cp, q) :: ca
  end.

(* CommitBlock.  guard = true is the code with the F1 repair (same test as Resync: nothing to finalize unless the
   committed epoch's checkpoint is after finalized); guard = false is the code before the repair. *)
Definition commit_block (guard : bool) (c : cfg) (r : repo) (e : engine) (b : blk) (packing : bool) : engine * N :=
  let L := c_L c in
  let st := compute_state c r (e_qs e) b in
  let '(e1, err) :=
    if storepoint L (b_num b) =? b_num b then
      let qs' := (b_id b, s_q st) :: e_qs e in
      let e1 := mkE (e_master e) (e_fin e) qs' (e_casts e) (e_jc e) in
      if s_comm st && (1 <? s_q st) && (negb guard || (idnum (e_fin e) <? checkpoint L (b_num b))) then
        match find_cp c r qs' (s_q st - 1) (e_fin e) (b_id b) with
        | Err code => (e1, code)
        | Ok id => (mkE (e_master e) id qs' (e_casts e) (e_jc e), 0)
        end
      else (e1, 0)
    else (e, 0) in
  if negb (err =? 0) then (e1, err) else
  if packing then
    match e_casts e1 with
    | None => (e1, 9)
    | Some ca =>
        match block_at r (b_id b) (checkpoint L (b_num b)) with
        | None => (e1, 4)
        | Some cpb => (mkE (e_master e1) (e_fin e1) (e_qs e1) (Some (mark ca (b_id cpb) (s_q st))) (e_jc e1), 0)
        end
    end
  else (e1, 0).

Definition accepts (r : repo) (e : engine) (parent : N) : bool :=
  if negb (idnum (e_fin e) =? 0) then has_block r parent (e_fin e) else true.

Definition better_than (b best : blk) : bool :=
  (b_score best <? b_score b) || ((b_score b =? b_score best) && (b_id b <? b_id best)).

Definition select (c : cfg) (r : repo) (e : engine) (best b : blk) : bool :=
  let qn := s_q (compute_state c r (e_qs e) b) in
  let qb := s_q (compute_state c r (e_qs e) best) in
  if negb (qn =? qb) then qb <? qn else better_than b best.

(* newCasts: for every head at or above finalized, the most recent own block on that head's chain *)
Fixpoint own_latest (master finnum : N) (ch : list blk) : option blk :=
  match ch with
  | [] => None
  | x :: t => if b_signer x =? master then Some x
              else if b_num x <=? finnum then None else own_latest master finnum t
  end.

Definition new_casts (c : cfg) (r : repo) (e : engine) : list (N * N) :=
  fold_left (fun ca h =>
      let ch := chain_of r (b_id h) in
      match own_latest (e_master e) (idnum (e_fin e)) ch with
      | None => ca
      | Some x => match at_num ch (checkpoint (c_L c) (b_num x)) with
                  | None => ca
                  | Some cpb => merge_max ca (b_id cpb) (s_q (compute_state c r (e_qs e) x))
                  end
      end) (heads_from r (idnum (e_fin e))) [].

Definition with_casts (e : engine) (ca : list (N * N)) : engine :=
  mkE (e_master e) (e_fin e) (e_qs e) (Some ca) (e_jc e).

Definition should_vote (c : cfg) (r : repo) (e : engine) (parent : N) : engine * res bool :=
  let L := c_L c in
  let ca := match e_casts e with Some ca => ca | None => new_casts c r e end in
  let e' := with_casts e ca in
  if (idnum parent + 1) / L =? 0 then (e', Ok false) else
  match find_blk r parent with
  | None => (e', Err 4)
  | Some p =>
      let st := compute_state c r (e_qs e) p in
      if s_q st =? 0 then (e', Ok false) else
      let hq := s_q st in
      let fin := e_fin e in
      let jc :=
        if s_just st then
          match block_at r parent (checkpoint L (b_num p)) with Some x => Ok (b_id x) | None => Err 4 end
        else
          match block_at r parent (storepoint L (b_num p - L)) with
          | None => Err 4
          | Some prev => find_cp c r (e_qs e) hq fin (b_id prev)
          end in
      match jc with
      | Err code => (e', Err code)
      | Ok recent =>
          (e', Ok (forallb (fun cast =>
                 if (idnum fin <=? idnum (fst cast)) && (hq - 1 <=? snd cast) then
                   if idnum recent <? idnum (fst cast) then has_block r (fst cast) recent
                   else has_block r recent (fst cast)
                 else true) ca))
      end
  end.

(* Justified().  keyed = true is the code with the cache repair (the entry is valid only for the finalized checkpoint it was
   searched from); keyed = false is the code before: the entry was keyed by the store point only. *)
Definition justified_gen (keyed : bool) (c : cfg) (r : repo) (e : engine) (best : blk) : engine * res N :=
  let L := c_L c in
  let fin := e_fin e in
  if b_num best <? L - 1 then (e, Ok fin) else
  let cp := checkpoint L (b_num best) in
  let concluded := if b_num best <? storepoint L (b_num best) then cp - L else cp in
  match block_at r (b_id best) (storepoint L concluded) with
  | None => (e, Err 4)
  | Some sb =>
      let hit := match e_jc e with
                 | Some (search, f, value) => if (search =? b_id sb) && (negb keyed || (f =? fin)) then Some value else None
                 | None => None
                 end in
      match hit with
      | Some value => (e, Ok value)
      | None =>
          let q := get_q (e_qs e) (b_id sb) in
          if q =? 0 then (e, Ok fin) else
          match find_cp c r (e_qs e) q fin (b_id sb) with
          | Err code => (e, Err code)
          | Ok id => (mkE (e_master e) (e_fin e) (e_qs e) (e_casts e) (Some (b_id sb, fin, id)), Ok id)
          end
      end
  end.
Definition justified := justified_gen true.

(* ---------------------------------------------------------------- node: import / propose / restart *)

Record node := mkN { n_repo : repo; n_best : N; n_eng : engine }.

Definition dummy_blk : blk := mkB 0 0 0 false 0.
Definition best_blk (nd : node) : blk :=
  match find_blk (n_repo nd) (n_best nd) with Some b => b | None => dummy_blk end.

Definition init_node (genesis : blk) (master : N) : node :=
  mkN [genesis] (b_id genesis) (mkE master (b_id genesis) [] None None).

(* result codes: 0 imported, 1 known block, 2 parent missing, 3 rejected by bft (Accepts), 100+c CommitBlock error c *)
Definition add_and_commit (guard : bool) (c : cfg) (nd : node) (b : blk) (packing : bool) : node * N :=
  let r := n_repo nd in
  let e := n_eng nd in
  let best := select c r e (best_blk nd) b in
  let r' := b :: r in
  let '(e', err) := commit_block guard c r' e b packing in
  (mkN r' (if best then b_id b else n_best nd) e', if err =? 0 then 0 else 100 + err).

Definition import (guard : bool) (c : cfg) (nd : node) (b : blk) : node * N :=
  let r := n_repo nd in
  if known r (b_id b) then (nd, 1)
  else if negb (known r (b_parent b)) then (nd, 2)
  else if negb (accepts r (n_eng nd) (b_parent b)) then (nd, 3)
  else add_and_commit guard c nd b false.

(* proposeAndCommit: ShouldVote(parent) (an error abandons the proposal: code 200, no block), then
   Select / AddBlock / CommitBlock(isPacking = true); no Accepts test *)
Definition propose (guard : bool) (c : cfg) (nd : node) (b : blk) : node * N * res bool :=
  let '(e1, v) := should_vote c (n_repo nd) (n_eng nd) (b_parent b) in
  let nd1 := mkN (n_repo nd) (n_best nd) e1 in
  match v with
  | Err _ => (nd1, 200, v)
  | Ok _ => let '(nd', code) := add_and_commit guard c nd1 b true in (nd', code, v)
  end.

Definition restart (nd : node) : node :=
  let e := n_eng nd in mkN (n_repo nd) (n_best nd) (mkE (e_master e) (e_fin e) (e_qs e) None None).

(* ---------------------------------------------------------------- runs over several nodes *)

Inductive event := EImport (n : nat) (b : blk) | EPropose (n : nat) (b : blk) | ERestart (n : nat).

Record obs := mkO { o_code : N; o_pre : res bool;          (* import/commit result; ShouldVote(parent) of a proposal *)
                    o_best : N; o_fin : N; o_just : res N; o_vote : res bool;   (* after the event, on that node *)
                    o_q : N; o_j : bool; o_c : bool }.      (* engine state of the event's block (zero when not stored) *)

Fixpoint set_nth {A} (l : list A) (i : nat) (x : A) : list A :=
  match l, i with
  | [], _ => []
  | _ :: t, O => x :: t
  | y :: t, S k => y :: set_nth t k x
  end.

(* observations taken after an event: Justified(), ShouldVote(best) (both may touch engine caches / casts) *)
Definition observe (c : cfg) (nd : node) (code : N) (pre : res bool) (ob : option blk) : node * obs :=
  let '(e1, j) := justified c (n_repo nd) (n_eng nd) (best_blk nd) in
  let '(e2, v) := should_vote c (n_repo nd) e1 (n_best nd) in
  let st := match ob with
            | Some b => if known (n_repo nd) (b_id b) then compute_state c (n_repo nd) (e_qs e2) b else mkS 0 false false
            | None => mkS 0 false false end in
  (mkN (n_repo nd) (n_best nd) e2, mkO code pre (n_best nd) (e_fin e2) j v (s_q st) (s_just st) (s_comm st)).

Definition step (guard : bool) (c : cfg) (w : list node) (ev : event) : list node * option obs :=
  match ev with
  | EImport i b =>
      match nth_error w i with None => (w, None) | Some nd =>
        let '(nd1, code) := import guard c nd b in
        let '(nd2, o) := observe c nd1 code (Ok false) (Some b) in
        (set_nth w i nd2, Some o) end
  | EPropose i b =>
      match nth_error w i with None => (w, None) | Some nd =>
        let '(nd1, code, v) := propose guard c nd b in
        let '(nd2, o) := observe c nd1 code v (Some b) in
        (set_nth w i nd2, Some o) end
  | ERestart i =>
      match nth_error w i with None => (w, None) | Some nd =>
        let '(nd2, o) := observe c (restart nd) 0 (Ok false) None in
        (set_nth w i nd2, Some o) end
  end.

Fixpoint run (guard : bool) (c : cfg) (w : list node) (evs : list event) : list node * list (option obs) :=
  match evs with
  | [] => (w, [])
  | ev :: t => let '(w1, o) := step guard c w ev in
               let '(w2, os) := run guard c w1 t in (w2, o :: os)
  end.

(* the same run without the observation calls (used by the theorems: observation only fills caches / casts) *)
Definition step_plain (guard : bool) (c : cfg) (w : list node) (ev : event) : list node :=
  match ev with
  | EImport i b => match nth_error w i with None => w | Some nd => set_nth w i (fst (import guard c nd b)) end
  | EPropose i b => match nth_error w i with None => w | Some nd => set_nth w i (fst (fst (propose guard c nd b))) end
  | ERestart i => match nth_error w i with None => w | Some nd => set_nth w i (restart nd) end
  end.

(* justifier-level entry point for the direct differential run against bft.justifier (both modes) *)
Definition tally_votes (pq tv tw : N) (l : list (N * (bool * N))) : justifier :=
  fold_left (fun js x => add_block js (fst x) (fst (snd x)) (snd (snd x))) l (new_js pq tv tw).

(* ================================================================ with a FINALITY fork height *)
(* The definitions above are the engine and the node for forkConfig.FINALITY = 0 (every theorem of Bft/Proofs*.v is about
   them).  Below, the same functions with the fork height F as the code uses it (bft/engine.go, bft/justifier.go,
   cmd/thor/node/block_exec.go, packer_loop.go): computeState answers the zero state below F and does not walk below F;
   the parent quality is read only after the first round, counted from F / L; ShouldVote refuses COM in that first round;
   findCheckpointByQuality starts at getCheckPoint(F) while nothing is finalized; Justified() answers finalized until the
   first round has concluded; the node consults Select only when both blocks are at or after F, calls CommitBlock only for
   blocks at or after F and asks ShouldVote only for such blocks.  With F = 0 they are the functions above
   (Bft/ProofsFork.v); the oracle runs these. *)

Definition in_epoch_f (F cp : N) (x : blk) : bool := (cp <=? b_num x) && (0 <? b_num x) && (F <=? b_num x).

Definition segment_f (F : N) (c : cfg) (ch : list blk) : list blk :=
  match ch with [] => [] | b :: _ => take_while (in_epoch_f F (checkpoint (c_L c) (b_num b))) ch end.

Definition parent_quality_f (F : N) (c : cfg) (qs : list (N * N)) (ch : list blk) : N :=
  match ch with
  | [] => 0
  | b :: _ => if b_num b / c_L c =? F / c_L c then 0
              else match at_num ch (checkpoint (c_L c) (b_num b) - 1) with
                   | Some p => get_q qs (b_id p) | None => 0 end
  end.

Definition state_of_chain_f (F : N) (c : cfg) (qs : list (N * N)) (ch : list blk) : bstate :=
  match ch with
  | [] => mkS 0 false false
  | b :: _ => if (b_num b =? 0) || (b_num b <? F) then mkS 0 false false
              else summarize (tally c (parent_quality_f F c qs ch) (segment_f F c ch))
  end.

Definition compute_state_f (F : N) (c : cfg) (r : repo) (qs : list (N * N)) (b : blk) : bstate :=
  state_of_chain_f F c qs (b :: chain_of r (b_parent b)).

Definition find_cp_f (F : N) (c : cfg) (r : repo) (qs : list (N * N)) (target finalized head : N) : res N :=
  if idnum head <? idnum finalized then Err 1 else
  let L := c_L c in
  let start := if idnum finalized =? 0 then checkpoint L F else idnum finalized in
  let get := fun i => quality_at r qs head (storepoint L (start + i * L)) in
  let n := (idnum head - start) / L + 1 in
  match bsearch (S (N.to_nat n)) (fun i => match get i with Ok q => Ok (target <=? q) | Err e => Err e end) 0 n with
  | Err e => Err e
  | Ok num =>
      if num =? n then Err 2 else
      match get num with
      | Err e => Err e
      | Ok q => if negb (q =? target) then Err 3 else
                match block_at r head (start + num * L) with Some x => Ok (b_id x) | None => Err 4 end
      end
  end.

Definition commit_block_f (F : N) (guard : bool) (c : cfg) (r : repo) (e : engine) (b : blk) (packing : bool) : engine * N :=
  let L := c_L c in
  let st := compute_state_f F c r (e_qs e) b in
  let '(e1, err) :=
    if storepoint L (b_num b) =? b_num b then
      let qs' := (b_id b, s_q st) :: e_qs e in
      let e1 := mkE (e_master e) (e_fin e) qs' (e_casts e) (e_jc e) in
      if s_comm st && (1 <? s_q st) && (negb guard || (idnum (e_fin e) <? checkpoint L (b_num b))) then
        match find_cp_f F c r qs' (s_q st - 1) (e_fin e) (b_id b) with
        | Err code => (e1, code)
        | Ok id => (mkE (e_master e) id qs' (e_casts e) (e_jc e), 0)
        end
      else (e1, 0)
    else (e, 0) in
  if negb (err =? 0) then (e1, err) else
  if packing then
    match e_casts e1 with
    | None => (e1, 9)
    | Some ca =>
        match block_at r (b_id b) (checkpoint L (b_num b)) with
        | None => (e1, 4)
        | Some cpb => (mkE (e_master e1) (e_fin e1) (e_qs e1) (Some (mark ca (b_id cpb) (s_q st))) (e_jc e1), 0)
        end
    end
  else (e1, 0).

Definition select_f (F : N) (c : cfg) (r : repo) (e : engine) (best b : blk) : bool :=
  let qn := s_q (compute_state_f F c r (e_qs e) b) in
  let qb := s_q (compute_state_f F c r (e_qs e) best) in
  if negb (qn =? qb) then qb <? qn else better_than b best.

Definition new_casts_f (F : N) (c : cfg) (r : repo) (e : engine) : list (N * N) :=
  fold_left (fun ca h =>
      let ch := chain_of r (b_id h) in
      match own_latest (e_master e) (idnum (e_fin e)) ch with
      | None => ca
      | Some x => match at_num ch (checkpoint (c_L c) (b_num x)) with
                  | None => ca
                  | Some cpb => merge_max ca (b_id cpb) (s_q (compute_state_f F c r (e_qs e) x))
                  end
      end) (heads_from r (idnum (e_fin e))) [].

Definition should_vote_f (F : N) (c : cfg) (r : repo) (e : engine) (parent : N) : engine * res bool :=
  let L := c_L c in
  let ca := match e_casts e with Some ca => ca | None => new_casts_f F c r e end in
  let e' := with_casts e ca in
  if (idnum parent + 1) / L =? F / L then (e', Ok false) else
  match find_blk r parent with
  | None => (e', Err 4)
  | Some p =>
      let st := compute_state_f F c r (e_qs e) p in
      if s_q st =? 0 then (e', Ok false) else
      let hq := s_q st in
      let fin := e_fin e in
      let jc :=
        if s_just st then
          match block_at r parent (checkpoint L (b_num p)) with Some x => Ok (b_id x) | None => Err 4 end
        else
          match block_at r parent (storepoint L (b_num p - L)) with
          | None => Err 4
          | Some prev => find_cp_f F c r (e_qs e) hq fin (b_id prev)
          end in
      match jc with
      | Err code => (e', Err code)
      | Ok recent =>
          (e', Ok (forallb (fun cast =>
                 if (idnum fin <=? idnum (fst cast)) && (hq - 1 <=? snd cast) then
                   if idnum recent <? idnum (fst cast) then has_block r (fst cast) recent
                   else has_block r recent (fst cast)
                 else true) ca))
      end
  end.

Definition justified_f (F : N) (c : cfg) (r : repo) (e : engine) (best : blk) : engine * res N :=
  let L := c_L c in
  let fin := e_fin e in
  if b_num best <? checkpoint L F + L - 1 then (e, Ok fin) else
  let cp := checkpoint L (b_num best) in
  let concluded := if b_num best <? storepoint L (b_num best) then cp - L else cp in
  match block_at r (b_id best) (storepoint L concluded) with
  | None => (e, Err 4)
  | Some sb =>
      let hit := match e_jc e with
                 | Some (search, f, value) => if (search =? b_id sb) && (f =? fin) then Some value else None
                 | None => None
                 end in
      match hit with
      | Some value => (e, Ok value)
      | None =>
          let q := get_q (e_qs e) (b_id sb) in
          if q =? 0 then (e, Ok fin) else
          match find_cp_f F c r (e_qs e) q fin (b_id sb) with
          | Err code => (e, Err code)
          | Ok id => (mkE (e_master e) (e_fin e) (e_qs e) (e_casts e) (Some (b_id sb, fin, id)), Ok id)
          end
      end
  end.

(* commitBlock of block_exec.go: Select only when both the new block and the previous best are at or after F, otherwise
   BetterThan; CommitBlock only for blocks at or after F *)
Definition add_and_commit_f (F : N) (guard : bool) (c : cfg) (nd : node) (b : blk) (packing : bool) : node * N :=
  let r := n_repo nd in
  let e := n_eng nd in
  let best := if (F <=? b_num b) && (F <=? b_num (best_blk nd)) then select_f F c r e (best_blk nd) b
              else better_than b (best_blk nd) in
  let r' := b :: r in
  let '(e', err) := if F <=? b_num b then commit_block_f F guard c r' e b packing else (e, 0) in
  (mkN r' (if best then b_id b else n_best nd) e', if err =? 0 then 0 else 100 + err).

Definition import_f (F : N) (guard : bool) (c : cfg) (nd : node) (b : blk) : node * N :=
  let r := n_repo nd in
  if known r (b_id b) then (nd, 1)
  else if negb (known r (b_parent b)) then (nd, 2)
  else if negb (accepts r (n_eng nd) (b_parent b)) then (nd, 3)
  else add_and_commit_f F guard c nd b false.

(* packer_loop.go: ShouldVote only for a block at or after F (otherwise the vote is false and the votes record untouched) *)
Definition propose_f (F : N) (guard : bool) (c : cfg) (nd : node) (b : blk) : node * N * res bool :=
  if F <=? b_num b then
    let '(e1, v) := should_vote_f F c (n_repo nd) (n_eng nd) (b_parent b) in
    let nd1 := mkN (n_repo nd) (n_best nd) e1 in
    match v with
    | Err _ => (nd1, 200, v)
    | Ok _ => let '(nd', code) := add_and_commit_f F guard c nd1 b true in (nd', code, v)
    end
  else let '(nd', code) := add_and_commit_f F guard c nd b true in (nd', code, Ok false).

Definition observe_f (F : N) (c : cfg) (nd : node) (code : N) (pre : res bool) (ob : option blk) : node * obs :=
  let '(e1, j) := justified_f F c (n_repo nd) (n_eng nd) (best_blk nd) in
  let '(e2, v) := should_vote_f F c (n_repo nd) e1 (n_best nd) in
  let st := match ob with
            | Some b => if known (n_repo nd) (b_id b) then compute_state_f F c (n_repo nd) (e_qs e2) b else mkS 0 false false
            | None => mkS 0 false false end in
  (mkN (n_repo nd) (n_best nd) e2, mkO code pre (n_best nd) (e_fin e2) j v (s_q st) (s_just st) (s_comm st)).

Definition step_f (F : N) (guard : bool) (c : cfg) (w : list node) (ev : event) : list node * option obs :=
  match ev with
  | EImport i b =>
      match nth_error w i with None => (w, None) | Some nd =>
        let '(nd1, code) := import_f F guard c nd b in
        let '(nd2, o) := observe_f F c nd1 code (Ok false) (Some b) in
        (set_nth w i nd2, Some o) end
  | EPropose i b =>
      match nth_error w i with None => (w, None) | Some nd =>
        let '(nd1, code, v) := propose_f F guard c nd b in
        let '(nd2, o) := observe_f F c nd1 code v (Some b) in
        (set_nth w i nd2, Some o) end
  | ERestart i =>
      match nth_error w i with None => (w, None) | Some nd =>
        let '(nd2, o) := observe_f F c (restart nd) 0 (Ok false) None in
        (set_nth w i nd2, Some o) end
  end.

Fixpoint run_f (F : N) (guard : bool) (c : cfg) (w : list node) (evs : list event) : list node * list (option obs) :=
  match evs with
  | [] => (w, [])
  | ev :: t => let '(w1, o) := step_f F guard c w ev in
               let '(w2, os) := run_f F guard c w1 t in (w2, o :: os)
  end.
