(* Bft/ProofsJustified.v — Justified()'s one-entry cache.  With the cache entry keyed by (store point, finalized) the cache
   is transparent along every history of imports, own proposals, restarts and Justified() queries: a node with a warm
   cache answers exactly what a node with a cold cache (e.g. restarted) answers.  With the entry keyed by the store point
   only (the code before the repair) it is not: a concrete consistent tree on which two nodes storing the same blocks,
   with the same best block and the same finalized checkpoint, answer differently. *)
From Coq Require Import List NArith ZArith Bool Lia.
From Coq Require Import ZifyN ZifyNat ZifyBool.
From Verif Require Import Common.Util Bft.Tree Bft.Model Bft.Quorum Bft.ProofsTally Bft.ProofsChain Bft.ProofsSuffix
  Bft.ProofsNode Bft.ProofsFinal Bft.ProofsCommit Bft.ProofsOrder Bft.ProofsOrder2 Bft.ProofsOrder3 Bft.ProofsOrder4
  Bft.Safety Bft.ProofsSafety Bft.ProofsWitness Bft.ProofsTree2 Bft.ProofsFast.
Import ListNotations.
Open Scope N_scope.

Section Cache.
Variable c : cfg.
Notation L := (c_L c).

Definition jc_ok (r : repo) (qs : list (N * N)) (jc : option (N * N * N)) : Prop :=
  match jc with
  | None => True
  | Some (s, f, v) => (exists x, In x r /\ b_id x = s) /\ get_q qs s <> 0 /\ find_cp c r qs (get_q qs s) f s = Ok v
  end.

Definition clear_jc (e : engine) : engine := mkE (e_master e) (e_fin e) (e_qs e) (e_casts e) None.

(* a warm cache answers what a cold cache answers *)
Theorem justified_cache_transparent r e best : jc_ok r (e_qs e) (e_jc e) ->
  snd (justified c r e best) = snd (justified c r (clear_jc e) best).
Proof.
  intros Hok. unfold justified, justified_gen, clear_jc. cbn [e_fin e_qs e_jc e_master e_casts].
  destruct (b_num best <? L - 1); [reflexivity|].
  destruct (block_at r (b_id best) _) as [sb|]; [|reflexivity].
  assert (Hcold : forall X : engine * res N,
            snd (if get_q (e_qs e) (b_id sb) =? 0 then (e, Ok (e_fin e)) else
                 match find_cp c r (e_qs e) (get_q (e_qs e) (b_id sb)) (e_fin e) (b_id sb) with
                 | Ok id => (mkE (e_master e) (e_fin e) (e_qs e) (e_casts e) (Some (b_id sb, e_fin e, id)), Ok id)
                 | Err code => (e, Err code) end) =
            snd (if get_q (e_qs e) (b_id sb) =? 0 then (mkE (e_master e) (e_fin e) (e_qs e) (e_casts e) None, Ok (e_fin e)) else
                 match find_cp c r (e_qs e) (get_q (e_qs e) (b_id sb)) (e_fin e) (b_id sb) with
                 | Ok id => (mkE (e_master e) (e_fin e) (e_qs e) (e_casts e) (Some (b_id sb, e_fin e, id)), Ok id)
                 | Err code => (mkE (e_master e) (e_fin e) (e_qs e) (e_casts e) None, Err code) end)).
  { intros _. destruct (get_q (e_qs e) (b_id sb) =? 0); [reflexivity|]. destruct (find_cp _ _ _ _ _ _); reflexivity. }
  destruct (e_jc e) as [[[s f] v]|]; [|exact (Hcold (e, Err 0))].
  destruct ((s =? b_id sb) && (negb true || (f =? e_fin e))) eqn:Hit; [|exact (Hcold (e, Err 0))].
  cbn [negb orb] in Hit. apply andb_prop in Hit. destruct Hit as [E1 E2]. apply N.eqb_eq in E1, E2. subst s f.
  destruct Hok as [_ [Hq Hf]]. apply N.eqb_neq in Hq. rewrite Hq, Hf. reflexivity.
Qed.

(* the entry written by a query is correct *)
Lemma justified_keeps_jc r e best : jc_ok r (e_qs e) (e_jc e) ->
  let e' := fst (justified c r e best) in jc_ok r (e_qs e') (e_jc e') /\ e_qs e' = e_qs e /\ e_fin e' = e_fin e /\ e_master e' = e_master e.
Proof.
  intros Hok. unfold justified, justified_gen. cbv zeta.
  destruct (b_num best <? L - 1); [cbn; tauto|].
  destruct (block_at r (b_id best) _) as [sb|] eqn:Esb; [|cbn; tauto].
  destruct (match e_jc e with Some (search, f, value) => _ | None => None end) as [v|]; [cbn; tauto|].
  destruct (get_q (e_qs e) (b_id sb) =? 0) eqn:Eq; [cbn; tauto|].
  destruct (find_cp c r (e_qs e) _ (e_fin e) (b_id sb)) as [id|code] eqn:Ef; [|cbn; tauto].
  cbn [fst e_qs e_jc e_fin e_master jc_ok]. apply N.eqb_neq in Eq. repeat split; try assumption.
  exists sb. split; [|reflexivity]. destruct (block_at_num _ _ _ _ Esb) as [_ H]. exact (chain_incl _ _ _ H).
Qed.

Lemma justified_keeps_qs r e best : e_qs (fst (justified c r e best)) = e_qs e.
Proof.
  unfold justified, justified_gen. destruct (b_num best <? L - 1); [reflexivity|].
  destruct (block_at r (b_id best) _) as [sb|]; [|reflexivity].
  destruct (match e_jc e with Some (search, f, value) => _ | None => None end); [reflexivity|].
  destruct (get_q (e_qs e) (b_id sb) =? 0); [reflexivity|]. destruct (find_cp c r (e_qs e) _ _ _); reflexivity.
Qed.

(* storing a fresh block (with or without a new quality record) does not disturb the entry *)
Lemma quality_at_fresh b r qs qs' x n : known r (b_id b) = false -> In x r ->
  (forall id, id <> b_id b -> get_q qs' id = get_q qs id) ->
  quality_at (b :: r) qs' (b_id x) n = quality_at r qs (b_id x) n.
Proof.
  intros Hf Hx Hq. unfold quality_at, block_at.
  assert (Hne : b_id b <> b_id x) by (intros E; rewrite E, (known_in r x Hx) in Hf; discriminate).
  rewrite (chain_of_fresh b r (b_id x) Hne).
  destruct (at_num (chain_of r (b_id x)) n) as [y|] eqn:Ey; [|reflexivity].
  unfold at_num in Ey. apply find_some in Ey. destruct Ey as [Hy _]. apply chain_incl in Hy.
  rewrite Hq; [reflexivity|]. intros E. rewrite <- E, (known_in r y Hy) in Hf. discriminate.
Qed.

Lemma find_cp_fresh b r qs qs' x t f : known r (b_id b) = false -> In x r ->
  (forall id, id <> b_id b -> get_q qs' id = get_q qs id) ->
  find_cp c (b :: r) qs' t f (b_id x) = find_cp c r qs t f (b_id x).
Proof.
  intros Hf Hx Hq. unfold find_cp. destruct (idnum (b_id x) <? idnum f); [reflexivity|].
  rewrite (bsearch_ext _ (fun i => match quality_at r qs (b_id x) (storepoint L (idnum f + i * L)) with
                                   | Ok q => Ok (t <=? q) | Err e => Err e end)).
  2:{ intros k. rewrite (quality_at_fresh b r qs qs' x _ Hf Hx Hq). reflexivity. }
  destruct (bsearch _ _ _ _) as [num|e]; [|reflexivity].
  destruct (num =? _); [reflexivity|].
  rewrite (quality_at_fresh b r qs qs' x _ Hf Hx Hq).
  destruct (quality_at r qs (b_id x) _) as [q|e]; [|reflexivity].
  destruct (negb (q =? t)); [reflexivity|]. unfold block_at.
  assert (Hne : b_id b <> b_id x) by (intros E; rewrite E, (known_in r x Hx) in Hf; discriminate).
  rewrite (chain_of_fresh b r (b_id x) Hne). reflexivity.
Qed.

Lemma jc_ok_fresh b r qs qs' jc : known r (b_id b) = false ->
  (forall id, id <> b_id b -> get_q qs' id = get_q qs id) -> jc_ok r qs jc -> jc_ok (b :: r) qs' jc.
Proof.
  intros Hf Hq Hok. destruct jc as [[[s f] v]|]; [|exact Logic.I]. destruct Hok as [[x [Hx Es]] [Hne Hfc]]. subst s.
  assert (Hnb : b_id x <> b_id b) by (intros E; rewrite <- E, (known_in r x Hx) in Hf; discriminate).
  cbn [jc_ok]. rewrite (Hq _ Hnb). split; [exists x; split; [right; exact Hx | reflexivity]|]. split; [exact Hne|].
  rewrite (find_cp_fresh b r qs qs' x _ f Hf Hx Hq). exact Hfc.
Qed.

Lemma add_and_commit_jc nd b packing : known (n_repo nd) (b_id b) = false ->
  jc_ok (n_repo nd) (e_qs (n_eng nd)) (e_jc (n_eng nd)) ->
  let nd' := fst (add_and_commit true c nd b packing) in jc_ok (n_repo nd') (e_qs (n_eng nd')) (e_jc (n_eng nd')).
Proof.
  intros Hf Hok. cbv zeta. unfold add_and_commit.
  assert (Hgen : forall e' err, commit_block true c (b :: n_repo nd) (n_eng nd) b packing = (e', err) ->
            e_jc e' = e_jc (n_eng nd) /\ (forall id, id <> b_id b -> get_q (e_qs e') id = get_q (e_qs (n_eng nd)) id)).
  { intros e' err. unfold commit_block.
    assert (Hcons : forall q id, id <> b_id b -> get_q ((b_id b, q) :: e_qs (n_eng nd)) id = get_q (e_qs (n_eng nd)) id).
    { intros q id Hne. apply get_q_cons_other. intros E. apply Hne. symmetry. exact E. }
    destruct (storepoint L (b_num b) =? b_num b).
    - destruct (s_comm _ && (1 <? s_q _) && _).
      + destruct (find_cp _ _ _ _ _ _) as [id0|code]; cbn [negb N.eqb].
        * destruct packing; [destruct (e_casts (n_eng nd)); [destruct (block_at _ _ _)|]|]; intros H; inversion H; subst; cbn; split; try reflexivity; apply Hcons.
        * destruct (code =? 0); [destruct packing; [destruct (e_casts (n_eng nd)); [destruct (block_at _ _ _)|]|]|]; intros H; inversion H; subst; cbn; split; try reflexivity; apply Hcons.
      + cbn [negb N.eqb]. destruct packing; [destruct (e_casts (n_eng nd)); [destruct (block_at _ _ _)|]|]; intros H; inversion H; subst; cbn; split; try reflexivity; apply Hcons.
    - cbn [negb N.eqb]. destruct packing; [destruct (e_casts (n_eng nd)); [destruct (block_at _ _ _)|]|]; intros H; inversion H; subst; cbn; split; reflexivity. }
  destruct (commit_block true c (b :: n_repo nd) (n_eng nd) b packing) as [e' err] eqn:E. cbn [fst n_repo n_eng].
  destruct (Hgen e' err eq_refl) as [Hj Hq]. rewrite Hj. apply (jc_ok_fresh b (n_repo nd) (e_qs (n_eng nd)) (e_qs e') _ Hf Hq Hok).
Qed.

(* ---------------------------------------------------------------- histories with queries *)

Inductive nev := NImport (b : blk) | NPropose (b : blk) | NRestart | NQuery.

Definition nstep (nd : node) (ev : nev) : node :=
  match ev with
  | NImport b => fst (import true c nd b)
  | NPropose b => if known (n_repo nd) (b_id b) || negb (known (n_repo nd) (b_parent b)) then nd   (* a node packs on a stored block *)
                  else fst (fst (propose true c nd b))
  | NRestart => restart nd
  | NQuery => mkN (n_repo nd) (n_best nd) (fst (justified c (n_repo nd) (n_eng nd) (best_blk nd)))
  end.
Definition run_nev (nd : node) (h : list nev) : node := fold_left nstep h nd.

Definition node_jc (nd : node) : Prop := jc_ok (n_repo nd) (e_qs (n_eng nd)) (e_jc (n_eng nd)).

Lemma nstep_jc nd ev : node_jc nd -> node_jc (nstep nd ev).
Proof.
  intros Hok. destruct ev as [b|b| |]; cbn [nstep].
  - unfold import. destruct (known (n_repo nd) (b_id b)) eqn:Ek; [exact Hok|].
    destruct (known (n_repo nd) (b_parent b)); cbn [negb]; [|exact Hok].
    destruct (accepts _ _ _); cbn [negb]; [|exact Hok]. apply add_and_commit_jc; assumption.
  - destruct (known (n_repo nd) (b_id b)) eqn:Ek; [exact Hok|]. cbn [orb]. destruct (negb (known (n_repo nd) (b_parent b))); [exact Hok|]. unfold propose.
    pose proof (should_vote_keeps c (n_repo nd) (n_eng nd) (b_parent b)) as Hk. cbv zeta in Hk.
    assert (Hjc : e_jc (fst (should_vote c (n_repo nd) (n_eng nd) (b_parent b))) = e_jc (n_eng nd)).
    { unfold should_vote. destruct ((idnum (b_parent b) + 1) / L =? 0); [reflexivity|]. destruct (find_blk _ _); [|reflexivity].
      destruct (s_q _ =? 0); [reflexivity|]. destruct (if s_just _ then _ else _); reflexivity. }
    destruct (should_vote c (n_repo nd) (n_eng nd) (b_parent b)) as [e1 v]. cbn [fst] in *. destruct Hk as [Hq _].
    destruct v as [vb|code]; cbn [fst].
    + pose proof (add_and_commit_jc (mkN (n_repo nd) (n_best nd) e1) b true) as H. cbn [n_repo n_eng] in H.
      rewrite Hq, Hjc in H. specialize (H Ek Hok). destruct (add_and_commit true c _ b true) as [nd' code]. exact H.
    + unfold node_jc. cbn [n_repo n_eng]. rewrite Hq, Hjc. exact Hok.
  - exact Logic.I.
  - unfold node_jc. cbn [n_repo n_eng]. exact (proj1 (justified_keeps_jc (n_repo nd) (n_eng nd) (best_blk nd) Hok)).
Qed.

Theorem run_nev_jc h : forall nd, node_jc nd -> node_jc (run_nev nd h).
Proof. induction h as [|ev t IH]; intros nd H; [exact H|]. cbn [run_nev fold_left]. apply IH. apply nstep_jc. exact H. Qed.

Definition nev_blocks (h : list nev) : list blk :=
  flat_map (fun ev => match ev with NImport b => [b] | NPropose b => [b] | _ => [] end) h.

(* the node invariants along such histories (blocks carry the number of their parent plus one) *)
Theorem run_nev_inv (HL : 0 < c_L c) h : forall nd, inv c nd ->
  (forall nd' b, inv c nd' -> In b (nev_blocks h) -> valid_child (n_repo nd') b) -> inv c (run_nev nd h).
Proof.
  induction h as [|ev t IH]; intros nd Hi Hv; [exact Hi|]. cbn [run_nev fold_left]. apply IH.
  - destruct ev as [b|b| |]; cbn [nstep].
    + apply import_inv; [exact HL | exact Hi | apply Hv; [exact Hi | cbn; left; reflexivity]].
    + destruct (known (n_repo nd) (b_id b)) eqn:Ek; [exact Hi|]. cbn [orb]. destruct (known (n_repo nd) (b_parent b)) eqn:Ep; cbn [negb]; [|exact Hi].
      apply propose_inv; [exact HL | exact Hi | apply Hv; [exact Hi | cbn; left; reflexivity] | exact Ek | exact Ep].
    + apply restart_inv. exact Hi.
    + apply inv_eng_irrelevant; [exact Hi | exact (justified_keeps_qs (n_repo nd) (n_eng nd) (best_blk nd))].
  - intros nd' b Hi' Hb. apply Hv; [exact Hi'|]. destruct ev as [b0|b0| |]; cbn; try (right; exact Hb); exact Hb.
Qed.

(* after ANY history the answer of Justified() is the answer of a cold cache *)
Theorem justified_history_independent_of_cache g master h :
  let nd := run_nev (init_node g master) h in
  snd (justified c (n_repo nd) (n_eng nd) (best_blk nd)) = snd (justified c (n_repo nd) (clear_jc (n_eng nd)) (best_blk nd)).
Proof. cbv zeta. apply justified_cache_transparent. apply (run_nev_jc h). exact Logic.I. Qed.
End Cache.

(* ---------------------------------------------------------------- the entry keyed by the store point only *)
(* n = 4, L = 4.  Common prefix 1..3.  Branch W (tail 2, high scores): epochs 1 and 2 justified without COM, epochs 3, 4 by one
   signer, head 20W - the best block throughout.  Branch S (tail 3): epochs 1, 2 by one signer, epoch 3 justified, epoch 4
   all COM: importing 19S finalizes 12S while the best block stays 20W.  Node A asked Justified() before S arrived. *)
Definition jrot (num : N) : N := nth (N.to_nat (num mod 4)) [1;2;3;1] 1.
Definition jw (num : N) : blk :=
  bk num 2 (if num =? 4 then 1 else 2) (if (num / 4 =? 1) || (num / 4 =? 2) then jrot num else 1) false (12 + 4 * (num - 3)).
Definition js (num : N) : blk :=
  bk num 3 (if num =? 4 then 1 else 3) (if (num / 4 =? 1) || (num / 4 =? 2) then 2 else jrot num) (num / 4 =? 4) (12 + (num - 3)).
Definition jp1 := bk 1 1 1 1 false 4.  Definition jp2 := bk 2 1 1 2 false 8.  Definition jp3 := bk 3 1 1 3 false 12.
Definition j_common_w : list blk := [jp1; jp2; jp3] ++ map jw [4;5;6;7;8;9;10;11;12;13;14;15;16;17;18;19;20].
Definition j_s : list blk := map js [4;5;6;7;8;9;10;11;12;13;14;15;16;17;18;19].

Definition j_after_w : node := import_all cfg4 true (init_node gen 1) j_common_w.
Definition j_node_a (keyed : bool) : node :=
  import_all cfg4 true (mkN (n_repo j_after_w) (n_best j_after_w)
                            (fst (justified_gen keyed cfg4 (n_repo j_after_w) (n_eng j_after_w) (best_blk j_after_w)))) j_s.
Definition j_node_b : node := import_all cfg4 true (init_node gen 1) (j_common_w ++ j_s).

Lemma stale_cache_witness :
  n_repo (j_node_a false) = n_repo j_node_b /\ n_best (j_node_a false) = n_best j_node_b /\
  e_fin (n_eng (j_node_a false)) = e_fin (n_eng j_node_b) /\ e_fin (n_eng j_node_b) = b_id (js 12) /\
  snd (justified_gen false cfg4 (n_repo (j_node_a false)) (n_eng (j_node_a false)) (best_blk (j_node_a false))) = Ok (b_id (jw 8)) /\
  snd (justified_gen false cfg4 (n_repo j_node_b) (n_eng j_node_b) (best_blk j_node_b)) = Ok (b_id (jw 12)) /\
  snd (justified cfg4 (n_repo (j_node_a true)) (n_eng (j_node_a true)) (best_blk (j_node_a true))) = Ok (b_id (jw 12)).
Proof. vm_compute. repeat split; reflexivity. Qed.

(* ---------------------------------------------------------------- consistent trees: a criterion and a forked example *)

Lemma tree_consistent_criterion c U : wf_repo U ->
  (forall B1 B2, finalizing c U B1 -> finalizing c U B2 ->
     has_block U (b_id B1) (b_id B2) = true \/ has_block U (b_id B2) (b_id B1) = true) ->
  tree_consistent c U.
Proof.
  intros HwU Hc r Hwr Hsub B1 B2 [I1 [S1 [C1 Q1]]] [I2 [S2 [C2 Q2]]].
  rewrite (sub_chain r U B1 Hwr HwU Hsub I1) in C1, Q1. rewrite (sub_chain r U B2 Hwr HwU Hsub I2) in C2, Q2.
  rewrite (sub_has_block r U B1 _ Hwr HwU Hsub I1), (sub_has_block r U B2 _ Hwr HwU Hsub I2).
  apply Hc; (split; [apply Hsub; assumption | tauto]).
Qed.

Definition fin_b (c : cfg) (U : repo) (B : blk) : bool :=
  (storepoint (c_L c) (b_num B) =? b_num B) && s_comm (state_fast c (chain_of U (b_id B))) && (1 <? s_q (state_fast c (chain_of U (b_id B)))).

Lemma finalizing_fin_b c U B : finalizing c U B -> In B (filter (fin_b c U) U).
Proof.
  intros [HI [HS [HC HQ]]]. apply filter_In. split; [exact HI|]. unfold fin_b. rewrite <- state_pure_fast.
  rewrite HC. apply N.eqb_eq in HS. rewrite HS. cbn [andb]. apply N.ltb_lt. exact HQ.
Qed.

(* the W / S tree above: two branches of 17 and 16 blocks, one finalizing block (19S) *)
Definition j_tree : repo := n_repo j_node_b.

Lemma j_tree_wf : wf_repo j_tree.
Proof.
  assert (H : inv cfg4 j_node_b).
  { unfold j_node_b. apply import_all_inv; [reflexivity | apply init_inv; reflexivity|].
    intros nd b _ Hb p Hp. destruct (find_blk_id _ _ _ Hp) as [Hid _].
    assert (Hall : forallb (fun b => b_num b =? idnum (b_parent b) + 1) (j_common_w ++ j_s) = true) by (vm_compute; reflexivity).
    rewrite forallb_forall in Hall. specialize (Hall b Hb). apply N.eqb_eq in Hall. rewrite Hall, <- Hid. reflexivity. }
  exact (inv_wf cfg4 _ H).
Qed.

Lemma j_tree_consistent : tree_consistent cfg4 j_tree.
Proof.
  apply (tree_consistent_criterion cfg4 j_tree j_tree_wf). intros B1 B2 H1 H2.
  apply finalizing_fin_b in H1. apply finalizing_fin_b in H2.
  assert (E : filter (fin_b cfg4 j_tree) j_tree = [js 19]) by (vm_compute; reflexivity).
  rewrite E in H1, H2. destruct H1 as [<-|[]]. destruct H2 as [<-|[]]. left. vm_compute. reflexivity.
Qed.

(* two different histories over the forked tree: node 1 takes W then S with a duplicate and a restart; node 2 interleaves the
   branches (19S last in both: a node that finalizes 12S first refuses the rest of W - the stored sets then differ, which is
   why the theorem compares nodes that STORE the same set) *)
Fixpoint interleave {A} (l1 l2 : list A) : list A :=
  match l1, l2 with
  | [], _ => l2
  | x :: t1, [] => l1
  | x :: t1, y :: t2 => x :: y :: interleave t1 t2
  end.
Definition j_h1 : list (option blk) := map Some j_common_w ++ [None; Some (jw 9)] ++ map Some j_s.
Definition j_h2 : list (option blk) :=
  map Some [jp1; jp2; jp3] ++ None :: map Some (interleave (map jw [4;5;6;7;8;9;10;11;12;13;14;15;16;17;18;19;20]) (map js [4;5;6;7;8;9;10;11;12;13;14;15;16;17;18])) ++ [Some (js 19)].

Lemma j_histories_instance :
  (forall b, In (Some b) j_h1 \/ In (Some b) j_h2 -> In b j_tree) /\
  (forall nd b, inv cfg4 nd -> In (Some b) j_h1 \/ In (Some b) j_h2 -> valid_child (n_repo nd) b) /\
  (forall x, In x (n_repo (run_node cfg4 (init_node gen 1) j_h1)) <-> In x (n_repo (run_node cfg4 (init_node gen 2) j_h2))) /\
  j_h1 <> j_h2 /\
  n_best (run_node cfg4 (init_node gen 1) j_h1) = b_id (jw 20) /\ e_fin (n_eng (run_node cfg4 (init_node gen 1) j_h1)) = b_id (js 12).
Proof.
  assert (Hmem : forall l x, existsb (blk_eqb x) l = true -> In x l).
  { intros l x E. apply existsb_exists in E. destruct E as [y [Hy E]]. rewrite (blk_eqb_eq x y E). exact Hy. }
  assert (Hopt : forall (h : list (option blk)) b, In (Some b) h -> existsb (fun o => match o with Some y => blk_eqb b y | None => false end) h = true).
  { intros h b Hin. apply existsb_exists. exists (Some b). split; [exact Hin|]. unfold blk_eqb. rewrite !N.eqb_refl, eqb_reflx. reflexivity. }
  assert (Hall : forall b, In (Some b) j_h1 \/ In (Some b) j_h2 -> In b (j_common_w ++ j_s)).
  { intros b Hb.
    assert (Hsub : forall h, forallb (fun o => match o with Some y => existsb (blk_eqb y) (j_common_w ++ j_s) | None => true end) h = true ->
                    In (Some b) h -> In b (j_common_w ++ j_s)).
    { intros h Hf Hin. rewrite forallb_forall in Hf. exact (Hmem _ _ (Hf (Some b) Hin)). }
    destruct Hb as [Hb|Hb]; [apply (Hsub j_h1) | apply (Hsub j_h2)]; try exact Hb; vm_compute; reflexivity. }
  split; [|split; [|split; [|split]]].
  - intros b Hb. apply Hmem. specialize (Hall b Hb).
    assert (Hf : forallb (fun y => existsb (blk_eqb y) j_tree) (j_common_w ++ j_s) = true) by (vm_compute; reflexivity).
    rewrite forallb_forall in Hf. exact (Hf b Hall).
  - intros nd b _ Hb p Hp. destruct (find_blk_id _ _ _ Hp) as [Hid _]. specialize (Hall b Hb).
    assert (Hn : forallb (fun b => b_num b =? idnum (b_parent b) + 1) (j_common_w ++ j_s) = true) by (vm_compute; reflexivity).
    rewrite forallb_forall in Hn. specialize (Hn b Hall). apply N.eqb_eq in Hn. rewrite Hn, <- Hid. reflexivity.
  - assert (H12 : forallb (fun y => existsb (blk_eqb y) (n_repo (run_node cfg4 (init_node gen 2) j_h2))) (n_repo (run_node cfg4 (init_node gen 1) j_h1)) = true) by (vm_compute; reflexivity).
    assert (H21 : forallb (fun y => existsb (blk_eqb y) (n_repo (run_node cfg4 (init_node gen 1) j_h1))) (n_repo (run_node cfg4 (init_node gen 2) j_h2)) = true) by (vm_compute; reflexivity).
    rewrite forallb_forall in H12, H21. intros x. split; intros Hx; apply Hmem; [exact (H12 x Hx) | exact (H21 x Hx)].
  - intros E. assert (Hl : nth 3 j_h1 None = nth 3 j_h2 None) by (rewrite E; reflexivity). vm_compute in Hl. discriminate.
  - vm_compute. split; reflexivity.
Qed.

(* the same blocks RECEIVED in another parent-before-child order (S before W): importing 19S finalizes 12S, after which every
   block of W is refused by Accepts (C03: "blocks that do not descend from it are refused"), so the node stores fewer
   blocks and reports another best block.  Best/finalized are functions of the set STORED, not of the set received. *)
Definition j_h3 : list (option blk) := map Some ([jp1; jp2; jp3] ++ j_s ++ map jw [4;5;6;7;8;9;10;11;12;13;14;15;16;17;18;19;20]).

Lemma received_order_matters_witness :
  (forall b, In (Some b) j_h1 <-> In (Some b) j_h3) /\
  n_best (run_node cfg4 (init_node gen 1) j_h1) = b_id (jw 20) /\ n_best (run_node cfg4 (init_node gen 1) j_h3) = b_id (js 19) /\
  length (n_repo (run_node cfg4 (init_node gen 1) j_h1)) = 37%nat /\ length (n_repo (run_node cfg4 (init_node gen 1) j_h3)) = 20%nat /\
  e_fin (n_eng (run_node cfg4 (init_node gen 1) j_h1)) = e_fin (n_eng (run_node cfg4 (init_node gen 1) j_h3)).
Proof.
  split; [|vm_compute; repeat split; reflexivity].
  assert (Hmem : forall (l : list (option blk)) b, existsb (fun o => match o with Some y => blk_eqb b y | None => false end) l = true -> In (Some b) l).
  { intros l b E. apply existsb_exists in E. destruct E as [[y|] [Hy E]]; [|discriminate]. rewrite (blk_eqb_eq b y E). exact Hy. }
  assert (Hsub : forall h h' : list (option blk),
            forallb (fun o => match o with Some y => existsb (fun o' => match o' with Some z => blk_eqb y z | None => false end) h' | None => true end) h = true ->
            forall b, In (Some b) h -> In (Some b) h').
  { intros h h' Hf b Hin. rewrite forallb_forall in Hf. exact (Hmem h' b (Hf (Some b) Hin)). }
  intros b. split; [apply (Hsub j_h1 j_h3) | apply (Hsub j_h3 j_h1)]; vm_compute; reflexivity.
Qed.

(* ---------------------------------------------------------------- the oracle's `run` (with observations) and `step_plain` *)
(* `step` = the plain transition (`import` / `propose` / `restart`, the functions all theorems are about) followed by `observe`
   on the node that moved; `observe` calls Justified() and ShouldVote(best), which may only fill the one-entry cache and
   create the votes record: repository, best block, finalized, quality records and master are those of the plain step. *)
Definition core (nd : node) : repo * N * N * list (N * N) * N :=
  (n_repo nd, n_best nd, e_fin (n_eng nd), e_qs (n_eng nd), e_master (n_eng nd)).

Lemma justified_keeps_core c r e best :
  let e' := fst (justified c r e best) in e_qs e' = e_qs e /\ e_fin e' = e_fin e /\ e_master e' = e_master e /\ e_casts e' = e_casts e.
Proof.
  unfold justified, justified_gen. cbv zeta. destruct (b_num best <? c_L c - 1); [cbn; tauto|].
  destruct (block_at r (b_id best) _) as [sb|]; [|cbn; tauto].
  destruct (match e_jc e with Some (search, f, value) => _ | None => None end); [cbn; tauto|].
  destruct (get_q (e_qs e) (b_id sb) =? 0); [cbn; tauto|]. destruct (find_cp c r (e_qs e) _ _ _); cbn; tauto.
Qed.

Lemma observe_core c nd code pre ob : core (fst (observe c nd code pre ob)) = core nd.
Proof.
  unfold observe, core. pose proof (justified_keeps_core c (n_repo nd) (n_eng nd) (best_blk nd)) as Hj. cbv zeta in Hj.
  destruct (justified c (n_repo nd) (n_eng nd) (best_blk nd)) as [e1 j]. cbn [fst] in Hj.
  pose proof (should_vote_keeps c (n_repo nd) e1 (n_best nd)) as Hs. cbv zeta in Hs.
  destruct (should_vote c (n_repo nd) e1 (n_best nd)) as [e2 v]. cbn [fst n_repo n_best n_eng] in *.
  destruct Hj as [A [B [C _]]]. destruct Hs as [D [E F]]. rewrite D, E, F, A, B, C. reflexivity.
Qed.

Lemma map_set_nth_core (w : list node) i x y : nth_error w i = Some y -> core x = core y -> map core (set_nth w i x) = map core w.
Proof.
  revert i. induction w as [|a w IH]; intros i Hn E; [destruct i; discriminate|]. destruct i; cbn in *.
  - inversion Hn; subst. rewrite E. reflexivity.
  - rewrite (IH i Hn E). reflexivity.
Qed.

Lemma set_nth_twice {A} (w : list A) i x y : set_nth (set_nth w i x) i y = set_nth w i y.
Proof. revert i. induction w as [|a w IH]; intros [|i]; cbn; try reflexivity. rewrite IH. reflexivity. Qed.

Lemma nth_set_nth_same {A} (w : list A) i x y : nth_error w i = Some y -> nth_error (set_nth w i x) i = Some x.
Proof. revert i. induction w as [|a w IH]; intros [|i] H; cbn in *; try discriminate; [reflexivity | exact (IH i H)]. Qed.

Theorem step_is_plain_step_then_observation guard c w ev :
  map core (fst (Verif.Bft.Model.step guard c w ev)) = map core (step_plain guard c w ev).
Proof.
  destruct ev as [i b|i b|i]; cbn [Verif.Bft.Model.step step_plain]; destruct (nth_error w i) as [nd|] eqn:En; try reflexivity.
  - destruct (import guard c nd b) as [nd1 code]. pose proof (observe_core c nd1 code (Ok false) (Some b)) as H.
    destruct (observe c nd1 code (Ok false) (Some b)) as [nd2 o]. cbn [fst] in *.
    rewrite <- (set_nth_twice w i nd1 nd2). apply map_set_nth_core with (y := nd1); [apply (nth_set_nth_same w i nd1 nd En) | exact H].
  - destruct (propose guard c nd b) as [[nd1 code] v]. pose proof (observe_core c nd1 code v (Some b)) as H.
    destruct (observe c nd1 code v (Some b)) as [nd2 o]. cbn [fst] in *.
    rewrite <- (set_nth_twice w i nd1 nd2). apply map_set_nth_core with (y := nd1); [apply (nth_set_nth_same w i nd1 nd En) | exact H].
  - pose proof (observe_core c (restart nd) 0 (Ok false) None) as H.
    destruct (observe c (restart nd) 0 (Ok false) None) as [nd2 o]. cbn [fst] in *.
    rewrite <- (set_nth_twice w i (restart nd) nd2). apply map_set_nth_core with (y := restart nd); [apply (nth_set_nth_same w i _ nd En) | exact H].
Qed.
