(* Bft/ProofsOrder3.v — import_set_order_independent: histories of imports and restarts of one node over a consistent
   tree keep `finalized = the function of the stored set` (ProofsOrder.fin_char); two nodes that end up storing the same
   set of blocks — whatever the arrival orders, duplicates, refused blocks, restarts — hold the same best block and the
   same finalized checkpoint. *)
From Coq Require Import List NArith ZArith Bool Lia.
From Coq Require Import ZifyN ZifyNat ZifyBool.
From Verif Require Import Common.Util Bft.Tree Bft.Model Bft.Quorum Bft.ProofsTally Bft.ProofsChain Bft.ProofsNode
  Bft.ProofsSafety Bft.ProofsOrder Bft.ProofsOrder2 Bft.ProofsSuffix.
Import ListNotations.
Open Scope N_scope.

Section Order3.
Variable c : cfg.
Hypothesis HL : 0 < c_L c.

(* a tree (set of blocks) is consistent when in every well-formed repository drawn from it all finalizing blocks lie on
   one chain (whether a block finalizes depends only on its own ancestry) *)
Definition tree_consistent (U : list blk) : Prop :=
  forall r, wf_repo r -> incl r U -> consistent c r.

(* one node, a history of deliveries (Some b) and restarts (None) *)
Fixpoint run_node (nd : node) (h : list (option blk)) : node :=
  match h with
  | [] => nd
  | Some b :: t => run_node (fst (import true c nd b)) t
  | None :: t => run_node (restart nd) t
  end.

Definition node_ok (U : list blk) (nd : node) : Prop :=
  inv c nd /\ fin_char c (n_repo nd) (e_fin (n_eng nd)) /\ incl (n_repo nd) U.

Lemma import_ok_step U nd b : tree_consistent U -> In b U -> node_ok U nd -> valid_child (n_repo nd) b ->
  node_ok U (fst (import true c nd b)).
Proof.
  intros HU HbU [Hi [Hfc Hsub]] Hvc. pose proof (import_inv c HL true nd b Hi Hvc) as Hi'.
  split; [exact Hi'|]. unfold import in *.
  destruct (known (n_repo nd) (b_id b)) eqn:Ek; [split; assumption|].
  destruct (known (n_repo nd) (b_parent b)) eqn:Ep; cbn [negb]; [|split; assumption].
  destruct (accepts _ _ _); cbn [negb]; [|split; assumption].
  assert (Hsub' : incl (b :: n_repo nd) U) by (intros x [<-|Hx]; [exact HbU | exact (Hsub x Hx)]).
  assert (Hrepo : n_repo (fst (add_and_commit true c nd b false)) = b :: n_repo nd).
  { unfold add_and_commit. destruct (commit_block _ _ _ _ _ _). reflexivity. }
  split.
  - apply (add_and_commit_fin_char c HL nd b Hi Hfc Ek Ep Hvc). apply HU; [|exact Hsub'].
    rewrite <- Hrepo. exact (inv_wf c _ Hi').
  - rewrite Hrepo. exact Hsub'.
Qed.

Lemma restart_ok U nd : node_ok U nd -> node_ok U (restart nd).
Proof. intros [Hi [Hfc Hsub]]. split; [apply restart_inv; exact Hi | split; assumption]. Qed.

Lemma init_ok U g master : b_num g = 0 -> In g U -> node_ok U (init_node g master).
Proof.
  intros Hg HgU. split; [apply init_inv; assumption|]. split.
  - left. split.
    + intros B [HB [_ [_ HQ]]]. cbn in HB. destruct HB as [<-|[]]. cbn [n_repo init_node] in HQ.
      rewrite chain_of_head in HQ. unfold quality_pure in HQ. rewrite (state_pure_genesis c g _ Hg) in HQ. cbn in HQ. lia.
    + exists g. split; [left; reflexivity | split; [exact Hg | reflexivity]].
  - intros x [<-|[]]. exact HgU.
Qed.

Theorem run_node_ok U h : tree_consistent U -> forall nd, node_ok U nd ->
  (forall b, In (Some b) h -> In b U) ->
  (forall nd' b, inv c nd' -> In (Some b) h -> valid_child (n_repo nd') b) ->
  node_ok U (run_node nd h).
Proof.
  intros HU. induction h as [|[b|] t IH]; intros nd Hok HinU Hv; [exact Hok| |].
  - cbn [run_node]. apply IH.
    + apply import_ok_step; [exact HU | apply HinU; left; reflexivity | exact Hok | apply Hv; [exact (proj1 Hok) | left; reflexivity]].
    + intros b' Hb'. apply HinU. right. exact Hb'.
    + intros nd' b' Hi' Hb'. apply Hv; [exact Hi' | right; exact Hb'].
  - cbn [run_node]. apply IH.
    + apply restart_ok. exact Hok.
    + intros b' Hb'. apply HinU. right. exact Hb'.
    + intros nd' b' Hi' Hb'. apply Hv; [exact Hi' | right; exact Hb'].
Qed.

(* C04, first sentence, for consistent trees *)
Theorem import_set_order_independent_lemma U g m1 m2 h1 h2 :
  tree_consistent U -> b_num g = 0 -> In g U ->
  (forall b, In (Some b) h1 \/ In (Some b) h2 -> In b U) ->
  (forall nd b, inv c nd -> In (Some b) h1 \/ In (Some b) h2 -> valid_child (n_repo nd) b) ->
  let n1 := run_node (init_node g m1) h1 in
  let n2 := run_node (init_node g m2) h2 in
  (forall x, In x (n_repo n1) <-> In x (n_repo n2)) ->
  n_best n1 = n_best n2 /\ e_fin (n_eng n1) = e_fin (n_eng n2).
Proof.
  intros HU Hg HgU HinU Hv n1 n2 Hset.
  assert (O1 : node_ok U n1).
  { apply run_node_ok; [exact HU | apply init_ok; assumption | intros b Hb; apply HinU; left; exact Hb |
                        intros nd b Hi Hb; apply Hv; [exact Hi | left; exact Hb]]. }
  assert (O2 : node_ok U n2).
  { apply run_node_ok; [exact HU | apply init_ok; assumption | intros b Hb; apply HinU; right; exact Hb |
                        intros nd b Hi Hb; apply Hv; [exact Hi | right; exact Hb]]. }
  destruct O1 as [I1 [F1 S1]]. destruct O2 as [I2 [F2 S2]].
  pose proof (inv_wf c _ I1) as W1. pose proof (inv_wf c _ I2) as W2.
  split.
  - apply (same_repo_same_best c HL n1 n2 I1 I2 Hset). intros x Hx. unfold qual.
    rewrite (chain_of_set_eq _ _ (b_id x) W1 W2 Hset). reflexivity.
  - apply (fin_char_unique c HL (n_repo n1) (n_repo n2) _ _ W1 W2 Hset); [apply HU; assumption | exact F1 | exact F2].
Qed.

(* a single chain is a consistent tree (non-vacuity of tree_consistent; forks that never finalize, or finalize only on
   one branch, are consistent as well) *)
Lemma grounded_num_inj U : grounded U -> forall x y, In x U -> In y U -> b_num x = b_num y -> x = y.
Proof.
  induction U as [|h t IH]; intros Hg x y Hx Hy Hn; [destruct Hx|].
  destruct Hx as [<-|Hx], Hy as [<-|Hy]; try reflexivity.
  - pose proof (grounded_nums h t Hg y Hy). lia.
  - pose proof (grounded_nums h t Hg x Hx). lia.
  - destruct t as [|p t']; [destruct Hx|]. exact (IH (grounded_tail _ _ _ Hg) x y Hx Hy Hn).
Qed.

Theorem single_chain_consistent U : grounded U -> tree_consistent U.
Proof.
  intros HgU r Hwf Hsub B1 B2 [H1 _] [H2 _].
  assert (Hcase : forall X Y, In X r -> In Y r -> b_num Y <= b_num X -> has_block r (b_id X) (b_id Y) = true).
  { intros X Y HX HY Hle. pose proof (chain_of_stored r X Hwf HX) as FX.
    destruct (chain_of_known r Hwf _ _ FX) as [t [Ht Hg]].
    destruct (suffix_at_exists (chain_of r (b_id X)) ltac:(rewrite Ht; exact Hg) X t Ht (b_num Y) Hle) as [z [l2 [Hs Hz]]].
    unfold has_block, chain_has. change (idnum (b_id Y)) with (b_num Y). rewrite at_num_suffix, Hs.
    assert (Hzin : In z r).
    { apply (chain_incl r (b_id X)). destruct (suffix_at_split (chain_of r (b_id X)) (b_num Y)) as [l1 E]. rewrite Hs in E.
      rewrite E, in_app_iff. right. left. reflexivity. }
    rewrite (grounded_num_inj U HgU z Y (Hsub z Hzin) (Hsub Y HY) Hz). apply N.eqb_refl. }
  destruct (N.le_ge_cases (b_num B2) (b_num B1)) as [H|H]; [left | right]; apply Hcase; assumption.
Qed.
End Order3.
