(* Bft/ProofsChain.v — chains of a well-formed repository; the quality "from the definitions" (state_pure: no persisted
   records, no caches) and its agreement with computeState when the persisted quality records are right;
   quality is monotone along a chain and grows by at most one per block (hence per epoch). *)
From Coq Require Import List NArith ZArith Bool Lia.
From Coq Require Import ZifyN ZifyNat ZifyBool.
From Verif Require Import Common.Util Bft.Tree Bft.Model Bft.Quorum Bft.ProofsTally.
Import ListNotations.
Open Scope N_scope.

(* ---------------------------------------------------------------- chains of a well-formed repository *)

Lemma find_blk_id r id x : find_blk r id = Some x -> b_id x = id /\ In x r.
Proof.
  unfold find_blk. intros H. pose proof (find_some _ _ H) as [Hin E]. apply N.eqb_eq in E. tauto.
Qed.

Lemma known_find r id : known r id = true <-> exists x, find_blk r id = Some x.
Proof. unfold known. destruct (find_blk r id); split; try discriminate; eauto. intros [x H]; discriminate. Qed.

Lemma known_in r x : In x r -> known r (b_id x) = true.
Proof.
  unfold known, find_blk. intros Hin. destruct (find _ r) eqn:E; [reflexivity|].
  pose proof (find_none _ _ E x Hin) as H. cbn in H. rewrite N.eqb_refl in H. discriminate.
Qed.

Lemma chain_of_fresh b r id : b_id b <> id -> chain_of (b :: r) id = chain_of r id.
Proof. intros H. cbn. apply N.eqb_neq in H. rewrite H. reflexivity. Qed.

Lemma chain_of_head b r : chain_of (b :: r) (b_id b) = b :: chain_of r (b_parent b).
Proof. cbn. rewrite N.eqb_refl. reflexivity. Qed.

Lemma chain_of_unknown r id : known r id = false -> chain_of r id = [].
Proof.
  unfold known, find_blk. induction r as [|b r IH]; cbn; [reflexivity|].
  destruct (b_id b =? id); [discriminate | exact IH].
Qed.

Lemma chain_incl r : forall id x, In x (chain_of r id) -> In x r.
Proof.
  induction r as [|b r IH]; cbn; [tauto|]. intros id x. destruct (b_id b =? id).
  - intros [H|H]; [left; exact H | right; exact (IH _ _ H)].
  - intros H. right. exact (IH _ _ H).
Qed.

(* a chain that reaches genesis: contiguous and its last element has number 0 *)
Fixpoint grounded (c : list blk) : Prop :=
  match c with
  | [] => False
  | b :: t => match t with
              | [] => b_num b = 0
              | p :: _ => b_parent b = b_id p /\ b_num b = b_num p + 1 /\ grounded t
              end
  end.

Lemma chain_of_known r : wf_repo r -> forall id x, find_blk r id = Some x ->
  exists t, chain_of r id = x :: t /\ grounded (x :: t).
Proof.
  induction r as [|b r IH]; intros Hwf id x Hf; [discriminate|].
  cbn in Hwf. destruct Hwf as [Hwf [Hfresh Hpar]].
  unfold find_blk in Hf. cbn in Hf. cbn [chain_of]. destruct (b_id b =? id) eqn:E.
  - inversion Hf; subst x. destruct r as [|p0 r0].
    + exists []. split; [reflexivity | exact Hpar].
    + destruct Hpar as [p [Hp Hn]]. destruct (IH Hwf _ _ Hp) as [t [Ht Hg]].
      exists (p :: t). rewrite Ht. split; [reflexivity|]. cbn [grounded].
      destruct (find_blk_id _ _ _ Hp) as [Hid _]. repeat split; [symmetry; exact Hid | exact Hn | exact Hg].
  - exact (IH Hwf _ _ Hf).
Qed.

(* the chain of an element of a chain is the corresponding suffix *)
Lemma chain_suffix r : wf_repo r -> forall id l1 x l2, chain_of r id = l1 ++ x :: l2 -> chain_of r (b_id x) = x :: l2.
Proof.
  induction r as [|b r IH]; intros Hwf id l1 x l2 H; [destruct l1; discriminate|].
  cbn in Hwf. destruct Hwf as [Hwf [Hfresh _]].
  cbn [chain_of] in H. destruct (b_id b =? id) eqn:E.
  - destruct l1 as [|y l1]; cbn in H; injection H as Hb Ht.
    + subst x. rewrite <- Ht. apply chain_of_head.
    + assert (Hx : In x r). { apply (chain_incl r (b_parent b)). rewrite Ht. rewrite in_app_iff. right. left. reflexivity. }
      rewrite chain_of_fresh; [exact (IH Hwf _ _ _ _ Ht)|].
      intros Heq. apply known_in in Hx. rewrite <- Heq in Hx. rewrite Hx in Hfresh. discriminate.
  - assert (Hx : In x r). { apply (chain_incl r id). rewrite H. rewrite in_app_iff. right. left. reflexivity. }
    rewrite chain_of_fresh; [exact (IH Hwf _ _ _ _ H)|].
    intros Heq. apply known_in in Hx. rewrite <- Heq in Hx. rewrite Hx in Hfresh. discriminate.
Qed.

Lemma grounded_tail b p t : grounded (b :: p :: t) -> grounded (p :: t).
Proof. cbn. tauto. Qed.

(* numbers strictly decrease along a grounded chain *)
Lemma grounded_nums b t : grounded (b :: t) -> forall x, In x t -> b_num x < b_num b.
Proof.
  revert b. induction t as [|p t IH]; intros b Hg x Hin; [destruct Hin|].
  cbn in Hg. destruct Hg as [_ [Hn Hg]]. destruct Hin as [<-|Hin]; [lia|].
  specialize (IH p Hg x Hin). lia.
Qed.

(* ---------------------------------------------------------------- epoch arithmetic *)

Section Epoch.
Variable L : N.
Hypothesis HL : 0 < L.

Lemma checkpoint_le n : checkpoint L n <= n.
Proof. unfold checkpoint. pose proof (N.mul_div_le n L). lia. Qed.

Lemma checkpoint_succ_same n : is_checkpoint L (n + 1) = false -> checkpoint L (n + 1) = checkpoint L n.
Proof.
  unfold is_checkpoint, checkpoint. intros H. apply N.eqb_neq in H.
  pose proof (N.div_mod (n + 1) L ltac:(lia)) as D. pose proof (N.mod_lt (n + 1) L ltac:(lia)) as M.
  assert (Hr : (n + 1) mod L <> 0) by (intros R; apply H; rewrite R in D; lia).
  assert (E : n / L = (n + 1) / L).
  { symmetry. apply (N.div_unique n L ((n + 1) / L) ((n + 1) mod L - 1)); lia. }
  rewrite E. reflexivity.
Qed.

Lemma checkpoint_idem n : checkpoint L (checkpoint L n) = checkpoint L n.
Proof. unfold checkpoint. rewrite N.div_mul by lia. reflexivity. Qed.

Lemma is_checkpoint_true n : is_checkpoint L n = true -> checkpoint L n = n.
Proof. unfold is_checkpoint. apply N.eqb_eq. Qed.

Lemma checkpoint_pos_ge n : is_checkpoint L n = true -> 0 < n -> L <= n.
Proof.
  unfold is_checkpoint, checkpoint. intros H Hn. apply N.eqb_eq in H.
  destruct (N.eq_dec (n / L) 0) as [E|E]; [rewrite E in H; lia|]. nia.
Qed.

Lemma div_zero_lt n : n / L = 0 <-> n < L.
Proof. split; [intros H; apply N.div_small_iff in H; lia | intros H; apply N.div_small; exact H]. Qed.
End Epoch.

(* ---------------------------------------------------------------- quality from the definitions *)

(* parent quality and vote segment of the head of a grounded chain, by structural recursion (no records, no caches) *)
Fixpoint epoch_info (c : cfg) (ch : list blk) : N * list blk :=
  match ch with
  | [] => (0, [])
  | b :: t =>
      if b_num b =? 0 then (0, [])
      else if is_checkpoint (c_L c) (b_num b)
           then (s_q (summarize (tally c (fst (epoch_info c t)) (snd (epoch_info c t)))), [b])
           else (fst (epoch_info c t), b :: snd (epoch_info c t))
  end.

Definition state_pure (c : cfg) (ch : list blk) : bstate :=
  summarize (tally c (fst (epoch_info c ch)) (snd (epoch_info c ch))).
Definition quality_pure (c : cfg) (ch : list blk) : N := s_q (state_pure c ch).

Lemma summarize_empty c pq : summarize (tally c pq []) = mkS pq false false.
Proof.
  unfold tally, summarize. cbn. destruct (thr_weight c =? 0) eqn:E; cbn.
  - destruct (thr_votes c); reflexivity.
  - destruct (thr_weight c); reflexivity.
Qed.

Lemma state_pure_genesis c b t : b_num b = 0 -> state_pure c (b :: t) = mkS 0 false false.
Proof. intros H. unfold state_pure. cbn. rewrite H. cbn. apply summarize_empty. Qed.

(* the persisted records agree with the definitions on every store-point block of the chain *)
Definition qs_ok_chain (c : cfg) (qs : list (N * N)) (ch : list blk) : Prop :=
  forall l1 x l2, ch = l1 ++ x :: l2 -> storepoint (c_L c) (b_num x) = b_num x ->
                  get_q qs (b_id x) = quality_pure c (x :: l2).

Lemma qs_ok_chain_tail c qs b t : qs_ok_chain c qs (b :: t) -> qs_ok_chain c qs t.
Proof. intros H l1 x l2 E. apply (H (b :: l1) x l2). rewrite E. reflexivity. Qed.

Lemma storepoint_pred L n : 0 < L -> is_checkpoint L (n + 1) = true -> storepoint L n = n.
Proof.
  intros HL H. unfold is_checkpoint, checkpoint in H. apply N.eqb_eq in H. unfold storepoint, checkpoint.
  pose proof (N.div_mod (n + 1) L ltac:(lia)) as D. pose proof (N.mod_lt (n + 1) L ltac:(lia)) as M.
  assert (Hq : 0 < (n + 1) / L) by (destruct (N.eq_dec ((n + 1) / L) 0) as [E|E]; [rewrite E in H; lia | lia]).
  assert (E : n / L = (n + 1) / L - 1).
  { symmetry. apply (N.div_unique n L ((n + 1) / L - 1) (L - 1)); nia. }
  rewrite E. nia.
Qed.

Section Pure.
Variable c : cfg.
Hypothesis HL : 0 < c_L c.

(* segment and parent quality of the code's from-the-checkpoint walk coincide with the structural definition *)
Lemma segment_parent_pure qs ch : grounded ch -> qs_ok_chain c qs (tl ch) ->
  match ch with
  | [] => True
  | b :: _ => 0 < b_num b -> segment c ch = snd (epoch_info c ch) /\ parent_quality c qs ch = fst (epoch_info c ch)
  end.
Proof.
  induction ch as [|b t IH]; [tauto|]. intros Hg Hq Hpos.
  cbn [epoch_info]. assert (E0 : (b_num b =? 0) = false) by (apply N.eqb_neq; lia). rewrite E0.
  destruct t as [|p t'].
  - cbn in Hg. lia.
  - pose proof Hg as Hg0. cbn in Hg. destruct Hg as [Hpar [Hn Hgt]].
    cbn [tl] in Hq. specialize (IH Hgt (qs_ok_chain_tail _ _ _ _ Hq)). cbn beta iota in IH.
    destruct (is_checkpoint (c_L c) (b_num b)) eqn:Ecp.
    + (* first block of an epoch *)
      pose proof (is_checkpoint_true _ _ Ecp) as Hc. cbn [snd fst]. split.
      * unfold segment. rewrite Hc. cbn [take_while]. unfold in_epoch at 1. rewrite N.leb_refl. cbn.
        assert (Ep : (0 <? b_num b) = true) by (apply N.ltb_lt; lia). rewrite Ep.
        unfold in_epoch. assert (El : (b_num b <=? b_num p) = false) by (apply N.leb_gt; lia). rewrite El. reflexivity.
      * unfold parent_quality. pose proof (checkpoint_pos_ge _ HL _ Ecp Hpos) as Hge.
        assert (Ed : (b_num b / c_L c =? 0) = false).
        { apply N.eqb_neq. intros Hd. apply (div_zero_lt _ HL) in Hd. lia. }
        rewrite Ed, Hc. unfold at_num. cbn [find].
        assert (E1 : (b_num b =? b_num b - 1) = false) by (apply N.eqb_neq; lia). rewrite E1.
        assert (E2 : (b_num p =? b_num b - 1) = true) by (apply N.eqb_eq; lia). rewrite E2.
        rewrite (Hq [] p t' eq_refl).
        -- reflexivity.
        -- apply storepoint_pred; [exact HL|]. rewrite <- Hn. exact Ecp.
    + (* inside an epoch *)
      rewrite Hn in Ecp. pose proof (checkpoint_succ_same _ HL _ Ecp) as Hsame. rewrite <- Hn in Hsame, Ecp.
      cbn [snd fst].
      destruct (N.eq_dec (b_num p) 0) as [Hp0|Hp0].
      * (* parent is genesis *)
        cbn [epoch_info]. rewrite Hp0. cbn. split.
        -- unfold segment. cbn [take_while]. unfold in_epoch.
           assert (X1 : (checkpoint (c_L c) (b_num b) <=? b_num b) = true) by (apply N.leb_le; apply checkpoint_le; exact HL).
           assert (X2 : (0 <? b_num b) = true) by (apply N.ltb_lt; lia). rewrite X1, X2. cbn. rewrite Hp0.
           rewrite andb_false_r. reflexivity.
        -- unfold parent_quality.
           assert (Ed : (b_num b / c_L c =? 0) = true).
           { apply N.eqb_eq. apply (div_zero_lt _ HL). destruct (N.lt_ge_cases (b_num b) (c_L c)) as [Hlt|Hge]; [exact Hlt|].
             exfalso. assert (b_num b = 1) by lia. assert (c_L c = 1) by lia.
             unfold is_checkpoint, checkpoint in Ecp. apply N.eqb_neq in Ecp. apply Ecp. rewrite H0. rewrite N.div_1_r. lia. }
           rewrite Ed. reflexivity.
      * destruct (IH ltac:(lia)) as [IHs IHp]. split.
        -- unfold segment. cbn [take_while]. unfold in_epoch at 1.
           assert (X1 : (checkpoint (c_L c) (b_num b) <=? b_num b) = true) by (apply N.leb_le; apply checkpoint_le; exact HL).
           assert (X2 : (0 <? b_num b) = true) by (apply N.ltb_lt; lia). rewrite X1, X2. cbn [andb].
           rewrite Hsame. f_equal. exact IHs.
        -- rewrite <- IHp. unfold parent_quality.
           assert (Ediv : b_num b / c_L c = b_num p / c_L c).
           { unfold checkpoint in Hsame. destruct (N.eq_dec (b_num b / c_L c) (b_num p / c_L c)) as [E|E]; [exact E|]. nia. }
           rewrite Ediv, Hsame. destruct (b_num p / c_L c =? 0) eqn:Ez; [reflexivity|].
           unfold at_num. cbn [find].
           assert (X3 : (b_num b =? checkpoint (c_L c) (b_num p) - 1) = false).
           { apply N.eqb_neq. pose proof (checkpoint_le _ HL (b_num p)). lia. }
           rewrite X3. reflexivity.
Qed.

(* computeState rebuilt from the checkpoint with correct quality records = the state from the definitions *)
Theorem state_of_chain_pure qs ch : grounded ch -> qs_ok_chain c qs (tl ch) -> state_of_chain c qs ch = state_pure c ch.
Proof.
  intros Hg Hq. destruct ch as [|b t]; [destruct Hg|].
  unfold state_of_chain. destruct (b_num b =? 0) eqn:E0.
  - apply N.eqb_eq in E0. symmetry. apply state_pure_genesis. exact E0.
  - apply N.eqb_neq in E0. destruct (segment_parent_pure qs (b :: t) Hg Hq ltac:(lia)) as [Hs Hp].
    unfold state_pure. rewrite Hs, Hp. reflexivity.
Qed.

(* quality never decreases along a chain and grows by at most one per block *)
Theorem quality_step b t : grounded (b :: t) ->
  quality_pure c t <= quality_pure c (b :: t) <= quality_pure c t + 1.
Proof.
  intros Hg. unfold quality_pure, state_pure. cbn [epoch_info].
  destruct (b_num b =? 0) eqn:E0.
  - apply N.eqb_eq in E0. destruct t as [|p t']; cbn in Hg; [|lia].
    cbn [epoch_info fst snd]. lia.
  - destruct (is_checkpoint (c_L c) (b_num b)) eqn:Ecp; cbn [fst snd].
    + set (q0 := s_q (summarize (tally c (fst (epoch_info c t)) (snd (epoch_info c t))))).
      rewrite summarize_quality, tally_pq. destruct (s_just _); lia.
    + set (pq := fst (epoch_info c t)). set (seg := snd (epoch_info c t)).
      rewrite !summarize_quality, !tally_pq.
      destruct (s_just (summarize (tally c pq seg))) eqn:J1.
      * assert (J2 : s_just (summarize (tally c pq (b :: seg))) = true).
        { apply (justified_monotone_lemma c pq seg (b :: seg)); [|exact J1]. intros e He. right. exact He. }
        rewrite J2. lia.
      * destruct (s_just (summarize (tally c pq (b :: seg)))); lia.
Qed.

Lemma quality_suffix l1 : forall ch, grounded (l1 ++ ch) -> ch <> [] ->
  quality_pure c ch <= quality_pure c (l1 ++ ch).
Proof.
  induction l1 as [|b l1 IH]; intros ch Hg Hne; [cbn; lia|].
  cbn [app] in *. assert (Hg' : grounded (l1 ++ ch)).
  { destruct (l1 ++ ch) as [|p t] eqn:E; [destruct l1; [contradiction | discriminate]|]. exact (grounded_tail _ _ _ Hg). }
  pose proof (quality_step b (l1 ++ ch) Hg). specialize (IH ch Hg' Hne). lia.
Qed.
End Pure.
