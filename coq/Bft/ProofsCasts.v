(* Bft/ProofsCasts.v — the votes record (casts.go) of a node along any history: its keys are distinct, every recorded
   quality is at most the quality of the node's best block, and every own block at or above the finalized number is
   COVERED: the record holds an entry whose checkpoint lies on one chain above (or is) the own block's checkpoint and whose
   quality is at least the own block's.  Holds for the live record (Mark overwrites) and for the record rebuilt after a
   restart (newCasts keeps only the latest own block per head, max-merged). *)
From Coq Require Import List NArith ZArith Bool Lia.
From Coq Require Import ZifyN ZifyNat ZifyBool.
From Verif Require Import Common.Util Bft.Tree Bft.Model Bft.Quorum Bft.ProofsTally Bft.ProofsChain Bft.ProofsSuffix
  Bft.ProofsNode Bft.ProofsFinal Bft.ProofsMonotone Bft.ProofsCommit Bft.ProofsOrder Bft.ProofsOrder2 Bft.ProofsVote
  Bft.Safety Bft.ProofsSafety Bft.ProofsTree2.
Import ListNotations.
Open Scope N_scope.

(* ---------------------------------------------------------------- association-list facts for mark / merge_max *)

Definition ckeys (ca : list (N * N)) : list N := map fst ca.

Lemma mark_in ca k q k0 q0 : In (k0, q0) (mark ca k q) <-> (k0 = k /\ q0 = q) \/ (In (k0, q0) ca /\ k0 <> k).
Proof.
  unfold mark. cbn [In]. rewrite filter_In. cbn [fst]. split.
  - intros [H|[H1 H2]]; [inversion H; left; tauto | right; split; [exact H1|]]. apply negb_true_iff, N.eqb_neq in H2. exact H2.
  - intros [[-> ->]|[H1 H2]]; [left; reflexivity | right; split; [exact H1|]]. apply negb_true_iff, N.eqb_neq. exact H2.
Qed.

Lemma mark_nodup ca k q : NoDup (ckeys ca) -> NoDup (ckeys (mark ca k q)).
Proof.
  intros H. unfold mark, ckeys. cbn [map fst]. constructor.
  - intros Hin. apply in_map_iff in Hin. destruct Hin as [[k0 q0] [E Hin]]. apply filter_In in Hin. cbn [fst] in *.
    destruct Hin as [_ Hne]. subst k0. rewrite N.eqb_refl in Hne. discriminate.
  - clear -H. induction ca as [|[k0 q0] ca IH]; [constructor|]. cbn [filter fst]. inversion H as [|? ? Hn Hd]; subst.
    destruct (negb (k0 =? k)); [|exact (IH Hd)]. cbn [map fst]. constructor; [|exact (IH Hd)].
    intros Hin. apply Hn. apply in_map_iff in Hin. destruct Hin as [kv [E Hin]]. apply filter_In in Hin.
    apply in_map_iff. exists kv. split; [exact E | exact (proj1 Hin)].
Qed.

Lemma find_key_some (ca : list (N * N)) k kv : find (fun kv => fst kv =? k) ca = Some kv -> In kv ca /\ fst kv = k.
Proof. intros H. destruct (find_some _ _ H) as [H1 H2]. apply N.eqb_eq in H2. tauto. Qed.

Lemma find_key_unique ca k kv q0 : NoDup (ckeys ca) -> find (fun kv => fst kv =? k) ca = Some kv -> In (k, q0) ca -> kv = (k, q0).
Proof.
  induction ca as [|[k1 q1] ca IH]; intros Hn Hf Hin; [destruct Hin|]. inversion Hn as [|? ? Hn1 Hn2]; subst.
  cbn [find fst] in Hf. destruct (k1 =? k) eqn:E.
  - apply N.eqb_eq in E. subst k1. inversion Hf; subst kv. destruct Hin as [H|H]; [exact H|].
    exfalso. apply Hn1. apply in_map_iff. exists (k, q0). split; [reflexivity | exact H].
  - destruct Hin as [H|H]; [inversion H; subst; rewrite N.eqb_refl in E; discriminate|]. exact (IH Hn2 Hf H).
Qed.

Lemma find_key_none (ca : list (N * N)) k q0 : find (fun kv => fst kv =? k) ca = None -> ~ In (k, q0) ca.
Proof. intros H Hin. pose proof (find_none _ _ H _ Hin) as E. cbn in E. rewrite N.eqb_refl in E. discriminate. Qed.

Lemma merge_max_nodup ca k q : NoDup (ckeys ca) -> NoDup (ckeys (merge_max ca k q)).
Proof.
  intros H. unfold merge_max. destruct (find _ ca) as [kv|] eqn:E.
  - destruct (snd kv <? q); [apply mark_nodup; exact H | exact H].
  - unfold ckeys. cbn [map fst]. constructor; [|exact H]. intros Hin. apply in_map_iff in Hin. destruct Hin as [[k0 q0] [E0 Hin]].
    cbn in E0. subst k0. exact (find_key_none ca k q0 E Hin).
Qed.

(* an entry survives merge_max with a value that can only grow *)
Lemma merge_max_keep ca k q k0 q0 : NoDup (ckeys ca) -> In (k0, q0) ca ->
  exists q1, In (k0, q1) (merge_max ca k q) /\ q0 <= q1.
Proof.
  intros Hn Hin. unfold merge_max. destruct (find _ ca) as [kv|] eqn:E.
  - destruct (snd kv <? q) eqn:Elt.
    + destruct (N.eq_dec k0 k) as [->|Hne].
      * rewrite (find_key_unique ca k kv q0 Hn E Hin) in Elt. cbn in Elt. exists q. split; [apply mark_in; left; tauto | lia].
      * exists q0. split; [apply mark_in; right; tauto | lia].
    + exists q0. split; [exact Hin | lia].
  - exists q0. split; [right; exact Hin | lia].
Qed.

Lemma merge_max_new ca k q : NoDup (ckeys ca) -> exists q1, In (k, q1) (merge_max ca k q) /\ q <= q1.
Proof.
  intros Hn. unfold merge_max. destruct (find _ ca) as [[k1 q1]|] eqn:E.
  - destruct (find_key_some ca k _ E) as [Hin Hk]. cbn in Hk. subst k1. cbn [snd]. destruct (q1 <? q) eqn:Elt.
    + exists q. split; [apply mark_in; left; tauto | lia].
    + exists q1. split; [exact Hin | lia].
  - exists q. split; [left; reflexivity | lia].
Qed.

Lemma merge_max_bound ca k q B : (forall k0 q0, In (k0, q0) ca -> q0 <= B) -> q <= B ->
  forall k0 q0, In (k0, q0) (merge_max ca k q) -> q0 <= B.
Proof.
  intros Hb Hq k0 q0. unfold merge_max. destruct (find _ ca) as [kv|].
  - destruct (snd kv <? q); [|apply Hb]. intros H. apply mark_in in H. destruct H as [[_ ->]|[H _]]; [exact Hq | exact (Hb _ _ H)].
  - intros [H|H]; [inversion H; subst; exact Hq | exact (Hb _ _ H)].
Qed.

(* ---------------------------------------------------------------- own_latest *)

Lemma own_latest_some m f l1 : forall x l2, b_signer x = m -> (forall y, In y l1 -> f < b_num y) ->
  exists z, own_latest m f (l1 ++ x :: l2) = Some z /\ In z (l1 ++ [x]) /\ b_signer z = m.
Proof.
  induction l1 as [|a l1 IH]; intros x l2 Hs Hab.
  - cbn. rewrite Hs, N.eqb_refl. exists x. split; [reflexivity|]. split; [left; reflexivity | exact Hs].
  - cbn [app own_latest]. destruct (b_signer a =? m) eqn:E.
    + apply N.eqb_eq in E. exists a. split; [reflexivity|]. split; [left; reflexivity | exact E].
    + assert (Hf : (b_num a <=? f) = false) by (apply N.leb_gt; apply Hab; left; reflexivity). rewrite Hf.
      destruct (IH x l2 Hs ltac:(intros y Hy; apply Hab; right; exact Hy)) as [z [Hz [Hin Hsz]]].
      exists z. split; [exact Hz|]. split; [right; exact Hin | exact Hsz].
Qed.

Lemma own_latest_in m f ch z : own_latest m f ch = Some z -> In z ch /\ b_signer z = m.
Proof.
  induction ch as [|a ch IH]; [discriminate|]. cbn [own_latest]. destruct (b_signer a =? m) eqn:E.
  - intros H. inversion H; subst. apply N.eqb_eq in E. split; [left; reflexivity | exact E].
  - destruct (b_num a <=? f); [discriminate|]. intros H. destruct (IH H). split; [right; assumption | assumption].
Qed.

(* ---------------------------------------------------------------- the invariant *)

Section Casts.
Variable c : cfg.
Hypothesis HL : 0 < c_L c.
Notation L := (c_L c).

Definition cp_of (r : repo) (x : blk) : option blk := block_at r (b_id x) (checkpoint L (b_num x)).

Record casts_inv (r : repo) (Qb master finnum : N) (ca : list (N * N)) : Prop := mkCI {
  ci_nodup : NoDup (ckeys ca);
  ci_stored : casts_stored r ca;
  ci_bound : forall k q, In (k, q) ca -> q <= Qb;
  ci_cover : forall x, In x r -> b_signer x = master -> finnum <= b_num x ->
    exists y q cpx, In (b_id y, q) ca /\ In y r /\ qual c r x <= q /\
                    cp_of r x = Some cpx /\ has_block r (b_id y) (b_id cpx) = true }.

Definition casts_ok (nd : node) : Prop :=
  match e_casts (n_eng nd) with
  | None => True
  | Some ca => casts_inv (n_repo nd) (qual c (n_repo nd) (best_blk nd)) (e_master (n_eng nd)) (idnum (e_fin (n_eng nd))) ca
  end.

Lemma checkpoint_mono n m : n <= m -> checkpoint L n <= checkpoint L m.
Proof. intros H. unfold checkpoint. pose proof (N.div_le_mono n m L ltac:(lia) H). nia. Qed.

Lemma qual_ancestor r x z : wf_repo r -> In z r -> In x (chain_of r (b_id z)) -> qual c r x <= qual c r z.
Proof.
  intros Hwf Hz Hin. destruct (in_split _ _ Hin) as [l1 [l2 E]]. unfold qual.
  rewrite (chain_suffix r Hwf (b_id z) l1 x l2 E), E.
  destruct (chain_of_known r Hwf _ _ (chain_of_stored r z Hwf Hz)) as [t [Ht Hg]].
  apply (quality_suffix c HL l1 (x :: l2)); [rewrite <- E, Ht; exact Hg | discriminate].
Qed.

Lemma cp_of_exists r x : wf_repo r -> In x r ->
  exists cpx, cp_of r x = Some cpx /\ b_num cpx = checkpoint L (b_num x) /\ In cpx (chain_of r (b_id x)).
Proof. intros Hwf Hx. apply block_at_exists; [exact Hwf | exact Hx | apply checkpoint_le; exact HL]. Qed.

(* the record rebuilt by newCasts *)
Section NewCasts.
Variables (r : repo) (e : engine) (Qb : N).
Hypothesis Hwf : wf_repo r.
Hypothesis Hqs : qs_ok c r (e_qs e).
Hypothesis Hroot : forall z, In z r -> b_num z = 0 -> known r (b_parent z) = false.
Hypothesis HQb : forall x, In x r -> qual c r x <= Qb.

Let F := (fun (ca : list (N * N)) (h : blk) =>
      let ch := chain_of r (b_id h) in
      match own_latest (e_master e) (idnum (e_fin e)) ch with
      | None => ca
      | Some x => match at_num ch (checkpoint (c_L c) (b_num x)) with
                  | None => ca
                  | Some cpb => merge_max ca (b_id cpb) (s_q (compute_state c r (e_qs e) x))
                  end
      end).

Lemma F_nodup ca h : NoDup (ckeys ca) -> NoDup (ckeys (F ca h)).
Proof.
  intros H. unfold F. cbv zeta. destruct (own_latest _ _ _) as [x|]; [|exact H].
  destruct (at_num _ _) as [cpb|]; [|exact H]. apply merge_max_nodup. exact H.
Qed.

Lemma F_keep ca h k0 q0 : NoDup (ckeys ca) -> In (k0, q0) ca -> exists q1, In (k0, q1) (F ca h) /\ q0 <= q1.
Proof.
  intros Hn Hin. unfold F. cbv zeta. destruct (own_latest _ _ _) as [x|]; [|exists q0; split; [exact Hin | lia]].
  destruct (at_num _ _) as [cpb|]; [|exists q0; split; [exact Hin | lia]]. apply merge_max_keep; assumption.
Qed.

Lemma F_bound ca h : In h r -> (forall k q, In (k, q) ca -> q <= Qb) -> forall k q, In (k, q) (F ca h) -> q <= Qb.
Proof.
  intros Hh Hb. unfold F. cbv zeta. destruct (own_latest _ _ _) as [x|] eqn:Eo; [|exact Hb].
  destruct (at_num _ _) as [cpb|]; [|exact Hb]. apply merge_max_bound; [exact Hb|].
  destruct (own_latest_in _ _ _ _ Eo) as [Hx _]. apply chain_incl in Hx.
  rewrite (compute_state_stored c HL r (e_qs e) x Hwf Hqs Hx). apply HQb. exact Hx.
Qed.

Lemma fold_F_nodup hs : forall ca, NoDup (ckeys ca) -> NoDup (ckeys (fold_left F hs ca)).
Proof. induction hs as [|h hs IH]; intros ca H; [exact H|]. cbn [fold_left]. apply IH. apply F_nodup. exact H. Qed.

Lemma fold_F_keep hs : forall ca k0 q0, NoDup (ckeys ca) -> In (k0, q0) ca ->
  exists q1, In (k0, q1) (fold_left F hs ca) /\ q0 <= q1.
Proof.
  induction hs as [|h hs IH]; intros ca k0 q0 Hn Hin; [exists q0; split; [exact Hin | lia]|].
  cbn [fold_left]. destruct (F_keep ca h k0 q0 Hn Hin) as [q1 [H1 Hle]].
  destruct (IH (F ca h) k0 q1 (F_nodup ca h Hn) H1) as [q2 [H2 Hle2]]. exists q2. split; [exact H2 | lia].
Qed.

Lemma fold_F_bound hs : forall ca, (forall h, In h hs -> In h r) -> (forall k q, In (k, q) ca -> q <= Qb) ->
  forall k q, In (k, q) (fold_left F hs ca) -> q <= Qb.
Proof.
  induction hs as [|h hs IH]; intros ca Hr Hb; [exact Hb|]. cbn [fold_left]. apply IH.
  - intros h' Hh'. apply Hr. right. exact Hh'.
  - apply F_bound; [apply Hr; left; reflexivity | exact Hb].
Qed.

Lemma fold_F_entry hs : forall ca h z cpz, NoDup (ckeys ca) -> In h hs -> In z r ->
  own_latest (e_master e) (idnum (e_fin e)) (chain_of r (b_id h)) = Some z ->
  at_num (chain_of r (b_id h)) (checkpoint L (b_num z)) = Some cpz ->
  exists q, In (b_id cpz, q) (fold_left F hs ca) /\ qual c r z <= q.
Proof.
  induction hs as [|h0 hs IH]; intros ca h z cpz Hn Hin Hz Eo Ea; [destruct Hin|].
  cbn [fold_left]. destruct Hin as [->|Hin].
  - assert (HF : F ca h = merge_max ca (b_id cpz) (qual c r z)).
    { unfold F. cbv zeta. rewrite Eo, Ea. rewrite (compute_state_stored c HL r (e_qs e) z Hwf Hqs Hz). reflexivity. }
    destruct (merge_max_new ca (b_id cpz) (qual c r z) Hn) as [q1 [H1 Hle]]. rewrite <- HF in H1.
    destruct (fold_F_keep hs (F ca h) _ _ (F_nodup ca h Hn) H1) as [q2 [H2 Hle2]]. exists q2. split; [exact H2 | lia].
  - apply (IH (F ca h0) h z cpz (F_nodup ca h0 Hn) Hin Hz Eo Ea).
Qed.

Theorem new_casts_inv : casts_inv r Qb (e_master e) (idnum (e_fin e)) (new_casts c r e).
Proof.
  pose proof (new_casts_stored c r e) as Hst.
  unfold new_casts in *. fold F in Hst |- *. constructor.
  - apply fold_F_nodup. constructor.
  - exact Hst.
  - apply fold_F_bound; [|intros k q []]. intros h Hh. unfold heads_from in Hh. apply filter_In in Hh. tauto.
  - intros x Hx Hs Hf.
    destruct (leaf_above r Hwf Hroot x Hx) as [h [Hh [Hleaf Hin]]].
    destruct (chain_of_known r Hwf _ _ (chain_of_stored r h Hwf Hh)) as [t [Ht Hg]].
    destruct (in_split _ _ Hin) as [l1 [l2 E]].
    assert (HgC : grounded (chain_of r (b_id h))) by (rewrite Ht; exact Hg).
    assert (Hab : forall y, In y l1 -> idnum (e_fin e) < b_num y).
    { intros y Hy. destruct (in_split _ _ Hy) as [la [lb Ea]]. rewrite Ea, <- app_assoc in E. cbn [app] in E.
      assert (Hgy : grounded (y :: lb ++ x :: l2)) by (apply (grounded_app la); [rewrite <- E; exact HgC | discriminate]).
      pose proof (grounded_nums y _ Hgy x ltac:(rewrite in_app_iff; right; left; reflexivity)). lia. }
    destruct (own_latest_some (e_master e) (idnum (e_fin e)) l1 x l2 Hs Hab) as [z [Eo [Hz1 Hsz]]]. rewrite <- E in Eo.
    assert (Hzc : In z (chain_of r (b_id h))). { rewrite E, in_app_iff. apply in_app_or in Hz1. destruct Hz1 as [H|[<-|[]]]; [left; exact H | right; left; reflexivity]. }
    assert (Hzr : In z r) by exact (chain_incl _ _ _ Hzc).
    assert (Hxz : b_num x <= b_num z).
    { apply in_app_or in Hz1. destruct Hz1 as [H|[<-|[]]]; [|lia]. destruct (in_split _ _ H) as [la [lb Ea]].
      rewrite Ea, <- app_assoc in E. cbn [app] in E.
      assert (Hgy : grounded (z :: lb ++ x :: l2)) by (apply (grounded_app la); [rewrite <- E; exact HgC | discriminate]).
      pose proof (grounded_nums z _ Hgy x ltac:(rewrite in_app_iff; right; left; reflexivity)). lia. }
    assert (Hnh : b_num z <= b_num h).
    { rewrite Ht in Hzc. destruct Hzc as [<-|Hzc]; [lia | pose proof (grounded_nums h t Hg z Hzc); lia]. }
    destruct (block_at_exists r h (checkpoint L (b_num z)) Hwf Hh ltac:(pose proof (checkpoint_le L HL (b_num z)); lia)) as [cpz [Ecz [Hcn Hcin]]].
    assert (Hhead : In h (heads_from r (idnum (e_fin e)))).
    { unfold heads_from. apply filter_In. split; [exact Hh|]. rewrite Hleaf. cbn [andb]. apply N.leb_le. lia. }
    destruct (fold_F_entry (heads_from r (idnum (e_fin e))) [] h z cpz ltac:(constructor) Hhead Hzr Eo Ecz) as [q [Hq Hle]].
    destruct (cp_of_exists r x Hwf Hx) as [cpx [Ecx [Hxn Hxin]]].
    exists cpz, q, cpx. split; [exact Hq|]. split; [exact (chain_incl _ _ _ Hcin)|]. split.
    + assert (Hxinz : In x (chain_of r (b_id z))).
      { apply (has_block_iff_in r z x Hwf Hzr Hx). apply (chain_members_comparable r h z x Hwf Hh Hzc Hin Hxz). }
      pose proof (qual_ancestor r x z Hwf Hzr Hxinz). lia.
    + split; [exact Ecx|].
      apply (chain_members_comparable r h cpz cpx Hwf Hh Hcin).
      * rewrite E, in_app_iff. right. rewrite <- (chain_suffix r Hwf (b_id h) l1 x l2 E). exact Hxin.
      * rewrite Hcn, Hxn. apply checkpoint_mono. exact Hxz.
Qed.
End NewCasts.

Lemma should_vote_fst r e parent :
  fst (should_vote c r e parent) = with_casts e (match e_casts e with Some ca => ca | None => new_casts c r e end).
Proof.
  unfold should_vote. destruct ((idnum parent + 1) / L =? 0); [reflexivity|].
  destruct (find_blk r parent) as [p|]; [|reflexivity].
  destruct (s_q _ =? 0); [reflexivity|].
  destruct (if s_just _ then _ else _); reflexivity.
Qed.

Definition root_free (r : repo) : Prop := forall z, In z r -> b_num z = 0 -> known r (b_parent z) = false.

Theorem should_vote_casts_ok nd parent : inv c nd -> root_free (n_repo nd) -> casts_ok nd ->
  let nd1 := mkN (n_repo nd) (n_best nd) (fst (should_vote c (n_repo nd) (n_eng nd) parent)) in
  casts_ok nd1 /\ e_casts (n_eng nd1) <> None.
Proof.
  intros Hi Hroot Hc. cbv zeta. rewrite should_vote_fst. unfold casts_ok, with_casts. cbn [n_eng n_repo e_casts e_master e_fin].
  split; [|discriminate].
  change (best_blk (mkN (n_repo nd) (n_best nd) _)) with (best_blk nd).
  unfold casts_ok in Hc. destruct (e_casts (n_eng nd)) as [ca|]; [exact Hc|].
  apply new_casts_inv; [exact (inv_wf c _ Hi) | exact (inv_qs c _ Hi) | exact Hroot |].
  intros x Hx. apply head_quality_monotone; assumption.
Qed.

(* transport to a repository extended by a fresh block *)
Lemma cp_of_fresh b r x : wf_repo (b :: r) -> In x r -> cp_of (b :: r) x = cp_of r x.
Proof. intros Hwf Hx. unfold cp_of, block_at. rewrite chain_of_fresh; [reflexivity | exact (fresh_ne b r x Hwf Hx)]. Qed.

Lemma has_block_fresh b r y id : wf_repo (b :: r) -> In y r -> has_block (b :: r) (b_id y) id = has_block r (b_id y) id.
Proof. intros Hwf Hy. unfold has_block. rewrite chain_of_fresh; [reflexivity | exact (fresh_ne b r y Hwf Hy)]. Qed.

(* a block signed by somebody else is stored; finalized may move up; the best quality may grow *)
Lemma casts_inv_import b r Qb Qb' m f f' ca : wf_repo (b :: r) -> b_signer b <> m -> Qb <= Qb' -> f <= f' ->
  casts_inv r Qb m f ca -> casts_inv (b :: r) Qb' m f' ca.
Proof.
  intros Hwf Hs HQ Hf [Hn Hst Hb Hc]. constructor; [exact Hn | | intros k q H; specialize (Hb k q H); lia |].
  { intros kv Hkv. destruct (Hst kv Hkv) as [y [Hy E]]. exists y. split; [right; exact Hy | exact E]. }
  intros x [<-|Hx] Hsx Hfx; [contradiction|].
  destruct (Hc x Hx Hsx ltac:(lia)) as [y [q [cpx [H1 [H2 [H3 [H4 H5]]]]]]].
  exists y, q, cpx. split; [exact H1|]. split; [right; exact H2|]. split; [rewrite (qual_fresh c b r x Hwf Hx); exact H3|].
  split; [rewrite (cp_of_fresh b r x Hwf Hx); exact H4 | rewrite (has_block_fresh b r y _ Hwf H2); exact H5].
Qed.

(* an own block is stored and marked *)
Lemma casts_inv_mark b r Qb Qb' m f f' ca cpb : wf_repo (b :: r) -> b_signer b = m -> f <= f' ->
  Qb <= qual c (b :: r) b -> qual c (b :: r) b <= Qb' ->
  cp_of (b :: r) b = Some cpb ->
  casts_inv r Qb m f ca -> casts_inv (b :: r) Qb' m f' (mark ca (b_id cpb) (qual c (b :: r) b)).
Proof.
  intros Hwf Hs Hf HQ1 HQ2 Hcp [Hn Hst Hb Hc].
  assert (Hcpin : In cpb (b :: r)).
  { unfold cp_of in Hcp. destruct (block_at_num _ _ _ _ Hcp) as [_ H]. exact (chain_incl _ _ _ H). }
  constructor.
  - apply mark_nodup. exact Hn.
  - apply mark_stored; [|exact Hcpin]. intros kv Hkv. destruct (Hst kv Hkv) as [y [Hy E]]. exists y. split; [right; exact Hy | exact E].
  - intros k q H. apply mark_in in H. destruct H as [[_ ->]|[H _]]; [exact HQ2 | specialize (Hb k q H); lia].
  - intros x Hx Hsx Hfx. destruct Hx as [<-|Hx].
    + exists cpb, (qual c (b :: r) b), cpb. split; [apply mark_in; left; tauto|]. split; [exact Hcpin|]. split; [lia|].
      split; [exact Hcp | apply has_block_refl; assumption].
    + destruct (Hc x Hx Hsx ltac:(lia)) as [y [q [cpx [H1 [H2 [H3 [H4 H5]]]]]]].
      assert (H3' : qual c (b :: r) x <= q) by (rewrite (qual_fresh c b r x Hwf Hx); exact H3).
      assert (H4' : cp_of (b :: r) x = Some cpx) by (rewrite (cp_of_fresh b r x Hwf Hx); exact H4).
      assert (H5' : has_block (b :: r) (b_id y) (b_id cpx) = true) by (rewrite (has_block_fresh b r y _ Hwf H2); exact H5).
      destruct (N.eq_dec (b_id y) (b_id cpb)) as [E|E].
      * assert (y = cpb) by (apply (stored_unique (b :: r)); [exact Hwf | right; exact H2 | exact Hcpin | exact E]). subst y.
        exists cpb, (qual c (b :: r) b), cpx. split; [apply mark_in; left; tauto|]. split; [exact Hcpin|].
        split; [specialize (Hb _ _ H1); lia|]. split; [exact H4' | exact H5'].
      * exists y, q, cpx. split; [apply mark_in; right; tauto|]. split; [right; exact H2|]. tauto.
Qed.

(* CommitBlock with isPacking = true in terms of the import path *)
Lemma commit_block_packing guard r e b :
  commit_block guard c r e b true =
  let '(e1, err) := commit_block guard c r e b false in
  if negb (err =? 0) then (e1, err) else
  match e_casts e1 with
  | None => (e1, 9)
  | Some ca => match block_at r (b_id b) (checkpoint L (b_num b)) with
               | None => (e1, 4)
               | Some cpb => (mkE (e_master e1) (e_fin e1) (e_qs e1) (Some (mark ca (b_id cpb) (s_q (compute_state c r (e_qs e) b)))) (e_jc e1), 0)
               end
  end.
Proof.
  unfold commit_block.
  destruct (if storepoint L (b_num b) =? b_num b then _ else _) as [e1 err].
  destruct (err =? 0) eqn:E; cbn [negb]; [|rewrite E; reflexivity]. cbn [N.eqb negb]. reflexivity.
Qed.

Lemma commit_block_casts guard r e b : e_casts (fst (commit_block guard c r e b false)) = e_casts e /\
  e_master (fst (commit_block guard c r e b false)) = e_master e.
Proof.
  unfold commit_block. destruct (storepoint L (b_num b) =? b_num b).
  - destruct (s_comm _ && (1 <? s_q _) && _).
    + destruct (find_cp _ _ _ _ _ _) as [id|code]; cbn [negb N.eqb].
      * split; reflexivity.
      * destruct (code =? 0); split; reflexivity.
    + split; reflexivity.
  - split; reflexivity.
Qed.
End Casts.
