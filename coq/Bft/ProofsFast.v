(* Bft/ProofsFast.v — a linear-time evaluator of the per-chain state (epoch_info computes its recursive call twice, which
   makes vm_compute exponential in the chain length); used only to evaluate concrete Examples. *)
From Coq Require Import List NArith Bool Lia.
From Verif Require Import Common.Util Bft.Tree Bft.Model Bft.ProofsChain.
Import ListNotations.
Open Scope N_scope.

Fixpoint epoch_info2 (c : cfg) (ch : list blk) : N * list blk :=
  match ch with
  | [] => (0, [])
  | b :: t =>
      let '(pq, sg) := epoch_info2 c t in
      if b_num b =? 0 then (0, [])
      else if is_checkpoint (c_L c) (b_num b) then (s_q (summarize (tally c pq sg)), [b])
           else (pq, b :: sg)
  end.

Lemma epoch_info_fast c ch : epoch_info c ch = epoch_info2 c ch.
Proof.
  induction ch as [|b t IH]; [reflexivity|]. cbn [epoch_info epoch_info2]. rewrite <- IH.
  destruct (epoch_info c t) as [pq sg]. reflexivity.
Qed.

Definition state_fast (c : cfg) (ch : list blk) : bstate :=
  let '(pq, sg) := epoch_info2 c ch in summarize (tally c pq sg).

Lemma state_pure_fast c ch : state_pure c ch = state_fast c ch.
Proof. unfold state_pure, state_fast. rewrite epoch_info_fast. destruct (epoch_info2 c ch). reflexivity. Qed.

Lemma quality_pure_fast c ch : quality_pure c ch = s_q (state_fast c ch).
Proof. unfold quality_pure. rewrite state_pure_fast. reflexivity. Qed.
