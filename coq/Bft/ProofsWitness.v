(* Bft/ProofsWitness.v — concrete runs evaluated in the model by vm_compute:
   F1: before the repair CommitBlock fails on an accepted block (a fork inside the finalized epoch); with the guard the
       same tree imports without error.
   F4: with n = 4 and one Byzantine validator the vote rule as coded (the `quality >= headQuality-1` window over the
       validator's own casts) admits a run, valid in the model (every honest block is proposed on its proposer's own
       best block with the engine's COM bit; score increments within 1..n are data of the run), in which two honest
       nodes finalize conflicting checkpoints. *)
From Coq Require Import List NArith Bool Lia.
From Verif Require Import Common.Util Bft.Tree Bft.Model Bft.Quorum Bft.Safety.
Import ListNotations.
Open Scope N_scope.

Definition cfg4 : cfg := mkCfg 4 4 false 0 [].
Definition gen : blk := mkB (mkid 0 1) 0 0 false 0.

(* ---------------------------------------------------------------- F1 *)
(* main chain a1..a11, every block COM, signers rotating; fork f5 f6 f7 branching at a4 *)
Definition a (k : N) : blk := mkB (mkid k 1) (mkid (k - 1) 1) (k mod 4 + 1) true k.
Definition f (k : N) : blk := mkB (mkid k 2) (if k =? 5 then mkid 4 1 else mkid (k - 1) 2) (k mod 4 + 1) true k.
Definition f1_blocks : list blk := map a [1;2;3;4;5;6;7;8;9;10;11] ++ map f [5;6;7].

Lemma f1_numbered : numbered gen f1_blocks.
Proof.
  split; [reflexivity|]. intros b p Hb Hp. revert p Hp.
  repeat (destruct Hb as [<-|Hb]; [intros p Hp; repeat (destruct Hp as [<-|Hp]; [vm_compute; intros H; try discriminate H; reflexivity|]); destruct Hp|]).
  destruct Hb.
Qed.

Lemma f1_unguarded_fails : import_codes false cfg4 (init_node gen 1) f1_blocks = [0;0;0;0;0;0;0;0;0;0;0;0;0;103].
Proof. vm_compute. reflexivity. Qed.

Lemma f1_guarded_ok : import_codes true cfg4 (init_node gen 1) f1_blocks = [0;0;0;0;0;0;0;0;0;0;0;0;0;0].
Proof. vm_compute. reflexivity. Qed.

Theorem commit_block_error_refuted_lemma : ~ commit_block_total_statement false.
Proof.
  intros H. specialize (H cfg4 gen 1 f1_blocks ltac:(reflexivity) f1_numbered 103).
  rewrite f1_unguarded_fails in H. assert (103 < 100) by (apply H; repeat (try (left; reflexivity); right)). discriminate.
Qed.

(* ---------------------------------------------------------------- F4 *)
(* validators 1,2,3 honest (nodes 0,1,2), validator 4 Byzantine; ids: tail 1 common prefix, 2 branch Y, 3 branch X *)
Definition bk (num tail ptail signer : N) (com : bool) (score : N) : blk :=
  mkB (mkid num tail) (mkid (num - 1) ptail) signer com score.

Definition c1 := bk 1 1 1 1 false 4.   Definition c2 := bk 2 1 1 2 false 8.   Definition c3 := bk 3 1 1 3 false 12.
Definition y4 := bk 4 2 1 1 true 13.   Definition y5 := bk 5 2 2 2 true 17.
Definition y6 := bk 6 2 2 4 false 21.  Definition y7 := bk 7 2 2 4 false 25.
Definition x4 := bk 4 3 1 3 true 16.   Definition x5 := bk 5 3 3 1 true 17.   Definition x6 := bk 6 3 3 4 false 18.
Definition x7 := bk 7 3 3 3 true 19.   Definition x8 := bk 8 3 3 3 true 20.   Definition x9 := bk 9 3 3 1 false 21.
Definition x10 := bk 10 3 3 4 true 22. Definition x11 := bk 11 3 3 2 true 23.
Definition y8 := bk 8 2 2 1 false 29.  Definition y9 := bk 9 2 2 3 false 33.
Definition y10 := bk 10 2 2 4 false 37. Definition y11 := bk 11 2 2 4 false 41.
Definition y12 := bk 12 2 2 1 false 45. Definition y13 := bk 13 2 2 3 false 49.
Definition y14 := bk 14 2 2 4 false 53. Definition y15 := bk 15 2 2 4 false 57.
Definition y16 := bk 16 2 2 1 true 61.  Definition y17 := bk 17 2 2 3 true 65.
Definition y18 := bk 18 2 2 4 true 69.  Definition y19 := bk 19 2 2 4 true 73.

Definition P := EPropose. Definition I := EImport.
Definition f4_run : list event :=
  [ P 0%nat c1; I 1%nat c1; I 2%nat c1; P 1%nat c2; I 0%nat c2; I 2%nat c2; P 2%nat c3; I 0%nat c3; I 1%nat c3;
    P 0%nat y4; I 1%nat y4; P 1%nat y5;
    P 2%nat x4; I 0%nat x4; P 0%nat x5; I 2%nat x5; I 2%nat x6; P 2%nat x7; P 2%nat x8;
    I 0%nat x6; I 0%nat x7; I 0%nat x8; P 0%nat x9;
    I 1%nat x4; I 1%nat x5; I 1%nat x6; I 1%nat x7; I 1%nat x8; I 1%nat x9; I 1%nat x10; P 1%nat x11;
    I 0%nat y5; I 0%nat y6; I 0%nat y7; P 0%nat y8;
    I 2%nat y4; I 2%nat y5; I 2%nat y6; I 2%nat y7; I 2%nat y8; I 2%nat x9; P 2%nat y9;
    I 0%nat y9; I 0%nat y10; I 0%nat y11; P 0%nat y12;
    I 2%nat y10; I 2%nat y11; I 2%nat y12; P 2%nat y13;
    I 0%nat y13; I 0%nat y14; I 0%nat y15; P 0%nat y16;
    I 2%nat y14; I 2%nat y15; I 2%nat y16; P 2%nat y17;
    I 0%nat y17; I 0%nat y18; I 0%nat y19; I 2%nat y18; I 2%nat y19 ].

Definition f4_world : list node := map (init_node gen) [1;2;3].

Lemma f4_valid (guard : bool) : valid_run_b guard cfg4 [4] f4_world [gen] f4_run = true.
Proof. destruct guard; vm_compute; reflexivity. Qed.

Lemma f4_fins (guard : bool) :
  In (b_id x4) (all_fins guard cfg4 f4_world f4_run) /\ In (b_id y12) (all_fins guard cfg4 f4_world f4_run).
Proof.
  assert (H : forall l x, mem l x = true -> In x l) by (intros l x; apply mem_In).
  destruct guard; split; apply H; vm_compute; reflexivity.
Qed.

Lemma f4_conflict : conflict (seen_after [gen] f4_run) (b_id x4) (b_id y12) = true.
Proof. vm_compute. reflexivity. Qed.

Theorem bft_safety_refuted_lemma (guard : bool) : ~ bft_safety_statement guard.
Proof.
  intros H.
  assert (Hc := H cfg4 gen [1;2;3] [4] f4_run ltac:(reflexivity) eq_refl eq_refl).
  destruct (f4_fins guard) as [Ha Hb].
  assert (Hnd : NoDup [1;2;3]) by (repeat constructor; cbn; intuition discriminate).
  assert (Hnb : NoDup [4]) by (repeat constructor; cbn; tauto).
  specialize (Hc Hnd Hnb).
  assert (Hdis : forall m, In m [1;2;3] -> ~ In m [4]).
  { intros m Hm Hb4. cbn in Hm, Hb4. destruct Hb4 as [<-|[]]. intuition discriminate. }
  specialize (Hc Hdis ltac:(vm_compute; reflexivity) ltac:(vm_compute; discriminate) (f4_valid guard) _ _ Ha Hb).
  rewrite f4_conflict in Hc. discriminate.
Qed.

(* the F4 run needs the tie switches: it does not satisfy the fork-choice premise *)
Lemma f4_breaks_premise (guard : bool) : no_tie_switch_b guard cfg4 f4_world f4_run = false.
Proof. destruct guard; vm_compute; reflexivity. Qed.
