(* Bft/SchedScore.v — the PoA (scheduler/poa_v2.go) score rule as a checkable predicate on block trees, and the F4 history
   re-scored so that every block's total score obeys it.
   Rule (NewPoASchedulerV2 / Updates): on parent p the candidate list is (validators active in p's state) + the signer,
   sorted by Blake2b(seed, number(p), address) — a hash, here DATA of the run (`rank`: height -> address -> sort key);
   the signer owns the slots k with k mod n = its position; the validators in the first min(k, n) positions other than the
   signer are marked inactive; the block's score increment is n minus their number; the signer is (re)activated.
   So the increment is either n - pos (the signer takes its first slot: exactly those ranked before it are dropped) or 1
   (it waits a full round or more: everybody else is dropped).  Timestamps themselves are not modelled. *)
From Coq Require Import List NArith Bool Lia.
From Verif Require Import Common.Util Bft.Tree Bft.Model Bft.Quorum Bft.Safety Bft.ProofsWitness.
Import ListNotations.
Open Scope N_scope.

Fixpoint insert_by (key : N -> N) (x : N) (l : list N) : list N :=
  match l with [] => [x] | y :: t => if key x <=? key y then x :: l else y :: insert_by key x t end.
Definition sort_by (key : N -> N) (l : list N) : list N := fold_right (insert_by key) [] l.

Fixpoint index_of (x : N) (l : list N) : nat := match l with [] => O | y :: t => if y =? x then O else S (index_of x t) end.

(* active set after the head of a chain (newest first, genesis last); None = some block's score breaks the rule *)
Fixpoint active_after (rank : N -> N -> N) (vals : list N) (ch : list blk) : option (list N) :=
  match ch with
  | [] => Some vals
  | b :: t =>
      match t with
      | [] => Some vals                                (* genesis: everybody active *)
      | p :: _ =>
          match active_after rank vals t with
          | None => None
          | Some A =>
              let s := b_signer b in
              let sh := sort_by (rank (b_num p)) (filter (fun v => mem A v || (v =? s)) vals) in
              let n := N.of_nat (length sh) in
              let pos := index_of s sh in
              let inc := b_score b - b_score p in
              if negb (mem vals s) || (b_score b <=? b_score p) then None
              else if inc =? n - N.of_nat pos then Some (s :: filter (fun v => negb (mem (firstn pos sh) v) && negb (v =? s)) A)
              else if inc =? 1 then Some [s]
              else None
          end
      end
  end.

Definition scores_ok (rank : N -> N -> N) (vals : list N) (tree : repo) : bool :=
  forallb (fun b => match active_after rank vals (chain_of tree (b_id b)) with Some _ => true | None => false end) tree.

(* ---------------------------------------------------------------- F4 with scheduler-conformant scores *)
(* validators 1..4; hash order per parent height: 0 -> v1 first, 1 -> v2 first, 2 -> v3 first, 3 -> v3,v1,v2,v4,
   4 -> v2 first, 5 and 6 -> v4 first, any other height -> 1,2,3,4 *)
Definition f4_order (h : N) : list N :=
  match h with
  | 0 => [1;2;3;4] | 1 => [2;1;3;4] | 2 => [3;1;2;4] | 3 => [3;1;2;4]
  | 4 => [2;1;3;4] | 5 => [4;1;2;3] | 6 => [4;1;2;3] | _ => [1;2;3;4]
  end.
Definition f4_rank (h a : N) : N := N.of_nat (index_of a (f4_order h)).

(* branch Y: 4Y(v1) takes the second slot (v3 was first: +3), 5Y 6Y 7Y are first in their orders (+3 each); later Y blocks
   and all X blocks after 4X are produced a round late (+1) *)
Definition sy4' := bk 4 2 1 1 true 15.   Definition sy5' := bk 5 2 2 2 true 18.
Definition sy6' := bk 6 2 2 4 false 21.  Definition sy7' := bk 7 2 2 4 false 24.
Definition sy8' := bk 8 2 2 1 false 25.  Definition sy9' := bk 9 2 2 3 false 26.
Definition sy10' := bk 10 2 2 4 false 27. Definition sy11' := bk 11 2 2 4 false 28.
Definition sy12' := bk 12 2 2 1 false 29. Definition sy13' := bk 13 2 2 3 false 30.
Definition sy14' := bk 14 2 2 4 false 31. Definition sy15' := bk 15 2 2 4 false 32.
Definition sy16' := bk 16 2 2 1 true 33.  Definition sy17' := bk 17 2 2 3 true 34.
Definition sy18' := bk 18 2 2 4 true 35.  Definition sy19' := bk 19 2 2 4 true 36.

Definition f4s_run : list event :=
  [ P 0%nat c1; I 1%nat c1; I 2%nat c1; P 1%nat c2; I 0%nat c2; I 2%nat c2; P 2%nat c3; I 0%nat c3; I 1%nat c3;
    P 0%nat sy4'; I 1%nat sy4'; P 1%nat sy5';
    P 2%nat x4; I 0%nat x4; P 0%nat x5; I 2%nat x5; I 2%nat x6; P 2%nat x7; P 2%nat x8;
    I 0%nat x6; I 0%nat x7; I 0%nat x8; P 0%nat x9;
    I 1%nat x4; I 1%nat x5; I 1%nat x6; I 1%nat x7; I 1%nat x8; I 1%nat x9; I 1%nat x10; P 1%nat x11;
    I 0%nat sy5'; I 0%nat sy6'; I 0%nat sy7'; P 0%nat sy8';
    I 2%nat sy4'; I 2%nat sy5'; I 2%nat sy6'; I 2%nat sy7'; I 2%nat sy8'; I 2%nat x9; P 2%nat sy9';
    I 0%nat sy9'; I 0%nat sy10'; I 0%nat sy11'; P 0%nat sy12';
    I 2%nat sy10'; I 2%nat sy11'; I 2%nat sy12'; P 2%nat sy13';
    I 0%nat sy13'; I 0%nat sy14'; I 0%nat sy15'; P 0%nat sy16';
    I 2%nat sy14'; I 2%nat sy15'; I 2%nat sy16'; P 2%nat sy17';
    I 0%nat sy17'; I 0%nat sy18'; I 0%nat sy19'; I 2%nat sy18'; I 2%nat sy19' ].

Lemma f4s_valid : valid_run_b true cfg4 [4] f4_world [gen] f4s_run = true.
Proof. vm_compute. reflexivity. Qed.

Lemma f4s_scores : scores_ok f4_rank [1;2;3;4] (seen_after [gen] f4s_run) = true.
Proof. vm_compute. reflexivity. Qed.

Lemma f4s_fins : In (b_id x4) (all_fins true cfg4 f4_world f4s_run) /\ In (b_id sy12') (all_fins true cfg4 f4_world f4s_run).
Proof.
  assert (H : forall l x, mem l x = true -> In x l) by (intros l x; apply mem_In).
  split; apply H; vm_compute; reflexivity.
Qed.

Lemma f4s_conflict : conflict (seen_after [gen] f4s_run) (b_id x4) (b_id sy12') = true.
Proof. vm_compute. reflexivity. Qed.

Lemma f4s_breaks_premise : no_tie_switch_b true cfg4 f4_world f4s_run = false.
Proof. vm_compute. reflexivity. Qed.
