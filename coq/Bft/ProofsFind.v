(* Bft/ProofsFind.v — findCheckpointByQuality, general form: searching from a finalized checkpoint number a*L up to a
   stored store-point block, any target quality between the record of finalized's epoch and the head's is found, and
   the result is the checkpoint of the FIRST epoch whose store point carries that quality. *)
From Coq Require Import List NArith ZArith Bool Lia.
From Coq Require Import ZifyN ZifyNat ZifyBool.
From Verif Require Import Common.Util Bft.Tree Bft.Model Bft.Quorum Bft.ProofsTally Bft.ProofsChain Bft.ProofsSearch
  Bft.ProofsSuffix Bft.ProofsNode Bft.ProofsFinal Bft.ProofsCommit.
Import ListNotations.
Open Scope N_scope.

Section Find.
Variable c : cfg.
Hypothesis HL : 0 < c_L c.
Notation L := (c_L c).

(* quality (from the definitions) at the store point of epoch k on the chain of head *)
Definition q_epoch (r : repo) (head k : N) : N := quality_pure c (suffix_at (k * L + L - 1) (chain_of r head)).

Lemma store_seq r qs head hb kb :
  wf_repo r -> qs_ok c r qs -> find_blk r head = Some hb -> b_num hb = kb * L + L - 1 ->
  (forall k, k <= kb -> quality_at r qs head (k * L + L - 1) = Ok (q_epoch r head k)) /\
  (forall k, k + 1 <= kb -> q_epoch r head k <= q_epoch r head (k + 1) <= q_epoch r head k + 1) /\
  q_epoch r head kb = quality_pure c (chain_of r head) /\
  (forall k, k <= kb -> exists y, block_at r head (k * L) = Some y /\ b_num y = k * L).
Proof.
  intros Hwf Hqs Hhb Hnum.
  destruct (chain_of_known r Hwf _ _ Hhb) as [t [HC Hg]].
  unfold q_epoch. set (C := chain_of r head) in *.
  assert (HgC : grounded C) by (rewrite HC; exact Hg).
  assert (Hget : forall k, k <= kb -> exists x l2, suffix_at (k * L + L - 1) C = x :: l2 /\ b_num x = k * L + L - 1 /\
                                   block_at r head (k * L + L - 1) = Some x /\
                                   get_q qs (b_id x) = quality_pure c (suffix_at (k * L + L - 1) C)).
  { intros k Hk.
    destruct (suffix_at_exists C HgC hb t HC (k * L + L - 1)) as [x [l2 [Hs Hx]]]; [rewrite Hnum; nia|].
    exists x, l2. split; [exact Hs|]. split; [exact Hx|]. split.
    - unfold block_at. fold C. rewrite at_num_suffix, Hs. reflexivity.
    - destruct (suffix_at_split C (k * L + L - 1)) as [l1 Hsplit]. rewrite Hs in Hsplit.
      assert (HinC : In x r). { apply (chain_incl r head). fold C. rewrite Hsplit, in_app_iff. right. left. reflexivity. }
      rewrite (Hqs x HinC).
      + unfold qual. rewrite (chain_suffix r Hwf head l1 x l2 Hsplit), Hs. reflexivity.
      + rewrite Hx. apply storepoint_store. exact HL. }
  split; [|split; [|split]].
  - intros k Hk. destruct (Hget k Hk) as [x [l2 [_ [_ [Hb Hq]]]]]. unfold quality_at. rewrite Hb, Hq. reflexivity.
  - intros k Hk. destruct (Hget (k + 1) Hk) as [x [l2 [Hs [Hx _]]]].
    destruct (suffix_at_split C ((k + 1) * L + L - 1)) as [l1 Hsplit]. rewrite Hs in Hsplit.
    assert (Hgs : grounded (x :: l2)). { apply (grounded_app l1); [rewrite <- Hsplit; exact HgC | discriminate]. }
    assert (Hcpx : checkpoint L (b_num x) = (k + 1) * L) by (rewrite Hx; apply checkpoint_store; exact HL).
    destruct (quality_epoch_step c HL (x :: l2) x l2 Hgs eq_refl) as [Hb _]; [rewrite Hcpx; nia|].
    rewrite Hcpx in Hb.
    assert (Hprev : (k + 1) * L - 1 = k * L + L - 1) by nia.
    rewrite Hprev, <- Hs in Hb.
    rewrite (suffix_at_comp C HgC hb t HC (k * L + L - 1) ((k + 1) * L + L - 1)) in Hb; [exact Hb | nia | rewrite Hnum; nia].
  - rewrite <- Hnum, HC. cbn [suffix_at]. rewrite N.eqb_refl. reflexivity.
  - intros k Hk. destruct (suffix_at_exists C HgC hb t HC (k * L)) as [y [l3 [Hs Hy]]]; [rewrite Hnum; nia|].
    exists y. split; [|exact Hy]. unfold block_at. fold C. rewrite at_num_suffix, Hs. reflexivity.
Qed.

Theorem find_cp_general r qs fin head hb a kb T :
  wf_repo r -> qs_ok c r qs -> find_blk r head = Some hb ->
  idnum fin = a * L -> b_num hb = kb * L + L - 1 -> a <= kb ->
  q_epoch r head a <= T -> T <= quality_pure c (chain_of r head) ->
  exists m y, find_cp c r qs T fin head = Ok (b_id y) /\ a + m <= kb /\
              block_at r head ((a + m) * L) = Some y /\ b_num y = (a + m) * L /\
              q_epoch r head (a + m) = T /\ forall k, k < m -> q_epoch r head (a + k) < T.
Proof.
  intros Hwf Hqs Hhb Hfin Hnum Hak H0 HT.
  destruct (store_seq r qs head hb kb Hwf Hqs Hhb Hnum) as [Hq [Hstep [Hlast Hblk]]].
  destruct (find_blk_id _ _ _ Hhb) as [Hid _].
  assert (Hhead : idnum head = b_num hb) by (unfold b_num; rewrite Hid; reflexivity).
  set (n := kb - a + 1).
  set (qf := fun i => q_epoch r head (a + i)).
  unfold find_cp. rewrite Hhead, Hfin.
  assert (Elt : (b_num hb <? a * L) = false) by (apply N.ltb_ge; rewrite Hnum; nia). rewrite Elt.
  assert (En : (b_num hb - a * L) / L + 1 = n).
  { unfold n. rewrite Hnum, (div_span L HL a kb) by lia. reflexivity. }
  rewrite En.
  set (get := fun i : N => quality_at r qs head (storepoint L (a * L + i * L))).
  assert (Hgeti : forall i, i < n -> get i = Ok (qf i)).
  { intros i Hi. unfold get. replace (a * L + i * L) with ((a + i) * L) by lia. rewrite (storepoint_mul L HL).
    apply Hq. unfold n in Hi. lia. }
  set (f := fun i : N => match get i with Ok q => Ok (T <=? q) | Err e => Err e end).
  destruct (search_first qf n T) with (f := f) as [m [Hm [Hmn [Hqm Hmin]]]].
  - unfold n. lia.
  - intros i Hi. unfold qf. replace (a + (i + 1)) with (a + i + 1) by lia. apply Hstep. unfold n in Hi. lia.
  - unfold qf. replace (a + 0) with a by lia. exact H0.
  - unfold qf, n. replace (a + (kb - a + 1 - 1)) with kb by lia. rewrite Hlast. exact HT.
  - intros i Hi. unfold f. rewrite (Hgeti i Hi). reflexivity.
  - change (bsearch (S (N.to_nat n)) (fun i : N => match quality_at r qs head (storepoint L (a * L + i * L)) with
                                               | Ok q => Ok (T <=? q) | Err e => Err e end) 0 n)
      with (bsearch (S (N.to_nat n)) f 0 n).
    rewrite Hm.
    assert (Emn : (m =? n) = false) by (apply N.eqb_neq; lia). rewrite Emn.
    change (quality_at r qs head (storepoint L (a * L + m * L))) with (get m).
    rewrite (Hgeti m Hmn), Hqm, N.eqb_refl. cbn [negb].
    destruct (Hblk (a + m)) as [y [Hy Hyn]]; [unfold n in Hmn; lia|].
    replace (a * L + m * L) with ((a + m) * L) by lia. rewrite Hy.
    exists m, y. split; [reflexivity|]. split; [unfold n in Hmn; lia|]. split; [exact Hy|]. split; [exact Hyn|].
    split; [exact Hqm | exact Hmin].
Qed.
End Find.
