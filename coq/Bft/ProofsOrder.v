(* Bft/ProofsOrder.v — C04, first sentence beyond `best`: the finalized checkpoint is a function of the SET of stored
   blocks for consistent trees (all finalizing blocks — committed store points of quality > 1 — lie on one chain):
   it is the checkpoint of the first epoch, on the chain of the highest finalizing block B, whose store point carries
   quality Q_B - 1 (genesis if there is no finalizing block).  Chains, qualities and per-block states do not depend on the
   order in which the blocks were stored. *)
From Coq Require Import List NArith ZArith Bool Lia.
From Coq Require Import ZifyN ZifyNat ZifyBool.
From Verif Require Import Common.Util Bft.Tree Bft.Model Bft.Quorum Bft.ProofsTally Bft.ProofsChain Bft.ProofsSearch
  Bft.ProofsSuffix Bft.ProofsNode Bft.ProofsFinal Bft.ProofsCommit Bft.ProofsFind Bft.ProofsLive2 Bft.ProofsVote
  Bft.ProofsMonotone.
Import ListNotations.
Open Scope N_scope.

(* ---------------------------------------------------------------- chains do not depend on the storage order *)

Lemma chain_head_id r : forall id x t, chain_of r id = x :: t -> b_id x = id /\ In x r.
Proof.
  induction r as [|b r IH]; intros id x t H; [discriminate|]. cbn [chain_of] in H.
  destruct (b_id b =? id) eqn:E.
  - inversion H; subst. apply N.eqb_eq in E. split; [exact E | left; reflexivity].
  - destruct (IH _ _ _ H) as [A B]. split; [exact A | right; exact B].
Qed.

Lemma chain_of_same_set r1 r2 : wf_repo r1 -> wf_repo r2 -> (forall x, In x r1 <-> In x r2) ->
  forall ch id, chain_of r1 id = ch -> chain_of r2 id = ch.
Proof.
  intros W1 W2 Hset. induction ch as [|x t IH]; intros id H.
  - apply chain_of_unknown. destruct (known r2 id) eqn:Ek; [|reflexivity]. exfalso.
    apply known_find in Ek. destruct Ek as [y Hy]. destruct (find_blk_id _ _ _ Hy) as [Hid Hin].
    apply Hset in Hin. pose proof (chain_of_stored r1 y W1 Hin) as Hf. rewrite Hid in Hf.
    destruct (chain_of_known r1 W1 _ _ Hf) as [t' [Ht' _]]. rewrite H in Ht'. discriminate.
  - destruct (chain_head_id r1 _ _ _ H) as [Hid Hin1]. pose proof (proj1 (Hset x) Hin1) as Hin2.
    pose proof (chain_of_stored r1 x W1 Hin1) as F1. pose proof (chain_of_stored r2 x W2 Hin2) as F2. rewrite Hid in F1, F2.
    destruct (chain_of_known r1 W1 _ _ F1) as [t1 [Ht1 Hg1]]. destruct (chain_of_known r2 W2 _ _ F2) as [t2 [Ht2 Hg2]].
    rewrite H in Ht1. inversion Ht1; subst t1. rewrite Ht2. f_equal.
    destruct t as [|p t'].
    + cbn in Hg1. destruct t2 as [|p2 t2']; [reflexivity|]. cbn in Hg2. lia.
    + pose proof Hg1 as Hg1'. cbn in Hg1'. destruct Hg1' as [Hpar [Hn _]].
      assert (Hs1 : chain_of r1 (b_id p) = p :: t') by (apply (chain_suffix r1 W1 id [x] p t'); exact H).
      pose proof (IH _ Hs1) as Hs2.
      destruct t2 as [|p2 t2']; [cbn in Hg2; lia|].
      pose proof Hg2 as Hg2'. cbn in Hg2'. destruct Hg2' as [Hpar2 _].
      assert (Hs2' : chain_of r2 (b_id p2) = p2 :: t2') by (apply (chain_suffix r2 W2 id [x] p2 t2'); exact Ht2).
      rewrite <- Hpar2, Hpar, Hs2 in Hs2'. symmetry. exact Hs2'.
Qed.

Lemma chain_of_set_eq r1 r2 id : wf_repo r1 -> wf_repo r2 -> (forall x, In x r1 <-> In x r2) -> chain_of r1 id = chain_of r2 id.
Proof. intros W1 W2 H. symmetry. apply (chain_of_same_set r1 r2 W1 W2 H). reflexivity. Qed.

(* a block with number 0 of a well-formed repository is its root *)
Lemma zero_is_root r : wf_repo r -> forall x d, In x r -> b_num x = 0 -> x = last r d.
Proof.
  induction r as [|b r IH]; intros Hwf x d Hin H0; [destruct Hin|].
  cbn in Hwf. destruct Hwf as [Hwf [_ Hpar]]. destruct r as [|r0 rr].
  - destruct Hin as [<-|[]]. reflexivity.
  - change (last (b :: r0 :: rr) d) with (last (r0 :: rr) d). destruct Hin as [<-|Hin]; [|exact (IH Hwf x d Hin H0)].
    destruct Hpar as [p [_ Hn]]. lia.
Qed.

Section Order.
Variable c : cfg.
Hypothesis HL : 0 < c_L c.
Notation L := (c_L c).

Definition finalizing (r : repo) (B : blk) : Prop :=
  In B r /\ storepoint L (b_num B) = b_num B /\
  s_comm (state_pure c (chain_of r (b_id B))) = true /\ 1 < quality_pure c (chain_of r (b_id B)).

Definition first_epoch (r : repo) (B : blk) (j : N) : Prop :=
  q_epoch c r (b_id B) j = quality_pure c (chain_of r (b_id B)) - 1 /\
  forall k, k < j -> q_epoch c r (b_id B) k < quality_pure c (chain_of r (b_id B)) - 1.

(* all finalizing blocks lie on one chain *)
Definition consistent (r : repo) : Prop :=
  forall B1 B2, finalizing r B1 -> finalizing r B2 ->
    has_block r (b_id B1) (b_id B2) = true \/ has_block r (b_id B2) (b_id B1) = true.

(* finalized as a function of the stored set *)
Definition fin_char (r : repo) (fin : N) : Prop :=
  ((forall B, ~ finalizing r B) /\ exists g, In g r /\ b_num g = 0 /\ fin = b_id g) \/
  (exists B j y, finalizing r B /\ (forall B', finalizing r B' -> b_num B' <= b_num B) /\
                 first_epoch r B j /\ block_at r (b_id B) (j * L) = Some y /\ b_num y = j * L /\ fin = b_id y).

Lemma finalizing_set_eq r1 r2 B : wf_repo r1 -> wf_repo r2 -> (forall x, In x r1 <-> In x r2) ->
  finalizing r1 B -> finalizing r2 B.
Proof.
  intros W1 W2 H [Hin [Hsp [Hc HQ]]]. unfold finalizing. rewrite <- (chain_of_set_eq r1 r2 _ W1 W2 H).
  split; [apply H; exact Hin | tauto].
Qed.

(* two blocks of one chain with the same number are the same block *)
Lemma same_number_same_block r B1 B2 : wf_repo r -> In B1 r -> In B2 r -> b_num B1 = b_num B2 ->
  has_block r (b_id B1) (b_id B2) = true -> B1 = B2.
Proof.
  intros Hwf H1 H2 Hn Hh. pose proof (chain_of_stored r B1 Hwf H1) as F1.
  destruct (chain_of_known r Hwf _ _ F1) as [t [Ht _]]. unfold has_block, chain_has, at_num in Hh. rewrite Ht in Hh.
  change (idnum (b_id B2)) with (b_num B2) in Hh. cbn [find] in Hh. rewrite Hn, N.eqb_refl in Hh. apply N.eqb_eq in Hh.
  pose proof (chain_of_stored r B2 Hwf H2) as F2. rewrite <- Hh, F1 in F2. inversion F2. reflexivity.
Qed.

Theorem fin_char_unique r1 r2 f1 f2 : wf_repo r1 -> wf_repo r2 -> (forall x, In x r1 <-> In x r2) -> consistent r1 ->
  fin_char r1 f1 -> fin_char r2 f2 -> f1 = f2.
Proof.
  intros W1 W2 Hset Hcons C1 C2.
  assert (Hset' : forall x, In x r2 <-> In x r1) by (intros x; symmetry; apply Hset).
  destruct C1 as [[Hno1 [g1 [Hg1 [Hz1 ->]]]] | [B1 [j1 [y1 [HB1 [Hmax1 [[Hq1 Hmin1] [Hy1 [_ ->]]]]]]]]];
  destruct C2 as [[Hno2 [g2 [Hg2 [Hz2 ->]]]] | [B2 [j2 [y2 [HB2 [Hmax2 [[Hq2 Hmin2] [Hy2 [_ ->]]]]]]]]].
  - f_equal. rewrite (zero_is_root r1 W1 g1 g1 Hg1 Hz1). symmetry. apply (zero_is_root r1 W1 g2 g1); [apply Hset; exact Hg2 | exact Hz2].
  - exfalso. apply (Hno1 B2). apply (finalizing_set_eq r2 r1); assumption.
  - exfalso. apply (Hno2 B1). apply (finalizing_set_eq r1 r2); assumption.
  - pose proof (finalizing_set_eq r2 r1 B2 W2 W1 Hset' HB2) as HB2'.
    pose proof (finalizing_set_eq r1 r2 B1 W1 W2 Hset HB1) as HB1'.
    assert (Hn : b_num B1 = b_num B2). { pose proof (Hmax1 B2 HB2'). pose proof (Hmax2 B1 HB1'). lia. }
    assert (HB : B1 = B2).
    { destruct (Hcons B1 B2 HB1 HB2') as [Hh|Hh].
      - apply (same_number_same_block r1 B1 B2 W1 (proj1 HB1) (proj1 HB2') Hn Hh).
      - symmetry. apply (same_number_same_block r1 B2 B1 W1 (proj1 HB2') (proj1 HB1) (eq_sym Hn) Hh). }
    subst B2.
    pose proof (chain_of_set_eq r1 r2 (b_id B1) W1 W2 Hset) as Ech.
    unfold q_epoch in *. rewrite <- Ech in Hq2, Hmin2.
    assert (Hj : j1 = j2).
    { destruct (N.lt_trichotomy j1 j2) as [Hlt|[E|Hgt]]; [|exact E|].
      - specialize (Hmin2 j1 Hlt). lia.
      - specialize (Hmin1 j2 Hgt). lia. }
    subst j2. unfold block_at in *. rewrite <- Ech in Hy2. rewrite Hy1 in Hy2. inversion Hy2. reflexivity.
Qed.

(* ---------------------------------------------------------------- stability when a fresh block is stored *)

Lemma finalizing_fresh b r B : wf_repo (b :: r) -> In B r -> (finalizing (b :: r) B <-> finalizing r B).
Proof.
  intros Hwf Hin. unfold finalizing. rewrite chain_of_fresh.
  - split; intros [H1 H2]; (split; [|exact H2]); [exact Hin | right; exact Hin].
  - cbn in Hwf. destruct Hwf as [_ [Hf _]]. intros E. rewrite E, (known_in r B Hin) in Hf. discriminate.
Qed.

Lemma fresh_ne b r B : wf_repo (b :: r) -> In B r -> b_id b <> b_id B.
Proof. intros Hwf Hin E. cbn in Hwf. destruct Hwf as [_ [Hf _]]. rewrite E, (known_in r B Hin) in Hf. discriminate. Qed.

(* the per-epoch qualities of an ancestor store point are those of the descendant's chain *)
Lemma q_epoch_ancestor r b B k kB : wf_repo r -> In b r -> In B r -> has_block r (b_id b) (b_id B) = true ->
  b_num B = kB * L + L - 1 -> k <= kB -> q_epoch c r (b_id B) k = q_epoch c r (b_id b) k.
Proof.
  intros Hwf Hb HB Hh HnB Hk. pose proof (chain_of_stored r b Hwf Hb) as Fb.
  destruct (chain_of_known r Hwf _ _ Fb) as [t [Ht Hg]].
  unfold has_block, chain_has in Hh. change (idnum (b_id B)) with (b_num B) in Hh.
  rewrite at_num_suffix in Hh. destruct (suffix_at (b_num B) (chain_of r (b_id b))) as [|z l2] eqn:Es; [discriminate|].
  apply N.eqb_eq in Hh.
  destruct (suffix_at_split (chain_of r (b_id b)) (b_num B)) as [l1 Esplit]. rewrite Es in Esplit.
  pose proof (chain_suffix r Hwf (b_id b) l1 z l2 Esplit) as Hz. rewrite Hh in Hz.
  unfold q_epoch. rewrite Hz, <- Es.
  assert (Hle : b_num B <= b_num b).
  { pose proof (suffix_at_head _ _ _ _ Es) as Hzn.
    assert (Hzin : In z (chain_of r (b_id b))) by (rewrite Esplit, in_app_iff; right; left; reflexivity).
    rewrite Ht in Hzin. destruct Hzin as [<-|Hzin]; [lia | pose proof (grounded_nums b t Hg z Hzin); lia]. }
  rewrite (suffix_at_comp (chain_of r (b_id b)) ltac:(rewrite Ht; exact Hg) b t Ht (k * L + L - 1) (b_num B)); [reflexivity | rewrite HnB; nia | exact Hle].
Qed.
End Order.
