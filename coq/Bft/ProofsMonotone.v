(* Bft/ProofsMonotone.v — the single-node clause of C03: along any import history every new finalized checkpoint is a
   descendant-or-equal of the previous one, and every block the node stores descends from the finalized checkpoint of
   that moment (blocks that do not are refused by Accepts). *)
From Coq Require Import List NArith ZArith Bool Lia.
From Coq Require Import ZifyN ZifyNat ZifyBool.
From Verif Require Import Common.Util Bft.Tree Bft.Model Bft.Quorum Bft.ProofsTally Bft.ProofsChain Bft.ProofsSuffix
  Bft.ProofsNode Bft.ProofsFinal.
Import ListNotations.
Open Scope N_scope.

(* ---------------------------------------------------------------- more chain facts *)

Lemma at_num_skip l1 : forall x l2 n, grounded (l1 ++ x :: l2) -> n <= b_num x ->
  at_num (l1 ++ x :: l2) n = at_num (x :: l2) n.
Proof.
  induction l1 as [|y l1 IH]; intros x l2 n Hg Hn; [reflexivity|].
  cbn [app] in *. unfold at_num. cbn [find].
  assert (Hlt : b_num x < b_num y). { apply (grounded_nums y (l1 ++ x :: l2) Hg). rewrite in_app_iff. right. left. reflexivity. }
  assert (E : (b_num y =? n) = false) by (apply N.eqb_neq; lia). rewrite E.
  apply IH; [|exact Hn]. destruct (l1 ++ x :: l2) as [|p t] eqn:Ep; [destruct l1; discriminate|].
  exact (grounded_tail _ _ _ Hg).
Qed.

Lemma chain_last r : wf_repo r -> forall id x d, find_blk r id = Some x -> last (chain_of r id) d = last r d.
Proof.
  induction r as [|b r IH]; intros Hwf id x d Hf; [discriminate|].
  cbn in Hwf. destruct Hwf as [Hwf [Hfresh Hpar]].
  unfold find_blk in Hf. cbn [find] in Hf. cbn [chain_of]. destruct (b_id b =? id) eqn:E.
  - destruct r as [|r0 rr]; [reflexivity|].
    destruct Hpar as [p [Hp _]]. destruct (chain_of_known (r0 :: rr) Hwf _ _ Hp) as [t [Ht _]].
    rewrite Ht. change (last (b :: p :: t) d) with (last (p :: t) d). rewrite <- Ht. rewrite (IH Hwf _ p d Hp). reflexivity.
  - destruct r as [|r0 rr]; [discriminate|]. rewrite (IH Hwf _ x d Hf). reflexivity.
Qed.

(* on a grounded chain the only block with number 0 is the last one *)
Lemma grounded_zero_last ch : grounded ch -> forall x, In x ch -> b_num x = 0 -> forall d, last ch d = x.
Proof.
  induction ch as [|b t IH]; intros Hg x Hin H0 d; [destruct Hin|].
  destruct t as [|p t'].
  - destruct Hin as [<-|[]]. reflexivity.
  - pose proof Hg as Hg0. cbn in Hg. destruct Hg as [_ [Hn Hgt]].
    destruct Hin as [<-|Hin]; [lia|]. change (last (b :: p :: t') d) with (last (p :: t') d). exact (IH Hgt x Hin H0 d).
Qed.

Lemma last_in {A} (l : list A) d : l <> [] -> In (last l d) l.
Proof.
  induction l as [|a l IH]; [contradiction|]. intros _. destruct l as [|b l']; [left; reflexivity|].
  right. apply IH. discriminate.
Qed.

Section Mono.
Variable c : cfg.
Hypothesis HL : 0 < c_L c.
Notation L := (c_L c).

(* finalized is a stored block; when its number is 0 it is the root *)
Definition fin_ok (nd : node) : Prop :=
  (exists f, find_blk (n_repo nd) (e_fin (n_eng nd)) = Some f) /\
  (idnum (e_fin (n_eng nd)) = 0 -> forall d, e_fin (n_eng nd) = b_id (last (n_repo nd) d)).

(* a block with number 0 is on every chain of a well-formed repository exactly when it is the root *)
Lemma root_on_chain r id x : wf_repo r -> find_blk r id = Some x -> forall d, has_block r id (b_id (last r d)) = true.
Proof.
  intros Hwf Hf d. destruct (chain_of_known r Hwf _ _ Hf) as [t [Ht Hg]].
  assert (Hlast : last (chain_of r id) d = last r d) by (apply (chain_last r Hwf id x d Hf)).
  assert (Hr0 : b_num (last r d) = 0).
  { rewrite <- Hlast, Ht. clear Ht Hlast Hf. revert x Hg. induction t as [|p t IH]; intros x Hg; [exact Hg|].
    cbn in Hg. destruct Hg as [_ [_ Hg]]. change (last (x :: p :: t) d) with (last (p :: t) d). exact (IH p Hg). }
  unfold has_block, chain_has. change (idnum (b_id (last r d))) with (b_num (last r d)). rewrite Hr0, Ht.
  destruct (suffix_at_exists (x :: t) Hg x t eq_refl 0 ltac:(lia)) as [y [l2 [Hs Hy]]].
  rewrite at_num_suffix, Hs.
  assert (Hyin : In y (x :: t)). { destruct (suffix_at_split (x :: t) 0) as [l1 E]. rewrite Hs in E. rewrite E, in_app_iff. right. left. reflexivity. }
  rewrite <- (grounded_zero_last (x :: t) Hg y Hyin Hy d). rewrite <- Ht, Hlast. apply N.eqb_refl.
Qed.

(* if `old` is on the chain of head, it is on the chain of every block of that chain at or above old's number *)
Lemma has_block_inner r head x old : wf_repo r -> In x (chain_of r head) -> idnum old <= b_num x ->
  (exists hb, find_blk r head = Some hb) -> has_block r head old = true -> has_block r (b_id x) old = true.
Proof.
  intros Hwf Hin Hle [hb Hhb] Hh. destruct (chain_of_known r Hwf _ _ Hhb) as [t [Ht Hg]].
  destruct (in_split _ _ Hin) as [l1 [l2 E]].
  unfold has_block, chain_has in *. rewrite (chain_suffix r Hwf head l1 x l2 E).
  rewrite E in Hh. rewrite at_num_skip in Hh; [exact Hh | rewrite <- E, Ht; exact Hg | exact Hle].
Qed.

Lemma has_block_self r x : wf_repo r -> In x r -> has_block r (b_id x) (b_id x) = true.
Proof.
  intros Hwf Hin. pose proof (chain_of_stored r x Hwf Hin) as Hf.
  destruct (chain_of_known r Hwf _ _ Hf) as [t [Ht _]]. unfold has_block, chain_has, at_num. rewrite Ht. cbn [find].
  change (idnum (b_id x)) with (b_num x). rewrite N.eqb_refl. apply N.eqb_refl.
Qed.

(* the accepted path *)
Theorem add_and_commit_monotone guard nd b :
  inv c nd -> fin_ok nd -> known (n_repo nd) (b_id b) = false -> known (n_repo nd) (b_parent b) = true ->
  valid_child (n_repo nd) b -> accepts (n_repo nd) (n_eng nd) (b_parent b) = true ->
  let nd' := fst (add_and_commit guard c nd b false) in
  has_block (n_repo nd') (b_id b) (e_fin (n_eng nd)) = true /\
  has_block (n_repo nd') (e_fin (n_eng nd')) (e_fin (n_eng nd)) = true /\ fin_ok nd'.
Proof.
  intros Hi [[f Hf] Hroot] Hfresh Hpk Hvc Hacc.
  pose proof (add_and_commit_inv c HL guard nd b false Hi Hfresh Hpk Hvc) as Hi'.
  destruct Hi as [Hwf Hqs Hbest Hmax]. pose proof (inv_wf c _ Hi') as Hwf'.
  apply known_find in Hpk. destruct Hpk as [p Hp]. pose proof (Hvc p Hp) as Hn.
  destruct (find_blk_id _ _ _ Hp) as [Hpid Hpin]. destruct (find_blk_id _ _ _ Hf) as [Hfid Hfin].
  set (r := n_repo nd) in *. set (e := n_eng nd) in *.
  cbv zeta. unfold add_and_commit in *. fold r e in Hwf' |- *.
  pose proof (commit_block_finalized guard c (b :: r) e b false) as Hmove.
  destruct (commit_block guard c (b :: r) e b false) as [e' err] eqn:Ecb. unfold fin_ok. cbn [fst n_repo n_eng] in *.
  assert (Hbne : b_id b <> b_parent b).
  { intros E. apply known_in in Hpin. rewrite Hpid, <- E in Hpin. rewrite Hpin in Hfresh. discriminate. }
  assert (Hfb : find_blk (b :: r) (b_id b) = Some b) by (unfold find_blk; cbn [find]; rewrite N.eqb_refl; reflexivity).
  assert (Hchain : chain_of (b :: r) (b_id b) = b :: chain_of r (b_parent b)) by apply chain_of_head.
  destruct (chain_of_known r Hwf _ _ Hp) as [t [Ht Hgt]].
  (* the new block descends from finalized *)
  assert (Hdesc : has_block (b :: r) (b_id b) (e_fin e) = true).
  { destruct (N.eq_dec (idnum (e_fin e)) 0) as [E0|E0].
    - rewrite (Hroot E0 b). replace (last r b) with (last (b :: r) b) by (destruct r; [discriminate | reflexivity]).
      apply (root_on_chain (b :: r) (b_id b) b Hwf' Hfb).
    - unfold accepts in Hacc. apply N.eqb_neq in E0. rewrite E0 in Hacc. cbn [negb] in Hacc.
      unfold has_block, chain_has in *. rewrite Hchain. unfold at_num in *. cbn [find].
      destruct (find (fun x => b_num x =? idnum (e_fin e)) (chain_of r (b_parent b))) as [y|] eqn:Ey; [|discriminate].
      destruct (find_some _ _ Ey) as [Hyin Hynum]. apply N.eqb_eq in Hynum.
      assert (Hylt : b_num y <= b_num p).
      { rewrite Ht in Hyin. destruct Hyin as [<-|Hyin]; [lia|]. pose proof (grounded_nums p t Hgt y Hyin). lia. }
      assert (E : (b_num b =? idnum (e_fin e)) = false) by (apply N.eqb_neq; lia). rewrite E. exact Hacc. }
  split; [exact Hdesc|].
  assert (Hfin' : In f (b :: r)) by (right; exact Hfin).
  destruct Hmove as [Hsame | [x [Hin [Hx Hle]]]].
  - rewrite Hsame. split.
    + rewrite <- Hfid. apply has_block_self; assumption.
    + split.
      * exists f. unfold find_blk. cbn [find]. destruct (b_id b =? e_fin e) eqn:E; [|exact Hf].
        apply N.eqb_eq in E. apply known_in in Hfin. rewrite Hfid, <- E in Hfin. rewrite Hfin in Hfresh. discriminate.
      * intros E0 d. rewrite (Hroot E0 d). destruct r; [discriminate | reflexivity].
  - rewrite Hx. split.
    + apply (has_block_inner (b :: r) (b_id b) x (e_fin e) Hwf' Hin Hle); [exists b; exact Hfb | exact Hdesc].
    + split.
      * exists x. apply (chain_of_stored (b :: r) x Hwf'). exact (chain_incl _ _ _ Hin).
      * change (idnum (b_id x)) with (b_num x). intros E0 d.
        destruct (chain_of_known (b :: r) Hwf' _ _ Hfb) as [t' [Ht' Hg']].
        rewrite Ht' in Hin. rewrite <- (grounded_zero_last (b :: t') Hg' x Hin E0 d). rewrite <- Ht'.
        rewrite (chain_last (b :: r) Hwf' (b_id b) b d Hfb). reflexivity.
Qed.

(* one import step *)
Theorem import_monotone guard nd b : inv c nd -> fin_ok nd -> valid_child (n_repo nd) b ->
  let nd' := fst (import guard c nd b) in
  has_block (n_repo nd') (e_fin (n_eng nd')) (e_fin (n_eng nd)) = true /\ fin_ok nd' /\
  (known (n_repo nd) (b_id b) = false -> known (n_repo nd') (b_id b) = true ->
   has_block (n_repo nd') (b_id b) (e_fin (n_eng nd)) = true).
Proof.
  intros Hi Hfo Hvc. pose proof Hfo as [[f Hf] _]. destruct (find_blk_id _ _ _ Hf) as [Hfid Hfin].
  assert (Hrefl : has_block (n_repo nd) (e_fin (n_eng nd)) (e_fin (n_eng nd)) = true).
  { rewrite <- Hfid. apply has_block_self; [exact (inv_wf c _ Hi) | exact Hfin]. }
  unfold import. destruct (known (n_repo nd) (b_id b)) eqn:Ek.
  - cbn [fst]. split; [exact Hrefl | split; [exact Hfo | discriminate]].
  - destruct (known (n_repo nd) (b_parent b)) eqn:Ep; cbn [negb].
    + destruct (accepts (n_repo nd) (n_eng nd) (b_parent b)) eqn:Ea; cbn [negb].
      * destruct (add_and_commit_monotone guard nd b Hi Hfo Ek Ep Hvc Ea) as [H1 [H2 H3]].
        split; [exact H2 | split; [exact H3 | intros _ _; exact H1]].
      * cbn [fst]. split; [exact Hrefl | split; [exact Hfo |]]. intros _ H. rewrite Ek in H. discriminate.
    + cbn [fst]. split; [exact Hrefl | split; [exact Hfo |]]. intros _ H. rewrite Ek in H. discriminate.
Qed.

Lemma init_fin_ok g master : fin_ok (init_node g master).
Proof.
  split; cbn.
  - exists g. unfold find_blk. cbn. rewrite N.eqb_refl. reflexivity.
  - intros _ d. reflexivity.
Qed.

(* along a whole history: the list of (repository, finalized) after each import *)
Fixpoint fin_trace (guard : bool) (nd : node) (bs : list blk) : list (repo * N) :=
  match bs with
  | [] => []
  | b :: t => let nd' := fst (import guard c nd b) in (n_repo nd', e_fin (n_eng nd')) :: fin_trace guard nd' t
  end.

Fixpoint monotone_from (prev : N) (tr : list (repo * N)) : Prop :=
  match tr with
  | [] => True
  | (r, fin) :: t => has_block r fin prev = true /\ monotone_from fin t
  end.

Theorem finalized_monotone_lemma guard bs : forall nd, inv c nd -> fin_ok nd ->
  (forall nd' b, inv c nd' -> In b bs -> valid_child (n_repo nd') b) ->
  monotone_from (e_fin (n_eng nd)) (fin_trace guard nd bs).
Proof.
  induction bs as [|b t IH]; intros nd Hi Hfo Hv; [exact I|].
  cbn [fin_trace monotone_from].
  assert (Hvc : valid_child (n_repo nd) b) by (apply Hv; [exact Hi | left; reflexivity]).
  destruct (import_monotone guard nd b Hi Hfo Hvc) as [H1 [H2 _]].
  split; [exact H1|]. apply IH; [apply import_inv; assumption | exact H2 |].
  intros nd' b' Hi' Hin. apply Hv; [exact Hi' | right; exact Hin].
Qed.
End Mono.
