(* Bft/ProofsOrder4.v — the value Justified() computes is a function of (stored set, best, finalized): two engines over
   the same set of blocks with equal best and finalized, whose one-entry cache is empty (e.g. after a restart), return
   the same answer.  (The cache is keyed by the store-point id only; its coherence with a moved finalized is not proved.) *)
From Coq Require Import List NArith ZArith Bool Lia.
From Coq Require Import ZifyN ZifyNat ZifyBool.
From Verif Require Import Common.Util Bft.Tree Bft.Model Bft.Quorum Bft.ProofsTally Bft.ProofsChain Bft.ProofsNode
  Bft.ProofsFinal Bft.ProofsCommit Bft.ProofsOrder.
Import ListNotations.
Open Scope N_scope.

Lemma bsearch_ext f g : (forall k, f k = g k) -> forall fuel i j, bsearch fuel f i j = bsearch fuel g i j.
Proof.
  intros H. induction fuel as [|fuel IH]; intros i j; [reflexivity|]. cbn [bsearch].
  destruct (i <? j); [|reflexivity]. rewrite H. destruct (g ((i + j) / 2)) as [[|]|e]; [apply IH | apply IH | reflexivity].
Qed.

Section Order4.
Variable c : cfg.
Hypothesis HL : 0 < c_L c.
Notation L := (c_L c).

Lemma storepoint_idem n : storepoint L (storepoint L n) = storepoint L n.
Proof. unfold storepoint at 2. unfold checkpoint. apply storepoint_store. exact HL. Qed.

Lemma quality_at_set_eq r1 r2 qs1 qs2 head m :
  wf_repo r1 -> wf_repo r2 -> (forall x, In x r1 <-> In x r2) -> qs_ok c r1 qs1 -> qs_ok c r2 qs2 ->
  quality_at r1 qs1 head (storepoint L m) = quality_at r2 qs2 head (storepoint L m).
Proof.
  intros W1 W2 Hset Q1 Q2. unfold quality_at, block_at. rewrite (chain_of_set_eq r1 r2 head W1 W2 Hset).
  destruct (at_num (chain_of r2 head) (storepoint L m)) as [x|] eqn:E; [|reflexivity].
  unfold at_num in E. destruct (find_some _ _ E) as [Hin Hn]. apply N.eqb_eq in Hn.
  pose proof (chain_incl _ _ _ Hin) as Hin2. pose proof (proj2 (Hset x) Hin2) as Hin1.
  assert (Hsp : storepoint L (b_num x) = b_num x) by (rewrite Hn; apply storepoint_idem).
  rewrite (Q1 x Hin1 Hsp), (Q2 x Hin2 Hsp). unfold qual. rewrite (chain_of_set_eq r1 r2 (b_id x) W1 W2 Hset). reflexivity.
Qed.

Lemma find_cp_set_eq r1 r2 qs1 qs2 target fin head :
  wf_repo r1 -> wf_repo r2 -> (forall x, In x r1 <-> In x r2) -> qs_ok c r1 qs1 -> qs_ok c r2 qs2 ->
  find_cp c r1 qs1 target fin head = find_cp c r2 qs2 target fin head.
Proof.
  intros W1 W2 Hset Q1 Q2. unfold find_cp. destruct (idnum head <? idnum fin); [reflexivity|].
  rewrite (bsearch_ext _ (fun i => match quality_at r2 qs2 head (storepoint L (idnum fin + i * L)) with
                                   | Ok q => Ok (target <=? q) | Err e => Err e end)).
  2:{ intros k. rewrite (quality_at_set_eq r1 r2 qs1 qs2 head _ W1 W2 Hset Q1 Q2). reflexivity. }
  destruct (bsearch _ _ _ _) as [num|e]; [|reflexivity].
  destruct (num =? _); [reflexivity|].
  rewrite (quality_at_set_eq r1 r2 qs1 qs2 head _ W1 W2 Hset Q1 Q2).
  destruct (quality_at r2 qs2 head _) as [q|e]; [|reflexivity].
  destruct (negb (q =? target)); [reflexivity|]. unfold block_at. rewrite (chain_of_set_eq r1 r2 head W1 W2 Hset). reflexivity.
Qed.

Theorem justified_set_eq r1 r2 e1 e2 best :
  wf_repo r1 -> wf_repo r2 -> (forall x, In x r1 <-> In x r2) -> qs_ok c r1 (e_qs e1) -> qs_ok c r2 (e_qs e2) ->
  e_fin e1 = e_fin e2 -> e_jc e1 = None -> e_jc e2 = None ->
  snd (justified c r1 e1 best) = snd (justified c r2 e2 best).
Proof.
  intros W1 W2 Hset Q1 Q2 Hfin J1 J2. unfold justified, justified_gen. rewrite J1, J2, Hfin.
  destruct (b_num best <? L - 1); [reflexivity|].
  set (conc := if b_num best <? storepoint L (b_num best) then checkpoint L (b_num best) - L else checkpoint L (b_num best)).
  unfold block_at. rewrite (chain_of_set_eq r1 r2 (b_id best) W1 W2 Hset).
  destruct (at_num (chain_of r2 (b_id best)) (storepoint L conc)) as [sb|] eqn:E; [|reflexivity].
  unfold at_num in E. destruct (find_some _ _ E) as [Hin Hn]. apply N.eqb_eq in Hn.
  pose proof (chain_incl _ _ _ Hin) as Hin2. pose proof (proj2 (Hset sb) Hin2) as Hin1.
  assert (Hsp : storepoint L (b_num sb) = b_num sb) by (rewrite Hn; apply storepoint_idem).
  assert (Hq : get_q (e_qs e1) (b_id sb) = get_q (e_qs e2) (b_id sb)).
  { rewrite (Q1 sb Hin1 Hsp), (Q2 sb Hin2 Hsp). unfold qual. rewrite (chain_of_set_eq r1 r2 (b_id sb) W1 W2 Hset). reflexivity. }
  rewrite Hq. destruct (get_q (e_qs e2) (b_id sb) =? 0); [reflexivity|].
  rewrite (find_cp_set_eq r1 r2 (e_qs e1) (e_qs e2) _ (e_fin e2) (b_id sb) W1 W2 Hset Q1 Q2).
  destruct (find_cp c r2 (e_qs e2) _ _ _); reflexivity.
Qed.
End Order4.
