(* Bft/ProofsWitness2.v — concrete runs for the run-level safety statements:
   SIB: two sibling epochs (same parent epoch, conflicting checkpoints 4X / 4Y) are both committed with quality 2 by the
        same honest validators in a valid run with one Byzantine validator of four: the statement
        "committed epochs of equal quality have non-conflicting checkpoints" is false of the vote rule as coded (both votes
        are allowed because each checkpoint descends from the most recent justified checkpoint); what is safe is what gets
        FINALIZED (the quality-1 checkpoint, here genesis for both).
   F4 facts: the F4 run satisfies the visibility premise and exhibits the shape the gap theorems predict. *)
From Coq Require Import List NArith Bool Lia.
From Verif Require Import Common.Util Bft.Tree Bft.Model Bft.Quorum Bft.Safety Bft.ProofsWitness Bft.ProofsChain
  Bft.ProofsFind Bft.ProofsOrder Bft.ProofsSafety Bft.ProofsFast Bft.ProofsRun Bft.ProofsLink Bft.ProofsGap.
Import ListNotations.
Open Scope N_scope.

Definition sx4 := bk 4 3 1 1 true 13.  Definition sx5 := bk 5 3 3 2 true 14.
Definition sx6 := bk 6 3 3 4 true 15.  Definition sx7 := bk 7 3 3 4 true 16.
Definition sy4 := bk 4 2 1 4 true 16.  Definition sy5 := bk 5 2 2 1 true 17.
Definition sy6 := bk 6 2 2 2 true 18.  Definition sy7 := bk 7 2 2 4 true 19.
Definition sib_run : list event :=
  [ P 0%nat c1; I 1%nat c1; I 2%nat c1; P 1%nat c2; I 0%nat c2; I 2%nat c2; P 2%nat c3; I 0%nat c3; I 1%nat c3;
    P 0%nat sx4; I 1%nat sx4; P 1%nat sx5; I 0%nat sy4; P 0%nat sy5; I 1%nat sy4; I 1%nat sy5; P 1%nat sy6;
    I 2%nat sx4; I 2%nat sx5; I 2%nat sx6; I 2%nat sx7; I 2%nat sy4; I 2%nat sy5; I 2%nat sy6; I 2%nat sy7 ].

(* fast evaluation of the visibility premise *)
Definition votes_visible_at2 (c : cfg) (nd : node) : bool :=
  let r := n_repo nd in let e := n_eng nd in
  let hq := s_q (state_fast c (chain_of r (b_id (best_blk nd)))) in
  forallb (fun x => negb (b_signer x =? e_master e) || negb (hq - 1 <=? s_q (state_fast c (chain_of r (b_id x)))) ||
                    (idnum (e_fin e) <=? b_num x)) r.
Fixpoint votes_visible_b2 (c : cfg) (w : list node) (evs : list event) : bool :=
  match evs with
  | [] => true
  | ev :: t =>
      match ev with
      | EPropose i b => match nth_error w i with Some nd => votes_visible_at2 c nd | None => true end
      | _ => true
      end && votes_visible_b2 c (step_plain true c w ev) t
  end.
Lemma forallb_ext' {A} (f g : A -> bool) l : (forall x, f x = g x) -> forallb f l = forallb g l.
Proof. intros H. induction l as [|x l IH]; [reflexivity|]. cbn. rewrite H, IH. reflexivity. Qed.
Lemma votes_visible_fast c evs : forall w, votes_visible_b c w evs = votes_visible_b2 c w evs.
Proof.
  induction evs as [|ev t IH]; intros w; [reflexivity|]. cbn [votes_visible_b votes_visible_b2]. rewrite IH. f_equal.
  destruct ev as [i b|i b|i]; try reflexivity. destruct (nth_error w i) as [nd|]; [|reflexivity].
  unfold votes_visible_at, votes_visible_at2, Verif.Bft.ProofsNode.qual. cbv zeta. rewrite quality_pure_fast.
  apply forallb_ext'. intros x. rewrite quality_pure_fast. reflexivity.
Qed.

Lemma sib_valid : valid_run_b true cfg4 [4] f4_world [gen] sib_run = true.
Proof. vm_compute. reflexivity. Qed.

Lemma sib_root : known (seen_after [gen] sib_run) (b_parent gen) = false.
Proof. vm_compute. reflexivity. Qed.

Lemma sib_visible : votes_visible_b cfg4 f4_world sib_run = true.
Proof. rewrite votes_visible_fast. vm_compute. reflexivity. Qed.

Lemma sib_committed :
  In sx7 (seen_after [gen] sib_run) /\ In sy7 (seen_after [gen] sib_run) /\
  state_pure cfg4 (chain_of (seen_after [gen] sib_run) (b_id sx7)) = mkS 2 true true /\
  state_pure cfg4 (chain_of (seen_after [gen] sib_run) (b_id sy7)) = mkS 2 true true /\
  block_at (seen_after [gen] sib_run) (b_id sx7) (checkpoint 4 (b_num sx7)) = Some sx4 /\
  block_at (seen_after [gen] sib_run) (b_id sy7) (checkpoint 4 (b_num sy7)) = Some sy4 /\
  conflict (seen_after [gen] sib_run) (b_id sx4) (b_id sy4) = true.
Proof.
  assert (H : forall l x, existsb (blk_eqb x) l = true -> In x l).
  { intros l x E. apply existsb_exists in E. destruct E as [y [Hy E]]. rewrite (Verif.Bft.ProofsTree2.blk_eqb_eq x y E). exact Hy. }
  split; [apply H; vm_compute; reflexivity|]. split; [apply H; vm_compute; reflexivity|].
  rewrite !state_pure_fast. vm_compute. repeat split; reflexivity.
Qed.

Lemma in_by_eqb l x : existsb (blk_eqb x) l = true -> In x l.
Proof. intros E. apply existsb_exists in E. destruct E as [y [Hy E]]. rewrite (Verif.Bft.ProofsTree2.blk_eqb_eq x y E). exact Hy. Qed.

Lemma cfg4_side : NoDup [1;2;3] /\ NoDup [4] /\ (forall m, In m [1;2;3] -> ~ In m [4]) /\
  3 * N.of_nat (length [4]) < c_mbp cfg4 /\ N.of_nat (length [1;2;3] + length [4]) <= c_mbp cfg4.
Proof.
  split; [repeat constructor; cbn; intuition discriminate|]. split; [repeat constructor; cbn; tauto|].
  split; [intros m Hm Hb4; cbn in Hm, Hb4; destruct Hb4 as [<-|[]]; intuition discriminate|].
  split; [vm_compute; reflexivity | vm_compute; discriminate].
Qed.

Theorem same_quality_commit_exclusive_refuted_lemma : ~ same_quality_commit_exclusive_statement true.
Proof.
  intros H. destruct cfg4_side as [N1 [N2 [D [T S]]]].
  destruct sib_committed as [I1 [I2 [S1 [S2 [C1 [C2 Hc]]]]]].
  specialize (H cfg4 gen [1;2;3] [4] sib_run ltac:(reflexivity) eq_refl eq_refl N1 N2 D T S sib_valid). cbv zeta in H.
  specialize (H sx7 sy7 sx4 sy4 I1 I2). rewrite S1, S2 in H. specialize (H eq_refl eq_refl).
  unfold quality_pure in H. rewrite S1, S2 in H. specialize (H eq_refl C1 C2). rewrite Hc in H. discriminate H.
Qed.

(* the sibling run as an instance of the gap-0 theorem: both committed epochs finalize genesis *)
Lemma sib_gap0_instance :
  let t := seen_after [gen] sib_run in
  finalizing cfg4 t sx7 /\ finalizing cfg4 t sy7 /\ Qof cfg4 t sx7 = Qof cfg4 t sy7 /\
  first_epoch cfg4 t sx7 0 /\ block_at t (b_id sx7) (0 * 4) = Some gen /\
  first_epoch cfg4 t sy7 0 /\ block_at t (b_id sy7) (0 * 4) = Some gen.
Proof.
  cbv zeta. destruct sib_committed as [I1 [I2 [S1 [S2 _]]]].
  assert (F1 : finalizing cfg4 (seen_after [gen] sib_run) sx7).
  { split; [exact I1|]. split; [vm_compute; reflexivity|]. unfold quality_pure. rewrite S1. split; [reflexivity | vm_compute; reflexivity]. }
  assert (F2 : finalizing cfg4 (seen_after [gen] sib_run) sy7).
  { split; [exact I2|]. split; [vm_compute; reflexivity|]. unfold quality_pure. rewrite S2. split; [reflexivity | vm_compute; reflexivity]. }
  split; [exact F1|]. split; [exact F2|]. unfold Qof, quality_pure. rewrite S1, S2. split; [reflexivity|].
  unfold first_epoch, q_epoch. rewrite !quality_pure_fast.
  split; [split; [vm_compute; reflexivity | intros k Hk; lia]|]. split; [vm_compute; reflexivity|].
  split; [split; [vm_compute; reflexivity | intros k Hk; lia] | vm_compute; reflexivity].
Qed.

(* ---------------------------------------------------------------- F4 seen through the gap theorems *)

Lemma f4_root : known (seen_after [gen] f4_run) (b_parent gen) = false.
Proof. vm_compute. reflexivity. Qed.

Lemma f4_visible : votes_visible_b cfg4 f4_world f4_run = true.
Proof. rewrite votes_visible_fast. vm_compute. reflexivity. Qed.

Lemma f4_gap_instance :
  let t := seen_after [gen] f4_run in
  finalizing cfg4 t x11 /\ finalizing cfg4 t y19 /\ Qof cfg4 t x11 = 3 /\ Qof cfg4 t y19 = 5 /\
  first_epoch cfg4 t x11 1 /\ block_at t (b_id x11) (1 * 4) = Some x4 /\
  first_epoch cfg4 t y19 3 /\ block_at t (b_id y19) (3 * 4) = Some y12.
Proof.
  cbv zeta. unfold finalizing, first_epoch, q_epoch, Qof. rewrite !state_pure_fast, !quality_pure_fast.
  split; [split; [apply in_by_eqb; vm_compute; reflexivity | vm_compute; repeat split; reflexivity]|].
  split; [split; [apply in_by_eqb; vm_compute; reflexivity | vm_compute; repeat split; reflexivity]|].
  split; [vm_compute; reflexivity|]. split; [vm_compute; reflexivity|].
  split; [split; [vm_compute; reflexivity|]|].
  { intros k Hk. assert (k = 0) by lia. subst k. rewrite quality_pure_fast. vm_compute. reflexivity. }
  split; [vm_compute; reflexivity|].
  split; [split; [vm_compute; reflexivity|] | vm_compute; reflexivity].
  intros k Hk. assert (Hc : k = 0 \/ k = 1 \/ k = 2) by lia. destruct Hc as [-> | [-> | ->]]; rewrite quality_pure_fast; vm_compute; reflexivity.
Qed.

(* ---------------------------------------------------------------- the single-node clause, one Byzantine validator of four *)
(* the F4 history until 18Y; then node 0 (v1, best block 18Y) imports 10X and 11X: the import finalizes 4X while the best
   block stays on Y (higher quality); its own proposal of the store point 19Y (no Accepts test in proposeAndCommit) then
   finalizes 12Y, which conflicts with 4X: finalized does not move along its own ancestry on ONE honest node. *)
Definition y19own := bk 19 4 2 1 true 70.
Definition f17_prefix : list event :=
  [ P 0%nat c1; I 1%nat c1; I 2%nat c1; P 1%nat c2; I 0%nat c2; I 2%nat c2; P 2%nat c3; I 0%nat c3; I 1%nat c3;
    P 0%nat y4; I 1%nat y4; P 1%nat y5;
    P 2%nat x4; I 0%nat x4; P 0%nat x5; I 2%nat x5; I 2%nat x6; P 2%nat x7; P 2%nat x8;
    I 0%nat x6; I 0%nat x7; I 0%nat x8; P 0%nat x9;
    I 1%nat x4; I 1%nat x5; I 1%nat x6; I 1%nat x7; I 1%nat x8; I 1%nat x9; I 1%nat x10; P 1%nat x11;
    I 0%nat y5; I 0%nat y6; I 0%nat y7; P 0%nat y8;
    I 2%nat y4; I 2%nat y5; I 2%nat y6; I 2%nat y7; I 2%nat y8; I 2%nat x9; P 2%nat y9;
    I 0%nat y9; I 0%nat y10; I 0%nat y11; P 0%nat y12;
    I 2%nat y10; I 2%nat y11; I 2%nat y12; P 2%nat y13;
    I 0%nat y13; I 0%nat y14; I 0%nat y15; P 0%nat y16;
    I 2%nat y14; I 2%nat y15; I 2%nat y16; P 2%nat y17;
    I 0%nat y17; I 0%nat y18; I 0%nat x10; I 0%nat x11 ].
Definition f17_run : list event := f17_prefix ++ [P 0%nat y19own].

Lemma f17_witness :
  valid_run_b true cfg4 [4] f4_world [gen] f17_run = true /\
  (exists nd, nth_error (world_after cfg4 f4_world f17_prefix) 0 = Some nd /\
              e_fin (n_eng nd) = b_id x4 /\ n_best nd = b_id y18 /\
              has_block (n_repo nd) (n_best nd) (e_fin (n_eng nd)) = false /\ honest_ok cfg4 nd y19own = true) /\
  (exists nd', nth_error (world_after cfg4 f4_world f17_run) 0 = Some nd' /\ e_fin (n_eng nd') = b_id y12 /\
               has_block (n_repo nd') (e_fin (n_eng nd')) (b_id x4) = false) /\
  conflict (seen_after [gen] f17_run) (b_id x4) (b_id y12) = true.
Proof.
  split; [vm_compute; reflexivity|]. split; [eexists; split; [vm_compute; reflexivity | vm_compute; repeat split; reflexivity]|].
  split; [eexists; split; [vm_compute; reflexivity | vm_compute; split; reflexivity] | vm_compute; reflexivity].
Qed.
