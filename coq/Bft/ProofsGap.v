(* Bft/ProofsGap.v — two committed epochs in one valid run (fewer than a third Byzantine; the finalized filter hides no
   own vote inside the quality window): if the checkpoints they finalize conflict, then an honest validator voted COM in
   both epochs and its later COM vote was cast on a head whose quality exceeds the earlier vote's by at least two (the
   earlier vote had dropped out of ShouldVote's `quality >= headQuality-1` window).  Hence equal qualities never give
   conflicting finality (gap 0), and with a gap of one the only possible shape is: earlier vote cast before its epoch was
   justified, later vote cast after the other epoch was justified. *)
From Coq Require Import List NArith ZArith Bool Lia.
From Coq Require Import ZifyN ZifyNat ZifyBool.
From Verif Require Import Common.Util Bft.Tree Bft.Model Bft.Quorum Bft.ProofsTally Bft.ProofsChain Bft.ProofsSuffix
  Bft.ProofsNode Bft.ProofsFinal Bft.ProofsMonotone Bft.ProofsCommit Bft.ProofsFind Bft.ProofsLive Bft.ProofsLive2
  Bft.ProofsOrder Bft.ProofsOrder2 Bft.ProofsVote
  Bft.Safety Bft.ProofsSafety Bft.ProofsTree2 Bft.ProofsCasts Bft.ProofsRun Bft.ProofsLink.
Import ListNotations.
Open Scope N_scope.

Lemma app_decomp {A} (pre1 : list A) : forall pre2 a b post1 post2,
  pre1 ++ a :: post1 = pre2 ++ b :: post2 -> (length pre1 < length pre2)%nat -> exists mid, pre2 = pre1 ++ a :: mid.
Proof.
  induction pre1 as [|x pre1 IH]; intros pre2 a b post1 post2 E Hlt.
  - destruct pre2 as [|y pre2]; [cbn in Hlt; lia|]. cbn in E. inversion E; subst. exists pre2. reflexivity.
  - destruct pre2 as [|y pre2]; [cbn in Hlt; lia|]. cbn in E. inversion E; subst.
    destruct (IH pre2 a b post1 post2 H1 ltac:(cbn in Hlt; lia)) as [mid ->]. exists mid. reflexivity.
Qed.

Lemma app_decomp_eq {A} (pre1 : list A) : forall pre2 a b post1 post2,
  pre1 ++ a :: post1 = pre2 ++ b :: post2 -> length pre1 = length pre2 -> a = b.
Proof.
  induction pre1 as [|x pre1 IH]; intros pre2 a b post1 post2 E Hl; destruct pre2 as [|y pre2]; try discriminate.
  - inversion E. reflexivity.
  - cbn in E. inversion E. apply (IH pre2 a b post1 post2 H1). cbn in Hl. lia.
Qed.

Lemma seen_after_app pre : forall s post, seen_after s (pre ++ post) = seen_after (seen_after s pre) post.
Proof. induction pre as [|ev t IH]; intros s post; [reflexivity|]. destruct ev; cbn [app seen_after]; apply IH. Qed.

Section Gap.
Variable c : cfg.
Hypothesis HL : 0 < c_L c.
Notation L := (c_L c).

(* ---------------------------------------------------------------- tree-level facts about a committed epoch *)

Definition seg (t : repo) (B : blk) : list blk := snd (epoch_info c (chain_of t (b_id B))).
Definition Qof (t : repo) (B : blk) : N := quality_pure c (chain_of t (b_id B)).

Lemma suffix_qual t B s : wf_repo t -> In B t -> In s (chain_of t (b_id B)) ->
  quality_pure c (suffix_at (b_num s) (chain_of t (b_id B))) = qual c t s.
Proof.
  intros Hwf HB Hs. destruct (chain_of_known t Hwf _ _ (find_blk_in t B Hwf HB)) as [tl [Ht Hg]].
  assert (HgC : grounded (chain_of t (b_id B))) by (rewrite Ht; exact Hg).
  pose proof (at_num_self _ HgC s Hs) as Ha. rewrite at_num_suffix in Ha.
  destruct (suffix_at (b_num s) (chain_of t (b_id B))) as [|s' l2] eqn:Es; [discriminate|]. inversion Ha; subst s'.
  destruct (suffix_at_split (chain_of t (b_id B)) (b_num s)) as [l1 E]. rewrite Es in E.
  unfold qual. rewrite (chain_suffix t Hwf _ l1 s l2 E). reflexivity.
Qed.

Lemma q_epoch_block t B s k : wf_repo t -> In B t -> In s (chain_of t (b_id B)) -> b_num s = k * L + L - 1 ->
  q_epoch c t (b_id B) k = qual c t s.
Proof. intros Hwf HB Hs Hn. unfold q_epoch. rewrite <- Hn. apply suffix_qual; assumption. Qed.

Lemma chain_self t B : wf_repo t -> In B t -> In B (chain_of t (b_id B)).
Proof. intros Hwf HB. destruct (chain_of_known t Hwf _ _ (find_blk_in t B Hwf HB)) as [tl [Ht _]]. rewrite Ht. left. reflexivity. Qed.

Lemma chain_num_le t B s : wf_repo t -> In B t -> In s (chain_of t (b_id B)) -> b_num s <= b_num B.
Proof.
  intros Hwf HB Hs. destruct (chain_of_known t Hwf _ _ (find_blk_in t B Hwf HB)) as [tl [Ht Hg]]. rewrite Ht in Hs.
  destruct Hs as [<-|Hs]; [lia | pose proof (grounded_nums B tl Hg s Hs); lia].
Qed.

Section Committed.
Variables (t : repo) (B : blk).
Hypothesis Hwf : wf_repo t.
Hypothesis HB : finalizing c t B.
Let kB := b_num B / L.

Lemma fin_num : b_num B = kB * L + L - 1.
Proof. destruct HB as [_ [Hsp _]]. exact (storepoint_form L HL _ Hsp). Qed.

Lemma fin_in : In B t. Proof. exact (proj1 HB). Qed.

Lemma fin_kB_pos : 1 <= kB.
Proof.
  destruct (N.eq_dec kB 0) as [E|E]; [|lia]. exfalso.
  destruct HB as [Hin [_ [_ HQ]]]. pose proof fin_num as Hn. rewrite E in Hn.
  destruct (chain_of_known t Hwf _ _ (find_blk_in t B Hwf Hin)) as [tl [Ht Hg]].
  pose proof (quality_head c (chain_of t (b_id B))) as Hq.
  rewrite (epoch0_pq c HL (chain_of t (b_id B)) ltac:(rewrite Ht; exact Hg) B tl Ht ltac:(lia)) in Hq.
  destruct (s_just _); lia.
Qed.

(* the block closing the previous epoch carries quality Q - 1 *)
Lemma fin_prev : exists w, In w (chain_of t (b_id B)) /\ b_num w = kB * L - 1 /\ Qof t B = qual c t w + 1.
Proof.
  pose proof fin_num as Hn. pose proof fin_kB_pos as Hk. pose proof fin_in as Hin.
  destruct (block_at_exists t B (kB * L - 1) Hwf Hin ltac:(lia)) as [w [_ [Hwn Hwin]]].
  exists w. split; [exact Hwin|]. split; [exact Hwn|].
  destruct (chain_of_known t Hwf _ _ (find_blk_in t B Hwf Hin)) as [tl [Ht Hg]].
  assert (Hcp : checkpoint L (b_num B) = kB * L) by reflexivity.
  destruct (quality_epoch_step c HL (chain_of t (b_id B)) B tl ltac:(rewrite Ht; exact Hg) Ht ltac:(rewrite Hcp; nia)) as [_ Hs].
  destruct HB as [_ [_ [Hc _]]]. unfold Qof. rewrite (Hs (committed_implies_justified_lemma c _ _ Hc)).
  rewrite Hcp, <- Hwn. rewrite (suffix_qual t B w Hwf Hin Hwin). reflexivity.
Qed.

Lemma seg_facts x : In x (seg t B) -> In x (chain_of t (b_id B)) /\ 0 < b_num x /\ kB * L <= b_num x /\ checkpoint L (b_num x) = kB * L.
Proof.
  intros Hx. pose proof fin_in as Hin.
  destruct (chain_of_known t Hwf _ _ (find_blk_in t B Hwf Hin)) as [tl [Ht Hg]].
  destruct (epoch_segment_in c HL (chain_of t (b_id B)) ltac:(rewrite Ht; exact Hg) x Hx) as [l1 [t2 [E [Hpos Hcp]]]].
  specialize (Hcp B tl Ht). split; [rewrite E, in_app_iff; right; left; reflexivity|]. split; [exact Hpos|].
  assert (Hc : checkpoint L (b_num x) = kB * L) by (rewrite Hcp; reflexivity).
  split; [rewrite <- Hc; apply checkpoint_le; exact HL | exact Hc].
Qed.

Lemma seg_qual x : In x (seg t B) -> Qof t B - 1 <= qual c t x <= Qof t B.
Proof.
  intros Hx. destruct (seg_facts x Hx) as [Hxin [_ [Hge _]]]. pose proof fin_in as Hin.
  destruct fin_prev as [w [Hwin [Hwn HQ]]]. pose proof fin_kB_pos as Hk.
  pose proof (chain_incl _ _ _ Hxin) as Hxt.
  split.
  - assert (Hwx : In w (chain_of t (b_id x))).
    { apply (has_block_iff_in t x w Hwf Hxt (chain_incl _ _ _ Hwin)). apply (chain_members_comparable t B x w Hwf Hin Hxin Hwin). lia. }
    pose proof (qual_ancestor c HL t w x Hwf Hxt Hwx). lia.
  - exact (qual_ancestor c HL t x B Hwf Hin Hxin).
Qed.

Section First.
Variables (j : N) (y : blk).
Hypothesis Hfirst : first_epoch c t B j.
Hypothesis Hy : block_at t (b_id B) (j * L) = Some y.

Lemma first_j_le : j <= kB.
Proof. destruct (block_at_num _ _ _ _ Hy) as [Hyn Hyin]. pose proof (chain_num_le t B y Hwf fin_in Hyin). pose proof fin_num. nia. Qed.

(* the finalized checkpoint is below the checkpoint of every block of the committed epoch *)
Lemma first_below_seg x cpx : In x (seg t B) -> cp_of c t x = Some cpx -> has_block t (b_id cpx) (b_id y) = true.
Proof.
  intros Hx Hcp. destruct (seg_facts x Hx) as [Hxin [_ [_ Hc]]]. pose proof fin_in as Hin.
  unfold cp_of in Hcp. destruct (block_at_num _ _ _ _ Hcp) as [Hcn Hcin].
  destruct (block_at_num _ _ _ _ Hy) as [Hyn Hyin].
  apply (chain_members_comparable t B cpx y Hwf Hin); [exact (chain_in_trans t x B cpx Hwf Hxin Hcin) | exact Hyin|].
  pose proof first_j_le. rewrite Hcn, Hc, Hyn. nia.
Qed.

(* ... and below the most recent justified checkpoint of the parent of every block of the committed epoch *)
Lemma first_below_recent x p rb : In x (seg t B) -> In p t -> b_id p = b_parent x -> recent_spec c t p rb ->
  has_block t (b_id rb) (b_id y) = true /\ In p (chain_of t (b_id B)) /\ Qof t B - 1 <= qual c t p <= qual c t x.
Proof.
  intros Hx Hp Hpid [Hrb [z [Hz [Hzn Hzq]]]].
  destruct (seg_facts x Hx) as [Hxin [Hxpos [Hxge _]]]. pose proof fin_in as Hin. pose proof fin_num as HnB.
  pose proof (chain_incl _ _ _ Hxin) as Hxt.
  assert (Hcx : chain_of t (b_id x) = x :: chain_of t (b_id p)) by (apply chain_step; try assumption; symmetry; exact Hpid).
  assert (Hpx : In p (chain_of t (b_id x))) by (rewrite Hcx; right; apply chain_self; assumption).
  assert (HpB : In p (chain_of t (b_id B))) by exact (chain_in_trans t x B p Hwf Hxin Hpx).
  assert (Hpn : b_num x = b_num p + 1) by (apply (wf_child_num t x p Hwf Hxt Hp Hpid); lia).
  destruct fin_prev as [w [Hwin [Hwn HQ]]]. pose proof fin_kB_pos as Hk.
  assert (Hwp : qual c t w <= qual c t p).
  { apply (qual_ancestor c HL t w p Hwf Hp). apply (has_block_iff_in t p w Hwf Hp (chain_incl _ _ _ Hwin)).
    apply (chain_members_comparable t B p w Hwf Hin HpB Hwin). lia. }
  assert (Hpq : qual c t p <= qual c t x) by exact (qual_ancestor c HL t p x Hwf Hxt Hpx).
  split; [|split; [exact HpB | lia]].
  (* the epoch of rb *)
  assert (HzB : In z (chain_of t (b_id B))) by exact (chain_in_trans t p B z Hwf HpB Hz).
  assert (HrB : In rb (chain_of t (b_id B))) by exact (chain_in_trans t p B rb Hwf HpB Hrb).
  pose proof (chain_num_le t B z Hwf Hin HzB) as HzleB.
  set (kr := b_num z / L) in *. assert (Hkr : b_num rb = kr * L) by (rewrite <- Hzn; reflexivity).
  assert (Hzr : kr * L <= b_num z < kr * L + L).
  { unfold kr. pose proof (N.div_mod (b_num z) L ltac:(lia)). pose proof (N.mod_lt (b_num z) L ltac:(lia)). nia. }
  assert (Hkrle : kr <= kB) by nia.
  destruct (block_at_exists t B (kr * L + L - 1) Hwf Hin ltac:(nia)) as [s [_ [Hsn Hsin]]].
  assert (Hqs : q_epoch c t (b_id B) kr = qual c t s) by (apply q_epoch_block; assumption).
  assert (Hzs : qual c t z <= qual c t s).
  { apply (qual_ancestor c HL t z s Hwf (chain_incl _ _ _ Hsin)). apply (has_block_iff_in t s z Hwf (chain_incl _ _ _ Hsin) (chain_incl _ _ _ HzB)).
    apply (chain_members_comparable t B s z Hwf Hin Hsin HzB). lia. }
  destruct Hfirst as [_ Hmin].
  assert (Hjle : j <= kr).
  { destruct (N.le_gt_cases j kr) as [H|H]; [exact H|]. specialize (Hmin kr H). fold (Qof t B) in Hmin. lia. }
  destruct (block_at_num _ _ _ _ Hy) as [Hyn Hyin].
  apply (chain_members_comparable t B rb y Hwf Hin HrB Hyin). rewrite Hyn, Hkr. nia.
Qed.
End First.
End Committed.

Lemma blk_eq_dec (a b : blk) : {a = b} + {a <> b}.
Proof. decide equality; try apply N.eq_dec. apply bool_dec. Qed.

Lemma conflict_sym t a b : conflict t a b = conflict t b a.
Proof. unfold conflict. apply andb_comm. Qed.

Section GapRun.
Variable g : blk.
Hypothesis Hg : b_num g = 0.
Variables byz masters : list N.
Hypothesis Hdisj : forall m, In m masters -> ~ In m byz.
Hypothesis Hnd : NoDup masters.
Notation W0 := (map (init_node g) masters).

(* every block signed by an honest validator enters the global tree through one proposal event *)
Lemma block_origin evs : forall w seen x, valid_run_b true c byz w seen evs = true ->
  In x (seen_after seen evs) -> ~ In x seen -> ~ In (b_signer x) byz ->
  exists pre i post, evs = pre ++ EPropose i x :: post /\ ~ In x (seen_after seen pre).
Proof.
  induction evs as [|ev t IH]; intros w seen x Hv Hin Hnot Hh; [contradiction|].
  rewrite (valid_run_cons c byz) in Hv. apply andb_prop in Hv. destruct Hv as [Hok Hv].
  rewrite (seen_after_cons c byz seen ev t w) in Hin.
  destruct ev as [i b|i b|i].
  - (* import *)
    assert (Hnot' : ~ In x (snd (ev_check c byz w seen (EImport i b)))).
    { cbn [ev_check] in Hok |- *. destruct (find_blk seen (b_id b)) as [b'|]; cbn [fst snd] in *; [exact Hnot|].
      apply andb_prop in Hok. destruct Hok as [Hbz _]. apply mem_In in Hbz. intros [<-|H]; [exact (Hh Hbz) | exact (Hnot H)]. }
    destruct (IH _ _ x Hv Hin Hnot' Hh) as [pre [j [post [E Hn]]]].
    exists (EImport i b :: pre), j, post. split; [cbn; rewrite E; reflexivity|].
    rewrite (seen_after_cons c byz seen (EImport i b) pre w). exact Hn.
  - destruct (blk_eq_dec b x) as [->|Hne].
    + exists [], i, t. split; [reflexivity | exact Hnot].
    + assert (Hnot' : ~ In x (snd (ev_check c byz w seen (EPropose i b)))) by (cbn; intros [H|H]; [exact (Hne H) | exact (Hnot H)]).
      destruct (IH _ _ x Hv Hin Hnot' Hh) as [pre [j [post [E Hn]]]].
      exists (EPropose i b :: pre), j, post. split; [cbn; rewrite E; reflexivity|].
      rewrite (seen_after_cons c byz seen (EPropose i b) pre w). exact Hn.
  - destruct (IH _ _ x Hv Hin Hnot Hh) as [pre [j [post [E Hn]]]].
    exists (ERestart i :: pre), j, post. split; [cbn; rewrite E; reflexivity | exact Hn].
Qed.

Definition before (evs : list event) (a b : blk) : Prop :=
  exists pre i post, evs = pre ++ EPropose i b :: post /\ In a (seen_after [g] pre).

(* the earlier vote xe dropped out of the window of the later vote xl *)
Definition forgotten (t : repo) (xe xl : blk) : Prop :=
  exists pl, In pl t /\ b_id pl = b_parent xl /\ qual c t xe + 2 <= qual c t pl.

Section Pair.
Variable evs : list event.
Let tree := seen_after [g] evs.
Hypothesis Hv : valid_run_b true c byz W0 [g] evs = true.
Hypothesis Hroot : known tree (b_parent g) = false.
Hypothesis Hvis : votes_visible_b c W0 evs = true.

Lemma later_vote Be Bl je jl ye yl xe xl :
  finalizing c tree Be -> finalizing c tree Bl ->
  first_epoch c tree Be je -> block_at tree (b_id Be) (je * L) = Some ye ->
  first_epoch c tree Bl jl -> block_at tree (b_id Bl) (jl * L) = Some yl ->
  In xe (seg tree Be) -> In xl (seg tree Bl) -> b_signer xe = b_signer xl -> b_com xl = true ->
  before evs xe xl ->
  forgotten tree xe xl \/ conflict tree (b_id ye) (b_id yl) = false.
Proof.
  intros HBe HBl Hfe Hye Hfl Hyl Hxe Hxl Hs Hcom [pre [i [post [E Hbef]]]].
  assert (Hv' := Hv). rewrite E in Hv'.
  assert (Hnth : exists nd, nth_error (world_after c W0 pre) i = Some nd).
  { rewrite (valid_run_app c byz) in Hv'. apply andb_prop in Hv'. destruct Hv' as [_ H2].
    rewrite (valid_run_cons c byz) in H2. apply andb_prop in H2. destruct H2 as [Hok _]. cbn [ev_check fst] in Hok.
    destruct (nth_error (world_after c W0 pre) i) as [nd|]; [exists nd; reflexivity | discriminate]. }
  destruct Hnth as [nd Hn].
  assert (Hvn : votes_visible_at c nd = true).
  { pose proof (votes_visible_app c pre W0 (EPropose i xl) post) as H. rewrite <- E in H. specialize (H Hvis). rewrite Hn in H. exact H. }
  assert (Hroot' : known (seen_after [g] (pre ++ EPropose i xl :: post)) (b_parent g) = false) by (rewrite <- E; exact Hroot).
  destruct (com_vote_link_run_visible c HL g Hg byz masters Hdisj Hnd pre i xl post nd Hv' Hroot' Hcom Hn Hvn)
    as [Hwf [p [rb [Hp [Hpid [_ [Hspec Hall]]]]]]].
  rewrite <- E in Hwf, Hp, Hspec, Hall. fold tree in Hwf, Hp, Hspec, Hall.
  destruct (N.le_gt_cases (qual c tree p - 1) (qual c tree xe)) as [Hwin|Hout].
  2:{ left. exists p. split; [exact Hp|]. split; [exact Hpid | lia]. }
  right. destruct (Hall xe Hbef Hs Hwin) as [cpx [Hcp Hcmp]].
  pose proof (first_below_seg tree Be Hwf HBe je ye Hye xe cpx Hxe Hcp) as H1.
  destruct (first_below_recent tree Bl Hwf HBl jl yl Hfl Hyl xl p rb Hxl Hp Hpid Hspec) as [H2 _].
  assert (Hcpt : In cpx tree). { unfold cp_of in Hcp. destruct (block_at_num _ _ _ _ Hcp) as [_ H]. exact (chain_incl _ _ _ H). }
  assert (Hrbt : In rb tree) by exact (chain_incl _ _ _ (proj1 Hspec)).
  assert (Hyet : In ye tree). { destruct (block_at_num _ _ _ _ Hye) as [_ H]. exact (chain_incl _ _ _ H). }
  assert (Hylt : In yl tree). { destruct (block_at_num _ _ _ _ Hyl) as [_ H]. exact (chain_incl _ _ _ H). }
  apply no_conflict_of_comparable. destruct Hcmp as [Hc|Hc].
  - apply (on_one_chain tree cpx ye yl Hwf Hcpt Hyet Hylt H1). exact (has_block_trans tree cpx rb yl Hwf Hcpt Hrbt Hylt Hc H2).
  - apply (on_one_chain tree rb ye yl Hwf Hrbt Hyet Hylt); [|exact H2]. exact (has_block_trans tree rb cpx ye Hwf Hrbt Hcpt Hyet Hc H1).
Qed.
End Pair.

Section Main.
Variable evs : list event.
Let tree := seen_after [g] evs.
Hypothesis Hpos : c_pos c = false.
Hypothesis Hnb : NoDup byz.
Hypothesis Hthird : 3 * N.of_nat (length byz) < c_mbp c.
Hypothesis Hsize : N.of_nat (length masters + length byz) <= c_mbp c.
Hypothesis Hv : valid_run_b true c byz W0 [g] evs = true.
Hypothesis Hroot : known tree (b_parent g) = false.
Hypothesis Hvis : votes_visible_b c W0 evs = true.

Lemma tree_good : world_good c g byz masters (world_after c W0 evs) tree.
Proof.
  destruct (world_prefix c HL g Hg byz masters Hdisj Hnd evs [] ltac:(rewrite app_nil_r; exact Hv) ltac:(rewrite app_nil_r; exact Hroot)) as [H _].
  exact H.
Qed.

Theorem conflicting_commits_forgotten_vote B1 B2 j1 j2 y1 y2 :
  finalizing c tree B1 -> finalizing c tree B2 ->
  first_epoch c tree B1 j1 -> block_at tree (b_id B1) (j1 * L) = Some y1 ->
  first_epoch c tree B2 j2 -> block_at tree (b_id B2) (j2 * L) = Some y2 ->
  conflict tree (b_id y1) (b_id y2) = true ->
  exists x1 x2, In x1 (seg tree B1) /\ In x2 (seg tree B2) /\ b_signer x1 = b_signer x2 /\ ~ In (b_signer x1) byz /\
    b_com x1 = true /\ b_com x2 = true /\
    ((before evs x1 x2 /\ forgotten tree x1 x2) \/ (before evs x2 x1 /\ forgotten tree x2 x1)).
Proof.
  intros HB1 HB2 Hf1 Hy1 Hf2 Hy2 Hconf.
  pose proof tree_good as Hw. pose proof (wg_wf c g byz masters _ _ Hw) as Hwf.
  assert (Hpoa : thr_weight c = 0) by (unfold thr_weight; rewrite Hpos; reflexivity).
  assert (Hsig : forall B, finalizing c tree B -> incl (signers (seg tree B)) (masters ++ byz)).
  { intros B HB s Hs. unfold signers in Hs. apply nodup_In in Hs. apply in_map_iff in Hs. destruct Hs as [x [<- Hx]].
    destruct (seg_facts tree B Hwf HB x Hx) as [Hxin [Hxpos _]]. pose proof (chain_incl _ _ _ Hxin) as Hxt.
    destruct (wg_signers c g byz masters _ _ Hw x Hxt) as [->|[H|H]]; [lia | |]; rewrite in_app_iff; tauto. }
  destruct HB1 as [HB1in [HB1sp [HB1c HB1q]]] eqn:EB1. destruct HB2 as [HB2in [HB2sp [HB2c HB2q]]] eqn:EB2.
  destruct (double_commit_honest_voter c Hpoa _ _ (seg tree B1) (seg tree B2) (masters ++ byz) byz
              (Hsig B1 HB1) (Hsig B2 HB2) ltac:(rewrite app_length; exact Hsize) Hpos Hnb Hthird HB1c HB2c)
    as [h [Hh [[x1 [Hx1 Hs1]] [Hc1 [[x2 [Hx2 Hs2]] Hc2]]]]].
  exists x1, x2. split; [exact Hx1|]. split; [exact Hx2|]. split; [congruence|]. split; [rewrite Hs1; exact Hh|].
  split; [exact (Hc1 x1 Hx1 Hs1)|]. split; [exact (Hc2 x2 Hx2 Hs2)|].
  destruct (seg_facts tree B1 Hwf HB1 x1 Hx1) as [Hx1in [Hx1pos _]]. destruct (seg_facts tree B2 Hwf HB2 x2 Hx2) as [Hx2in [Hx2pos _]].
  pose proof (chain_incl _ _ _ Hx1in) as Hx1t. pose proof (chain_incl _ _ _ Hx2in) as Hx2t.
  assert (Hng : forall x, 0 < b_num x -> ~ In x [g]) by (intros x Hx [<-|[]]; lia).
  destruct (block_origin evs W0 [g] x1 Hv Hx1t (Hng x1 Hx1pos) ltac:(rewrite Hs1; exact Hh)) as [pre1 [i1 [post1 [E1 Hn1]]]].
  destruct (block_origin evs W0 [g] x2 Hv Hx2t (Hng x2 Hx2pos) ltac:(rewrite Hs2; exact Hh)) as [pre2 [i2 [post2 [E2 Hn2]]]].
  assert (Hin_after : forall pre i x mid, In x (seen_after [g] (pre ++ EPropose i x :: mid))).
  { intros pre i x mid. rewrite seen_after_app. cbn [seen_after]. apply seen_after_incl. left. reflexivity. }
  destruct (blk_eq_dec x1 x2) as [Heq|Hne].
  - (* one block in both epochs: same checkpoint *)
    exfalso. subst x2. destruct (cp_of_exists c HL tree x1 Hwf Hx1t) as [cpx [Hcp [_ Hcin]]].
    pose proof (first_below_seg tree B1 Hwf HB1 j1 y1 Hy1 x1 cpx Hx1 Hcp) as H1.
    pose proof (first_below_seg tree B2 Hwf HB2 j2 y2 Hy2 x1 cpx Hx2 Hcp) as H2.
    assert (Hy1t : In y1 tree). { destruct (block_at_num _ _ _ _ Hy1) as [_ H]. exact (chain_incl _ _ _ H). }
    assert (Hy2t : In y2 tree). { destruct (block_at_num _ _ _ _ Hy2) as [_ H]. exact (chain_incl _ _ _ H). }
    rewrite (no_conflict_of_comparable tree _ _ (on_one_chain tree cpx y1 y2 Hwf (chain_incl _ _ _ Hcin) Hy1t Hy2t H1 H2)) in Hconf. discriminate.
  - destruct (Nat.lt_trichotomy (length pre1) (length pre2)) as [Hlt|[Hel|Hgt]].
    + left. rewrite E1 in E2. destruct (app_decomp pre1 pre2 _ _ post1 post2 E2 Hlt) as [mid Hmid].
      assert (Hbef : before evs x1 x2). { exists pre2, i2, post2. split; [rewrite <- E2; exact E1 | rewrite Hmid; apply Hin_after]. }
      split; [exact Hbef|].
      destruct (later_vote evs Hv Hroot Hvis B1 B2 j1 j2 y1 y2 x1 x2 HB1 HB2 Hf1 Hy1 Hf2 Hy2 Hx1 Hx2 ltac:(congruence) (Hc2 x2 Hx2 Hs2) Hbef) as [H|H]; [exact H|].
      fold tree in H. rewrite H in Hconf. discriminate.
    + exfalso. rewrite E1 in E2. pose proof (app_decomp_eq pre1 pre2 _ _ post1 post2 E2 Hel) as H. inversion H. contradiction.
    + right. rewrite E2 in E1. destruct (app_decomp pre2 pre1 _ _ post2 post1 E1 Hgt) as [mid Hmid].
      assert (Hbef : before evs x2 x1). { exists pre1, i1, post1. split; [rewrite <- E1; exact E2 | rewrite Hmid; apply Hin_after]. }
      split; [exact Hbef|].
      destruct (later_vote evs Hv Hroot Hvis B2 B1 j2 j1 y2 y1 x2 x1 HB2 HB1 Hf2 Hy2 Hf1 Hy1 Hx2 Hx1 ltac:(congruence) (Hc1 x1 Hx1 Hs1) Hbef) as [H|H]; [exact H|].
      fold tree in H. rewrite conflict_sym, H in Hconf. discriminate.
Qed.

Lemma parent_qual t x p : wf_repo t -> In x t -> In p t -> b_id p = b_parent x -> 0 < b_num x -> qual c t p <= qual c t x.
Proof.
  intros Hwf Hx Hp E Hxp. apply (qual_ancestor c HL t p x Hwf Hx).
  rewrite (chain_step t x p Hwf Hx Hp (eq_sym E) Hxp). right. apply chain_self; assumption.
Qed.

(* quality bookkeeping of a forgotten vote between two committed epochs *)
Lemma forgotten_gap Be Bl xe xl : finalizing c tree Be -> finalizing c tree Bl -> In xe (seg tree Be) -> In xl (seg tree Bl) ->
  forgotten tree xe xl -> Qof tree Be + 1 <= Qof tree Bl.
Proof.
  intros HBe HBl Hxe Hxl [pl [Hpl [Hpid Hq]]].
  pose proof (wg_wf c g byz masters _ _ tree_good) as Hwf.
  destruct (seg_facts tree Bl Hwf HBl xl Hxl) as [Hin [Hxp _]].
  pose proof (parent_qual tree xl pl Hwf (chain_incl _ _ _ Hin) Hpl Hpid Hxp).
  pose proof (seg_qual tree Be Hwf HBe xe Hxe). pose proof (seg_qual tree Bl Hwf HBl xl Hxl). lia.
Qed.

Theorem conflicting_commits_gap B1 B2 j1 j2 y1 y2 :
  finalizing c tree B1 -> finalizing c tree B2 ->
  first_epoch c tree B1 j1 -> block_at tree (b_id B1) (j1 * L) = Some y1 ->
  first_epoch c tree B2 j2 -> block_at tree (b_id B2) (j2 * L) = Some y2 ->
  conflict tree (b_id y1) (b_id y2) = true ->
  Qof tree B1 + 1 <= Qof tree B2 \/ Qof tree B2 + 1 <= Qof tree B1.
Proof.
  intros HB1 HB2 Hf1 Hy1 Hf2 Hy2 Hc.
  destruct (conflicting_commits_forgotten_vote B1 B2 j1 j2 y1 y2 HB1 HB2 Hf1 Hy1 Hf2 Hy2 Hc)
    as [x1 [x2 [Hx1 [Hx2 [_ [_ [_ [_ [[_ Hf]|[_ Hf]]]]]]]]]].
  - left. exact (forgotten_gap B1 B2 x1 x2 HB1 HB2 Hx1 Hx2 Hf).
  - right. exact (forgotten_gap B2 B1 x2 x1 HB2 HB1 Hx2 Hx1 Hf).
Qed.

(* gap 0: two epochs committed with the same quality finalize checkpoints of one chain *)
Theorem same_quality_commits_safe B1 B2 j1 j2 y1 y2 :
  finalizing c tree B1 -> finalizing c tree B2 ->
  first_epoch c tree B1 j1 -> block_at tree (b_id B1) (j1 * L) = Some y1 ->
  first_epoch c tree B2 j2 -> block_at tree (b_id B2) (j2 * L) = Some y2 ->
  Qof tree B1 = Qof tree B2 -> conflict tree (b_id y1) (b_id y2) = false.
Proof.
  intros HB1 HB2 Hf1 Hy1 Hf2 Hy2 HQ. destruct (conflict tree (b_id y1) (b_id y2)) eqn:Hc; [|reflexivity].
  destruct (conflicting_commits_gap B1 B2 j1 j2 y1 y2 HB1 HB2 Hf1 Hy1 Hf2 Hy2 Hc); lia.
Qed.

(* any gap: the forgotten vote is the one in the epoch of lower quality and it was cast first ("second vote on the
   lower branch" is a closed case); with a gap of exactly one it was cast while its epoch was not yet justified, and
   the later vote was cast when the other epoch was already justified *)
Theorem conflicting_commits_shape B1 B2 j1 j2 y1 y2 :
  finalizing c tree B1 -> finalizing c tree B2 ->
  first_epoch c tree B1 j1 -> block_at tree (b_id B1) (j1 * L) = Some y1 ->
  first_epoch c tree B2 j2 -> block_at tree (b_id B2) (j2 * L) = Some y2 ->
  conflict tree (b_id y1) (b_id y2) = true -> Qof tree B1 <= Qof tree B2 ->
  exists x1 x2 p2, In x1 (seg tree B1) /\ In x2 (seg tree B2) /\ b_signer x1 = b_signer x2 /\ ~ In (b_signer x1) byz /\
    b_com x1 = true /\ b_com x2 = true /\ before evs x1 x2 /\
    In p2 tree /\ b_id p2 = b_parent x2 /\ qual c tree x1 + 2 <= qual c tree p2 /\
    (Qof tree B2 = Qof tree B1 + 1 -> qual c tree x1 = Qof tree B1 - 1 /\ qual c tree p2 = Qof tree B2).
Proof.
  intros HB1 HB2 Hf1 Hy1 Hf2 Hy2 Hc Hle.
  pose proof (wg_wf c g byz masters _ _ tree_good) as Hwf.
  destruct (conflicting_commits_forgotten_vote B1 B2 j1 j2 y1 y2 HB1 HB2 Hf1 Hy1 Hf2 Hy2 Hc)
    as [x1 [x2 [Hx1 [Hx2 [Hs [Hh [Hc1 [Hc2 [[Hbef Hf]|[_ Hf]]]]]]]]]].
  - destruct Hf as [p2 [Hp2 [Hpid Hq]]]. exists x1, x2, p2. repeat (split; [assumption|]).
    intros HQ. destruct (seg_facts tree B2 Hwf HB2 x2 Hx2) as [Hin [Hxp _]].
    pose proof (parent_qual tree x2 p2 Hwf (chain_incl _ _ _ Hin) Hp2 Hpid Hxp).
    pose proof (seg_qual tree B1 Hwf HB1 x1 Hx1). pose proof (seg_qual tree B2 Hwf HB2 x2 Hx2). lia.
  - pose proof (forgotten_gap B2 B1 x2 x1 HB2 HB1 Hx2 Hx1 Hf). lia.
Qed.
End Main.
End GapRun.
End Gap.
