(* Bft/ProofsNode.v — invariants of a node along any import history:
   the repository stays well formed; every persisted quality record equals the quality from the definitions (so the
   engine's cached / incremental / persisted view never drifts from a from-scratch recomputation); Select compares the
   definitions' keys; the best block is the maximum of the stored blocks under (quality, total score, smaller id);
   a new finalized checkpoint lies on the imported block's own chain at or above the previous one's number. *)
From Coq Require Import List NArith ZArith Bool Lia.
From Coq Require Import ZifyN ZifyNat ZifyBool.
From Verif Require Import Common.Util Bft.Tree Bft.Model Bft.Quorum Bft.ProofsTally Bft.ProofsChain.
Import ListNotations.
Open Scope N_scope.

Section Node.
Variable c : cfg.
Hypothesis HL : 0 < c_L c.

Definition qual (r : repo) (x : blk) : N := quality_pure c (chain_of r (b_id x)).

(* x is strictly preferred to y by the fork-choice order *)
Definition beats (r : repo) (x y : blk) : bool :=
  (qual r y <? qual r x) || ((qual r x =? qual r y) && better_than x y).

Record inv (nd : node) : Prop := mkInv {
  inv_wf : wf_repo (n_repo nd);
  inv_qs : forall x, In x (n_repo nd) -> storepoint (c_L c) (b_num x) = b_num x ->
           get_q (e_qs (n_eng nd)) (b_id x) = qual (n_repo nd) x;
  inv_best : exists bb, find_blk (n_repo nd) (n_best nd) = Some bb;
  inv_max : forall x, In x (n_repo nd) -> b_id x <> n_best nd -> beats (n_repo nd) (best_blk nd) x = true }.

Definition valid_child (r : repo) (b : blk) : Prop :=
  forall p, find_blk r (b_parent b) = Some p -> b_num b = b_num p + 1.

Lemma qs_to_chain r qs : wf_repo r ->
  (forall x, In x r -> storepoint (c_L c) (b_num x) = b_num x -> get_q qs (b_id x) = qual r x) ->
  forall id, qs_ok_chain c qs (chain_of r id).
Proof.
  intros Hwf Hq id l1 x l2 E Hsp. unfold qual in Hq. rewrite <- (chain_suffix r Hwf id l1 x l2 E).
  apply Hq; [|exact Hsp]. apply (chain_incl r id). rewrite E, in_app_iff. right. left. reflexivity.
Qed.

(* computeState of a block on a stored parent (the block itself stored or not) = the state from the definitions *)
Lemma compute_state_pure_lemma r qs b p : wf_repo r ->
  (forall x, In x r -> storepoint (c_L c) (b_num x) = b_num x -> get_q qs (b_id x) = qual r x) ->
  find_blk r (b_parent b) = Some p -> b_num b = b_num p + 1 ->
  compute_state c r qs b = state_pure c (b :: chain_of r (b_parent b)).
Proof.
  intros Hwf Hq Hp Hn. unfold compute_state.
  destruct (chain_of_known r Hwf _ _ Hp) as [t [Ht Hg]].
  apply state_of_chain_pure; [exact HL | | cbn [tl]; apply qs_to_chain; assumption].
  rewrite Ht. cbn [grounded]. destruct (find_blk_id _ _ _ Hp) as [Hid _]. repeat split; [symmetry; exact Hid | exact Hn | exact Hg].
Qed.

(* ... and of a stored block *)
Lemma chain_of_stored r x : wf_repo r -> In x r -> find_blk r (b_id x) = Some x.
Proof.
  induction r as [|b r IH]; intros Hwf Hin; [destruct Hin|].
  cbn in Hwf. destruct Hwf as [Hwf [Hfresh _]]. unfold find_blk. cbn [find].
  destruct Hin as [<-|Hin]; [rewrite N.eqb_refl; reflexivity|].
  destruct (b_id b =? b_id x) eqn:E.
  - apply N.eqb_eq in E. rewrite E in Hfresh. rewrite (known_in r x Hin) in Hfresh. discriminate.
  - exact (IH Hwf Hin).
Qed.

Lemma compute_state_stored r qs x : wf_repo r ->
  (forall y, In y r -> storepoint (c_L c) (b_num y) = b_num y -> get_q qs (b_id y) = qual r y) ->
  In x r -> s_q (compute_state c r qs x) = qual r x.
Proof.
  intros Hwf Hq Hin. pose proof (chain_of_stored r x Hwf Hin) as Hf.
  destruct (chain_of_known r Hwf _ _ Hf) as [t [Ht Hg]]. unfold qual, quality_pure. rewrite Ht.
  destruct t as [|p t'].
  - cbn in Hg. unfold compute_state, state_of_chain. rewrite Hg. cbn [N.eqb]. rewrite state_pure_genesis by exact Hg. reflexivity.
  - pose proof Hg as Hg0. cbn in Hg. destruct Hg as [Hpar [Hn Hgt]].
    assert (Hsuf : chain_of r (b_id p) = p :: t') by (apply (chain_suffix r Hwf (b_id x) [x] p t'); exact Ht).
    unfold compute_state. rewrite Hpar, Hsuf. f_equal.
    apply state_of_chain_pure; [exact HL | exact Hg0 |]. cbn [tl]. rewrite <- Hsuf. apply qs_to_chain; assumption.
Qed.

(* ---------------------------------------------------------------- the order *)

Lemma better_than_trans x y z : better_than x y = true -> better_than y z = true -> better_than x z = true.
Proof. unfold better_than. intros H1 H2. lia. Qed.
Lemma better_than_total x y : b_id x <> b_id y -> better_than x y = true \/ better_than y x = true.
Proof. unfold better_than. intros H. lia. Qed.

Lemma beats_trans r x y z : beats r x y = true -> beats r y z = true -> beats r x z = true.
Proof.
  unfold beats. intros H1 H2.
  destruct (better_than x y) eqn:B1, (better_than y z) eqn:B2;
    try (rewrite (better_than_trans x y z B1 B2)); destruct (better_than x z); lia.
Qed.
Lemma beats_total r x y : b_id x <> b_id y -> beats r x y = true \/ beats r y x = true.
Proof. unfold beats. intros H. destruct (better_than_total x y H) as [B|B]; rewrite B; lia. Qed.

(* ---------------------------------------------------------------- import preserves the invariants *)

Lemma qual_fresh b r x : wf_repo (b :: r) -> In x r -> qual (b :: r) x = qual r x.
Proof.
  intros Hwf Hin. unfold qual. rewrite chain_of_fresh; [reflexivity|].
  cbn in Hwf. destruct Hwf as [_ [Hfresh _]]. intros E. rewrite E, (known_in r x Hin) in Hfresh. discriminate.
Qed.

Lemma get_q_cons_other qs id q id' : id <> id' -> get_q ((id, q) :: qs) id' = get_q qs id'.
Proof. intros H. unfold get_q. cbn [find fst]. apply N.eqb_neq in H. rewrite H. reflexivity. Qed.

Lemma commit_block_qs guard r e b packing : e_qs (fst (commit_block guard c r e b packing)) =
  if storepoint (c_L c) (b_num b) =? b_num b then (b_id b, s_q (compute_state c r (e_qs e) b)) :: e_qs e else e_qs e.
Proof.
  unfold commit_block. destruct (storepoint (c_L c) (b_num b) =? b_num b).
  - destruct (s_comm _ && (1 <? s_q _) && _).
    + destruct (find_cp _ _ _ _ _ _) as [id|code]; cbn [negb N.eqb].
      * destruct packing; [destruct (e_casts e); [destruct (block_at _ _ _)|]|]; reflexivity.
      * destruct (code =? 0); [destruct packing; [destruct (e_casts e); [destruct (block_at _ _ _)|]|]|]; reflexivity.
    + cbn [negb N.eqb]. destruct packing; [destruct (e_casts e); [destruct (block_at _ _ _)|]|]; reflexivity.
  - cbn [negb N.eqb]. destruct packing; [destruct (e_casts e); [destruct (block_at _ _ _)|]|]; reflexivity.
Qed.

Theorem add_and_commit_inv guard nd b packing :
  inv nd -> known (n_repo nd) (b_id b) = false -> known (n_repo nd) (b_parent b) = true -> valid_child (n_repo nd) b ->
  inv (fst (add_and_commit guard c nd b packing)).
Proof.
  intros [Hwf Hqs [bb Hbest] Hmax] Hfresh Hpk Hvc.
  apply known_find in Hpk. destruct Hpk as [p Hp]. pose proof (Hvc p Hp) as Hn.
  set (r := n_repo nd) in *. set (e := n_eng nd) in *.
  assert (Hwf' : wf_repo (b :: r)).
  { cbn. split; [exact Hwf|]. split; [exact Hfresh|]. destruct r as [|r0 rr]; [discriminate|]. exists p. split; assumption. }
  assert (Hpid : b_parent b <> b_id b).
  { intros E. destruct (find_blk_id _ _ _ Hp) as [Hid Hin]. apply known_in in Hin. rewrite Hid, E in Hin. rewrite Hin in Hfresh. discriminate. }
  assert (Hcs : compute_state c (b :: r) (e_qs e) b = state_pure c (chain_of (b :: r) (b_id b))).
  { rewrite chain_of_head. unfold compute_state. rewrite chain_of_fresh by (intros E; apply Hpid; symmetry; exact E).
    apply (compute_state_pure_lemma r (e_qs e) b p Hwf Hqs Hp Hn). }
  assert (Hsel : select c r e (best_blk nd) b = beats (b :: r) b (best_blk nd)).
  { destruct (find_blk_id _ _ _ Hbest) as [_ Hbin].
    assert (Q1 : s_q (compute_state c r (e_qs e) b) = qual (b :: r) b).
    { rewrite (compute_state_pure_lemma r (e_qs e) b p Hwf Hqs Hp Hn). unfold qual. rewrite chain_of_head. reflexivity. }
    assert (Q2 : s_q (compute_state c r (e_qs e) bb) = qual (b :: r) bb).
    { rewrite (compute_state_stored r (e_qs e) bb Hwf Hqs Hbin). symmetry. apply qual_fresh; assumption. }
    unfold select, beats, best_blk. fold r. rewrite Hbest, Q1, Q2.
    generalize (qual (b :: r) b) as qn. generalize (qual (b :: r) bb) as qb. intros qb qn.
    destruct (qn =? qb) eqn:E; cbn [negb].
    - apply N.eqb_eq in E. subst qn. rewrite N.ltb_irrefl. reflexivity.
    - apply N.eqb_neq in E. destruct (qb <? qn) eqn:E2; reflexivity. }
  unfold add_and_commit. fold r e.
  destruct (commit_block guard c (b :: r) e b packing) as [e' err] eqn:Ecb.
  cbn [fst]. constructor; cbn [n_repo n_best n_eng].
  - exact Hwf'.
  - intros x Hin Hsp. pose proof (commit_block_qs guard (b :: r) e b packing) as Hq'. rewrite Ecb in Hq'. cbn [fst] in Hq'.
    rewrite Hq'. destruct Hin as [<-|Hin].
    + rewrite Hsp, N.eqb_refl. unfold get_q. cbn [find fst snd]. rewrite N.eqb_refl. rewrite Hcs. reflexivity.
    + rewrite (qual_fresh b r x Hwf' Hin).
      assert (Hne : b_id b <> b_id x) by (intros E; rewrite E, (known_in r x Hin) in Hfresh; discriminate).
      destruct (storepoint (c_L c) (b_num b) =? b_num b); [rewrite get_q_cons_other by exact Hne|]; apply Hqs; assumption.
  - destruct (select c r e (best_blk nd) b).
    + exists b. unfold find_blk. cbn. rewrite N.eqb_refl. reflexivity.
    + exists bb. unfold find_blk. cbn [find]. destruct (b_id b =? n_best nd) eqn:E; [|exact Hbest].
      apply N.eqb_eq in E. destruct (find_blk_id _ _ _ Hbest) as [Hid Hin]. apply known_in in Hin. rewrite Hid, <- E in Hin.
      rewrite Hin in Hfresh. discriminate.
  - destruct (find_blk_id _ _ _ Hbest) as [Hbid Hbin].
    assert (Hbb : best_blk nd = bb) by (unfold best_blk; fold r; rewrite Hbest; reflexivity).
    assert (Hold : forall x, In x r -> b_id x <> n_best nd -> beats (b :: r) bb x = true).
    { intros x Hin Hne. specialize (Hmax x Hin Hne). rewrite Hbb in Hmax. unfold beats in *.
      rewrite (qual_fresh b r x Hwf' Hin), (qual_fresh b r bb Hwf' Hbin). exact Hmax. }
    assert (Hbne : b_id b <> b_id bb) by (intros E; rewrite E, (known_in r bb Hbin) in Hfresh; discriminate).
    rewrite Hsel, Hbb. destruct (beats (b :: r) b bb) eqn:Eb; intros x Hin Hne; unfold best_blk; cbn [n_repo n_best].
    + (* the new block became best *)
      unfold find_blk. cbn [find]. rewrite N.eqb_refl. destruct Hin as [<-|Hin]; [contradiction Hne; reflexivity|].
      destruct (N.eq_dec (b_id x) (b_id bb)) as [E|E].
      * assert (x = bb). { pose proof (chain_of_stored r x Hwf Hin) as F1. rewrite E, Hbid in F1. rewrite Hbest in F1. inversion F1. reflexivity. }
        subst x. exact Eb.
      * apply (beats_trans _ b bb x Eb). apply Hold; [exact Hin | rewrite <- Hbid; exact E].
    + (* the old best stays *)
      assert (Hf : find_blk (b :: r) (n_best nd) = Some bb).
      { unfold find_blk. cbn [find]. destruct (b_id b =? n_best nd) eqn:E; [|exact Hbest].
        apply N.eqb_eq in E. rewrite Hbid in Hbne. contradiction. }
      rewrite Hf. destruct Hin as [<-|Hin].
      * destruct (beats_total (b :: r) b bb Hbne) as [B|B]; [rewrite B in Eb; discriminate | exact B].
      * apply Hold; assumption.
Qed.

Theorem import_inv guard nd b : inv nd -> valid_child (n_repo nd) b -> inv (fst (import guard c nd b)).
Proof.
  intros Hi Hvc. unfold import. destruct (known (n_repo nd) (b_id b)) eqn:Ek; [exact Hi|].
  destruct (known (n_repo nd) (b_parent b)) eqn:Ep; cbn [negb]; [|exact Hi].
  destruct (accepts _ _ _); cbn [negb]; [|exact Hi].
  apply add_and_commit_inv; assumption.
Qed.

Lemma init_inv g master : b_num g = 0 -> inv (init_node g master).
Proof.
  intros Hg. constructor; unfold init_node; cbn [n_repo n_best n_eng e_qs].
  - cbn. repeat split; try reflexivity; exact Hg.
  - intros x [<-|[]] Hsp. unfold qual, quality_pure. rewrite chain_of_head, (state_pure_genesis c g _ Hg). reflexivity.
  - exists g. unfold find_blk. cbn. rewrite N.eqb_refl. reflexivity.
  - intros x [<-|[]] Hne. contradiction Hne. reflexivity.
Qed.

(* histories of imports *)
Fixpoint import_all (guard : bool) (nd : node) (bs : list blk) : node :=
  match bs with [] => nd | b :: t => import_all guard (fst (import guard c nd b)) t end.

Theorem import_all_inv guard bs : forall nd, inv nd ->
  (forall nd' b, inv nd' -> In b bs -> valid_child (n_repo nd') b) -> inv (import_all guard nd bs).
Proof.
  induction bs as [|b t IH]; intros nd Hi Hv; [exact Hi|]. cbn [import_all]. apply IH.
  - apply import_inv; [exact Hi | apply Hv; [exact Hi | left; reflexivity]].
  - intros nd' b' Hi' Hin. apply Hv; [exact Hi' | right; exact Hin].
Qed.

(* two nodes that store the same set of blocks hold the same best block *)
Theorem same_repo_same_best n1 n2 : inv n1 -> inv n2 ->
  (forall x, In x (n_repo n1) <-> In x (n_repo n2)) ->
  (forall x, In x (n_repo n1) -> qual (n_repo n1) x = qual (n_repo n2) x) ->
  n_best n1 = n_best n2.
Proof.
  intros I1 I2 Hset Hq.
  destruct (inv_best _ I1) as [b1 Hb1]. destruct (inv_best _ I2) as [b2 Hb2].
  destruct (find_blk_id _ _ _ Hb1) as [Hid1 Hin1]. destruct (find_blk_id _ _ _ Hb2) as [Hid2 Hin2].
  destruct (N.eq_dec (n_best n1) (n_best n2)) as [E|E]; [exact E|]. exfalso.
  assert (B1 : beats (n_repo n1) b1 b2 = true).
  { pose proof (inv_max _ I1 b2 (proj2 (Hset b2) Hin2)) as H. unfold best_blk in H. rewrite Hb1 in H. apply H. rewrite Hid2. intros X. apply E. symmetry. exact X. }
  assert (B2 : beats (n_repo n2) b2 b1 = true).
  { pose proof (inv_max _ I2 b1 (proj1 (Hset b1) Hin1)) as H. unfold best_blk in H. rewrite Hb2 in H. apply H. rewrite Hid1. exact E. }
  unfold beats in B1, B2. rewrite <- (Hq b1 Hin1), <- (Hq b2 (proj2 (Hset b2) Hin2)) in B2.
  unfold better_than in *. lia.
Qed.
End Node.
