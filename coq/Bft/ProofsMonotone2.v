(* Bft/ProofsMonotone2.v — the single-node clause of C03 for own proposals (proposeAndCommit has no Accepts test):
   a proposal on a best block that descends from finalized keeps finalized on its own ancestry; without that premise
   it does not: a node whose best block lies off its finalized branch (possible only when two conflicting branches both
   commit) can finalize a non-descendant by packing the store point of a committed epoch there (witness with three
   Byzantine validators of four).  finalized's NUMBER never decreases in any case. *)
From Coq Require Import List NArith ZArith Bool Lia.
From Coq Require Import ZifyN ZifyNat ZifyBool.
From Verif Require Import Common.Util Bft.Tree Bft.Model Bft.Quorum Bft.ProofsTally Bft.ProofsChain Bft.ProofsSuffix
  Bft.ProofsNode Bft.ProofsFinal Bft.ProofsMonotone Bft.ProofsCommit Bft.Safety Bft.ProofsSafety Bft.ProofsCasts Bft.ProofsRun
  Bft.ProofsWitness.
Import ListNotations.
Open Scope N_scope.

Section Mono2.
Variable c : cfg.
Hypothesis HL : 0 < c_L c.

(* the packing flavour of CommitBlock touches only the votes record *)
Lemma add_and_commit_packing_same nd b :
  let a := fst (add_and_commit true c nd b true) in let a' := fst (add_and_commit true c nd b false) in
  n_repo a = n_repo a' /\ n_best a = n_best a' /\ e_fin (n_eng a) = e_fin (n_eng a').
Proof.
  unfold add_and_commit. cbv zeta. rewrite commit_block_packing.
  destruct (commit_block true c (b :: n_repo nd) (n_eng nd) b false) as [e1 err].
  destruct (negb (err =? 0)); [cbn; tauto|].
  destruct (e_casts e1); [destruct (block_at _ _ _)|]; cbn; tauto.
Qed.

Theorem propose_monotone nd b : inv c nd -> fin_ok nd -> honest_ok c nd b = true -> known (n_repo nd) (b_id b) = false ->
  has_block (n_repo nd) (n_best nd) (e_fin (n_eng nd)) = true ->       (* the best block descends from finalized *)
  let nd' := fst (fst (propose true c nd b)) in
  has_block (n_repo nd') (e_fin (n_eng nd')) (e_fin (n_eng nd)) = true /\
  has_block (n_repo nd') (b_id b) (e_fin (n_eng nd)) = true /\ fin_ok nd'.
Proof.
  intros Hi Hfo Hok Hfresh Hdesc. destruct (honest_ok_facts c nd b Hok) as [Hs [Hpar [Hnum [v [Hv _]]]]].
  destruct (best_in c nd Hi) as [Hbin Hbid]. cbv zeta. unfold propose.
  pose proof (should_vote_keeps c (n_repo nd) (n_eng nd) (b_parent b)) as Hk. cbv zeta in Hk.
  destruct (should_vote c (n_repo nd) (n_eng nd) (b_parent b)) as [e1 v0] eqn:Esv. cbn [fst snd] in *. subst v0.
  destruct Hk as [Hq1 [Hf1 Hm1]].
  set (nd1 := mkN (n_repo nd) (n_best nd) e1).
  assert (Hi1 : inv c nd1) by (apply inv_eng_irrelevant; assumption).
  assert (Hfo1 : fin_ok nd1) by (unfold fin_ok, nd1 in *; cbn [n_repo n_eng]; rewrite Hf1; exact Hfo).
  assert (Hvc : valid_child (n_repo nd1) b).
  { intros p Hp. unfold nd1 in Hp. cbn [n_repo] in Hp. rewrite Hpar, <- Hbid in Hp.
    rewrite (find_blk_in _ _ (inv_wf c _ Hi) Hbin) in Hp. inversion Hp; subst p. exact Hnum. }
  assert (Hpk : known (n_repo nd1) (b_parent b) = true) by (unfold nd1; cbn [n_repo]; rewrite Hpar, <- Hbid; apply known_in; exact Hbin).
  assert (Hacc : accepts (n_repo nd1) (n_eng nd1) (b_parent b) = true).
  { unfold accepts, nd1. cbn [n_repo n_eng]. rewrite Hf1, Hpar. destruct (negb (idnum (e_fin (n_eng nd)) =? 0)); [exact Hdesc | reflexivity]. }
  destruct (add_and_commit_monotone c HL true nd1 b Hi1 Hfo1 Hfresh Hpk Hvc Hacc) as [H1 [H2 H3]].
  destruct (add_and_commit_packing_same nd1 b) as [Er [Eb Ef]]. cbv zeta in Er, Eb, Ef.
  destruct (add_and_commit true c nd1 b true) as [nd' code]. cbn [fst] in *.
  unfold nd1 in H1, H2. cbn [n_eng] in H1, H2. rewrite Hf1 in H1, H2.
  rewrite Er, Ef. split; [exact H2|]. split; [exact H1|].
  unfold fin_ok in *. rewrite Er, Ef. exact H3.
Qed.
End Mono2.

(* ---------------------------------------------------------------- without the premise *)
(* node of validator 1; validators 2,3,4 Byzantine.  Branch W (tail 2): epochs 1,2 justified without COM, epoch 3 (12W..14W)
   all COM; branch S (tail 3): epoch 1 justified, epoch 2 (8S..11S) all COM -> importing 11S finalizes 4S while the best
   block stays 14W (higher quality); packing the store point 15W then finalizes 8W, which is not a descendant of 4S. *)
Definition wb (k signer : N) (com : bool) : blk := bk k 2 (if k =? 4 then 1 else 2) signer com (k * 4).
Definition sb (k signer : N) (com : bool) : blk := bk k 3 (if k =? 4 then 1 else 3) signer com k.
Definition p1 := bk 1 1 1 2 false 4.  Definition p2 := bk 2 1 1 3 false 8.  Definition p3 := bk 3 1 1 4 false 12.
Definition pm_imports : list blk :=
  [p1; p2; p3; wb 4 2 false; wb 5 3 false; wb 6 4 false; wb 7 2 false; wb 8 2 false; wb 9 3 false; wb 10 4 false; wb 11 2 false;
   wb 12 2 true; wb 13 3 true; wb 14 4 true;
   sb 4 2 false; sb 5 3 false; sb 6 4 false; sb 7 2 false; sb 8 2 true; sb 9 3 true; sb 10 4 true; sb 11 2 true].
Definition pm_node : node := import_all cfg4 true (init_node gen 1) pm_imports.
Definition w15 : blk := bk 15 2 2 1 true 57.

Lemma propose_not_monotone_witness :
  honest_ok cfg4 pm_node w15 = true /\ e_fin (n_eng pm_node) = b_id (sb 4 2 false) /\
  let nd' := fst (fst (propose true cfg4 pm_node w15)) in
  e_fin (n_eng nd') = b_id (wb 8 2 false) /\ has_block (n_repo nd') (e_fin (n_eng nd')) (e_fin (n_eng pm_node)) = false /\
  has_block (n_repo pm_node) (n_best pm_node) (e_fin (n_eng pm_node)) = false.
Proof. vm_compute. repeat split; reflexivity. Qed.
