(* Bft/ProofsFork.v — the FINALITY-aware functions of Bft/Model.v (the ones the oracle runs) instantiated at FINALITY = 0 are
   the functions every theorem of Bft/Proofs*.v is about. *)
From Coq Require Import List NArith Bool Lia.
From Verif Require Import Common.Util Bft.Tree Bft.Model.
Import ListNotations.
Open Scope N_scope.

Lemma div0 L : 0 / L = 0. Proof. destruct L; reflexivity. Qed.
Lemma cp0 L : checkpoint L 0 = 0. Proof. unfold checkpoint. rewrite div0. reflexivity. Qed.
Lemma leb0 n : (0 <=? n) = true. Proof. apply N.leb_le. lia. Qed.
Lemma ltb0 n : (n <? 0) = false. Proof. apply N.ltb_ge. lia. Qed.

Lemma take_while_ext {A} (f g : A -> bool) l : (forall x, f x = g x) -> take_while f l = take_while g l.
Proof. intros H. induction l as [|x t IH]; [reflexivity|]. cbn. rewrite H, IH. reflexivity. Qed.

Lemma segment_f0 c ch : segment_f 0 c ch = segment c ch.
Proof.
  unfold segment_f, segment. destruct ch as [|b t]; [reflexivity|]. apply take_while_ext. intros x.
  unfold in_epoch_f, in_epoch. rewrite leb0, andb_true_r. reflexivity.
Qed.

Lemma parent_quality_f0 c qs ch : parent_quality_f 0 c qs ch = parent_quality c qs ch.
Proof. unfold parent_quality_f, parent_quality. destruct ch as [|b t]; [reflexivity|]. rewrite div0. reflexivity. Qed.

Lemma state_of_chain_f0 c qs ch : state_of_chain_f 0 c qs ch = state_of_chain c qs ch.
Proof.
  unfold state_of_chain_f, state_of_chain. destruct ch as [|b t]; [reflexivity|].
  rewrite ltb0, orb_false_r, parent_quality_f0, segment_f0. reflexivity.
Qed.

Lemma compute_state_f0 c r qs b : compute_state_f 0 c r qs b = compute_state c r qs b.
Proof. apply state_of_chain_f0. Qed.

Lemma find_cp_f0 c r qs t f h : find_cp_f 0 c r qs t f h = find_cp c r qs t f h.
Proof.
  unfold find_cp_f, find_cp. rewrite cp0.
  assert (E : (if idnum f =? 0 then 0 else idnum f) = idnum f) by (destruct (idnum f =? 0) eqn:Ez; [apply N.eqb_eq in Ez; auto | reflexivity]).
  rewrite E. reflexivity.
Qed.

Lemma commit_block_f0 g c r e b p : commit_block_f 0 g c r e b p = commit_block g c r e b p.
Proof.
  unfold commit_block_f, commit_block. rewrite compute_state_f0.
  destruct (storepoint (c_L c) (b_num b) =? b_num b); [|reflexivity].
  destruct (s_comm _ && (1 <? s_q _) && _); [|reflexivity]. rewrite find_cp_f0. reflexivity.
Qed.

Lemma select_f0 c r e best b : select_f 0 c r e best b = select c r e best b.
Proof. unfold select_f, select. rewrite !compute_state_f0. reflexivity. Qed.

Lemma fold_left_ext {A B} (f g : A -> B -> A) l : (forall a x, f a x = g a x) -> forall a, fold_left f l a = fold_left g l a.
Proof. intros H. induction l as [|x t IH]; intros a; [reflexivity|]. cbn. rewrite H. apply IH. Qed.

Lemma new_casts_f0 c r e : new_casts_f 0 c r e = new_casts c r e.
Proof.
  unfold new_casts_f, new_casts. apply fold_left_ext. intros ca h. cbv zeta.
  destruct (own_latest _ _ _) as [x|]; [|reflexivity]. destruct (at_num _ _); [|reflexivity]. rewrite compute_state_f0. reflexivity.
Qed.

Lemma should_vote_f0 c r e p : should_vote_f 0 c r e p = should_vote c r e p.
Proof.
  unfold should_vote_f, should_vote. rewrite new_casts_f0, div0.
  destruct ((idnum p + 1) / c_L c =? 0); [reflexivity|]. destruct (find_blk r p) as [pb|]; [|reflexivity].
  rewrite compute_state_f0. destruct (s_q _ =? 0); [reflexivity|].
  destruct (s_just _); [reflexivity|]. destruct (block_at r p _); [|reflexivity]. rewrite find_cp_f0. reflexivity.
Qed.

Lemma justified_f0 c r e best : justified_f 0 c r e best = justified c r e best.
Proof.
  unfold justified_f, justified, justified_gen. rewrite cp0, N.add_0_l. cbn [negb orb].
  destruct (b_num best <? c_L c - 1); [reflexivity|]. destruct (block_at r (b_id best) _); [|reflexivity].
  destruct (match e_jc e with Some _ => _ | None => None end); [reflexivity|].
  destruct (get_q _ _ =? 0); [reflexivity|]. rewrite find_cp_f0. reflexivity.
Qed.

Lemma add_and_commit_f0 g c nd b p : add_and_commit_f 0 g c nd b p = add_and_commit g c nd b p.
Proof. unfold add_and_commit_f, add_and_commit. rewrite !leb0. cbn [andb]. rewrite select_f0, commit_block_f0. reflexivity. Qed.

Lemma import_f0 g c nd b : import_f 0 g c nd b = import g c nd b.
Proof. unfold import_f, import. rewrite add_and_commit_f0. reflexivity. Qed.

Lemma propose_f0 g c nd b : propose_f 0 g c nd b = propose g c nd b.
Proof.
  unfold propose_f, propose. rewrite leb0, should_vote_f0. destruct (should_vote c _ _ _) as [e1 v].
  destruct v; [rewrite add_and_commit_f0|]; reflexivity.
Qed.

Lemma observe_f0 c nd code pre ob : observe_f 0 c nd code pre ob = observe c nd code pre ob.
Proof.
  unfold observe_f, observe. rewrite justified_f0. destruct (justified c _ _ _) as [e1 j]. rewrite should_vote_f0.
  destruct (should_vote c _ e1 _) as [e2 v]. destruct ob as [b|]; [|reflexivity].
  destruct (known _ _); [rewrite compute_state_f0|]; reflexivity.
Qed.

Lemma step_f0 g c w ev : step_f 0 g c w ev = step g c w ev.
Proof.
  destruct ev as [i b|i b|i]; cbn [step_f step]; destruct (nth_error w i) as [nd|]; try reflexivity.
  - rewrite import_f0. destruct (import g c nd b) as [nd1 code]. rewrite observe_f0. reflexivity.
  - rewrite propose_f0. destruct (propose g c nd b) as [[nd1 code] v]. rewrite observe_f0. reflexivity.
  - rewrite observe_f0. reflexivity.
Qed.

(* the runs the oracle computes, at FINALITY = 0, are the runs of the verified model *)
Theorem run_f0 g c evs : forall w, run_f 0 g c w evs = run g c w evs.
Proof.
  induction evs as [|ev t IH]; intros w; [reflexivity|]. cbn [run_f run]. rewrite step_f0.
  destruct (step g c w ev) as [w1 o]. rewrite IH. reflexivity.
Qed.
