(* Bft/ProofsLive.v — liveness, chain level: an epoch segment whose distinct signers exceed the threshold is justified
   (vote-count mode: more than max-block-proposers*2/3 signers; weight mode: their weight exceeds total*2/3); a
   justified segment all of whose blocks vote COM is committed. *)
From Coq Require Import List NArith ZArith Bool Lia Permutation.
From Coq Require Import ZifyN ZifyNat ZifyBool.
From Verif Require Import Common.Util Bft.Tree Bft.Model Bft.Quorum Bft.ProofsTally.
Import ListNotations.
Open Scope N_scope.

Definition signers (seg : list blk) : list N := nodup N.eq_dec (map b_signer seg).

Section Live.
Variable c : cfg.

Lemma voted_blocks seg s : voted (map (vote_of c) seg) s = true <-> In s (signers seg).
Proof.
  unfold voted, signers. rewrite existsb_exists, nodup_In, in_map_iff. split.
  - intros [e [He E]]. apply in_map_iff in He. destruct He as [x [<- Hx]]. cbn in E. apply N.eqb_eq in E. exists x. tauto.
  - intros [x [<- Hx]]. exists (vote_of c x). split; [apply in_map; exact Hx | cbn; apply N.eqb_refl].
Qed.

(* the votes map of a tally has exactly the distinct signers as keys, each with its weight *)
Lemma tally_keys pq seg :
  let js := tally c pq seg in
  NoDup (keys (j_votes js)) /\ (forall s, In s (keys (j_votes js)) <-> In s (signers seg)) /\
  (forall s v, In (s, v) (j_votes js) -> v_w v = weight_of c s) /\
  j_jw js = sumf v_w (j_votes js) /\ j_com js = sumf f_one (j_votes js) /\ j_comw js = sumf f_comw (j_votes js) /\
  j_tv js = thr_votes c /\ j_tw js = thr_weight c /\
  (forall s v, In (s, v) (j_votes js) -> v_com v = allcom (map (vote_of c) seg) s).
Proof.
  cbv zeta. rewrite tally_as_votes, tally_votes_fold.
  destruct (fold_spec (weight_of c) pq (thr_votes c) (thr_weight c) _ (weighed_blocks c seg)) as [S [[N1 [C1 [CW J]]] [_ [T TW]]]].
  set (js := fold_left step _ _) in *.
  split; [exact N1|]. split.
  - intros s. rewrite (spec_keys _ _ _ N1 S). apply voted_blocks.
  - split; [|split; [exact J | split; [exact C1 | split; [exact CW | split; [exact T | split; [exact TW|]]]]]].
    + intros s v Hin. pose proof (in_lookup _ _ _ N1 Hin) as Hl. rewrite S in Hl.
      destruct (voted _ s); [inversion Hl; reflexivity | discriminate].
    + intros s v Hin. pose proof (in_lookup _ _ _ N1 Hin) as Hl. rewrite S in Hl.
      destruct (voted _ s); [inversion Hl; reflexivity | discriminate].
Qed.

Lemma sumf_as_keys (vs : list (N * vote)) (w : N -> N) :
  (forall s v, In (s, v) vs -> v_w v = w s) -> sumf v_w vs = sumw w (keys vs).
Proof.
  unfold sumf, sumw, keys. rewrite map_map. induction vs as [|[s v] vs IH]; intros H; cbn; [reflexivity|].
  rewrite (H s v (or_introl eq_refl)), IH; [reflexivity|]. intros s' v' Hin. apply H. right. exact Hin.
Qed.

(* more than the threshold of distinct signers (count or weight, as Summarize selects) => justified *)
Theorem quorum_justifies pq seg :
  (if thr_weight c =? 0 then thr_votes c <? N.of_nat (length (signers seg))
   else thr_weight c <? sumw (weight_of c) (signers seg)) = true ->
  s_just (summarize (tally c pq seg)) = true.
Proof.
  intros H. destruct (tally_keys pq seg) as [N1 [Hk [Hw [J [_ [_ [T [TW _]]]]]]]].
  set (js := tally c pq seg) in *. unfold summarize. cbn [s_just]. rewrite T, TW.
  assert (Hperm : Permutation (keys (j_votes js)) (signers seg)).
  { apply NoDup_Permutation; [exact N1 | apply NoDup_nodup | exact Hk]. }
  destruct (thr_weight c =? 0).
  - pose proof (Permutation_length Hperm) as Hl. unfold keys in Hl. rewrite map_length in Hl. rewrite Hl. exact H.
  - rewrite J, (sumf_as_keys _ (weight_of c) Hw). unfold sumw in *. rewrite (sumN_perm _ _ (Permutation_map _ Hperm)). exact H.
Qed.

(* ... and conversely justification needs it (so "justified iff quorum of distinct signers") *)
Theorem justified_needs_quorum pq seg :
  s_just (summarize (tally c pq seg)) = true ->
  (if thr_weight c =? 0 then thr_votes c <? N.of_nat (length (signers seg))
   else thr_weight c <? sumw (weight_of c) (signers seg)) = true.
Proof.
  destruct (tally_keys pq seg) as [N1 [Hk [Hw [J [_ [_ [T [TW _]]]]]]]].
  set (js := tally c pq seg) in *. unfold summarize. cbn [s_just]. rewrite T, TW.
  assert (Hperm : Permutation (keys (j_votes js)) (signers seg)).
  { apply NoDup_Permutation; [exact N1 | apply NoDup_nodup | exact Hk]. }
  destruct (thr_weight c =? 0).
  - pose proof (Permutation_length Hperm) as Hl. unfold keys in Hl. rewrite map_length in Hl. rewrite Hl. tauto.
  - rewrite J, (sumf_as_keys _ (weight_of c) Hw). unfold sumw in *. rewrite (sumN_perm _ _ (Permutation_map _ Hperm)). tauto.
Qed.

(* every block of the segment votes COM => committed exactly when justified *)
Theorem all_com_committed pq seg : (forall x, In x seg -> b_com x = true) ->
  s_comm (summarize (tally c pq seg)) = s_just (summarize (tally c pq seg)).
Proof.
  intros Hall. destruct (tally_keys pq seg) as [N1 [_ [_ [J [C1 [CW [_ [_ Hcom]]]]]]]].
  set (js := tally c pq seg) in *.
  assert (Hv : forall s v, In (s, v) (j_votes js) -> v_com v = true).
  { intros s v Hin. rewrite (Hcom s v Hin). unfold allcom. apply forallb_forall. intros e He.
    apply in_map_iff in He. destruct He as [x [<- Hx]]. cbn. rewrite (Hall x Hx). apply orb_true_r. }
  assert (E1 : sumf f_one (j_votes js) = N.of_nat (length (j_votes js))).
  { clear -Hv. unfold sumf, f_one. induction (j_votes js) as [|[s v] vs IH]; [reflexivity|].
    cbn [map sumN length snd]. rewrite (Hv s v (or_introl eq_refl)), IH; [lia|]. intros s' v' H. apply (Hv s' v'). right. exact H. }
  assert (E2 : sumf f_comw (j_votes js) = sumf v_w (j_votes js)).
  { clear -Hv. unfold sumf, f_comw. induction (j_votes js) as [|[s v] vs IH]; [reflexivity|].
    cbn [map sumN snd]. rewrite (Hv s v (or_introl eq_refl)), IH; [reflexivity|]. intros s' v' H. apply (Hv s' v'). right. exact H. }
  unfold summarize. cbn [s_comm s_just]. rewrite C1, CW, J, E1, E2. reflexivity.
Qed.
End Live.
