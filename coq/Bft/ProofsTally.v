(* Bft/ProofsTally.v — the vote tally is a function of the *set* of (signer, COM bit) pairs it was fed
   (weights being a function of the signer, as in computeState where every vote of an epoch is weighed against the
   same checkpoint state): any permutation, duplication or split of the AddBlock sequence gives the same votes map,
   counters and summary.  Corollaries: the cache-hit path of computeState (parent's justifier + the new block) equals
   the rebuild from the checkpoint; justified is monotone in the vote set. *)
From Coq Require Import List NArith ZArith Bool Lia Permutation.
From Coq Require Import ZifyN ZifyNat ZifyBool.
From Verif Require Import Common.Util Bft.Tree Bft.Model Bft.Quorum.
Import ListNotations.
Open Scope N_scope.

(* ---------------------------------------------------------------- sums over the votes map *)

Definition sumf (f : vote -> N) (vs : list (N * vote)) : N := sumN (map (fun kv => f (snd kv)) vs).
Definition f_one (v : vote) : N := if v_com v then 1 else 0.
Definition f_comw (v : vote) : N := if v_com v then v_w v else 0.

Definition keys (vs : list (N * vote)) : list N := map fst vs.

(* counters are functions of the votes map *)
Definition consistent (js : justifier) : Prop :=
  NoDup (keys (j_votes js)) /\
  j_com js = sumf f_one (j_votes js) /\ j_comw js = sumf f_comw (j_votes js) /\ j_jw js = sumf v_w (j_votes js).

Lemma lookup_none_notin vs s : lookup_vote vs s = None -> ~ In s (keys vs).
Proof.
  unfold lookup_vote, keys. induction vs as [|[k v] vs IH]; cbn; [tauto|].
  destruct (k =? s) eqn:E; [discriminate|]. intros H [H1|H1]; [apply N.eqb_neq in E; contradiction | exact (IH H H1)].
Qed.

Lemma lookup_some_in vs s v : lookup_vote vs s = Some v -> In (s, v) vs.
Proof.
  unfold lookup_vote. induction vs as [|[k v0] vs IH]; cbn; [discriminate|].
  destruct (k =? s) eqn:E.
  - intros H. inversion H; subst. apply N.eqb_eq in E. subst. left. reflexivity.
  - intros H. right. exact (IH H).
Qed.

Lemma in_lookup vs s v : NoDup (keys vs) -> In (s, v) vs -> lookup_vote vs s = Some v.
Proof.
  unfold lookup_vote, keys. induction vs as [|[k v0] vs IH]; cbn; [tauto|].
  intros Hnd [H|H].
  - inversion H; subst. rewrite N.eqb_refl. reflexivity.
  - inversion Hnd as [|? ? Hk Hr]; subst. destruct (k =? s) eqn:E.
    + apply N.eqb_eq in E. subst. exfalso. apply Hk. apply (in_map fst) in H. exact H.
    + exact (IH Hr H).
Qed.

Lemma keys_set_vote vs s v : keys (set_vote vs s v) = keys vs.
Proof.
  unfold keys, set_vote. induction vs as [|[k v0] vs IH]; cbn; [reflexivity|].
  destruct (k =? s) eqn:E; cbn; [apply N.eqb_eq in E; subst|]; rewrite IH; reflexivity.
Qed.

Lemma sumf_set_vote f vs s prev v : NoDup (keys vs) -> lookup_vote vs s = Some prev ->
  sumf f (set_vote vs s v) + f prev = sumf f vs + f v.
Proof.
  unfold sumf, lookup_vote, keys, set_vote. induction vs as [|[k v0] vs IH]; cbn; [discriminate|].
  intros Hnd. inversion Hnd as [|? ? Hk Hr]; subst. destruct (k =? s) eqn:E; cbn.
  - intros H. inversion H; subst. apply N.eqb_eq in E. subst.
    assert (Hsame : map (fun kv : N * vote => if fst kv =? s then (s, v) else kv) vs = vs).
    { clear IH Hnd Hr H. induction vs as [|[k1 v1] vs IHv]; cbn; [reflexivity|].
      destruct (k1 =? s) eqn:E1.
      - apply N.eqb_eq in E1. subst. exfalso. apply Hk. left. reflexivity.
      - f_equal. apply IHv. intros Hin. apply Hk. right. exact Hin. }
    rewrite Hsame. lia.
  - intros H. specialize (IH Hr H). lia.
Qed.

Lemma lookup_set_vote vs s v t :
  lookup_vote (set_vote vs s v) t =
  if t =? s then match lookup_vote vs s with Some _ => Some v | None => None end else lookup_vote vs t.
Proof.
  unfold lookup_vote, set_vote. induction vs as [|[k v0] vs IH]; cbn.
  - destruct (t =? s); reflexivity.
  - destruct (k =? s) eqn:E; cbn.
    + apply N.eqb_eq in E. subst k. rewrite (N.eqb_sym s t). destruct (t =? s) eqn:E2; cbn; [reflexivity|].
      exact IH.
    + destruct (k =? t) eqn:E3; cbn.
      * apply N.eqb_eq in E3. subst k. rewrite E. reflexivity.
      * rewrite IH. destruct (t =? s) eqn:E2; [|reflexivity].
        apply N.eqb_eq in E2. subst t. reflexivity.
Qed.

Lemma add_block_consistent js s com w : consistent js -> consistent (add_block js s com w).
Proof.
  intros [Hnd [Hc [Hcw Hj]]]. unfold add_block.
  destruct (lookup_vote (j_votes js) s) as [prev|] eqn:El.
  - destruct (eqb (v_com prev) com) eqn:Eb; [repeat split; assumption|].
    unfold consistent; cbn [j_votes j_com j_comw j_jw]. rewrite keys_set_vote.
    pose proof (sumf_set_vote f_one _ s prev (mkV false (v_w prev)) Hnd El) as S1.
    pose proof (sumf_set_vote f_comw _ s prev (mkV false (v_w prev)) Hnd El) as S2.
    pose proof (sumf_set_vote v_w _ s prev (mkV false (v_w prev)) Hnd El) as S3.
    assert (F1 : f_one (mkV false (v_w prev)) = 0) by reflexivity.
    assert (F2 : f_comw (mkV false (v_w prev)) = 0) by reflexivity.
    assert (F3 : f_one prev = if v_com prev then 1 else 0) by reflexivity.
    assert (F4 : f_comw prev = if v_com prev then v_w prev else 0) by reflexivity.
    rewrite F1, F3 in S1. rewrite F2, F4 in S2. cbn [v_w] in S3.
    split; [exact Hnd|]. destruct (v_com prev) eqn:Ep; repeat split; lia.
  - unfold consistent; cbn [j_votes j_com j_comw j_jw]. split.
    + cbn. constructor; [exact (lookup_none_notin _ _ El) | exact Hnd].
    + rewrite Hc, Hcw, Hj. unfold sumf. cbn [map sumN snd].
      destruct com; [change (f_one (mkV true w)) with 1; change (f_comw (mkV true w)) with w
                    | change (f_one (mkV false w)) with 0; change (f_comw (mkV false w)) with 0];
      cbn [v_w]; repeat split; lia.
Qed.

(* ---------------------------------------------------------------- the votes map as a function of the input set *)

Definition voted (l : list (N * (bool * N))) (s : N) : bool := existsb (fun e => fst e =? s) l.
Definition allcom (l : list (N * (bool * N))) (s : N) : bool := forallb (fun e => negb (fst e =? s) || fst (snd e)) l.

(* the inputs weigh every signer consistently *)
Definition weighed (w : N -> N) (l : list (N * (bool * N))) : Prop := forall e, In e l -> snd (snd e) = w (fst e).

Definition spec_votes (w : N -> N) (l : list (N * (bool * N))) (vs : list (N * vote)) : Prop :=
  forall s, lookup_vote vs s = if voted l s then Some (mkV (allcom l s) (w s)) else None.

Definition step (js : justifier) (x : N * (bool * N)) : justifier := add_block js (fst x) (fst (snd x)) (snd (snd x)).

Lemma tally_votes_fold pq tv tw l : tally_votes pq tv tw l = fold_left step l (new_js pq tv tw).
Proof. reflexivity. Qed.

Lemma voted_app l x s : voted (l ++ [x]) s = voted l s || (fst x =? s).
Proof. unfold voted. rewrite existsb_app. cbn. rewrite orb_false_r. reflexivity. Qed.
Lemma allcom_app l x s : allcom (l ++ [x]) s = allcom l s && (negb (fst x =? s) || fst (snd x)).
Proof. unfold allcom. rewrite forallb_app. cbn. rewrite andb_true_r. reflexivity. Qed.

Lemma step_spec w l js x : weighed w (l ++ [x]) -> spec_votes w l (j_votes js) ->
  spec_votes w (l ++ [x]) (j_votes (step js x)).
Proof.
  intros Hw Hs s. destruct x as [sx [cx wx]]. unfold step, add_block. cbn [fst snd].
  assert (Hwx : wx = w sx). { apply (Hw (sx, (cx, wx))). rewrite in_app_iff. right. left. reflexivity. }
  rewrite voted_app, allcom_app. cbn [fst snd].
  pose proof (Hs sx) as Hsx. pose proof (Hs s) as Hss.
  destruct (lookup_vote (j_votes js) sx) as [prev|] eqn:El.
  - destruct (voted l sx) eqn:Ev; [|discriminate]. inversion Hsx as [Hp]. subst prev. cbn [v_com v_w].
    destruct (eqb (allcom l sx) cx) eqn:Eb.
    + (* same bit again: nothing changes *)
      rewrite Hss. destruct (sx =? s) eqn:E.
      * apply N.eqb_eq in E. subst s. rewrite Ev. cbn. f_equal. f_equal.
        apply eqb_prop in Eb. subst cx. destruct (allcom l sx); reflexivity.
      * rewrite orb_false_r. cbn. rewrite andb_true_r. reflexivity.
    + cbn [j_votes]. rewrite lookup_set_vote. rewrite (N.eqb_sym s sx). destruct (sx =? s) eqn:E.
      * apply N.eqb_eq in E. subst s. rewrite El, Ev. cbn. f_equal. f_equal.
        destruct (allcom l sx), cx; cbn in *; try reflexivity; discriminate.
      * rewrite Hss, orb_false_r. cbn. rewrite andb_true_r. reflexivity.
  - destruct (voted l sx) eqn:Ev; [discriminate|]. cbn [j_votes]. unfold lookup_vote. cbn [find fst snd].
    destruct (sx =? s) eqn:E.
    + apply N.eqb_eq in E. subst s. rewrite Ev. cbn. f_equal. subst wx. f_equal.
      assert (Ha : allcom l sx = true).
      { unfold allcom. apply forallb_forall. intros e He. destruct (fst e =? sx) eqn:E2; [|reflexivity].
        exfalso. unfold voted in Ev. apply Bool.not_true_iff_false in Ev. apply Ev. apply existsb_exists. exists e. tauto. }
      rewrite Ha. reflexivity.
    + fold (lookup_vote (j_votes js) s). rewrite Hss, orb_false_r. cbn. rewrite andb_true_r. reflexivity.
Qed.

Lemma fold_spec w pq tv tw l : weighed w l ->
  let js := fold_left step l (new_js pq tv tw) in
  spec_votes w l (j_votes js) /\ consistent js /\ j_pq js = pq /\ j_tv js = tv /\ j_tw js = tw.
Proof.
  induction l as [|x l IH] using rev_ind; intros Hw.
  - cbn. repeat split; try reflexivity. constructor.
  - assert (Hw' : weighed w l). { intros e He. apply Hw. rewrite in_app_iff. left. exact He. }
    destruct (IH Hw') as [Hs [Hc [H1 [H2 H3]]]]. rewrite fold_left_app. cbn [fold_left].
    split; [apply step_spec; assumption|]. split; [apply add_block_consistent; exact Hc|].
    unfold step, add_block. destruct (lookup_vote _ _) as [prev|]; [destruct (eqb _ _)|]; cbn; repeat split; assumption.
Qed.

(* ---------------------------------------------------------------- order independence *)

Lemma sumN_perm (a b : list N) : Permutation a b -> sumN a = sumN b.
Proof. induction 1; cbn; lia. Qed.

Lemma votes_perm (v1 v2 : list (N * vote)) : NoDup (keys v1) -> NoDup (keys v2) ->
  (forall s, lookup_vote v1 s = lookup_vote v2 s) -> Permutation v1 v2.
Proof.
  intros H1 H2 Hl. apply NoDup_Permutation.
  - unfold keys in H1. exact (NoDup_map_inv _ _ H1).
  - unfold keys in H2. exact (NoDup_map_inv _ _ H2).
  - intros [s v]. split; intros Hin.
    + apply lookup_some_in. rewrite <- Hl. apply in_lookup; assumption.
    + apply lookup_some_in. rewrite Hl. apply in_lookup; assumption.
Qed.

Definition same_set {A} (l1 l2 : list A) : Prop := forall x, In x l1 <-> In x l2.

Lemma voted_same l1 l2 s : same_set l1 l2 -> voted l1 s = voted l2 s.
Proof.
  intros H. unfold voted. apply eq_true_iff_eq. rewrite !existsb_exists.
  split; intros [e [He E]]; exists e; split; try exact E; apply H; exact He.
Qed.
Lemma allcom_same l1 l2 s : same_set l1 l2 -> allcom l1 s = allcom l2 s.
Proof.
  intros H. unfold allcom. apply eq_true_iff_eq. rewrite !forallb_forall.
  split; intros Ha e He; apply Ha; apply H; exact He.
Qed.

Record js_equiv (a b : justifier) : Prop := mkEq {
  eq_pq : j_pq a = j_pq b; eq_tv : j_tv a = j_tv b; eq_tw : j_tw a = j_tw b;
  eq_votes : forall s, lookup_vote (j_votes a) s = lookup_vote (j_votes b) s;
  eq_len : length (j_votes a) = length (j_votes b);
  eq_com : j_com a = j_com b; eq_comw : j_comw a = j_comw b; eq_jw : j_jw a = j_jw b }.

Lemma js_equiv_summarize a b : js_equiv a b -> summarize a = summarize b.
Proof. intros [E1 E2 E3 E4 E5 E6 E7 E8]. unfold summarize. rewrite E1, E2, E3, E5, E6, E7, E8. reflexivity. Qed.

Theorem tally_order_independent_lemma w pq tv tw l1 l2 :
  weighed w l1 -> weighed w l2 -> same_set l1 l2 ->
  js_equiv (tally_votes pq tv tw l1) (tally_votes pq tv tw l2).
Proof.
  intros W1 W2 Hs. rewrite !tally_votes_fold.
  destruct (fold_spec w pq tv tw l1 W1) as [S1 [[N1 [C1 [CW1 J1]]] [P1 [T1 TW1]]]].
  destruct (fold_spec w pq tv tw l2 W2) as [S2 [[N2 [C2 [CW2 J2]]] [P2 [T2 TW2]]]].
  assert (Hl : forall s, lookup_vote (j_votes (fold_left step l1 (new_js pq tv tw))) s =
                         lookup_vote (j_votes (fold_left step l2 (new_js pq tv tw))) s).
  { intros s. rewrite S1, S2, (voted_same l1 l2 s Hs), (allcom_same l1 l2 s Hs). reflexivity. }
  pose proof (votes_perm _ _ N1 N2 Hl) as Hp.
  assert (Hsum : forall f, sumf f (j_votes (fold_left step l1 (new_js pq tv tw))) =
                            sumf f (j_votes (fold_left step l2 (new_js pq tv tw)))).
  { intros f. unfold sumf. apply sumN_perm. apply Permutation_map. exact Hp. }
  constructor; [congruence | congruence | congruence | exact Hl | exact (Permutation_length Hp)
               | rewrite C1, C2; apply Hsum | rewrite CW1, CW2; apply Hsum | rewrite J1, J2; apply Hsum].
Qed.

(* ---------------------------------------------------------------- block level *)

Definition vote_of (c : cfg) (x : blk) : N * (bool * N) := (b_signer x, (b_com x, weight_of c (b_signer x))).

Lemma tally_as_votes c pq seg : tally c pq seg = tally_votes pq (thr_votes c) (thr_weight c) (map (vote_of c) seg).
Proof.
  unfold tally, tally_votes. generalize (new_js pq (thr_votes c) (thr_weight c)) as js.
  induction seg as [|x seg IH]; intros js; cbn; [reflexivity|]. apply IH.
Qed.

Lemma weighed_blocks c seg : weighed (weight_of c) (map (vote_of c) seg).
Proof. intros e He. apply in_map_iff in He. destruct He as [x [<- _]]. reflexivity. Qed.

(* two block lists whose (signer, COM) pairs form the same set tally alike *)
Theorem tally_blocks_order_independent c pq seg1 seg2 :
  same_set (map (vote_of c) seg1) (map (vote_of c) seg2) ->
  js_equiv (tally c pq seg1) (tally c pq seg2).
Proof.
  intros Hs. rewrite !tally_as_votes.
  apply (tally_order_independent_lemma (weight_of c)); [apply weighed_blocks | apply weighed_blocks | exact Hs].
Qed.

(* the cache-hit path of computeState: the parent's justifier (built from the same blocks in whatever order) plus the
   new block, against the rebuild from the checkpoint (block first, then its ancestors) *)
Theorem incremental_eq_scratch_lemma c pq segp segp' b :
  same_set segp segp' ->
  js_equiv (add_blk c (tally c pq segp') b) (tally c pq (b :: segp)).
Proof.
  intros Hs.
  assert (E : add_blk c (tally c pq segp') b = tally c pq (segp' ++ [b])).
  { unfold tally. rewrite fold_left_app. reflexivity. }
  rewrite E. apply tally_blocks_order_independent.
  intros e. rewrite map_app, in_app_iff. cbn. rewrite !in_map_iff.
  split.
  - intros [[x [<- Hx]]|[<-|[]]]; [right; exists x; split; [reflexivity | apply Hs; exact Hx] | left; reflexivity].
  - intros [<-|[x [<- Hx]]]; [right; left; reflexivity | left; exists x; split; [reflexivity | apply Hs; exact Hx]].
Qed.

(* ---------------------------------------------------------------- monotonicity in the vote set *)

Lemma spec_keys w l vs : NoDup (keys vs) -> spec_votes w l vs -> forall s, In s (keys vs) <-> voted l s = true.
Proof.
  intros Hnd Hs s. split.
  - intros Hin. unfold keys in Hin. apply in_map_iff in Hin. destruct Hin as [[k v] [<- Hin]]. cbn.
    pose proof (in_lookup _ _ _ Hnd Hin) as Hl. rewrite Hs in Hl. destruct (voted l k); [reflexivity|discriminate].
  - intros Hv. specialize (Hs s). rewrite Hv in Hs. apply lookup_some_in in Hs. apply (in_map fst) in Hs. exact Hs.
Qed.

Lemma sumf_keys_le (f g : N -> N) (v1 v2 : list (N * vote)) :
  NoDup (keys v1) -> NoDup (keys v2) ->
  (forall s x, In (s, x) v1 -> exists y, In (s, y) v2) ->
  (forall s x, In (s, x) v1 -> v_w x = f s) -> (forall s y, In (s, y) v2 -> v_w y = f s) ->
  sumf v_w v1 <= sumf v_w v2.
Proof.
  intros N1 N2 Hsub W1 W2.
  assert (E1 : sumf v_w v1 = sumN (map f (keys v1))).
  { unfold sumf, keys. rewrite map_map. clear N1 Hsub. induction v1 as [|[s x] v1 IH]; cbn; [reflexivity|].
    rewrite (W1 s x (or_introl eq_refl)), IH; [reflexivity|]. intros s' x' H. apply (W1 s' x'). right. exact H. }
  assert (E2 : sumf v_w v2 = sumN (map f (keys v2))).
  { unfold sumf, keys. rewrite map_map. clear N2 Hsub. induction v2 as [|[s x] v2 IH]; cbn; [reflexivity|].
    rewrite (W2 s x (or_introl eq_refl)), IH; [reflexivity|]. intros s' x' H. apply (W2 s' x'). right. exact H. }
  rewrite E1, E2. apply (sumw_incl f); [exact N1|].
  intros s Hs. unfold keys in Hs. apply in_map_iff in Hs. destruct Hs as [[k x] [<- Hin]]. cbn.
  destruct (Hsub k x Hin) as [y Hy]. apply (in_map fst) in Hy. exact Hy.
Qed.

(* adding blocks to the fed set never un-justifies: quality of the summary is monotone in the set *)
Theorem justified_monotone_lemma c pq seg1 seg2 :
  incl (map (vote_of c) seg1) (map (vote_of c) seg2) ->
  s_just (summarize (tally c pq seg1)) = true -> s_just (summarize (tally c pq seg2)) = true.
Proof.
  intros Hi. rewrite !tally_as_votes, !tally_votes_fold.
  set (l1 := map (vote_of c) seg1). set (l2 := map (vote_of c) seg2).
  destruct (fold_spec (weight_of c) pq (thr_votes c) (thr_weight c) l1 (weighed_blocks c seg1)) as [S1 [[N1 [_ [_ J1]]] [_ [T1 TW1]]]].
  destruct (fold_spec (weight_of c) pq (thr_votes c) (thr_weight c) l2 (weighed_blocks c seg2)) as [S2 [[N2 [_ [_ J2]]] [_ [T2 TW2]]]].
  fold l1 in S1, N1, J1, T1, TW1. fold l2 in S2, N2, J2, T2, TW2.
  set (j1 := fold_left step l1 _) in *. set (j2 := fold_left step l2 _) in *.
  assert (Hv : forall s, voted l1 s = true -> voted l2 s = true).
  { intros s. unfold voted. rewrite !existsb_exists. intros [e [He E]]. exists e. split; [apply Hi; exact He | exact E]. }
  assert (Hk : incl (keys (j_votes j1)) (keys (j_votes j2))).
  { intros s Hs. apply (spec_keys _ _ _ N2 S2). apply Hv. apply (spec_keys _ _ _ N1 S1). exact Hs. }
  unfold summarize. cbn [s_just]. rewrite T1, T2, TW1, TW2.
  destruct (thr_weight c =? 0).
  - intros H. apply N.ltb_lt in H. apply N.ltb_lt.
    pose proof (NoDup_incl_length N1 Hk) as Hl. unfold keys in Hl. rewrite !map_length in Hl. lia.
  - intros H. apply N.ltb_lt in H. apply N.ltb_lt. rewrite J1 in H. rewrite J2.
    assert (Hle : sumf v_w (j_votes j1) <= sumf v_w (j_votes j2)).
    { apply (sumf_keys_le (weight_of c) (weight_of c)); try assumption.
      - intros s x Hin. apply (in_map fst) in Hin. apply Hk in Hin. unfold keys in Hin. apply in_map_iff in Hin.
        destruct Hin as [[k y] [E Hy]]. cbn in E. subst k. exists y. exact Hy.
      - intros s x Hin. pose proof (in_lookup _ _ _ N1 Hin) as Hl. rewrite S1 in Hl.
        destruct (voted l1 s); [inversion Hl; reflexivity | discriminate].
      - intros s y Hin. pose proof (in_lookup _ _ _ N2 Hin) as Hl. rewrite S2 in Hl.
        destruct (voted l2 s); [inversion Hl; reflexivity | discriminate]. }
    lia.
Qed.

(* committed implies justified (COM votes are votes) *)
Lemma sumf_le f g vs : (forall v, f v <= g v) -> sumf f vs <= sumf g vs.
Proof. intros H. unfold sumf. induction vs as [|[k v] vs IH]; cbn; [lia|]. specialize (H v). lia. Qed.

Lemma sumf_one_le_length vs : sumf f_one vs <= N.of_nat (length vs).
Proof. unfold sumf, f_one. induction vs as [|[k v] vs IH]; cbn [map sumN length snd]; [lia|]. destruct (v_com v); lia. Qed.

Theorem committed_implies_justified_lemma c pq seg :
  s_comm (summarize (tally c pq seg)) = true -> s_just (summarize (tally c pq seg)) = true.
Proof.
  rewrite tally_as_votes, tally_votes_fold.
  destruct (fold_spec (weight_of c) pq (thr_votes c) (thr_weight c) _ (weighed_blocks c seg)) as [_ [[_ [C [CW J]]] _]].
  set (j := fold_left step _ _) in *. unfold summarize. cbn [s_comm s_just].
  destruct (j_tw j =? 0); intros H; apply N.ltb_lt in H; apply N.ltb_lt.
  - pose proof (sumf_one_le_length (j_votes j)). lia.
  - assert (sumf f_comw (j_votes j) <= sumf v_w (j_votes j)).
    { apply sumf_le. intros v. unfold f_comw. destruct (v_com v); lia. }
    lia.
Qed.

(* the summary's quality is the parent quality or one more *)
Lemma summarize_quality js : s_q (summarize js) = if s_just (summarize js) then j_pq js + 1 else j_pq js.
Proof. unfold summarize. cbn. reflexivity. Qed.

Lemma tally_pq c pq seg : j_pq (tally c pq seg) = pq.
Proof.
  rewrite tally_as_votes, tally_votes_fold.
  destruct (fold_spec (weight_of c) pq (thr_votes c) (thr_weight c) _ (weighed_blocks c seg)) as [_ [_ [P _]]]. exact P.
Qed.
