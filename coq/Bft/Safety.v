(* Bft/Safety.v — statements over whole runs (definitions only): what a valid run is (who may sign what), the
   C04 statement "CommitBlock never fails on an accepted block", the C03 safety statement. *)
From Coq Require Import List NArith Bool Lia.
From Verif Require Import Common.Util Bft.Tree Bft.Model Bft.Quorum.
Import ListNotations.
Open Scope N_scope.

Definition blk_eqb (a b : blk) : bool :=
  (b_id a =? b_id b) && (b_parent a =? b_parent b) && (b_signer a =? b_signer b) && eqb (b_com a) (b_com b) && (b_score a =? b_score b).

(* ---------------------------------------------------------------- C04: imports never fail in CommitBlock *)

Fixpoint import_codes (guard : bool) (c : cfg) (nd : node) (bs : list blk) : list N :=
  match bs with
  | [] => []
  | b :: t => let '(nd', code) := import guard c nd b in code :: import_codes guard c nd' t
  end.

(* every delivered block carries the number of its parent plus one (what consensus validation enforces) *)
Definition numbered (g : blk) (bs : list blk) : Prop :=
  b_num g = 0 /\ forall b p, In b bs -> In p (g :: bs) -> b_id p = b_parent b -> b_num b = b_num p + 1.

Definition commit_block_total_statement (guard : bool) : Prop :=
  forall c g master bs, 0 < c_L c -> numbered g bs ->
  forall code, In code (import_codes guard c (init_node g master) bs) -> code < 100.

(* ---------------------------------------------------------------- C03: runs *)

(* an honest proposal: signed by the node's master, on the node's current best block, COM bit = the engine's
   ShouldVote answer, number = parent's + 1, total score = parent's + s with 1 <= s <= max block proposers *)
Definition honest_ok (c : cfg) (nd : node) (b : blk) : bool :=
  let best := best_blk nd in
  (b_signer b =? e_master (n_eng nd)) && (b_parent b =? n_best nd) && (b_num b =? b_num best + 1) &&
  (b_score best <? b_score b) && (b_score b <=? b_score best + c_mbp c) &&
  match snd (should_vote c (n_repo nd) (n_eng nd) (b_parent b)) with Ok v => eqb v (b_com b) | Err _ => false end.

(* `seen` = every block made so far (global tree, newest first).  A block signed by a non-Byzantine validator enters
   only through an honest proposal at that validator's own node; Byzantine validators may sign anything anywhere
   (on a known parent, with the right number); deliveries hand over blocks that exist. *)
Fixpoint valid_run_b (guard : bool) (c : cfg) (byz : list N) (w : list node) (seen : repo) (evs : list event) : bool :=
  match evs with
  | [] => true
  | ev :: t =>
      let '(ok, seen') :=
        match ev with
        | EPropose i b =>
            (match nth_error w i with
             | Some nd => negb (mem byz (b_signer b)) && negb (known seen (b_id b)) && honest_ok c nd b
             | None => false end, b :: seen)
        | EImport i b =>
            match find_blk seen (b_id b) with
            | Some b' => (blk_eqb b b', seen)
            | None => (mem byz (b_signer b) &&
                       match find_blk seen (b_parent b) with Some p => b_num b =? b_num p + 1 | None => false end, b :: seen)
            end
        | ERestart _ => (true, seen)
        end in
      ok && valid_run_b guard c byz (step_plain guard c w ev) seen' t
  end.

Fixpoint seen_after (seen : repo) (evs : list event) : repo :=
  match evs with
  | [] => seen
  | EPropose _ b :: t => seen_after (b :: seen) t
  | EImport _ b :: t => seen_after (if known seen (b_id b) then seen else b :: seen) t
  | ERestart _ :: t => seen_after seen t
  end.

(* the finalized checkpoints held by any node at any moment of the run *)
Fixpoint all_fins (guard : bool) (c : cfg) (w : list node) (evs : list event) : list N :=
  map (fun nd => e_fin (n_eng nd)) w ++
  match evs with [] => [] | ev :: t => all_fins guard c (step_plain guard c w ev) t end.

Definition bft_safety_statement (guard : bool) : Prop :=
  forall c g masters byz evs,
    0 < c_L c -> c_pos c = false -> b_num g = 0 -> NoDup masters -> NoDup byz -> (forall m, In m masters -> ~ In m byz) ->
    3 * N.of_nat (length byz) < c_mbp c -> N.of_nat (length masters + length byz) <= c_mbp c ->
    valid_run_b guard c byz (map (init_node g) masters) [g] evs = true ->
    forall a b, In a (all_fins guard c (map (init_node g) masters) evs) ->
                In b (all_fins guard c (map (init_node g) masters) evs) ->
                conflict (seen_after [g] evs) a b = false.

(* ---------------------------------------------------------------- the fork-choice premise *)
(* "At equal quality an honest validator never moves to a head that does not extend its last vote": for every honest
   proposal on parent p by a validator whose previous own block is l, either p descends from l or p's quality (from
   the node's records) is strictly higher than l's.  Block scores decide ties in Select; whether the real schedulers
   can produce scores that break this premise is the open node-level question of DESIGN §5-F4. *)
Definition last_own (master : N) (r : repo) : option blk := find (fun x => b_signer x =? master) r.

Definition no_tie_switch_at (c : cfg) (nd : node) (b : blk) : bool :=
  match last_own (e_master (n_eng nd)) (n_repo nd), find_blk (n_repo nd) (b_parent b) with
  | Some l, Some p =>
      has_block (n_repo nd) (b_id p) (b_id l) ||
      (s_q (compute_state c (n_repo nd) (e_qs (n_eng nd)) l) <? s_q (compute_state c (n_repo nd) (e_qs (n_eng nd)) p))
  | _, _ => true
  end.

Fixpoint no_tie_switch_b (guard : bool) (c : cfg) (w : list node) (evs : list event) : bool :=
  match evs with
  | [] => true
  | ev :: t =>
      match ev with
      | EPropose i b => match nth_error w i with Some nd => no_tie_switch_at c nd b | None => true end
      | _ => true
      end && no_tie_switch_b guard c (step_plain guard c w ev) t
  end.

Definition bft_safety_under_premise_statement (guard : bool) : Prop :=
  forall c g masters byz evs,
    0 < c_L c -> c_pos c = false -> b_num g = 0 -> NoDup masters -> NoDup byz -> (forall m, In m masters -> ~ In m byz) ->
    3 * N.of_nat (length byz) < c_mbp c -> N.of_nat (length masters + length byz) <= c_mbp c ->
    valid_run_b guard c byz (map (init_node g) masters) [g] evs = true ->
    no_tie_switch_b guard c (map (init_node g) masters) evs = true ->
    forall a b, In a (all_fins guard c (map (init_node g) masters) evs) ->
                In b (all_fins guard c (map (init_node g) masters) evs) ->
                conflict (seen_after [g] evs) a b = false.
