(* Bft/ProofsTree2.v — more block-tree facts used by the run-level arguments: chains do not depend on which well-formed
   super-repository they are computed in; blocks of one chain are comparable; has_block is transitive; every stored block
   has a leaf above it. *)
From Coq Require Import List NArith ZArith Bool Lia.
From Coq Require Import ZifyN ZifyNat ZifyBool.
From Verif Require Import Common.Util Bft.Tree Bft.Model Bft.Quorum Bft.ProofsTally Bft.ProofsChain Bft.ProofsSuffix
  Bft.ProofsNode Bft.ProofsFinal Bft.ProofsMonotone Bft.ProofsOrder Bft.ProofsOrder2 Bft.ProofsVote Bft.Safety.
Import ListNotations.
Open Scope N_scope.

Lemma blk_eqb_eq a b : blk_eqb a b = true -> a = b.
Proof.
  unfold blk_eqb. intros H. repeat (apply andb_prop in H; destruct H as [H ?]).
  destruct a, b; cbn in *. apply N.eqb_eq in H, H3, H2, H0. apply eqb_prop in H1. subst. reflexivity.
Qed.

Lemma stored_unique r x y : wf_repo r -> In x r -> In y r -> b_id x = b_id y -> x = y.
Proof.
  intros Hwf Hx Hy E. pose proof (chain_of_stored r x Hwf Hx) as F1. pose proof (chain_of_stored r y Hwf Hy) as F2.
  rewrite E, F2 in F1. inversion F1. reflexivity.
Qed.

(* a grounded chain inside a well-formed repository is determined by its head *)
Lemma grounded_chain_unique s : wf_repo s -> forall l1 l2 x t1 t2, l1 = x :: t1 -> l2 = x :: t2 ->
  grounded l1 -> grounded l2 -> incl l1 s -> incl l2 s -> l1 = l2.
Proof.
  intros Hwf l1. induction l1 as [|a l1 IH]; intros l2 x t1 t2 E1 E2 G1 G2 I1 I2; [discriminate|].
  inversion E1; subst a l1. subst l2. f_equal.
  destruct t1 as [|p1 t1'], t2 as [|p2 t2']; [reflexivity | | |].
  - cbn in G1, G2. lia.
  - cbn in G1, G2. lia.
  - pose proof G1 as G1'. pose proof G2 as G2'. cbn in G1, G2. destruct G1 as [P1 [N1 G1]]. destruct G2 as [P2 [N2 G2]].
    assert (Hp : p1 = p2).
    { apply (stored_unique s); [exact Hwf | apply I1; right; left; reflexivity | apply I2; right; left; reflexivity | congruence]. }
    subst p2. apply (IH (p1 :: t2') p1 t1' t2' eq_refl eq_refl).
    + exact (grounded_tail _ _ _ G1').
    + exact (grounded_tail _ _ _ G2').
    + intros z Hz. apply I1. right. exact Hz.
    + intros z Hz. apply I2. right. exact Hz.
Qed.

Lemma sub_chain r s x : wf_repo r -> wf_repo s -> incl r s -> In x r -> chain_of r (b_id x) = chain_of s (b_id x).
Proof.
  intros Wr Ws Hsub Hx.
  destruct (chain_of_known r Wr _ _ (chain_of_stored r x Wr Hx)) as [t1 [E1 G1]].
  destruct (chain_of_known s Ws _ _ (chain_of_stored s x Ws (Hsub x Hx))) as [t2 [E2 G2]].
  rewrite E1, E2. apply (grounded_chain_unique s Ws _ _ x t1 t2 eq_refl eq_refl G1 G2).
  - rewrite <- E1. intros z Hz. apply Hsub. exact (chain_incl _ _ _ Hz).
  - rewrite <- E2. intros z Hz. exact (chain_incl _ _ _ Hz).
Qed.

Lemma sub_has_block r s x id : wf_repo r -> wf_repo s -> incl r s -> In x r ->
  has_block r (b_id x) id = has_block s (b_id x) id.
Proof. intros Wr Ws Hsub Hx. unfold has_block. rewrite (sub_chain r s x Wr Ws Hsub Hx). reflexivity. Qed.

Lemma sub_block_at r s x n : wf_repo r -> wf_repo s -> incl r s -> In x r ->
  block_at r (b_id x) n = block_at s (b_id x) n.
Proof. intros Wr Ws Hsub Hx. unfold block_at. rewrite (sub_chain r s x Wr Ws Hsub Hx). reflexivity. Qed.

(* the block found at a number of a chain *)
Lemma block_at_exists r x n : wf_repo r -> In x r -> n <= b_num x ->
  exists y, block_at r (b_id x) n = Some y /\ b_num y = n /\ In y (chain_of r (b_id x)).
Proof.
  intros Hwf Hx Hn. destruct (chain_of_known r Hwf _ _ (chain_of_stored r x Hwf Hx)) as [t [Ht Hg]].
  destruct (suffix_at_exists (chain_of r (b_id x)) ltac:(rewrite Ht; exact Hg) x t Ht n Hn) as [y [l2 [Hs Hy]]].
  exists y. unfold block_at. rewrite at_num_suffix, Hs. split; [reflexivity|]. split; [exact Hy|].
  destruct (suffix_at_split (chain_of r (b_id x)) n) as [l1 E]. rewrite Hs in E. rewrite E, in_app_iff. right. left. reflexivity.
Qed.

Lemma has_block_iff_in r x y : wf_repo r -> In x r -> In y r ->
  (has_block r (b_id x) (b_id y) = true <-> In y (chain_of r (b_id x))).
Proof.
  intros Hwf Hx Hy. split.
  - intros H. destruct (has_block_stored _ _ _ H) as [z [Hz E]].
    rewrite (stored_unique r y z Hwf Hy (chain_incl _ _ _ Hz) (eq_sym E)). exact Hz.
  - intros Hin. destruct (chain_of_known r Hwf _ _ (chain_of_stored r x Hwf Hx)) as [t [Ht Hg]].
    unfold has_block, chain_has. change (idnum (b_id y)) with (b_num y).
    rewrite Ht in *. rewrite (at_num_self (x :: t) Hg y Hin). apply N.eqb_refl.
Qed.

(* two stored blocks on one chain are comparable: the higher one has the lower one on its chain *)
Lemma chain_members_comparable r t x y : wf_repo r -> In t r -> In x (chain_of r (b_id t)) -> In y (chain_of r (b_id t)) ->
  b_num y <= b_num x -> has_block r (b_id x) (b_id y) = true.
Proof.
  intros Hwf Ht Hx Hy Hle.
  pose proof (chain_incl _ _ _ Hy) as Hyr.
  apply (has_block_inner r (b_id t) x (b_id y) Hwf Hx Hle); [exists t; exact (chain_of_stored r t Hwf Ht)|].
  apply (has_block_iff_in r t y Hwf Ht Hyr). exact Hy.
Qed.

Lemma on_one_chain r t x y : wf_repo r -> In t r -> In x r -> In y r ->
  has_block r (b_id t) (b_id x) = true -> has_block r (b_id t) (b_id y) = true ->
  has_block r (b_id x) (b_id y) = true \/ has_block r (b_id y) (b_id x) = true.
Proof.
  intros Hwf Ht Hx Hy H1 H2.
  apply (has_block_iff_in r t x Hwf Ht Hx) in H1. apply (has_block_iff_in r t y Hwf Ht Hy) in H2.
  destruct (N.le_ge_cases (b_num y) (b_num x)) as [H|H]; [left | right];
    apply (chain_members_comparable r t); assumption.
Qed.

Lemma has_block_trans r x y z : wf_repo r -> In x r -> In y r -> In z r ->
  has_block r (b_id x) (b_id y) = true -> has_block r (b_id y) (b_id z) = true -> has_block r (b_id x) (b_id z) = true.
Proof.
  intros Hwf Hx Hy Hz H1 H2.
  destruct (ancestor_suffix r x y Hwf Hx Hy H1) as [l1 E].
  apply (has_block_iff_in r y z Hwf Hy Hz) in H2.
  apply (has_block_iff_in r x z Hwf Hx Hz). rewrite E, in_app_iff. right. exact H2.
Qed.

Lemma has_block_num r x y : wf_repo r -> In x r -> In y r -> has_block r (b_id x) (b_id y) = true -> b_num y <= b_num x.
Proof.
  intros Hwf Hx Hy H. apply (has_block_iff_in r x y Hwf Hx Hy) in H.
  destruct (chain_of_known r Hwf _ _ (chain_of_stored r x Hwf Hx)) as [t [Ht Hg]]. rewrite Ht in H.
  destruct H as [<-|H]; [lia|]. pose proof (grounded_nums x t Hg y H). lia.
Qed.

Lemma has_block_refl r x : wf_repo r -> In x r -> has_block r (b_id x) (b_id x) = true.
Proof. intros. apply has_block_self; assumption. Qed.

(* conflict is symmetric and excluded by comparability *)
Lemma no_conflict_of_comparable r a b :
  has_block r a b = true \/ has_block r b a = true -> conflict r a b = false.
Proof. unfold conflict. intros [H|H]; rewrite H; cbn; [reflexivity | apply andb_false_r]. Qed.

(* the chain of a stored block continues with the chain of its parent *)
Lemma chain_step r x p : wf_repo r -> In x r -> In p r -> b_parent x = b_id p -> 0 < b_num x ->
  chain_of r (b_id x) = x :: chain_of r (b_id p).
Proof.
  intros Hwf Hx Hp E Hpos. destruct (chain_of_known r Hwf _ _ (chain_of_stored r x Hwf Hx)) as [t [Ht Hg]].
  destruct t as [|p' t']; [cbn in Hg; lia|].
  pose proof Hg as Hg'. cbn in Hg. destruct Hg as [Hpar _].
  assert (Hp' : In p' r). { apply (chain_incl r (b_id x)). rewrite Ht. right. left. reflexivity. }
  assert (p' = p) by (apply (stored_unique r); [exact Hwf | exact Hp' | exact Hp | congruence]). subst p'.
  rewrite Ht. f_equal. symmetry. apply (chain_suffix r Hwf (b_id x) [x] p t'). exact Ht.
Qed.

(* a child stored in a well-formed repository sits above its parent, so every block has a leaf above it *)
Lemma child_above l1 x l2 ch : wf_repo (l1 ++ x :: l2) -> In ch (l1 ++ x :: l2) -> b_parent ch = b_id x -> 0 < b_num ch -> In ch l1.
Proof.
  induction l1 as [|h l1 IH]; intros Hwf Hin E Hpos.
  - cbn [app] in *. exfalso. destruct Hin as [<-|Hin].
    + (* x its own parent *) cbn in Hwf. destruct Hwf as [Hw [Hf Hp]]. destruct l2 as [|z l2']; [lia|].
      destruct Hp as [p [Hp _]]. destruct (find_blk_id _ _ _ Hp) as [Hid Hpin]. apply known_in in Hpin. rewrite Hid, E in Hpin.
      rewrite Hpin in Hf. discriminate.
    + (* ch below x: its parent is below ch, but x is above *)
      cbn in Hwf. destruct Hwf as [Hw [Hf _]].
      destruct (in_split _ _ Hin) as [la [lb Es]]. rewrite Es in Hw.
      assert (Hw2 : wf_repo (ch :: lb)).
      { clear -Hw. induction la as [|a la IH]; [exact Hw|]. cbn [app] in Hw. cbn in Hw. apply IH. tauto. }
      cbn in Hw2. destruct Hw2 as [_ [_ Hp]]. destruct lb as [|z lb']; [lia|].
      destruct Hp as [p [Hp _]]. destruct (find_blk_id _ _ _ Hp) as [Hid Hpin].
      assert (In p l2). { rewrite Es, in_app_iff. right. right. exact Hpin. }
      apply known_in in H. rewrite Hid, E in H. rewrite H in Hf. discriminate.
  - cbn [app] in *. destruct Hin as [<-|Hin]; [left; reflexivity|]. right. cbn in Hwf. apply IH; tauto.
Qed.

Lemma leaf_above r : wf_repo r ->
  (forall z, In z r -> b_num z = 0 -> known r (b_parent z) = false) ->   (* the root names no stored block as its parent *)
  forall x, In x r -> exists h, In h r /\ is_leaf r h = true /\ In x (chain_of r (b_id h)).
Proof.
  intros Hwf Hroot.
  assert (Hgen : forall n l1 x l2, length l1 = n -> r = l1 ++ x :: l2 ->
                 exists h, In h r /\ is_leaf r h = true /\ In x (chain_of r (b_id h))).
  { induction n as [n IH] using lt_wf_ind. intros l1 x l2 Hlen Er.
    assert (Hx : In x r) by (rewrite Er, in_app_iff; right; left; reflexivity).
    destruct (is_leaf r x) eqn:El.
    - exists x. split; [exact Hx|]. split; [exact El|].
      destruct (chain_of_known r Hwf _ _ (chain_of_stored r x Hwf Hx)) as [t [Ht _]]. rewrite Ht. left. reflexivity.
    - unfold is_leaf in El. apply negb_false_iff in El. apply existsb_exists in El. destruct El as [ch [Hch E]]. apply N.eqb_eq in E.
      assert (Hpos : 0 < b_num ch).
      { destruct (N.eq_dec (b_num ch) 0) as [Z|Z]; [|lia]. exfalso.
        pose proof (Hroot ch Hch Z) as Hk. rewrite E, (known_in r x Hx) in Hk. discriminate. }
      assert (Hch1 : In ch l1) by (apply (child_above l1 x l2 ch); [rewrite <- Er; exact Hwf | rewrite <- Er; exact Hch | exact E | exact Hpos]).
      destruct (in_split _ _ Hch1) as [la [lb Ea]].
      destruct (IH (length la) ltac:(rewrite <- Hlen, Ea, app_length; cbn; lia) la ch (lb ++ x :: l2) eq_refl
                  ltac:(rewrite Er, Ea, <- app_assoc; reflexivity)) as [h [Hh [Hl Hin]]].
      exists h. split; [exact Hh|]. split; [exact Hl|].
      destruct (in_split _ _ Hin) as [c1 [c2 Ec]]. rewrite Ec, in_app_iff. right. right.
      pose proof (chain_suffix r Hwf (b_id h) c1 ch c2 Ec) as Hs.
      rewrite (chain_step r ch x Hwf Hch Hx E Hpos) in Hs. inversion Hs.
      destruct (chain_of_known r Hwf _ _ (chain_of_stored r x Hwf Hx)) as [t [Ht _]]. rewrite Ht. left. reflexivity. }
  intros x Hx. destruct (in_split _ _ Hx) as [l1 [l2 E]]. exact (Hgen (length l1) l1 x l2 eq_refl E).
Qed.
