(* Bft/ProofsSync.v — the liveness sentence of C03 assembled over multi-node runs: all validators honest, every proposal
   delivered to every node before the next one ("timely").  Then at every moment every node stores exactly the one global
   chain with its head as best block, every block carries the COM bit of the com rule (honest_chain), so by the
   chain-level theorems every epoch with a quorum of signers is justified and, once a justified epoch exists, committed;
   and when an epoch kb >= 2 closes after two such epochs every node's finalized checkpoint is the first block of epoch
   kb - 1. *)
From Coq Require Import List NArith ZArith Bool Lia.
From Coq Require Import ZifyN ZifyNat ZifyBool.
From Verif Require Import Common.Util Bft.Tree Bft.Model Bft.Quorum Bft.ProofsTally Bft.ProofsChain Bft.ProofsSuffix
  Bft.ProofsNode Bft.ProofsFinal Bft.ProofsMonotone Bft.ProofsCommit Bft.ProofsFind Bft.ProofsLive Bft.ProofsLive2
  Bft.ProofsOrder Bft.ProofsOrder2 Bft.ProofsVote Bft.Safety Bft.ProofsSafety Bft.ProofsTree2 Bft.ProofsCasts Bft.ProofsRun
  Bft.ProofsMonotone2.
Import ListNotations.
Open Scope N_scope.

Section SyncNode.
Variable c : cfg.
Hypothesis HL : 0 < c_L c.
Notation L := (c_L c).

(* the node stores exactly the chain `ch` (head first), its best block is the head, and its finalized checkpoint lies at
   least one epoch below the head's epoch (or is still in epoch 0) *)
Definition on_chain (ch : repo) (nd : node) : Prop :=
  n_repo nd = ch /\ (exists p t, ch = p :: t /\ n_best nd = b_id p /\
    (idnum (e_fin (n_eng nd)) / L = 0 \/ idnum (e_fin (n_eng nd)) / L + 1 <= b_num p / L)).

Lemma grounded_head_chain p t : grounded (p :: t) -> wf_repo (p :: t) -> chain_of (p :: t) (b_id p) = p :: t.
Proof. intros Hg _. exact (grounded_chain_self (p :: t) Hg). Qed.

Lemma div_mono_succ n : n / L <= (n + 1) / L.
Proof. apply N.div_le_mono; lia. Qed.

(* storing a block that extends the head with a higher total score *)
Theorem add_and_commit_on_chain nd b p t (packing : bool) :
  node_good c nd -> on_chain (p :: t) nd -> grounded (b :: p :: t) -> known (p :: t) (b_id b) = false ->
  b_score p < b_score b ->
  on_chain (b :: p :: t) (fst (add_and_commit true c nd b packing)).
Proof.
  intros Hgood [Hrepo [p0 [t0 [E0 [Hbest Hfin]]]]] Hg Hfresh Hsc. inversion E0; subst p0 t0. clear E0.
  pose proof Hgood as [Hi Hfc Hfs Hroot Hca]. pose proof (inv_wf c _ Hi) as Hwf. pose proof (inv_qs c _ Hi) as Hqs.
  rewrite Hrepo in Hwf, Hqs.
  pose proof Hg as Hg0. cbn in Hg. destruct Hg as [Hpar [Hnum Hgt]].
  assert (Hpin : In p (p :: t)) by (left; reflexivity).
  assert (Hp : find_blk (p :: t) (b_parent b) = Some p) by (rewrite Hpar; apply find_blk_in; assumption).
  assert (Hvc : valid_child (n_repo nd) b) by (rewrite Hrepo; intros q Hq; rewrite Hp in Hq; inversion Hq; subst q; exact Hnum).
  assert (Hpk : known (n_repo nd) (b_parent b) = true) by (rewrite Hrepo, Hpar; apply known_in; exact Hpin).
  assert (Hfr : known (n_repo nd) (b_id b) = false) by (rewrite Hrepo; exact Hfresh).
  pose proof (add_and_commit_inv c HL true nd b false Hi Hfr Hpk Hvc) as Hi0.
  pose proof (add_and_commit_shape c nd b packing) as [Hrepo' _]. cbv zeta in Hrepo'.
  destruct (add_and_commit_packing_same c nd b) as [_ [Eb Ef]]. cbv zeta in Eb, Ef.
  assert (Hsame : n_best (fst (add_and_commit true c nd b packing)) = n_best (fst (add_and_commit true c nd b false)) /\
                  e_fin (n_eng (fst (add_and_commit true c nd b packing))) = e_fin (n_eng (fst (add_and_commit true c nd b false)))).
  { destruct packing; [split; assumption | split; reflexivity]. }
  destruct Hsame as [Sb Sf].
  split; [rewrite Hrepo', Hrepo; reflexivity|]. exists b, (p :: t). split; [reflexivity|]. rewrite Sb, Sf.
  (* quality of the new block and of the head *)
  assert (Hcs : compute_state c (p :: t) (e_qs (n_eng nd)) b = state_pure c (b :: p :: t)).
  { rewrite (compute_state_pure_lemma c HL (p :: t) _ b p Hwf Hqs Hp Hnum). rewrite Hpar, (grounded_head_chain p t Hgt Hwf). reflexivity. }
  assert (Hqp : s_q (compute_state c (p :: t) (e_qs (n_eng nd)) p) = quality_pure c (p :: t)).
  { rewrite (compute_state_stored c HL (p :: t) _ p Hwf Hqs Hpin). unfold qual. rewrite (grounded_head_chain p t Hgt Hwf). reflexivity. }
  pose proof (quality_step c HL b (p :: t) Hg0) as Hstep.
  assert (Hbb : best_blk nd = p) by (unfold best_blk; rewrite Hrepo, Hbest, (find_blk_in (p :: t) p Hwf Hpin); reflexivity).
  unfold add_and_commit in *. rewrite Hrepo in *.
  set (e := n_eng nd) in *.
  assert (Hsel : select c (p :: t) e (best_blk nd) b = true).
  { unfold select. rewrite Hbb, Hcs, Hqp. fold (quality_pure c (b :: p :: t)).
    destruct (quality_pure c (b :: p :: t) =? quality_pure c (p :: t)) eqn:Eq; cbn [negb].
    - unfold better_than. apply orb_true_iff. left. apply N.ltb_lt. exact Hsc.
    - apply N.eqb_neq in Eq. apply N.ltb_lt. lia. }
  rewrite Hsel in *.
  assert (Hwf' : wf_repo (b :: p :: t)).
  { cbn. split; [exact Hwf|]. split; [exact Hfresh|]. exists p. split; [exact Hp | exact Hnum]. }
  assert (Hfb : find_blk (b :: p :: t) (b_id b) = Some b) by (unfold find_blk; cbn [find]; rewrite N.eqb_refl; reflexivity).
  assert (Hcs' : compute_state c (b :: p :: t) (e_qs e) b = state_pure c (chain_of (b :: p :: t) (b_id b))).
  { rewrite (grounded_chain_self (b :: p :: t) Hg0). unfold compute_state. rewrite chain_of_fresh.
    - rewrite Hpar, (grounded_head_chain p t Hgt Hwf). apply state_of_chain_pure; [exact HL | exact Hg0|]. cbn [tl].
      rewrite <- (grounded_head_chain p t Hgt Hwf). apply qs_to_chain; assumption.
    - intros E. apply known_in in Hpin. rewrite <- Hpar, <- E in Hpin. cbn in Hfresh. rewrite Hpin in Hfresh. discriminate. }
  pose proof (is_checkpoint_mul L HL _ Hfc) as Hfa. fold e in Hfa. set (a := idnum (e_fin e) / L) in *.
  pose proof (commit_block_qs c true (b :: p :: t) e b false) as Hq.
  pose proof (commit_block_fin_spec c HL (b :: p :: t) e b a Hwf' Hfb) as Hspec.
  destruct (commit_block true c (b :: p :: t) e b false) as [e' err] eqn:Ecb. cbn [fst snd n_repo n_eng n_best] in *.
  split; [reflexivity|].
  pose proof (inv_qs c _ Hi0) as Hqs'. cbn [n_repo n_eng] in Hqs'.
  specialize (Hspec ltac:(rewrite <- Hq; exact Hqs') Hcs' Hfa). cbv zeta in Hspec.
  assert (Hkb : b_num p / L <= b_num b / L) by (rewrite Hnum; apply div_mono_succ).
  destruct Hspec as [[Hfz [Hguard [m [y [Hy [Hyn [Hqm [Hmin Hfin']]]]]]]] | [_ Hsamef]].
  - right. rewrite Hfin'. change (idnum (b_id y)) with (b_num y). rewrite Hyn, N.div_mul by lia.
    pose proof (storepoint_form L HL _ (proj1 (proj2 Hfz))) as Hkbn. set (kb := b_num b / L) in *.
    destruct (block_at_num _ _ _ _ Hy) as [_ Hyin]. rewrite (grounded_chain_self (b :: p :: t) Hg0) in Hyin.
    assert (Hle : b_num y <= b_num b). { destruct Hyin as [<-|Hyin]; [lia | pose proof (grounded_nums b (p :: t) Hg0 y Hyin); lia]. }
    assert (Ham : a + m <= kb) by nia.
    destruct (N.eq_dec (a + m) kb) as [E|E]; [|lia]. exfalso.
    destruct (store_seq c HL (b :: p :: t) (e_qs e') (b_id b) b kb Hwf' Hqs' Hfb Hkbn) as [_ [_ [Hlast _]]].
    rewrite E, Hlast in Hqm. destruct Hfz as [_ [_ [_ HQ]]]. lia.
  - rewrite Hsamef. destruct Hfin as [H|H]; [left; exact H | right; lia].
Qed.

Theorem import_on_chain nd b p t : node_good c nd -> on_chain (p :: t) nd -> grounded (b :: p :: t) ->
  known (p :: t) (b_id b) = false -> b_score p < b_score b -> (exists f, find_blk (p :: t) (e_fin (n_eng nd)) = Some f) ->
  on_chain (b :: p :: t) (fst (import true c nd b)).
Proof.
  intros Hgood Hon Hg Hfresh Hsc [f Hf]. pose proof Hon as [Hrepo _].
  pose proof (inv_wf c _ (ng_inv c nd Hgood)) as Hwf. rewrite Hrepo in Hwf.
  pose proof Hg as Hg0. cbn in Hg. destruct Hg as [Hpar [Hnum Hgt]].
  unfold import. rewrite Hrepo, Hfresh, Hpar, (known_in (p :: t) p ltac:(left; reflexivity)). cbn [negb].
  assert (Hacc : accepts (p :: t) (n_eng nd) (b_id p) = true).
  { unfold accepts. destruct (negb (idnum (e_fin (n_eng nd)) =? 0)); [|reflexivity].
    destruct (find_blk_id _ _ _ Hf) as [Hid Hin]. rewrite <- Hid.
    apply (linear_has_block (p :: t) p f Hgt Hwf ltac:(left; reflexivity) Hin).
    destruct Hin as [<-|Hin]; [lia | pose proof (grounded_nums p t Hgt f Hin); lia]. }
  rewrite Hacc. cbn [negb]. apply add_and_commit_on_chain; assumption.
Qed.

Theorem propose_on_chain nd b p t : node_good c nd -> on_chain (p :: t) nd -> grounded (p :: t) ->
  honest_ok c nd b = true -> known (p :: t) (b_id b) = false -> root_free (b :: p :: t) ->
  on_chain (b :: p :: t) (fst (fst (propose true c nd b))) /\ grounded (b :: p :: t) /\ b_score p < b_score b /\
  (0 < b_num b -> b_com b = com_rule c b (p :: t)).
Proof.
  intros Hgood Hon Hgt Hok Hfresh Hroot'. pose proof Hon as [Hrepo [p0 [t0 [E0 [Hbest Hfin]]]]]. inversion E0; subst p0 t0. clear E0.
  pose proof Hgood as [Hi Hfc Hfs Hroot Hca]. pose proof (inv_wf c _ Hi) as Hwf. pose proof (inv_qs c _ Hi) as Hqs.
  destruct (honest_ok_facts c nd b Hok) as [Hs [Hpar [Hnum [v [Hv Hvc]]]]].
  assert (Hbb : best_blk nd = p).
  { unfold best_blk. rewrite Hrepo, Hbest. rewrite Hrepo in Hwf. rewrite (find_blk_in (p :: t) p Hwf ltac:(left; reflexivity)). reflexivity. }
  rewrite Hbb in Hnum.
  assert (Hg' : grounded (b :: p :: t)) by (cbn [grounded]; split; [rewrite Hpar; exact Hbest | split; [exact Hnum | exact Hgt]]).
  assert (Hsc : b_score p < b_score b).
  { unfold honest_ok in Hok. repeat (apply andb_prop in Hok; destruct Hok as [Hok ?]). rewrite Hbb in *. apply N.ltb_lt. assumption. }
  split; [|split; [exact Hg' | split; [exact Hsc|]]].
  - (* the node after ShouldVote, then the packing flavour of add_and_commit *)
    unfold propose.
    pose proof (should_vote_keeps c (n_repo nd) (n_eng nd) (b_parent b)) as Hk. cbv zeta in Hk.
    pose proof (should_vote_casts_ok c HL nd (b_parent b) Hi Hroot Hca) as Hsc1. cbv zeta in Hsc1.
    destruct (should_vote c (n_repo nd) (n_eng nd) (b_parent b)) as [e1 v0] eqn:Esv. cbn [fst snd] in *. subst v0.
    destruct Hk as [Hq1 [Hf1 Hm1]]. destruct Hsc1 as [Hc1 _].
    set (nd1 := mkN (n_repo nd) (n_best nd) e1).
    assert (Hg1 : node_good c nd1).
    { unfold nd1. constructor; cbn [n_repo n_eng n_best].
      - apply inv_eng_irrelevant; assumption.
      - unfold fin_cp in *. cbn [n_eng]. rewrite Hf1. exact Hfc.
      - rewrite Hf1. exact Hfs.
      - exact Hroot.
      - exact Hc1. }
    assert (Hon1 : on_chain (p :: t) nd1).
    { unfold on_chain, nd1. cbn [n_repo n_best n_eng]. rewrite Hf1. split; [exact Hrepo|]. exists p, t. tauto. }
    pose proof (add_and_commit_on_chain nd1 b p t true Hg1 Hon1 Hg' Hfresh Hsc) as H.
    destruct (add_and_commit true c nd1 b true) as [nd' code]. exact H.
  - (* the COM bit is the com rule *)
    intros Hpos. rewrite Hrepo in *.
    pose proof (should_vote_linear c HL (p :: t) (n_eng nd) p (idnum (e_fin (n_eng nd)) / L) Hgt Hwf Hqs ltac:(left; reflexivity)) as Hlin.
    rewrite (grounded_head_chain p t Hgt Hwf) in Hlin. rewrite Hpar, Hbest in Hv. rewrite Hlin in Hv.
    + inversion Hv. rewrite <- Hvc, <- H0. unfold com_rule. rewrite Hnum. reflexivity.
    + unfold casts_ok in Hca. rewrite Hrepo in Hca. destruct (e_casts (n_eng nd)); [exact (ci_stored c _ _ _ _ _ Hca) | exact I].
    + exact (is_checkpoint_mul L HL _ Hfc).
    + intros _ Hge. unfold checkpoint. assert (1 <= b_num p / L) by (apply N.div_le_lower_bound; lia).
      destruct Hfin as [H0|H0]; [rewrite H0; nia | nia].
Qed.
End SyncNode.

(* ---------------------------------------------------------------- rounds *)

Definition round (n : nat) (i : nat) (b : blk) : list event := EPropose i b :: map (fun j => EImport j b) (seq 0 n).
Fixpoint sync_run (n : nat) (ps : list (nat * blk)) : list event :=
  match ps with [] => [] | (i, b) :: t => round n i b ++ sync_run n t end.

Section SyncRun.
Variable c : cfg.
Hypothesis HL : 0 < c_L c.
Notation L := (c_L c).
Variable g : blk.
Hypothesis Hg : b_num g = 0.
Variable masters : list N.
Hypothesis Hnd : NoDup masters.
Notation W0 := (map (init_node g) masters).
Notation WG := (world_good c g [] masters).

Lemma no_byz : forall m, In m masters -> ~ In m (@nil N).
Proof. intros m _ []. Qed.

Record sync_inv (w : list node) (seen : repo) : Prop := mkSI {
  si_world : WG w seen;
  si_grounded : grounded seen;
  si_honest : honest_chain c seen;
  si_nodes : forall i nd, nth_error w i = Some nd -> on_chain c seen nd }.

Lemma grounded_cons_inv seen : grounded seen -> exists p t, seen = p :: t.
Proof. destruct seen as [|p t]; [intros []|]. intros _. exists p, t. reflexivity. Qed.

Lemma known_false_not_in r b : wf_repo r -> known r (b_id b) = false -> ~ In b r.
Proof. intros _ H Hin. rewrite (known_in r b Hin) in H. discriminate. Qed.

(* delivering one stored block b (the head of the global chain b :: p :: t) to a list of distinct nodes *)
Lemma deliver_all b p t (w1 : list node) (js : list nat) : forall w done rest,
  NoDup (done ++ js) ->
  WG w (b :: p :: t) -> grounded (b :: p :: t) -> known (p :: t) (b_id b) = false -> b_score p < b_score b ->
  (forall j nd, nth_error w j = Some nd -> on_chain c (b :: p :: t) nd \/ on_chain c (p :: t) nd) ->
  (forall j, nth_error w j = match nth_error w1 j with
                             | Some nd1 => Some (if existsb (Nat.eqb j) done then fst (import true c nd1 b) else nd1)
                             | None => None end) ->
  valid_run_b true c [] w (b :: p :: t) (map (fun j => EImport j b) js ++ rest) = true ->
  known (seen_after (b :: p :: t) (map (fun j => EImport j b) js ++ rest)) (b_parent g) = false ->
  let w' := world_after c w (map (fun j => EImport j b) js) in
  WG w' (b :: p :: t) /\
  (forall j nd, nth_error w' j = Some nd -> (In j js -> on_chain c (b :: p :: t) nd) /\ (on_chain c (b :: p :: t) nd \/ on_chain c (p :: t) nd)) /\
  (forall j, nth_error w' j = match nth_error w1 j with
                              | Some nd1 => Some (if existsb (Nat.eqb j) (done ++ js) then fst (import true c nd1 b) else nd1)
                              | None => None end) /\
  valid_run_b true c [] w' (b :: p :: t) rest = true /\
  seen_after (b :: p :: t) (map (fun j => EImport j b) js ++ rest) = seen_after (b :: p :: t) rest.
Proof.
  induction js as [|j js IH]; intros w done rest Hnd' Hw Hgr Hfresh Hsc Hon Htrack Hv Hroot; cbv zeta.
  - cbn [map app world_after fold_left] in *. rewrite app_nil_r. split; [exact Hw|]. split; [|split; [exact Htrack | split; [exact Hv | reflexivity]]].
    intros j nd Hn. split; [intros []|exact (Hon j nd Hn)].
  - cbn [map app] in Hv, Hroot |- *. rewrite (valid_run_cons c []) in Hv. apply andb_prop in Hv. destruct Hv as [Hok Hv].
    assert (Hfb : find_blk (b :: p :: t) (b_id b) = Some b) by (unfold find_blk; cbn [find]; rewrite N.eqb_refl; reflexivity).
    assert (Hseen : snd (ev_check c [] w (b :: p :: t) (EImport j b)) = b :: p :: t) by (cbn [ev_check]; rewrite Hfb; reflexivity).
    rewrite Hseen in Hv. rewrite (seen_after_cons c [] (b :: p :: t) (EImport j b) _ w), Hseen in Hroot.
    assert (Hw' : WG (step_plain true c w (EImport j b)) (b :: p :: t)).
    { rewrite <- Hseen. apply (world_step c HL g [] masters no_byz Hnd w (b :: p :: t) (EImport j b) Hw Hok). rewrite Hseen.
      destruct (known (b :: p :: t) (b_parent g)) eqn:E; [|reflexivity].
      rewrite (known_incl _ _ _ (seen_after_incl _ _) E) in Hroot. discriminate. }
    assert (Hnj : ~ In j done /\ ~ In j js /\ NoDup (done ++ [j] ++ js)) by (split; [|split]; [apply NoDup_remove_2 in Hnd'; rewrite in_app_iff in Hnd'; tauto .. | exact Hnd']).
    destruct Hnj as [Hjd [Hjj _]].
    assert (Hdj : existsb (Nat.eqb j) done = false).
    { destruct (existsb (Nat.eqb j) done) eqn:E; [|reflexivity]. apply existsb_exists in E. destruct E as [x [Hx E]]. apply Nat.eqb_eq in E. subst x. contradiction. }
    (* the state of node j after the delivery *)
    assert (Hstep : forall k nd, nth_error (step_plain true c w (EImport j b)) k = Some nd ->
              (k = j -> on_chain c (b :: p :: t) nd) /\ (on_chain c (b :: p :: t) nd \/ on_chain c (p :: t) nd)).
    { intros k nd Hk. cbn [step_plain] in Hk. destruct (nth_error w j) as [ndj|] eqn:Ej.
      - rewrite nth_error_set_nth, Ej in Hk. destruct (Nat.eqb j k) eqn:Ejk.
        + apply Nat.eqb_eq in Ejk. subst k. inversion Hk; subst nd.
          assert (Hnew : on_chain c (b :: p :: t) (fst (import true c ndj b))).
          { destruct (wg_nodes c g [] masters _ _ Hw j ndj Ej) as [Hgood _].
            destruct (Hon j ndj Ej) as [Hb|Ho].
            - (* already stored: the import is a no-op *)
              destruct Hb as [Hr X]. unfold import. rewrite Hr. rewrite (known_in (b :: p :: t) b ltac:(left; reflexivity)). split; [exact Hr | exact X].
            - apply import_on_chain; try assumption. destruct Ho as [Hr _]. rewrite <- Hr. exact (ng_finst c ndj Hgood). }
          split; [intros _; exact Hnew | left; exact Hnew].
        + split; [intros E; subst k; rewrite Nat.eqb_refl in Ejk; discriminate | exact (Hon k nd Hk)].
      - split; [intros E; subst k; rewrite Ej in Hk; discriminate | exact (Hon k nd Hk)]. }
    assert (Htrack' : forall k, nth_error (step_plain true c w (EImport j b)) k =
              match nth_error w1 k with
              | Some nd1 => Some (if existsb (Nat.eqb k) (done ++ [j]) then fst (import true c nd1 b) else nd1)
              | None => None end).
    { intros k. cbn [step_plain]. destruct (nth_error w j) as [ndj|] eqn:Ej.
      - rewrite nth_error_set_nth, Ej. destruct (Nat.eqb j k) eqn:Ejk.
        + apply Nat.eqb_eq in Ejk. subst k. pose proof (Htrack j) as Hj. rewrite Ej in Hj.
          destruct (nth_error w1 j) as [nd1|]; [|discriminate]. rewrite Hdj in Hj. inversion Hj; subst ndj.
          rewrite existsb_app. cbn [existsb]. rewrite Nat.eqb_refl, orb_true_r. reflexivity.
        + rewrite (Htrack k). destruct (nth_error w1 k) as [nd1|]; [|reflexivity]. rewrite existsb_app. cbn [existsb].
          rewrite Nat.eqb_sym, Ejk, !orb_false_r. reflexivity.
      - rewrite (Htrack k). destruct (nth_error w1 k) as [nd1|] eqn:E1; [|reflexivity]. rewrite existsb_app. cbn [existsb].
        destruct (Nat.eqb k j) eqn:Ekj; [|rewrite !orb_false_r; reflexivity].
        apply Nat.eqb_eq in Ekj. subst k. pose proof (Htrack j) as Hj. rewrite Ej, E1 in Hj. discriminate. }
    destruct (IH (step_plain true c w (EImport j b)) (done ++ [j]) rest ltac:(rewrite <- app_assoc; exact Hnd') Hw' Hgr Hfresh Hsc
                (fun k nd Hk => proj2 (Hstep k nd Hk)) Htrack' Hv Hroot) as [A [B [C [D E]]]].
    unfold world_after in *. cbn [fold_left]. split; [exact A|]. split; [|split; [|split; [exact D|]]].
    + intros k nd Hk. destruct (B k nd Hk) as [B1 B2]. split; [|exact B2]. intros [<-|Hin]; [|exact (B1 Hin)].
      (* node j was set by this step and is untouched by the later deliveries (j not in js) *)
      pose proof (C j) as Cj. rewrite Hk in Cj. pose proof (Htrack' j) as Tj.
      destruct (nth_error w1 j) as [nd1|] eqn:E1; [|discriminate].
      assert (Ex : existsb (Nat.eqb j) ((done ++ [j]) ++ js) = true) by (rewrite !existsb_app; cbn [existsb]; rewrite Nat.eqb_refl; rewrite !orb_true_r; reflexivity).
      assert (Ey : existsb (Nat.eqb j) (done ++ [j]) = true) by (rewrite existsb_app; cbn [existsb]; rewrite Nat.eqb_refl, orb_true_r; reflexivity).
      rewrite Ex in Cj. rewrite Ey in Tj. inversion Cj; subst nd.
      exact (proj1 (Hstep j _ Tj) eq_refl).
    + intros k. rewrite (C k). rewrite <- app_assoc. reflexivity.
    + rewrite (seen_after_cons c [] (b :: p :: t) (EImport j b) _ w), Hseen. exact E.
Qed.

Lemma length_set_nth {A} (l : list A) i x : length (set_nth l i x) = length l.
Proof. revert i. induction l as [|a l IH]; intros [|i]; cbn; try reflexivity. rewrite IH. reflexivity. Qed.

Lemma step_plain_length w ev : length (step_plain true c w ev) = length w.
Proof. destruct ev as [i b|i b|i]; cbn [step_plain]; destruct (nth_error w i); try reflexivity; apply length_set_nth. Qed.

Lemma world_after_length evs : forall w, length (world_after c w evs) = length w.
Proof. induction evs as [|ev t IH]; intros w; [reflexivity|]. cbn [world_after fold_left]. fold (world_after c (step_plain true c w ev) t). rewrite IH. apply step_plain_length. Qed.

Lemma world_after_app a : forall w b', world_after c w (a ++ b') = world_after c (world_after c w a) b'.
Proof. intros w b'. unfold world_after. apply fold_left_app. Qed.

(* one round: node i proposes b on its best block, then b is delivered to every node *)
Theorem round_step n i b w seen rest : sync_inv w seen -> length w = n ->
  valid_run_b true c [] w seen (round n i b ++ rest) = true ->
  known (seen_after seen (round n i b ++ rest)) (b_parent g) = false ->
  let w' := world_after c w (round n i b) in
  sync_inv w' (b :: seen) /\ valid_run_b true c [] w' (b :: seen) rest = true /\
  seen_after seen (round n i b ++ rest) = seen_after (b :: seen) rest /\
  exists ndi, nth_error w i = Some ndi /\ honest_ok c ndi b = true /\
    forall j nd', nth_error w' j = Some nd' -> exists nd, nth_error w j = Some nd /\
      nd' = fst (import true c (if Nat.eqb i j then fst (fst (propose true c nd b)) else nd) b).
Proof.
  intros [Hw Hgr Hhon Hnodes] Hlen Hv Hroot. cbv zeta.
  destruct (grounded_cons_inv seen Hgr) as [p [t Es]]. subst seen.
  unfold round in *. cbn [app] in Hv, Hroot. rewrite (valid_run_cons c []) in Hv. apply andb_prop in Hv. destruct Hv as [Hok Hv].
  cbn [ev_check fst snd] in Hok, Hv. rewrite (seen_after_cons c [] (p :: t) (EPropose i b) _ w) in Hroot. cbn [ev_check snd] in Hroot.
  destruct (nth_error w i) as [ndi|] eqn:Ei; [|discriminate].
  apply andb_prop in Hok. destruct Hok as [Hok Hhonest]. apply andb_prop in Hok. destruct Hok as [_ Hfresh]. apply negb_true_iff in Hfresh.
  assert (Hok' : fst (ev_check c [] w (p :: t) (EPropose i b)) = true) by (cbn [ev_check fst]; rewrite Ei, Hfresh, Hhonest; reflexivity).
  assert (Hw1 : WG (step_plain true c w (EPropose i b)) (b :: p :: t)).
  { apply (world_step c HL g [] masters no_byz Hnd w (p :: t) (EPropose i b) Hw Hok'). cbn [ev_check snd].
    destruct (known (b :: p :: t) (b_parent g)) eqn:E; [|reflexivity].
    rewrite (known_incl _ _ _ (seen_after_incl _ _) E) in Hroot. discriminate. }
  destruct (wg_nodes c g [] masters _ _ Hw i ndi Ei) as [Hgoodi _].
  assert (Hrf : root_free (b :: p :: t)).
  { apply (root_free_sub g (b :: p :: t)); [exact (wg_wf c g [] masters _ _ Hw1) | exact (wg_last c g [] masters _ _ Hw1) | exact (wg_root c g [] masters _ _ Hw1) | intros x Hx; exact Hx]. }
  destruct (propose_on_chain c HL ndi b p t Hgoodi (Hnodes i ndi Ei) Hgr Hhonest Hfresh Hrf) as [Honi [Hgr' [Hsc Hcom]]].
  set (w1 := step_plain true c w (EPropose i b)) in *.
  assert (Hw1n : forall j, nth_error w1 j = if Nat.eqb i j then Some (fst (fst (propose true c ndi b))) else nth_error w j).
  { intros j. unfold w1. cbn [step_plain]. rewrite Ei, nth_error_set_nth, Ei. reflexivity. }
  assert (Hon1 : forall j nd, nth_error w1 j = Some nd -> on_chain c (b :: p :: t) nd \/ on_chain c (p :: t) nd).
  { intros j nd Hj. rewrite Hw1n in Hj. destruct (Nat.eqb i j); [inversion Hj; subst nd; left; exact Honi | right; exact (Hnodes j nd Hj)]. }
  destruct (deliver_all b p t w1 (seq 0 n) w1 [] rest ltac:(cbn [app]; apply seq_NoDup) Hw1 Hgr' Hfresh Hsc Hon1
              ltac:(intros j; destruct (nth_error w1 j); reflexivity) Hv Hroot) as [A [B [C [D E]]]].
  cbn [app] in C. cbn [world_after fold_left]. fold w1. fold (world_after c w1 (map (fun j => EImport j b) (seq 0 n))).
  assert (Hlen' : length (world_after c w1 (map (fun j => EImport j b) (seq 0 n))) = n).
  { rewrite world_after_length. unfold w1. rewrite step_plain_length. exact Hlen. }
  split; [|split; [exact D | split]].
  - constructor; [exact A | exact Hgr' | cbn [honest_chain]; split; [exact Hcom | exact Hhon] |].
    intros j nd Hj. apply (proj1 (B j nd Hj)). apply in_seq. split; [lia|]. cbn. rewrite <- Hlen'. apply nth_error_Some. rewrite Hj. discriminate.
  - cbn [app]. rewrite (seen_after_cons c [] (p :: t) (EPropose i b) _ w). cbn [ev_check snd]. exact E.
  - exists ndi. split; [reflexivity|]. split; [exact Hhonest|]. intros j nd' Hj. pose proof (C j) as Cj. rewrite Hj, Hw1n in Cj.
    assert (Hin : existsb (Nat.eqb j) (seq 0 n) = true).
    { apply existsb_exists. exists j. split; [|apply Nat.eqb_refl]. apply in_seq. split; [lia|]. cbn. rewrite <- Hlen'. apply nth_error_Some. rewrite Hj. discriminate. }
    rewrite Hin in Cj. destruct (Nat.eqb i j) eqn:Eij.
    + apply Nat.eqb_eq in Eij. subst j. exists ndi. split; [exact Ei|]. inversion Cj. reflexivity.
    + destruct (nth_error w j) as [nd|] eqn:Ej; [|discriminate]. exists nd. split; [reflexivity|]. inversion Cj. reflexivity.
Qed.

Lemma init_sync : known [g] (b_parent g) = false -> sync_inv W0 [g].
Proof.
  intros Hk. constructor.
  - apply (init_world c HL g Hg [] masters); [tauto | exact Hk].
  - exact Hg.
  - cbn. split; [intros H; lia | exact I].
  - intros i nd Hn. apply nth_error_In in Hn. apply in_map_iff in Hn. destruct Hn as [m [<- _]].
    split; [reflexivity|]. exists g, []. split; [reflexivity|]. split; [reflexivity|]. left. cbn.
    change (idnum (b_id g)) with (b_num g). rewrite Hg. apply N.div_0_l. lia.
Qed.

(* every moment between rounds of an all-honest timely run: one chain everywhere, head = best, COM bits by the rule *)
Theorem sync_run_inv ps : forall w seen, sync_inv w seen -> length w = length masters ->
  valid_run_b true c [] w seen (sync_run (length masters) ps) = true ->
  known (seen_after seen (sync_run (length masters) ps)) (b_parent g) = false ->
  sync_inv (world_after c w (sync_run (length masters) ps)) (seen_after seen (sync_run (length masters) ps)).
Proof.
  induction ps as [|[i b] ps IH]; intros w seen Hs Hlen Hv Hroot; [exact Hs|].
  cbn [sync_run] in *. destruct (round_step (length masters) i b w seen _ Hs Hlen Hv Hroot) as [A [B [C _]]].
  rewrite world_after_app, C. apply IH; [exact A | rewrite world_after_length; exact Hlen | exact B | rewrite <- C; exact Hroot].
Qed.
End SyncRun.

(* ---------------------------------------------------------------- the assembled statements *)

Section SyncTheorems.
Variable c : cfg.
Hypothesis HL : 0 < c_L c.
Notation L := (c_L c).
Variable g : blk.
Hypothesis Hg : b_num g = 0.
Variable masters : list N.
Hypothesis Hnd : NoDup masters.
Notation W0 := (map (init_node g) masters).

Theorem sync_run_one_chain ps :
  let evs := sync_run (length masters) ps in
  let tree := seen_after [g] evs in
  valid_run_b true c [] W0 [g] evs = true -> known tree (b_parent g) = false ->
  grounded tree /\ honest_chain c tree /\
  forall i nd, nth_error (world_after c W0 evs) i = Some nd ->
    n_repo nd = tree /\ exists p t, tree = p :: t /\ n_best nd = b_id p.
Proof.
  cbv zeta. intros Hv Hroot.
  assert (Hk : known [g] (b_parent g) = false).
  { destruct (known [g] (b_parent g)) eqn:E; [|reflexivity]. rewrite (known_incl _ _ _ (seen_after_incl _ [g]) E) in Hroot. discriminate. }
  destruct (sync_run_inv c HL g Hg masters Hnd ps W0 [g] (init_sync c HL g Hg masters Hk) ltac:(apply map_length) Hv Hroot) as [_ Hgr Hhon Hnodes].
  split; [exact Hgr|]. split; [exact Hhon|]. intros i nd Hn. destruct (Hnodes i nd Hn) as [Hr [p [t [E [Hb _]]]]].
  split; [exact Hr|]. exists p, t. tauto.
Qed.

(* on that chain every closed epoch kb >= 1 with a quorum of signers is justified, and committed when the chain already
   held a justified epoch *)
Theorem sync_run_epochs_commit ps l1 b t kb :
  let evs := sync_run (length masters) ps in
  let tree := seen_after [g] evs in
  valid_run_b true c [] W0 [g] evs = true -> known tree (b_parent g) = false ->
  tree = l1 ++ b :: t -> b_num b = kb * L + L - 1 -> 1 <= kb ->
  (if thr_weight c =? 0 then thr_votes c <? N.of_nat (length (signers (snd (epoch_info c (b :: t)))))
   else thr_weight c <? sumw (weight_of c) (signers (snd (epoch_info c (b :: t))))) = true ->
  1 <= quality_pure c (suffix_at (kb * L - 1) (b :: t)) ->
  s_just (state_pure c (b :: t)) = true /\ s_comm (state_pure c (b :: t)) = true /\
  quality_pure c (b :: t) = quality_pure c (suffix_at (kb * L - 1) (b :: t)) + 1.
Proof.
  cbv zeta. intros Hv Hroot E Hnum Hkb Hq Hprev.
  destruct (sync_run_one_chain ps Hv Hroot) as [Hgr [Hhon _]]. rewrite E in Hgr, Hhon.
  apply (epoch_committed c HL (b :: t) b t kb); try assumption; try reflexivity.
  - apply (grounded_app l1); [exact Hgr | discriminate].
  - exact (honest_chain_app c l1 _ Hhon).
Qed.
End SyncTheorems.

(* ---------------------------------------------------------------- finality advances *)

Section SyncFinal.
Variable c : cfg.
Hypothesis HL : 0 < c_L c.
Notation L := (c_L c).

(* storing the block that closes epoch kb on a node that holds the chain below it: finalized becomes the first block of
   epoch kb - 1 when epochs kb - 1 and kb are committed as the chain-level theorem describes *)
Lemma commit_fin_on_chain nd b p t (packing : bool) kb :
  node_good c nd -> on_chain c (p :: t) nd -> grounded (b :: p :: t) -> known (p :: t) (b_id b) = false ->
  b_num b = kb * L + L - 1 -> 2 <= kb ->
  s_comm (state_pure c (b :: p :: t)) = true -> 1 < quality_pure c (b :: p :: t) ->
  quality_pure c (suffix_at ((kb - 2) * L + L - 1) (b :: p :: t)) < quality_pure c (suffix_at ((kb - 1) * L + L - 1) (b :: p :: t)) ->
  exists y, block_at (b :: p :: t) (b_id b) ((kb - 1) * L) = Some y /\ b_num y = (kb - 1) * L /\
            e_fin (n_eng (fst (add_and_commit true c nd b packing))) = b_id y.
Proof.
  intros Hgood [Hrepo [p0 [t0 [E0 [Hbest Hfin]]]]] Hg Hfresh Hnumb Hkb Hcomm HQ Hprev. inversion E0; subst p0 t0. clear E0.
  pose proof Hgood as [Hi Hfc Hfs Hroot Hca]. pose proof (inv_wf c _ Hi) as Hwf. pose proof (inv_qs c _ Hi) as Hqs.
  rewrite Hrepo in Hwf, Hqs.
  pose proof Hg as Hg0. cbn in Hg. destruct Hg as [Hpar [Hnum Hgt]].
  assert (Hpin : In p (p :: t)) by (left; reflexivity).
  assert (Hp : find_blk (p :: t) (b_parent b) = Some p) by (rewrite Hpar; apply find_blk_in; assumption).
  assert (Hvc : valid_child (n_repo nd) b) by (rewrite Hrepo; intros q Hq; rewrite Hp in Hq; inversion Hq; subst q; exact Hnum).
  assert (Hpk : known (n_repo nd) (b_parent b) = true) by (rewrite Hrepo, Hpar; apply known_in; exact Hpin).
  assert (Hfr : known (n_repo nd) (b_id b) = false) by (rewrite Hrepo; exact Hfresh).
  pose proof (add_and_commit_inv c HL true nd b false Hi Hfr Hpk Hvc) as Hi0.
  destruct (add_and_commit_packing_same c nd b) as [_ [_ Ef]]. cbv zeta in Ef.
  assert (Sf : e_fin (n_eng (fst (add_and_commit true c nd b packing))) = e_fin (n_eng (fst (add_and_commit true c nd b false)))).
  { destruct packing; [exact Ef | reflexivity]. }
  rewrite Sf. unfold add_and_commit in *. rewrite Hrepo in *. set (e := n_eng nd) in *.
  assert (Hwf' : wf_repo (b :: p :: t)).
  { cbn. split; [exact Hwf|]. split; [exact Hfresh|]. exists p. split; [exact Hp | exact Hnum]. }
  assert (Hfb : find_blk (b :: p :: t) (b_id b) = Some b) by (unfold find_blk; cbn [find]; rewrite N.eqb_refl; reflexivity).
  assert (Hself : chain_of (b :: p :: t) (b_id b) = b :: p :: t) by exact (grounded_chain_self (b :: p :: t) Hg0).
  assert (Hcs' : compute_state c (b :: p :: t) (e_qs e) b = state_pure c (chain_of (b :: p :: t) (b_id b))).
  { rewrite Hself. unfold compute_state. rewrite chain_of_fresh.
    - rewrite Hpar, (grounded_head_chain p t Hgt Hwf). apply state_of_chain_pure; [exact HL | exact Hg0|]. cbn [tl].
      rewrite <- (grounded_head_chain p t Hgt Hwf). apply qs_to_chain; assumption.
    - intros E. apply known_in in Hpin. rewrite <- Hpar, <- E in Hpin. cbn in Hfresh. rewrite Hpin in Hfresh. discriminate. }
  pose proof (is_checkpoint_mul L HL _ Hfc) as Hfa. fold e in Hfa. set (a := idnum (e_fin e) / L) in *.
  pose proof (commit_block_qs c true (b :: p :: t) e b false) as Hq.
  assert (Hsp : (storepoint L (b_num b) =? b_num b) = true) by (apply N.eqb_eq; rewrite Hnumb; apply storepoint_store; exact HL).
  rewrite Hsp in Hq.
  assert (Hak : a < kb).
  { assert (b_num p / L < kb + 1). { assert (b_num p = kb * L + L - 2) by lia. apply N.div_lt_upper_bound; [lia|]. nia. }
    destruct Hfin as [H0|H0]; fold e in H0; fold a in H0; lia. }
  pose proof (commit_finalizes c HL (b :: p :: t) e b a kb Hwf' Hfb) as Hcf.
  destruct (commit_block true c (b :: p :: t) e b false) as [e' err] eqn:Ecb. cbn [fst snd n_repo n_eng] in *.
  pose proof (inv_qs c _ Hi0) as Hqs'. cbn [n_repo n_eng] in Hqs'. rewrite Hq in Hqs'.
  apply (Hcf Hqs' Hcs' Hfa Hnumb Hak); rewrite ?Hself; try assumption.
  right. split; [exact Hkb|]. unfold q_epoch. rewrite Hself. exact Hprev.
Qed.

Lemma propose_as_commit nd b p t : node_good c nd -> on_chain c (p :: t) nd -> honest_ok c nd b = true ->
  exists nd1, node_good c nd1 /\ on_chain c (p :: t) nd1 /\ fst (fst (propose true c nd b)) = fst (add_and_commit true c nd1 b true).
Proof.
  intros Hgood Hon Hok. pose proof Hon as [Hrepo [p0 [t0 [E0 [Hbest Hfin]]]]]. inversion E0; subst p0 t0. clear E0.
  pose proof Hgood as [Hi Hfc Hfs Hroot Hca].
  destruct (honest_ok_facts c nd b Hok) as [_ [_ [_ [v [Hv _]]]]].
  unfold propose.
  pose proof (should_vote_keeps c (n_repo nd) (n_eng nd) (b_parent b)) as Hk. cbv zeta in Hk.
  pose proof (should_vote_casts_ok c HL nd (b_parent b) Hi Hroot Hca) as Hsc1. cbv zeta in Hsc1.
  destruct (should_vote c (n_repo nd) (n_eng nd) (b_parent b)) as [e1 v0] eqn:Esv. cbn [fst snd] in *. subst v0.
  destruct Hk as [Hq1 [Hf1 Hm1]]. destruct Hsc1 as [Hc1 _].
  exists (mkN (n_repo nd) (n_best nd) e1). split; [|split].
  - constructor; cbn [n_repo n_eng n_best].
    + apply inv_eng_irrelevant; assumption.
    + unfold fin_cp in *. cbn [n_eng]. rewrite Hf1. exact Hfc.
    + rewrite Hf1. exact Hfs.
    + exact Hroot.
    + exact Hc1.
  - unfold on_chain. cbn [n_repo n_best n_eng]. rewrite Hf1. split; [exact Hrepo|]. exists p, t. tauto.
  - destruct (add_and_commit true c _ b true) as [nd' code]. reflexivity.
Qed.
End SyncFinal.

Section SyncFinal2.
Variable c : cfg.
Hypothesis HL : 0 < c_L c.
Notation L := (c_L c).
Variable g : blk.
Hypothesis Hg : b_num g = 0.
Variable masters : list N.
Hypothesis Hnd : NoDup masters.
Notation W0 := (map (init_node g) masters).

Lemma import_unfold_on_chain nd b p t : node_good c nd -> on_chain c (p :: t) nd -> grounded (b :: p :: t) ->
  known (p :: t) (b_id b) = false -> import true c nd b = add_and_commit true c nd b false.
Proof.
  intros Hgood Hon Hg0 Hfresh. pose proof Hon as [Hrepo _].
  pose proof (inv_wf c _ (ng_inv c nd Hgood)) as Hwf. rewrite Hrepo in Hwf.
  destruct (ng_finst c nd Hgood) as [f Hf]. rewrite Hrepo in Hf.
  pose proof Hg0 as Hg1. cbn in Hg1. destruct Hg1 as [Hpar [Hnum Hgt]].
  unfold import. rewrite Hrepo, Hfresh, Hpar, (known_in (p :: t) p ltac:(left; reflexivity)). cbn [negb].
  assert (Hacc : accepts (p :: t) (n_eng nd) (b_id p) = true).
  { unfold accepts. destruct (negb (idnum (e_fin (n_eng nd)) =? 0)); [|reflexivity].
    destruct (find_blk_id _ _ _ Hf) as [Hid Hin]. rewrite <- Hid.
    apply (linear_has_block (p :: t) p f Hgt Hwf ltac:(left; reflexivity) Hin).
    destruct Hin as [<-|Hin]; [lia | pose proof (grounded_nums p t Hgt f Hin); lia]. }
  rewrite Hacc. reflexivity.
Qed.

Lemma seen_after_app_run pre : forall s post, seen_after s (pre ++ post) = seen_after (seen_after s pre) post.
Proof. induction pre as [|ev t IH]; intros s post; [reflexivity|]. destruct ev; cbn [app seen_after]; apply IH. Qed.

Lemma sync_run_app n a : forall b', sync_run n (a ++ b') = sync_run n a ++ sync_run n b'.
Proof. induction a as [|[i b] a IH]; intros b'; [reflexivity|]. cbn [app sync_run]. rewrite IH, app_assoc. reflexivity. Qed.

(* when the block closing epoch kb >= 2 has been delivered, after two consecutive epochs with a quorum of signers on a
   chain that already held a justified epoch, every node's finalized checkpoint is the first block of epoch kb - 1 *)
Theorem sync_run_finality_advances ps i b kb :
  let evs := sync_run (length masters) (ps ++ [(i, b)]) in
  let tree := seen_after [g] evs in
  valid_run_b true c [] W0 [g] evs = true -> known tree (b_parent g) = false ->
  b_num b = kb * L + L - 1 -> 2 <= kb ->
  (if thr_weight c =? 0 then thr_votes c <? N.of_nat (length (signers (snd (epoch_info c tree))))
   else thr_weight c <? sumw (weight_of c) (signers (snd (epoch_info c tree)))) = true ->
  (if thr_weight c =? 0 then thr_votes c <? N.of_nat (length (signers (snd (epoch_info c (suffix_at (kb * L - 1) tree)))))
   else thr_weight c <? sumw (weight_of c) (signers (snd (epoch_info c (suffix_at (kb * L - 1) tree))))) = true ->
  1 <= quality_pure c (suffix_at ((kb - 1) * L - 1) tree) ->
  exists y, block_at tree (b_id b) ((kb - 1) * L) = Some y /\ b_num y = (kb - 1) * L /\
    forall j nd, nth_error (world_after c W0 evs) j = Some nd -> e_fin (n_eng nd) = b_id y.
Proof.
  cbv zeta. rewrite sync_run_app. cbn [sync_run]. rewrite app_nil_r.
  set (evs0 := sync_run (length masters) ps). intros Hv Hroot Hnumb Hkb Hq1 Hq0 Hjust.
  rewrite (valid_run_app c [] evs0) in Hv. apply andb_prop in Hv. destruct Hv as [Hv0 Hv1].
  rewrite seen_after_app_run in Hroot, Hq1, Hq0, Hjust |- *. fold evs0 in Hq1, Hq0, Hjust.
  assert (Hk : known [g] (b_parent g) = false).
  { destruct (known [g] (b_parent g)) eqn:E; [|reflexivity].
    rewrite (known_incl _ _ _ (seen_after_incl _ _) (known_incl _ _ _ (seen_after_incl evs0 [g]) E)) in Hroot. discriminate. }
  assert (Hroot0 : known (seen_after [g] evs0) (b_parent g) = false).
  { destruct (known (seen_after [g] evs0) (b_parent g)) eqn:E; [|reflexivity]. rewrite (known_incl _ _ _ (seen_after_incl _ _) E) in Hroot. discriminate. }
  pose proof (sync_run_inv c HL g Hg masters Hnd ps W0 [g] (init_sync c HL g Hg masters Hk) ltac:(apply map_length) Hv0 Hroot0) as Hs0.
  fold evs0 in Hs0. set (w0 := world_after c W0 evs0) in *. set (seen0 := seen_after [g] evs0) in *.
  rewrite <- (app_nil_r (round (length masters) i b)) in Hv1, Hroot.
  destruct (round_step c HL g Hg masters Hnd (length masters) i b w0 seen0 [] Hs0
              ltac:(unfold w0; rewrite world_after_length; apply map_length) Hv1 Hroot) as [Hs1 [_ [Eseen [ndi [Ei [Hhonest Htrack]]]]]].
  rewrite app_nil_r in Eseen. cbn [seen_after] in Eseen. rewrite world_after_app. rewrite Eseen.
  rewrite Eseen in Hq1, Hq0, Hjust.
  pose proof Hs0 as [Hw0 Hgr0 Hhon0 Hnodes0]. pose proof Hs1 as [Hw1 Hgr1 Hhon1 _].
  destruct (grounded_cons_inv seen0 Hgr0) as [p [t Es]]. rewrite Es in *.
  pose proof (wg_wf c g [] masters _ _ Hw1) as Hwf1.
  assert (Hfresh : known (p :: t) (b_id b) = false) by (cbn in Hwf1; tauto).
  (* chain-level facts *)
  set (tree := b :: p :: t) in *.
  destruct (suffix_at_exists tree Hgr1 b (p :: t) eq_refl (kb * L - 1) ltac:(lia)) as [b' [t' [Hs' Hb'n]]].
  destruct (suffix_at_split tree (kb * L - 1)) as [l1 Hsplit]. rewrite Hs' in Hsplit.
  assert (Hgr' : grounded (b' :: t')) by (apply (grounded_app l1); [rewrite <- Hsplit; exact Hgr1 | discriminate]).
  assert (Hhon' : honest_chain c (b' :: t')) by (apply (honest_chain_app c l1); rewrite <- Hsplit; exact Hhon1).
  assert (Hcomp : suffix_at ((kb - 1) * L - 1) (b' :: t') = suffix_at ((kb - 1) * L - 1) tree).
  { rewrite <- Hs'. apply (suffix_at_comp tree Hgr1 b (p :: t) eq_refl); nia. }
  rewrite Hs' in Hq0.
  destruct (epoch_committed c HL (b' :: t') b' t' (kb - 1) Hgr' eq_refl Hhon' ltac:(nia) ltac:(lia) Hq0 ltac:(rewrite Hcomp; exact Hjust))
    as [_ [_ HQ']].
  rewrite Hcomp in HQ'.
  destruct (epoch_committed c HL tree b (p :: t) kb Hgr1 eq_refl Hhon1 Hnumb ltac:(lia) Hq1 ltac:(rewrite Hs'; lia)) as [_ [Hcomm HQ]].
  rewrite Hs' in HQ.
  assert (Hprevq : quality_pure c (suffix_at ((kb - 2) * L + L - 1) tree) < quality_pure c (suffix_at ((kb - 1) * L + L - 1) tree)).
  { replace ((kb - 2) * L + L - 1) with ((kb - 1) * L - 1) by nia. replace ((kb - 1) * L + L - 1) with (kb * L - 1) by nia. rewrite Hs'. lia. }
  assert (HQ1 : 1 < quality_pure c tree) by lia.
  (* the proposer's node decides y *)
  destruct (wg_nodes c g [] masters _ _ Hw0 i ndi Ei) as [Hgoodi _].
  destruct (propose_as_commit c HL ndi b p t Hgoodi (Hnodes0 i ndi Ei) Hhonest) as [nd1 [Hg1 [Ho1 Eprop]]].
  destruct (commit_fin_on_chain c HL nd1 b p t true kb Hg1 Ho1 Hgr1 Hfresh Hnumb Hkb Hcomm HQ1 Hprevq) as [y [Hy [Hyn Hfy]]].
  exists y. split; [exact Hy|]. split; [exact Hyn|].
  intros j nd' Hj. destruct (Htrack j nd' Hj) as [nd [Hnj ->]].
  destruct (wg_nodes c g [] masters _ _ Hw0 j nd Hnj) as [Hgoodj _].
  destruct (Nat.eqb i j) eqn:Eij.
  - apply Nat.eqb_eq in Eij. subst j. rewrite Ei in Hnj. inversion Hnj; subst nd.
    destruct (propose_good c HL ndi b Hgoodi Hhonest) as [_ [Hrepo' _]].
    + destruct (Hnodes0 i ndi Ei) as [Hr _]. rewrite Hr. exact Hfresh.
    + apply (root_free_sub g tree); [exact Hwf1 | exact (wg_last c g [] masters _ _ Hw1) | exact (wg_root c g [] masters _ _ Hw1)|].
      destruct (Hnodes0 i ndi Ei) as [Hr _]. rewrite Hr. intros x Hx. exact Hx.
    + cbv zeta in Hrepo'. unfold import. rewrite Hrepo'. rewrite (known_in (b :: n_repo ndi) b ltac:(left; reflexivity)). cbn [fst].
      rewrite Eprop. exact Hfy.
  - rewrite (import_unfold_on_chain nd b p t Hgoodj (Hnodes0 j nd Hnj) Hgr1 Hfresh).
    destruct (commit_fin_on_chain c HL nd b p t false kb Hgoodj (Hnodes0 j nd Hnj) Hgr1 Hfresh Hnumb Hkb Hcomm HQ1 Hprevq) as [y' [Hy' [_ Hfy']]].
    rewrite Hy in Hy'. inversion Hy'; subst y'. exact Hfy'.
Qed.
End SyncFinal2.
