(* Bft/ProofsCommit.v — CommitBlock (with the F1 guard) never fails on a block the node accepts:
   findCheckpointByQuality's search always lands on a store point carrying exactly quality q-1.
   Hence no import of a numbered block fails in CommitBlock (commit_block_total). *)
From Coq Require Import List NArith ZArith Bool Lia.
From Coq Require Import ZifyN ZifyNat ZifyBool.
From Verif Require Import Common.Util Bft.Tree Bft.Model Bft.Quorum Bft.ProofsTally Bft.ProofsChain Bft.ProofsSearch
  Bft.ProofsSuffix Bft.ProofsNode Bft.ProofsFinal Bft.Safety.
Import ListNotations.
Open Scope N_scope.

Section Arith.
Variable L : N.
Hypothesis HL : 0 < L.

Lemma checkpoint_mul k : checkpoint L (k * L) = k * L.
Proof. unfold checkpoint. rewrite N.div_mul by lia. reflexivity. Qed.
Lemma storepoint_mul k : storepoint L (k * L) = k * L + L - 1.
Proof. unfold storepoint. rewrite checkpoint_mul. reflexivity. Qed.
Lemma div_store k : (k * L + L - 1) / L = k.
Proof. symmetry. apply (N.div_unique (k * L + L - 1) L k (L - 1)); lia. Qed.
Lemma checkpoint_store k : checkpoint L (k * L + L - 1) = k * L.
Proof. unfold checkpoint. rewrite div_store. reflexivity. Qed.
Lemma storepoint_store k : storepoint L (k * L + L - 1) = k * L + L - 1.
Proof. unfold storepoint. rewrite checkpoint_store. reflexivity. Qed.
Lemma div_span a k : a <= k -> (k * L + L - 1 - a * L) / L = k - a.
Proof. intros H. symmetry. apply (N.div_unique _ L (k - a) (L - 1)); nia. Qed.
Lemma is_checkpoint_mul n : is_checkpoint L n = true -> n = n / L * L.
Proof. unfold is_checkpoint, checkpoint. intros H. apply N.eqb_eq in H. lia. Qed.
Lemma storepoint_form n : storepoint L n = n -> n = n / L * L + L - 1.
Proof. unfold storepoint, checkpoint. lia. Qed.
End Arith.

Section Commit.
Variable c : cfg.
Hypothesis HL : 0 < c_L c.
Notation L := (c_L c).

Definition qs_ok (r : repo) (qs : list (N * N)) : Prop :=
  forall x, In x r -> storepoint L (b_num x) = b_num x -> get_q qs (b_id x) = qual c r x.

Lemma find_cp_total r qs fin head hb a kb :
  wf_repo r -> qs_ok r qs -> find_blk r head = Some hb ->
  idnum fin = a * L -> b_num hb = kb * L + L - 1 -> a < kb ->
  s_just (state_pure c (chain_of r head)) = true -> 1 < quality_pure c (chain_of r head) ->
  exists id, find_cp c r qs (quality_pure c (chain_of r head) - 1) fin head = Ok id.
Proof.
  intros Hwf Hqs Hhb Hfin Hnum Hak Hjust HQ1.
  destruct (chain_of_known r Hwf _ _ Hhb) as [t [HC Hg]].
  destruct (find_blk_id _ _ _ Hhb) as [Hid Hin].
  set (C := chain_of r head) in *. set (Q := quality_pure c C) in *.
  assert (HgC : grounded C) by (rewrite HC; exact Hg).
  assert (Hhead : idnum head = b_num hb) by (unfold b_num; rewrite Hid; reflexivity).
  set (n := kb - a + 1).
  set (sp := fun i => (a + i) * L + L - 1).
  set (qf := fun i => quality_pure c (suffix_at (sp i) C)).
  (* every store point of the search range is on the chain, with the right record *)
  assert (Hget : forall i, i < n -> exists x l2, suffix_at (sp i) C = x :: l2 /\ b_num x = sp i /\
                                   block_at r head (sp i) = Some x /\ get_q qs (b_id x) = qf i).
  { intros i Hi.
    destruct (suffix_at_exists C HgC hb t HC (sp i)) as [x [l2 [Hs Hx]]]; [unfold sp; rewrite Hnum; nia|].
    exists x, l2. split; [exact Hs|]. split; [exact Hx|]. split.
    - unfold block_at. fold C. rewrite at_num_suffix, Hs. reflexivity.
    - destruct (suffix_at_split C (sp i)) as [l1 Hsplit]. rewrite Hs in Hsplit.
      assert (HinC : In x r). { apply (chain_incl r head). fold C. rewrite Hsplit, in_app_iff. right. left. reflexivity. }
      rewrite (Hqs x HinC).
      + unfold qual, qf. rewrite (chain_suffix r Hwf head l1 x l2 Hsplit), Hs. reflexivity.
      + rewrite Hx. unfold sp. apply storepoint_store. exact HL. }
  (* the sequence has unit steps *)
  assert (Hstep : forall i, i + 1 < n -> qf i <= qf (i + 1) <= qf i + 1).
  { intros i Hi. destruct (Hget (i + 1) Hi) as [x [l2 [Hs [Hx _]]]].
    destruct (suffix_at_split C (sp (i + 1))) as [l1 Hsplit]. rewrite Hs in Hsplit.
    assert (Hgs : grounded (x :: l2)). { apply (grounded_app l1); [rewrite <- Hsplit; exact HgC | discriminate]. }
    assert (Hcpx : checkpoint L (b_num x) = (a + (i + 1)) * L) by (rewrite Hx; unfold sp; apply checkpoint_store; exact HL).
    destruct (quality_epoch_step c HL (x :: l2) x l2 Hgs eq_refl) as [Hb _]; [rewrite Hcpx; nia|].
    rewrite Hcpx in Hb.
    assert (Hprev : (a + (i + 1)) * L - 1 = sp i) by (unfold sp; nia).
    rewrite Hprev, <- Hs in Hb.
    rewrite (suffix_at_comp C HgC hb t HC (sp i) (sp (i + 1))) in Hb; [exact Hb | unfold sp; nia | unfold sp; rewrite Hnum; nia]. }
  assert (Hlast_sp : sp (n - 1) = b_num hb) by (unfold sp, n; rewrite Hnum; replace (a + (kb - a + 1 - 1)) with kb by lia; reflexivity).
  assert (Hlast : qf (n - 1) = Q).
  { unfold qf. rewrite Hlast_sp, HC. cbn [suffix_at]. rewrite N.eqb_refl. rewrite <- HC. reflexivity. }
  assert (Hjustq : qf (n - 1) = qf (n - 2) + 1).
  { rewrite Hlast.
    assert (Hcph : checkpoint L (b_num hb) = kb * L) by (rewrite Hnum; apply checkpoint_store; exact HL).
    destruct (quality_epoch_step c HL C hb t HgC HC) as [_ Hj]; [rewrite Hcph; nia|].
    rewrite Hcph in Hj. fold Q in Hj. rewrite (Hj Hjust). unfold qf. f_equal. f_equal. unfold sp, n.
      replace (a + (kb - a + 1 - 2)) with (kb - 1) by lia.
      remember (kb - 1) as k' eqn:Ek'. assert (Hk : kb = k' + 1) by lia. rewrite Hk. f_equal. lia. }
  (* run the search *)
  unfold find_cp. rewrite Hhead, Hfin.
  assert (Elt : (b_num hb <? a * L) = false) by (apply N.ltb_ge; rewrite Hnum; nia). rewrite Elt.
  assert (En : (b_num hb - a * L) / L + 1 = n).
  { unfold n. rewrite Hnum, (div_span L HL a kb) by lia. reflexivity. }
  rewrite En.
  set (get := fun i : N => quality_at r qs head (storepoint L (a * L + i * L))).
  assert (Hgeti : forall i, i < n -> get i = Ok (qf i)).
  { intros i Hi. unfold get. replace (a * L + i * L) with ((a + i) * L) by lia. rewrite (storepoint_mul L HL).
    fold (sp i). destruct (Hget i Hi) as [x [l2 [_ [_ [Hb Hq]]]]]. unfold quality_at. rewrite Hb, Hq. reflexivity. }
  set (f := fun i : N => match get i with Ok q => Ok (Q - 1 <=? q) | Err e => Err e end).
  destruct (search_total_lemma qf n Q ltac:(unfold n; lia) Hstep Hlast Hjustq HQ1 f) as [m [Hm [Hmn Hqm]]].
  { intros i Hi. unfold f. rewrite (Hgeti i Hi). reflexivity. }
  change (bsearch (S (N.to_nat n)) (fun i : N => match quality_at r qs head (storepoint L (a * L + i * L)) with
                                               | Ok q => Ok (Q - 1 <=? q) | Err e => Err e end) 0 n)
    with (bsearch (S (N.to_nat n)) f 0 n).
  rewrite Hm.
  assert (Emn : (m =? n) = false) by (apply N.eqb_neq; lia). rewrite Emn.
  change (quality_at r qs head (storepoint L (a * L + m * L))) with (get m).
  rewrite (Hgeti m Hmn), Hqm, N.eqb_refl. cbn [negb].
  destruct (suffix_at_exists C HgC hb t HC (a * L + m * L)) as [y [l3 [Hs Hy]]]; [rewrite Hnum; unfold n in Hmn; nia|].
  unfold block_at. fold C. rewrite at_num_suffix, Hs. eexists. reflexivity.
Qed.

(* ---------------------------------------------------------------- CommitBlock on an accepted block *)

Definition fin_cp (nd : node) : Prop := is_checkpoint L (idnum (e_fin (n_eng nd))) = true.

Lemma commit_block_no_error r e b :
  wf_repo r -> find_blk r (b_id b) = Some b ->
  qs_ok r (if storepoint L (b_num b) =? b_num b then (b_id b, s_q (compute_state c r (e_qs e) b)) :: e_qs e else e_qs e) ->
  compute_state c r (e_qs e) b = state_pure c (chain_of r (b_id b)) ->
  is_checkpoint L (idnum (e_fin e)) = true ->
  snd (commit_block true c r e b false) = 0.
Proof.
  intros Hwf Hb Hqs Hcs Hfc. unfold commit_block.
  destruct (storepoint L (b_num b) =? b_num b) eqn:Esp; [|reflexivity].
  rewrite Hcs in Hqs |- *. fold (quality_pure c (chain_of r (b_id b))) in Hqs |- *.
  destruct (s_comm (state_pure c (chain_of r (b_id b))) && (1 <? quality_pure c (chain_of r (b_id b))) &&
            (negb true || (idnum (e_fin e) <? checkpoint L (b_num b)))) eqn:Econd; [|reflexivity].
  apply andb_prop in Econd. destruct Econd as [Econd Eg]. apply andb_prop in Econd. destruct Econd as [Ecomm EQ].
  cbn [negb orb] in Eg. apply N.ltb_lt in Eg. apply N.ltb_lt in EQ. apply N.eqb_eq in Esp.
  pose proof (is_checkpoint_mul L HL _ Hfc) as Hfa.
  pose proof (storepoint_form L HL _ Esp) as Hkb.
  set (a := idnum (e_fin e) / L) in *. set (kb := b_num b / L) in *.
  assert (Hcpb : checkpoint L (b_num b) = kb * L) by reflexivity.
  assert (Hjust : s_just (state_pure c (chain_of r (b_id b))) = true).
  { unfold state_pure in *. apply committed_implies_justified_lemma. exact Ecomm. }
  destruct (find_cp_total r _ (e_fin e) (b_id b) b a kb Hwf Hqs Hb Hfa Hkb ltac:(rewrite Hcpb in Eg; nia) Hjust EQ) as [id Hid].
  rewrite Hid. reflexivity.
Qed.

(* the accepted path of import: result code 0, invariants kept, finalized stays a checkpoint number *)
Theorem add_and_commit_ok nd b :
  inv c nd -> fin_cp nd -> known (n_repo nd) (b_id b) = false -> known (n_repo nd) (b_parent b) = true ->
  valid_child (n_repo nd) b ->
  snd (add_and_commit true c nd b false) = 0 /\ fin_cp (fst (add_and_commit true c nd b false)).
Proof.
  intros Hi Hfc Hfresh Hpk Hvc.
  pose proof (add_and_commit_inv c HL true nd b false Hi Hfresh Hpk Hvc) as Hi'.
  destruct Hi as [Hwf Hqs Hbest Hmax].
  apply known_find in Hpk. destruct Hpk as [p Hp]. pose proof (Hvc p Hp) as Hn.
  set (r := n_repo nd) in *. set (e := n_eng nd) in *.
  assert (Hpid : b_parent b <> b_id b).
  { intros E. destruct (find_blk_id _ _ _ Hp) as [Hid Hin]. apply known_in in Hin. rewrite Hid, E in Hin. rewrite Hin in Hfresh. discriminate. }
  assert (Hcs : compute_state c (b :: r) (e_qs e) b = state_pure c (chain_of (b :: r) (b_id b))).
  { rewrite chain_of_head. unfold compute_state. rewrite chain_of_fresh by (intros E; apply Hpid; symmetry; exact E).
    apply (compute_state_pure_lemma c HL r (e_qs e) b p Hwf Hqs Hp Hn). }
  pose proof (inv_wf c _ Hi') as Hwf'. pose proof (inv_qs c _ Hi') as Hqs'.
  unfold add_and_commit in *. fold r e in Hwf', Hqs' |- *.
  pose proof (commit_block_qs c true (b :: r) e b false) as Hq.
  pose proof (commit_block_finalized true c (b :: r) e b false) as Hfin.
  destruct (commit_block true c (b :: r) e b false) as [e' err] eqn:Ecb. cbn [fst snd n_repo n_eng] in *.
  assert (Herr : err = 0).
  { pose proof (commit_block_no_error (b :: r) e b Hwf') as H. rewrite Ecb in H. cbn [snd] in H. apply H.
    - unfold find_blk. cbn [find]. rewrite N.eqb_refl. reflexivity.
    - rewrite <- Hq. exact Hqs'.
    - exact Hcs.
    - exact Hfc. }
  subst err. split; [reflexivity|]. unfold fin_cp. cbn [n_eng].
  destruct Hfin as [Hsame | [x [Hin [Hx Hle]]]].
  - rewrite Hsame. exact Hfc.
  - (* the new finalized block sits at start + m*L *)
    clear Hle. unfold commit_block in Ecb.
    destruct (storepoint L (b_num b) =? b_num b); [|inversion Ecb; subst; exact Hfc].
    destruct (s_comm _ && (1 <? s_q _) && _); [|inversion Ecb; subst; exact Hfc].
    destruct (find_cp _ _ _ _ _ _) as [id|code] eqn:Ef; cbn [negb N.eqb] in Ecb.
    + inversion Ecb; subst e'. cbn [e_fin] in *.
      destruct (find_cp_ok _ _ _ _ _ _ _ Ef) as [m [y [Hy Hidy]]]. destruct (block_at_num _ _ _ _ Hy) as [Hny _].
      rewrite Hidy. change (idnum (b_id y)) with (b_num y). rewrite Hny.
      assert (Hfa : idnum (e_fin e) = idnum (e_fin e) / L * L) by (apply is_checkpoint_mul; [exact HL | exact Hfc]).
      rewrite Hfa.
      unfold is_checkpoint. apply N.eqb_eq. replace (idnum (e_fin e) / L * L + m * L) with ((idnum (e_fin e) / L + m) * L) by lia.
      apply checkpoint_mul. exact HL.
    + destruct (code =? 0); inversion Ecb; subst; exact Hfc.
Qed.

Theorem import_ok nd b : inv c nd -> fin_cp nd -> valid_child (n_repo nd) b ->
  snd (import true c nd b) < 100 /\ inv c (fst (import true c nd b)) /\ fin_cp (fst (import true c nd b)).
Proof.
  intros Hi Hfc Hvc. pose proof (import_inv c HL true nd b Hi Hvc) as Hi'. split; [|split; [exact Hi'|]].
  - unfold import. destruct (known (n_repo nd) (b_id b)) eqn:Ek; [cbn; lia|].
    destruct (known (n_repo nd) (b_parent b)) eqn:Ep; cbn [negb]; [|cbn; lia].
    destruct (accepts _ _ _); cbn [negb]; [|cbn; lia].
    destruct (add_and_commit_ok nd b Hi Hfc Ek Ep Hvc) as [H0 _]. rewrite H0. lia.
  - unfold import. destruct (known (n_repo nd) (b_id b)) eqn:Ek; [exact Hfc|].
    destruct (known (n_repo nd) (b_parent b)) eqn:Ep; cbn [negb]; [|exact Hfc].
    destruct (accepts _ _ _); cbn [negb]; [|exact Hfc].
    exact (proj2 (add_and_commit_ok nd b Hi Hfc Ek Ep Hvc)).
Qed.
End Commit.

(* ---------------------------------------------------------------- whole histories *)

Lemma import_repo_incl guard c nd b x : In x (n_repo (fst (import guard c nd b))) -> x = b \/ In x (n_repo nd).
Proof.
  unfold import. destruct (known _ (b_id b)); [tauto|]. destruct (known _ (b_parent b)); cbn [negb]; [|tauto].
  destruct (accepts _ _ _); cbn [negb]; [|tauto].
  unfold add_and_commit. destruct (commit_block _ _ _ _ _ _). cbn. intros [H|H]; [left; symmetry; exact H | right; exact H].
Qed.

Theorem commit_block_total_lemma : commit_block_total_statement true.
Proof.
  intros c g master bs HL [Hg Hnum].
  assert (Hgen : forall rest nd, inv c nd -> fin_cp c nd -> (forall x, In x (n_repo nd) -> In x (g :: bs)) ->
                 (forall b, In b rest -> In b bs) ->
                 forall code, In code (import_codes true c nd rest) -> code < 100).
  { induction rest as [|b rest IH]; intros nd Hi Hfc Hsub Hrest code Hin; [destruct Hin|].
    cbn [import_codes] in Hin.
    assert (Hvc : valid_child (n_repo nd) b).
    { intros p Hp. destruct (find_blk_id _ _ _ Hp) as [Hid Hpin]. apply (Hnum b p); [apply Hrest; left; reflexivity | apply Hsub; exact Hpin | exact Hid]. }
    destruct (import_ok c HL nd b Hi Hfc Hvc) as [Hcode [Hi' Hfc']].
    destruct (import true c nd b) as [nd' code0] eqn:Eimp. cbn [fst snd] in *.
    destruct Hin as [<-|Hin]; [exact Hcode|].
    apply (IH nd' Hi' Hfc'); [| intros b' Hb'; apply Hrest; right; exact Hb' | exact Hin].
    intros x Hx. pose proof (import_repo_incl true c nd b x) as H. rewrite Eimp in H. cbn [fst] in H.
    destruct (H Hx) as [->|Hx']; [right; apply Hrest; left; reflexivity | apply Hsub; exact Hx']. }
  apply (Hgen bs (init_node g master)).
  - apply init_inv; assumption.
  - unfold fin_cp. cbn. unfold b_num in Hg. rewrite Hg. unfold is_checkpoint, checkpoint. rewrite N.div_0_l by lia. reflexivity.
  - cbn. intros x [<-|[]]. left. reflexivity.
  - tauto.
Qed.
