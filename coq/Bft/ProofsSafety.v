(* Bft/ProofsSafety.v — the proved parts of the multi-node safety argument (DESIGN §4, C03):
   the node invariants hold along ANY event history (import, own proposal, restart), hence
   Lemma A (the quality of the head an honest validator signs on never drops below that of anything it stored, in
   particular its own earlier blocks); Lemma B (a COM answer of ShouldVote certifies that every recorded own vote inside
   the window and at or above finalized is on one chain with the head's most recent justified checkpoint); and the
   intersection half of same_quality_commit_exclusive (two committed segments share more than (n-1)/3 validators all of
   whose votes in both segments are COM; with fewer than n/3 Byzantine one of them is honest). *)
From Coq Require Import List NArith ZArith Bool Lia Permutation.
From Coq Require Import ZifyN ZifyNat ZifyBool.
From Verif Require Import Common.Util Bft.Tree Bft.Model Bft.Quorum Bft.ProofsTally Bft.ProofsChain Bft.ProofsNode
  Bft.ProofsLive Bft.Safety.
Import ListNotations.
Open Scope N_scope.

Section Events.
Variable c : cfg.
Hypothesis HL : 0 < c_L c.

Lemma should_vote_keeps r e parent :
  let e' := fst (should_vote c r e parent) in
  e_qs e' = e_qs e /\ e_fin e' = e_fin e /\ e_master e' = e_master e.
Proof.
  unfold should_vote. destruct ((idnum parent + 1) / c_L c =? 0); [cbn; tauto|].
  destruct (find_blk r parent) as [p|]; [|cbn; tauto].
  destruct (s_q _ =? 0); [cbn; tauto|].
  destruct (if s_just _ then _ else _) as [recent|code]; cbn; tauto.
Qed.

Lemma inv_eng_irrelevant nd e' : inv c nd -> e_qs e' = e_qs (n_eng nd) -> inv c (mkN (n_repo nd) (n_best nd) e').
Proof.
  intros [Hwf Hqs Hb Hm] Eq. constructor; cbn [n_repo n_best n_eng]; try assumption.
  - rewrite Eq. exact Hqs.
Qed.

Theorem propose_inv guard nd b : inv c nd -> valid_child (n_repo nd) b ->
  known (n_repo nd) (b_id b) = false -> known (n_repo nd) (b_parent b) = true ->
  inv c (fst (fst (propose guard c nd b))).
Proof.
  intros Hi Hvc Hf Hp. unfold propose.
  pose proof (should_vote_keeps (n_repo nd) (n_eng nd) (b_parent b)) as Hk. cbv zeta in Hk.
  destruct (should_vote c (n_repo nd) (n_eng nd) (b_parent b)) as [e1 v] eqn:Esv. cbn [fst] in Hk.
  pose proof (inv_eng_irrelevant nd e1 Hi (proj1 Hk)) as Hi1.
  destruct v as [vb|code]; cbn [fst].
  - pose proof (add_and_commit_inv c HL guard (mkN (n_repo nd) (n_best nd) e1) b true Hi1 Hf Hp Hvc) as H.
    destruct (add_and_commit guard c _ b true) as [nd' code]. exact H.
  - exact Hi1.
Qed.

Theorem restart_inv nd : inv c nd -> inv c (restart nd).
Proof. intros Hi. unfold restart. apply inv_eng_irrelevant; [exact Hi | reflexivity]. Qed.

(* Lemma A: whatever a node stores (in particular every block it proposed itself) has at most the quality of its best
   block, the block it proposes on next *)
Theorem head_quality_monotone nd x : inv c nd -> In x (n_repo nd) -> qual c (n_repo nd) x <= qual c (n_repo nd) (best_blk nd).
Proof.
  intros Hi Hin. destruct (inv_best c _ Hi) as [bb Hbb].
  destruct (N.eq_dec (b_id x) (n_best nd)) as [E|E].
  - assert (x = bb). { pose proof (chain_of_stored _ x (inv_wf c _ Hi) Hin) as F. rewrite E, Hbb in F. inversion F. reflexivity. }
    subst x. unfold best_blk. rewrite Hbb. lia.
  - pose proof (inv_max c _ Hi x Hin E) as Hb. unfold beats in Hb. lia.
Qed.
End Events.

(* ---------------------------------------------------------------- Lemma B *)

Theorem should_vote_com_inv c r e parent e' :
  should_vote c r e parent = (e', Ok true) ->
  exists p recent ca,
    find_blk r parent = Some p /\ e_casts e' = Some ca /\
    0 < s_q (compute_state c r (e_qs e) p) /\ (idnum parent + 1) / c_L c <> 0 /\
    (forall cp q, In (cp, q) ca -> idnum (e_fin e) <= idnum cp -> s_q (compute_state c r (e_qs e) p) - 1 <= q ->
       has_block r cp recent = true \/ has_block r recent cp = true).
Proof.
  unfold should_vote.
  destruct ((idnum parent + 1) / c_L c =? 0) eqn:E1; [intros H; inversion H|]. apply N.eqb_neq in E1.
  destruct (find_blk r parent) as [p|]; [|intros H; inversion H].
  destruct (s_q (compute_state c r (e_qs e) p) =? 0) eqn:E2; [intros H; inversion H|]. apply N.eqb_neq in E2.
  destruct (if s_just _ then _ else _) as [recent|code]; [|intros H; inversion H].
  intros H. injection H as He Hv. subst e'.
  exists p, recent, (match e_casts e with Some ca => ca | None => new_casts c r e end).
  split; [reflexivity|]. split; [reflexivity|]. split; [lia|]. split; [exact E1|].
  intros cp q Hin Hfin Hq. rewrite forallb_forall in Hv. specialize (Hv (cp, q) Hin). cbn [fst snd] in Hv.
  assert (A1 : (idnum (e_fin e) <=? idnum cp) = true) by (apply N.leb_le; exact Hfin).
  assert (A2 : (s_q (compute_state c r (e_qs e) p) - 1 <=? q) = true) by (apply N.leb_le; exact Hq).
  rewrite A1, A2 in Hv. cbn [andb] in Hv. destruct (idnum recent <? idnum cp); [left | right]; exact Hv.
Qed.

(* ---------------------------------------------------------------- common COM voters of two committed segments *)

Section Common.
Variable c : cfg.
Hypothesis Hpoa : thr_weight c = 0.     (* vote-count mode *)

(* the validators all of whose votes in the segment are COM *)
Definition com_voters (seg : list blk) : list N :=
  filter (fun s => allcom (map (vote_of c) seg) s) (signers seg).

Lemma com_voters_count pq seg : j_com (tally c pq seg) = N.of_nat (length (com_voters seg)).
Proof.
  destruct (tally_keys c pq seg) as [N1 [Hk [_ [_ [C1 [_ [_ [_ Hcom]]]]]]]].
  set (js := tally c pq seg) in *. rewrite C1.
  assert (Hperm : Permutation (keys (j_votes js)) (signers seg)).
  { apply NoDup_Permutation; [exact N1 | apply NoDup_nodup | exact Hk]. }
  assert (E : sumf f_one (j_votes js) =
              N.of_nat (length (filter (fun s => allcom (map (vote_of c) seg) s) (keys (j_votes js))))).
  { unfold sumf, f_one, keys. clear Hperm Hk C1. revert N1 Hcom. generalize (j_votes js) as vs.
    induction vs as [|[s v] vs IH]; intros N1 Hcom; [reflexivity|]. cbn [map sumN snd fst filter].
    rewrite (Hcom s v (or_introl eq_refl)).
    inversion N1 as [|? ? _ N2]; subst.
    rewrite IH; [|exact N2 | intros s' v' H; apply Hcom; right; exact H].
    destruct (allcom _ s); cbn [length]; lia. }
  rewrite E. unfold com_voters. f_equal.
  clear -Hperm. induction Hperm; cbn; try lia.
  - destruct (allcom _ x); cbn; lia.
  - destruct (allcom _ x), (allcom _ y); cbn; lia.
Qed.

(* two committed segments: more than (n-1)/3 validators voted COM (and nothing but COM) in both *)
Theorem double_commit_common_voters pq1 pq2 seg1 seg2 (u : list N) :
  incl (signers seg1) u -> incl (signers seg2) u -> N.of_nat (length u) <= c_mbp c -> c_pos c = false ->
  s_comm (summarize (tally c pq1 seg1)) = true -> s_comm (summarize (tally c pq2 seg2)) = true ->
  (c_mbp c - 1) / 3 < N.of_nat (length (inter (com_voters seg1) (com_voters seg2))).
Proof.
  intros H1 H2 Hu Hp C1 C2.
  assert (Hthr : thr_votes c = c_mbp c * 2 / 3) by (unfold thr_votes; rewrite Hp; reflexivity).
  assert (Hc : forall pq seg, s_comm (summarize (tally c pq seg)) = true -> c_mbp c * 2 / 3 < N.of_nat (length (com_voters seg))).
  { intros pq seg H. destruct (tally_keys c pq seg) as [_ [_ [_ [_ [_ [_ [T [TW _]]]]]]]].
    unfold summarize in H. cbn [s_comm] in H. rewrite TW, Hpoa, T in H. cbn [N.eqb] in H.
    rewrite com_voters_count, Hthr in H. apply N.ltb_lt. exact H. }
  apply (quorum_intersection_count_lemma (c_mbp c) u).
  - apply NoDup_filter. apply NoDup_nodup.
  - apply NoDup_filter. apply NoDup_nodup.
  - intros s Hs. apply H1. unfold com_voters in Hs. apply filter_In in Hs. tauto.
  - intros s Hs. apply H2. unfold com_voters in Hs. apply filter_In in Hs. tauto.
  - exact Hu.
  - exact (Hc pq1 seg1 C1).
  - exact (Hc pq2 seg2 C2).
Qed.

(* with fewer than a third Byzantine one of them is honest: it signed in both segments and every block it signed there
   carries COM *)
Theorem double_commit_honest_voter pq1 pq2 seg1 seg2 (u byz : list N) :
  incl (signers seg1) u -> incl (signers seg2) u -> N.of_nat (length u) <= c_mbp c -> c_pos c = false ->
  NoDup byz -> 3 * N.of_nat (length byz) < c_mbp c ->
  s_comm (summarize (tally c pq1 seg1)) = true -> s_comm (summarize (tally c pq2 seg2)) = true ->
  exists h, ~ In h byz /\
    (exists x, In x seg1 /\ b_signer x = h) /\ (forall x, In x seg1 -> b_signer x = h -> b_com x = true) /\
    (exists x, In x seg2 /\ b_signer x = h) /\ (forall x, In x seg2 -> b_signer x = h -> b_com x = true).
Proof.
  intros H1 H2 Hu Hp Hnb Hb C1 C2.
  pose proof (double_commit_common_voters pq1 pq2 seg1 seg2 u H1 H2 Hu Hp C1 C2) as Hq.
  destruct (more_than_excludes (inter (com_voters seg1) (com_voters seg2)) byz) as [h [Hh Hnb']].
  - apply NoDup_filter. apply NoDup_filter. apply NoDup_nodup.
  - exact Hnb.
  - lia.
  - apply inter_In in Hh. destruct Hh as [Ha Hb2]. exists h. split; [exact Hnb'|].
    assert (Hsplit : forall seg, In h (com_voters seg) ->
              (exists x, In x seg /\ b_signer x = h) /\ (forall x, In x seg -> b_signer x = h -> b_com x = true)).
    { intros seg Hin. unfold com_voters in Hin. apply filter_In in Hin. destruct Hin as [Hs Hall]. split.
      - unfold signers in Hs. apply nodup_In in Hs. apply in_map_iff in Hs. destruct Hs as [x [E Hx]]. exists x. tauto.
      - intros x Hx Es. unfold allcom in Hall. rewrite forallb_forall in Hall.
        specialize (Hall (vote_of c x) (in_map _ _ _ Hx)). cbn in Hall. rewrite Es, N.eqb_refl in Hall. exact Hall. }
    destruct (Hsplit seg1 Ha) as [A1 A2]. destruct (Hsplit seg2 Hb2) as [B1 B2]. tauto.
Qed.
End Common.

(* ---------------------------------------------------------------- the statement that stays open *)

(* in a valid run with fewer than a third Byzantine no two epoch segments with conflicting checkpoints are both
   committed with the same resulting quality (global tree = every block made during the run) *)
Definition same_quality_commit_exclusive_statement (guard : bool) : Prop :=
  forall c g masters byz evs,
    0 < c_L c -> c_pos c = false -> b_num g = 0 -> NoDup masters -> NoDup byz -> (forall m, In m masters -> ~ In m byz) ->
    3 * N.of_nat (length byz) < c_mbp c -> N.of_nat (length masters + length byz) <= c_mbp c ->
    valid_run_b guard c byz (map (init_node g) masters) [g] evs = true ->
    let tree := seen_after [g] evs in
    forall b1 b2 cp1 cp2, In b1 tree -> In b2 tree ->
      s_comm (state_pure c (chain_of tree (b_id b1))) = true -> s_comm (state_pure c (chain_of tree (b_id b2))) = true ->
      quality_pure c (chain_of tree (b_id b1)) = quality_pure c (chain_of tree (b_id b2)) ->
      block_at tree (b_id b1) (checkpoint (c_L c) (b_num b1)) = Some cp1 ->
      block_at tree (b_id b2) (checkpoint (c_L c) (b_num b2)) = Some cp2 ->
      conflict tree (b_id cp1) (b_id cp2) = false.
