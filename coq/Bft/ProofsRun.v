(* Bft/ProofsRun.v — invariants of every node along any event history (import, own proposal with Mark, restart) and of
   the whole world along any valid run: node invariants, finalized is a stored checkpoint, the votes record covers every
   own block at or above finalized, every repository is a well-formed part of the global tree (so chains, qualities and
   states are the same wherever they are computed), and every block signed by an honest validator is stored at that
   validator's own node. *)
From Coq Require Import List NArith ZArith Bool Lia.
From Coq Require Import ZifyN ZifyNat ZifyBool.
From Verif Require Import Common.Util Bft.Tree Bft.Model Bft.Quorum Bft.ProofsTally Bft.ProofsChain Bft.ProofsSuffix
  Bft.ProofsNode Bft.ProofsFinal Bft.ProofsMonotone Bft.ProofsCommit Bft.ProofsOrder Bft.ProofsOrder2 Bft.ProofsVote
  Bft.Safety Bft.ProofsSafety Bft.ProofsTree2 Bft.ProofsCasts.
Import ListNotations.
Open Scope N_scope.

Section NodeSteps.
Variable c : cfg.
Hypothesis HL : 0 < c_L c.
Notation L := (c_L c).

Record node_good (nd : node) : Prop := mkNG {
  ng_inv : inv c nd;
  ng_fincp : fin_cp c nd;
  ng_finst : exists f, find_blk (n_repo nd) (e_fin (n_eng nd)) = Some f;
  ng_root : root_free (n_repo nd);
  ng_casts : casts_ok c nd }.

Lemma init_good g master : b_num g = 0 -> known [g] (b_parent g) = false -> node_good (init_node g master).
Proof.
  intros Hg Hp. constructor.
  - apply init_inv; assumption.
  - unfold fin_cp. cbn. unfold b_num in Hg. rewrite Hg. unfold is_checkpoint, checkpoint. rewrite N.div_0_l by lia. reflexivity.
  - exists g. cbn. unfold find_blk. cbn. rewrite N.eqb_refl. reflexivity.
  - intros z [<-|[]] _. exact Hp.
  - exact I.
Qed.

Lemma restart_good nd : node_good nd -> node_good (restart nd).
Proof.
  intros [Hi Hf Hs Hr Hc]. constructor; try assumption.
  - apply restart_inv. exact Hi.
  - exact I.
Qed.

Lemma best_in nd : inv c nd -> In (best_blk nd) (n_repo nd) /\ b_id (best_blk nd) = n_best nd.
Proof.
  intros Hi. destruct (inv_best c _ Hi) as [bb Hbb]. unfold best_blk. rewrite Hbb.
  destruct (find_blk_id _ _ _ Hbb). tauto.
Qed.

(* the accepted path, either flavour: what add_and_commit does to the node *)
Lemma add_and_commit_shape nd b packing :
  let nd' := fst (add_and_commit true c nd b packing) in
  n_repo nd' = b :: n_repo nd /\ e_master (n_eng nd') = e_master (n_eng nd) /\
  (n_best nd' = n_best nd \/ n_best nd' = b_id b).
Proof.
  unfold add_and_commit. cbv zeta.
  pose proof (commit_block_casts c true (b :: n_repo nd) (n_eng nd) b) as [_ Hm].
  destruct packing.
  - rewrite commit_block_packing. destruct (commit_block true c (b :: n_repo nd) (n_eng nd) b false) as [e1 err]. cbn [fst] in Hm.
    destruct (negb (err =? 0)); cbn [fst n_repo n_eng n_best].
    + split; [reflexivity|]. split; [exact Hm|]. destruct (select _ _ _ _ _); tauto.
    + destruct (e_casts e1); [destruct (block_at _ _ _)|]; cbn [fst n_repo n_eng n_best e_master];
        (split; [reflexivity|]; split; [exact Hm|]; destruct (select _ _ _ _ _); tauto).
  - destruct (commit_block true c (b :: n_repo nd) (n_eng nd) b false) as [e1 err]. cbn [fst n_repo n_eng n_best] in *.
    split; [reflexivity|]. split; [exact Hm|]. destruct (select _ _ _ _ _); tauto.
Qed.

Lemma add_and_commit_fin_le nd b packing :
  idnum (e_fin (n_eng nd)) <= idnum (e_fin (n_eng (fst (add_and_commit true c nd b packing)))) /\
  exists f, In f (b :: n_repo nd) /\ (find_blk (n_repo nd) (e_fin (n_eng nd)) <> None -> b_id f = e_fin (n_eng (fst (add_and_commit true c nd b packing)))).
Proof.
  unfold add_and_commit. pose proof (commit_block_finalized true c (b :: n_repo nd) (n_eng nd) b packing) as H. cbv zeta in H.
  destruct (commit_block true c (b :: n_repo nd) (n_eng nd) b packing) as [e' err]. cbn [fst n_eng] in *.
  destruct H as [->|[x [Hx [-> Hle]]]].
  - split; [lia|]. destruct (find_blk (n_repo nd) (e_fin (n_eng nd))) as [f|] eqn:E.
    + exists f. destruct (find_blk_id _ _ _ E). split; [right; assumption | intros _; assumption].
    + exists b. split; [left; reflexivity | intros H; contradiction].
  - split; [exact Hle|]. exists x. split; [exact (chain_incl _ _ _ Hx) | reflexivity].
Qed.

Lemma find_blk_in r x : wf_repo r -> In x r -> find_blk r (b_id x) = Some x.
Proof. intros. apply chain_of_stored; assumption. Qed.

Theorem add_and_commit_good nd b (packing : bool) :
  node_good nd -> known (n_repo nd) (b_id b) = false -> known (n_repo nd) (b_parent b) = true ->
  valid_child (n_repo nd) b -> root_free (b :: n_repo nd) ->
  (if packing return Prop then b_signer b = e_master (n_eng nd) /\ b_parent b = n_best nd /\ e_casts (n_eng nd) <> None
   else b_signer b <> e_master (n_eng nd)) ->
  node_good (fst (add_and_commit true c nd b packing)) /\ snd (add_and_commit true c nd b packing) = 0.
Proof.
  intros [Hi Hfc Hfs Hroot Hca] Hfresh Hpk Hvc Hroot' Hsig.
  pose proof (add_and_commit_inv c HL true nd b false Hi Hfresh Hpk Hvc) as Hi0.
  destruct (add_and_commit_ok c HL nd b Hi Hfc Hfresh Hpk Hvc) as [Herr0 Hfc0].
  pose proof (add_and_commit_fin_le nd b packing) as [Hfle [f [Hfin Hfid]]].
  pose proof (add_and_commit_shape nd b packing) as [Hrepo [Hmaster _]]. cbv zeta in Hrepo, Hmaster.
  pose proof (inv_wf c _ Hi) as Hwf. pose proof (inv_wf c _ Hi0) as Hwf0.
  pose proof (add_and_commit_shape nd b false) as [Hrepo0 _]. cbv zeta in Hrepo0. rewrite Hrepo0 in Hwf0.
  destruct (best_in nd Hi) as [Hbin Hbid].
  (* the engine after the import-flavoured CommitBlock *)
  unfold add_and_commit in *. set (r := n_repo nd) in *. set (e := n_eng nd) in *.
  pose proof (commit_block_casts c true (b :: r) e b) as [Hcasts1 Hmaster1].
  pose proof (commit_block_packing c true (b :: r) e b) as Hpack.
  destruct (commit_block true c (b :: r) e b false) as [e1 err] eqn:Ecb. cbn [fst snd n_repo n_eng n_best] in *.
  assert (Herr : err = 0) by (destruct (err =? 0) eqn:E; [apply N.eqb_eq in E; exact E | lia]). subst err.
  set (best' := if select c r e (best_blk nd) b then b_id b else n_best nd) in *.
  assert (HQ : qual c r (best_blk nd) <= qual c (b :: r) (best_blk (mkN (b :: r) best' e1))).
  { rewrite <- (qual_fresh c b r (best_blk nd) Hwf0 Hbin).
    apply (head_quality_monotone c HL (mkN (b :: r) best' e1) (best_blk nd) Hi0). right. exact Hbin. }
  destruct packing.
  - destruct Hsig as [Hs [Hpar Hsome]]. rewrite Hpack in *. cbn [negb N.eqb] in *. rewrite Hcasts1 in *.
    destruct (e_casts e) as [ca|] eqn:Eca; [|contradiction].
    destruct (cp_of_exists c HL (b :: r) b Hwf0 ltac:(left; reflexivity)) as [cpb [Ecp _]]. unfold cp_of in Ecp. rewrite Ecp in *.
    cbn [fst snd n_repo n_eng n_best e_fin e_master e_casts] in *. split; [|reflexivity].
    set (e2 := mkE (e_master e1) (e_fin e1) (e_qs e1) (Some (mark ca (b_id cpb) (s_q (compute_state c (b :: r) (e_qs e) b)))) (e_jc e1)).
    assert (Hi2 : inv c (mkN (b :: r) best' e2)) by (apply (inv_eng_irrelevant c (mkN (b :: r) best' e1) e2 Hi0); reflexivity).
    constructor; cbn [n_repo n_eng n_best].
    + exact Hi2.
    + exact Hfc0.
    + unfold e2. cbn [e_fin]. exists f. rewrite <- (Hfid ltac:(destruct Hfs as [f0 ->]; discriminate)). apply find_blk_in; assumption.
    + exact Hroot'.
    + unfold casts_ok. cbn [n_repo n_eng e_casts e_master e_fin].
      change (best_blk (mkN (b :: r) best' e2)) with (best_blk (mkN (b :: r) best' e1)).
      apply known_find in Hpk. destruct Hpk as [p Hp].
      assert (Hcs : compute_state c (b :: r) (e_qs e) b = state_pure c (chain_of (b :: r) (b_id b))).
      { assert (Hpid : b_parent b <> b_id b).
        { intros E. destruct (find_blk_id _ _ _ Hp) as [Hid Hin]. apply known_in in Hin. rewrite Hid, E in Hin. rewrite Hin in Hfresh. discriminate. }
        rewrite chain_of_head. unfold compute_state. rewrite chain_of_fresh by (intros E; apply Hpid; symmetry; exact E).
        apply (compute_state_pure_lemma c HL r (e_qs e) b p Hwf (inv_qs c _ Hi) Hp (Hvc p Hp)). }
      unfold e2. cbn [e_casts e_master e_fin]. rewrite Hcs. change (s_q (state_pure c (chain_of (b :: r) (b_id b)))) with (qual c (b :: r) b).
      unfold casts_ok in Hca. fold e r in Hca. rewrite Eca in Hca.
      rewrite Hmaster1.
      apply (casts_inv_mark c HL b r (qual c r (best_blk nd)) _ (e_master e) (idnum (e_fin e)) (idnum (e_fin e1)) ca cpb); try assumption.
      * (* the new block sits on the best block *)
        unfold qual. rewrite chain_of_head, Hpar, <- Hbid.
        destruct (chain_of_known r Hwf _ _ (find_blk_in r _ Hwf Hbin)) as [t [Ht Hg]].
        assert (Hgb : grounded (b :: chain_of r (b_id (best_blk nd)))).
        { rewrite Ht. cbn [grounded]. split; [rewrite Hpar; symmetry; exact Hbid|]. split; [|exact Hg].
          apply Hvc. rewrite Hpar, <- Hbid. apply find_blk_in; assumption. }
        pose proof (quality_step c HL b _ Hgb). lia.
      * apply (head_quality_monotone c HL (mkN (b :: r) best' e1) b Hi0). left. reflexivity.
  - rewrite Ecb in *. cbn [fst snd n_repo n_eng n_best] in *. split; [|reflexivity]. constructor; cbn [n_repo n_eng n_best].
    + exact Hi0.
    + exact Hfc0.
    + exists f. rewrite <- (Hfid ltac:(destruct Hfs as [f0 ->]; discriminate)). apply find_blk_in; assumption.
    + exact Hroot'.
    + unfold casts_ok in *. cbn [n_repo n_eng]. rewrite Hcasts1, Hmaster1. fold e r in Hca.
      destruct (e_casts e) as [ca|]; [|exact I].
      apply (casts_inv_import c HL b r (qual c r (best_blk nd)) _ (e_master e) (idnum (e_fin e))); assumption.
Qed.

Theorem import_good nd b : node_good nd -> valid_child (n_repo nd) b ->
  (known (n_repo nd) (b_id b) = true \/ b_signer b <> e_master (n_eng nd)) -> root_free (b :: n_repo nd) ->
  node_good (fst (import true c nd b)).
Proof.
  intros Hg Hvc Hs Hroot. unfold import.
  destruct (known (n_repo nd) (b_id b)) eqn:Ek; [exact Hg|].
  destruct (known (n_repo nd) (b_parent b)) eqn:Ep; cbn [negb]; [|exact Hg].
  destruct (accepts _ _ _); cbn [negb]; [|exact Hg].
  destruct Hs as [Hs|Hs]; [discriminate|].
  exact (proj1 (add_and_commit_good nd b false Hg Ek Ep Hvc Hroot Hs)).
Qed.

Lemma honest_ok_facts nd b : honest_ok c nd b = true ->
  b_signer b = e_master (n_eng nd) /\ b_parent b = n_best nd /\ b_num b = b_num (best_blk nd) + 1 /\
  exists v, snd (should_vote c (n_repo nd) (n_eng nd) (b_parent b)) = Ok v /\ v = b_com b.
Proof.
  unfold honest_ok. intros H. repeat (apply andb_prop in H; destruct H as [H ?]).
  apply N.eqb_eq in H, H4, H3. split; [exact H|]. split; [exact H4|]. split; [exact H3|].
  destruct (snd (should_vote _ _ _ _)) as [v|]; [|discriminate]. exists v. split; [reflexivity | apply eqb_prop; assumption].
Qed.

Theorem propose_good nd b : node_good nd -> honest_ok c nd b = true -> known (n_repo nd) (b_id b) = false ->
  root_free (b :: n_repo nd) ->
  let nd' := fst (fst (propose true c nd b)) in
  node_good nd' /\ n_repo nd' = b :: n_repo nd /\ e_master (n_eng nd') = e_master (n_eng nd) /\
  snd (fst (propose true c nd b)) = 0.
Proof.
  intros Hg Hok Hfresh Hroot. destruct (honest_ok_facts nd b Hok) as [Hs [Hpar [Hnum [v [Hv _]]]]].
  pose proof Hg as [Hi Hfc Hfs Hrt Hca].
  destruct (best_in nd Hi) as [Hbin Hbid].
  cbv zeta. unfold propose.
  pose proof (should_vote_keeps c (n_repo nd) (n_eng nd) (b_parent b)) as Hk. cbv zeta in Hk.
  pose proof (should_vote_casts_ok c HL nd (b_parent b) Hi Hrt Hca) as Hsc. cbv zeta in Hsc.
  destruct (should_vote c (n_repo nd) (n_eng nd) (b_parent b)) as [e1 v0] eqn:Esv. cbn [fst snd] in *. subst v0.
  destruct Hk as [Hq1 [Hf1 Hm1]]. destruct Hsc as [Hc1 Hsome].
  set (nd1 := mkN (n_repo nd) (n_best nd) e1) in *.
  assert (Hg1 : node_good nd1).
  { unfold nd1. constructor; cbn [n_repo n_eng n_best].
    - apply inv_eng_irrelevant; assumption.
    - unfold fin_cp in *. cbn [n_eng]. rewrite Hf1. exact Hfc.
    - rewrite Hf1. exact Hfs.
    - exact Hrt.
    - exact Hc1. }
  assert (Hvc : valid_child (n_repo nd1) b).
  { intros p Hp. unfold nd1 in Hp. cbn [n_repo] in Hp. rewrite Hpar, <- Hbid in Hp.
    rewrite (find_blk_in _ _ (inv_wf c _ Hi) Hbin) in Hp. inversion Hp; subst p. exact Hnum. }
  assert (Hpk : known (n_repo nd1) (b_parent b) = true) by (unfold nd1; cbn [n_repo]; rewrite Hpar, <- Hbid; apply known_in; exact Hbin).
  destruct (add_and_commit_good nd1 b true Hg1 Hfresh Hpk Hvc Hroot) as [Hg' Herr].
  { unfold nd1. cbn [n_eng n_best]. rewrite Hm1. split; [exact Hs|]. split; [exact Hpar | exact Hsome]. }
  pose proof (add_and_commit_shape nd1 b true) as [Hrepo [Hmast _]]. cbv zeta in Hrepo, Hmast.
  destruct (add_and_commit true c nd1 b true) as [nd' code]. cbn [fst snd] in *.
  split; [exact Hg'|]. split; [exact Hrepo|]. split; [rewrite Hmast; unfold nd1; cbn [n_eng]; exact Hm1 | exact Herr].
Qed.
End NodeSteps.

(* ---------------------------------------------------------------- the world along a valid run *)

Lemma import_repo_mono guard c nd b x : In x (n_repo nd) -> In x (n_repo (fst (import guard c nd b))).
Proof.
  unfold import. destruct (known _ (b_id b)); [tauto|]. destruct (known _ (b_parent b)); cbn [negb]; [|tauto].
  destruct (accepts _ _ _); cbn [negb]; [|tauto].
  unfold add_and_commit. destruct (commit_block _ _ _ _ _ _). cbn. tauto.
Qed.

Lemma import_master guard c nd b : e_master (n_eng (fst (import guard c nd b))) = e_master (n_eng nd).
Proof.
  unfold import. destruct (known _ (b_id b)); [reflexivity|]. destruct (known _ (b_parent b)); cbn [negb]; [|reflexivity].
  destruct (accepts _ _ _); cbn [negb]; [|reflexivity].
  unfold add_and_commit. pose proof (commit_block_casts c guard (b :: n_repo nd) (n_eng nd) b) as [_ H].
  destruct (commit_block guard c (b :: n_repo nd) (n_eng nd) b false). cbn [fst n_eng] in *. exact H.
Qed.

Lemma nth_error_set_nth {A} (l : list A) i x : forall j,
  nth_error (set_nth l i x) j = if Nat.eqb i j then (match nth_error l i with Some _ => Some x | None => None end) else nth_error l j.
Proof.
  revert i. induction l as [|a l IH]; intros i j.
  - cbn. destruct i, j; cbn; try reflexivity. destruct (Nat.eqb i j); reflexivity.
  - destruct i, j; cbn [set_nth nth_error Nat.eqb]; try reflexivity. apply IH.
Qed.

Lemma map_set_nth {A B} (f : A -> B) (l : list A) i x y : nth_error l i = Some y -> f x = f y -> map f (set_nth l i x) = map f l.
Proof.
  revert i. induction l as [|a l IH]; intros i Hn E; [destruct i; discriminate|].
  destruct i; cbn in *.
  - inversion Hn; subst. rewrite E. reflexivity.
  - rewrite (IH i Hn E). reflexivity.
Qed.

Lemma wf_child_num s b p : wf_repo s -> In b s -> In p s -> b_id p = b_parent b -> b_num b <> 0 -> b_num b = b_num p + 1.
Proof.
  induction s as [|a s IH]; intros Hwf Hb Hp E Hn; [destruct Hb|].
  pose proof Hwf as Hwf0. cbn in Hwf. destruct Hwf as [Hw [Hf Hpar]].
  destruct Hb as [->|Hb].
  - destruct s as [|z s']; [contradiction|]. destruct Hpar as [p' [Hp' Hnum]].
    destruct (find_blk_id _ _ _ Hp') as [Hid Hin].
    assert (p = p') by (apply (stored_unique (b :: z :: s')); [exact Hwf0 | exact Hp | right; exact Hin | congruence]). subst p'. exact Hnum.
  - destruct Hp as [->|Hp]; [|exact (IH Hw Hb Hp E Hn)].
    (* the parent above its child: impossible *)
    exfalso. destruct (in_split _ _ Hb) as [la [lb Es]].
    assert (Hw2 : wf_repo (b :: lb)).
    { rewrite Es in Hw. clear -Hw. induction la as [|x la IH]; [exact Hw|]. cbn [app] in Hw. cbn in Hw. apply IH. tauto. }
    cbn in Hw2. destruct Hw2 as [_ [_ Hpb]]. destruct lb as [|z lb']; [contradiction|].
    destruct Hpb as [p' [Hp' _]]. destruct (find_blk_id _ _ _ Hp') as [Hid Hin].
    assert (In p' s) by (rewrite Es, in_app_iff; right; right; exact Hin).
    apply known_in in H. rewrite Hid, <- E in H. rewrite H in Hf. discriminate.
Qed.

Section World.
Variable c : cfg.
Hypothesis HL : 0 < c_L c.
Variable g : blk.
Hypothesis Hg : b_num g = 0.
Variables byz masters : list N.
Hypothesis Hdisj : forall m, In m masters -> ~ In m byz.
Hypothesis Hnd : NoDup masters.

Definition world_after (w : list node) (evs : list event) : list node := fold_left (step_plain true c) evs w.

(* the per-event check and the new global tree of valid_run_b *)
Definition ev_check (w : list node) (seen : repo) (ev : event) : bool * repo :=
  match ev with
  | EPropose i b =>
      (match nth_error w i with
       | Some nd => negb (mem byz (b_signer b)) && negb (known seen (b_id b)) && honest_ok c nd b
       | None => false end, b :: seen)
  | EImport i b =>
      match find_blk seen (b_id b) with
      | Some b' => (blk_eqb b b', seen)
      | None => (mem byz (b_signer b) &&
                 match find_blk seen (b_parent b) with Some p => b_num b =? b_num p + 1 | None => false end, b :: seen)
      end
  | ERestart _ => (true, seen)
  end.

Lemma valid_run_cons w seen ev t :
  valid_run_b true c byz w seen (ev :: t) =
  fst (ev_check w seen ev) && valid_run_b true c byz (step_plain true c w ev) (snd (ev_check w seen ev)) t.
Proof. cbn [valid_run_b]. unfold ev_check. destruct ev as [i b|i b|i]; try reflexivity. destruct (find_blk seen (b_id b)); reflexivity. Qed.

Lemma seen_after_cons seen ev t : forall w, seen_after seen (ev :: t) = seen_after (snd (ev_check w seen ev)) t.
Proof.
  intros w. destruct ev as [i b|i b|i]; cbn [seen_after ev_check snd]; try reflexivity.
  unfold known. destruct (find_blk seen (b_id b)); reflexivity.
Qed.

Record world_good (w : list node) (seen : repo) : Prop := mkWG {
  wg_wf : wf_repo seen;
  wg_gin : In g seen;
  wg_last : forall d, last seen d = g;
  wg_root : known seen (b_parent g) = false;
  wg_masters : map (fun nd => e_master (n_eng nd)) w = masters;
  wg_nodes : forall i nd, nth_error w i = Some nd ->
     node_good c nd /\ incl (n_repo nd) seen /\ In g (n_repo nd) /\
     (forall x, In x seen -> b_signer x = e_master (n_eng nd) -> In x (n_repo nd));
  wg_signers : forall x, In x seen -> x = g \/ In (b_signer x) byz \/ In (b_signer x) masters }.

Lemma root_free_sub seen r : wf_repo seen -> (forall d, last seen d = g) -> known seen (b_parent g) = false ->
  incl r seen -> root_free r.
Proof.
  intros Hwf Hl Hk Hsub z Hz Hn.
  assert (z = g) by (rewrite <- (Hl z); apply (zero_is_root seen Hwf z z (Hsub z Hz) Hn)). subst z.
  destruct (known r (b_parent g)) eqn:E; [|reflexivity].
  apply known_find in E. destruct E as [x Hx]. destruct (find_blk_id _ _ _ Hx) as [Hid Hin].
  pose proof (known_in seen x (Hsub x Hin)) as Hk'. rewrite Hid, Hk in Hk'. discriminate.
Qed.

Lemma valid_child_sub seen r b : wf_repo seen -> (forall d, last seen d = g) -> known seen (b_parent g) = false ->
  incl r seen -> In b seen -> valid_child r b.
Proof.
  intros Hwf Hl Hk Hsub Hb p Hp. destruct (find_blk_id _ _ _ Hp) as [Hid Hin].
  destruct (N.eq_dec (b_num b) 0) as [Z|Z].
  - exfalso. assert (b = g) by (rewrite <- (Hl b); apply (zero_is_root seen Hwf b b Hb Z)). subst b.
    pose proof (known_in seen p (Hsub p Hin)) as Hk'. rewrite Hid, Hk in Hk'. discriminate.
  - apply (wf_child_num seen b p Hwf Hb (Hsub p Hin) Hid Z).
Qed.

Lemma master_index w i j ni nj : map (fun nd => e_master (n_eng nd)) w = masters ->
  nth_error w i = Some ni -> nth_error w j = Some nj -> e_master (n_eng ni) = e_master (n_eng nj) -> i = j.
Proof.
  intros Hm Hi Hj E.
  assert (A : nth_error masters i = Some (e_master (n_eng ni))) by (rewrite <- Hm; exact (map_nth_error (fun nd => e_master (n_eng nd)) i w Hi)).
  assert (B : nth_error masters j = Some (e_master (n_eng nj))) by (rewrite <- Hm; exact (map_nth_error (fun nd => e_master (n_eng nd)) j w Hj)).
  rewrite <- E in B. apply (proj1 (NoDup_nth_error masters) Hnd i j); [apply nth_error_Some; rewrite A; discriminate | congruence].
Qed.

Lemma master_in w i ni : map (fun nd => e_master (n_eng nd)) w = masters -> nth_error w i = Some ni -> In (e_master (n_eng ni)) masters.
Proof. intros Hm Hi. rewrite <- Hm. apply in_map_iff. exists ni. split; [reflexivity | exact (nth_error_In _ _ Hi)]. Qed.

Lemma incl_cons_both {A} (b : A) r s : incl r s -> incl (b :: r) (b :: s).
Proof. intros H x [<-|Hx]; [left; reflexivity | right; exact (H x Hx)]. Qed.

Theorem world_step w seen ev : world_good w seen -> fst (ev_check w seen ev) = true ->
  known (snd (ev_check w seen ev)) (b_parent g) = false ->
  world_good (step_plain true c w ev) (snd (ev_check w seen ev)).
Proof.
  intros [Hwf Hgin Hlast Hrootk Hmast Hnodes Hsig] Hok Hroot'.
  destruct ev as [i b|i b|i]; cbn [ev_check fst snd step_plain] in *.
  - (* EImport *)
    destruct (find_blk seen (b_id b)) as [b'|] eqn:Ef; cbn [fst snd] in *.
    + apply blk_eqb_eq in Hok. subst b'. destruct (find_blk_id _ _ _ Ef) as [_ Hbin].
      destruct (nth_error w i) as [nd|] eqn:En; [|constructor; assumption].
      destruct (Hnodes i nd En) as [Hgood [Hsub [Hgr Hown]]].
      assert (Hgood' : node_good c (fst (import true c nd b))).
      { apply (import_good c HL nd b Hgood).
        - exact (valid_child_sub seen (n_repo nd) b Hwf Hlast Hrootk Hsub Hbin).
        - destruct (N.eq_dec (b_signer b) (e_master (n_eng nd))) as [E|E]; [left; apply known_in; apply Hown; assumption | right; exact E].
        - apply (root_free_sub seen); try assumption. intros x [<-|Hx]; [exact Hbin | exact (Hsub x Hx)]. }
      constructor; try assumption.
      * rewrite (map_set_nth _ w i _ nd En); [exact Hmast | apply import_master].
      * intros j nj Hj. rewrite nth_error_set_nth, En in Hj. destruct (Nat.eqb i j) eqn:Eij; [|exact (Hnodes j nj Hj)].
        inversion Hj; subst nj. split; [exact Hgood'|]. split; [|split].
        -- intros x Hx. destruct (import_repo_incl true c nd b x Hx) as [->|H]; [exact Hbin | exact (Hsub x H)].
        -- apply import_repo_mono. exact Hgr.
        -- intros x Hx Hs. apply import_repo_mono. apply Hown; [exact Hx|]. rewrite Hs. apply import_master.
    + apply andb_prop in Hok. destruct Hok as [Hbz Hpar]. apply mem_In in Hbz.
      destruct (find_blk seen (b_parent b)) as [p|] eqn:Ep; [|discriminate]. apply N.eqb_eq in Hpar.
      assert (Hfresh : known seen (b_id b) = false) by (unfold known; rewrite Ef; reflexivity).
      assert (Hwf' : wf_repo (b :: seen)).
      { cbn. split; [exact Hwf|]. split; [exact Hfresh|]. destruct seen as [|s0 ss]; [destruct Hgin|]. exists p. split; assumption. }
      assert (Hlast' : forall d, last (b :: seen) d = g).
      { intros d. destruct seen as [|s0 ss]; [destruct Hgin|]. exact (Hlast d). }
      assert (Hnm : forall j nj, nth_error w j = Some nj -> b_signer b <> e_master (n_eng nj)).
      { intros j nj Hj E. apply (Hdisj (b_signer b)); [rewrite E; exact (master_in w j nj Hmast Hj) | exact Hbz]. }
      assert (Hother : forall j nj, nth_error w j = Some nj ->
                node_good c nj /\ incl (n_repo nj) (b :: seen) /\ In g (n_repo nj) /\
                (forall x, In x (b :: seen) -> b_signer x = e_master (n_eng nj) -> In x (n_repo nj))).
      { intros j nj Hj. destruct (Hnodes j nj Hj) as [G [S [Gr O]]]. split; [exact G|]. split; [intros x Hx; right; exact (S x Hx)|].
        split; [exact Gr|]. intros x [<-|Hx] Hs; [contradiction (Hnm j nj Hj Hs) | exact (O x Hx Hs)]. }
      destruct (nth_error w i) as [nd|] eqn:En.
      2:{ constructor; try assumption; [right; exact Hgin | intros x [<-|Hx]; [right; left; exact Hbz | exact (Hsig x Hx)]]. }
      destruct (Hnodes i nd En) as [Hgood [Hsub [Hgr Hown]]].
      assert (Hsub' : incl (b :: n_repo nd) (b :: seen)) by (apply incl_cons_both; exact Hsub).
      assert (Hgood' : node_good c (fst (import true c nd b))).
      { apply (import_good c HL nd b Hgood).
        - apply (valid_child_sub (b :: seen) (n_repo nd) b Hwf' Hlast' Hroot'); [intros x Hx; right; exact (Hsub x Hx) | left; reflexivity].
        - right. exact (Hnm i nd En).
        - exact (root_free_sub (b :: seen) _ Hwf' Hlast' Hroot' Hsub'). }
      constructor; try assumption.
      * right. exact Hgin.
      * rewrite (map_set_nth _ w i _ nd En); [exact Hmast | apply import_master].
      * intros j nj Hj. rewrite nth_error_set_nth, En in Hj. destruct (Nat.eqb i j) eqn:Eij; [|exact (Hother j nj Hj)].
        inversion Hj; subst nj. split; [exact Hgood'|]. split; [|split].
        -- intros x Hx. destruct (import_repo_incl true c nd b x Hx) as [->|H]; [left; reflexivity | right; exact (Hsub x H)].
        -- apply import_repo_mono. exact Hgr.
        -- intros x [<-|Hx] Hs; [rewrite import_master in Hs; contradiction (Hnm i nd En Hs)|].
           apply import_repo_mono. apply Hown; [exact Hx|]. rewrite Hs. apply import_master.
      * intros x [<-|Hx]; [right; left; exact Hbz | exact (Hsig x Hx)].
  - (* EPropose *)
    destruct (nth_error w i) as [nd|] eqn:En; [|discriminate].
    apply andb_prop in Hok. destruct Hok as [Hok Hhon]. apply andb_prop in Hok. destruct Hok as [Hnb Hfresh].
    apply negb_true_iff in Hfresh.
    destruct (Hnodes i nd En) as [Hgood [Hsub [Hgr Hown]]].
    destruct (honest_ok_facts c nd b Hhon) as [Hs [Hpar [Hnum _]]].
    destruct (best_in c nd (ng_inv c nd Hgood)) as [Hbin Hbid].
    assert (Hwf' : wf_repo (b :: seen)).
    { cbn. split; [exact Hwf|]. split; [exact Hfresh|]. destruct seen as [|s0 ss]; [destruct Hgin|]. exists (best_blk nd).
      split; [rewrite Hpar, <- Hbid; apply find_blk_in; [exact Hwf | exact (Hsub _ Hbin)] | exact Hnum]. }
    assert (Hlast' : forall d, last (b :: seen) d = g).
    { intros d. destruct seen as [|s0 ss]; [destruct Hgin|]. exact (Hlast d). }
    assert (Hfr : known (n_repo nd) (b_id b) = false).
    { destruct (known (n_repo nd) (b_id b)) eqn:E; [|reflexivity]. apply known_find in E. destruct E as [x Hx].
      destruct (find_blk_id _ _ _ Hx) as [Hid Hin]. pose proof (known_in seen x (Hsub x Hin)) as K. rewrite Hid, Hfresh in K. discriminate. }
    assert (Hsub' : incl (b :: n_repo nd) (b :: seen)) by (apply incl_cons_both; exact Hsub).
    destruct (propose_good c HL nd b Hgood Hhon Hfr (root_free_sub (b :: seen) _ Hwf' Hlast' Hroot' Hsub')) as [Hgood' [Hrepo' [Hm' _]]].
    constructor; try assumption.
    + right. exact Hgin.
    + rewrite (map_set_nth _ w i _ nd En); [exact Hmast | exact Hm'].
    + intros j nj Hj. rewrite nth_error_set_nth, En in Hj. destruct (Nat.eqb i j) eqn:Eij.
      * inversion Hj; subst nj. split; [exact Hgood'|]. rewrite Hrepo'. split; [exact Hsub'|]. split; [right; exact Hgr|].
        intros x [<-|Hx] Hsx; [left; reflexivity | right; apply Hown; [exact Hx | rewrite Hsx; exact Hm']].
      * destruct (Hnodes j nj Hj) as [G [S [Gr O]]]. split; [exact G|]. split; [intros x Hx; right; exact (S x Hx)|].
        split; [exact Gr|]. intros x [<-|Hx] Hsx; [|exact (O x Hx Hsx)].
        exfalso. rewrite Hs in Hsx. pose proof (master_index w i j nd nj Hmast En Hj Hsx) as Hij. subst j. rewrite Nat.eqb_refl in Eij. discriminate.
    + intros x [<-|Hx]; [right; right; rewrite Hs; exact (master_in w i nd Hmast En) | exact (Hsig x Hx)].
  - (* ERestart *)
    destruct (nth_error w i) as [nd|] eqn:En; [|constructor; assumption].
    constructor; try assumption.
    + rewrite (map_set_nth _ w i _ nd En); [exact Hmast | reflexivity].
    + intros j nj Hj. rewrite nth_error_set_nth, En in Hj. destruct (Nat.eqb i j) eqn:Eij; [|exact (Hnodes j nj Hj)].
      inversion Hj; subst nj. destruct (Hnodes i nd En) as [G [S [Gr O]]].
      split; [apply restart_good; exact G|]. split; [exact S|]. split; [exact Gr | exact O].
Qed.

Lemma seen_after_incl evs : forall seen, incl seen (seen_after seen evs).
Proof.
  induction evs as [|ev t IH]; intros seen x Hx; [exact Hx|].
  destruct ev as [i b|i b|i]; cbn [seen_after]; apply IH; try exact Hx; [destruct (known seen (b_id b)); [exact Hx | right; exact Hx] | right; exact Hx].
Qed.

Lemma known_incl r s id : incl r s -> known r id = true -> known s id = true.
Proof.
  intros Hs H. apply known_find in H. destruct H as [x Hx]. destruct (find_blk_id _ _ _ Hx) as [Hid Hin].
  rewrite <- Hid. apply known_in. exact (Hs x Hin).
Qed.

Lemma valid_run_app pre : forall w seen post,
  valid_run_b true c byz w seen (pre ++ post) =
  valid_run_b true c byz w seen pre && valid_run_b true c byz (world_after w pre) (seen_after seen pre) post.
Proof.
  induction pre as [|ev t IH]; intros w seen post; [reflexivity|].
  cbn [app]. rewrite !valid_run_cons, IH, (seen_after_cons seen ev t w). cbn [world_after fold_left]. rewrite andb_assoc. reflexivity.
Qed.

Theorem world_run evs : forall w seen, world_good w seen -> valid_run_b true c byz w seen evs = true ->
  known (seen_after seen evs) (b_parent g) = false ->
  world_good (world_after w evs) (seen_after seen evs).
Proof.
  induction evs as [|ev t IH]; intros w seen Hw Hv Hr; [exact Hw|].
  rewrite valid_run_cons in Hv. apply andb_prop in Hv. destruct Hv as [Hok Hv].
  rewrite (seen_after_cons seen ev t w) in Hr |- *. cbn [world_after fold_left].
  apply IH; [|exact Hv | exact Hr].
  apply world_step; [exact Hw | exact Hok|].
  destruct (known (snd (ev_check w seen ev)) (b_parent g)) eqn:E; [|reflexivity].
  rewrite (known_incl _ _ _ (seen_after_incl t _) E) in Hr. discriminate.
Qed.

Lemma init_world : (forall m, In m masters -> True) -> known [g] (b_parent g) = false ->
  world_good (map (init_node g) masters) [g].
Proof.
  intros _ Hk. constructor.
  - cbn. repeat split; try reflexivity; exact Hg.
  - left. reflexivity.
  - intros d. reflexivity.
  - exact Hk.
  - rewrite map_map. cbn. apply map_id.
  - intros i nd Hn. apply nth_error_In in Hn. apply in_map_iff in Hn. destruct Hn as [m [<- _]].
    split; [apply init_good; assumption|]. cbn. split; [intros x Hx; exact Hx|]. split; [left; reflexivity | intros x Hx _; exact Hx].
  - intros x [<-|[]]. left. reflexivity.
Qed.

(* prefixes of a valid run *)
Theorem world_prefix pre post : valid_run_b true c byz (map (init_node g) masters) [g] (pre ++ post) = true ->
  known (seen_after [g] (pre ++ post)) (b_parent g) = false ->
  world_good (world_after (map (init_node g) masters) pre) (seen_after [g] pre) /\
  valid_run_b true c byz (world_after (map (init_node g) masters) pre) (seen_after [g] pre) post = true /\
  incl (seen_after [g] pre) (seen_after [g] (pre ++ post)).
Proof.
  intros Hv Hr. rewrite valid_run_app in Hv. apply andb_prop in Hv. destruct Hv as [Hv1 Hv2].
  assert (Hincl : incl (seen_after [g] pre) (seen_after [g] (pre ++ post))).
  { assert (E : forall p s, seen_after s (p ++ post) = seen_after (seen_after s p) post).
    { induction p as [|ev t IH]; intros s; [reflexivity|]. destruct ev; cbn [app seen_after]; apply IH. }
    rewrite E. apply seen_after_incl. }
  assert (Hk : known [g] (b_parent g) = false).
  { destruct (known [g] (b_parent g)) eqn:E; [|reflexivity].
    rewrite (known_incl _ _ _ (seen_after_incl (pre ++ post) [g]) E) in Hr. discriminate. }
  split; [|split; [exact Hv2 | exact Hincl]].
  apply world_run; [apply init_world; [tauto | exact Hk] | exact Hv1 |].
  destruct (known (seen_after [g] pre) (b_parent g)) eqn:E; [|reflexivity].
  rewrite (known_incl _ _ _ Hincl E) in Hr. discriminate.
Qed.
End World.
