(* Bft/ProofsVote.v — ShouldVote on a node that has seen only one chain (every stored block is on the chain of every
   later one): the answer is COM exactly when the new block is not in the first round and the parent's quality is
   positive — whatever the node voted before, before or after a restart (casts rebuilt or live). *)
From Coq Require Import List NArith ZArith Bool Lia.
From Coq Require Import ZifyN ZifyNat ZifyBool.
From Verif Require Import Common.Util Bft.Tree Bft.Model Bft.Quorum Bft.ProofsTally Bft.ProofsChain Bft.ProofsSearch
  Bft.ProofsSuffix Bft.ProofsNode Bft.ProofsFinal Bft.ProofsCommit Bft.ProofsFind Bft.ProofsLive2.
Import ListNotations.
Open Scope N_scope.

(* ---------------------------------------------------------------- linear repositories *)

Lemma grounded_chain_self r : grounded r -> match r with x :: _ => chain_of r (b_id x) = r | [] => True end.
Proof.
  induction r as [|x t IH]; intros Hg; [exact I|]. rewrite chain_of_head. destruct t as [|p t'].
  - reflexivity.
  - cbn in Hg. destruct Hg as [Hpar [_ Hgt]]. rewrite Hpar. specialize (IH Hgt). cbn beta iota in IH. rewrite IH. reflexivity.
Qed.

Lemma linear_chain r : grounded r -> wf_repo r -> forall l1 x l2, r = l1 ++ x :: l2 -> chain_of r (b_id x) = x :: l2.
Proof.
  intros Hg Hwf l1 x l2 E. destruct r as [|h t]; [destruct l1; discriminate|].
  pose proof (grounded_chain_self (h :: t) Hg) as Hs. cbn beta iota in Hs.
  apply (chain_suffix (h :: t) Hwf (b_id h) l1 x l2). rewrite Hs. exact E.
Qed.

Lemma at_num_self ch : grounded ch -> forall y, In y ch -> at_num ch (b_num y) = Some y.
Proof.
  induction ch as [|b t IH]; intros Hg y Hin; [destruct Hin|]. unfold at_num. cbn [find].
  destruct Hin as [<-|Hin]; [rewrite N.eqb_refl; reflexivity|].
  pose proof (grounded_nums b t Hg y Hin) as Hlt.
  assert (E : (b_num b =? b_num y) = false) by (apply N.eqb_neq; lia). rewrite E.
  destruct t as [|p t']; [destruct Hin|]. apply IH; [exact (grounded_tail _ _ _ Hg) | exact Hin].
Qed.

Lemma linear_has_block r x y : grounded r -> wf_repo r -> In x r -> In y r -> b_num y <= b_num x ->
  has_block r (b_id x) (b_id y) = true.
Proof.
  intros Hg Hwf Hx Hy Hle. destruct (in_split _ _ Hx) as [l1 [l2 E]].
  unfold has_block, chain_has. rewrite (linear_chain r Hg Hwf l1 x l2 E).
  assert (Hgx : grounded (x :: l2)). { apply (grounded_app l1); [rewrite <- E; exact Hg | discriminate]. }
  assert (Hyin : In y (x :: l2)).
  { rewrite E in Hy. rewrite in_app_iff in Hy. destruct Hy as [Hy|Hy]; [|exact Hy]. exfalso.
    destruct (in_split _ _ Hy) as [la [lb Ea]]. rewrite Ea in E. rewrite <- app_assoc in E. cbn [app] in E.
    assert (Hgy : grounded (y :: lb ++ x :: l2)). { apply (grounded_app la); [rewrite <- E; exact Hg | discriminate]. }
    pose proof (grounded_nums y (lb ++ x :: l2) Hgy x ltac:(rewrite in_app_iff; right; left; reflexivity)). lia. }
  change (idnum (b_id y)) with (b_num y). rewrite (at_num_self (x :: l2) Hgx y Hyin). apply N.eqb_refl.
Qed.

Section Vote.
Variable c : cfg.
Hypothesis HL : 0 < c_L c.
Notation L := (c_L c).

Lemma compute_state_stored_full r qs x : wf_repo r -> qs_ok c r qs -> In x r ->
  compute_state c r qs x = state_pure c (chain_of r (b_id x)).
Proof.
  intros Hwf Hq Hin. pose proof (chain_of_stored r x Hwf Hin) as Hf.
  destruct (chain_of_known r Hwf _ _ Hf) as [t [Ht Hg]]. rewrite Ht.
  destruct t as [|p t'].
  - cbn in Hg. unfold compute_state, state_of_chain. rewrite Hg. cbn [N.eqb]. rewrite state_pure_genesis by exact Hg. reflexivity.
  - pose proof Hg as Hg0. cbn in Hg. destruct Hg as [Hpar [Hn Hgt]].
    assert (Hsuf : chain_of r (b_id p) = p :: t') by (apply (chain_suffix r Hwf (b_id x) [x] p t'); exact Ht).
    unfold compute_state. rewrite Hpar, Hsuf.
    apply state_of_chain_pure; [exact HL | exact Hg0 |]. cbn [tl]. rewrite <- Hsuf. apply qs_to_chain; assumption.
Qed.

(* in the first epoch the parent quality is 0 *)
Lemma epoch0_pq ch : grounded ch -> forall b t, ch = b :: t -> b_num b < L -> fst (epoch_info c ch) = 0.
Proof.
  induction ch as [|b0 t0 IH]; intros Hg b t E Hlt; [discriminate|]. inversion E; subst b0 t0. clear E.
  cbn [epoch_info]. destruct (b_num b =? 0) eqn:E0; [reflexivity|]. apply N.eqb_neq in E0.
  destruct (is_checkpoint L (b_num b)) eqn:Ecp.
  - pose proof (checkpoint_pos_ge _ HL _ Ecp ltac:(lia)). lia.
  - cbn [fst]. destruct t as [|p t']; [cbn in Hg; lia|]. cbn in Hg. destruct Hg as [_ [Hn Hgt]].
    apply (IH Hgt p t' eq_refl). lia.
Qed.

(* the keys of the votes record are ids of stored blocks *)
Definition casts_stored (r : repo) (ca : list (N * N)) : Prop := forall kv, In kv ca -> exists x, In x r /\ fst kv = b_id x.

Lemma mark_stored r ca x q : casts_stored r ca -> In x r -> casts_stored r (mark ca (b_id x) q).
Proof.
  intros H Hx kv [<-|Hin]; [exists x; split; [exact Hx | reflexivity]|].
  apply filter_In in Hin. apply H. tauto.
Qed.

Lemma merge_max_stored r ca x q : casts_stored r ca -> In x r -> casts_stored r (merge_max ca (b_id x) q).
Proof.
  intros H Hx. unfold merge_max. destruct (find _ ca) as [kv|].
  - destruct (snd kv <? q); [apply mark_stored; assumption | exact H].
  - intros kv [<-|Hin]; [exists x; split; [exact Hx | reflexivity] | apply H; exact Hin].
Qed.

Lemma new_casts_stored r e : casts_stored r (new_casts c r e).
Proof.
  unfold new_casts.
  assert (Hgen : forall hs ca, casts_stored r ca -> casts_stored r (fold_left (fun ca h =>
      let ch := chain_of r (b_id h) in
      match own_latest (e_master e) (idnum (e_fin e)) ch with
      | None => ca
      | Some x => match at_num ch (checkpoint L (b_num x)) with
                  | None => ca
                  | Some cpb => merge_max ca (b_id cpb) (s_q (compute_state c r (e_qs e) x))
                  end
      end) hs ca)).
  { induction hs as [|h hs IH]; intros ca Hca; [exact Hca|]. cbn [fold_left]. apply IH.
    destruct (own_latest _ _ _) as [x|]; [|exact Hca].
    destruct (at_num _ _) as [cpb|] eqn:Ea; [|exact Hca].
    apply merge_max_stored; [exact Hca|]. unfold at_num in Ea. apply find_some in Ea. exact (chain_incl _ _ _ (proj1 Ea)). }
  apply Hgen. intros kv [].
Qed.

Theorem should_vote_linear r e p a :
  grounded r -> wf_repo r -> qs_ok c r (e_qs e) -> In p r ->
  match e_casts e with Some ca => casts_stored r ca | None => True end ->
  idnum (e_fin e) = a * L ->
  (* finalized lies at least one epoch below the parent's epoch whenever that epoch is not justified yet *)
  (s_just (state_pure c (chain_of r (b_id p))) = false -> L <= b_num p -> a * L + L <= checkpoint L (b_num p)) ->
  snd (should_vote c r e (b_id p)) =
  Ok (negb ((b_num p + 1) / L =? 0) && (0 <? quality_pure c (chain_of r (b_id p)))).
Proof.
  intros Hg Hwf Hqs Hp Hca Hfin Hbelow.
  pose proof (chain_of_stored r p Hwf Hp) as Hfp.
  destruct (in_split _ _ Hp) as [l1 [l2 Er]].
  pose proof (linear_chain r Hg Hwf l1 p l2 Er) as HC.
  assert (HgC : grounded (p :: l2)). { apply (grounded_app l1); [rewrite <- Er; exact Hg | discriminate]. }
  unfold should_vote.
  set (ca := match e_casts e with Some ca => ca | None => new_casts c r e end).
  assert (Hcas : casts_stored r ca).
  { unfold ca. destruct (e_casts e); [exact Hca | apply new_casts_stored]. }
  change (idnum (b_id p)) with (b_num p).
  destruct ((b_num p + 1) / L =? 0) eqn:Efirst; [reflexivity|]. cbn [negb andb].
  rewrite Hfp. rewrite (compute_state_stored_full r (e_qs e) p Hwf Hqs Hp).
  set (C := chain_of r (b_id p)) in *. fold (quality_pure c C).
  destruct (quality_pure c C =? 0) eqn:Eq0.
  { apply N.eqb_eq in Eq0. rewrite Eq0. reflexivity. }
  apply N.eqb_neq in Eq0. assert (Hqpos : (0 <? quality_pure c C) = true) by (apply N.ltb_lt; lia). rewrite Hqpos.
  apply N.eqb_neq in Efirst.
  (* the most recent justified checkpoint is a stored block *)
  assert (Hrecent : exists z, In z r /\
    (if s_just (state_pure c C)
     then match block_at r (b_id p) (checkpoint L (b_num p)) with Some x => Ok (b_id x) | None => Err 4 end
     else match block_at r (b_id p) (storepoint L (b_num p - L)) with
          | None => Err 4
          | Some prev => find_cp c r (e_qs e) (quality_pure c C) (e_fin e) (b_id prev)
          end) = Ok (b_id z)).
  { destruct (s_just (state_pure c C)) eqn:Ej.
    - destruct (suffix_at_exists C ltac:(rewrite HC; exact HgC) p l2 HC (checkpoint L (b_num p))) as [x [l3 [Hs Hx]]];
        [apply checkpoint_le; exact HL|].
      unfold block_at. fold C. rewrite at_num_suffix, Hs. exists x. split; [|reflexivity].
      apply (chain_incl r (b_id p)). fold C. destruct (suffix_at_split C (checkpoint L (b_num p))) as [l0 E0]. rewrite Hs in E0.
      rewrite E0, in_app_iff. right. left. reflexivity.
    - (* not justified yet: the parent is beyond the first epoch *)
      assert (Hge : L <= b_num p).
      { destruct (N.lt_ge_cases (b_num p) L) as [Hlt|Hge]; [|exact Hge]. exfalso.
        pose proof (quality_head c C) as Hqh. rewrite Ej in Hqh.
        rewrite (epoch0_pq C ltac:(rewrite HC; exact HgC) p l2 HC Hlt) in Hqh. lia. }
      specialize (Hbelow eq_refl Hge).
      set (kp := b_num p / L).
      assert (Hkp : kp * L <= b_num p /\ b_num p < kp * L + L).
      { unfold kp. pose proof (N.div_mod (b_num p) L ltac:(lia)). pose proof (N.mod_lt (b_num p) L ltac:(lia)). nia. }
      assert (Hkp1 : 1 <= kp) by nia.
      assert (Hcpp : checkpoint L (b_num p) = kp * L) by reflexivity.
      assert (Hsp : storepoint L (b_num p - L) = (kp - 1) * L + L - 1).
      { unfold storepoint, checkpoint.
        assert (E : (b_num p - L) / L = kp - 1).
        { symmetry. apply (N.div_unique (b_num p - L) L (kp - 1) (b_num p - kp * L)); nia. }
        rewrite E. reflexivity. }
      rewrite Hsp.
      destruct (suffix_at_exists C ltac:(rewrite HC; exact HgC) p l2 HC ((kp - 1) * L + L - 1)) as [prev [l3 [Hs Hprev]]]; [nia|].
      unfold block_at. fold C. rewrite at_num_suffix, Hs.
      destruct (suffix_at_split C ((kp - 1) * L + L - 1)) as [l0 E0]. rewrite Hs in E0.
      assert (Hprev_in : In prev r). { apply (chain_incl r (b_id p)). fold C. rewrite E0, in_app_iff. right. left. reflexivity. }
      assert (Hprev_chain : chain_of r (b_id prev) = prev :: l3) by (apply (chain_suffix r Hwf (b_id p) l0 prev l3); exact E0).
      (* the head quality equals the quality at the previous store point *)
      assert (Hhq : quality_pure c C = quality_pure c (chain_of r (b_id prev))).
      { rewrite (quality_head c C), Ej.
        rewrite (epoch_info_fst c HL C ltac:(rewrite HC; exact HgC) p l2 HC ltac:(rewrite Hcpp; nia)).
        rewrite Hcpp, Hprev_chain, <- Hs. f_equal. f_equal.
        remember (kp - 1) as k' eqn:Ek'. assert (Hk : kp = k' + 1) by lia. rewrite Hk. lia. }
      destruct (store_seq c HL r (e_qs e) (b_id prev) prev (kp - 1) Hwf Hqs (chain_of_stored r prev Hwf Hprev_in) Hprev)
        as [_ [Hstep [Hlast _]]].
      assert (Ha : a <= kp - 1) by (rewrite Hcpp in Hbelow; nia).
      destruct (find_cp_general c HL r (e_qs e) (e_fin e) (b_id prev) prev a (kp - 1) (quality_pure c C) Hwf Hqs
                  (chain_of_stored r prev Hwf Hprev_in) Hfin Hprev Ha) as [m [y [Hfc [_ [Hy _]]]]].
      + rewrite Hhq, <- Hlast. apply (steps_mono (q_epoch c r (b_id prev)) (kp - 1)); [|lia|lia].
        intros k Hk. exact (proj1 (Hstep k Hk)).
      + rewrite Hhq. lia.
      + rewrite Hfc. exists y. split; [|reflexivity].
        unfold block_at, at_num in Hy. apply find_some in Hy. exact (chain_incl _ _ _ (proj1 Hy)). }
  destruct Hrecent as [z [Hz Hrec]].
  change (s_q (state_pure c C)) with (quality_pure c C) in *.
  rewrite Hrec. cbn [snd]. f_equal.
  apply forallb_forall. intros kv Hkv. destruct (Hcas kv Hkv) as [x [Hx Hid]]. rewrite Hid.
  destruct ((idnum (e_fin e) <=? idnum (b_id x)) && (quality_pure c C - 1 <=? snd kv)); [|reflexivity].
  change (idnum (b_id z)) with (b_num z). change (idnum (b_id x)) with (b_num x).
  destruct (b_num z <? b_num x) eqn:Ecmp.
  - apply N.ltb_lt in Ecmp. apply linear_has_block; try assumption. lia.
  - apply N.ltb_ge in Ecmp. apply linear_has_block; assumption.
Qed.
End Vote.
