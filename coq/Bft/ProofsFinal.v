(* Bft/ProofsFinal.v — where finalized can move: CommitBlock either leaves it or sets it to a block found on the
   committed block's own chain at a number >= the previous finalized number (part of the single-node clause of C03). *)
From Coq Require Import List NArith ZArith Bool Lia.
From Verif Require Import Common.Util Bft.Tree Bft.Model.
Import ListNotations.
Open Scope N_scope.

Lemma find_cp_ok c r qs target fin head id : find_cp c r qs target fin head = Ok id ->
  exists m x, block_at r head (idnum fin + m * c_L c) = Some x /\ id = b_id x.
Proof.
  unfold find_cp. destruct (idnum head <? idnum fin); [discriminate|].
  destruct (bsearch _ _ _ _) as [num|e]; [|discriminate].
  destruct (num =? _); [discriminate|].
  destruct (quality_at _ _ _ _) as [q|e]; [|discriminate].
  destruct (negb (q =? target)); [discriminate|].
  destruct (block_at r head (idnum fin + num * c_L c)) as [x|] eqn:E; [|discriminate].
  intros H. inversion H. exists num, x. split; [exact E | reflexivity].
Qed.

Lemma block_at_num r head n x : block_at r head n = Some x -> b_num x = n /\ In x (chain_of r head).
Proof.
  unfold block_at, at_num. intros H. destruct (find_some _ _ H) as [Hin E]. apply N.eqb_eq in E. tauto.
Qed.

Theorem commit_block_finalized guard c r e b packing :
  let e' := fst (commit_block guard c r e b packing) in
  e_fin e' = e_fin e \/
  exists x, In x (chain_of r (b_id b)) /\ e_fin e' = b_id x /\ idnum (e_fin e) <= b_num x.
Proof.
  unfold commit_block. destruct (storepoint (c_L c) (b_num b) =? b_num b).
  - destruct (s_comm _ && (1 <? s_q _) && _).
    + destruct (find_cp _ _ _ _ _ _) as [id|code] eqn:Ef; cbn [negb N.eqb].
      * right. destruct (find_cp_ok _ _ _ _ _ _ _ Ef) as [m [x [Hx Hid]]].
        destruct (block_at_num _ _ _ _ Hx) as [Hn Hin]. exists x.
        destruct packing; [destruct (e_casts e); [destruct (block_at r (b_id b) (checkpoint (c_L c) (b_num b)))|]|];
          cbn [fst e_fin]; (split; [exact Hin | split; [exact Hid | lia]]).
      * left. destruct (code =? 0); [destruct packing; [destruct (e_casts e); [destruct (block_at _ _ _)|]|]|]; reflexivity.
    + left. cbn [negb N.eqb]. destruct packing; [destruct (e_casts e); [destruct (block_at _ _ _)|]|]; reflexivity.
  - left. cbn [negb N.eqb]. destruct packing; [destruct (e_casts e); [destruct (block_at _ _ _)|]|]; reflexivity.
Qed.
