(* Bft/Quorum.v — quorum intersection for exactly the thresholds of justifier.Summarize:
   votes > n*2/3 (integer division) in vote-count mode, weight > total*2/3 in weight mode. *)
From Coq Require Import List NArith ZArith Bool Lia Permutation.
From Coq Require Import ZifyN ZifyNat ZifyBool.
From Verif Require Import Common.Util.
Import ListNotations.
Open Scope N_scope.
Ltac Zify.zify_post_hook ::= Z.div_mod_to_equations.

Definition mem (l : list N) (x : N) : bool := existsb (N.eqb x) l.
Definition inter (a b : list N) : list N := filter (mem b) a.
Definition diff (a b : list N) : list N := filter (fun x => negb (mem b x)) a.
Definition sumw (w : N -> N) (l : list N) : N := sumN (map w l).

Lemma mem_In l x : mem l x = true <-> In x l.
Proof.
  unfold mem. rewrite existsb_exists. split.
  - intros [y [Hy E]]. apply N.eqb_eq in E. subst. exact Hy.
  - intros H. exists x. split; [exact H | apply N.eqb_refl].
Qed.

Lemma inter_In a b x : In x (inter a b) <-> In x a /\ In x b.
Proof. unfold inter. rewrite filter_In, mem_In. tauto. Qed.

Lemma NoDup_filter {A} (f : A -> bool) l : NoDup l -> NoDup (filter f l).
Proof.
  induction 1 as [|x l Hx Hl IH]; cbn; [constructor|].
  destruct (f x); [constructor; [rewrite filter_In; tauto | exact IH] | exact IH].
Qed.

Lemma length_split (f : N -> bool) l :
  (length (filter f l) + length (filter (fun x => negb (f x)) l))%nat = length l.
Proof. induction l as [|x l IH]; cbn; [reflexivity|]. destruct (f x); cbn; lia. Qed.

Lemma sumw_split w (f : N -> bool) l :
  sumw w (filter f l) + sumw w (filter (fun x => negb (f x)) l) = sumw w l.
Proof. unfold sumw. induction l as [|x l IH]; cbn; [reflexivity|]. destruct (f x); cbn; lia. Qed.

Lemma NoDup_app_disjoint {A} (a b : list A) :
  NoDup a -> NoDup b -> (forall x, In x a -> ~ In x b) -> NoDup (a ++ b).
Proof.
  induction 1 as [|x a Hx Ha IH]; cbn; intros Hb Hd; [exact Hb|].
  constructor.
  - rewrite in_app_iff. intros [H|H]; [contradiction | exact (Hd x (or_introl eq_refl) H)].
  - apply IH; [exact Hb | intros y Hy; apply Hd; right; exact Hy].
Qed.

(* weight of a duplicate-free sublist is bounded by the weight of any duplicate-free superset *)
Lemma sumw_incl w l : forall u, NoDup l -> incl l u -> sumw w l <= sumw w u.
Proof.
  unfold sumw. induction l as [|x l IH]; intros u Hnd Hin; cbn; [lia|].
  inversion Hnd as [|? ? Hx Hl]; subst.
  destruct (in_split x u (Hin x (or_introl eq_refl))) as [u1 [u2 ->]].
  assert (Hin' : incl l (u1 ++ u2)).
  { intros y Hy. assert (Hy' := Hin y (or_intror Hy)). rewrite in_app_iff in *. cbn in Hy'.
    destruct Hy' as [H|[H|H]]; [left; exact H | subst; contradiction | right; exact H]. }
  specialize (IH _ Hl Hin'). rewrite map_app in *. cbn.
  assert (E : forall p q, sumN (p ++ q) = sumN p + sumN q).
  { induction p as [|z p IHp]; intros q; cbn; [reflexivity | rewrite IHp; lia]. }
  rewrite E in *. cbn. lia.
Qed.

Lemma diff_app_bound u a b : NoDup a -> NoDup b -> incl a u -> incl b u ->
  (length (diff a b) + length b <= length u)%nat.
Proof.
  intros Ha Hb Hia Hib. rewrite <- app_length. apply NoDup_incl_length.
  - apply NoDup_app_disjoint; [apply NoDup_filter; exact Ha | exact Hb |].
    intros x Hx Hxb. unfold diff in Hx. rewrite filter_In in Hx. destruct Hx as [_ Hx].
    apply mem_In in Hxb. rewrite Hxb in Hx. discriminate.
  - intros x Hx. rewrite in_app_iff in Hx. destruct Hx as [Hx|Hx]; [|exact (Hib x Hx)].
    unfold diff in Hx. rewrite filter_In in Hx. exact (Hia x (proj1 Hx)).
Qed.

Lemma diff_app_bound_w w u a b : NoDup u -> NoDup a -> NoDup b -> incl a u -> incl b u ->
  sumw w (diff a b) + sumw w b <= sumw w u.
Proof.
  intros Hu Ha Hb Hia Hib.
  assert (E : sumw w (diff a b) + sumw w b = sumw w (diff a b ++ b)).
  { unfold sumw. rewrite map_app. generalize (map w (diff a b)) as p. induction p as [|z p IHp]; cbn; [reflexivity | rewrite <- IHp; lia]. }
  rewrite E. apply sumw_incl.
  - apply NoDup_app_disjoint; [apply NoDup_filter; exact Ha | exact Hb |].
    intros x Hx Hxb. unfold diff in Hx. rewrite filter_In in Hx. destruct Hx as [_ Hx].
    apply mem_In in Hxb. rewrite Hxb in Hx. discriminate.
  - intros x Hx. rewrite in_app_iff in Hx. destruct Hx as [Hx|Hx]; [|exact (Hib x Hx)].
    unfold diff in Hx. rewrite filter_In in Hx. exact (Hia x (proj1 Hx)).
Qed.

(* ---- vote-count mode: two sets of more than n*2/3 signers among at most n candidates share more than (n-1)/3 ---- *)
Lemma quorum_intersection_count_lemma (n : N) (u a b : list N) :
  NoDup a -> NoDup b -> incl a u -> incl b u -> N.of_nat (length u) <= n ->
  n * 2 / 3 < N.of_nat (length a) -> n * 2 / 3 < N.of_nat (length b) ->
  (n - 1) / 3 < N.of_nat (length (inter a b)).
Proof.
  intros Ha Hb Hia Hib Hn H1 H2.
  pose proof (length_split (mem b) a) as Hs. fold (inter a b) in Hs. fold (diff a b) in Hs.
  pose proof (diff_app_bound u a b Ha Hb Hia Hib) as Hd.
  lia.
Qed.

(* hence, with fewer than a third Byzantine, a common member outside the Byzantine set *)
Lemma more_than_excludes (s f : list N) : NoDup s -> NoDup f -> (length f < length s)%nat ->
  exists x, In x s /\ ~ In x f.
Proof.
  intros Hs Hf Hlt.
  pose proof (length_split (mem f) s) as Hsp.
  assert (Hle : (length (filter (mem f) s) <= length f)%nat).
  { apply NoDup_incl_length; [apply NoDup_filter; exact Hs|]. intros x Hx. rewrite filter_In, mem_In in Hx. tauto. }
  destruct (filter (fun x => negb (mem f x)) s) as [|x t] eqn:E; [cbn in Hsp; lia|].
  exists x. assert (Hx : In x (filter (fun x => negb (mem f x)) s)) by (rewrite E; left; reflexivity).
  rewrite filter_In in Hx. destruct Hx as [Hxs Hxf]. split; [exact Hxs|].
  intros Hin. apply mem_In in Hin. rewrite Hin in Hxf. discriminate.
Qed.

Lemma quorum_honest_member_count (n : N) (u a b byz : list N) :
  NoDup a -> NoDup b -> NoDup byz -> incl a u -> incl b u -> N.of_nat (length u) <= n ->
  3 * N.of_nat (length byz) < n ->
  n * 2 / 3 < N.of_nat (length a) -> n * 2 / 3 < N.of_nat (length b) ->
  exists x, In x a /\ In x b /\ ~ In x byz.
Proof.
  intros Ha Hb Hf Hia Hib Hn Hbyz H1 H2.
  pose proof (quorum_intersection_count_lemma n u a b Ha Hb Hia Hib Hn H1 H2) as Hq.
  destruct (more_than_excludes (inter a b) byz) as [x [Hx Hnf]].
  - apply NoDup_filter; exact Ha.
  - exact Hf.
  - lia.
  - apply inter_In in Hx. exists x. tauto.
Qed.

(* ---- weight mode: two sets each weighing more than total*2/3 share more than a third of the total ---- *)
Lemma quorum_intersection_weight_lemma (w : N -> N) (total : N) (u a b : list N) :
  NoDup u -> NoDup a -> NoDup b -> incl a u -> incl b u -> sumw w u <= total ->
  total * 2 / 3 < sumw w a -> total * 2 / 3 < sumw w b ->
  total < 3 * sumw w (inter a b).
Proof.
  intros Hu Ha Hb Hia Hib Ht H1 H2.
  pose proof (sumw_split w (mem b) a) as Hs. fold (inter a b) in Hs. fold (diff a b) in Hs.
  pose proof (diff_app_bound_w w u a b Hu Ha Hb Hia Hib) as Hd.
  lia.
Qed.

Lemma quorum_honest_member_weight (w : N -> N) (total : N) (u a b byz : list N) :
  NoDup u -> NoDup a -> NoDup b -> NoDup byz -> incl a u -> incl b u -> incl byz u -> sumw w u <= total ->
  3 * sumw w byz < total ->
  total * 2 / 3 < sumw w a -> total * 2 / 3 < sumw w b ->
  exists x, In x a /\ In x b /\ ~ In x byz.
Proof.
  intros Hu Ha Hb Hf Hia Hib Hif Ht Hbyz H1 H2.
  pose proof (quorum_intersection_weight_lemma w total u a b Hu Ha Hb Hia Hib Ht H1 H2) as Hq.
  (* if every common member were Byzantine, the common weight would be at most the Byzantine weight *)
  pose proof (sumw_split w (mem byz) (inter a b)) as Hsp.
  assert (Hle : sumw w (filter (mem byz) (inter a b)) <= sumw w byz).
  { apply sumw_incl; [apply NoDup_filter, NoDup_filter; exact Ha|]. intros x Hx. rewrite filter_In, mem_In in Hx. tauto. }
  destruct (filter (fun x => negb (mem byz x)) (inter a b)) as [|x t] eqn:E.
  - unfold sumw in Hsp at 2. cbn in Hsp. lia.
  - exists x. assert (Hx : In x (filter (fun x => negb (mem byz x)) (inter a b))) by (rewrite E; left; reflexivity).
    rewrite filter_In, inter_In in Hx. destruct Hx as [[Hxa Hxb] Hxf]. repeat split; try assumption.
    intros Hin. apply mem_In in Hin. rewrite Hin in Hxf. discriminate.
Qed.
