(* Bft/ProofsOrder2.v — the characterisation of finalized (ProofsOrder.fin_char) is kept by every import into a
   consistent repository; hence two nodes that store the same consistent set of blocks — whatever the arrival orders,
   duplicates, refused blocks and restarts — hold the same finalized checkpoint. *)
From Coq Require Import List NArith ZArith Bool Lia.
From Coq Require Import ZifyN ZifyNat ZifyBool.
From Verif Require Import Common.Util Bft.Tree Bft.Model Bft.Quorum Bft.ProofsTally Bft.ProofsChain Bft.ProofsSearch
  Bft.ProofsSuffix Bft.ProofsNode Bft.ProofsFinal Bft.ProofsCommit Bft.ProofsFind Bft.ProofsLive2 Bft.ProofsVote
  Bft.ProofsMonotone Bft.ProofsOrder.
Import ListNotations.
Open Scope N_scope.

Section Order2.
Variable c : cfg.
Hypothesis HL : 0 < c_L c.
Notation L := (c_L c).

Lemma has_block_stored r head id : has_block r head id = true -> exists x, In x (chain_of r head) /\ b_id x = id.
Proof.
  unfold has_block, chain_has, at_num. destruct (find _ _) as [x|] eqn:E; [|discriminate].
  intros H. apply N.eqb_eq in H. exists x. split; [exact (proj1 (find_some _ _ E)) | exact H].
Qed.

Lemma ancestor_suffix r b B : wf_repo r -> In b r -> In B r -> has_block r (b_id b) (b_id B) = true ->
  exists l1, chain_of r (b_id b) = l1 ++ chain_of r (b_id B).
Proof.
  intros Hwf Hb HB Hh. unfold has_block, chain_has in Hh. change (idnum (b_id B)) with (b_num B) in Hh.
  rewrite at_num_suffix in Hh. destruct (suffix_at (b_num B) (chain_of r (b_id b))) as [|z l2] eqn:Es; [discriminate|].
  apply N.eqb_eq in Hh.
  destruct (suffix_at_split (chain_of r (b_id b)) (b_num B)) as [l1 Esplit]. rewrite Es in Esplit.
  pose proof (chain_suffix r Hwf (b_id b) l1 z l2 Esplit) as Hz. rewrite Hh in Hz. exists l1. rewrite Hz. exact Esplit.
Qed.

(* what CommitBlock does to finalized, exactly *)
Lemma commit_block_fin_spec r e b a :
  wf_repo r -> find_blk r (b_id b) = Some b ->
  qs_ok c r (if storepoint L (b_num b) =? b_num b then (b_id b, s_q (compute_state c r (e_qs e) b)) :: e_qs e else e_qs e) ->
  compute_state c r (e_qs e) b = state_pure c (chain_of r (b_id b)) ->
  idnum (e_fin e) = a * L ->
  let e' := fst (commit_block true c r e b false) in
  (finalizing c r b /\ a * L < checkpoint L (b_num b) /\
   exists m y, block_at r (b_id b) ((a + m) * L) = Some y /\ b_num y = (a + m) * L /\
               q_epoch c r (b_id b) (a + m) = quality_pure c (chain_of r (b_id b)) - 1 /\
               (forall k, k < m -> q_epoch c r (b_id b) (a + k) < quality_pure c (chain_of r (b_id b)) - 1) /\
               e_fin e' = b_id y) \/
  ((~ finalizing c r b \/ checkpoint L (b_num b) <= a * L) /\ e_fin e' = e_fin e).
Proof.
  intros Hwf Hb Hqs Hcs Hfin. cbv zeta. destruct (find_blk_id _ _ _ Hb) as [_ Hbin].
  unfold commit_block. destruct (storepoint L (b_num b) =? b_num b) eqn:Esp.
  2:{ right. split; [|reflexivity]. left. intros [_ [H _]]. apply N.eqb_neq in Esp. contradiction. }
  apply N.eqb_eq in Esp. rewrite Hcs in Hqs |- *.
  set (C := chain_of r (b_id b)) in *. fold (quality_pure c C) in Hqs |- *. set (Q := quality_pure c C) in *.
  destruct (s_comm (state_pure c C)) eqn:Ecomm; cbn [andb].
  2:{ right. split; [|reflexivity]. left. intros [_ [_ [H _]]]. fold C in H. rewrite Ecomm in H. discriminate. }
  destruct (1 <? Q) eqn:EQ; cbn [andb].
  2:{ right. split; [|reflexivity]. left. intros [_ [_ [_ H]]]. fold C in H. fold Q in H. apply N.ltb_ge in EQ. lia. }
  apply N.ltb_lt in EQ. cbn [negb orb].
  destruct (idnum (e_fin e) <? checkpoint L (b_num b)) eqn:Eg.
  2:{ right. split; [|reflexivity]. right. apply N.ltb_ge in Eg. rewrite <- Hfin. exact Eg. }
  apply N.ltb_lt in Eg. left.
  assert (Hfz : finalizing c r b) by (unfold finalizing; fold C; fold Q; tauto).
  split; [exact Hfz|]. split; [rewrite <- Hfin; exact Eg|].
  pose proof (storepoint_form L HL _ Esp) as Hkb. set (kb := b_num b / L) in *.
  assert (Hcpb : checkpoint L (b_num b) = kb * L) by reflexivity.
  assert (Hak : a < kb) by (rewrite Hcpb, Hfin in Eg; nia).
  destruct (store_seq c HL r _ (b_id b) b kb Hwf Hqs Hb Hkb) as [_ [Hstep [Hlast _]]].
  destruct (chain_of_known r Hwf _ _ Hb) as [t [HC Hg]]. fold C in HC, Hlast.
  assert (HgC : grounded C) by (rewrite HC; exact Hg).
  assert (Hj : s_just (state_pure c C) = true) by (unfold state_pure in *; apply committed_implies_justified_lemma; exact Ecomm).
  assert (HQprev : Q = q_epoch c r (b_id b) (kb - 1) + 1).
  { destruct (quality_epoch_step c HL C b t HgC HC) as [_ Hs]; [rewrite Hcpb; nia|]. rewrite Hcpb in Hs.
    unfold Q. rewrite (Hs Hj). unfold q_epoch. fold C. f_equal. f_equal.
    remember (kb - 1) as k' eqn:Ek'. assert (Hk : kb = k' + 1) by lia. rewrite Hk. f_equal. lia. }
  assert (Hmono : forall i j, i <= j -> j <= kb -> q_epoch c r (b_id b) i <= q_epoch c r (b_id b) j).
  { apply steps_mono. intros k Hk. exact (proj1 (Hstep k Hk)). }
  destruct (find_cp_general c HL r _ (e_fin e) (b_id b) b a kb (Q - 1) Hwf Hqs Hb Hfin Hkb ltac:(lia))
    as [m [y [Hfc [_ [Hy [Hyn [Hqm Hmin]]]]]]].
  - pose proof (Hmono a (kb - 1) ltac:(lia) ltac:(lia)). lia.
  - fold C. fold Q. lia.
  - exists m, y. fold C in Hqm, Hmin |- *. fold Q in Hqm, Hmin |- *. rewrite Hfc. cbn. tauto.
Qed.

Lemma fin_char_fresh b r fin : wf_repo (b :: r) -> ~ finalizing c (b :: r) b -> fin_char c r fin -> fin_char c (b :: r) fin.
Proof.
  intros Hwf Hnb [[Hno [g [Hg [Hz ->]]]] | [B [j [y [HB [Hmax [[Hq Hmin] [Hy [Hyn ->]]]]]]]]].
  - left. split.
    + intros B HB. pose proof (proj1 HB) as Hin. destruct Hin as [<-|Hin]; [exact (Hnb HB)|].
      apply (Hno B). apply (finalizing_fresh c b r B Hwf Hin). exact HB.
    + exists g. split; [right; exact Hg | tauto].
  - right. pose proof (proj1 HB) as HBin. pose proof (fresh_ne b r B Hwf HBin) as Hne.
    exists B, j, y. split; [apply (finalizing_fresh c b r B Hwf HBin); exact HB|]. split.
    + intros B' HB'. pose proof (proj1 HB') as Hin. destruct Hin as [<-|Hin]; [contradiction (Hnb HB')|].
      apply Hmax. apply (finalizing_fresh c b r B' Hwf Hin). exact HB'.
    + unfold first_epoch, q_epoch, block_at. rewrite (chain_of_fresh b r (b_id B) Hne). tauto.
Qed.

Theorem add_and_commit_fin_char nd b :
  inv c nd -> fin_char c (n_repo nd) (e_fin (n_eng nd)) ->
  known (n_repo nd) (b_id b) = false -> known (n_repo nd) (b_parent b) = true -> valid_child (n_repo nd) b ->
  consistent c (b :: n_repo nd) ->
  let nd' := fst (add_and_commit true c nd b false) in
  fin_char c (n_repo nd') (e_fin (n_eng nd')).
Proof.
  intros Hi Hfc Hfresh Hpk Hvc Hcons. cbv zeta.
  pose proof (add_and_commit_inv c HL true nd b false Hi Hfresh Hpk Hvc) as Hi'.
  pose proof Hi as [Hwf Hqs Hbest Hmax].
  apply known_find in Hpk. destruct Hpk as [p Hp]. pose proof (Hvc p Hp) as Hn.
  set (r := n_repo nd) in *. set (e := n_eng nd) in *.
  assert (Hpid : b_parent b <> b_id b).
  { intros E. destruct (find_blk_id _ _ _ Hp) as [Hid Hin]. apply known_in in Hin. rewrite Hid, E in Hin. rewrite Hin in Hfresh. discriminate. }
  assert (Hcs : compute_state c (b :: r) (e_qs e) b = state_pure c (chain_of (b :: r) (b_id b))).
  { rewrite chain_of_head. unfold compute_state. rewrite chain_of_fresh by (intros E; apply Hpid; symmetry; exact E).
    apply (compute_state_pure_lemma c HL r (e_qs e) b p Hwf Hqs Hp Hn). }
  assert (Hwf' : wf_repo (b :: r)).
  { cbn. split; [exact Hwf|]. split; [exact Hfresh|]. destruct r as [|r0 rr]; [discriminate|]. exists p. split; assumption. }
  unfold add_and_commit in *. fold r e in Hi' |- *.
  pose proof (commit_block_qs c true (b :: r) e b false) as Hq.
  assert (Hfb : find_blk (b :: r) (b_id b) = Some b) by (unfold find_blk; cbn [find]; rewrite N.eqb_refl; reflexivity).
  (* finalized's number is a multiple of L *)
  assert (Hfa : exists a, idnum (e_fin e) = a * L /\
                 (forall B j y, finalizing c r B -> block_at r (b_id B) (j * L) = Some y -> e_fin e = b_id y -> b_num y = j * L -> a = j)).
  { destruct Hfc as [[_ [g [_ [Hz ->]]]] | [B [j [y [_ [_ [_ [_ [Hyn ->]]]]]]]]].
    - exists 0. split; [exact Hz|]. intros B j y _ _ E Hy. change (idnum (b_id g)) with (b_num g) in *.
      assert (b_num y = 0) by (rewrite <- Hz; unfold b_num; rewrite E; reflexivity). nia.
    - exists j. split; [exact Hyn|]. intros B' j' y' _ _ E Hy'. assert (b_num y' = b_num y) by (unfold b_num; rewrite E; reflexivity). nia. }
  destruct Hfa as [a [Hfa Hfa_j]].
  pose proof (commit_block_fin_spec (b :: r) e b a Hwf' Hfb) as Hspec.
  destruct (commit_block true c (b :: r) e b false) as [e' err] eqn:Ecb. cbn [fst snd n_repo n_eng] in *.
  pose proof (inv_qs c _ Hi') as Hqs'. cbn [n_repo n_eng] in Hqs'.
  specialize (Hspec ltac:(rewrite <- Hq; exact Hqs') Hcs Hfa). cbv zeta in Hspec.
  destruct Hspec as [[Hfz [Hguard [m [y [Hy [Hyn [Hqm [Hmin Hfin']]]]]]]] | [Hnot Hsame]].
  - (* b finalizes *)
    rewrite Hfin'. right. exists b, (a + m), y. split; [exact Hfz|].
    destruct Hfc as [[Hno [g [_ [Hz Hfg]]]] | [B [j [y0 [HB [HmaxB [[HqB HminB] [Hy0 [Hy0n Hfy0]]]]]]]]].
    + split.
      * intros B' HB'. pose proof (proj1 HB') as Hin. destruct Hin as [<-|Hin]; [lia|].
        exfalso. apply (Hno B'). apply (finalizing_fresh c b r B' Hwf' Hin). exact HB'.
      * split; [|tauto]. split; [exact Hqm|]. intros k Hk.
        assert (a = 0). { rewrite Hfg in Hfa. change (idnum (b_id g)) with (b_num g) in Hfa. nia. }
        subst a. destruct (N.lt_ge_cases k 0); [lia|]. replace k with (0 + k) by lia. apply Hmin. lia.
    + (* the previous highest finalizing block B is on b's chain *)
      pose proof (proj1 HB) as HBin.
      assert (HB' : finalizing c (b :: r) B) by (apply (finalizing_fresh c b r B Hwf' HBin); exact HB).
      assert (Hanc : has_block (b :: r) (b_id b) (b_id B) = true).
      { destruct (Hcons b B Hfz HB') as [H|H]; [exact H|]. exfalso.
        destruct (has_block_stored _ _ _ H) as [x [Hx Hxid]].
        rewrite (chain_of_fresh b r (b_id B) (fresh_ne b r B Hwf' HBin)) in Hx.
        apply chain_incl in Hx. apply known_in in Hx. rewrite Hxid in Hx. rewrite Hx in Hfresh. discriminate. }
      assert (Hbin' : In b (b :: r)) by (left; reflexivity). assert (HBin' : In B (b :: r)) by (right; exact HBin).
      pose proof (storepoint_form L HL _ (proj1 (proj2 HB))) as HkB. set (kB := b_num B / L) in *.
      pose proof (storepoint_form L HL _ (proj1 (proj2 Hfz))) as Hkb. set (kb := b_num b / L) in *.
      destruct (ancestor_suffix (b :: r) b B Hwf' Hbin' HBin' Hanc) as [l1 Hsuf].
      assert (Hnum : b_num B < b_num b).
      { rewrite chain_of_head in Hsuf. destruct l1 as [|h l1'].
        - cbn [app] in Hsuf. pose proof (chain_of_stored (b :: r) B Hwf' HBin') as FB.
          destruct (chain_of_known _ Hwf' _ _ FB) as [tB [HtB _]]. rewrite HtB in Hsuf. inversion Hsuf; subst.
          exfalso. apply (fresh_ne B r B Hwf' HBin). reflexivity.
        - cbn [app] in Hsuf. injection Hsuf as Hh Hrest.
          destruct (chain_of_known (b :: r) Hwf' _ _ Hfb) as [tb [Htb Hgb]]. rewrite chain_of_head in Htb. injection Htb as Htb'.
          apply (grounded_nums b tb Hgb B). rewrite <- Htb', Hrest, in_app_iff. right.
          pose proof (chain_of_stored (b :: r) B Hwf' HBin') as FB. destruct (chain_of_known _ Hwf' _ _ FB) as [tB [HtB _]].
          change (if b_id b =? b_id B then b :: chain_of r (b_parent b) else chain_of r (b_id B)) with (chain_of (b :: r) (b_id B)).
          rewrite HtB. left. reflexivity. }
      assert (HkBkb : kB < kb) by nia.
      assert (Hfresh_chain : chain_of (b :: r) (b_id B) = chain_of r (b_id B)) by (apply chain_of_fresh; apply (fresh_ne b r B Hwf' HBin)).
      assert (Haj : a = j) by (apply (Hfa_j B j y0 HB Hy0 Hfy0 Hy0n)). subst a.
      assert (HjkB : j <= kB).
      { destruct (block_at_num _ _ _ _ Hy0) as [_ Hin0]. destruct (chain_of_known r Hwf _ _ (chain_of_stored r B Hwf HBin)) as [tB [HtB HgB]].
        rewrite HtB in Hin0. destruct Hin0 as [<-|Hin0]; [nia | pose proof (grounded_nums B tB HgB y0 Hin0); nia]. }
      assert (HQle : quality_pure c (chain_of r (b_id B)) <= quality_pure c (chain_of (b :: r) (b_id b))).
      { rewrite Hsuf, Hfresh_chain. apply (quality_suffix c HL l1).
        - rewrite <- Hfresh_chain, <- Hsuf. destruct (chain_of_known (b :: r) Hwf' _ _ Hfb) as [tb [Htb Hgb]]. rewrite Htb. exact Hgb.
        - destruct (chain_of_known r Hwf _ _ (chain_of_stored r B Hwf HBin)) as [tB [HtB _]]. rewrite HtB. discriminate. }
      split.
      * intros B2 HB2. pose proof (proj1 HB2) as Hin. destruct Hin as [<-|Hin]; [lia|].
        pose proof (HmaxB B2 (proj1 (finalizing_fresh c b r B2 Hwf' Hin) HB2)). lia.
      * split; [|tauto]. split; [exact Hqm|]. intros k Hk.
        destruct (N.lt_ge_cases k j) as [Hlt|Hge].
        -- rewrite <- (q_epoch_ancestor c HL (b :: r) b B k kB Hwf' Hbin' HBin' Hanc HkB ltac:(lia)).
           unfold q_epoch. rewrite Hfresh_chain. pose proof (HminB k Hlt) as H1. unfold q_epoch in H1. lia.
        -- replace k with (j + (k - j)) by lia. apply Hmin. lia.
  - (* finalized unchanged *)
    rewrite Hsame. destruct Hnot as [Hnot|Hg].
    + apply fin_char_fresh; assumption.
    + (* guard refused although b might finalize: impossible in a consistent repository, or b does not finalize *)
      apply fin_char_fresh; [exact Hwf' | | exact Hfc]. intros Hfz.
      pose proof (storepoint_form L HL _ (proj1 (proj2 Hfz))) as Hkb. set (kb := b_num b / L) in *.
      assert (Hcpb : checkpoint L (b_num b) = kb * L) by reflexivity. rewrite Hcpb in Hg.
      destruct Hfc as [[_ [g [_ [Hz Hfg]]]] | [B [j [y0 [HB [HmaxB [_ [Hy0 [Hy0n Hfy0]]]]]]]]].
      * (* finalized = genesis, a = 0: then kb = 0 and b lies in epoch 0 where quality <= 1 *)
        assert (a = 0). { rewrite Hfg in Hfa. change (idnum (b_id g)) with (b_num g) in Hfa. nia. }
        subst a. assert (kb = 0) by nia.
        destruct Hfz as [_ [_ [_ HQ]]]. destruct (chain_of_known (b :: r) Hwf' _ _ Hfb) as [tb [Htb Hgb]].
        pose proof (quality_head c (chain_of (b :: r) (b_id b))) as Hqh.
        rewrite (epoch0_pq c HL (chain_of (b :: r) (b_id b)) ltac:(rewrite Htb; exact Hgb) b tb Htb ltac:(nia)) in Hqh.
        destruct (s_just _) in Hqh; lia.
      * pose proof (proj1 HB) as HBin.
        assert (HB' : finalizing c (b :: r) B) by (apply (finalizing_fresh c b r B Hwf' HBin); exact HB).
        assert (Haj : a = j) by (apply (Hfa_j B j y0 HB Hy0 Hfy0 Hy0n)). subst a.
        assert (Hanc : has_block (b :: r) (b_id b) (b_id B) = true).
        { destruct (Hcons b B Hfz HB') as [H|H]; [exact H|]. exfalso.
          destruct (has_block_stored _ _ _ H) as [x [Hx Hxid]].
          rewrite (chain_of_fresh b r (b_id B) (fresh_ne b r B Hwf' HBin)) in Hx.
          apply chain_incl in Hx. apply known_in in Hx. rewrite Hxid in Hx. rewrite Hx in Hfresh. discriminate. }
        assert (Hbin' : In b (b :: r)) by (left; reflexivity). assert (HBin' : In B (b :: r)) by (right; exact HBin).
        pose proof (storepoint_form L HL _ (proj1 (proj2 HB))) as HkB. set (kB := b_num B / L) in *.
        destruct (ancestor_suffix (b :: r) b B Hwf' Hbin' HBin' Hanc) as [l1 Hsuf].
        assert (Hnum : b_num B < b_num b).
        { rewrite chain_of_head in Hsuf. destruct l1 as [|h l1'].
          - cbn [app] in Hsuf. pose proof (chain_of_stored (b :: r) B Hwf' HBin') as FB.
            destruct (chain_of_known _ Hwf' _ _ FB) as [tB [HtB _]]. rewrite HtB in Hsuf. inversion Hsuf; subst.
            exfalso. apply (fresh_ne B r B Hwf' HBin). reflexivity.
          - cbn [app] in Hsuf. injection Hsuf as Hh Hrest.
            destruct (chain_of_known (b :: r) Hwf' _ _ Hfb) as [tb [Htb Hgb]]. rewrite chain_of_head in Htb. injection Htb as Htb'.
            apply (grounded_nums b tb Hgb B). rewrite <- Htb', Hrest, in_app_iff. right.
            pose proof (chain_of_stored (b :: r) B Hwf' HBin') as FB. destruct (chain_of_known _ Hwf' _ _ FB) as [tB [HtB _]].
            change (if b_id b =? b_id B then b :: chain_of r (b_parent b) else chain_of r (b_id B)) with (chain_of (b :: r) (b_id B)).
            rewrite HtB. left. reflexivity. }
        assert (HjkB : j <= kB).
        { destruct (block_at_num _ _ _ _ Hy0) as [_ Hin0]. destruct (chain_of_known r Hwf _ _ (chain_of_stored r B Hwf HBin)) as [tB [HtB HgB]].
          rewrite HtB in Hin0. destruct Hin0 as [<-|Hin0]; [nia | pose proof (grounded_nums B tB HgB y0 Hin0); nia]. }
        nia.
Qed.
End Order2.
