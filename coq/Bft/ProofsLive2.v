(* Bft/ProofsLive2.v — liveness on one chain of honest blocks.
   honest_chain: every block's COM bit is what ShouldVote answers on a node that has seen only this chain
   (ProofsVote.should_vote_linear): COM iff not in the first round and the parent's quality is positive.
   Then: an epoch with a quorum of distinct signers is justified; if the chain already held a justified epoch when the
   epoch began, all its votes are COM and it is committed; CommitBlock of its last block moves finalized to the
   checkpoint of the previous epoch when that one was justified too. *)
From Coq Require Import List NArith ZArith Bool Lia.
From Coq Require Import ZifyN ZifyNat ZifyBool.
From Verif Require Import Common.Util Bft.Tree Bft.Model Bft.Quorum Bft.ProofsTally Bft.ProofsChain Bft.ProofsSearch
  Bft.ProofsSuffix Bft.ProofsNode Bft.ProofsFinal Bft.ProofsCommit Bft.ProofsFind Bft.ProofsLive.
Import ListNotations.
Open Scope N_scope.

Section Live2.
Variable c : cfg.
Hypothesis HL : 0 < c_L c.
Notation L := (c_L c).

Definition com_rule (x : blk) (parent_chain : list blk) : bool :=
  negb (b_num x / L =? 0) && (0 <? quality_pure c parent_chain).

Fixpoint honest_chain (ch : list blk) : Prop :=
  match ch with
  | [] => True
  | x :: t => (0 < b_num x -> b_com x = com_rule x t) /\ honest_chain t
  end.

(* the segment of the head's epoch, structurally *)
Lemma epoch_segment_in ch : grounded ch -> forall x, In x (snd (epoch_info c ch)) ->
  exists l1 t, ch = l1 ++ x :: t /\ 0 < b_num x /\
               (forall hd tl, ch = hd :: tl -> checkpoint L (b_num x) = checkpoint L (b_num hd)).
Proof.
  induction ch as [|b t IH]; intros Hg x Hin; [destruct Hin|].
  cbn [epoch_info] in Hin. destruct (b_num b =? 0) eqn:E0; [destruct Hin|]. apply N.eqb_neq in E0.
  destruct (is_checkpoint L (b_num b)) eqn:Ecp; cbn [snd] in Hin.
  - destruct Hin as [<-|[]]. exists [], t. split; [reflexivity|]. split; [lia|]. intros hd tl E. inversion E; subst. reflexivity.
  - destruct Hin as [<-|Hin].
    + exists [], t. split; [reflexivity|]. split; [lia|]. intros hd tl E. inversion E; subst. reflexivity.
    + destruct t as [|p t']; [destruct Hin|].
      pose proof Hg as Hg0. cbn in Hg. destruct Hg as [_ [Hn Hgt]].
      destruct (IH Hgt x Hin) as [l1 [t2 [E [Hpos Hcp]]]].
      exists (b :: l1), t2. split; [cbn; rewrite E; reflexivity|]. split; [exact Hpos|].
      intros hd tl E2. inversion E2; subst hd tl. rewrite (Hcp p t' eq_refl).
      rewrite Hn in Ecp |- *. symmetry. apply checkpoint_succ_same; assumption.
Qed.

Lemma honest_chain_app l1 : forall ch, honest_chain (l1 ++ ch) -> honest_chain ch.
Proof. induction l1 as [|y l1 IH]; intros ch H; [exact H|]. cbn in H. apply IH. tauto. Qed.

(* C03, third sentence, on the chain: the head b closes epoch kb >= 1 *)
Theorem epoch_committed ch b t kb :
  grounded ch -> ch = b :: t -> honest_chain ch -> b_num b = kb * L + L - 1 -> 1 <= kb ->
  (* more than two thirds (count or weight) signed in this epoch *)
  (if thr_weight c =? 0 then thr_votes c <? N.of_nat (length (signers (snd (epoch_info c ch))))
   else thr_weight c <? sumw (weight_of c) (signers (snd (epoch_info c ch)))) = true ->
  (* the chain already held a justified epoch when this one began *)
  1 <= quality_pure c (suffix_at (kb * L - 1) ch) ->
  s_just (state_pure c ch) = true /\ s_comm (state_pure c ch) = true /\
  quality_pure c ch = quality_pure c (suffix_at (kb * L - 1) ch) + 1.
Proof.
  intros Hg E Hh Hnum Hkb Hquorum Hprev.
  assert (Hj : s_just (state_pure c ch) = true) by (unfold state_pure; apply quorum_justifies; exact Hquorum).
  assert (Hcp : checkpoint L (b_num b) = kb * L) by (rewrite Hnum; apply checkpoint_store; exact HL).
  split; [exact Hj|]. split.
  - unfold state_pure in *. rewrite all_com_committed; [exact Hj|].
    intros x Hin. destruct (epoch_segment_in ch Hg x Hin) as [l1 [t2 [Esplit [Hpos Hsame]]]].
    pose proof (honest_chain_app l1 (x :: t2) ltac:(rewrite <- Esplit; exact Hh)) as [Hx _].
    rewrite (Hx Hpos). unfold com_rule.
    pose proof (Hsame b t E) as Hcx. rewrite Hcp in Hcx.
    assert (Hxge : kb * L <= b_num x) by (rewrite <- Hcx; apply checkpoint_le; exact HL).
    assert (Hd : (b_num x / L =? 0) = false).
    { apply N.eqb_neq. intros Hz. apply (div_zero_lt _ HL) in Hz. nia. }
    rewrite Hd. cbn [negb andb]. apply N.ltb_lt.
    (* the parent chain t2 contains the previous epoch's store point as a suffix *)
    assert (Hgx : grounded (x :: t2)). { apply (grounded_app l1); [rewrite <- Esplit; exact Hg | discriminate]. }
    destruct t2 as [|p t3]; [cbn in Hgx; lia|].
    pose proof Hgx as Hgx0. cbn in Hgx. destruct Hgx as [_ [Hnx Hgp]].
    assert (Hsuf : suffix_at (kb * L - 1) ch = suffix_at (kb * L - 1) (p :: t3)).
    { rewrite Esplit. clear -Hg Esplit Hxge Hnx HL Hkb. revert Hg. rewrite Esplit. clear Esplit.
      induction l1 as [|y l1 IH]; intros Hg.
      - cbn [app suffix_at]. assert (E1 : (b_num x =? kb * L - 1) = false) by (apply N.eqb_neq; nia). rewrite E1. reflexivity.
      - cbn [app] in Hg. cbn [app suffix_at].
        assert (Hlt : b_num x < b_num y). { apply (grounded_nums y (l1 ++ x :: p :: t3) Hg). rewrite in_app_iff. right. left. reflexivity. }
        assert (E1 : (b_num y =? kb * L - 1) = false) by (apply N.eqb_neq; nia). rewrite E1.
        apply IH. destruct (l1 ++ x :: p :: t3) as [|z zs] eqn:Ez; [destruct l1; discriminate|]. exact (grounded_tail _ _ _ Hg). }
    rewrite Hsuf in Hprev.
    destruct (suffix_at_split (p :: t3) (kb * L - 1)) as [l0 Hs0].
    assert (Hne : suffix_at (kb * L - 1) (p :: t3) <> []).
    { destruct (suffix_at_exists (p :: t3) Hgp p t3 eq_refl (kb * L - 1)) as [z [l4 [Hz _]]]; [nia|]. rewrite Hz. discriminate. }
    pose proof (quality_suffix c HL l0 _ ltac:(rewrite <- Hs0; exact Hgp) Hne) as Hmono. rewrite <- Hs0 in Hmono. lia.
  - destruct (quality_epoch_step c HL ch b t Hg E) as [_ Hstep]; [rewrite Hcp; nia|]. rewrite Hcp in Hstep. exact (Hstep Hj).
Qed.
End Live2.

Lemma steps_mono (q : N -> N) (hi : N) : (forall k, k + 1 <= hi -> q k <= q (k + 1)) ->
  forall i j, i <= j -> j <= hi -> q i <= q j.
Proof.
  intros Hs i j Hij Hj. remember (N.to_nat (j - i)) as d eqn:Ed. revert i j Hij Hj Ed.
  induction d as [|d IH]; intros i j Hij Hj Ed.
  - assert (i = j) by lia. subst. lia.
  - specialize (IH i (j - 1) ltac:(lia) ltac:(lia) ltac:(lia)). pose proof (Hs (j - 1) ltac:(lia)) as H.
    replace (j - 1 + 1) with j in H by lia. lia.
Qed.

Section Finalize.
Variable c : cfg.
Hypothesis HL : 0 < c_L c.
Notation L := (c_L c).

(* CommitBlock of the last block of a committed epoch kb moves finalized to the checkpoint of epoch kb-1 when that
   epoch was the first to reach its quality (it was justified, or it is finalized's own epoch) *)
Theorem commit_finalizes r e b a kb :
  wf_repo r -> find_blk r (b_id b) = Some b ->
  qs_ok c r ((b_id b, s_q (compute_state c r (e_qs e) b)) :: e_qs e) ->
  compute_state c r (e_qs e) b = state_pure c (chain_of r (b_id b)) ->
  idnum (e_fin e) = a * L -> b_num b = kb * L + L - 1 -> a < kb ->
  s_comm (state_pure c (chain_of r (b_id b))) = true -> 1 < quality_pure c (chain_of r (b_id b)) ->
  (kb - 1 = a \/ (2 <= kb /\ q_epoch c r (b_id b) (kb - 2) < q_epoch c r (b_id b) (kb - 1))) ->
  exists y, block_at r (b_id b) ((kb - 1) * L) = Some y /\ b_num y = (kb - 1) * L /\
            e_fin (fst (commit_block true c r e b false)) = b_id y.
Proof.
  intros Hwf Hb Hqs Hcs Hfin Hnum Hak Hcomm HQ Hprev.
  set (C := chain_of r (b_id b)) in *. set (Q := quality_pure c C) in *.
  destruct (store_seq c HL r _ (b_id b) b kb Hwf Hqs Hb Hnum) as [_ [Hstep [Hlast _]]].
  destruct (chain_of_known r Hwf _ _ Hb) as [t [HC Hg]]. fold C in HC.
  assert (HgC : grounded C) by (rewrite HC; exact Hg).
  assert (Hj : s_just (state_pure c C) = true) by (unfold state_pure in *; apply committed_implies_justified_lemma; exact Hcomm).
  assert (Hcp : checkpoint L (b_num b) = kb * L) by (rewrite Hnum; apply checkpoint_store; exact HL).
  assert (HQprev : Q = q_epoch c r (b_id b) (kb - 1) + 1).
  { destruct (quality_epoch_step c HL C b t HgC HC) as [_ Hs]; [rewrite Hcp; nia|]. rewrite Hcp in Hs.
    unfold Q. rewrite (Hs Hj). unfold q_epoch. fold C. f_equal. f_equal.
    remember (kb - 1) as k' eqn:Ek'. assert (Hk : kb = k' + 1) by lia. rewrite Hk. f_equal. lia. }
  assert (Hmono : forall i j, i <= j -> j <= kb -> q_epoch c r (b_id b) i <= q_epoch c r (b_id b) j).
  { apply steps_mono. intros k Hk. exact (proj1 (Hstep k Hk)). }
  destruct (find_cp_general c HL r _ (e_fin e) (b_id b) b a kb (Q - 1) Hwf Hqs Hb Hfin Hnum ltac:(lia))
    as [m [y [Hfc [Hamk [Hy [Hyn [Hqm Hmin]]]]]]].
  - pose proof (Hmono a (kb - 1) ltac:(lia) ltac:(lia)). lia.
  - fold C. fold Q. lia.
  - assert (Ham : a + m = kb - 1).
    { destruct (N.eq_dec (a + m) kb) as [E|E]; [rewrite E, Hlast in Hqm; fold C in Hqm; fold Q in Hqm; lia|].
      destruct (N.eq_dec (a + m) (kb - 1)) as [E1|E1]; [exact E1|]. exfalso.
      destruct Hprev as [Hp|[Hk2 Hp]]; [lia|].
      pose proof (Hmono (a + m) (kb - 2) ltac:(lia) ltac:(lia)). lia. }
    rewrite Ham in Hy, Hyn. exists y. split; [exact Hy|]. split; [exact Hyn|].
    unfold commit_block.
    assert (Esp : (storepoint L (b_num b) =? b_num b) = true) by (apply N.eqb_eq; rewrite Hnum; apply storepoint_store; exact HL).
    rewrite Esp, Hcs. fold C. fold (quality_pure c C). fold Q. rewrite Hcomm.
    assert (E1 : (1 <? Q) = true) by (apply N.ltb_lt; exact HQ). rewrite E1.
    assert (E2 : (idnum (e_fin e) <? checkpoint L (b_num b)) = true) by (apply N.ltb_lt; rewrite Hfin, Hcp; nia). rewrite E2.
    cbn [negb orb andb]. rewrite Hcs in Hfc. fold C in Hfc. fold (quality_pure c C) in Hfc. fold Q in Hfc.
    rewrite Hfc. reflexivity.
Qed.
End Finalize.
