(* Bft/ProofsSuffix.v — suffixes of a grounded chain addressed by block number, and the per-epoch quality sequence:
   the quality at a store point is the quality at the previous store point or one more. *)
From Coq Require Import List NArith ZArith Bool Lia.
From Coq Require Import ZifyN ZifyNat ZifyBool.
From Verif Require Import Common.Util Bft.Tree Bft.Model Bft.Quorum Bft.ProofsTally Bft.ProofsChain.
Import ListNotations.
Open Scope N_scope.

Fixpoint suffix_at (n : N) (ch : list blk) : list blk :=
  match ch with
  | [] => []
  | x :: t => if b_num x =? n then ch else suffix_at n t
  end.

Lemma at_num_suffix ch n : at_num ch n = match suffix_at n ch with x :: _ => Some x | [] => None end.
Proof.
  unfold at_num. induction ch as [|x t IH]; cbn; [reflexivity|]. destruct (b_num x =? n); [reflexivity | exact IH].
Qed.

Lemma suffix_at_split ch n : exists l1, ch = l1 ++ suffix_at n ch.
Proof.
  induction ch as [|x t [l1 IH]]; cbn; [exists []; reflexivity|].
  destruct (b_num x =? n); [exists []; reflexivity | exists (x :: l1); cbn; rewrite <- IH; reflexivity].
Qed.

Lemma grounded_app l1 : forall ch, grounded (l1 ++ ch) -> ch <> [] -> grounded ch.
Proof.
  induction l1 as [|b l1 IH]; intros ch Hg Hne; [exact Hg|].
  cbn [app] in Hg. destruct (l1 ++ ch) as [|p t] eqn:E; [destruct l1; [cbn in E; contradiction | discriminate]|].
  apply IH; [|exact Hne]. rewrite E. exact (grounded_tail _ _ _ Hg).
Qed.

(* a grounded chain contains every number up to its head's: the suffix starting there *)
Lemma suffix_at_exists ch : grounded ch -> forall b t, ch = b :: t -> forall n, n <= b_num b ->
  exists x l2, suffix_at n ch = x :: l2 /\ b_num x = n.
Proof.
  induction ch as [|b0 t0 IH]; intros Hg b t E n Hn; [discriminate|]. inversion E; subst b0 t0. clear E.
  cbn [suffix_at]. destruct (b_num b =? n) eqn:En.
  - apply N.eqb_eq in En. exists b, t. split; [reflexivity | exact En].
  - apply N.eqb_neq in En. destruct t as [|p t'].
    + cbn in Hg. lia.
    + pose proof Hg as Hg0. cbn in Hg. destruct Hg as [_ [Hnum Hgt]].
      apply (IH Hgt p t' eq_refl n). lia.
Qed.

Lemma suffix_at_head ch x l2 n : suffix_at n ch = x :: l2 -> b_num x = n.
Proof.
  induction ch as [|b t IH]; cbn; [discriminate|]. destruct (b_num b =? n) eqn:E.
  - intros H. inversion H; subst. apply N.eqb_eq. exact E.
  - exact IH.
Qed.

(* composing two suffixes *)
Lemma suffix_at_comp ch : grounded ch -> forall b t, ch = b :: t -> forall n m, n <= m -> m <= b_num b ->
  suffix_at n (suffix_at m ch) = suffix_at n ch.
Proof.
  induction ch as [|b0 t0 IH]; intros Hg b t E n m Hnm Hm; [discriminate|]. inversion E; subst b0 t0. clear E.
  cbn [suffix_at]. destruct (b_num b =? m) eqn:Em.
  - cbn [suffix_at]. reflexivity.
  - apply N.eqb_neq in Em. assert (En : (b_num b =? n) = false) by (apply N.eqb_neq; lia). rewrite En.
    destruct t as [|p t'].
    + cbn in Hg. lia.
    + cbn in Hg. destruct Hg as [_ [Hnum Hgt]]. apply (IH Hgt p t' eq_refl n m Hnm). lia.
Qed.

Section Seq.
Variable c : cfg.
Hypothesis HL : 0 < c_L c.
Notation L := (c_L c).

(* the parent quality of the head's epoch is the quality at the last block of the previous epoch *)
Lemma epoch_info_fst ch : grounded ch -> forall b t, ch = b :: t -> 0 < checkpoint L (b_num b) ->
  fst (epoch_info c ch) = quality_pure c (suffix_at (checkpoint L (b_num b) - 1) ch).
Proof.
  induction ch as [|b0 t0 IH]; intros Hg b t E Hcp; [discriminate|]. inversion E; subst b0 t0. clear E.
  pose proof (checkpoint_le _ HL (b_num b)) as Hle.
  cbn [epoch_info suffix_at].
  assert (E0 : (b_num b =? 0) = false) by (apply N.eqb_neq; lia). rewrite E0.
  assert (E1 : (b_num b =? checkpoint L (b_num b) - 1) = false) by (apply N.eqb_neq; lia). rewrite E1.
  destruct t as [|p t']; [cbn in Hg; lia|].
  pose proof Hg as Hg0. cbn in Hg. destruct Hg as [_ [Hnum Hgt]].
  destruct (is_checkpoint L (b_num b)) eqn:Ecp; cbn [fst].
  - pose proof (is_checkpoint_true _ _ Ecp) as Hc. rewrite Hc. cbn [suffix_at].
    assert (E2 : (b_num p =? b_num b - 1) = true) by (apply N.eqb_eq; lia). rewrite E2. reflexivity.
  - rewrite Hnum in Ecp. pose proof (checkpoint_succ_same _ HL _ Ecp) as Hsame. rewrite <- Hnum in Hsame.
    rewrite Hsame. apply (IH Hgt p t' eq_refl). rewrite <- Hsame. exact Hcp.
Qed.

(* quality at the head = parent quality, or one more when the head's epoch is justified so far *)
Lemma quality_head ch : quality_pure c ch =
  if s_just (state_pure c ch) then fst (epoch_info c ch) + 1 else fst (epoch_info c ch).
Proof. unfold quality_pure, state_pure. rewrite summarize_quality, tally_pq. reflexivity. Qed.

(* consecutive store points: S has its head at a block of epoch k+1 (k*L+L <= num), the previous store point is k*L+L-1 *)
Lemma quality_epoch_step ch b t : grounded ch -> ch = b :: t -> 0 < checkpoint L (b_num b) ->
  let prev := quality_pure c (suffix_at (checkpoint L (b_num b) - 1) ch) in
  prev <= quality_pure c ch <= prev + 1 /\ (s_just (state_pure c ch) = true -> quality_pure c ch = prev + 1).
Proof.
  intros Hg E Hcp prev. rewrite quality_head. unfold prev. rewrite <- (epoch_info_fst ch Hg b t E Hcp).
  destruct (s_just (state_pure c ch)); split; try lia; intros; try reflexivity; discriminate.
Qed.
End Seq.
