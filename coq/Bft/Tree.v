(* Bft/Tree.v — block-tree library (definitions only): a repository is the list of stored blocks, newest first;
   parents are stored before children (chain.Repository.AddBlock refuses a block whose parent is missing), so the
   chain of a block is computed by one structural pass, without fuel.  Reusable by C13/C20/C01/C02.
   Ids are N; the block number is embedded in the id exactly as in block.Number(id) (the first 4 of 32 bytes). *)
From Coq Require Import List NArith Bool Lia.
Import ListNotations.
Open Scope N_scope.

Record blk := mkB { b_id : N; b_parent : N; b_signer : N; b_com : bool; b_score : N (* header TotalScore *) }.

Definition id_shift : N := 4294967296. (* 2^32: ids are handed to the model compressed to number * 2^32 + rank (order- and number-preserving) *)
Definition idnum (id : N) : N := id / id_shift.          (* block.Number(id) *)
Definition mkid (num tail : N) : N := num * id_shift + tail.
Definition b_num (b : blk) : N := idnum (b_id b).

Definition repo := list blk.                              (* newest first *)

Definition find_blk (r : repo) (id : N) : option blk := find (fun b => b_id b =? id) r.
Definition known (r : repo) (id : N) : bool := match find_blk r id with Some _ => true | None => false end.

(* chain of `id`: the block itself, its parent, ... back to the root, as far as stored *)
Fixpoint chain_of (r : repo) (id : N) : list blk :=
  match r with
  | [] => []
  | b :: rest => if b_id b =? id then b :: chain_of rest (b_parent b) else chain_of rest id
  end.

(* chain.Chain.GetBlockID(num) on a chain given as a list *)
Definition at_num (c : list blk) (n : N) : option blk := find (fun b => b_num b =? n) c.
Definition block_at (r : repo) (head n : N) : option blk := at_num (chain_of r head) n.

(* chain.Chain.HasBlock(id): the id found at Number(id) equals id; not found -> false *)
Definition chain_has (c : list blk) (id : N) : bool :=
  match at_num c (idnum id) with Some b => b_id b =? id | None => false end.
Definition has_block (r : repo) (head id : N) : bool := chain_has (chain_of r head) id.

(* two stored blocks conflict when neither is on the other's chain *)
Definition conflict (r : repo) (a b : N) : bool := negb (has_block r a b) && negb (has_block r b a).

(* repo.ScanHeads(from): ids of stored blocks without a stored child, number >= from *)
Definition is_leaf (r : repo) (b : blk) : bool := negb (existsb (fun c => b_parent c =? b_id b) r).
Definition heads_from (r : repo) (from : N) : list blk := filter (fun b => is_leaf r b && (from <=? b_num b)) r.

(* well-formed repository: ids unique, the first stored block (genesis) has number 0, every other block's parent is
   stored *below* it with number one less *)
Fixpoint wf_repo (r : repo) : Prop :=
  match r with
  | [] => True
  | b :: rest =>
      wf_repo rest /\ known rest (b_id b) = false /\
      match rest with
      | [] => b_num b = 0
      | _ => exists p, find_blk rest (b_parent b) = Some p /\ b_num b = b_num p + 1
      end
  end.

(* a chain list is contiguous: numbers decrease by one, each element's parent is the next one *)
Fixpoint contiguous (c : list blk) : Prop :=
  match c with
  | [] => True
  | b :: t => match t with
              | [] => True
              | p :: _ => b_parent b = b_id p /\ b_num b = b_num p + 1
              end /\ contiguous t
  end.
