(* Bft/ProofsSearch.v — findCheckpointByQuality's search.  sort.Search (binary search) over the per-epoch quality
   records; the abstract reason why CommitBlock's search cannot fail once the F1 guard is in place: along a chain the
   recorded qualities grow by 0 or 1 per epoch, a committed epoch is justified, hence the epoch before it carries
   exactly the target quality q-1, and the first index reaching q-1 carries it exactly. *)
From Coq Require Import List NArith ZArith Bool Lia.
From Coq Require Import ZifyN ZifyNat ZifyBool.
From Verif Require Import Common.Util Bft.Tree Bft.Model.
Import ListNotations.
Open Scope N_scope.
Ltac Zify.zify_post_hook ::= Z.div_mod_to_equations.

(* sort.Search on a predicate that never errs: the result is the first true index if the predicate is monotone *)
Lemma bsearch_spec (g : N -> bool) (f : N -> res bool) (n : N) :
  (forall i, i < n -> f i = Ok (g i)) ->
  forall fuel i j, (N.to_nat (j - i) < fuel)%nat -> i <= j -> j <= n ->
  (forall k, k < i -> g k = false) -> (j < n -> g j = true) ->
  (forall a b, a <= b -> b < n -> g a = true -> g b = true) ->
  exists m, bsearch fuel f i j = Ok m /\ i <= m /\ m <= j /\ (forall k, k < m -> g k = false) /\ (m < n -> g m = true).
Proof.
  intros Hf. induction fuel as [|fuel IH]; intros i j Hfuel Hij Hjn Hlow Hhigh Hmono; [lia|].
  cbn [bsearch]. destruct (i <? j) eqn:Elt.
  - apply N.ltb_lt in Elt. set (h := (i + j) / 2).
    assert (Hh : i <= h /\ h < j) by (unfold h; lia).
    rewrite (Hf h ltac:(lia)). destruct (g h) eqn:Egh.
    + destruct (IH i h) as [m [Hm Hr]]; [lia | lia | lia | exact Hlow | intros _; exact Egh | exact Hmono |].
      exists m. split; [exact Hm|]. destruct Hr as [? [? [? ?]]]. repeat split; try assumption; lia.
    + destruct (IH (h + 1) j) as [m [Hm Hr]]; [lia | lia | lia | | exact Hhigh | exact Hmono |].
      * intros k Hk. destruct (g k) eqn:Egk; [|reflexivity].
        rewrite (Hmono k h ltac:(lia) ltac:(lia) Egk) in Egh. discriminate.
      * exists m. split; [exact Hm|]. destruct Hr as [? [? [? ?]]]. repeat split; try assumption; lia.
  - apply N.ltb_ge in Elt. assert (i = j) by lia. subst j.
    exists i. repeat split; try lia; assumption.
Qed.

(* the sequence argument: q is the quality recorded at the store point of the i-th epoch counted from finalized's *)
Theorem search_total_lemma (q : N -> N) (n : N) (Q : N) :
  2 <= n ->                                               (* the guard: the committed epoch is after finalized's *)
  (forall i, i + 1 < n -> q i <= q (i + 1) <= q i + 1) -> (* quality_step, per epoch *)
  q (n - 1) = Q -> q (n - 1) = q (n - 2) + 1 ->           (* the committed epoch is justified *)
  1 < Q ->
  forall f, (forall i, i < n -> f i = Ok (Q - 1 <=? q i)) ->
  exists m, bsearch (S (N.to_nat n)) f 0 n = Ok m /\ m < n /\ q m = Q - 1.
Proof.
  intros Hn Hstep HQ Hjust HQ1 f Hf.
  assert (Hmono : forall a b, a <= b -> b < n -> q a <= q b).
  { intros a b Hab Hb. remember (N.to_nat (b - a)) as d eqn:Ed. revert a b Hab Hb Ed.
    induction d as [|d IHd]; intros a b Hab Hb Ed.
    - assert (a = b) by lia. subst. lia.
    - specialize (IHd a (b - 1) ltac:(lia) ltac:(lia) ltac:(lia)).
      pose proof (Hstep (b - 1) ltac:(lia)) as Hs. replace (b - 1 + 1) with b in Hs by lia. lia. }
  destruct (bsearch_spec (fun i => Q - 1 <=? q i) f n Hf (S (N.to_nat n)) 0 n) as [m [Hm [_ [Hmn [Hlow Hhigh]]]]];
    try lia.
  - intros a b Hab Hb Ha. apply N.leb_le in Ha. apply N.leb_le. specialize (Hmono a b Hab Hb). lia.
  - exists m. split; [exact Hm|].
    assert (Hlt : m <= n - 2).
    { destruct (N.le_gt_cases m (n - 2)) as [H|H]; [exact H|].
      assert (Hf2 := Hlow (n - 2) ltac:(lia)). cbn beta in Hf2. apply N.leb_gt in Hf2. lia. }
    split; [lia|].
    assert (Hge := Hhigh ltac:(lia)). cbn beta in Hge. apply N.leb_le in Hge.
    specialize (Hmono m (n - 2) Hlt ltac:(lia)). lia.
Qed.

(* without the guard the same search fails exactly in the F1 situation: one epoch (n = 1) whose own quality is Q *)
Lemma search_fails_in_own_epoch (q : N -> N) (Q : N) f :
  q 0 = Q -> 1 < Q -> (forall i, i < 1 -> f i = Ok (Q - 1 <=? q i)) ->
  bsearch (S (N.to_nat 1)) f 0 1 = Ok 0 /\ q 0 <> Q - 1.
Proof.
  intros H0 HQ Hf. split; [|lia]. cbn. rewrite (Hf 0 ltac:(lia)).
  assert (E : (Q - 1 <=? q 0) = true) by (apply N.leb_le; lia). rewrite E. reflexivity.
Qed.

(* general form: any target between the first and the last record is found, at the first index carrying it *)
Theorem search_first (q : N -> N) (n T : N) :
  1 <= n -> (forall i, i + 1 < n -> q i <= q (i + 1) <= q i + 1) -> q 0 <= T -> T <= q (n - 1) ->
  forall f, (forall i, i < n -> f i = Ok (T <=? q i)) ->
  exists m, bsearch (S (N.to_nat n)) f 0 n = Ok m /\ m < n /\ q m = T /\ forall k, k < m -> q k < T.
Proof.
  intros Hn Hstep H0 Hlast f Hf.
  assert (Hmono : forall a b, a <= b -> b < n -> q a <= q b).
  { intros a b Hab Hb. remember (N.to_nat (b - a)) as d eqn:Ed. revert a b Hab Hb Ed.
    induction d as [|d IHd]; intros a b Hab Hb Ed.
    - assert (a = b) by lia. subst. lia.
    - specialize (IHd a (b - 1) ltac:(lia) ltac:(lia) ltac:(lia)).
      pose proof (Hstep (b - 1) ltac:(lia)) as Hs. replace (b - 1 + 1) with b in Hs by lia. lia. }
  destruct (bsearch_spec (fun i => T <=? q i) f n Hf (S (N.to_nat n)) 0 n) as [m [Hm [_ [Hmn [Hlow Hhigh]]]]];
    try lia.
  - intros a b Hab Hb Ha. apply N.leb_le in Ha. apply N.leb_le. specialize (Hmono a b Hab Hb). lia.
  - exists m. split; [exact Hm|].
    assert (Hlt : m < n).
    { destruct (N.lt_ge_cases m n) as [H|H]; [exact H|]. assert (m = n) by lia. subst m.
      assert (Hf2 := Hlow (n - 1) ltac:(lia)). cbn beta in Hf2. apply N.leb_gt in Hf2. lia. }
    split; [exact Hlt|].
    assert (Hge := Hhigh Hlt). cbn beta in Hge. apply N.leb_le in Hge.
    assert (Hbelow : forall k, k < m -> q k < T).
    { intros k Hk. assert (Hf2 := Hlow k Hk). cbn beta in Hf2. apply N.leb_gt in Hf2. exact Hf2. }
    split; [|exact Hbelow].
    destruct (N.eq_dec m 0) as [->|Hm0]; [lia|].
    pose proof (Hbelow (m - 1) ltac:(lia)) as Hb1. pose proof (Hstep (m - 1) ltac:(lia)) as Hs.
    replace (m - 1 + 1) with m in Hs by lia. lia.
Qed.
