(* Bft/ProofsLink.v — the run-level link behind Lemma B: when an honest validator proposes a COM block, every earlier own
   block that is at or above its finalized number and whose quality is inside the `headQuality-1` window has its
   checkpoint on one chain with the head's most recent justified checkpoint — across Mark overwrites, restarts (votes
   record rebuilt by newCasts) and moves of finalized.  First for one node, then inside any valid multi-node run. *)
From Coq Require Import List NArith ZArith Bool Lia.
From Coq Require Import ZifyN ZifyNat ZifyBool.
From Verif Require Import Common.Util Bft.Tree Bft.Model Bft.Quorum Bft.ProofsTally Bft.ProofsChain Bft.ProofsSuffix
  Bft.ProofsNode Bft.ProofsFinal Bft.ProofsMonotone Bft.ProofsCommit Bft.ProofsOrder Bft.ProofsOrder2 Bft.ProofsVote
  Bft.Safety Bft.ProofsSafety Bft.ProofsTree2 Bft.ProofsCasts Bft.ProofsRun.
Import ListNotations.
Open Scope N_scope.

Lemma find_cp_ok2 c r qs target fin head id : find_cp c r qs target fin head = Ok id ->
  exists m x sp, block_at r head (idnum fin + m * c_L c) = Some x /\ id = b_id x /\
                 block_at r head (storepoint (c_L c) (idnum fin + m * c_L c)) = Some sp /\ get_q qs (b_id sp) = target.
Proof.
  unfold find_cp. destruct (idnum head <? idnum fin); [discriminate|].
  destruct (bsearch _ _ _ _) as [num|e]; [|discriminate].
  destruct (num =? _); [discriminate|].
  unfold quality_at. destruct (block_at r head (storepoint (c_L c) (idnum fin + num * c_L c))) as [sp|] eqn:Es; [|discriminate].
  destruct (negb (get_q qs (b_id sp) =? target)) eqn:Eq; [discriminate|]. apply negb_false_iff, N.eqb_eq in Eq.
  destruct (block_at r head (idnum fin + num * c_L c)) as [x|] eqn:E; [|discriminate].
  intros H. inversion H. exists num, x, sp. tauto.
Qed.

Section Link.
Variable c : cfg.
Hypothesis HL : 0 < c_L c.
Notation L := (c_L c).

(* what the most recent justified checkpoint of a head p is, as far as the safety arguments need it: a block of p's
   chain, at the checkpoint number of some block z of p's chain whose quality is the head's *)
Definition recent_spec (t : repo) (p rb : blk) : Prop :=
  In rb (chain_of t (b_id p)) /\
  exists z, In z (chain_of t (b_id p)) /\ checkpoint L (b_num z) = b_num rb /\ qual c t z = qual c t p.

Lemma should_vote_com_inv2 r e parent e' : should_vote c r e parent = (e', Ok true) ->
  exists p recent ca,
    find_blk r parent = Some p /\ e_casts e' = Some ca /\ 0 < s_q (compute_state c r (e_qs e) p) /\
    (if s_just (compute_state c r (e_qs e) p)
     then match block_at r parent (checkpoint L (b_num p)) with Some x => Ok (b_id x) | None => Err 4 end
     else match block_at r parent (storepoint L (b_num p - L)) with
          | None => Err 4
          | Some prev => find_cp c r (e_qs e) (s_q (compute_state c r (e_qs e) p)) (e_fin e) (b_id prev)
          end) = Ok recent /\
    (forall cp q, In (cp, q) ca -> idnum (e_fin e) <= idnum cp -> s_q (compute_state c r (e_qs e) p) - 1 <= q ->
       has_block r cp recent = true \/ has_block r recent cp = true).
Proof.
  unfold should_vote.
  destruct ((idnum parent + 1) / c_L c =? 0) eqn:E1; [intros H; inversion H|].
  destruct (find_blk r parent) as [p|]; [|intros H; inversion H].
  destruct (s_q (compute_state c r (e_qs e) p) =? 0) eqn:E2; [intros H; inversion H|]. apply N.eqb_neq in E2.
  destruct (if s_just _ then _ else _) as [recent|code] eqn:Er; [|intros H; inversion H].
  intros H. injection H as He Hv. subst e'.
  exists p, recent, (match e_casts e with Some ca => ca | None => new_casts c r e end).
  split; [reflexivity|]. split; [reflexivity|]. split; [lia|]. split; [exact Er|].
  intros cp q Hin Hfin Hq. rewrite forallb_forall in Hv. specialize (Hv (cp, q) Hin). cbn [fst snd] in Hv.
  assert (A1 : (idnum (e_fin e) <=? idnum cp) = true) by (apply N.leb_le; exact Hfin).
  assert (A2 : (s_q (compute_state c r (e_qs e) p) - 1 <=? q) = true) by (apply N.leb_le; exact Hq).
  rewrite A1, A2 in Hv. cbn [andb] in Hv. destruct (idnum recent <? idnum cp); [left | right]; exact Hv.
Qed.

Lemma chain_in_trans r a b1 b2 : wf_repo r -> In a (chain_of r (b_id b1)) -> In b2 (chain_of r (b_id a)) -> In b2 (chain_of r (b_id b1)).
Proof.
  intros Hwf H1 H2. destruct (in_split _ _ H1) as [l1 [l2 E]]. rewrite (chain_suffix r Hwf _ l1 a l2 E) in H2.
  rewrite E, in_app_iff. right. exact H2.
Qed.

Theorem com_vote_link_node nd b : node_good c nd -> honest_ok c nd b = true -> b_com b = true ->
  let r := n_repo nd in let p := best_blk nd in
  exists rb, recent_spec r p rb /\
    forall x, In x r -> b_signer x = e_master (n_eng nd) -> idnum (e_fin (n_eng nd)) <= b_num x ->
      qual c r p - 1 <= qual c r x ->
      exists cpx, cp_of c r x = Some cpx /\
        (has_block r (b_id cpx) (b_id rb) = true \/ has_block r (b_id rb) (b_id cpx) = true).
Proof.
  intros Hgood Hok Hcom. cbv zeta.
  destruct (honest_ok_facts c nd b Hok) as [Hs [Hpar [Hnum [v [Hv Hvc]]]]]. rewrite Hcom in Hvc. subst v.
  pose proof Hgood as [Hi Hfc Hfs Hrt Hca]. pose proof (inv_wf c _ Hi) as Hwf. pose proof (inv_qs c _ Hi) as Hqs.
  destruct (best_in c nd Hi) as [Hbin Hbid].
  set (r := n_repo nd) in *. set (e := n_eng nd) in *. set (p := best_blk nd) in *.
  pose proof (should_vote_casts_ok c HL nd (b_parent b) Hi Hrt Hca) as [Hc1 _]. cbv zeta in Hc1. fold r e in Hc1.
  destruct (should_vote c r e (b_parent b)) as [e' v] eqn:Esv. cbn [fst snd] in *. subst v.
  destruct (should_vote_com_inv2 r e (b_parent b) e' Esv) as [p0 [recent [ca [Hp0 [Hcasts [Hq0 [Hrec Hwin]]]]]]].
  assert (p0 = p). { rewrite Hpar, <- Hbid in Hp0. rewrite (find_blk_in r p Hwf Hbin) in Hp0. inversion Hp0. reflexivity. } subst p0.
  pose proof (should_vote_keeps c r e (b_parent b)) as Hk. cbv zeta in Hk. rewrite Esv in Hk. cbn [fst] in Hk. destruct Hk as [_ [Hf' Hm']].
  unfold casts_ok in Hc1. cbn [n_eng n_repo] in Hc1. rewrite Hcasts, Hf', Hm' in Hc1.
  change (best_blk (mkN r (n_best nd) e')) with p in Hc1.
  rewrite (compute_state_stored_full c HL r (e_qs e) p Hwf Hqs Hbin) in *.
  change (s_q (state_pure c (chain_of r (b_id p)))) with (qual c r p) in *.
  rewrite Hpar, <- Hbid in Hrec.
  (* finalized sits at a checkpoint number *)
  pose proof (is_checkpoint_mul L HL _ Hfc) as Hfa. fold e in Hfa. set (a := idnum (e_fin e) / L) in *.
  (* the recent justified checkpoint as a block *)
  assert (Hrb : exists rb, recent = b_id rb /\ recent_spec r p rb).
  { destruct (s_just (state_pure c (chain_of r (b_id p)))).
    - destruct (block_at r (b_id p) (checkpoint L (b_num p))) as [x|] eqn:Ex; [|discriminate]. inversion Hrec; subst recent.
      destruct (block_at_num _ _ _ _ Ex) as [Hxn Hxin]. exists x. split; [reflexivity|]. split; [exact Hxin|].
      exists p. split; [|split; [symmetry; exact Hxn | reflexivity]].
      destruct (chain_of_known r Hwf _ _ (find_blk_in r p Hwf Hbin)) as [t [Ht _]]. rewrite Ht. left. reflexivity.
    - destruct (block_at r (b_id p) (storepoint L (b_num p - L))) as [prev|] eqn:Eprev; [|discriminate].
      destruct (block_at_num _ _ _ _ Eprev) as [_ Hprev].
      destruct (find_cp_ok2 _ _ _ _ _ _ _ Hrec) as [m [x [sp [Hx [Hid [Hsp Hq]]]]]]. subst recent.
      destruct (block_at_num _ _ _ _ Hx) as [Hxn Hxin]. destruct (block_at_num _ _ _ _ Hsp) as [Hspn Hspin].
      exists x. split; [reflexivity|]. split; [exact (chain_in_trans r prev p x Hwf Hprev Hxin)|].
      exists sp. split; [exact (chain_in_trans r prev p sp Hwf Hprev Hspin)|].
      assert (Enum : idnum (e_fin e) + m * L = (a + m) * L) by lia.
      rewrite Enum in *. rewrite (storepoint_mul L HL) in Hspn. split.
      + rewrite Hspn, Hxn. apply checkpoint_store. exact HL.
      + rewrite <- Hq. symmetry. apply Hqs; [exact (chain_incl _ _ _ Hspin)|]. rewrite Hspn. apply storepoint_store. exact HL. }
  destruct Hrb as [rb [-> Hspec]]. exists rb. split; [exact Hspec|].
  assert (Hrbin : In rb r) by exact (chain_incl _ _ _ (proj1 Hspec)).
  intros x Hx Hsx Hfx Hqx.
  destruct (ci_cover c _ _ _ _ _ Hc1 x Hx Hsx Hfx) as [y [q [cpx [Hin [Hy [Hq [Hcp Hyc]]]]]]].
  exists cpx. split; [exact Hcp|].
  unfold cp_of in Hcp. destruct (block_at_num _ _ _ _ Hcp) as [Hcn Hcin]. pose proof (chain_incl _ _ _ Hcin) as Hcr.
  assert (Hny : idnum (e_fin e) <= idnum (b_id y)).
  { change (idnum (b_id y)) with (b_num y). pose proof (has_block_num r y cpx Hwf Hy Hcr Hyc) as Hle.
    pose proof (checkpoint_mono c HL _ _ Hfx) as Hm. rewrite Hfa in Hm at 1. rewrite (checkpoint_mul L HL) in Hm. lia. }
  destruct (Hwin (b_id y) q Hin Hny ltac:(lia)) as [H|H].
  - destruct (on_one_chain r y cpx rb Hwf Hy Hcr Hrbin Hyc H) as [H1|H1]; [left | right]; exact H1.
  - right. exact (has_block_trans r rb y cpx Hwf Hrbin Hy Hcr H Hyc).
Qed.

Definition comparable (t : repo) (a b : blk) : Prop :=
  has_block t (b_id a) (b_id b) = true \/ has_block t (b_id b) (b_id a) = true.

(* transport from a node's repository to any well-formed super-tree *)
Lemma sub_qual r s x : wf_repo r -> wf_repo s -> incl r s -> In x r -> qual c r x = qual c s x.
Proof. intros Wr Ws Hs Hx. unfold qual. rewrite (sub_chain r s x Wr Ws Hs Hx). reflexivity. Qed.

Lemma sub_recent_spec r s p rb : wf_repo r -> wf_repo s -> incl r s -> In p r -> recent_spec r p rb -> recent_spec s p rb.
Proof.
  intros Wr Ws Hs Hp [H1 [z [Hz [Hn Hq]]]]. unfold recent_spec. rewrite <- (sub_chain r s p Wr Ws Hs Hp).
  split; [exact H1|]. exists z. split; [exact Hz|]. split; [exact Hn|].
  rewrite <- (sub_qual r s z Wr Ws Hs (chain_incl _ _ _ Hz)), <- (sub_qual r s p Wr Ws Hs Hp). exact Hq.
Qed.

(* the finalized filter hides nothing that the quality window would show: at an honest proposal, every own block whose
   quality is inside the `headQuality-1` window is at or above the proposer's finalized number *)
Definition votes_visible_at (nd : node) : bool :=
  let r := n_repo nd in let e := n_eng nd in
  forallb (fun x => negb (b_signer x =? e_master e) || negb (qual c r (best_blk nd) - 1 <=? qual c r x) ||
                    (idnum (e_fin e) <=? b_num x)) r.

Fixpoint votes_visible_b (w : list node) (evs : list event) : bool :=
  match evs with
  | [] => true
  | ev :: t =>
      match ev with
      | EPropose i b => match nth_error w i with Some nd => votes_visible_at nd | None => true end
      | _ => true
      end && votes_visible_b (step_plain true c w ev) t
  end.

Lemma votes_visible_app pre : forall w ev post, votes_visible_b w (pre ++ ev :: post) = true ->
  match ev with
  | EPropose i b => match nth_error (world_after c w pre) i with Some nd => votes_visible_at nd = true | None => True end
  | _ => True
  end.
Proof.
  induction pre as [|e0 t IH]; intros w ev post H.
  - cbn [app votes_visible_b world_after fold_left] in *. apply andb_prop in H. destruct H as [H _].
    destruct ev as [i b|i b|i]; try exact I. destruct (nth_error w i); [exact H | exact I].
  - cbn [app votes_visible_b] in H. apply andb_prop in H. destruct H as [_ H]. cbn [world_after fold_left]. exact (IH _ ev post H).
Qed.

Section LinkRun.
Variable g : blk.
Hypothesis Hg : b_num g = 0.
Variables byz masters : list N.
Hypothesis Hdisj : forall m, In m masters -> ~ In m byz.
Hypothesis Hnd : NoDup masters.
Notation W0 := (map (init_node g) masters).

Theorem com_vote_link_run pre i b post nd :
  let evs := pre ++ EPropose i b :: post in
  let tree := seen_after [g] evs in
  valid_run_b true c byz W0 [g] evs = true -> known tree (b_parent g) = false ->
  b_com b = true -> nth_error (world_after c W0 pre) i = Some nd ->
  wf_repo tree /\ b_signer b = e_master (n_eng nd) /\
  exists p rb, In p tree /\ b_id p = b_parent b /\ In b tree /\ recent_spec tree p rb /\
    forall x, In x (seen_after [g] pre) -> b_signer x = b_signer b -> idnum (e_fin (n_eng nd)) <= b_num x ->
      qual c tree p - 1 <= qual c tree x ->
      exists cpx, cp_of c tree x = Some cpx /\ comparable tree cpx rb.
Proof.
  cbv zeta. intros Hv Hroot Hcom Hn.
  destruct (world_prefix c HL g Hg byz masters Hdisj Hnd pre (EPropose i b :: post) Hv Hroot) as [Hw [Hv2 Hincl]].
  destruct (world_prefix c HL g Hg byz masters Hdisj Hnd (pre ++ EPropose i b :: post) [] ltac:(rewrite app_nil_r; exact Hv)
              ltac:(rewrite app_nil_r; exact Hroot)) as [Hwall _].
  pose proof (wg_wf c g byz masters _ _ Hwall) as Hwft.
  set (tree := seen_after [g] (pre ++ EPropose i b :: post)) in *.
  rewrite valid_run_cons in Hv2. apply andb_prop in Hv2. destruct Hv2 as [Hok _]. cbn [ev_check fst] in Hok. rewrite Hn in Hok.
  apply andb_prop in Hok. destruct Hok as [_ Hhon].
  destruct (wg_nodes c g byz masters _ _ Hw i nd Hn) as [Hgood [Hsub [_ Hown]]].
  pose proof (ng_inv c nd Hgood) as Hi. pose proof (inv_wf c _ Hi) as Hwfr.
  assert (Hsubt : incl (n_repo nd) tree) by (intros x Hx; apply Hincl; exact (Hsub x Hx)).
  destruct (honest_ok_facts c nd b Hhon) as [Hs [Hpar _]]. destruct (best_in c nd Hi) as [Hbin Hbid].
  destruct (com_vote_link_node nd b Hgood Hhon Hcom) as [rb [Hspec Hall]].
  split; [exact Hwft|]. split; [exact Hs|].
  exists (best_blk nd), rb. split; [exact (Hsubt _ Hbin)|]. split; [rewrite Hbid; symmetry; exact Hpar|]. split.
  { unfold tree. assert (E : forall p s, seen_after s (p ++ EPropose i b :: post) = seen_after (b :: seen_after s p) post).
    { induction p as [|ev t IH]; intros s; [reflexivity|]. destruct ev; cbn [app seen_after]; apply IH. }
    rewrite E. apply seen_after_incl. left. reflexivity. }
  split; [exact (sub_recent_spec _ tree _ _ Hwfr Hwft Hsubt Hbin Hspec)|].
  intros x Hx Hsx Hfx Hqx.
  assert (Hxr : In x (n_repo nd)) by (apply Hown; [exact Hx | rewrite Hsx; exact Hs]).
  destruct (Hall x Hxr ltac:(rewrite Hsx; exact Hs) Hfx) as [cpx [Hcp Hcmp]].
  { rewrite (sub_qual _ tree _ Hwfr Hwft Hsubt Hbin), (sub_qual _ tree _ Hwfr Hwft Hsubt Hxr). exact Hqx. }
  exists cpx. unfold cp_of in *. rewrite <- (sub_block_at _ tree x _ Hwfr Hwft Hsubt Hxr). split; [exact Hcp|].
  destruct (block_at_num _ _ _ _ Hcp) as [_ Hcin]. pose proof (chain_incl _ _ _ Hcin) as Hcr.
  pose proof (chain_incl _ _ _ (proj1 Hspec)) as Hrbr.
  unfold comparable. rewrite <- (sub_has_block _ tree cpx _ Hwfr Hwft Hsubt Hcr), <- (sub_has_block _ tree rb _ Hwfr Hwft Hsubt Hrbr).
  exact Hcmp.
Qed.
(* the same with the finalized filter discharged by the visibility premise *)
Theorem com_vote_link_run_visible pre i b post nd :
  let evs := pre ++ EPropose i b :: post in
  let tree := seen_after [g] evs in
  valid_run_b true c byz W0 [g] evs = true -> known tree (b_parent g) = false ->
  b_com b = true -> nth_error (world_after c W0 pre) i = Some nd -> votes_visible_at nd = true ->
  wf_repo tree /\
  exists p rb, In p tree /\ b_id p = b_parent b /\ In b tree /\ recent_spec tree p rb /\
    forall x, In x (seen_after [g] pre) -> b_signer x = b_signer b -> qual c tree p - 1 <= qual c tree x ->
      exists cpx, cp_of c tree x = Some cpx /\ comparable tree cpx rb.
Proof.
  cbv zeta. intros Hv Hroot Hcom Hn Hvis.
  destruct (com_vote_link_run pre i b post nd Hv Hroot Hcom Hn) as [Hwft [Hs [p [rb [Hp [Hpid [Hb [Hspec Hall]]]]]]]].
  split; [exact Hwft|]. exists p, rb. repeat (split; [assumption|]).
  intros x Hx Hsx Hqx. apply (Hall x Hx Hsx); [|exact Hqx].
  (* x is stored at the proposer's node and the premise applies there *)
  destruct (world_prefix c HL g Hg byz masters Hdisj Hnd pre (EPropose i b :: post) Hv Hroot) as [Hw [Hv2 Hincl]].
  destruct (wg_nodes c g byz masters _ _ Hw i nd Hn) as [Hgood [Hsub [_ Hown]]].
  pose proof (ng_inv c nd Hgood) as Hi. pose proof (inv_wf c _ Hi) as Hwfr.
  assert (Hsubt : incl (n_repo nd) (seen_after [g] (pre ++ EPropose i b :: post))) by (intros y Hy; apply Hincl; exact (Hsub y Hy)).
  destruct (best_in c nd Hi) as [Hbin Hbid].
  assert (Hxr : In x (n_repo nd)) by (apply Hown; [exact Hx | rewrite Hsx; exact Hs]).
  unfold votes_visible_at in Hvis. cbv zeta in Hvis. rewrite forallb_forall in Hvis. specialize (Hvis x Hxr).
  assert (p = best_blk nd).
  { apply (stored_unique _ p (best_blk nd) Hwft Hp (Hsubt _ Hbin)). rewrite Hpid, Hbid.
    rewrite valid_run_cons in Hv2. apply andb_prop in Hv2. destruct Hv2 as [Hok _]. cbn [ev_check fst] in Hok. rewrite Hn in Hok.
    apply andb_prop in Hok. destruct Hok as [_ Hhon]. destruct (honest_ok_facts c nd b Hhon) as [_ [Hpar _]]. exact Hpar. }
  subst p.
  rewrite <- (sub_qual _ _ _ Hwfr Hwft Hsubt Hbin), <- (sub_qual _ _ _ Hwfr Hwft Hsubt Hxr) in Hqx.
  assert (A : (b_signer x =? e_master (n_eng nd)) = true) by (apply N.eqb_eq; rewrite Hsx; exact Hs).
  assert (B : (qual c (n_repo nd) (best_blk nd) - 1 <=? qual c (n_repo nd) x) = true) by (apply N.leb_le; exact Hqx).
  rewrite A, B in Hvis. cbn in Hvis. apply N.leb_le. exact Hvis.
Qed.
End LinkRun.
End Link.
