(* Trie/Model.v — executable model of /repo/trie (trie.go: tryGet / insert / delete; node.go: node kinds;
   iterator.go: pre-order walk).  Definitions only.

   node kinds mirror node.go: nil, valueNode, shortNode{key,child}, fullNode{children[17]}.  refNode is the
   on-disk indirection; it is resolved by the store (Store/Model.v) and does not occur in the logical shape.
   Hex keys are lists of nibbles (nat, 0..15) closed by the terminator 16 (keybytesToHex).  The value type
   V is a parameter ((val, meta) pairs for the real tries); veqb is the bytes.Equal test of `insert`.
   Recursion is by fuel; fuel = S (length key) always suffices on well-formed tries (each step consumes
   at least one nibble).  Where Go would panic (index out of range on an exhausted key, a value node met
   with a non-empty key) the model returns its input unchanged; these branches are unreachable for
   terminated keys on well-formed tries (Trie/ProofsWf.v). *)
From Coq Require Import List Arith Bool Lia.
Import ListNotations.

Section Trie.
  Variable V : Type.
  Variable veqb : V -> V -> bool.

  Inductive node : Type :=
  | Nil
  | Value (v : V)
  | Short (k : list nat) (c : node)
  | Full (cs : list node).

  Definition is_nil (n : node) : bool := match n with Nil => true | _ => false end.

  Definition child (cs : list node) (i : nat) : node := nth i cs Nil.

  Fixpoint upd (cs : list node) (i : nat) (x : node) : list node :=
    match cs, i with
    | [], _ => []
    | _ :: t, O => x :: t
    | c :: t, S j => c :: upd t j x
    end.

  Definition empty_children : list node := repeat Nil 17.

  (* encoding.go prefixLen *)
  Fixpoint prefix_len (a b : list nat) : nat :=
    match a, b with
    | x :: a', y :: b' => if x =? y then S (prefix_len a' b') else 0
    | _, _ => 0
    end.

  (* trie.go tryGet *)
  Fixpoint get (fuel : nat) (n : node) (key : list nat) : option V :=
    match fuel with
    | O => None
    | S f =>
      match n with
      | Nil => None
      | Value v => Some v
      | Short k c =>
        if prefix_len k key =? length k then get f c (skipn (length k) key) else None
      | Full cs =>
        match key with
        | [] => None                                  (* Go: index out of range *)
        | i :: r => get f (child cs i) r
        end
      end
    end.

  (* trie.go insert; x is the node being inserted (a value node, or the displaced child of a split short node) *)
  Fixpoint insert (fuel : nat) (n : node) (key : list nat) (x : node) : bool * node :=
    match fuel with
    | O => (false, n)
    | S f =>
      match key with
      | [] =>
        match n, x with
        | Value a, Value b => (negb (veqb a b), x)
        | _, _ => (true, x)
        end
      | i :: r =>
        match n with
        | Short k c =>
          let m := prefix_len key k in
          if m =? length k then
            let '(d, nn) := insert f c (skipn m key) x in
            if d then (true, Short k nn) else (false, n)
          else
            let b1 := snd (insert f Nil (skipn (S m) k) c) in
            let b2 := snd (insert f Nil (skipn (S m) key) x) in
            let branch := Full (upd (upd empty_children (nth m k 0) b1) (nth m key 0) b2) in
            if m =? 0 then (true, branch) else (true, Short (firstn m key) branch)
        | Full cs =>
          let '(d, nn) := insert f (child cs i) r x in
          if d then (true, Full (upd cs i nn)) else (false, n)
        | Nil => (true, Short key x)
        | Value _ => (false, n)                       (* Go: panic "invalid node" *)
        end
      end
    end.

  (* position of the only non-nil child, if there is exactly one (the pos loop of delete) *)
  Fixpoint single_pos_from (cs : list node) (i : nat) : option nat :=
    match cs with
    | [] => None
    | c :: t =>
      if is_nil c then single_pos_from t (S i)
      else if forallb is_nil t then Some i else None
    end.
  Definition single_pos (cs : list node) : option nat := single_pos_from cs 0.

  (* trie.go delete *)
  Fixpoint delete (fuel : nat) (n : node) (key : list nat) : bool * node :=
    match fuel with
    | O => (false, n)
    | S f =>
      match n with
      | Short k c =>
        let m := prefix_len key k in
        if m <? length k then (false, n)
        else if m =? length key then (true, Nil)
        else
          let '(d, ch) := delete f c (skipn (length k) key) in
          if d then
            match ch with
            | Short k2 c2 => (true, Short (k ++ k2) c2)
            | _ => (true, Short k ch)
            end
          else (false, n)
      | Full cs =>
        match key with
        | [] => (false, n)                            (* Go: index out of range *)
        | i :: r =>
          let '(d, nn) := delete f (child cs i) r in
          if d then
            let cs' := upd cs i nn in
            match single_pos cs' with
            | Some pos =>
              if negb (pos =? 16) then
                match child cs' pos with
                | Short k2 c2 => (true, Short (pos :: k2) c2)
                | ch => (true, Short [pos] ch)
                end
              else (true, Short [pos] (child cs' pos))
            | None => (true, Full cs')
            end
          else (false, n)
        end
      | Value _ => (true, Nil)
      | Nil => (false, Nil)
      end
    end.

  (* Trie.Get / Trie.Update on hex keys (the caller has applied keybytesToHex) *)
  Definition trie_get (t : node) (key : list nat) : option V := get (S (length key)) t key.
  Definition trie_insert (t : node) (key : list nat) (v : V) : node :=
    snd (insert (S (length key)) t key (Value v)).
  Definition trie_delete (t : node) (key : list nat) : node := snd (delete (S (length key)) t key).
  (* Update with an empty value deletes; emptiness is decided by the caller (len(value) == 0) *)
  Definition trie_update (t : node) (key : list nat) (v : option V) : node :=
    match v with Some x => trie_insert t key x | None => trie_delete t key end.

  (* iterator.go: pre-order walk; (path, leaf) for every node, children of a full node in index order *)
  Fixpoint walk (n : node) (p : list nat) : list (list nat * option V) :=
    match n with
    | Nil => []
    | Value v => [(p, Some v)]
    | Short k c => (p, None) :: walk c (p ++ k)
    | Full cs =>
      (p, None) ::
      (fix go (l : list node) (i : nat) : list (list nat * option V) :=
         match l with
         | [] => []
         | c :: t => walk c (p ++ [i]) ++ go t (S i)
         end) cs 0
    end.

  (* the logical content: all (key, value) pairs, in key order *)
  Definition leaves (t : node) : list (list nat * V) :=
    flat_map (fun pv => match snd pv with Some v => [(fst pv, v)] | None => [] end) (walk t []).

  Fixpoint build (kvs : list (list nat * V)) (t : node) : node :=
    match kvs with
    | [] => t
    | (k, v) :: r => build r (trie_insert t k v)
    end.
End Trie.

Arguments Nil {V}.
Arguments Value {V}.
Arguments Short {V}.
Arguments Full {V}.

(* keybytesToHex on a list of nibbles *)
Definition terminate (nibbles : list nat) : list nat := nibbles ++ [16].

(* change of value type (used to forget metadata: the consensus encoding of a value node contains val only) *)
Fixpoint map_node {A B : Type} (f : A -> B) (n : node A) : node B :=
  match n with
  | Nil => Nil
  | Value v => Value (f v)
  | Short k c => Short k (map_node f c)
  | Full cs => Full (map (map_node f) cs)
  end.
