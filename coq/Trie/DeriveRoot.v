(* Trie/DeriveRoot.v — trie.DeriveRoot commits to the ordered list (used by C11: txs root / receipts root).
   DeriveRoot inserts item i under key(i) = rlp(i) into an empty trie.  If the key function is injective and its
   images are terminated hex keys (any byte string is, see key_of_bytes), the resulting tree determines the list:
   equal trees (equal roots, for a collision-free hash of the tree) come from equal lists.
   Items are the non-empty encodings EncodeIndex(i) (Update with an empty value would delete). *)
From Coq Require Import List Arith NArith Bool Lia.
From Verif Require Import Trie.Model Trie.Keys Trie.ProofsWf Trie.ProofsMap Trie.ProofsCanon Trie.Theorems.
Import ListNotations.

Section Derive.
  Variable V : Type.
  Variable veqb : V -> V -> bool.
  Hypothesis veqb_sound : forall a b, veqb a b = true -> a = b.
  Variable keyf : nat -> list nat.                      (* index -> hex key of rlp(index), terminated *)
  Hypothesis keyf_valid : forall i, vkey (keyf i).
  Hypothesis keyf_inj : forall i j, keyf i = keyf j -> i = j.

  Fixpoint derive_from (i : nat) (items : list V) (t : node V) : node V :=
    match items with
    | [] => t
    | x :: r => derive_from (S i) r (trie_insert V veqb t (keyf i) x)
    end.
  Definition derive_root (items : list V) : node V := derive_from 0 items Nil.

  Lemma derive_from_wf items : forall i t, wfc V t -> wfc V (derive_from i items t).
  Proof. induction items; cbn; intros; auto. apply IHitems. apply insert_wf_root; auto. Qed.

  Lemma derive_from_get items : forall i t j, wfc V t ->
    trie_get V (derive_from i items t) (keyf j) =
    if (i <=? j) && (j <? i + length items) then nth_error items (j - i) else trie_get V t (keyf j).
  Proof.
    induction items as [|x r IH]; cbn [derive_from length]; intros i t j Ht.
    - replace ((i <=? j) && (j <? i + 0)) with false; auto.
      symmetry. apply andb_false_iff. destruct (i <=? j) eqn:E; auto. right. apply Nat.ltb_ge. apply Nat.leb_le in E. lia.
    - rewrite IH by (apply insert_wf_root; auto).
      rewrite (get_insert V veqb veqb_sound) by auto.
      destruct (Nat.eq_dec i j) as [->|N].
      + destruct (vkey_eq_dec (keyf j) (keyf j)); try congruence.
        replace (S j <=? j) with false by (symmetry; apply Nat.leb_gt; lia). cbn [andb].
        rewrite Nat.leb_refl. replace (j <? j + S (length r)) with true by (symmetry; apply Nat.ltb_lt; lia).
        rewrite Nat.sub_diag. reflexivity.
      + destruct (vkey_eq_dec (keyf i) (keyf j)) as [E|_]; [apply keyf_inj in E; congruence|].
        destruct (S i <=? j) eqn:A.
        * apply Nat.leb_le in A. replace (i <=? j) with true by (symmetry; apply Nat.leb_le; lia).
          replace (j <? i + S (length r)) with (j <? S i + length r) by (f_equal; lia).
          cbn [andb]. destruct (j <? S i + length r); auto.
          replace (j - i) with (S (j - S i)) by lia. reflexivity.
        * apply Nat.leb_gt in A. replace (i <=? j) with false by (symmetry; apply Nat.leb_gt; lia). reflexivity.
  Qed.

  Lemma derive_root_get items j : trie_get V (derive_root items) (keyf j) = nth_error items j.
  Proof.
    unfold derive_root. rewrite derive_from_get by (left; reflexivity).
    cbn [Nat.leb andb Nat.add]. rewrite Nat.sub_0_r.
    destruct (j <? length items) eqn:E; auto.
    apply Nat.ltb_ge in E. symmetry. rewrite (proj2 (nth_error_None items j)); auto.
  Qed.

  Lemma nth_error_ext {A} (l1 l2 : list A) : (forall j, nth_error l1 j = nth_error l2 j) -> l1 = l2.
  Proof.
    revert l2; induction l1 as [|x l1 IH]; destruct l2 as [|y l2]; intros H; auto.
    - specialize (H 0); discriminate.
    - specialize (H 0); discriminate.
    - f_equal. { specialize (H 0); cbn in H; congruence. } apply IH. intros j. apply (H (S j)).
  Qed.

  (* the derived tree (hence its root) commits to the ordered list *)
  Theorem derive_root_injective items1 items2 : derive_root items1 = derive_root items2 -> items1 = items2.
  Proof.
    intros E. apply nth_error_ext. intros j. rewrite <- !derive_root_get. rewrite E. reflexivity.
  Qed.

  (* and it is well formed, so it is THE canonical trie of {key(i) -> item i} *)
  Theorem derive_root_wf items : wfc V (derive_root items).
  Proof. apply derive_from_wf. left; reflexivity. Qed.
End Derive.

(* ---- byte keys: keybytesToHex ---- *)
Definition nibbles_of_byte (b : N) : list nat := [N.to_nat (b / 16); N.to_nat (b mod 16)].
Definition key_of_bytes (bs : list N) : list nat := terminate (flat_map nibbles_of_byte bs).

Definition is_bytes (bs : list N) : Prop := Forall (fun b => (b < 256)%N) bs.

Lemma key_of_bytes_valid bs : is_bytes bs -> vkey (key_of_bytes bs).
Proof.
  intros H. apply vkey_terminate. induction H; cbn; [constructor|].
  constructor; [|constructor; auto].
  - assert ((x / 16 < 16)%N) by (apply N.div_lt_upper_bound; lia). lia.
  - assert ((x mod 16 < 16)%N) by (apply N.mod_lt; lia). lia.
Qed.

Lemma key_of_bytes_inj a : forall b, is_bytes a -> is_bytes b -> key_of_bytes a = key_of_bytes b -> a = b.
Proof.
  unfold key_of_bytes, terminate.
  induction a as [|x a IH]; intros b Ha Hb E.
  - destruct b as [|y b]; auto. cbn in E. inversion Hb; subst.
    assert ((y / 16 < 16)%N) by (apply N.div_lt_upper_bound; lia). injection E as E _. lia.
  - destruct b as [|y b]; cbn in E.
    + inversion Ha; subst. assert ((x / 16 < 16)%N) by (apply N.div_lt_upper_bound; lia). injection E as E _. lia.
    + inversion Ha; inversion Hb; subst. injection E as E1 E2 E3.
      f_equal; [|apply IH; auto].
      apply N2Nat.inj in E1. apply N2Nat.inj in E2.
      rewrite (N.div_mod x 16), (N.div_mod y 16) by lia. congruence.
Qed.

(* DeriveRoot with byte keys: any injective index encoding into byte strings (rlp(i) in particular) *)
Theorem derive_root_injective_bytes (V : Type) (veqb : V -> V -> bool)
  (veqb_sound : forall a b, veqb a b = true -> a = b)
  (keyb : nat -> list N)
  (keyb_bytes : forall i, is_bytes (keyb i))
  (keyb_inj : forall i j, keyb i = keyb j -> i = j)
  (items1 items2 : list V) :
  derive_root V veqb (fun i => key_of_bytes (keyb i)) items1 = derive_root V veqb (fun i => key_of_bytes (keyb i)) items2 ->
  items1 = items2.
Proof.
  apply (derive_root_injective V veqb veqb_sound (fun i => key_of_bytes (keyb i))).
  - intros i. apply key_of_bytes_valid; auto.
  - intros i j E. apply keyb_inj. apply key_of_bytes_inj in E; auto.
Qed.
