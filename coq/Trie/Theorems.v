(* Trie/Theorems.v — the trie results in terms of the API-level functions trie_get / trie_update. *)
From Coq Require Import List Arith Bool Lia.
From Verif Require Import Trie.Model Trie.Keys Trie.ProofsWf Trie.ProofsMap Trie.ProofsCanon.
Import ListNotations.

Section TOP.
  Variable V : Type.
  Variable veqb : V -> V -> bool.
  Hypothesis veqb_sound : forall a b, veqb a b = true -> a = b.

  Notation node := (node V).
  Notation wfc := (wfc V).
  Notation lookup := (lookup V).
  Notation trie_get := (trie_get V).
  Notation trie_insert := (trie_insert V veqb).
  Notation trie_delete := (trie_delete V).
  Notation trie_update := (trie_update V veqb).

  Lemma wfc_wfv t : wfc t -> wfv V t.
  Proof. intros [->|H]; [left|right; left]; auto. Qed.

  Lemma trie_get_lookup t k : wfc t -> trie_get t k = lookup t k.
  Proof. intros H. apply get_lookup; [apply wfc_wfv; auto|lia]. Qed.

  Theorem insert_wf_root t k v : wfc t -> vkey k -> wfc (trie_insert t k v).
  Proof.
    intros Ht Hk. unfold trie_insert, Model.trie_insert.
    destruct (insert V veqb _ t k (Value v)) as [d nn] eqn:E. cbn.
    eapply insert_wfc; eauto.
  Qed.

  Theorem delete_wf_root t k : wfc t -> vkey k -> wfc (trie_delete t k).
  Proof.
    intros Ht Hk. unfold trie_delete, Model.trie_delete.
    destruct (delete V _ t k) as [d nn] eqn:E. cbn.
    eapply delete_wfc; eauto.
  Qed.

  Theorem update_wf_root t k ov : wfc t -> vkey k -> wfc (trie_update t k ov).
  Proof. destruct ov; cbn; [apply insert_wf_root|apply delete_wf_root]. Qed.

  Theorem get_insert t k v k' : wfc t -> vkey k -> vkey k' ->
    trie_get (trie_insert t k v) k' = if vkey_eq_dec k k' then Some v else trie_get t k'.
  Proof.
    intros Ht Hk Hk'. rewrite !trie_get_lookup by (auto; apply insert_wf_root; auto).
    unfold trie_insert, Model.trie_insert.
    destruct (insert V veqb _ t k (Value v)) as [d nn] eqn:E. cbn.
    eapply lookup_insert; eauto.
  Qed.

  Theorem get_delete t k k' : wfc t -> vkey k -> vkey k' ->
    trie_get (trie_delete t k) k' = if vkey_eq_dec k k' then None else trie_get t k'.
  Proof.
    intros Ht Hk Hk'. rewrite !trie_get_lookup by (auto; apply delete_wf_root; auto).
    unfold trie_delete, Model.trie_delete.
    destruct (delete V _ t k) as [d nn] eqn:E. cbn.
    eapply lookup_delete; eauto.
  Qed.

  Theorem get_update t k ov k' : wfc t -> vkey k -> vkey k' ->
    trie_get (trie_update t k ov) k' = if vkey_eq_dec k k' then ov else trie_get t k'.
  Proof. destruct ov; cbn; [apply get_insert|apply get_delete]. Qed.

  Theorem canonical_get t1 t2 : wfc t1 -> wfc t2 ->
    (forall k, vkey k -> trie_get t1 k = trie_get t2 k) -> t1 = t2.
  Proof.
    intros H1 H2 Heq. apply canonical_root; auto.
    intros k Hk. rewrite <- !trie_get_lookup by auto. auto.
  Qed.

  (* ---- operation sequences ---- *)
  Definition op := (list nat * option V)%type.       (* Update(key, value) ; None = empty value = delete *)

  Fixpoint run (ops : list op) (t : node) : node :=
    match ops with
    | [] => t
    | (k, ov) :: r => run r (trie_update t k ov)
    end.

  (* the plain map the sequence denotes: last write wins *)
  Fixpoint denote (ops : list op) (base : list nat -> option V) (k' : list nat) : option V :=
    match ops with
    | [] => base k'
    | (k, ov) :: r => denote r (fun x => if vkey_eq_dec k x then ov else base x) k'
    end.

  Definition valid_ops (ops : list op) : Prop := Forall (fun o => vkey (fst o)) ops.

  Lemma run_wf ops : forall t, wfc t -> valid_ops ops -> wfc (run ops t).
  Proof.
    induction ops as [|[k ov] r IH]; cbn; intros t Ht Hv; auto.
    inversion Hv; subst. apply IH; auto. apply update_wf_root; auto.
  Qed.

  Lemma denote_ext ops : forall b1 b2 k', (forall x, vkey x -> b1 x = b2 x) -> vkey k' ->
    denote ops b1 k' = denote ops b2 k'.
  Proof.
    induction ops as [|[k ov] r IH]; cbn; intros; auto.
    apply IH; auto. intros x Hx. destruct (vkey_eq_dec k x); auto.
  Qed.

  Theorem run_refines_map ops : forall t k', wfc t -> valid_ops ops -> vkey k' ->
    trie_get (run ops t) k' = denote ops (trie_get t) k'.
  Proof.
    induction ops as [|[k ov] r IH]; cbn; intros t k' Ht Hv Hk'; auto.
    inversion Hv; subst. cbn in *. rewrite IH by (auto; apply update_wf_root; auto).
    apply denote_ext; auto. intros x Hx. apply get_update; auto.
  Qed.

  (* the trie (hence any function of it: the Merkle root) is determined by the denoted content *)
  Theorem run_canonical ops1 ops2 t1 t2 :
    wfc t1 -> wfc t2 -> valid_ops ops1 -> valid_ops ops2 ->
    (forall k, vkey k -> denote ops1 (trie_get t1) k = denote ops2 (trie_get t2) k) ->
    run ops1 t1 = run ops2 t2.
  Proof.
    intros H1 H2 V1 V2 Heq. apply canonical_get; try apply run_wf; auto.
    intros k Hk. rewrite !run_refines_map by auto. auto.
  Qed.
End TOP.
