(* Trie/ProofsProj.v — forgetting part of the leaves (map_node f, in particular dropping the metadata of value nodes:
   node.go valueNode.encodeConsensus appends n.val only, full / short nodes encode their children or the hash of the
   children's consensus encoding) preserves the shape invariant and commutes with Get.  Hence two well-formed tries whose
   contents agree after the projection have the same projected tree: any function of the projected tree — the consensus
   encoding, its hash — ignores what the projection drops. *)
From Coq Require Import List Arith Bool Lia.
From Verif Require Import Trie.Model Trie.Keys Trie.ProofsWf Trie.Theorems.
Import ListNotations.

Section Proj.
  Variables A B : Type.
  Variable f : A -> B.

  Lemma child_map_node cs i : child B (map (map_node f) cs) i = map_node f (child A cs i).
  Proof.
    unfold child. change (@Nil B) with (map_node f (@Nil A)). apply map_nth.
  Qed.

  Lemma map_node_nil n : map_node f n = Nil <-> n = Nil.
  Proof. destruct n; cbn; split; intros H; try discriminate; auto. Qed.

  Lemma map_node_wf n : wf A n -> wf B (map_node f n).
  Proof.
    induction 1 as [k v Hk|k cs Hk Hn Hw IH|cs Hl Hc IH Hv He]; cbn [map_node].
    - constructor; auto.
    - constructor; auto.
    - constructor.
      + rewrite map_length; auto.
      + intros i Hi Hne. rewrite child_map_node in *. apply IH; auto.
        intros E. apply Hne. rewrite E. reflexivity.
      + rewrite child_map_node. destruct Hv as [->|[v ->]]; [left; reflexivity|right; eexists; reflexivity].
      + destruct He as [a [b [Hab [Ha Hb]]]]. exists a, b. rewrite !child_map_node. repeat split; auto.
        * intros E. apply map_node_nil in E. auto.
        * intros E. apply map_node_nil in E. auto.
  Qed.

  Lemma map_node_wfc n : wfc A n -> wfc B (map_node f n).
  Proof. intros [->|H]; [left; reflexivity|right; apply map_node_wf; auto]. Qed.

  Lemma get_map_node : forall fuel n key, get B fuel (map_node f n) key = option_map f (get A fuel n key).
  Proof.
    induction fuel; intros n key; cbn; auto.
    destruct n; cbn [map_node]; auto.
    - destruct (prefix_len k key =? length k); auto.
    - destruct key as [|i r]; auto. rewrite child_map_node. apply IHfuel.
  Qed.

  Lemma trie_get_map_node n key : trie_get B (map_node f n) key = option_map f (trie_get A n key).
  Proof. apply get_map_node. Qed.

  (* canonicity on the projection *)
  Theorem canonical_projection t1 t2 :
    wfc A t1 -> wfc A t2 ->
    (forall k, vkey k -> option_map f (trie_get A t1 k) = option_map f (trie_get A t2 k)) ->
    map_node f t1 = map_node f t2.
  Proof.
    intros H1 H2 Heq. apply canonical_get; try apply map_node_wfc; auto.
    intros k Hk. rewrite !trie_get_map_node. auto.
  Qed.
End Proj.
