(* Trie/Keys.v — facts about hex keys: terminated keys (keybytesToHex images), nibble strings, prefixLen. *)
From Coq Require Import List Arith Bool Lia.
From Verif Require Import Trie.Model.
Import ListNotations.

Definition nibs (k : list nat) : Prop := Forall (fun x => x < 16) k.

(* a terminated hex key: nibbles below 16 closed by exactly one 16 *)
Inductive vkey : list nat -> Prop :=
| vk_end : vkey [16]
| vk_cons x r : x < 16 -> vkey r -> vkey (x :: r).

Lemma vkey_nonempty k : vkey k -> k <> [].
Proof. intros H; inversion H; discriminate. Qed.

Lemma vkey_length k : vkey k -> 1 <= length k.
Proof. intros H; inversion H; cbn; lia. Qed.

Lemma vkey_app p r : nibs p -> vkey r -> vkey (p ++ r).
Proof. induction 1; cbn; intros; auto. constructor; auto. Qed.

Lemma vkey_terminate ns : nibs ns -> vkey (terminate ns).
Proof. intros; apply vkey_app; auto; constructor. Qed.

Lemma vkey_inv k : vkey k -> exists ns, k = ns ++ [16] /\ nibs ns.
Proof.
  induction 1.
  - exists []; split; auto; constructor.
  - destruct IHvkey as [ns [E N]]. exists (x :: ns); subst; split; auto. constructor; auto.
Qed.

Lemma nibs_app a b : nibs (a ++ b) <-> nibs a /\ nibs b.
Proof. unfold nibs. apply Forall_app. Qed.

Lemma vkey_cons_inv x r : vkey (x :: r) -> (x = 16 /\ r = []) \/ (x < 16 /\ vkey r).
Proof. intros H; inversion H; subst; auto. Qed.

Lemma vkey_eq_dec (a b : list nat) : {a = b} + {a <> b}.
Proof. apply (list_eq_dec Nat.eq_dec). Qed.

(* ---- prefixLen ---- *)
Lemma prefix_len_le_l a : forall b, prefix_len a b <= length a.
Proof. induction a; destruct b; cbn; try lia. destruct (a =? n); cbn; try lia. specialize (IHa b); lia. Qed.

Lemma prefix_len_comm a : forall b, prefix_len a b = prefix_len b a.
Proof.
  induction a; destruct b; cbn; auto.
  rewrite (Nat.eqb_sym n a). destruct (a =? n); auto.
Qed.

Lemma prefix_len_le_r a b : prefix_len a b <= length b.
Proof. rewrite prefix_len_comm. apply prefix_len_le_l. Qed.

Lemma prefix_len_app a : forall r, prefix_len a (a ++ r) = length a.
Proof. induction a; cbn; auto. intros; rewrite Nat.eqb_refl, IHa; auto. Qed.

Lemma prefix_len_refl a : prefix_len a a = length a.
Proof. induction a; cbn; auto. rewrite Nat.eqb_refl, IHa; auto. Qed.

Lemma prefix_len_full a : forall b, prefix_len a b = length a -> b = a ++ skipn (length a) b.
Proof.
  induction a; cbn; intros; auto.
  destruct b; try discriminate.
  destruct (a =? n) eqn:E; try discriminate.
  apply Nat.eqb_eq in E; subst. injection H as H. cbn. f_equal. auto.
Qed.

Lemma prefix_firstn a : forall b, firstn (prefix_len a b) a = firstn (prefix_len a b) b.
Proof.
  induction a; destruct b; cbn; auto.
  destruct (a =? n) eqn:E; cbn; auto. apply Nat.eqb_eq in E; subst. f_equal; auto.
Qed.

Lemma prefix_len_nth_neq a : forall b,
  prefix_len a b < length a -> prefix_len a b < length b ->
  nth (prefix_len a b) a 0 <> nth (prefix_len a b) b 0.
Proof.
  induction a; destruct b; cbn; intros; try lia.
  destruct (a =? n) eqn:E; cbn.
  - apply IHa; cbn in *; lia.
  - apply Nat.eqb_neq in E; auto.
Qed.

(* ---- terminated keys and prefixes ---- *)
Lemma vkey_prefix_eq a : forall b, vkey a -> vkey b -> prefix_len a b = length a -> a = b.
Proof.
  induction a as [|x a IH]; intros b Ha Hb H; [inversion Ha|].
  destruct b as [|y b]; [inversion Hb|]. cbn in H.
  destruct (x =? y) eqn:E; try discriminate. apply Nat.eqb_eq in E; subst y.
  injection H as H.
  inversion Ha; subst; inversion Hb; subst; auto; try lia.
  f_equal; auto.
Qed.

Lemma vkey_neq_split a b : vkey a -> vkey b -> a <> b ->
  prefix_len a b < length a /\ prefix_len a b < length b.
Proof.
  intros Ha Hb N.
  pose proof (prefix_len_le_l a b). pose proof (prefix_len_le_r a b).
  split.
  - destruct (Nat.eq_dec (prefix_len a b) (length a)); try lia.
    exfalso; apply N; apply vkey_prefix_eq; auto.
  - destruct (Nat.eq_dec (prefix_len a b) (length b)); try lia.
    exfalso; apply N; symmetry; apply vkey_prefix_eq; auto. rewrite prefix_len_comm; auto.
Qed.

Lemma vkey_vs_nibs key : forall k, vkey key -> nibs k -> prefix_len key k < length key.
Proof.
  induction key as [|x key IH]; intros k Hk Hn; [inversion Hk|].
  destruct k as [|y k]; cbn; try lia.
  destruct (x =? y) eqn:E; cbn; try lia. apply Nat.eqb_eq in E; subst y.
  inversion Hn; subst. inversion Hk; subst; try lia.
  specialize (IH k H4 H2). lia.
Qed.

Lemma vkey_skip_nibs k : forall key, vkey key -> nibs k -> prefix_len key k = length k ->
  vkey (skipn (length k) key).
Proof.
  induction k as [|y k IH]; cbn; intros key Hk Hn H; auto.
  destruct key as [|x key]; cbn in *; try discriminate.
  destruct (x =? y) eqn:E; try discriminate. injection H as H.
  apply Nat.eqb_eq in E; subst y.
  inversion Hn; subst. inversion Hk; subst; try lia.
  auto.
Qed.

(* position m of a terminated key: everything before is nibbles; at m either the terminator (end) or a nibble *)
Lemma vkey_at key : forall m, vkey key -> m < length key ->
  nibs (firstn m key) /\
  ((nth m key 0 = 16 /\ skipn (S m) key = []) \/ (nth m key 0 < 16 /\ vkey (skipn (S m) key))).
Proof.
  induction key; intros m Hk Hm; [inversion Hk|].
  apply vkey_cons_inv in Hk. destruct m.
  - cbn. split; [constructor|]. destruct Hk as [[-> ->]|[Hl Hk]]; auto.
  - destruct Hk as [[-> ->]|[Hl Hk]]; [cbn in Hm; lia|].
    cbn in Hm. destruct (IHkey m Hk ltac:(lia)) as [N D].
    split; [cbn; constructor; auto|]. exact D.
Qed.

Lemma nibs_at k : forall m, nibs k -> m < length k ->
  nibs (firstn m k) /\ nth m k 0 < 16 /\ nibs (skipn (S m) k).
Proof.
  induction k; intros m Hn Hm; [cbn in Hm; lia|].
  inversion Hn; subst. destruct m; cbn.
  - repeat split; auto. constructor.
  - cbn in Hm. destruct (IHk m H2 ltac:(lia)) as [A [B C]]. repeat split; auto. constructor; auto.
Qed.

Lemma nibs_no16 k : nibs k -> ~ In 16 k.
Proof. intros H I. unfold nibs in H. rewrite Forall_forall in H. apply H in I. lia. Qed.

Lemma firstn_prefix_len_length a b : length (firstn (prefix_len a b) a) = prefix_len a b.
Proof. rewrite firstn_length. pose proof (prefix_len_le_l a b). lia. Qed.

Lemma split_at_prefix a b : a = firstn (prefix_len a b) a ++ skipn (prefix_len a b) a.
Proof. symmetry; apply firstn_skipn. Qed.

Lemma skipn_nth_cons {A} (l : list A) d : forall m, m < length l -> skipn m l = nth m l d :: skipn (S m) l.
Proof.
  induction l; intros m Hm; [cbn in Hm; lia|].
  destruct m; cbn; auto. apply IHl. cbn in Hm; lia.
Qed.
