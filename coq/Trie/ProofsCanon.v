(* Trie/ProofsCanon.v — canonicity: two well-formed tries with the same content are the same tree. *)
From Coq Require Import List Arith Bool Lia.
From Verif Require Import Trie.Model Trie.Keys Trie.ProofsWf Trie.ProofsMap.
Import ListNotations.

Section CANON.
  Variable V : Type.

  Notation node := (node V).
  Notation child := (child V).
  Notation wf := (wf V).
  Notation wfc := (wfc V).
  Notation lookup := (lookup V).

  Lemma child_over cs i : length cs = 17 -> 16 < i -> child cs i = Nil.
  Proof. intros; apply child_beyond; lia. Qed.

  (* every well-formed (non-nil) subtrie holds at least one key *)
  Lemma wf_nonempty n : wf n -> exists k, vkey k /\ lookup n k <> None.
  Proof.
    induction 1 as [k v Hk | k cs Hne Hnb Hfull IH | cs Hlen Hch IH H16 Htwo].
    - exists k; split; auto. rewrite lookup_leaf by auto. destruct (vkey_eq_dec k k); congruence.
    - destruct IH as [r [Kr Lr]]. exists (k ++ r); split; [apply vkey_app; auto|].
      rewrite lookup_short_app; auto.
    - destruct Htwo as [a [b [N [A B]]]].
      destruct (Nat.lt_ge_cases a 16) as [La|La].
      + destruct (IH a La A) as [r [Kr Lr]]. exists (a :: r); split; [constructor; auto|].
        rewrite lookup_full; auto.
      + destruct (Nat.eq_dec a 16) as [->|Na].
        * destruct H16 as [Q|[v Q]]; [congruence|]. exists [16]; split; [constructor|].
          rewrite lookup_full, Q. discriminate.
        * exfalso; apply A; apply child_over; auto; lia.
  Qed.

  Lemma full_slot_witness cs j : wf (Full cs) -> child cs j <> Nil ->
    exists r, vkey (j :: r) /\ lookup (Full cs) (j :: r) <> None.
  Proof.
    intros H Nj. inversion H as [| |cs' Hlen Hch H16 Htwo]; subst.
    destruct (Nat.lt_ge_cases j 16) as [Lj|Lj].
    - destruct (wf_nonempty _ (Hch j Lj Nj)) as [r [Kr Lr]].
      exists r; split; [constructor; auto|]. rewrite lookup_full; auto.
    - destruct (Nat.eq_dec j 16) as [->|Na].
      + destruct H16 as [Q|[v Q]]; [congruence|]. exists []; split; [constructor|].
        rewrite lookup_full, Q. discriminate.
      + exfalso; apply Nj; apply child_over; auto; lia.
  Qed.

  Lemma full_two_keys cs : wf (Full cs) ->
    exists a ra b rb, a <> b /\ vkey (a :: ra) /\ vkey (b :: rb) /\
                      lookup (Full cs) (a :: ra) <> None /\ lookup (Full cs) (b :: rb) <> None.
  Proof.
    intros H. inversion H as [| |cs' Hlen Hch H16 Htwo]; subst.
    destruct Htwo as [a [b [N [A B]]]].
    destruct (full_slot_witness cs a H A) as [ra [Ka La]].
    destruct (full_slot_witness cs b H B) as [rb [Kb Lb]].
    exists a, ra, b, rb; auto 10.
  Qed.

  Lemma short_some_prefix k c key : lookup (Short k c) key <> None -> exists x, key = k ++ x.
  Proof.
    intros H. destruct (Nat.eq_dec (prefix_len k key) (length k)) as [E|E].
    - exists (skipn (length k) key). apply prefix_len_full; auto.
    - rewrite lookup_short_not_prefix in H by auto. congruence.
  Qed.

  Lemma prefix_of_fork (p : list nat) : forall q x y a ra b rb,
    p ++ x = q ++ a :: ra -> p ++ y = q ++ b :: rb -> a <> b -> exists t, q = p ++ t.
  Proof.
    induction p as [|h p IH]; intros q x y a ra b rb E1 E2 N.
    - exists q; auto.
    - destruct q as [|h' q]; cbn in *.
      + inversion E1; inversion E2; subst. congruence.
      + inversion E1; inversion E2; subst.
        destruct (IH q x y a ra b rb) as [t ->]; auto. exists t; auto.
  Qed.

  Lemma leaf_vs_two k v a ra b rb :
    vkey k -> vkey (a :: ra) -> vkey (b :: rb) -> a <> b ->
    lookup (Short k (Value v)) (a :: ra) <> None -> lookup (Short k (Value v)) (b :: rb) <> None -> False.
  Proof.
    intros Hk Ka Kb N A B.
    rewrite lookup_leaf in A, B by auto.
    destruct (vkey_eq_dec k (a :: ra)), (vkey_eq_dec k (b :: rb)); congruence.
  Qed.

  Lemma ext_vs_two k c a ra b rb : k <> [] -> a <> b ->
    lookup (Short k c) (a :: ra) <> None -> lookup (Short k c) (b :: rb) <> None -> False.
  Proof.
    intros Hne N A B.
    apply short_some_prefix in A. apply short_some_prefix in B.
    destruct A as [x A], B as [y B]. destruct k; [congruence|]. cbn in *. congruence.
  Qed.

  (* key sets of two extension nodes coincide => the extension keys coincide *)
  Lemma ext_key_prefix k1 cs1 k2 c2 :
    wf (Full cs1) -> nibs k1 ->
    (forall k, vkey k -> lookup (Short k1 (Full cs1)) k = lookup (Short k2 c2) k) ->
    exists t, k1 = k2 ++ t.
  Proof.
    intros H1 N1 Heq.
    destruct (full_two_keys cs1 H1) as [a [ra [b [rb [N [Ka [Kb [La Lb]]]]]]]].
    assert (A : lookup (Short k2 c2) (k1 ++ a :: ra) <> None).
    { rewrite <- Heq by (apply vkey_app; auto). rewrite lookup_short_app; auto. }
    assert (B : lookup (Short k2 c2) (k1 ++ b :: rb) <> None).
    { rewrite <- Heq by (apply vkey_app; auto). rewrite lookup_short_app; auto. }
    apply short_some_prefix in A. apply short_some_prefix in B.
    destruct A as [x A], B as [y B].
    eapply (prefix_of_fork k2 k1 x y a ra b rb); eauto.
  Qed.

  Theorem canonical : forall n1, wf n1 -> forall n2, wf n2 ->
    (forall k, vkey k -> lookup n1 k = lookup n2 k) -> n1 = n2.
  Proof.
    induction 1 as [k1 v1 Hk1 | k1 cs1 Hne1 Hnb1 Hfull1 IH | cs1 Hlen1 Hch1 IH H161 Htwo1];
      intros n2 Hn2 Heq.
    - (* leaf *)
      inversion Hn2 as [k2 v2 Hk2 | k2 cs2 Hne2 Hnb2 Hfull2 | cs2 Hlen2 Hch2 H162 Htwo2]; subst.
      + pose proof (Heq k1 Hk1) as E. rewrite !lookup_leaf in E by auto.
        destruct (vkey_eq_dec k1 k1); try congruence. destruct (vkey_eq_dec k2 k1); congruence.
      + exfalso. destruct (full_two_keys cs2 Hfull2) as [a [ra [b [rb [N [Ka [Kb [La Lb]]]]]]]].
        assert (A : lookup (Short k1 (Value v1)) (k2 ++ a :: ra) <> None)
          by (rewrite Heq by (apply vkey_app; auto); rewrite lookup_short_app; auto).
        assert (B : lookup (Short k1 (Value v1)) (k2 ++ b :: rb) <> None)
          by (rewrite Heq by (apply vkey_app; auto); rewrite lookup_short_app; auto).
        rewrite lookup_leaf in A, B by (auto; apply vkey_app; auto).
        destruct (vkey_eq_dec k1 (k2 ++ a :: ra)) as [E1|]; try congruence.
        destruct (vkey_eq_dec k1 (k2 ++ b :: rb)) as [E2|]; try congruence.
        rewrite E1 in E2. apply app_inv_head in E2. congruence.
      + exfalso. destruct (full_two_keys cs2 Hn2) as [a [ra [b [rb [N [Ka [Kb [La Lb]]]]]]]].
        apply (leaf_vs_two k1 v1 a ra b rb); auto; rewrite Heq; auto.
    - (* extension *)
      inversion Hn2 as [k2 v2 Hk2 | k2 cs2 Hne2 Hnb2 Hfull2 | cs2 Hlen2 Hch2 H162 Htwo2]; subst.
      + exfalso. destruct (full_two_keys cs1 Hfull1) as [a [ra [b [rb [N [Ka [Kb [La Lb]]]]]]]].
        assert (A : lookup (Short k2 (Value v2)) (k1 ++ a :: ra) <> None)
          by (rewrite <- Heq by (apply vkey_app; auto); rewrite lookup_short_app; auto).
        assert (B : lookup (Short k2 (Value v2)) (k1 ++ b :: rb) <> None)
          by (rewrite <- Heq by (apply vkey_app; auto); rewrite lookup_short_app; auto).
        rewrite lookup_leaf in A, B by (auto; apply vkey_app; auto).
        destruct (vkey_eq_dec k2 (k1 ++ a :: ra)) as [E1|]; try congruence.
        destruct (vkey_eq_dec k2 (k1 ++ b :: rb)) as [E2|]; try congruence.
        rewrite E1 in E2. apply app_inv_head in E2. congruence.
      + destruct (ext_key_prefix k1 cs1 k2 (Full cs2) Hfull1 Hnb1 Heq) as [t1 E1].
        destruct (ext_key_prefix k2 cs2 k1 (Full cs1) Hfull2 Hnb2 (fun k Hk => eq_sym (Heq k Hk))) as [t2 E2].
        assert (T2 : t2 = []).
        { apply (f_equal (@length nat)) in E1 as L1. apply (f_equal (@length nat)) in E2 as L2.
          rewrite app_length in L1, L2. destruct t2; auto. cbn in *; lia. }
        subst t2. rewrite app_nil_r in E2. subst k2. f_equal. apply IH; auto.
        intros r Kr. pose proof (Heq (k1 ++ r) (vkey_app _ _ Hnb1 Kr)) as E.
        rewrite !lookup_short_app in E; auto.
      + exfalso. destruct (full_two_keys cs2 Hn2) as [a [ra [b [rb [N [Ka [Kb [La Lb]]]]]]]].
        apply (ext_vs_two k1 (Full cs1) a ra b rb); auto; rewrite Heq; auto.
    - (* full *)
      assert (Hn1 : wf (Full cs1)) by (constructor; auto).
      inversion Hn2 as [k2 v2 Hk2 | k2 cs2 Hne2 Hnb2 Hfull2 | cs2 Hlen2 Hch2 H162 Htwo2]; subst.
      + exfalso. destruct (full_two_keys cs1 Hn1) as [a [ra [b [rb [N [Ka [Kb [La Lb]]]]]]]].
        apply (leaf_vs_two k2 v2 a ra b rb); auto; rewrite <- Heq; auto.
      + exfalso. destruct (full_two_keys cs1 Hn1) as [a [ra [b [rb [N [Ka [Kb [La Lb]]]]]]]].
        apply (ext_vs_two k2 (Full cs2) a ra b rb); auto; rewrite <- Heq; auto.
      + f_equal. apply children_ext; [congruence|]. intros i.
        destruct (Nat.lt_ge_cases i 16) as [Li|Li].
        * assert (E : forall r, vkey r -> lookup (child cs1 i) r = lookup (child cs2 i) r).
          { intros r Kr. pose proof (Heq (i :: r) (vk_cons _ _ Li Kr)) as E. rewrite !lookup_full in E; auto. }
          destruct (child cs1 i) eqn:Q1.
          -- destruct (child cs2 i) eqn:Q2; auto; exfalso;
             (assert (W : wf (child cs2 i)) by (apply Hch2; auto; rewrite Q2; discriminate));
             destruct (wf_nonempty _ W) as [r [Kr Lr]]; rewrite Q2 in Lr; rewrite <- E in Lr; auto.
          -- exfalso. assert (W : wf (child cs1 i)) by (apply Hch1; auto; rewrite Q1; discriminate).
             rewrite Q1 in W; inversion W.
          -- rewrite <- Q1 in *. assert (N1 : child cs1 i <> Nil) by (rewrite Q1; discriminate).
             apply IH; auto.
             destruct (child cs2 i) eqn:Q2.
             ++ exfalso. destruct (wf_nonempty _ (Hch1 i Li N1)) as [r [Kr Lr]]. rewrite E in Lr; auto.
             ++ rewrite <- Q2; apply Hch2; auto; rewrite Q2; discriminate.
             ++ rewrite <- Q2; apply Hch2; auto; rewrite Q2; discriminate.
             ++ rewrite <- Q2; apply Hch2; auto; rewrite Q2; discriminate.
          -- rewrite <- Q1 in *. assert (N1 : child cs1 i <> Nil) by (rewrite Q1; discriminate).
             apply IH; auto.
             destruct (child cs2 i) eqn:Q2.
             ++ exfalso. destruct (wf_nonempty _ (Hch1 i Li N1)) as [r [Kr Lr]]. rewrite E in Lr; auto.
             ++ rewrite <- Q2; apply Hch2; auto; rewrite Q2; discriminate.
             ++ rewrite <- Q2; apply Hch2; auto; rewrite Q2; discriminate.
             ++ rewrite <- Q2; apply Hch2; auto; rewrite Q2; discriminate.
        * destruct (Nat.eq_dec i 16) as [->|Ni].
          -- pose proof (Heq [16] vk_end) as E. rewrite !lookup_full in E.
             destruct H161 as [Q1|[w1 Q1]], H162 as [Q2|[w2 Q2]]; rewrite Q1, Q2 in *; cbn in E; congruence.
          -- rewrite !child_over by (auto; lia). reflexivity.
  Qed.

  Corollary canonical_root t1 t2 : wfc t1 -> wfc t2 ->
    (forall k, vkey k -> lookup t1 k = lookup t2 k) -> t1 = t2.
  Proof.
    intros [->|H1] [->|H2] Heq; auto.
    - exfalso. destruct (wf_nonempty _ H2) as [r [Kr Lr]]. rewrite <- Heq in Lr; auto.
    - exfalso. destruct (wf_nonempty _ H1) as [r [Kr Lr]]. rewrite Heq in Lr; auto.
    - apply canonical; auto.
  Qed.
End CANON.
