(* Trie/ProofsMap.v — get after insert / delete is finite-map semantics (trie_refines_map).
   `lookup` is a fuel-free restatement of tryGet used as a proof device; get = lookup on well-formed tries. *)
From Coq Require Import List Arith Bool Lia.
From Verif Require Import Trie.Model Trie.Keys Trie.ProofsWf.
Import ListNotations.

Section MAP.
  Variable V : Type.
  Variable veqb : V -> V -> bool.
  Hypothesis veqb_sound : forall a b, veqb a b = true -> a = b.

  Notation node := (node V).
  Notation insert := (insert V veqb).
  Notation delete := (delete V).
  Notation get := (get V).
  Notation child := (child V).
  Notation upd := (upd V).
  Notation empty_children := (empty_children V).
  Notation single_pos := (single_pos V).
  Notation wf := (wf V).
  Notation wfc := (wfc V).
  Notation wfv := (wfv V).
  Notation mk_leaf := (mk_leaf V).

  Fixpoint lookup (n : node) (key : list nat) {struct n} : option V :=
    match n with
    | Nil => None
    | Value v => Some v
    | Short k c => if prefix_len k key =? length k then lookup c (skipn (length k) key) else None
    | Full cs =>
      match key with
      | [] => None
      | i :: r =>
        (fix nth_l (l : list node) (i : nat) {struct l} : option V :=
           match l, i with
           | [], _ => None
           | c :: _, O => lookup c r
           | _ :: t, S j => nth_l t j
           end) cs i
      end
    end.

  Lemma lookup_full cs : forall i r, lookup (Full cs) (i :: r) = lookup (child cs i) r.
  Proof.
    induction cs; intros i r.
    - destruct i; reflexivity.
    - destruct i; [reflexivity|]. cbn in *. apply (IHcs i r).
  Qed.

  Lemma lookup_full_nil cs : lookup (Full cs) [] = None.
  Proof. reflexivity. Qed.

  Lemma get_lookup : forall g n key, wfv n -> length key < g -> get g n key = lookup n key.
  Proof.
    induction g; intros n key Hn Hg; [lia|].
    destruct Hn as [->|[Hn|[v ->]]]; auto.
    inversion Hn as [k0 v0 Hvk | k0 cs0 Hne Hnb Hfull | cs0 Hlen Hch H16 Htwo]; subst.
    - cbn [Model.get lookup]. destruct (_ =? length k0) eqn:E; auto.
      apply Nat.eqb_eq in E. pose proof (vkey_length _ Hvk).
      apply IHg. { right; right; eauto. }
      rewrite skipn_length. pose proof (prefix_len_le_r k0 key). lia.
    - cbn [Model.get lookup]. destruct (_ =? length k0) eqn:E; auto.
      apply Nat.eqb_eq in E. assert (1 <= length k0) by (destruct k0; cbn; [congruence|lia]).
      apply IHg. { right; left; auto. }
      rewrite skipn_length. pose proof (prefix_len_le_r k0 key). lia.
    - destruct key as [|i r]; auto. rewrite lookup_full. cbn [Model.get]. apply IHg.
      + apply wf_child_wfv; auto.
      + cbn in Hg; lia.
  Qed.

  (* ---- lookup through short nodes ---- *)
  Lemma lookup_short_app k c r : lookup (Short k c) (k ++ r) = lookup c r.
  Proof.
    cbn. rewrite prefix_len_app, Nat.eqb_refl. rewrite skipn_app, skipn_all, Nat.sub_diag. reflexivity.
  Qed.

  Lemma lookup_short_nil c key : lookup (Short [] c) key = lookup c key.
  Proof. reflexivity. Qed.

  Lemma lookup_short_cons j kk c j' r :
    lookup (Short (j :: kk) c) (j' :: r) = if j =? j' then lookup (Short kk c) r else None.
  Proof.
    cbn [lookup prefix_len length]. destruct (j =? j') eqn:E; auto.
  Qed.

  Lemma lookup_short_cons_nil j kk c : lookup (Short (j :: kk) c) [] = None.
  Proof. reflexivity. Qed.

  Lemma lookup_short_merge p : forall q c key, lookup (Short (p ++ q) c) key = lookup (Short p (Short q c)) key.
  Proof.
    induction p; intros q c key; [reflexivity|].
    destruct key as [|j r]; [reflexivity|].
    cbn [app]. rewrite !lookup_short_cons. destruct (a =? j); auto.
  Qed.

  Lemma lookup_mk_leaf kk y r : lookup (mk_leaf kk y) r = lookup (Short kk y) r.
  Proof. destruct kk; reflexivity. Qed.

  Lemma lookup_short_not_prefix k c key : prefix_len k key <> length k -> lookup (Short k c) key = None.
  Proof. intros H. cbn. apply Nat.eqb_neq in H. rewrite H. reflexivity. Qed.

  (* same short key on both sides *)
  Lemma lookup_short_cong k c1 c2 key :
    (forall r, key = k ++ r -> lookup c1 r = lookup c2 r) ->
    lookup (Short k c1) key = lookup (Short k c2) key.
  Proof.
    intros H. cbn. destruct (_ =? length k) eqn:E; auto.
    apply Nat.eqb_eq in E. apply H. apply prefix_len_full; auto.
  Qed.

  Lemma lookup_leaf k v key : vkey k -> vkey key ->
    lookup (Short k (Value v)) key = if vkey_eq_dec k key then Some v else None.
  Proof.
    intros Hk Hkey. cbn. destruct (vkey_eq_dec k key) as [->|N].
    - rewrite prefix_len_refl, Nat.eqb_refl. reflexivity.
    - destruct (_ =? length k) eqn:E; auto. apply Nat.eqb_eq in E.
      exfalso; apply N; apply vkey_prefix_eq; auto.
  Qed.

  Lemma vkey_app_inv p : forall r, nibs p -> vkey (p ++ r) -> vkey r.
  Proof.
    induction p; cbn; intros; auto. inversion H; subst.
    apply vkey_cons_inv in H0. destruct H0 as [[-> _]|[_ ?]]; [lia|auto].
  Qed.

  (* a value (or what stands in slot b) reached with the rest of a terminated key *)
  Lemma lookup_tail_leaf b kb v r' :
    vkey (b :: kb) -> vkey (b :: r') ->
    lookup (Short kb (Value v)) r' = if vkey_eq_dec (b :: kb) (b :: r') then Some v else None.
  Proof.
    intros H1 H2. apply vkey_cons_inv in H1. apply vkey_cons_inv in H2.
    destruct H1 as [[-> ->]|[L1 K1]], H2 as [[E ->]|[L2 K2]]; try lia.
    - cbn. destruct (vkey_eq_dec [16] [16]); congruence.
    - rewrite lookup_leaf by auto.
      destruct (vkey_eq_dec kb r'), (vkey_eq_dec (b :: kb) (b :: r')); congruence.
  Qed.

  (* ---- the branch built by a splitting insert ---- *)
  Lemma lookup_branch a b x y j r : a <> b -> a < 17 -> b < 17 ->
    lookup (Full (upd (upd empty_children a x) b y)) (j :: r) =
    if j =? b then lookup y r else if j =? a then lookup x r else None.
  Proof.
    intros N La Lb. rewrite lookup_full.
    assert (Le : length empty_children = 17) by reflexivity.
    destruct (j =? b) eqn:Eb.
    - apply Nat.eqb_eq in Eb; subst. rewrite child_upd_same; auto; rewrite length_upd, Le; auto.
    - apply Nat.eqb_neq in Eb. rewrite child_upd_other by auto.
      destruct (j =? a) eqn:Ea.
      + apply Nat.eqb_eq in Ea; subst. rewrite child_upd_same; auto; rewrite Le; auto.
      + apply Nat.eqb_neq in Ea. rewrite child_upd_other by auto. rewrite child_empty. reflexivity.
  Qed.

  (* common core of the two splitting cases: old node Short k c (k = p ++ a :: ka), new key p ++ b :: kb *)
  Lemma lookup_split m k key c v key' :
    vkey key -> vkey key' ->
    m = prefix_len key k -> m < length k -> m < length key ->
    nth m k 0 < 17 ->
    (forall r', vkey (nth m k 0 :: r') -> True) ->
    let branch := Full (upd (upd empty_children (nth m k 0) (mk_leaf (skipn (S m) k) c))
                            (nth m key 0) (mk_leaf (skipn (S m) key) (Value v))) in
    lookup (Short (firstn m key) branch) key' =
    if vkey_eq_dec key key' then Some v else lookup (Short k c) key'.
  Proof.
    intros Hk Hk' Em Lk Lkey La _ branch.
    set (p := firstn m key).
    set (a := nth m k 0) in *. set (b := nth m key 0) in *.
    set (ka := skipn (S m) k) in *. set (kb := skipn (S m) key) in *.
    assert (Ekey : key = p ++ b :: kb).
    { unfold p, b, kb. rewrite <- (skipn_nth_cons key 0 m Lkey). symmetry; apply firstn_skipn. }
    assert (Ek : k = p ++ a :: ka).
    { unfold p, a, ka. rewrite Em at 1. rewrite prefix_firstn. rewrite <- Em.
      rewrite <- (skipn_nth_cons k 0 m Lk). symmetry; apply firstn_skipn. }
    assert (Nab : a <> b).
    { unfold a, b. rewrite Em. intros Q. apply (prefix_len_nth_neq key k); auto; rewrite <- Em; auto. }
    destruct (vkey_at key m Hk Lkey) as [Np Db]. fold p in Np. fold b kb in Db.
    assert (Lb : b < 17) by (destruct Db as [[? _]|[? _]]; lia).
    rewrite Ek. rewrite (lookup_short_merge p (a :: ka) c key').
    apply eq_trans with (y := if vkey_eq_dec key key' then Some v else lookup (Short p (Short (a :: ka) c)) key'); [|reflexivity].
    destruct (Nat.eq_dec (prefix_len p key') (length p)) as [Pp|Pp].
    2:{ rewrite !lookup_short_not_prefix by auto.
        destruct (vkey_eq_dec key key') as [<-|]; auto.
        exfalso; apply Pp. rewrite Ekey. apply prefix_len_app. }
    apply prefix_len_full in Pp. set (r' := skipn (length p) key') in *.
    rewrite Pp. rewrite !lookup_short_app.
    assert (Kr : vkey r') by (apply (vkey_app_inv p); auto; rewrite <- Pp; auto).
    destruct r' as [|j r'']; [inversion Kr|].
    unfold branch. rewrite lookup_branch by auto.
    rewrite lookup_short_cons.
    assert (Kb : vkey (b :: kb)) by (apply (vkey_app_inv p); auto; rewrite <- Ekey; auto).
    destruct (j =? b) eqn:Eb.
    - apply Nat.eqb_eq in Eb; subst j.
      rewrite lookup_mk_leaf. rewrite (lookup_tail_leaf b kb v r'') by auto.
      rewrite Ekey.
      destruct (vkey_eq_dec (b :: kb) (b :: r'')) as [Q|Q], (vkey_eq_dec (p ++ b :: kb) (p ++ b :: r'')) as [Q'|Q']; auto.
      + exfalso; apply Q'; congruence.
      + exfalso; apply Q. apply app_inv_head in Q'; auto.
      + replace (a =? b) with false by (symmetry; apply Nat.eqb_neq; auto). reflexivity.
    - apply Nat.eqb_neq in Eb.
      destruct (vkey_eq_dec key (p ++ j :: r'')) as [Q|Q].
      { exfalso. rewrite Ekey in Q. apply app_inv_head in Q. congruence. }
      rewrite (Nat.eqb_sym a j). destruct (j =? a); auto.
      apply lookup_mk_leaf.
  Qed.

  Lemma lookup_insert : forall f n key v d nn key',
    wfc n -> vkey key -> vkey key' -> length key < f -> insert f n key (Value v) = (d, nn) ->
    lookup nn key' = if vkey_eq_dec key key' then Some v else lookup n key'.
  Proof.
    induction f; intros n key v d nn key' Hn Hk Hk' Hf H; [lia|].
    pose proof (vkey_length _ Hk) as Lk.
    destruct key as [|i r]; [inversion Hk|]. cbn [Model.insert] in H.
    destruct Hn as [->|Hn].
    { injection H as _ <-. rewrite lookup_leaf by auto. destruct (vkey_eq_dec (i :: r) key'); auto. }
    inversion Hn as [k0 v0 Hvk | k0 cs0 Hne Hnb Hfull | cs0 Hlen Hch H16 Htwo]; subst.
    - (* leaf *)
      set (m := prefix_len (i :: r) k0) in *.
      destruct (m =? length k0) eqn:E.
      + apply Nat.eqb_eq in E. unfold m in E. rewrite prefix_len_comm in E.
        apply vkey_prefix_eq in E; auto. subst k0.
        unfold m in H. rewrite prefix_len_refl in H.
        replace (skipn (length (i :: r)) (i :: r)) with (@nil nat) in H by (symmetry; apply skipn_all).
        destruct f; [cbn in Hf; lia|]. cbn in H.
        destruct (veqb v0 v) eqn:Q; cbn in H; injection H as _ <-; rewrite !lookup_leaf by auto.
        * apply veqb_sound in Q; subst. destruct (vkey_eq_dec (i :: r) key'); auto.
        * destruct (vkey_eq_dec (i :: r) key'); auto.
      + apply Nat.eqb_neq in E.
        assert (Nk : i :: r <> k0) by (intros <-; apply E; unfold m; rewrite prefix_len_refl; auto).
        destruct (vkey_neq_split _ _ Hk Hvk Nk) as [M1 M2]. fold m in M1, M2.
        destruct f; [cbn in Hf; lia|]. rewrite !insert_nil in H. cbn [snd] in H.
        assert (La : nth m k0 0 < 17) by (destruct (vkey_at k0 m Hvk M2) as [_ [[? _]|[? _]]]; lia).
        pose proof (lookup_split m k0 (i :: r) (Value v0) v key' Hk Hk' eq_refl M2 M1 La (fun _ _ => I)) as R.
        cbv zeta in R.
        destruct (m =? 0) eqn:Z; injection H as _ <-; auto.
        apply Nat.eqb_eq in Z. rewrite Z in R. cbn [firstn] in R. rewrite lookup_short_nil in R. rewrite Z. exact R.
    - (* extension *)
      set (m := prefix_len (i :: r) k0) in *.
      pose proof (vkey_vs_nibs _ _ Hk Hnb) as M1. fold m in M1.
      pose proof (prefix_len_le_r (i :: r) k0) as M2. fold m in M2.
      destruct (m =? length k0) eqn:E.
      + apply Nat.eqb_eq in E.
        destruct (insert f (Full cs0) (skipn m (i :: r)) (Value v)) as [d' c'] eqn:I.
        assert (Ks : vkey (skipn m (i :: r))) by (rewrite E; apply vkey_skip_nibs; auto).
        assert (L1 : 1 <= length k0) by (destruct k0; cbn; [congruence|lia]).
        assert (Lf : length (skipn m (i :: r)) < f) by (rewrite skipn_length; cbn [length] in *; lia).
        assert (Ekey : i :: r = k0 ++ skipn m (i :: r)).
        { rewrite E. apply prefix_len_full. rewrite prefix_len_comm. exact E. }
        assert (R : lookup nn key' = lookup (Short k0 c') key').
        { destruct d'; injection H as _ <-; auto. apply insert_clean in I; auto. subst; auto. }
        rewrite R. clear R H.
        destruct (Nat.eq_dec (prefix_len k0 key') (length k0)) as [Pp|Pp].
        2:{ rewrite !lookup_short_not_prefix by auto.
            destruct (vkey_eq_dec (i :: r) key') as [<-|]; auto.
            exfalso; apply Pp. rewrite prefix_len_comm; auto. }
        apply prefix_len_full in Pp. set (r' := skipn (length k0) key') in *.
        rewrite Pp, !lookup_short_app.
        assert (Kr : vkey r') by (apply (vkey_app_inv k0); auto; rewrite <- Pp; auto).
        rewrite (IHf _ _ _ _ _ r' (or_intror Hfull) Ks Kr Lf I).
        destruct (vkey_eq_dec (skipn m (i :: r)) r') as [Q|Q], (vkey_eq_dec (i :: r) (k0 ++ r')) as [Q'|Q']; auto.
        * exfalso; apply Q'. rewrite <- Q; auto.
        * exfalso; apply Q. rewrite Ekey in Q'. apply app_inv_head in Q'; auto.
      + apply Nat.eqb_neq in E. assert (M3 : m < length k0) by lia.
        destruct f; [cbn in Hf; lia|]. rewrite !insert_nil in H. cbn [snd] in H.
        assert (La : nth m k0 0 < 17) by (destruct (nibs_at k0 m Hnb M3) as [_ [? _]]; lia).
        pose proof (lookup_split m k0 (i :: r) (Full cs0) v key' Hk Hk' eq_refl M3 M1 La (fun _ _ => I)) as R.
        cbv zeta in R.
        destruct (m =? 0) eqn:Z; injection H as _ <-; auto.
        apply Nat.eqb_eq in Z. rewrite Z in R. cbn [firstn] in R. rewrite lookup_short_nil in R. rewrite Z. exact R.
    - (* full *)
      destruct (insert f (child cs0 i) r (Value v)) as [d' c'] eqn:I.
      assert (Li : i < 17) by (inversion Hk; lia).
      assert (R : lookup nn key' = lookup (Full (upd cs0 i c')) key').
      { destruct d'; injection H as _ <-; auto. apply insert_clean in I; auto. subst. rewrite upd_same; auto. }
      rewrite R; clear R H.
      destruct key' as [|j r']; [inversion Hk'|]. rewrite !lookup_full.
      destruct (Nat.eq_dec i j) as [<-|N].
      2:{ rewrite child_upd_other by auto. destruct (vkey_eq_dec (i :: r) (j :: r')); congruence. }
      rewrite child_upd_same by lia.
      apply vkey_cons_inv in Hk. apply vkey_cons_inv in Hk'.
      destruct Hk as [[-> ->]|[L16 Hr]], Hk' as [[Ej ->]|[L16' Hr']]; try lia.
      + destruct f; [cbn in Hf; lia|]. cbn in I.
        destruct (vkey_eq_dec [16] [16]); try congruence.
        destruct H16 as [Q|[v1 Q]]; rewrite Q in I.
        * inversion I; subst; auto.
        * destruct (veqb v1 v); inversion I; subst; auto.
      + assert (Wc : wfc (child cs0 i)).
        { destruct (child cs0 i) eqn:Q; [left; auto|right; rewrite <- Q; apply Hch; auto; rewrite Q; discriminate..]. }
        rewrite (IHf _ _ _ _ _ r' Wc Hr Hr' ltac:(cbn in Hf; lia) I).
        destruct (vkey_eq_dec r r'), (vkey_eq_dec (i :: r) (i :: r')); congruence.
  Qed.

  (* the collapse of a full node with a single child left reads the same *)
  Lemma lookup_collapse cs' pos key' :
    (forall j, j <> pos -> child cs' j = Nil) ->
    lookup (match child cs' pos with
            | Short k2 c2 => Short (pos :: k2) c2
            | ch => Short [pos] ch
            end) key' = lookup (Full cs') key' /\
    lookup (Short [pos] (child cs' pos)) key' = lookup (Full cs') key'.
  Proof.
    intros O.
    assert (B : lookup (Short [pos] (child cs' pos)) key' = lookup (Full cs') key').
    { destruct key' as [|j r']; [reflexivity|].
      rewrite lookup_short_cons, lookup_full, lookup_short_nil.
      destruct (pos =? j) eqn:E.
      - apply Nat.eqb_eq in E; subst; auto.
      - apply Nat.eqb_neq in E. rewrite O by auto. reflexivity. }
    split; auto.
    rewrite <- B. destruct (child cs' pos); auto.
    apply (lookup_short_merge [pos] k n key').
  Qed.

  Lemma lookup_delete : forall f n key d nn key',
    wfc n -> vkey key -> vkey key' -> length key < f -> delete f n key = (d, nn) ->
    lookup nn key' = if vkey_eq_dec key key' then None else lookup n key'.
  Proof.
    induction f; intros n key d nn key' Hn Hk Hk' Hf H; [lia|].
    pose proof (vkey_length _ Hk) as Lk.
    cbn [Model.delete] in H.
    destruct Hn as [->|Hn].
    { injection H as _ <-. destruct (vkey_eq_dec key key'); auto. }
    inversion Hn as [k0 v0 Hvk | k0 cs0 Hne Hnb Hfull | cs0 Hlen Hch H16 Htwo]; subst.
    - (* leaf *)
      set (m := prefix_len key k0) in *.
      destruct (m <? length k0) eqn:E.
      + injection H as _ <-. apply Nat.ltb_lt in E.
        destruct (vkey_eq_dec key key') as [<-|]; auto.
        rewrite lookup_leaf by auto. destruct (vkey_eq_dec k0 key) as [->|]; auto.
        unfold m in E. rewrite prefix_len_refl in E. lia.
      + apply Nat.ltb_ge in E. pose proof (prefix_len_le_r key k0) as Hm1. fold m in Hm1.
        assert (Q : prefix_len k0 key = length k0) by (rewrite prefix_len_comm; fold m; lia).
        apply vkey_prefix_eq in Q; auto. subst k0.
        unfold m in H. rewrite prefix_len_refl, Nat.eqb_refl in H. injection H as _ <-.
        rewrite lookup_leaf by auto. cbn. destruct (vkey_eq_dec key key'); auto.
    - (* extension *)
      set (m := prefix_len key k0) in *.
      destruct (m <? length k0) eqn:E.
      + injection H as _ <-. apply Nat.ltb_lt in E.
        destruct (vkey_eq_dec key key') as [<-|]; auto.
        apply lookup_short_not_prefix. rewrite prefix_len_comm. fold m. lia.
      + apply Nat.ltb_ge in E. pose proof (prefix_len_le_r key k0) as M2. fold m in M2.
        pose proof (vkey_vs_nibs _ _ Hk Hnb) as M1. fold m in M1.
        destruct (m =? length key) eqn:E2; [apply Nat.eqb_eq in E2; lia|].
        destruct (delete f (Full cs0) (skipn (length k0) key)) as [d' c'] eqn:D.
        assert (Ks : vkey (skipn (length k0) key)) by (apply vkey_skip_nibs; auto; fold m; lia).
        assert (L1 : 1 <= length k0) by (destruct k0; cbn; [congruence|lia]).
        assert (Lf : length (skipn (length k0) key) < f) by (rewrite skipn_length; lia).
        assert (Ekey : key = k0 ++ skipn (length k0) key).
        { apply prefix_len_full. rewrite prefix_len_comm. fold m. lia. }
        assert (R : lookup nn key' = lookup (Short k0 c') key').
        { destruct d'.
          - destruct c'; cbv beta iota in H; injection H as _ <-; auto. apply lookup_short_merge.
          - injection H as _ <-. apply delete_clean in D. subst; auto. }
        rewrite R. clear R H.
        destruct (Nat.eq_dec (prefix_len k0 key') (length k0)) as [Pp|Pp].
        2:{ rewrite !lookup_short_not_prefix by auto.
            destruct (vkey_eq_dec key key') as [<-|]; auto. }
        apply prefix_len_full in Pp. set (r' := skipn (length k0) key') in *.
        rewrite Pp, !lookup_short_app.
        assert (Kr : vkey r') by (apply (vkey_app_inv k0); auto; rewrite <- Pp; auto).
        rewrite (IHf _ _ _ _ r' (or_intror Hfull) Ks Kr Lf D).
        destruct (vkey_eq_dec (skipn (length k0) key) r') as [Q|Q],
                 (vkey_eq_dec key (k0 ++ r')) as [Q'|Q']; auto.
        * exfalso; apply Q'. rewrite <- Q; auto.
        * exfalso; apply Q. rewrite Ekey in Q'. apply app_inv_head in Q'; auto.
    - (* full *)
      destruct key as [|i r]; [inversion Hk|].
      destruct (delete f (child cs0 i) r) as [d' c'] eqn:D.
      assert (Li : i < 17) by (inversion Hk; lia).
      assert (R : lookup nn key' = lookup (Full (upd cs0 i c')) key').
      { destruct d'.
        - destruct (single_pos (upd cs0 i c')) as [pos|] eqn:SP; [|injection H as _ <-; auto].
          destruct (single_pos_from_some _ _ _ _ SP) as [q [Eq [Lq [Nq Oq]]]]. cbn in Eq; subst q.
          destruct (lookup_collapse (upd cs0 i c') pos key' Oq) as [A B].
          destruct (negb (pos =? 16)); [destruct (child (upd cs0 i c') pos)|]; injection H as _ <-; auto.
        - injection H as _ <-. apply delete_clean in D. subst. rewrite upd_same; auto. }
      rewrite R; clear R H.
      destruct key' as [|j r']; [inversion Hk'|]. rewrite !lookup_full.
      destruct (Nat.eq_dec i j) as [<-|N].
      2:{ rewrite child_upd_other by auto. destruct (vkey_eq_dec (i :: r) (j :: r')); congruence. }
      rewrite child_upd_same by lia.
      apply vkey_cons_inv in Hk. apply vkey_cons_inv in Hk'.
      destruct Hk as [[-> ->]|[L16 Hr]], Hk' as [[Ej ->]|[L16' Hr']]; try lia.
      + destruct f; [cbn in Hf; lia|]. cbn in D.
        destruct (vkey_eq_dec [16] [16]); try congruence.
        destruct H16 as [Q|[v1 Q]]; rewrite Q in D; inversion D; subst; auto.
      + assert (Wc : wfc (child cs0 i)).
        { destruct (child cs0 i) eqn:Q; [left; auto|right; rewrite <- Q; apply Hch; auto; rewrite Q; discriminate..]. }
        rewrite (IHf _ _ _ _ r' Wc Hr Hr' ltac:(cbn in Hf; lia) D).
        destruct (vkey_eq_dec r r'), (vkey_eq_dec (i :: r) (i :: r')); congruence.
  Qed.
End MAP.
