(* Trie/ProofsWf.v — the shape invariant of trie.go's tries and its preservation by insert and delete. *)
From Coq Require Import List Arith Bool Lia.
From Verif Require Import Trie.Model Trie.Keys.
Import ListNotations.

Section WF.
  Variable V : Type.
  Variable veqb : V -> V -> bool.
  Hypothesis veqb_sound : forall a b, veqb a b = true -> a = b.

  Notation node := (node V).
  Notation insert := (insert V veqb).
  Notation delete := (delete V).
  Notation get := (get V).
  Notation child := (child V).
  Notation upd := (upd V).
  Notation empty_children := (empty_children V).
  Notation single_pos := (single_pos V).
  Notation is_nil := (is_nil V).

  (* The shape invariant: no Short under Short, no empty Short key, a value only directly under a terminated
     key (a Short whose key ends in 16, or slot 16 of a Full), every Full has 17 slots, at least two of them used. *)
  Inductive wf : node -> Prop :=
  | wf_leaf k v : vkey k -> wf (Short k (Value v))
  | wf_ext k cs : k <> [] -> nibs k -> wf (Full cs) -> wf (Short k (Full cs))
  | wf_full cs :
      length cs = 17 ->
      (forall i, i < 16 -> child cs i <> Nil -> wf (child cs i)) ->
      (child cs 16 = Nil \/ exists v, child cs 16 = Value v) ->
      (exists a b, a <> b /\ child cs a <> Nil /\ child cs b <> Nil) ->
      wf (Full cs).

  (* a root, or a slot below 16 of a full node *)
  Definition wfc (n : node) : Prop := n = Nil \/ wf n.

  (* what may sit in slot i of a full node *)
  Definition slot_ok (i : nat) (x : node) : Prop :=
    (i < 16 /\ wf x) \/ (i = 16 /\ exists v, x = Value v).

  Lemma wf_not_nil n : wf n -> n <> Nil.
  Proof. intros H; inversion H; discriminate. Qed.

  Lemma slot_ok_not_nil i x : slot_ok i x -> x <> Nil.
  Proof. intros [[_ H]|[_ [v ->]]]; [apply wf_not_nil; auto|discriminate]. Qed.

  (* ---- children lists ---- *)
  Lemma length_upd cs : forall i x, length (upd cs i x) = length cs.
  Proof. induction cs; destruct i; cbn; auto. Qed.

  Lemma child_upd_same cs : forall i x, i < length cs -> child (upd cs i x) i = x.
  Proof. induction cs; destruct i; cbn; intros; try lia; auto. apply IHcs; lia. Qed.

  Lemma child_upd_other cs : forall i j x, i <> j -> child (upd cs i x) j = child cs j.
  Proof.
    induction cs; destruct i; destruct j; cbn; intros; auto; try lia.
    apply IHcs; lia.
  Qed.

  Lemma child_empty i : child empty_children i = Nil.
  Proof. unfold child, Model.child, empty_children, Model.empty_children.
         do 18 (destruct i; auto). Qed.

  Lemma child_beyond cs i : length cs <= i -> child cs i = Nil.
  Proof. intros; apply nth_overflow; auto. Qed.

  Lemma upd_same cs : forall i, upd cs i (child cs i) = cs.
  Proof. induction cs; destruct i; cbn; auto. f_equal. apply IHcs. Qed.

  Lemma children_ext (a b : list node) :
    length a = length b -> (forall i, child a i = child b i) -> a = b.
  Proof.
    revert b; induction a; destruct b; cbn; intros; auto; try discriminate.
    f_equal. apply (H0 0). apply IHa; auto. intros i; apply (H0 (S i)).
  Qed.

  Lemma is_nil_true n : is_nil n = true <-> n = Nil.
  Proof. destruct n; cbn; split; intros; auto; discriminate. Qed.

  Lemma forallb_nil_all cs : forallb is_nil cs = true <-> forall j, child cs j = Nil.
  Proof.
    induction cs; cbn.
    - split; auto. intros _ j; destruct j; auto.
    - rewrite andb_true_iff, is_nil_true, IHcs. split.
      + intros [-> H] j. destruct j; auto. apply H.
      + intros H. split; [apply (H 0)|intros j; apply (H (S j))].
  Qed.

  Lemma single_pos_from_some cs : forall i0 p, single_pos_from V cs i0 = Some p ->
    exists q, p = i0 + q /\ q < length cs /\ child cs q <> Nil /\ forall j, j <> q -> child cs j = Nil.
  Proof.
    induction cs; cbn; intros; try discriminate.
    destruct (is_nil a) eqn:E.
    - apply is_nil_true in E; subst. destruct (IHcs _ _ H) as [q [-> [L [N O]]]].
      exists (S q); repeat split; auto; try lia. intros j Hj. destruct j; auto. apply O; lia.
    - destruct (forallb is_nil cs) eqn:F; try discriminate. injection H as <-.
      exists 0; repeat split; auto; try lia.
      + cbn. intros ->; discriminate.
      + intros j Hj. destruct j; try lia. cbn. apply forallb_nil_all; auto.
  Qed.

  Lemma single_pos_from_none cs : forall i0, single_pos_from V cs i0 = None ->
    (forall j, child cs j = Nil) \/ (exists a b, a <> b /\ child cs a <> Nil /\ child cs b <> Nil).
  Proof.
    induction cs; cbn; intros.
    - left; intros j; destruct j; auto.
    - destruct (is_nil a) eqn:E.
      + apply is_nil_true in E; subst. destruct (IHcs _ H) as [A|[x [y [N [X Y]]]]].
        * left; intros j; destruct j; [auto|apply A].
        * right; exists (S x), (S y); repeat split; auto.
      + destruct (forallb is_nil cs) eqn:F; try discriminate.
        right. assert (exists j, child cs j <> Nil) as [j Hj].
        { clear -F. induction cs; cbn in *; try discriminate.
          destruct (Model.is_nil V a) eqn:E; cbn in F.
          - destruct (IHcs F) as [j Hj]. exists (S j); auto.
          - exists 0; cbn. intros ->; discriminate. }
        exists 0, (S j); repeat split; auto. cbn; intros ->; discriminate.
  Qed.

  (* ---- clean (dirty = false) results leave the node as it was ---- *)
  Lemma insert_clean : forall f n key x nn, insert f n key x = (false, nn) -> nn = n.
  Proof.
    induction f; cbn; intros n key x nn H; [injection H; auto|].
    destruct key as [|i r].
    - destruct n; try (injection H; discriminate). destruct x; try discriminate.
      injection H as H <-. apply negb_false_iff in H. f_equal. symmetry; auto.
    - destruct n; try (injection H; intros; subst; auto; discriminate).
      + destruct (_ =? length k).
        * destruct (insert f n _ x) as [d c'] eqn:E. destruct d; injection H; auto; discriminate.
        * destruct (_ =? 0); discriminate.
      + destruct (insert f (child cs i) r x) as [d c'] eqn:E. destruct d; injection H; auto; discriminate.
  Qed.

  Lemma delete_clean : forall f n key nn, delete f n key = (false, nn) -> nn = n.
  Proof.
    induction f; intros n key nn H; cbn [Model.delete] in H; [injection H; auto|].
    destruct n; try (injection H; intros; subst; auto; discriminate).
    - destruct (_ <? length k); [injection H; auto|].
      destruct (_ =? length key); try discriminate.
      destruct (delete f n _) as [d c'] eqn:E. destruct d; [|injection H; auto].
      destruct c'; discriminate.
    - destruct key as [|i r]; [injection H; auto|].
      destruct (delete f (child cs i) r) as [d c'] eqn:E. destruct d; [|injection H; auto].
      destruct (single_pos _); try discriminate.
      destruct (negb _); try discriminate. destruct (child _ n); discriminate.
  Qed.

  Definition mk_leaf (k : list nat) (x : node) : node := match k with [] => x | _ => Short k x end.

  Lemma insert_nil f k x : insert (S f) Nil k x = (true, mk_leaf k x).
  Proof. destruct k; cbn; auto. Qed.

  (* ---- fuel: any amount above the key length gives the same answer on well-formed tries ---- *)
  Definition wfv (n : node) : Prop := n = Nil \/ wf n \/ exists v, n = Value v.

  Lemma wf_child_wfv cs i : wf (Full cs) -> wfv (child cs i).
  Proof.
    intros H; inversion H; subst.
    destruct (Nat.lt_ge_cases i 16).
    - destruct (child cs i) eqn:E; [left; auto|right; left..]; rewrite <- E; apply H2; auto; rewrite E; discriminate.
    - destruct (Nat.eq_dec i 16) as [->|].
      + destruct H3 as [->|[v ->]]; [left; auto|right; right; eauto].
      + left. apply child_beyond; lia.
  Qed.

  Lemma get_fuel : forall g g' n key, wfv n -> length key < g -> length key < g' -> get g n key = get g' n key.
  Proof.
    induction g; intros g' n key Hn Hg Hg'; [lia|].
    destruct g'; [lia|]. cbn.
    destruct Hn as [->|[Hn|[v ->]]]; auto.
    inversion Hn; subst.
    - destruct (_ =? length k) eqn:E; auto.
      apply Nat.eqb_eq in E. pose proof (vkey_length _ H).
      assert (length (skipn (length k) key) < length key).
      { rewrite skipn_length. pose proof (prefix_len_le_r k key). lia. }
      apply IHg; try lia. right; right; eauto.
    - destruct (_ =? length k) eqn:E; auto.
      apply Nat.eqb_eq in E. assert (1 <= length k) by (destruct k; cbn; [congruence|lia]).
      assert (length (skipn (length k) key) < length key).
      { rewrite skipn_length. pose proof (prefix_len_le_r k key). lia. }
      apply IHg; try lia. right; left; auto.
    - destruct key as [|i r]; auto. cbn in *. apply IHg; try lia. apply wf_child_wfv; auto.
  Qed.

  (* ---- building a branch ---- *)
  Lemma branch_wf a b x y : a <> b -> slot_ok a x -> slot_ok b y ->
    wf (Full (upd (upd empty_children a x) b y)).
  Proof.
    intros N Hx Hy.
    assert (La : a < 17) by (destruct Hx as [[? _]|[? _]]; lia).
    assert (Lb : b < 17) by (destruct Hy as [[? _]|[? _]]; lia).
    assert (Le : length empty_children = 17) by reflexivity.
    assert (Ca : child (upd (upd empty_children a x) b y) a = x).
    { rewrite child_upd_other by auto. apply child_upd_same. rewrite Le; auto. }
    assert (Cb : child (upd (upd empty_children a x) b y) b = y).
    { apply child_upd_same. rewrite length_upd, Le; auto. }
    assert (Co : forall j, j <> a -> j <> b -> child (upd (upd empty_children a x) b y) j = Nil).
    { intros. rewrite !child_upd_other by auto. apply child_empty. }
    constructor.
    - rewrite !length_upd; auto.
    - intros i Hi Hn.
      destruct (Nat.eq_dec i a) as [->|Na]; [rewrite Ca in *|].
      { destruct Hx as [[_ ?]|[? _]]; auto; lia. }
      destruct (Nat.eq_dec i b) as [->|Nb]; [rewrite Cb in *|].
      { destruct Hy as [[_ ?]|[? _]]; auto; lia. }
      rewrite Co in Hn; auto. congruence.
    - destruct (Nat.eq_dec 16 a) as [<-|Na]; [rewrite Ca|].
      { destruct Hx as [[? _]|[_ ?]]; auto; lia. }
      destruct (Nat.eq_dec 16 b) as [<-|Nb]; [rewrite Cb|].
      { destruct Hy as [[? _]|[_ ?]]; auto; lia. }
      left; apply Co; auto.
    - exists a, b; repeat split; auto; [rewrite Ca|rewrite Cb]; eapply slot_ok_not_nil; eauto.
  Qed.

  Lemma leaf_slot key m v : vkey key -> m < length key ->
    slot_ok (nth m key 0) (mk_leaf (skipn (S m) key) (Value v)).
  Proof.
    intros Hk Hm. destruct (vkey_at key m Hk Hm) as [_ [[E S]|[L K]]].
    - rewrite S; cbn. right; split; eauto.
    - left; split; auto. destruct (skipn (S m) key) eqn:E; [inversion K|]. cbn. constructor; auto.
  Qed.

  Lemma ext_slot k m cs : nibs k -> m < length k -> wf (Full cs) ->
    slot_ok (nth m k 0) (mk_leaf (skipn (S m) k) (Full cs)).
  Proof.
    intros Hk Hm Hc. destruct (nibs_at k m Hk Hm) as [_ [L R]].
    left; split; auto. destruct (skipn (S m) k) eqn:E; cbn; auto.
    constructor; auto. discriminate.
  Qed.

  Lemma wf_short_prefix p c : p <> [] -> nibs p -> wf (Full c) -> wf (Short p (Full c)).
  Proof. intros; constructor; auto. Qed.

  (* replacing a slot of a well-formed full node by something allowed there *)
  Lemma full_upd_wf cs i x : wf (Full cs) -> slot_ok i x -> wf (Full (upd cs i x)).
  Proof.
    intros H Hx. inversion H as [| |cs' L C S T]; subst.
    assert (Li : i < 17) by (destruct Hx as [[? _]|[? _]]; lia).
    constructor.
    - rewrite length_upd; auto.
    - intros j Hj Hn. destruct (Nat.eq_dec i j) as [->|N].
      + rewrite child_upd_same in * by lia. destruct Hx as [[_ ?]|[? _]]; auto; lia.
      + rewrite child_upd_other in * by auto. auto.
    - destruct (Nat.eq_dec i 16) as [->|N].
      + rewrite child_upd_same by lia. destruct Hx as [[? _]|[_ ?]]; auto; lia.
      + rewrite child_upd_other by auto. auto.
    - destruct T as [a [b [N [A B]]]].
      pose proof (slot_ok_not_nil _ _ Hx) as Nx.
      destruct (Nat.eq_dec a i) as [->|Na].
      + exists i, b; repeat split; auto. rewrite child_upd_same by lia; auto. rewrite child_upd_other by auto; auto.
      + destruct (Nat.eq_dec b i) as [->|Nb].
        * exists a, i; repeat split; auto. rewrite child_upd_other by auto; auto. rewrite child_upd_same by lia; auto.
        * exists a, b; repeat split; auto; rewrite child_upd_other by auto; auto.
  Qed.

  (* ---- insert preserves the invariant ---- *)
  Lemma insert_full_is_full f cs key x d nn : insert f (Full cs) key x = (d, nn) -> key <> [] -> exists cs', nn = Full cs'.
  Proof.
    destruct f; cbn; intros H N; [injection H; eauto|].
    destruct key; [congruence|].
    destruct (insert f _ key x) as [d' c']. destruct d'; injection H; eauto.
  Qed.

  Lemma insert_wf : forall f n key v d nn,
    wfc n -> vkey key -> length key < f -> insert f n key (Value v) = (d, nn) -> wf nn.
  Proof.
    induction f; intros n key v d nn Hn Hk Hf H; [lia|].
    pose proof (vkey_length _ Hk) as Lk.
    destruct key as [|i r]; [inversion Hk|]. cbn [Model.insert] in H.
    destruct Hn as [->|Hn].
    { injection H as _ <-. constructor; auto. }
    inversion Hn as [k0 v0 Hvk | k0 cs0 Hne Hnb Hfull | cs0 Hlen Hch H16 Htwo]; subst.
    - (* leaf *)
      set (m := prefix_len (i :: r) k0) in *.
      destruct (m =? length k0) eqn:E.
      + apply Nat.eqb_eq in E. unfold m in E. rewrite prefix_len_comm in E.
        apply vkey_prefix_eq in E; auto. subst k0.
        unfold m in H. rewrite prefix_len_refl in H.
        replace (skipn (length (i :: r)) (i :: r)) with (@nil nat) in H by (symmetry; apply skipn_all).
        destruct f; [cbn in Hf; lia|]. cbn in H.
        destruct (veqb v0 v); cbn in H; injection H as _ <-; constructor; auto.
      + apply Nat.eqb_neq in E.
        assert (Nk : i :: r <> k0) by (intros <-; apply E; unfold m; rewrite prefix_len_refl; auto).
        destruct (vkey_neq_split _ _ Hk Hvk Nk) as [M1 M2]. fold m in M1, M2.
        destruct f; [cbn in Hf; lia|]. rewrite !insert_nil in H. cbn [snd] in H.
        assert (B : wf (Full (upd (upd empty_children (nth m k0 0) (mk_leaf (skipn (S m) k0) (Value v0)))
                                  (nth m (i :: r) 0) (mk_leaf (skipn (S m) (i :: r)) (Value v))))).
        { apply branch_wf.
          - intros Q. apply (prefix_len_nth_neq (i :: r) k0); auto; fold m; symmetry; auto.
          - apply leaf_slot; auto.
          - apply leaf_slot; auto. }
        destruct (m =? 0) eqn:Z; injection H as _ <-; auto.
        apply Nat.eqb_neq in Z.
        destruct (vkey_at _ m Hk M1) as [NB _].
        inversion B; subst. constructor; auto.
        intros Q. apply (f_equal (@length nat)) in Q. rewrite firstn_length in Q. cbn [length] in *. lia.
    - (* extension *)
      set (m := prefix_len (i :: r) k0) in *.
      pose proof (vkey_vs_nibs _ _ Hk Hnb) as M1. fold m in M1.
      pose proof (prefix_len_le_r (i :: r) k0) as M2. fold m in M2.
      destruct (m =? length k0) eqn:E.
      + apply Nat.eqb_eq in E.
        destruct (insert f (Full cs0) (skipn m (i :: r)) (Value v)) as [d' c'] eqn:I.
        assert (Ks : vkey (skipn m (i :: r))) by (rewrite E; apply vkey_skip_nibs; auto).
        assert (L1 : 1 <= length k0) by (destruct k0; cbn; [congruence|lia]).
        assert (W : wf c').
        { eapply IHf; [right; exact Hfull|exact Ks| |exact I]. rewrite skipn_length. cbn [length] in *. lia. }
        destruct (insert_full_is_full _ _ _ _ _ _ I (vkey_nonempty _ Ks)) as [cs' ->].
        destruct d'; injection H as _ <-; auto. constructor; auto.
      + apply Nat.eqb_neq in E. assert (M3 : m < length k0) by lia.
        destruct f; [cbn in Hf; lia|]. rewrite !insert_nil in H. cbn [snd] in H.
        assert (B : wf (Full (upd (upd empty_children (nth m k0 0) (mk_leaf (skipn (S m) k0) (Full cs0)))
                                  (nth m (i :: r) 0) (mk_leaf (skipn (S m) (i :: r)) (Value v))))).
        { apply branch_wf.
          - intros Q. apply (prefix_len_nth_neq (i :: r) k0); auto; fold m; symmetry; auto.
          - apply ext_slot; auto.
          - apply leaf_slot; auto. }
        destruct (m =? 0) eqn:Z; injection H as _ <-; auto.
        apply Nat.eqb_neq in Z.
        destruct (vkey_at _ m Hk M1) as [NB _].
        inversion B; subst. constructor; auto.
        intros Q. apply (f_equal (@length nat)) in Q. rewrite firstn_length in Q. cbn [length] in *. lia.
    - (* full *)
      destruct (insert f (child cs0 i) r (Value v)) as [d' c'] eqn:I.
      destruct d'; injection H as _ <-; auto.
      apply full_upd_wf; auto.
      apply vkey_cons_inv in Hk. destruct Hk as [[-> ->]|[Li Hr]].
      + right; split; auto.
        destruct f; [cbn in Hf; lia|]. cbn in I.
        destruct H16 as [Q|[v1 Q]]; rewrite Q in I.
        * inversion I; subst; eauto.
        * destruct (veqb v1 v); inversion I; subst; eauto.
      + left; split; auto. eapply IHf; [| exact Hr | | exact I].
        * destruct (child cs0 i) eqn:Q; [left; auto|right; rewrite <- Q; apply Hch; auto; rewrite Q; discriminate..].
        * cbn in Hf; lia.
  Qed.

  (* ---- delete preserves the invariant ---- *)
  Lemma delete_wf : forall f n key d nn,
    wf n -> vkey key -> length key < f -> delete f n key = (d, nn) ->
    match n with Full _ => wf nn | _ => wfc nn end.
  Proof.
    induction f; intros n key d nn Hn Hk Hf H; [lia|].
    pose proof (vkey_length _ Hk) as Lk.
    cbn [Model.delete] in H.
    inversion Hn as [k0 v0 Hvk | k0 cs0 Hne Hnb Hfull | cs0 Hlen Hch H16 Htwo]; subst.
    - (* leaf *)
      set (m := prefix_len key k0) in *.
      destruct (m <? length k0) eqn:E; [injection H as _ <-; right; auto|].
      apply Nat.ltb_ge in E. pose proof (prefix_len_le_r key k0) as Hm1. fold m in Hm1.
      assert (Q : prefix_len k0 key = length k0) by (rewrite prefix_len_comm; fold m; lia).
      apply vkey_prefix_eq in Q; auto. subst k0.
      unfold m in H. rewrite prefix_len_refl, Nat.eqb_refl in H. injection H as _ <-. left; auto.
    - (* extension *)
      set (m := prefix_len key k0) in *.
      destruct (m <? length k0) eqn:E; [injection H as _ <-; right; auto|].
      apply Nat.ltb_ge in E. pose proof (prefix_len_le_r key k0) as M2. fold m in M2.
      pose proof (vkey_vs_nibs _ _ Hk Hnb) as M1. fold m in M1.
      destruct (m =? length key) eqn:E2; [apply Nat.eqb_eq in E2; lia|].
      destruct (delete f (Full cs0) (skipn (length k0) key)) as [d' c'] eqn:D.
      assert (Ks : vkey (skipn (length k0) key)) by (apply vkey_skip_nibs; auto; fold m; lia).
      assert (L1 : 1 <= length k0) by (destruct k0; cbn; [congruence|lia]).
      assert (Lf : length (skipn (length k0) key) < f) by (rewrite skipn_length; lia).
      pose proof (IHf (Full cs0) _ d' c' Hfull Ks Lf D) as W. cbn in W.
      destruct d'; [|injection H as _ <-; right; auto].
      right. inversion W; subst; injection H as _ <-.
      + constructor. apply vkey_app; auto.
      + constructor; auto. { destruct k0; [congruence|discriminate]. } apply nibs_app; auto.
      + constructor; auto.
    - (* full *)
      destruct key as [|i r]; [inversion Hk|].
      destruct (delete f (child cs0 i) r) as [d' c'] eqn:D.
      destruct d'; [|injection H as _ <-; auto].
      (* the slot after deletion *)
      assert (Li : i < 17) by (inversion Hk; lia).
      assert (SL : c' = Nil \/ slot_ok i c').
      { apply vkey_cons_inv in Hk. destruct Hk as [[-> ->]|[L16 Hr]].
        - destruct f; [cbn in Hf; lia|]. cbn in D.
          destruct H16 as [Q|[v1 Q]]; rewrite Q in D; inversion D; subst; auto.
        - destruct (child cs0 i) eqn:Q.
          + destruct f; cbn in D; inversion D; subst; auto.
          + exfalso. assert (W : wf (Value v)) by (rewrite <- Q; apply Hch; auto; rewrite Q; discriminate). inversion W.
          + assert (W : wf (Short k n)) by (rewrite <- Q; apply Hch; auto; rewrite Q; discriminate).
            pose proof (IHf _ _ _ _ W Hr ltac:(cbn in Hf; lia) D) as R. cbn in R.
            destruct R as [->|R]; auto. right; left; auto.
          + assert (W : wf (Full cs)) by (rewrite <- Q; apply Hch; auto; rewrite Q; discriminate).
            pose proof (IHf _ _ _ _ W Hr ltac:(cbn in Hf; lia) D) as R. cbn in R.
            right; left; auto. }
      set (cs' := upd cs0 i c') in *.
      assert (Lc : length cs' = 17) by (unfold cs'; rewrite length_upd; auto).
      assert (Cw : forall j, j < 16 -> child cs' j <> Nil -> wf (child cs' j)).
      { intros j Hj Hn'. unfold cs' in *. destruct (Nat.eq_dec i j) as [->|N].
        - rewrite child_upd_same in * by lia. destruct SL as [->|[[_ ?]|[? _]]]; auto; [congruence|lia].
        - rewrite child_upd_other in * by auto. auto. }
      assert (C16 : child cs' 16 = Nil \/ exists v, child cs' 16 = Value v).
      { unfold cs'. destruct (Nat.eq_dec i 16) as [->|N].
        - rewrite child_upd_same by lia. destruct SL as [->|[[? _]|[_ ?]]]; auto; lia.
        - rewrite child_upd_other by auto. auto. }
      (* at least one child is left *)
      assert (Ex : exists j, child cs' j <> Nil).
      { destruct Htwo as [a [b [N [A B]]]]. unfold cs'.
        destruct (Nat.eq_dec a i) as [->|Na].
        - exists b. rewrite child_upd_other by auto; auto.
        - exists a. rewrite child_upd_other by auto; auto. }
      destruct (single_pos cs') as [pos|] eqn:SP.
      + destruct (single_pos_from_some _ _ _ SP) as [q [Eq [Lq [Nq Oq]]]]. cbn in Eq; subst q.
        destruct (negb (pos =? 16)) eqn:P16.
        * apply negb_true_iff, Nat.eqb_neq in P16. assert (P : pos < 16) by lia.
          pose proof (Cw pos P Nq) as Wp.
          destruct (child cs' pos) as [|vv|k2 c2|cs2] eqn:CP; injection H as _ <-.
          -- congruence.
          -- inversion Wp.
          -- inversion Wp; subst.
             ++ constructor. constructor; auto.
             ++ constructor; auto; [discriminate|constructor; auto].
          -- constructor; auto; [discriminate|constructor; [exact P|constructor]].
        * apply negb_false_iff, Nat.eqb_eq in P16. subst pos. injection H as _ <-.
          destruct C16 as [Q|[v Q]]; [congruence|]. rewrite Q. constructor. constructor.
      + injection H as _ <-.
        destruct (single_pos_from_none _ _ SP) as [A|T].
        * destruct Ex as [j Hj]. exfalso; apply Hj; auto.
        * constructor; auto.
  Qed.

  Lemma insert_wfc f n key v d nn :
    wfc n -> vkey key -> length key < f -> insert f n key (Value v) = (d, nn) -> wfc nn.
  Proof. intros; right; eapply insert_wf; eauto. Qed.

  Lemma delete_wfc f n key d nn :
    wfc n -> vkey key -> length key < f -> delete f n key = (d, nn) -> wfc nn.
  Proof.
    intros [->|Hn] Hk Hf H.
    - destruct f; cbn in H; injection H as _ <-; left; auto.
    - pose proof (delete_wf _ _ _ _ _ Hn Hk Hf H) as R. destruct n; auto. right; auto.
  Qed.
End WF.
