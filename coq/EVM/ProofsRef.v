(* EVM/ProofsRef.v — the interpreter model refines the independent reference semantics of RefSpec.v: for every program, state
   and amount of fuel, a finished run of Model.run is a run of the reference (same result class, return data, gas left, world),
   or the reference is silent because the run left the fragment. *)
From Coq Require Import ZArith List Bool Lia.
From Verif Require Import EVM.Word EVM.ProofsALU EVM.Model EVM.ProofsRun EVM.GasSpec EVM.ProofsGas EVM.RefSpec.
Import ListNotations.
Open Scope Z_scope.

Definition BOUND : Z := 1099511627744.

(* ------------------------------------------------------------------ tables *)
Lemma stack_req_ref i : in_fragment i = true -> stack_req i = (R_delta i, R_alpha i).
Proof. destruct i; try discriminate; try reflexivity. Qed.

(* ------------------------------------------------------------------ jump destinations *)
Lemma dropz_0 {A} (l : list A) : dropz 0 l = l.
Proof. destruct l; reflexivity. Qed.
Lemma zlen_dropz_cons {A} (l : list A) : forall i x t, dropz i l = x :: t -> 0 <= i -> dropz (i + 1) l = t.
Proof.
  induction l as [|y l IH]; intros i x t H Hi; cbn [dropz] in *. discriminate.
  destruct (Z.leb_spec i 0).
  - assert (i = 0) by lia. subst i. injection H as _ Ht. cbn. rewrite <- Ht. apply dropz_0.
  - destruct (Z.leb_spec (i + 1) 0); [lia|]. replace (i + 1 - 1) with (i - 1 + 1) by lia. apply IH with x; [exact H|lia].
Qed.
Lemma nthz_dropz (l : list Z) : forall i x t, dropz i l = x :: t -> 0 <= i -> nthz l i = x /\ i < zlen l.
Proof.
  induction l as [|y l IH]; intros i x t H Hi; cbn [dropz nthz zlen] in *. discriminate.
  pose proof (zlen_nonneg l).
  destruct (Z.leb_spec i 0).
  - inversion H; subst. split; [reflexivity|lia].
  - destruct (IH (i - 1) x t H ltac:(lia)). split; [assumption|lia].
Qed.
Lemma dropz_nil_ge (l : list Z) : forall i, dropz i l = [] -> zlen l <= i \/ l = [].
Proof.
  induction l as [|y l IH]; intros i H; [right; reflexivity|]. cbn [dropz zlen] in *.
  destruct (Z.leb_spec i 0); [discriminate|]. left. destruct (IH (i - 1) H) as [?| ->]; cbn [zlen]; lia.
Qed.

(* d is an instruction position reachable from the instruction position p *)
Inductive ipos_from (code : list Z) (p : Z) : Z -> Prop :=
  | IF_here : ipos_from code p p
  | IF_next d : 0 <= p < zlen code -> ipos_from code (p + 1 + operand_len (nthz code p)) d -> ipos_from code p d.

Lemma instr_pos_from code p d : instr_pos code p -> ipos_from code p d -> instr_pos code d.
Proof. intros Hp H. induction H; [exact Hp|]. apply IHipos_from. apply IP_next; assumption. Qed.
Lemma ipos_from_trans code p q d : ipos_from code p q -> ipos_from code q d -> ipos_from code p d.
Proof. intros H1 H2. induction H1; [exact H2|]. apply IF_next; auto. Qed.
Lemma instr_pos_is_from code d : instr_pos code d -> ipos_from code 0 d.
Proof.
  induction 1. apply IF_here. eapply ipos_from_trans; [exact IHinstr_pos|]. apply IF_next; [assumption|apply IF_here].
Qed.
Lemma operand_len_nonneg b : 0 <= operand_len b.
Proof. unfold operand_len. destruct ((96 <=? b) && (b <=? 127)) eqn:E; [|lia]. apply andb_prop in E. destruct E as [E _]. apply Z.leb_le in E. lia. Qed.
Lemma ipos_from_ge code p d : ipos_from code p d -> p <= d.
Proof. induction 1; [lia|]. pose proof (operand_len_nonneg (nthz code p)). lia. Qed.
(* from an instruction position p, a position d with p < d < next(p) is not an instruction position *)
Lemma ipos_from_skip code p d : ipos_from code p d -> p < d -> 0 <= p < zlen code ->
  p + 1 + operand_len (nthz code p) <= d.
Proof. intros H Hlt Hp. inversion H; subst; [lia|]. apply ipos_from_ge in H1. exact H1. Qed.

(* the scan of the model: suf = code from position i on; the next instruction starts at i + skip *)
Lemma is_code_from_spec code : forall suf i skip d, dropz i code = suf -> 0 <= i -> 0 <= skip -> i <= d ->
  (suf = [] -> zlen code <= i) ->
  is_code_from suf skip i d = true <-> (d < zlen code /\ ipos_from code (i + skip) d).
Proof.
  intros suf. induction suf as [|b suf IH]; intros i skip d Hd Hi Hs Hid Hnil.
  - cbn. split; [discriminate|]. intros (H & _). specialize (Hnil eq_refl). lia.
  - destruct (nthz_dropz code i b suf Hd Hi) as (Hb & Hlen).
    pose proof (zlen_dropz_cons code i b suf Hd Hi) as Hd'.
    assert (Hnil' : suf = [] -> zlen code <= i + 1).
    { intros ->. destruct (dropz_nil_ge code (i + 1) Hd') as [?| ->]; [lia|]. cbn in Hlen. lia. }
    cbn [is_code_from].
    destruct (Z.eqb_spec i d) as [->|Hne].
    + (* at the target *)
      split.
      * intros H. apply Z.eqb_eq in H. subst skip. rewrite Z.add_0_r. split; [lia|apply IF_here].
      * intros (_ & H). apply Z.eqb_eq. apply ipos_from_ge in H. lia.
    + destruct (Z.ltb_spec 0 skip).
      * rewrite (IH (i + 1) (skip - 1) d Hd' ltac:(lia) ltac:(lia) ltac:(lia) Hnil').
        replace (i + 1 + (skip - 1)) with (i + skip) by lia. reflexivity.
      * assert (skip = 0) by lia. subst skip. rewrite Z.add_0_r.
        change (if (96 <=? b) && (b <=? 127) then b - 95 else 0) with (operand_len b).
        rewrite (IH (i + 1) (operand_len b) d Hd' ltac:(lia) (operand_len_nonneg b) ltac:(lia) Hnil').
        rewrite <- Hb. split.
        -- intros (H1 & H2). split; [exact H1|]. apply IF_next; [lia|exact H2].
        -- intros (H1 & H2). split; [exact H1|]. inversion H2; subst; [lia|assumption].
Qed.

Lemma valid_jumpdest_ref cx d : c_codelen cx = zlen (c_code cx) -> zlen (c_code cx) < W64 -> 0 <= d ->
  valid_jumpdest cx d = true <-> R_valid_dest (c_code cx) d.
Proof.
  intros Hlen Hb Hd. unfold valid_jumpdest, R_valid_dest. rewrite Hlen.
  assert (Hspec : is_code_from (c_code cx) 0 0 d = true <-> d < zlen (c_code cx) /\ ipos_from (c_code cx) (0 + 0) d).
  { apply is_code_from_spec; try lia. destruct (c_code cx); [reflexivity|reflexivity]. intros ->. cbn. lia. }
  split.
  - intros H. apply andb_prop in H. destruct H as (H & H4). apply andb_prop in H. destruct H as (H & H3).
    apply andb_prop in H. destruct H as (H1 & H2). apply Z.ltb_lt in H2. apply Z.eqb_eq in H3.
    apply Hspec in H4. destruct H4 as (_ & H4). repeat split; try lia; try assumption.
    apply (instr_pos_from _ 0); [apply IP_start|exact H4].
  - intros (H1 & H2 & H3). apply instr_pos_is_from in H1.
    assert (H4 : is_code_from (c_code cx) 0 0 d = true) by (apply Hspec; split; [lia|exact H1]).
    rewrite H4. rewrite H3. replace (d <? W64) with true by (symmetry; apply Z.ltb_lt; lia).
    replace (d <? zlen (c_code cx)) with true by (symmetry; apply Z.ltb_lt; lia). reflexivity.
Qed.

(* ------------------------------------------------------------------ memory and gas *)
Lemma mem_cost_small w : 0 <= w <= 34359738367 -> 0 <= mem_cost w < 4611686018427387904.
Proof.
  intros H. unfold mem_cost. rewrite Z.pow_2_r.
  assert (0 <= w * w <= 34359738367 * 34359738367) by nia.
  assert (0 <= w * w / 512 <= 34359738367 * 34359738367 / 512).
  { split. apply Z.div_pos; lia. apply Z.div_le_mono; lia. }
  assert (E : 34359738367 * 34359738367 / 512 = 2305843009079476224) by reflexivity. lia.
Qed.

Lemma to_words_bound need : 0 <= need -> (to_words need * 32 <= BOUND <-> need <= BOUND).
Proof.
  intros H. unfold to_words, BOUND.
  pose proof (Z.div_mod (need + 31) 32 ltac:(lia)). pose proof (Z.mod_pos_bound (need + 31) 32 ltac:(lia)). lia.
Qed.

(* what the model computes for an access [off, off+len), against the specification *)
Lemma mem_facts ow off len (calc : option Z) :
  0 <= ow -> 32 * ow <= BOUND -> 0 <= off -> 0 <= len ->
  calc = (if W64 <=? len then None else if len =? 0 then Some 0 else if W64 <=? off then None
          else if W64 <=? off + len then None else Some (off + len)) ->
  (R_addressable off len ->
     exists need, calc = Some need /\ (W64 <=? to_words need * 32) = false /\
       mem_gas (32 * ow) (to_words need * 32) = Some (expansion_cost ow (words_after ow off len)) /\
       Z.max (32 * ow) (to_words need * 32) = 32 * words_after ow off len /\
       0 <= words_after ow off len <= 34359738367 /\ ow <= words_after ow off len) /\
  (~ R_addressable off len ->
     calc = None \/ exists need, calc = Some need /\
       ((W64 <=? to_words need * 32) = true \/ mem_gas (32 * ow) (to_words need * 32) = None)).
Proof.
  intros How Hb Hoff Hlen Hc. unfold R_addressable. fold BOUND.
  assert (HW : W64 = 18446744073709551616) by reflexivity.
  split.
  - intros Ha. destruct (Z.eq_dec len 0) as [->|Hl0].
    + exists 0. rewrite Hc. change (W64 <=? 0) with false. cbn [Z.eqb].
      change (to_words 0 * 32) with 0. change (W64 <=? 0) with false.
      unfold words_after. cbn [Z.eqb]. repeat split; try reflexivity; try (unfold BOUND in *; lia).
      unfold mem_gas. cbn [Z.eqb]. unfold expansion_cost. f_equal. lia.
    + destruct Ha as [?|Ha]; [lia|].
      exists (off + len). rewrite Hc.
      destruct (Z.leb_spec W64 len); [unfold BOUND in *; lia|]. destruct (Z.eqb_spec len 0); [lia|].
      destruct (Z.leb_spec W64 off); [unfold BOUND in *; lia|]. destruct (Z.leb_spec W64 (off + len)); [unfold BOUND in *; lia|].
      assert (Hn : to_words (off + len) * 32 <= BOUND) by (apply to_words_bound; lia).
      assert (Hwa : words_after ow off len = Z.max ow (to_words (off + len))).
      { unfold words_after, to_words. destruct (Z.eqb_spec len 0); [lia|reflexivity]. }
      rewrite Hwa. split; [reflexivity|]. split. { apply Z.leb_gt. unfold BOUND in *. lia. }
      split. { apply mem_gas_matches_spec; try lia. exact Hn. }
      pose proof (to_words_nonneg (off + len)). unfold BOUND in *. repeat split; try lia.
  - intros Hna. assert (Hl0 : len <> 0) by lia. assert (Hbig : BOUND < off + len) by lia.
    rewrite Hc. destruct (Z.leb_spec W64 len); [left; reflexivity|]. destruct (Z.eqb_spec len 0); [lia|].
    destruct (Z.leb_spec W64 off); [left; reflexivity|]. destruct (Z.leb_spec W64 (off + len)); [left; reflexivity|].
    right. exists (off + len). split; [reflexivity|].
    assert (Hn : BOUND < to_words (off + len) * 32). { pose proof (to_words_bound (off + len) ltac:(lia)). lia. }
    destruct (Z.leb_spec W64 (to_words (off + len) * 32)); [left; reflexivity|]. right.
    unfold mem_gas. destruct (Z.eqb_spec (to_words (off + len) * 32) 0); [unfold BOUND in *; lia|].
    fold BOUND. destruct (Z.ltb_spec BOUND (to_words (off + len) * 32)); [reflexivity|lia].
Qed.

(* ------------------------------------------------------------------ the model's pre-execution phase on the fragment *)
Definition cwf (cx : ctx) : Prop := c_codelen cx = zlen (c_code cx) /\ zlen (c_code cx) < W64.
Definition rinv (s : mstate) : Prop :=
  stack_ok (s_stack s) /\ (exists ow, 0 <= ow /\ s_msize s = 32 * ow /\ 32 * ow <= BOUND) /\ 0 <= s_gas s.

Definition calc_form (off len : Z) : option Z :=
  if W64 <=? len then None else if len =? 0 then Some 0 else if W64 <=? off then None
  else if W64 <=? off + len then None else Some (off + len).
Lemma mem_req_calc i st : in_fragment i = true ->
  mem_req i st = calc_form (fst (R_range i st)) (snd (R_range i st)).
Proof. destruct i; try discriminate; reflexivity. Qed.

Definition is_sstore (i : instr) : bool := match i with I_SSTORE => true | _ => false end.
Lemma pre_frag E cx s i : cwf cx -> decode_at (e_fork E) (fetch cx s) = Some i -> in_fragment i = true ->
  pre E cx s =
  (let st := s_stack s in
   if zlen st <? R_delta i then P_halt (fail E_underflow s)
   else if 1024 <? zlen st + R_alpha i - R_delta i then P_halt (fail E_overflow s)
   else if c_static cx && is_sstore i then P_halt (fail E_write s)
   else match mem_req i st with
        | None => P_halt (fail E_gasoverflow s)
        | Some need =>
            let newsize := to_words need * 32 in
            if W64 <=? newsize then P_halt (fail E_gasoverflow s)
            else match gas_cost cx s i newsize with
                 | None => P_halt (fail E_oog s)
                 | Some (cost, cg, w') =>
                     if s_gas s <? cost then P_halt (fail E_oog s)
                     else
                       let grow := (0 <? newsize) && (s_msize s <? newsize) in
                       let mem' := if grow then s_mem s ++ zeros (newsize - s_msize s) else s_mem s in
                       let msize' := if grow then newsize else s_msize s in
                       P_ok i (mkSt (s_pc s) st mem' msize' (s_gas s - cost) (s_ret s) w' (s_cc s)) cg
                 end
        end).
Proof.
  intros (Hlen & _) Hdec Hfrag. unfold pre. rewrite Hlen. fold (fetch cx s). rewrite Hdec.
  rewrite (stack_req_ref i Hfrag).
  destruct i; try discriminate; cbn [writes unsupported is_sstore orb andb]; rewrite ?andb_false_r; reflexivity.
Qed.

Definition ref_w1 (cx : ctx) (s : mstate) (i : instr) : world :=
  match i with
  | I_SSTORE =>
      if negb (sload (s_world s) (c_addr cx) (nthz (s_stack s) 0) =? 0) && (nthz (s_stack s) 1 =? 0)
      then add_refund (s_world s) 15000 else s_world s
  | _ => s_world s
  end.

Lemma exp_bytes_model e : 0 <= e -> (bit_len e + 7) / 8 = exp_bytes e.
Proof.
  intros He. unfold bit_len, exp_bytes. destruct (Z.leb_spec e 0); [reflexivity|].
  replace (Z.log2 e + 1 + 7) with (Z.log2 e + 1 * 8) by lia. rewrite Z.div_add by lia. reflexivity.
Qed.

Lemma gas_cost_frag cx s i ow newsize :
  in_fragment i = true -> stack_ok (s_stack s) -> s_msize s = 32 * ow -> 0 <= ow <= R_words s i -> R_words s i <= 34359738367 ->
  mem_gas (s_msize s) newsize = Some (expansion_cost ow (R_words s i)) ->
  gas_cost cx s i newsize = Some (R_cost cx s i, 0, ref_w1 cx s i).
Proof.
  intros Hfrag Hst Hms How Hw Hmg. unfold R_cost. rewrite Hms, (Z.mul_comm 32 ow), Z.div_mul by lia.
  pose proof (mem_cost_small ow ltac:(lia)) as B1. pose proof (mem_cost_small (R_words s i) ltac:(lia)) as B2.
  pose proof (ProofsGas.mem_cost_monotone ow (R_words s i) ltac:(lia)) as B3.
  assert (HW : W64 = 18446744073709551616) by reflexivity.
  set (x := expansion_cost ow (R_words s i)) in *. assert (Hx : 0 <= x < 4611686018427387904) by (unfold x, expansion_cost; lia).
  assert (Hadd : forall c, 0 <= c <= 1000 -> oadd (Some x) c = Some (x + c)).
  { intros c Hc. unfold oadd. destruct (Z.leb_spec W64 (x + c)); [lia|reflexivity]. }
  assert (Hx0 : R_range i (s_stack s) = (0, 0) -> x = 0).
  { intros E. unfold x, R_words. rewrite E. unfold words_after. cbn [Z.eqb].
    rewrite Hms, (Z.mul_comm 32 ow), Z.div_mul by lia. unfold expansion_cost. lia. }
  rewrite Hms in Hmg.
  destruct i; try discriminate; cbn [gas_cost R_instr_cost ref_w1]; rewrite ?Hms, ?Hmg, ?Hadd by lia;
    try (rewrite (Hx0 eq_refl));
    unfold G_zero, G_base, G_verylow, G_low, G_mid, G_high, G_jumpdest, G_sload;
    try (rewrite ?Z.add_0_r, ?Z.add_0_l; reflexivity); try (rewrite (Z.add_comm _ x); reflexivity).
  - (* ALU *) destruct a; cbn [alu_gas]; unfold G_verylow, G_low, G_mid, G_exp, G_expbyte; try (rewrite ?Z.add_0_r; reflexivity).
    rewrite exp_bytes_model by (apply nthz_ok; assumption).
    replace (10 + 50 * exp_bytes (nthz (s_stack s) 1) + 0) with (10 + exp_bytes (nthz (s_stack s) 1) * 50) by lia. reflexivity.
  - (* SSTORE *)
    unfold G_sset, G_sreset.
    destruct (sload (s_world s) (c_addr cx) (nthz (s_stack s) 0) =? 0) eqn:Ec; destruct (nthz (s_stack s) 1 =? 0) eqn:Ey;
      cbn [negb andb]; rewrite ?Z.add_0_r; reflexivity.
Qed.

Lemma range_nonneg i st : stack_ok st -> 0 <= fst (R_range i st) /\ 0 <= snd (R_range i st).
Proof.
  intros H. pose proof (nthz_ok st H 0) as [? _]. pose proof (nthz_ok st H 1) as [? _].
  destruct i; cbn [R_range fst snd]; lia.
Qed.

(* the first five disjuncts of Z: everything that is decided before the instruction executes *)
Definition pre_exc (cx : ctx) (s : mstate) (i : instr) : Prop :=
  let st := s_stack s in
  zlen st < R_delta i \/ 1024 < zlen st - R_delta i + R_alpha i \/ (c_static cx = true /\ i = I_SSTORE) \/
  ~ R_addressable (fst (R_range i st)) (snd (R_range i st)) \/ s_gas s < R_cost cx s i.

Lemma frag_pre E cx s i : cwf cx -> rinv s -> decode_at (e_fork E) (fetch cx s) = Some i -> in_fragment i = true ->
  (pre_exc cx s i /\ exists e, pre E cx s = P_halt (fail e s)) \/
  (~ pre_exc cx s i /\
   pre E cx s = P_ok i (mkSt (s_pc s) (s_stack s) (R_mem s i) (Z.max (s_msize s) (32 * R_words s i))
                             (s_gas s - R_cost cx s i) (s_ret s) (ref_w1 cx s i) (s_cc s)) 0 /\
   32 * R_words s i <= BOUND /\ 0 <= R_words s i).
Proof.
  intros Hc (Hst & (ow & How & Hms & Hb) & Hg) Hdec Hfrag.
  rewrite (pre_frag E cx s i Hc Hdec Hfrag). cbv zeta. unfold pre_exc.
  destruct (Z.ltb_spec (zlen (s_stack s)) (R_delta i)). { left. split; [left; assumption|eexists; reflexivity]. }
  destruct (Z.ltb_spec 1024 (zlen (s_stack s) + R_alpha i - R_delta i)). { left. split; [right; left; lia|eexists; reflexivity]. }
  destruct (c_static cx && is_sstore i) eqn:Est.
  { left. apply andb_prop in Est. destruct Est as (E1 & E2). split; [|eexists; reflexivity].
    right; right; left. split; [exact E1|]. destruct i; try discriminate; reflexivity. }
  assert (Hnst : ~ (c_static cx = true /\ i = I_SSTORE)).
  { intros (E1 & ->). rewrite E1 in Est. discriminate. }
  destruct (range_nonneg i (s_stack s) Hst) as (Hoff & Hlen).
  set (off := fst (R_range i (s_stack s))) in *. set (len := snd (R_range i (s_stack s))) in *.
  assert (Hrw : R_words s i = words_after ow off len).
  { unfold R_words, off, len. destruct (R_range i (s_stack s)) as [o l]. cbn [fst snd].
    rewrite Hms, (Z.mul_comm 32 ow), Z.div_mul by lia. reflexivity. }
  destruct (mem_facts ow off len (mem_req i (s_stack s)) How Hb Hoff Hlen (mem_req_calc i (s_stack s) Hfrag)) as (Hyes & Hno).
  assert (Hdec_a : R_addressable off len \/ ~ R_addressable off len).
  { unfold R_addressable. destruct (Z.eq_dec len 0); [left; left; assumption|].
    destruct (Z_le_dec (off + len) 1099511627744); [left; right; assumption|right; intros [?|?]; lia]. }
  destruct Hdec_a as [Ha|Hna].
  - destruct (Hyes Ha) as (need & Ecalc & Ew64 & Emg & Emax & Hwb & Hge).
    rewrite Ecalc, Ew64. rewrite <- Hms in Emg. rewrite <- Hrw in Emg.
    rewrite (gas_cost_frag cx s i ow (to_words need * 32) Hfrag Hst Hms ltac:(lia) ltac:(lia) Emg).
    destruct (Z.ltb_spec (s_gas s) (R_cost cx s i)).
    { left. split; [right; right; right; right; assumption|eexists; reflexivity]. }
    right. split. { intros [?|[?|[?|[?|?]]]]; try lia; contradiction. }
    split; [|rewrite Hrw; unfold BOUND; lia].
    f_equal. f_equal.
    + (* memory *)
      unfold R_mem. rewrite Hrw, <- Emax, Hms.
      destruct (Z_lt_dec (32 * ow) (to_words need * 32)).
      * assert (E1 : (32 * ow <? to_words need * 32) = true) by (apply Z.ltb_lt; lia).
        assert (E2 : (0 <? to_words need * 32) = true) by (apply Z.ltb_lt; lia).
        rewrite Z.max_r by lia. rewrite ?E1, ?E2. reflexivity.
      * assert (E1 : (32 * ow <? to_words need * 32) = false) by (apply Z.ltb_ge; lia).
        assert (E3 : (32 * ow <? 32 * ow) = false) by (apply Z.ltb_ge; lia).
        rewrite Z.max_l by lia. rewrite ?E1, ?E3, ?andb_false_r. reflexivity.
    + (* size *)
      rewrite Hrw, <- Emax, Hms.
      destruct (Z_lt_dec (32 * ow) (to_words need * 32)).
      * assert (E1 : (32 * ow <? to_words need * 32) = true) by (apply Z.ltb_lt; lia).
        assert (E2 : (0 <? to_words need * 32) = true) by (apply Z.ltb_lt; lia).
        rewrite !Z.max_r by lia. rewrite ?E1, ?E2. reflexivity.
      * assert (E1 : (32 * ow <? to_words need * 32) = false) by (apply Z.ltb_ge; lia).
        rewrite !Z.max_l by lia. rewrite ?E1, ?andb_false_r. reflexivity.
  - left. split; [right; right; right; left; exact Hna|].
    destruct (Hno Hna) as [Em|(need & Em & [E2|E2])].
    + rewrite Em. eexists; reflexivity.
    + rewrite Em, E2. eexists; reflexivity.
    + rewrite Em. destruct (W64 <=? to_words need * 32); [eexists; reflexivity|].
      assert (Hgc : gas_cost cx s i (to_words need * 32) = None).
      { rewrite <- Hms in E2. destruct i; try discriminate; cbn [gas_cost]; rewrite ?E2; try reflexivity;
          exfalso; apply Hna; left; reflexivity. }
      rewrite Hgc. eexists; reflexivity.
Qed.

(* ------------------------------------------------------------------ execution of a fragment instruction *)
Lemma exc_split cx s i : R_exceptional cx s i <->
  pre_exc cx s i \/ (i = I_JUMP /\ ~ R_valid_dest (c_code cx) (nthz (s_stack s) 0)) \/
  (i = I_JUMPI /\ nthz (s_stack s) 1 <> 0 /\ ~ R_valid_dest (c_code cx) (nthz (s_stack s) 0)).
Proof. unfold R_exceptional, pre_exc. cbv zeta. tauto. Qed.

Lemma alu_arity_delta op : alu_arity op = R_delta (I_ALU op).
Proof. destruct op; reflexivity. Qed.

Lemma sload_sstore w a k v a' k' :
  sload (sstore w a k v) a' k' = if (a' =? a) && (k' =? k) then v else sload w a' k'.
Proof.
  unfold sload, sstore, set_store. cbn [w_store sload_l].
  rewrite (Z.eqb_sym a a'), (Z.eqb_sym k k'). reflexivity.
Qed.

Definition frag_s1 (cx : ctx) (s : mstate) (i : instr) : mstate :=
  mkSt (s_pc s) (s_stack s) (R_mem s i) (Z.max (s_msize s) (32 * R_words s i)) (s_gas s - R_cost cx s i) (s_ret s)
       (ref_w1 cx s i) (s_cc s).

Ltac eff_start := unfold R_effect; cbv zeta; cbn [s_gas s_msize s_ret s_cc s_pc s_stack s_mem s_world frag_s1 upd].

Lemma frag_exec E cx s i : cwf cx -> rinv s -> in_fragment i = true -> ~ pre_exc cx s i ->
  32 * R_words s i <= BOUND -> 0 <= R_words s i ->
  (R_exceptional cx s i /\ exists e, exec_plain E cx i (frag_s1 cx s i) = fail e (frag_s1 cx s i)) \/
  (~ R_exceptional cx s i /\ exists o data,
     ((i = I_STOP /\ o = O_ok /\ data = []) \/
      (i = I_RETURN /\ o = O_ok /\ data = mslice (R_mem s i) (nthz (s_stack s) 0) (nthz (s_stack s) 1)) \/
      (i = I_REVERT /\ o = O_revert /\ data = mslice (R_mem s i) (nthz (s_stack s) 0) (nthz (s_stack s) 1))) /\
     exec_plain E cx i (frag_s1 cx s i) = S_halt (mkRes o data (s_gas s - R_cost cx s i) (s_world s) (s_cc s))) \/
  (~ R_exceptional cx s i /\ i <> I_STOP /\ i <> I_RETURN /\ i <> I_REVERT /\
   exists s2, exec_plain E cx i (frag_s1 cx s i) = S_next s2 /\ R_effect E cx s i s2 /\ rinv s2).
Proof.
  intros (Hclen & Hcb) (Hst & (ow & How & Hms & Hb) & Hg) Hfrag Hnpre Hwb Hw0.
  assert (Hgas : R_cost cx s i <= s_gas s). { unfold pre_exc in Hnpre. cbv zeta in Hnpre. lia. }
  assert (Hnj : i <> I_JUMP -> i <> I_JUMPI -> ~ R_exceptional cx s i).
  { intros N1 N2 Hx. apply exc_split in Hx. destruct Hx as [?|[(?&_)|(?&_)]]; contradiction. }
  pose proof (nthz_ok _ Hst) as Hn. pose proof (dropz_ok _ Hst) as Hd.
  assert (Hinv2 : forall pc' st' mem' w', stack_ok st' ->
            rinv (mkSt pc' st' mem' (Z.max (s_msize s) (32 * R_words s i)) (s_gas s - R_cost cx s i) (s_ret s) w' (s_cc s))).
  { intros. unfold rinv. cbn [s_stack s_msize s_gas]. split; [assumption|]. split; [|lia].
    exists (Z.max ow (R_words s i)). rewrite Hms. unfold BOUND in *. lia. }
  destruct i; try discriminate;
    try (match goal with |- context [exec_plain _ _ ?ins _] =>
           lazymatch ins with
           | I_ADDRESS => idtac
           | I_ORIGIN => idtac
           | I_CALLER => idtac
           | I_CALLVALUE => idtac
           | I_CALLDATASIZE => idtac
           | I_CALLDATALOAD => idtac
           | I_CODESIZE => idtac
           | I_GASPRICE => idtac
           | I_RETURNDATASIZE => idtac
           | I_COINBASE => idtac
           | I_TIMESTAMP => idtac
           | I_NUMBER => idtac
           | I_DIFFICULTY => idtac
           | I_GASLIMIT => idtac
           | I_CHAINID => idtac
           | I_BASEFEE => idtac
           | _ => fail
           end end;
         right; right; split; [apply Hnj; discriminate|]; repeat split; try discriminate;
         eexists; split; [reflexivity|]; split;
         [eff_start; unfold pushw; rewrite wrap_mod, ?Hclen; repeat split; reflexivity
         |apply Hinv2; apply pushw_ok; first [apply Hd|apply Hst]]).
  - (* STOP *) right; left. split; [apply Hnj; discriminate|]. exists O_ok, []. split; [left; auto|reflexivity].
  - (* ALU *) right; right. split; [apply Hnj; discriminate|]. repeat split; try discriminate.
    eexists. split; [reflexivity|]. split.
    + eff_start. unfold pushw. rewrite wrap_mod, alu_matches_math_lemma by apply Hn. rewrite alu_arity_delta.
      repeat split; reflexivity.
    + apply Hinv2; apply pushw_ok, Hd.
  - (* POP *) right; right. split; [apply Hnj; discriminate|]. repeat split; try discriminate.
    eexists. split; [reflexivity|]. split; [eff_start; repeat split; reflexivity|apply Hinv2; apply Hd].
  - (* MLOAD *) right; right. split; [apply Hnj; discriminate|]. repeat split; try discriminate.
    eexists. split; [reflexivity|]. split.
    + eff_start. unfold pushw. rewrite wrap_mod. repeat split; reflexivity.
    + apply Hinv2; apply pushw_ok, Hd.
  - (* MSTORE *) right; right. split; [apply Hnj; discriminate|]. repeat split; try discriminate.
    eexists. split; [reflexivity|]. split; [eff_start; repeat split; reflexivity|apply Hinv2; apply Hd].
  - (* MSTORE8 *) right; right. split; [apply Hnj; discriminate|]. repeat split; try discriminate.
    eexists. split; [reflexivity|]. split.
    + eff_start. change 255 with (Z.ones 8). rewrite Z.land_ones by lia. repeat split; reflexivity.
    + apply Hinv2; apply Hd.
  - (* SLOAD *) right; right. split; [apply Hnj; discriminate|]. repeat split; try discriminate.
    eexists. split; [reflexivity|]. split.
    + eff_start. unfold pushw. rewrite wrap_mod. cbn [ref_w1]. repeat split; reflexivity.
    + apply Hinv2; apply pushw_ok, Hd.
  - (* SSTORE *) right; right. split; [apply Hnj; discriminate|]. repeat split; try discriminate.
    eexists. split; [reflexivity|]. split.
    + eff_start. repeat split; try reflexivity.
      * intros a' k'. rewrite sload_sstore. cbn [ref_w1].
        destruct (negb _ && _); reflexivity.
      * cbn [ref_w1]. rewrite andb_comm.
        destruct ((nthz (s_stack s) 1 =? 0) && negb (sload (s_world s) (c_addr cx) (nthz (s_stack s) 0) =? 0));
          cbn; unfold R_sclear; lia.
      * cbn [ref_w1]. destruct (negb _ && _); reflexivity.
      * cbn [ref_w1]. destruct (negb _ && _); reflexivity.
      * cbn [ref_w1]. destruct (negb _ && _); reflexivity.
      * cbn [ref_w1]. destruct (negb _ && _); reflexivity.
    + apply Hinv2; apply Hd.
  - (* JUMP *)
    cbn [exec_plain]. cbn [frag_s1 s_stack].
    pose proof (valid_jumpdest_ref cx (nthz (s_stack s) 0) Hclen Hcb (proj1 (Hn 0))) as Hv.
    destruct (valid_jumpdest cx (nthz (s_stack s) 0)) eqn:Ev.
    + right; right. assert (Hvd : R_valid_dest (c_code cx) (nthz (s_stack s) 0)) by (apply Hv; reflexivity).
      split. { intros Hx. apply exc_split in Hx. destruct Hx as [?|[(_&?)|(?&_)]]; [contradiction|contradiction|discriminate]. }
      repeat split; try discriminate. eexists. split; [reflexivity|]. split.
      * eff_start. repeat split; reflexivity.
      * apply Hinv2; apply Hd.
    + left. split. { apply exc_split. right; left. split; [reflexivity|]. intros Hvd. apply Hv in Hvd. congruence. }
      eexists; reflexivity.
  - (* JUMPI *)
    cbn [exec_plain]. cbn [frag_s1 s_stack].
    pose proof (valid_jumpdest_ref cx (nthz (s_stack s) 0) Hclen Hcb (proj1 (Hn 0))) as Hv.
    destruct (Z.eqb_spec (nthz (s_stack s) 1) 0) as [Ez|Enz]; cbn [negb].
    + right; right.
      split. { intros Hx. apply exc_split in Hx. destruct Hx as [?|[(?&_)|(_&?&_)]]; [contradiction|discriminate|contradiction]. }
      repeat split; try discriminate. eexists. split; [reflexivity|]. split.
      * eff_start. rewrite Ez. cbn [Z.eqb]. repeat split; reflexivity.
      * apply Hinv2; apply Hd.
    + destruct (valid_jumpdest cx (nthz (s_stack s) 0)) eqn:Ev.
      * right; right. assert (Hvd : R_valid_dest (c_code cx) (nthz (s_stack s) 0)) by (apply Hv; reflexivity).
        split. { intros Hx. apply exc_split in Hx. destruct Hx as [?|[(?&_)|(_&_&?)]]; [contradiction|discriminate|contradiction]. }
        repeat split; try discriminate. eexists. split; [reflexivity|]. split.
        -- eff_start. destruct (Z.eqb_spec (nthz (s_stack s) 1) 0); [contradiction|]. repeat split; reflexivity.
        -- apply Hinv2; apply Hd.
      * left. split. { apply exc_split. right; right. repeat split; try assumption. intros Hvd. apply Hv in Hvd. congruence. }
        eexists; reflexivity.
  - (* PC *) right; right. split; [apply Hnj; discriminate|]. repeat split; try discriminate.
    eexists. split; [reflexivity|]. split.
    + eff_start. unfold pushw. rewrite wrap_mod. repeat split; reflexivity.
    + apply Hinv2; apply pushw_ok, Hst.
  - (* MSIZE *) right; right. split; [apply Hnj; discriminate|]. repeat split; try discriminate.
    eexists. split; [reflexivity|]. split.
    + eff_start. unfold pushw. rewrite wrap_mod.
      assert (Ew : R_words s I_MSIZE = ow).
      { unfold R_words. cbn [R_range]. unfold words_after. cbn [Z.eqb]. rewrite Hms, (Z.mul_comm 32 ow), Z.div_mul by lia. reflexivity. }
      rewrite Ew, Hms, Z.max_id. repeat split; try reflexivity.
    + apply Hinv2; apply pushw_ok, Hst.
  - (* GAS *) right; right. split; [apply Hnj; discriminate|]. repeat split; try discriminate.
    eexists. split; [reflexivity|]. split.
    + eff_start. unfold pushw. rewrite wrap_mod. repeat split; reflexivity.
    + apply Hinv2; apply pushw_ok, Hst.
  - (* JUMPDEST *) right; right. split; [apply Hnj; discriminate|]. repeat split; try discriminate.
    eexists. split; [reflexivity|]. split; [eff_start; cbn [R_delta]; rewrite dropz_0; repeat split; reflexivity|apply Hinv2; apply Hst].
  - (* PUSH *) right; right. split; [apply Hnj; discriminate|]. repeat split; try discriminate.
    eexists. split; [reflexivity|]. split.
    + eff_start. unfold pushw. rewrite wrap_mod. repeat split; reflexivity.
    + apply Hinv2; apply pushw_ok, Hst.
  - (* DUP *) right; right. split; [apply Hnj; discriminate|]. repeat split; try discriminate.
    eexists. split; [reflexivity|]. split.
    + eff_start. unfold pushw. rewrite wrap_mod. repeat split; reflexivity.
    + apply Hinv2; apply pushw_ok, Hst.
  - (* SWAP *) right; right. split; [apply Hnj; discriminate|]. repeat split; try discriminate.
    eexists. split; [reflexivity|]. split.
    + eff_start. repeat split; reflexivity.
    + apply Hinv2; apply swap_ok, Hst.
  - (* RETURN *) right; left. split; [apply Hnj; discriminate|]. eexists O_ok, _. split; [right; left; auto|reflexivity].
  - (* REVERT *) right; left. split; [apply Hnj; discriminate|]. eexists O_revert, _. split; [right; right; auto|reflexivity].
Qed.

(* ------------------------------------------------------------------ refinement *)
Definition res_matches (r : fres) (rr : rres) : Prop :=
  match rr with
  | RR_outside _ _ => True
  | RR_fail => exists e, r_out r = O_err e
  | RR_done o d g w => r_out r = o /\ r_data r = d /\ r_gas r = g /\ r_world r = w
  end.

Lemma nthz_in (l : list Z) : forall i, In (nthz l i) (0 :: l).
Proof.
  induction l as [|x l IH]; intros i; cbn [nthz]. left; reflexivity.
  destruct (i <=? 0). right; left; reflexivity. destruct (IH (i - 1)) as [E|Hin]; [left; exact E|right; right; exact Hin].
Qed.
Lemma fetch_in cx s : In (fetch cx s) (0 :: c_code cx).
Proof. unfold fetch. destruct (s_pc s <? zlen (c_code cx)); [apply nthz_in|left; reflexivity]. Qed.

(* the reference is silent (RR_outside) only if the code contains a byte that decodes to an instruction outside the fragment *)
Definition leaves_fragment (E : env) (cx : ctx) : Prop :=
  exists b i, In b (0 :: c_code cx) /\ decode_at (e_fork E) b = Some i /\ in_fragment i = false.

Theorem run_refines_reference fuel : forall E cx s, cwf cx -> rinv s -> r_out (run fuel E cx s) <> O_fuel ->
  exists rr, ref_run E cx s rr /\ res_matches (run fuel E cx s) rr /\ (forall pc i, rr = RR_outside pc i -> leaves_fragment E cx).
Proof.
  induction fuel as [|f IH]; intros E cx s Hc Hinv Hnf. { cbn in Hnf. congruence. }
  cbn [run] in *.
  destruct (decode_at (e_fork E) (fetch cx s)) as [i|] eqn:Hdec.
  2:{ (* invalid opcode *)
      assert (Hpre : pre E cx s = P_halt (fail E_invalid s)).
      { unfold pre. rewrite (proj1 Hc). fold (fetch cx s). rewrite Hdec. reflexivity. }
      exists RR_fail. split; [apply RRun_stop, RS_invalid; exact Hdec|]. split; [|discriminate].
      unfold step. rewrite Hpre. cbn. eexists; reflexivity. }
  destruct (in_fragment i) eqn:Hfrag.
  2:{ exists (RR_outside (s_pc s) i). split; [apply RRun_stop; eapply RS_outside; eassumption|]. split; [exact I|].
      intros _ _ _. exists (fetch cx s), i. split; [apply fetch_in|]. split; assumption. }
  destruct (frag_pre E cx s i Hc Hinv Hdec Hfrag) as [(Hexc & e & Hpre)|(Hnexc & Hpre & Hwb & Hw0)].
  - exists RR_fail. split.
    + apply RRun_stop. eapply RS_exc; [eassumption|assumption|]. apply exc_split. left; exact Hexc.
    + split; [|discriminate]. unfold step. rewrite Hpre. cbn. eexists; reflexivity.
  - fold (frag_s1 cx s i) in Hpre.
    assert (Hstep : forall runf, step runf E cx s = exec_plain E cx i (frag_s1 cx s i)).
    { intros runf. unfold step. rewrite Hpre. destruct i; try discriminate; reflexivity. }
    rewrite Hstep in *.
    destruct (frag_exec E cx s i Hc Hinv Hfrag Hnexc Hwb Hw0) as [(Hx & e & Hex)|[(Hnx & o & data & Hcase & Hex)|(Hnx & N1 & N2 & N3 & s2 & Hex & Heff & Hinv2)]].
    + exists RR_fail. split; [apply RRun_stop; eapply RS_exc; eassumption|]. split; [|discriminate]. rewrite Hex. cbn. eexists. reflexivity.
    + exists (RR_done o data (s_gas s - R_cost cx s i) (s_world s)). split.
      * apply RRun_stop. eapply RS_halt; eassumption.
      * split; [|discriminate]. rewrite Hex. cbn. repeat split; reflexivity.
    + rewrite Hex in *. destruct (IH E cx s2 Hc Hinv2 Hnf) as (rr & Hrun & Hm).
      exists rr. split; [|exact Hm]. eapply RRun_step; [|exact Hrun]. eapply RS_ok; eassumption.
Qed.

(* the entry frame of a call starts in a state satisfying the invariant *)
Lemma initial_rinv gas w cc : 0 <= gas -> rinv (mkSt 0 [] [] 0 gas [] w cc).
Proof. intros. unfold rinv. cbn. split; [constructor|]. split; [exists 0; unfold BOUND; lia|lia]. Qed.

(* ------------------------------------------------------------------ lift to the entry call *)
(* what the caller of a frame observes for a reference result: success keeps the frame's world; REVERT keeps data and gas but
   restores the entry world w; an exceptional halt yields no data, no gas and the entry world *)
Definition call_matches (w : world) (r : fres) (rr : rres) : Prop :=
  match rr with
  | RR_outside _ _ => True
  | RR_fail => (exists e, r_out r = O_err e) /\ r_data r = [] /\ r_gas r = 0 /\ r_world r = w
  | RR_done O_ok d g w' => r_out r = O_ok /\ r_data r = d /\ r_gas r = g /\ r_world r = w'
  | RR_done O_revert d g _ => r_out r = O_revert /\ r_data r = d /\ r_gas r = g /\ r_world r = w
  | RR_done _ _ _ _ => True
  end.

Theorem call_top_refines_reference fuel E static to v input gas w :
  let w1 := transfer w (e_origin E) to v in
  let code := code_of w1 to in
  let cx0 := mkCtx to (e_origin E) v code (zlen code) input static 1 in
  let s0 := mkSt 0 [] [] 0 gas [] w1 0 in
  (negb (v =? 0) && (balance w (e_origin E) <? v)) = false ->        (* the origin can pay the value *)
  precompile E to = false ->
  (negb (exists_acct w to) && (v =? 0)) = false ->                    (* not the "no such account" shortcut *)
  code <> [] -> zlen code < W64 -> 0 <= gas ->
  r_out (call_top fuel E static to v input gas w) <> O_fuel ->
  exists rr, ref_run E cx0 s0 rr /\ call_matches w (call_top fuel E static to v input gas w) rr /\
             (forall pc i, rr = RR_outside pc i -> leaves_fragment E cx0).
Proof.
  cbv zeta. intros Hbal Hpre Hex Hcode Hlen Hgas Hnf.
  unfold call_top, do_call in *. change (1024 <? 0) with false in *. cbv iota in *.
  rewrite Hbal, Hpre in *. cbn [andb] in *. rewrite Hex in *.
  set (w1 := transfer w (e_origin E) to v) in *.
  destruct (code_of w1 to) as [|b0 code'] eqn:Ecode; [congruence|].
  change (0 + 1) with 1 in *.
  set (cx0 := mkCtx to (e_origin E) v (b0 :: code') (zlen (b0 :: code')) input static 1) in *.
  set (s0 := mkSt 0 [] [] 0 gas [] w1 0) in *.
  assert (Hc : cwf cx0) by (split; [reflexivity|exact Hlen]).
  assert (Hnf0 : r_out (run fuel E cx0 s0) <> O_fuel).
  { intros Hf. rewrite Hf in Hnf. apply Hnf. reflexivity. }
  destruct (run_refines_reference fuel E cx0 s0 Hc (initial_rinv gas w1 0 Hgas) Hnf0) as (rr & Hrun & Hm & Hout).
  exists rr. split; [exact Hrun|]. split; [|exact Hout].
  destruct rr as [|pc i|o d g w']; cbn [res_matches call_matches] in *.
  - destruct Hm as (e & He). rewrite He. cbn. repeat split; try reflexivity. eexists; reflexivity.
  - exact I.
  - destruct Hm as (Ho & Hd & Hg & Hw). destruct o; try exact I.
    + rewrite Ho. repeat split; assumption.
    + rewrite Ho. cbn. repeat split; try assumption; reflexivity.
Qed.
