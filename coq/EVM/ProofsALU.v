(* EVM/ProofsALU.v — every ALU instruction of the interpreter (Word.v, prefix i_) equals its mathematical definition
   (prefix m_) on all 256-bit operands.  Algebraic proofs (Z.div / Z.modulo / Z.quot / Z.rem / bit lemmas); no sampling. *)
From Coq Require Import ZArith Lia Bool Zpow_facts.
From Verif Require Import EVM.Word.
Open Scope Z_scope.

Lemma W_eq : W = 2 ^ 256. Proof. reflexivity. Qed.
Lemma HALF_eq : HALF = 2 ^ 255. Proof. reflexivity. Qed.
Lemma W64_eq : W64 = 2 ^ 64. Proof. reflexivity. Qed.
Lemma W_half : W = 2 * HALF. Proof. reflexivity. Qed.
Lemma MASK_ones : MASK = Z.ones 256. Proof. reflexivity. Qed.
Lemma HALF_pos : 0 < HALF. Proof. reflexivity. Qed.
Lemma W_pos : 0 < W. Proof. reflexivity. Qed.
Lemma wrap_mod x : wrap x = x mod W.
Proof. unfold wrap. rewrite MASK_ones, Z.land_ones by lia. rewrite W_eq. reflexivity. Qed.
Global Opaque W HALF W64 MASK.

Ltac bdestruct :=
  repeat match goal with
  | |- context [?x =? ?y] => destruct (Z.eqb_spec x y)
  | |- context [?x <? ?y] => destruct (Z.ltb_spec x y)
  | |- context [?x <=? ?y] => destruct (Z.leb_spec x y)
  end.

Lemma mod_small_W v : 0 <= v < W -> v mod W = v.
Proof. intros; apply Z.mod_small; lia. Qed.
Lemma div_bound a b : 0 <= a -> 0 < b -> 0 <= a / b <= a.
Proof.
  intros Ha Hb. split. apply Z.div_pos; lia.
  apply Z.div_le_upper_bound; nia.
Qed.
Lemma u_div_spec x y : 0 <= x -> 0 <= y -> u_div x y = if y =? 0 then 0 else x / y.
Proof.
  intros Hx Hy. unfold u_div. destruct (Z.eqb_spec y 0) as [->|Hy0]; [reflexivity|]. cbn [orb].
  destruct (Z.ltb_spec x y). { symmetry; apply Z.div_small; lia. }
  destruct (Z.eqb_spec x y) as [->|]. { symmetry; apply Z_div_same_full; lia. } reflexivity.
Qed.
Lemma u_mod_spec x y : 0 <= x -> 0 <= y -> u_mod x y = if y =? 0 then 0 else x mod y.
Proof.
  intros Hx Hy. unfold u_mod. destruct (Z.eqb_spec y 0) as [->|Hy0].
  { rewrite orb_true_r. reflexivity. }
  destruct (Z.eqb_spec x 0) as [->|Hx0]; cbn [orb]. { symmetry; apply Z.mod_0_l; lia. }
  destruct (Z.compare_spec x y) as [->|Hlt|Hgt].
  - symmetry; apply Z_mod_same_full.
  - symmetry; apply Z.mod_small; lia.
  - reflexivity.
Qed.
Lemma u_neg_0 : u_neg 0 = 0. Proof. reflexivity. Qed.
Lemma u_neg_pos x : 0 < x < W -> u_neg x = W - x.
Proof.
  intros H. unfold u_neg, u_sub. rewrite wrap_mod. symmetry. apply Zmod_unique with (-1); lia.
Qed.
Lemma u_neg_opp x : u_neg x = (- x) mod W.
Proof. unfold u_neg, u_sub. rewrite wrap_mod. f_equal. Qed.
Lemma signed_lo x : x < HALF -> signed x = x.
Proof. unfold signed. destruct (Z.ltb_spec x HALF); lia. Qed.
Lemma signed_hi x : HALF <= x -> signed x = x - W.
Proof. unfold signed. destruct (Z.ltb_spec x HALF); lia. Qed.
Lemma u_sign_0 : u_sign 0 = 0. Proof. reflexivity. Qed.
Lemma u_sign_pos x : 0 < x < HALF -> u_sign x = 1.
Proof. intros. unfold u_sign. bdestruct; lia. Qed.
Lemma u_sign_neg x : HALF <= x -> u_sign x = -1.
Proof. intros. pose proof HALF_pos. unfold u_sign. bdestruct; lia. Qed.

Lemma add_ok a b : i_add a b = m_add a b.
Proof. unfold i_add, u_add, m_add. apply wrap_mod. Qed.
Lemma mul_ok a b : i_mul a b = m_mul a b.
Proof. unfold i_mul, u_mul, m_mul. apply wrap_mod. Qed.
Lemma sub_ok a b : i_sub a b = m_sub a b.
Proof. unfold i_sub, u_sub, m_sub. apply wrap_mod. Qed.
Lemma div_ok a b : in_word a -> in_word b -> i_div a b = m_div a b.
Proof. intros [? ?] [? ?]. unfold i_div, m_div. apply u_div_spec; lia. Qed.
Lemma mod_ok a b : in_word a -> in_word b -> i_mod a b = m_mod a b.
Proof. intros [? ?] [? ?]. unfold i_mod, m_mod. apply u_mod_spec; lia. Qed.

Lemma u_div_0_r x : u_div x 0 = 0. Proof. reflexivity. Qed.
Lemma u_div_0_l y : 0 <= y -> u_div 0 y = 0.
Proof. intros. rewrite u_div_spec by lia. destruct (y =? 0); reflexivity. Qed.
Lemma u_mod_0_r x : u_mod x 0 = 0. Proof. unfold u_mod. rewrite orb_true_r. reflexivity. Qed.
Lemma u_mod_0_l y : u_mod 0 y = 0. Proof. reflexivity. Qed.

Lemma sdiv_ok a b : in_word a -> in_word b -> i_sdiv a b = m_sdiv a b.
Proof.
  intros [Ha1 Ha2] [Hb1 Hb2]. pose proof W_half as HW. pose proof HALF_pos as HP.
  unfold i_sdiv, m_sdiv, u_sdiv.
  destruct (Z.eqb_spec b 0) as [->|Hb0].
  { rewrite u_sign_0. change (0 <? 0) with false. cbv iota.
    destruct (0 <? u_sign a); rewrite ?u_neg_0, ?u_div_0_r; reflexivity. }
  assert (Hq : forall q, 0 <= q < W -> q mod W = q) by (intros; apply Z.mod_small; lia).
  destruct (Z.eq_dec a 0) as [->|Ha0].
  { rewrite u_sign_0. change (0 <? 0) with false. cbv iota. rewrite u_neg_0.
    rewrite (signed_lo 0) by lia.
    rewrite Z.quot_0_l. 2:{ unfold signed; destruct (Z.ltb_spec b HALF); lia. } rewrite Z.mod_0_l by lia.
    destruct (Z.ltb_spec b HALF).
    - rewrite (u_sign_pos b) by lia. change (1 <? 0) with false. cbv iota. rewrite u_div_0_l by lia. reflexivity.
    - rewrite (u_sign_neg b) by lia. change (-1 <? 0) with true. cbv iota. rewrite (u_neg_pos b) by lia. apply u_div_0_l; lia. }
  destruct (Z.ltb_spec a HALF) as [Hal|Hah]; destruct (Z.ltb_spec b HALF) as [Hbl|Hbh].
  - (* pos / pos *)
    rewrite (u_sign_pos a), (u_sign_pos b), !signed_lo by lia. change (0 <? 1) with true. cbv iota.
    rewrite u_div_spec by lia. destruct (Z.eqb_spec b 0); [lia|].
    rewrite Z.quot_div_nonneg by lia. pose proof (div_bound a b). rewrite Hq; lia.
  - (* pos / neg *)
    rewrite (u_sign_pos a), (u_sign_neg b), signed_lo, signed_hi by lia.
    change (0 <? 1) with true. cbv iota. change (0 <? -1) with false. cbv iota.
    rewrite (u_neg_pos b) by lia. rewrite u_div_spec by lia. destruct (Z.eqb_spec (W - b) 0); [lia|].
    replace (b - W) with (- (W - b)) by lia. rewrite Z.quot_opp_r by lia.
    rewrite Z.quot_div_nonneg by lia. apply u_neg_opp.
  - (* neg / pos *)
    rewrite (u_sign_neg a), (u_sign_pos b), signed_hi, signed_lo by lia.
    change (0 <? -1) with false. cbv iota. change (1 <? 0) with false. cbv iota.
    rewrite (u_neg_pos a) by lia. rewrite u_div_spec by lia. destruct (Z.eqb_spec b 0); [lia|].
    replace (a - W) with (- (W - a)) by lia. rewrite Z.quot_opp_l by lia.
    rewrite Z.quot_div_nonneg by lia. apply u_neg_opp.
  - (* neg / neg *)
    rewrite (u_sign_neg a), (u_sign_neg b), !signed_hi by lia.
    change (0 <? -1) with false. cbv iota. change (-1 <? 0) with true. cbv iota.
    rewrite (u_neg_pos a), (u_neg_pos b) by lia. rewrite u_div_spec by lia. destruct (Z.eqb_spec (W - b) 0); [lia|].
    replace (a - W) with (- (W - a)) by lia. replace (b - W) with (- (W - b)) by lia.
    rewrite Z.quot_opp_opp by lia. rewrite Z.quot_div_nonneg by lia.
    pose proof (div_bound (W - a) (W - b)). rewrite Hq; lia.
Qed.

Lemma smod_ok a b : in_word a -> in_word b -> i_smod a b = m_smod a b.
Proof.
  intros [Ha1 Ha2] [Hb1 Hb2]. pose proof W_half as HW. pose proof HALF_pos as HP.
  unfold i_smod, m_smod, u_smod.
  destruct (Z.eqb_spec b 0) as [->|Hb0].
  { rewrite u_sign_0. change (0 =? -1) with false. cbv iota. rewrite u_mod_0_r.
    destruct (u_sign a =? -1); rewrite ?u_neg_0; reflexivity. }
  assert (Hq : forall q, 0 <= q < W -> q mod W = q) by (intros; apply Z.mod_small; lia).
  destruct (Z.eq_dec a 0) as [->|Ha0].
  { rewrite u_sign_0. change (0 =? -1) with false. cbv iota. rewrite u_mod_0_l.
    rewrite Z.rem_0_l by (unfold signed; destruct (Z.ltb_spec b HALF); lia). rewrite Z.mod_0_l by lia. reflexivity. }
  destruct (Z.ltb_spec a HALF) as [Hal|Hah]; destruct (Z.ltb_spec b HALF) as [Hbl|Hbh].
  - rewrite (u_sign_pos a), (u_sign_pos b), !signed_lo by lia. change (1 =? -1) with false. cbv iota.
    rewrite u_mod_spec by lia. destruct (Z.eqb_spec b 0); [lia|].
    rewrite Z.rem_mod_nonneg by lia. pose proof (Z.mod_pos_bound a b). rewrite Hq; lia.
  - rewrite (u_sign_pos a), (u_sign_neg b), signed_lo, signed_hi by lia.
    change (1 =? -1) with false. cbv iota. change (-1 =? -1) with true. cbv iota.
    rewrite (u_neg_pos b) by lia. rewrite u_mod_spec by lia. destruct (Z.eqb_spec (W - b) 0); [lia|].
    replace (b - W) with (- (W - b)) by lia. rewrite Z.rem_opp_r by lia.
    rewrite Z.rem_mod_nonneg by lia. pose proof (Z.mod_pos_bound a (W - b)). rewrite Hq; lia.
  - rewrite (u_sign_neg a), (u_sign_pos b), signed_hi, signed_lo by lia.
    change (1 =? -1) with false. cbv iota. change (-1 =? -1) with true. cbv iota.
    rewrite (u_neg_pos a) by lia. rewrite u_mod_spec by lia. destruct (Z.eqb_spec b 0); [lia|].
    replace (a - W) with (- (W - a)) by lia. rewrite Z.rem_opp_l by lia.
    rewrite Z.rem_mod_nonneg by lia. apply u_neg_opp.
  - rewrite (u_sign_neg a), (u_sign_neg b), !signed_hi by lia. change (-1 =? -1) with true. cbv iota.
    rewrite (u_neg_pos a), (u_neg_pos b) by lia. rewrite u_mod_spec by lia. destruct (Z.eqb_spec (W - b) 0); [lia|].
    replace (a - W) with (- (W - a)) by lia. replace (b - W) with (- (W - b)) by lia.
    rewrite Z.rem_opp_opp by lia. rewrite Z.rem_mod_nonneg by lia. apply u_neg_opp.
Qed.

Lemma mulmod_ok a b c : in_word a -> in_word b -> in_word c -> i_mulmod a b c = m_mulmod a b c.
Proof.
  intros [? ?] [? ?] [? ?]. unfold i_mulmod, m_mulmod, u_mulmod.
  destruct (Z.eqb_spec c 0) as [->|]. { rewrite !orb_true_r. reflexivity. }
  destruct (Z.eqb_spec a 0) as [->|]. { cbn [orb]. rewrite Z.mul_0_l, Z.mod_0_l by lia. reflexivity. }
  destruct (Z.eqb_spec b 0) as [->|]. { cbn [orb]. rewrite Z.mul_0_r, Z.mod_0_l by lia. reflexivity. }
  reflexivity.
Qed.

(* ---------------- limb-level comparisons (Lt by the borrow chain, Eq limb by limb, IsZero by OR of the limbs) *)
Lemma limb_spec x i : 0 <= i -> limb x i = (x / 2 ^ (64 * i)) mod 2 ^ 64.
Proof.
  intros. unfold limb. change 18446744073709551615 with (Z.ones 64).
  rewrite Z.land_ones by lia. rewrite Z.shiftr_div_pow2 by lia. reflexivity.
Qed.
Lemma limbs_decomp x : 0 <= x < W ->
  x = limb x 0 + 2 ^ 64 * limb x 1 + 2 ^ 128 * limb x 2 + 2 ^ 192 * limb x 3 /\
  0 <= limb x 0 < 2 ^ 64 /\ 0 <= limb x 1 < 2 ^ 64 /\ 0 <= limb x 2 < 2 ^ 64 /\ 0 <= limb x 3 < 2 ^ 64.
Proof.
  intros Hx. rewrite W_eq in Hx. rewrite !limb_spec by lia.
  change (64 * 0) with 0. change (64 * 1) with 64. change (64 * 2) with 128. change (64 * 3) with 192.
  rewrite Z.pow_0_r, Z.div_1_r.
  assert (H1 : x / 2 ^ 128 = x / 2 ^ 64 / 2 ^ 64) by (rewrite Z.div_div by lia; reflexivity).
  assert (H2 : x / 2 ^ 192 = x / 2 ^ 64 / 2 ^ 64 / 2 ^ 64) by (rewrite !Z.div_div by lia; reflexivity).
  rewrite H1, H2.
  set (a := x / 2 ^ 64). set (b := a / 2 ^ 64). set (c := b / 2 ^ 64).
  pose proof (Z.div_mod x (2 ^ 64) ltac:(lia)) as D0. pose proof (Z.mod_pos_bound x (2 ^ 64) ltac:(lia)) as B0.
  pose proof (Z.div_mod a (2 ^ 64) ltac:(lia)) as D1. pose proof (Z.mod_pos_bound a (2 ^ 64) ltac:(lia)) as B1.
  pose proof (Z.div_mod b (2 ^ 64) ltac:(lia)) as D2. pose proof (Z.mod_pos_bound b (2 ^ 64) ltac:(lia)) as B2.
  pose proof (Z.mod_pos_bound c (2 ^ 64) ltac:(lia)) as B3.
  fold a in D0. fold b in D1. fold c in D2.
  assert (Hc : 0 <= c < 2 ^ 64).
  { unfold c, b, a. rewrite !Z.div_div by lia. split. apply Z.div_pos; lia. apply Z.div_lt_upper_bound; lia. }
  rewrite (Z.mod_small c) by lia.
  change (2 ^ 128) with (2 ^ 64 * 2 ^ 64). change (2 ^ 192) with (2 ^ 64 * 2 ^ 64 * 2 ^ 64).
  repeat split; try lia.
Qed.

Lemma u_lt_spec z x : in_word z -> in_word x -> u_lt z x = (z <? x).
Proof.
  intros Hz Hx. destruct (limbs_decomp z Hz) as (Ez & Z0 & Z1 & Z2 & Z3).
  destruct (limbs_decomp x Hx) as (Ex & X0 & X1 & X2 & X3).
  unfold u_lt, borrow64.
  set (z0 := limb z 0) in *. set (z1 := limb z 1) in *. set (z2 := limb z 2) in *. set (z3 := limb z 3) in *.
  set (x0 := limb x 0) in *. set (x1 := limb x 1) in *. set (x2 := limb x 2) in *. set (x3 := limb x 3) in *.
  change (2 ^ 64) with 18446744073709551616 in *.
  change (2 ^ 128) with (18446744073709551616 * 18446744073709551616) in *.
  change (2 ^ 192) with (18446744073709551616 * 18446744073709551616 * 18446744073709551616) in *.
  cbn [b2w].
  destruct (Z.ltb_spec z0 (x0 + 0)); cbn [b2w];
  match goal with |- context [z1 <? ?b] => destruct (Z.ltb_spec z1 b) end; cbn [b2w];
  match goal with |- context [z2 <? ?b] => destruct (Z.ltb_spec z2 b) end; cbn [b2w];
  match goal with |- context [z3 <? ?b] => destruct (Z.ltb_spec z3 b) end;
  destruct (Z.ltb_spec z x); try reflexivity; exfalso; lia.
Qed.
Lemma u_eq_spec z x : in_word z -> in_word x -> u_eq z x = (z =? x).
Proof.
  intros Hz Hx. destruct (limbs_decomp z Hz) as (Ez & _). destruct (limbs_decomp x Hx) as (Ex & _).
  unfold u_eq.
  destruct (Z.eqb_spec (limb z 0) (limb x 0)) as [E0|N0]; cbn [andb].
  2:{ destruct (Z.eqb_spec z x); [subst; congruence|reflexivity]. }
  destruct (Z.eqb_spec (limb z 1) (limb x 1)) as [E1|N1]; cbn [andb].
  2:{ destruct (Z.eqb_spec z x); [subst; congruence|reflexivity]. }
  destruct (Z.eqb_spec (limb z 2) (limb x 2)) as [E2|N2]; cbn [andb].
  2:{ destruct (Z.eqb_spec z x); [subst; congruence|reflexivity]. }
  destruct (Z.eqb_spec (limb z 3) (limb x 3)) as [E3|N3].
  2:{ destruct (Z.eqb_spec z x); [subst; congruence|reflexivity]. }
  destruct (Z.eqb_spec z x); [reflexivity|]. exfalso. rewrite Ez, Ex, E0, E1, E2, E3 in n. congruence.
Qed.
Lemma u_iszero_spec z : in_word z -> u_iszero z = (z =? 0).
Proof.
  intros Hz. destruct (limbs_decomp z Hz) as (Ez & Z0 & Z1 & Z2 & Z3). unfold u_iszero.
  destruct (Z.eqb_spec (Z.lor (Z.lor (Z.lor (limb z 0) (limb z 1)) (limb z 2)) (limb z 3)) 0) as [E|N].
  - apply Z.lor_eq_0_iff in E. destruct E as (E & E3). apply Z.lor_eq_0_iff in E. destruct E as (E & E2).
    apply Z.lor_eq_0_iff in E. destruct E as (E0 & E1). rewrite Ez, E0, E1, E2, E3. reflexivity.
  - destruct (Z.eqb_spec z 0) as [->|]; [|reflexivity]. exfalso. apply N. reflexivity.
Qed.


Lemma lt_ok a b : in_word a -> in_word b -> i_lt a b = m_lt a b.
Proof. intros. unfold i_lt, m_lt. rewrite u_lt_spec by assumption. reflexivity. Qed.
Lemma gt_ok a b : in_word a -> in_word b -> i_gt a b = m_gt a b.
Proof. intros. unfold i_gt, m_gt. rewrite u_lt_spec by assumption. reflexivity. Qed.
Lemma eq_ok a b : in_word a -> in_word b -> i_eq a b = m_eq a b.
Proof. intros. unfold i_eq, m_eq. rewrite u_eq_spec by assumption. reflexivity. Qed.
Lemma iszero_ok a : in_word a -> i_iszero a = m_iszero a.
Proof. intros. unfold i_iszero, m_iszero. rewrite u_iszero_spec by assumption. reflexivity. Qed.

(* definitional: the model represents limb-wise AND / OR / XOR by Z.land / Z.lor / Z.lxor, which is also their mathematical
   definition (bit i of the result = and / or / xor of the operands' bits i, Z.land_spec etc.) *)
Lemma bitwise_ok : (forall a b, i_and a b = m_and a b) /\ (forall a b, i_or a b = m_or a b) /\ (forall a b, i_xor a b = m_xor a b).
Proof. repeat split; reflexivity. Qed.

(* ---------------- ADDMOD: the fast path and the 257-bit path of uint256.AddMod *)
(* sums of two residues: S = x' + y' with 0 <= S < 2m, S = x + y (mod m) *)
Lemma mod_of_near a m S k : 0 < m -> a = S + m * k -> 0 <= S < 2 * m ->
  a mod m = if S <? m then S else S - m.
Proof.
  intros Hm Ha HS. destruct (Z.ltb_spec S m).
  - symmetry. apply Zmod_unique with k; lia.
  - symmetry. apply Zmod_unique with (k + 1); lia.
Qed.

Lemma addmod_ok a b n : in_word a -> in_word b -> in_word n -> i_addmod a b n = m_addmod a b n.
Proof.
  intros [Ha1 Ha2] [Hb1 Hb2] [Hn1 Hn2]. unfold i_addmod, m_addmod.
  destruct (Z.eqb_spec n 0) as [->|Hn0]; [reflexivity|].
  unfold u_addmod. rewrite !wrap_mod.
  set (P := 6277101735386680763835789423207666416102355444464034512896).
  assert (HP : W = P * 2 ^ 64) by reflexivity. assert (HPpos : 0 < P) by reflexivity.
  destruct (negb (n / P =? 0) && (a / P <=? n / P) && (b / P <=? n / P)) eqn:Hfast.
  - (* fast path *)
    apply andb_prop in Hfast. destruct Hfast as (Hf & Hby). apply andb_prop in Hf. destruct Hf as (Hn3 & Hax).
    apply negb_true_iff, Z.eqb_neq in Hn3. apply Z.leb_le in Hax. apply Z.leb_le in Hby.
    assert (Hnd : n = P * (n / P) + n mod P) by (apply Z.div_mod; lia).
    assert (Had : a = P * (a / P) + a mod P) by (apply Z.div_mod; lia).
    assert (Hbd : b = P * (b / P) + b mod P) by (apply Z.div_mod; lia).
    pose proof (Z.mod_pos_bound n P HPpos). pose proof (Z.mod_pos_bound a P HPpos). pose proof (Z.mod_pos_bound b P HPpos).
    assert (0 < n / P). { assert (0 <= n / P) by (apply Z.div_pos; lia). lia. }
    assert (Hn_ge : P <= n) by nia.
    assert (Ha_lt : a < n + P) by nia. assert (Hb_lt : b < n + P) by nia.
    set (a' := if n <=? a then a - n else a). set (b' := if n <=? b then b - n else b).
    assert (Ha' : 0 <= a' < n /\ exists ka, a = a' + n * ka).
    { unfold a'. destruct (Z.leb_spec n a). split; [lia|exists 1; lia]. split; [lia|exists 0; lia]. }
    assert (Hb' : 0 <= b' < n /\ exists kb, b = b' + n * kb).
    { unfold b'. destruct (Z.leb_spec n b). split; [lia|exists 1; lia]. split; [lia|exists 0; lia]. }
    destruct Ha' as (Ba & ka & Ea). destruct Hb' as (Bb & kb & Eb).
    rewrite (mod_of_near (a + b) n (a' + b') (ka + kb)) by lia.
    destruct (Z.leb_spec W (a' + b')) as [Hc1|Hc1]; cbn [negb andb].
    + (* carry out of the addition: the subtraction result is taken *)
      assert (Er : (a' + b') mod W = a' + b' - W) by (symmetry; apply Zmod_unique with 1; lia).
      rewrite Er. destruct (Z.ltb_spec (a' + b') n); [lia|].
      symmetry. apply Zmod_unique with (-1); lia.
    + rewrite (mod_small_W (a' + b')) by lia.
      destruct (Z.ltb_spec (a' + b') n); [reflexivity|].
      apply mod_small_W. lia.
  - (* general path *)
    destruct (Z.eqb_spec n 0); [lia|].
    destruct (Z.leb_spec W (a + b)).
    + assert (Er : (a + b) mod W = a + b - W) by (symmetry; apply Zmod_unique with 1; lia).
      rewrite Er. f_equal. lia.
    + rewrite (mod_small_W (a + b)) by lia. rewrite u_mod_spec by lia.
      destruct (Z.eqb_spec n 0); [lia|reflexivity].
Qed.

Lemma slt_ok a b : in_word a -> in_word b -> i_slt a b = m_slt a b.
Proof.
  intros [? ?] [? ?]. pose proof W_half. pose proof HALF_pos.
  unfold i_slt, m_slt, u_slt, u_sign, signed. f_equal.
  destruct (Z.ltb_spec a HALF); destruct (Z.ltb_spec b HALF); destruct (Z.eqb_spec a 0); destruct (Z.eqb_spec b 0);
    bdestruct; cbn [andb]; try reflexivity; try lia.
Qed.
Lemma sgt_ok a b : in_word a -> in_word b -> i_sgt a b = m_sgt a b.
Proof.
  intros [? ?] [? ?]. pose proof W_half. pose proof HALF_pos.
  unfold i_sgt, m_sgt, u_sgt, u_sign, signed. f_equal.
  destruct (Z.ltb_spec a HALF); destruct (Z.ltb_spec b HALF); destruct (Z.eqb_spec a 0); destruct (Z.eqb_spec b 0);
    bdestruct; cbn [andb]; try reflexivity; try lia.
Qed.
Lemma not_ok a : in_word a -> i_not a = m_not a.
Proof.
  intros [? ?]. unfold i_not, u_not, m_not. rewrite wrap_mod. unfold Z.lnot.
  symmetry. apply Zmod_unique with (-1); lia.
Qed.

(* ---------------- EXP *)
Lemma exp_loop_spec e : forall res mult, exp_loop res mult e = (res * mult ^ Zpos e) mod W.
Proof.
  pose proof W_pos as HW.
  induction e as [p IH|p IH|]; intros res mult; cbn [exp_loop].
  - rewrite IH. unfold u_mul. rewrite !wrap_mod.
    replace (Zpos p~1) with (2 * Zpos p + 1) by lia.
    rewrite Z.pow_add_r, Z.pow_1_r, Z.pow_mul_r by lia. replace (mult ^ 2) with (mult * mult) by (rewrite Z.pow_2_r; reflexivity).
    rewrite Z.mul_mod by lia. rewrite Z.mod_mod by lia.
    rewrite <- (Zpower_mod (mult * mult) (Zpos p) W) by lia.
    rewrite <- Z.mul_mod by lia. f_equal. ring.
  - rewrite IH. unfold u_mul. rewrite !wrap_mod.
    replace (Zpos p~0) with (2 * Zpos p) by lia.
    rewrite Z.pow_mul_r by lia. replace (mult ^ 2) with (mult * mult) by (rewrite Z.pow_2_r; reflexivity).
    rewrite (Z.mul_mod res (((mult * mult) mod W) ^ Zpos p)) by lia.
    rewrite <- (Zpower_mod (mult * mult) (Zpos p) W) by lia.
    rewrite <- Z.mul_mod by lia. reflexivity.
  - unfold u_mul. rewrite wrap_mod, Z.pow_1_r. reflexivity.
Qed.
Lemma exp_ok a b : in_word a -> in_word b -> i_exp a b = m_exp a b.
Proof.
  intros [? ?] [? ?]. unfold i_exp, u_exp, m_exp. destruct b as [|p|p]; [|rewrite exp_loop_spec; f_equal; lia|lia].
  rewrite Z.pow_0_r. symmetry. apply Z.mod_small. pose proof W_half; pose proof HALF_pos; lia.
Qed.

(* ---------------- shifts *)
Lemma pow256_le n : 256 <= n -> W <= 2 ^ n.
Proof. intros. rewrite W_eq. apply Z.pow_le_mono_r; lia. Qed.
Lemma shl_ok n x : in_word n -> in_word x -> i_shl n x = m_shl n x.
Proof.
  intros [? ?] [? ?]. unfold i_shl, m_shl, u_lsh.
  destruct (Z.ltb_spec n 256).
  - destruct (Z.leb_spec 256 n); [lia|]. rewrite wrap_mod, Z.shiftl_mul_pow2 by lia. reflexivity.
  - replace n with (256 + (n - 256)) by lia. rewrite Z.pow_add_r by lia. rewrite <- W_eq.
    rewrite Z.mul_assoc, (Z.mul_comm x W), <- Z.mul_assoc, Z.mul_comm. symmetry. apply Z.mod_mul. pose proof W_pos; lia.
Qed.
Lemma shr_ok n x : in_word n -> in_word x -> i_shr n x = m_shr n x.
Proof.
  intros [? ?] [? ?]. unfold i_shr, m_shr, u_rsh.
  destruct (Z.ltb_spec n 256).
  - destruct (Z.leb_spec 256 n); [lia|]. apply Z.shiftr_div_pow2; lia.
  - symmetry. apply Z.div_small. pose proof (pow256_le n). lia.
Qed.

Lemma testbit_255 x : in_word x -> Z.testbit x 255 = (HALF <=? x).
Proof.
  intros [? ?]. pose proof W_half. pose proof HALF_pos.
  destruct (Z.leb_spec HALF x).
  - apply Z.testbit_true; [lia|]. rewrite <- HALF_eq.
    replace (x / HALF) with 1; [reflexivity|]. apply Z.div_unique with (x - HALF); lia.
  - apply Z.testbit_false; [lia|]. rewrite <- HALF_eq. rewrite Z.div_small by lia. reflexivity.
Qed.

Lemma lor_disjoint lo h k : 0 <= k -> 0 <= lo < 2 ^ k -> Z.lor lo (h * 2 ^ k) = lo + h * 2 ^ k.
Proof.
  intros Hk Hlo.
  assert (E : Z.land lo (h * 2 ^ k) = 0).
  { apply Z.bits_inj'. intros i Hi. rewrite Z.land_spec, Z.bits_0.
    destruct (Z.lt_ge_cases i k).
    - rewrite Z.mul_pow2_bits_low by lia. apply andb_false_r.
    - rewrite <- (Z.mod_small lo (2 ^ k)) by lia. rewrite Z.mod_pow2_bits_high by lia. reflexivity. }
  rewrite <- Z.lxor_lor by exact E. symmetry. apply Z.add_nocarry_lxor. exact E.
Qed.

Lemma neg_div_m1 v m : - m <= v < 0 -> v / m = -1.
Proof. intros. symmetry. apply Z.div_unique with (v + m); lia. Qed.
Lemma mod_neg_W v : - W <= v < 0 -> v mod W = v + W.
Proof. intros. symmetry. apply Zmod_unique with (-1); lia. Qed.

Lemma sar_ok n x : in_word n -> in_word x -> i_sar n x = m_sar n x.
Proof.
  intros [Hn1 Hn2] [Hx1 Hx2]. pose proof W_half as HW. pose proof HALF_pos as HP.
  unfold i_sar, m_sar, u_srsh, u_rsh. rewrite testbit_255 by (split; lia).
  destruct (Z.leb_spec HALF x) as [Hneg|Hpos]; cbn [negb].
  - (* negative value *)
    rewrite (u_sign_neg x), signed_hi by lia. change (0 <=? -1) with false. cbv iota.
    assert (Hbig : 256 <= n -> (x - W) / 2 ^ n mod W = W - 1).
    { intros Hn. pose proof (pow256_le n Hn). rewrite neg_div_m1 by lia. rewrite mod_neg_W by lia. lia. }
    destruct (Z.ltb_spec 256 n). { symmetry. apply Hbig. lia. }
    destruct (Z.leb_spec 256 n). { symmetry. apply Hbig. lia. }
    set (k := 256 - n).
    assert (HWk : W = 2 ^ k * 2 ^ n). { rewrite <- Z.pow_add_r by lia. rewrite W_eq. f_equal. lia. }
    assert (0 < 2 ^ k) by (apply Z.pow_pos_nonneg; lia). assert (0 < 2 ^ n) by (apply Z.pow_pos_nonneg; lia).
    rewrite Z.shiftr_div_pow2, Z.shiftl_mul_pow2 by lia. rewrite Z.ones_equiv.
    rewrite lor_disjoint.
    2: lia.
    2:{ split. apply Z.div_pos; lia. apply Z.div_lt_upper_bound; lia. }
    replace (x - W) with (x + (- 2 ^ k) * 2 ^ n) by lia. rewrite Z.div_add by lia.
    assert (0 <= x / 2 ^ n < 2 ^ k). { split. apply Z.div_pos; lia. apply Z.div_lt_upper_bound; lia. }
    assert (2 ^ k <= W) by nia.
    rewrite mod_neg_W by lia. unfold Z.pred. lia.
  - (* non-negative value *)
    rewrite signed_lo by lia.
    assert (Hs : 0 <=? u_sign x = true).
    { unfold u_sign. destruct (x =? 0); [reflexivity|]. destruct (Z.ltb_spec x HALF); [reflexivity|lia]. }
    rewrite Hs.
    assert (Hbig : 256 <= n -> x / 2 ^ n mod W = 0).
    { intros Hn. pose proof (pow256_le n Hn). rewrite Z.div_small by lia. apply Z.mod_0_l. lia. }
    destruct (Z.ltb_spec 256 n). { symmetry. apply Hbig. lia. }
    destruct (Z.leb_spec 256 n). { symmetry. apply Hbig. lia. }
    rewrite Z.shiftr_div_pow2 by lia. symmetry. apply Z.mod_small.
    assert (0 < 2 ^ n) by (apply Z.pow_pos_nonneg; lia).
    split. apply Z.div_pos; lia. apply Z.div_lt_upper_bound; nia.
Qed.

(* ---------------- BYTE *)
Lemma testbit_255_ones i : 0 <= i -> Z.testbit 255 i = (i <? 8).
Proof.
  intros. change 255 with (Z.ones 8). destruct (Z.ltb_spec i 8).
  - apply Z.ones_spec_low; lia.
  - apply Z.ones_spec_high; lia.
Qed.
Lemma byte_core val q r : 0 <= q <= 3 -> 0 <= r < 8 ->
  Z.shiftr (Z.land ((val / 2 ^ (64 * (3 - q))) mod 2 ^ 64) (Z.shiftr (255 * 2 ^ 56) (r * 8))) (56 - r * 8)
  = (val / 2 ^ (8 * (31 - (8 * q + r)))) mod 2 ^ 8.
Proof.
  intros Hq Hr. apply Z.bits_inj'. intros i Hi.
  rewrite Z.shiftr_spec, Z.land_spec, Z.shiftr_spec by lia.
  replace (i + (56 - r * 8) + r * 8) with (56 + i) by lia.
  rewrite Z.mul_pow2_bits_add by lia. rewrite testbit_255_ones by lia.
  destruct (Z.ltb_spec i 8).
  - rewrite andb_true_r. rewrite !Z.mod_pow2_bits_low by lia. rewrite !Z.div_pow2_bits by lia.
    f_equal. lia.
  - rewrite andb_false_r. rewrite Z.mod_pow2_bits_high by lia. reflexivity.
Qed.
Lemma byte_ok i x : in_word i -> in_word x -> i_byte i x = m_byte i x.
Proof.
  intros [Hi1 Hi2] [Hx1 Hx2]. unfold i_byte, u_byte, m_byte.
  destruct (Z.ltb_spec i 32); [|reflexivity].
  assert (E : i = 8 * (i / 8) + i mod 8) by (apply Z.div_mod; lia).
  assert (B : 0 <= i mod 8 < 8) by (apply Z.mod_pos_bound; lia).
  assert (0 <= i / 8 <= 3). { split. apply Z.div_pos; lia. enough (i / 8 < 4) by lia. apply Z.div_lt_upper_bound; lia. }
  rewrite W64_eq. change 18374686479671623680 with (255 * 2 ^ 56). change 256 with (2 ^ 8).
  rewrite byte_core by lia. do 3 f_equal. lia.
Qed.

(* ---------------- SIGNEXTEND *)
Lemma signextend_ok k x : in_word k -> in_word x -> i_signextend k x = m_signextend k x.
Proof.
  intros [Hk1 Hk2] [Hx1 Hx2]. pose proof W_half as HW. pose proof HALF_pos as HP.
  unfold i_signextend, u_extendsign, m_signextend.
  destruct (Z.ltb_spec 31 k); destruct (Z.ltb_spec k 32); try lia; try reflexivity.
  set (bit := k * 8 + 7). cbv zeta. replace (8 * (k + 1)) with (bit + 1) by (unfold bit; lia).
  assert (Hbit : 7 <= bit <= 255) by (unfold bit; lia).
  assert (Hp : 0 < 2 ^ bit) by (apply Z.pow_pos_nonneg; lia).
  assert (HWb : W = 2 ^ (256 - bit) * 2 ^ bit). { rewrite <- Z.pow_add_r by lia. rewrite W_eq. f_equal. lia. }
  assert (Hp2 : 0 < 2 ^ (256 - bit)) by (apply Z.pow_pos_nonneg; lia).
  assert (Hp3 : 2 ^ 1 <= 2 ^ (256 - bit)) by (apply Z.pow_le_mono_r; lia). rewrite Z.pow_1_r in Hp3.
  assert (Hle : 2 ^ bit < W) by nia.
  (* mask = 2^bit - 1 *)
  assert (Hmask : u_sub (u_lsh 1 bit) 1 = 2 ^ bit - 1).
  { unfold u_lsh, u_sub. destruct (Z.leb_spec 256 bit); [lia|]. rewrite !wrap_mod.
    rewrite Z.shiftl_mul_pow2, Z.mul_1_l by lia. rewrite (Z.mod_small (2 ^ bit)) by lia. apply Z.mod_small. lia. }
  rewrite Hmask.
  (* x mod 2^(bit+1) split at the sign bit *)
  assert (Hsplit : x mod 2 ^ (bit + 1) = x mod 2 ^ bit + 2 ^ bit * ((x / 2 ^ bit) mod 2)).
  { rewrite Z.pow_add_r, Z.pow_1_r by lia. apply Z.rem_mul_r; lia. }
  pose proof (Z.mod_pos_bound x (2 ^ bit) Hp) as Hlo.
  unfold signed_t. replace (bit + 1 - 1) with bit by lia. rewrite Hsplit.
  destruct (Z.testbit x bit) eqn:Hb.
  - apply Z.testbit_true in Hb; [|lia]. rewrite Hb.
    destruct (Z.ltb_spec (x mod 2 ^ bit + 2 ^ bit * 1) (2 ^ bit)); [lia|].
    rewrite Z.pow_add_r, Z.pow_1_r by lia.
    rewrite mod_neg_W by lia.
    (* interpreter side *)
    assert (Hnot : u_not (2 ^ bit - 1) = W - 2 ^ bit).
    { change (u_not (2 ^ bit - 1)) with (i_not (2 ^ bit - 1)). rewrite not_ok by (split; lia). unfold m_not. lia. }
    rewrite Hnot.
    set (h := Z.ones (256 - bit)).
    assert (Hh : W - 2 ^ bit = h * 2 ^ bit). { unfold h. rewrite Z.ones_equiv. unfold Z.pred. lia. }
    rewrite Hh.
    set (lo := x mod 2 ^ bit) in *. set (q := x / 2 ^ bit).
    assert (Hx : x = lo + q * 2 ^ bit). { unfold lo, q. pose proof (Z.div_mod x (2 ^ bit)). lia. }
    assert (Hq : 0 <= q < 2 ^ (256 - bit)).
    { unfold q. split. apply Z.div_pos; lia. apply Z.div_lt_upper_bound; lia. }
    rewrite Hx at 1. rewrite <- (lor_disjoint lo q bit) by lia.
    rewrite <- Z.lor_assoc. rewrite <- !Z.shiftl_mul_pow2 by lia. rewrite <- Z.shiftl_lor.
    assert (Hqh : Z.lor q h = h).
    { unfold h. apply Z.lor_ones_low; [lia|]. destruct (Z.eq_dec q 0) as [->|]; [change (Z.log2 0) with 0; lia|].
      apply Z.log2_lt_pow2; lia. }
    rewrite Hqh. rewrite Z.shiftl_mul_pow2 by lia. rewrite lor_disjoint by lia. lia.
  - apply Z.testbit_false in Hb; [|lia]. rewrite Hb.
    destruct (Z.ltb_spec (x mod 2 ^ bit + 2 ^ bit * 0) (2 ^ bit)); [|lia].
    rewrite Z.mul_0_r, Z.add_0_r. rewrite Z.mod_small by lia.
    change (2 ^ bit - 1) with (Z.pred (2 ^ bit)). rewrite <- Z.ones_equiv. apply Z.land_ones. lia.
Qed.

(* ---------------- all together *)
Theorem alu_matches_math_lemma (op : alu_op) (a b c : Z) :
  in_word a -> in_word b -> in_word c -> i_alu op a b c = m_alu op a b c.
Proof.
  intros Ha Hb Hc. destruct bitwise_ok as (Hand & Hor & Hxor).
  destruct op; cbn [i_alu m_alu];
    auto using lt_ok, gt_ok, eq_ok, iszero_ok, add_ok, mul_ok, sub_ok, div_ok, sdiv_ok, mod_ok, smod_ok, addmod_ok, mulmod_ok, exp_ok, signextend_ok,
      slt_ok, sgt_ok, not_ok, byte_ok, shl_ok, shr_ok, sar_ok.
Qed.
