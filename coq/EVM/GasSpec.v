(* EVM/GasSpec.v — declarative gas specification (Yellow Paper appendix G/H) for the two pieces of the gas schedule that are
   not per-instruction constants: memory expansion and the all-but-one-64th rule.  Definitions only. *)
From Coq Require Import ZArith.
Open Scope Z_scope.

(* C_mem(a) = G_memory * a + floor(a^2 / 512), a = number of 32-byte words *)
Definition mem_cost (words : Z) : Z := 3 * words + words ^ 2 / 512.
(* active words after touching the range [off, off+len): unchanged for len = 0, else max(old, ceil((off+len)/32)) *)
Definition words_after (old_words off len : Z) : Z :=
  if len =? 0 then old_words else Z.max old_words ((off + len + 31) / 32).
(* the price of an access = the difference of C_mem *)
Definition expansion_cost (old_words new_words : Z) : Z := mem_cost new_words - mem_cost old_words.
(* L(n) = n - floor(n / 64) *)
Definition all_but_one_64th (n : Z) : Z := n - n / 64.
(* gas handed to a callee: the requested amount capped by L(gas available after the call's own cost) *)
Definition callee_gas (available base requested : Z) : Z := Z.min requested (all_but_one_64th (available - base)).
