(* EVM/ProofsJournal.v — RevertToSnapshot after a snapshot undoes everything a frame did, whatever the frame and its nested
   frames (successful or failed) wrote: both stacked maps are back to exactly the levels they had, so every Get and the
   journal (logs, transfers) answer as at the snapshot. *)
From Coq Require Import ZArith List Bool Lia Arith.
From Verif Require Import EVM.Journal.
Import ListNotations.
Open Scope Z_scope.

Lemma pop_to_app (top base : smap) : pop_to (top ++ base) (length base) = base.
Proof.
  induction top as [|l top IH]; cbn [app].
  - destruct base as [|b base']; [reflexivity|]. cbn [pop_to]. rewrite Nat.leb_refl. reflexivity.
  - cbn [pop_to]. destruct (Nat.leb (length (l :: top ++ base)) (length base)) eqn:E.
    + apply Nat.leb_le in E. cbn [length] in E. rewrite app_length in E. lia.
    + exact IH.
Qed.

(* popping to a level above the base keeps the base and at least one level on top of it *)
Lemma pop_to_keeps (top base : smap) (d : nat) : top <> [] -> (length base < d)%nat ->
  exists top', top' <> [] /\ pop_to (top ++ base) d = top' ++ base.
Proof.
  intros Hne Hd. induction top as [|l top IH]; [congruence|]. cbn [app pop_to].
  destruct (Nat.leb (length (l :: top ++ base)) d) eqn:E.
  - exists (l :: top). split; [discriminate|reflexivity].
  - apply Nat.leb_gt in E. cbn [length] in E. rewrite app_length in E.
    destruct top as [|l2 top2]. { cbn in E. lia. }
    apply IH. discriminate.
Qed.

Lemma put_on_top (top base : smap) k v : top <> [] -> exists top', top' <> [] /\ put (top ++ base) k v = top' ++ base.
Proof. destruct top as [|l t]; [congruence|]. intros _. exists (((k, v) :: l) :: t). split; [discriminate|reflexivity]. Qed.

(* the base of a running frame: the levels both maps had right after the frame's snapshot, minus the fresh top levels *)
Definition above (s : sdb) (bst brepo : smap) : Prop :=
  exists tst trepo, tst <> [] /\ trepo <> [] /\ d_state s = tst ++ bst /\ d_repo s = trepo ++ brepo.

Lemma get_levels_put_top (sm : smap) k v : sm <> [] -> get_levels (put sm k v) k = Some v.
Proof. destruct sm as [|l t]; [congruence|]. intros _. cbn. rewrite Z.eqb_refl. reflexivity. Qed.

Section ActInd.
  Variable P : act -> Prop.
  Hypothesis Hs : forall k v, P (A_state k v).
  Hypothesis Hr : forall k v, P (A_repo k v).
  Hypothesis Hf : forall body failed, Forall P body -> P (A_frame body failed).
  Fixpoint act_ind' (a : act) : P a :=
    match a with
    | A_state k v => Hs k v
    | A_repo k v => Hr k v
    | A_frame body failed =>
        Hf body failed ((fix go (l : list act) : Forall P l :=
                           match l with [] => Forall_nil P | x :: t => Forall_cons x (act_ind' x) (go t) end) body)
    end.
End ActInd.

(* a frame body never touches the levels below the ones its snapshot created, and a failed frame restores its entry maps
   (plus the stateRevKey entry that Snapshot() leaves in the old top level of the repo) *)
Definition good (a : act) : Prop :=
  (forall s bst brepo, above s bst brepo -> above (run_act a s) bst brepo) /\
  (forall body, a = A_frame body true -> forall s, d_state s <> [] -> d_repo s <> [] ->
     run_act a s = mkSdb (d_state s) (put (d_repo s) SRK (Z.of_nat (depth (d_state s))))).

Lemma fold_above (body : list act) : Forall good body ->
  forall s bst brepo, above s bst brepo -> above (fold_left (fun st a' => run_act a' st) body s) bst brepo.
Proof.
  induction 1 as [|a l Ha Hl IH]; intros s bst brepo Hab; cbn [fold_left]; [exact Hab|].
  apply IH. apply (proj1 Ha). exact Hab.
Qed.

Lemma snapshot_above s : d_state s <> [] -> d_repo s <> [] ->
  let '(s1, rev) := snapshot s in
  rev = length (d_repo s) /\
  above s1 (d_state s) (put (d_repo s) SRK (Z.of_nat (depth (d_state s)))) /\
  (forall bst brepo, above s bst brepo -> above s1 bst brepo).
Proof.
  intros Hst Hrp. unfold snapshot, push. cbn.
  assert (Hlen : depth (put (d_repo s) SRK (Z.of_nat (depth (d_state s)))) = length (d_repo s)).
  { destruct (d_repo s); [congruence|reflexivity]. }
  split; [exact Hlen|]. split.
  - exists [[]], [[]]. repeat split; try discriminate.
  - intros bst brepo (tst & trepo & H1 & H2 & E1 & E2). cbn.
    destruct (put_on_top trepo brepo SRK (Z.of_nat (depth (d_state s))) H2) as (tr' & Hne & Ep).
    exists ([] :: tst), ([] :: tr'). repeat split; try discriminate.
    + rewrite E1. reflexivity.
    + rewrite E2, Ep. reflexivity.
Qed.

Lemma revert_restores s bst brepo0 srev :
  above s bst (put brepo0 SRK (Z.of_nat srev)) -> brepo0 <> [] -> srev = length bst ->
  revert_to s (length (put brepo0 SRK (Z.of_nat srev))) = mkSdb bst (put brepo0 SRK (Z.of_nat srev)).
Proof.
  intros (tst & trepo & H1 & H2 & E1 & E2) Hne Hs. unfold revert_to.
  rewrite E2, pop_to_app. rewrite get_levels_put_top by exact Hne.
  rewrite Nat2Z.id, E1, Hs, pop_to_app. reflexivity.
Qed.

Theorem all_acts_good (a : act) : good a.
Proof.
  induction a as [k v|k v|body failed IH] using act_ind'.
  - split; [|discriminate]. intros s bst brepo (tst & trepo & H1 & H2 & E1 & E2). cbn.
    destruct (put_on_top tst bst k v H1) as (t' & Hne & Ep).
    exists t', trepo. cbn. repeat split; auto. rewrite E1. exact Ep.
  - split; [|discriminate]. intros s bst brepo (tst & trepo & H1 & H2 & E1 & E2). cbn.
    destruct (put_on_top trepo brepo k v H2) as (t' & Hne & Ep).
    exists tst, t'. cbn. repeat split; auto. rewrite E2. exact Ep.
  - assert (Hrestore : forall s, d_state s <> [] -> d_repo s <> [] ->
              run_act (A_frame body true) s = mkSdb (d_state s) (put (d_repo s) SRK (Z.of_nat (depth (d_state s))))).
    { intros s Hst Hrp. cbn [run_act]. pose proof (snapshot_above s Hst Hrp) as Hsn.
      destruct (snapshot s) as [s1 rev]. destruct Hsn as (Erev & Hab & _).
      pose proof (fold_above body IH s1 _ _ Hab) as Hab2.
      rewrite Erev.
      replace (length (d_repo s)) with (length (put (d_repo s) SRK (Z.of_nat (depth (d_state s)))))
        by (destruct (d_repo s); [congruence|reflexivity]).
      apply revert_restores; [exact Hab2|exact Hrp|reflexivity]. }
    split.
    + intros s bst brepo Hab.
      assert (Hst : d_state s <> []). { destruct Hab as (tst & _ & H1 & _ & E1 & _). rewrite E1. destruct tst; [congruence|discriminate]. }
      assert (Hrp : d_repo s <> []). { destruct Hab as (_ & trepo & _ & H2 & _ & E2). rewrite E2. destruct trepo; [congruence|discriminate]. }
      destruct failed.
      * rewrite Hrestore by assumption.
        destruct Hab as (tst & trepo & H1 & H2 & E1 & E2).
        destruct (put_on_top trepo brepo SRK (Z.of_nat (depth (d_state s))) H2) as (t' & Hne & Ep).
        exists tst, t'. cbn. repeat split; auto. rewrite E2. exact Ep.
      * cbn [run_act]. pose proof (snapshot_above s Hst Hrp) as Hsn.
        destruct (snapshot s) as [s1 rev]. destruct Hsn as (_ & _ & Hkeep).
        apply (fold_above body IH). apply Hkeep. exact Hab.
    + intros body' E. inversion E; subst. exact Hrestore.
Qed.

(* the reads *)
Theorem failed_frame_restores_reads (body : list act) (s : sdb) (src : Z -> option Z) :
  d_state s <> [] -> d_repo s <> [] ->
  let s' := run_act (A_frame body true) s in
  d_state s' = d_state s /\
  (forall k, get src (d_state s') k = get src (d_state s) k) /\
  journal (d_state s') = journal (d_state s) /\
  (forall k, k <> SRK -> get src (d_repo s') k = get src (d_repo s) k) /\
  (forall k, k <> SRK -> filter (fun e => fst e =? k) (journal (d_repo s')) = filter (fun e => fst e =? k) (journal (d_repo s))).
Proof.
  intros Hst Hrp. cbn zeta. rewrite (proj2 (all_acts_good (A_frame body true)) body eq_refl s Hst Hrp). cbn [d_state d_repo].
  repeat split; try reflexivity.
  - intros k Hk. unfold get. destruct (d_repo s) as [|l t]; [congruence|]. cbn [put get_levels find_l].
    assert (E : (SRK =? k) = false) by (apply Z.eqb_neq; congruence). rewrite E. reflexivity.
  - intros k Hk. destruct (d_repo s) as [|l t]; [congruence|]. unfold journal. cbn [put map rev].
    assert (E : (SRK =? k) = false) by (apply Z.eqb_neq; congruence).
    rewrite !concat_app, !filter_app. f_equal. cbn [concat]. rewrite !app_nil_r, filter_app. cbn [filter fst].
    rewrite E. rewrite app_nil_r. reflexivity.
Qed.
