(* EVM/Model.v — executable model of /repo/vm's interpreter for the instruction set that is active at thor's latest
   fork (runtime.baseChainConfig + ETH_CONST/ETH_IST/GALACTICA: Homestead, EIP150, EIP158, Byzantium, Constantinople,
   Istanbul, Shanghai jump table; params.GasTableConstantinople; the *pre-Constantinople* SSTORE schedule of
   vm/gas_table.go:gasSStore).  Written from interpreter.go (Run loop order: decode -> validateStack ->
   enforceRestrictions -> memorySize -> gasCost/UseGas -> Resize -> execute), instructions.go, gas_table.go,
   memory_table.go, stack_table.go, common.go, contract.go (validJumpdest), evm.go (call/CallCode/DelegateCall/
   StaticCall: depth check, existence shortcut, snapshot, revert on error, all gas consumed unless REVERT).
   Definitions only.

   Scope (everything else yields the outcome O_unsupported, which the harness does not compare):
   in the model   — ALU (Word.v), stack/dup/swap/push/PUSH0, JUMP/JUMPI/JUMPDEST/PC, memory + expansion gas, SLOAD/SSTORE with
                    gas and refund, LOG0-4, RETURN/REVERT/STOP/invalid, CALLDATA*/CODE*/RETURNDATA*, the environment reads,
                    CALL/CALLCODE/DELEGATECALL/STATICCALL incl. value transfer (balances, transfer records, 2300 stipend,
                    CallNewAccountGas/CallValueTransferGas), BALANCE/SELFBALANCE, EXTCODESIZE/EXTCODECOPY/EXTCODEHASH,
                    SHA3 (Keccak values are data supplied with the run), CREATE/CREATE2 (thor's address derivation supplied as
                    data, creation counter, collision, $Master log, init code, size/0xEF/deposit checks), SELFDESTRUCT (as coded:
                    immediate account deletion, balance to the receiver first — so beneficiary = self burns the balance).
   out of model   — BLOCKHASH, calls to the precompile addresses 1..9, thor's native-call interception, VTHO (energy): every
                    account is assumed to start with energy 0 / block time 0, under which energy stays 0 during a clause.
   Numbers are unbounded Z; the uint64 checks of the Go code (Uint64WithOverflow, SafeAdd/SafeMul, the 0xffffffffe0 bound)
   are written out; callGas's uint64 subtraction wraps as in Go.  memoryGasCost's words*words is NOT wrapped at 2^64: it can
   wrap only for >= 2^32 words, i.e. >= 3*2^32 gas, which no harness run can reach (see manifest). *)
From Coq Require Import ZArith List Bool.
From Verif Require Import EVM.Word.
Import ListNotations.
Open Scope Z_scope.

(* ------------------------------------------------------------------ byte lists with Z indices *)
Fixpoint zlen {A} (l : list A) : Z := match l with [] => 0 | _ :: t => 1 + zlen t end.
Fixpoint nthz (l : list Z) (i : Z) : Z :=
  match l with [] => 0 | x :: t => if i <=? 0 then x else nthz t (i - 1) end.
Fixpoint dropz {A} (n : Z) (l : list A) : list A :=
  match l with [] => [] | _ :: t => if n <=? 0 then l else dropz (n - 1) t end.
Fixpoint takez {A} (n : Z) (l : list A) : list A :=
  match l with [] => [] | x :: t => if n <=? 0 then [] else x :: takez (n - 1) t end.
Definition zeros (n : Z) : list Z := match n with Zpos p => Pos.iter (cons 0) [] p | _ => [] end.
Definition pad_right (l : list Z) (n : Z) : list Z := l ++ zeros (n - zlen l).
Definition be_to_z (l : list Z) : Z := fold_left (fun acc b => Z.shiftl acc 8 + b) l 0.
Fixpoint to_be (n : nat) (x : Z) (acc : list Z) : list Z :=
  match n with O => acc | S k => to_be k (Z.shiftr x 8) (Z.land x 255 :: acc) end.
Definition word_bytes (x : Z) : list Z := to_be 32 x [].
(* common.go getData: start clamped to len, end clamped to len, right-padded to size *)
Definition get_data (data : list Z) (start size : Z) : list Z :=
  pad_right (takez size (dropz start data)) size.
(* memory.go GetPtr/GetCopy (size 0 -> nil) *)
Definition mslice (mem : list Z) (off size : Z) : list Z :=
  if size =? 0 then [] else takez size (dropz off mem).
Definition mwrite (mem : list Z) (off : Z) (bs : list Z) : list Z :=
  takez off mem ++ bs ++ dropz (off + zlen bs) mem.
(* memory.go Set(offset,size,value): copy(store[offset:offset+size], value) *)
Definition mset (mem : list Z) (off size : Z) (value : list Z) : list Z :=
  if 0 <? size then mwrite mem off (takez size value) else mem.

(* ------------------------------------------------------------------ world, environment, frames *)
Record log := mkLog { l_addr : Z; l_topics : list Z; l_data : list Z }.
(* an account as the EVM sees it through runtime/statedb: balance, code, "has a master" (set by thor's OnCreateContract);
   energy is not modelled (it stays 0 when every account starts with energy 0 / block time 0 and the clause runs at one
   block time, which is how the harness sets the state up).  Exist = not (balance 0, no code, no master). *)
Record account := mkAcc { a_bal : Z; a_code : list Z; a_master : bool }.
Definition empty_acc : account := mkAcc 0 [] false.
(* accounts and storage: association lists, newest binding first; logs and transfers newest first *)
Record world := mkWorld {
  w_accts : list (Z * account); w_store : list (Z * Z * Z); w_logs : list log; w_refund : Z;
  w_transfers : list (Z * Z * Z); w_suicided : list Z }.
(* e_newaddrs: thor.CreateContractAddress(txID, clause, counter) for counter = 0, 1, ..; e_hashes: Keccak-256 of every byte
   string the run hashes (SHA3 operands, init codes, CREATE2 preimages, codes for EXTCODEHASH), computed by the real library *)
Record env := mkEnv {
  e_origin : Z; e_gasprice : Z; e_coinbase : Z; e_timestamp : Z; e_number : Z;
  e_difficulty : Z; e_gaslimit : Z; e_chainid : Z; e_basefee : Z;
  e_newaddrs : list Z; e_hashes : list (list Z * Z); e_master_topic : Z;
  e_fork : Z  (* 0 Byzantium (before ETH_CONST), 1 Constantinople, 2 Istanbul, 3 Shanghai (GALACTICA) *) }.
Record ctx := mkCtx {
  c_addr : Z; c_caller : Z; c_value : Z; c_code : list Z; c_codelen : Z; c_input : list Z; c_static : bool; c_depth : Z }.
(* s_cc: evm.contractCreationCount — a plain field of the EVM, NOT covered by snapshots *)
Record mstate := mkSt {
  s_pc : Z; s_stack : list Z; s_mem : list Z; s_msize : Z; s_gas : Z; s_ret : list Z; s_world : world; s_cc : Z }.

Inductive err := E_oog | E_gasoverflow | E_underflow | E_overflow | E_invalid | E_jump | E_write | E_retdata | E_depth
  | E_balance | E_collision | E_codesize | E_invalidcode | E_codestore.
Inductive outcome := O_ok | O_revert | O_err (e : err) | O_unsupported | O_fuel.
Record fres := mkRes { r_out : outcome; r_data : list Z; r_gas : Z; r_world : world; r_cc : Z }.
Inductive sres := S_next (s : mstate) | S_halt (r : fres).

Fixpoint sload_l (l : list (Z * Z * Z)) (a k : Z) : Z :=
  match l with [] => 0 | (a', k', v) :: t => if (a' =? a) && (k' =? k) then v else sload_l t a k end.
Definition sload (w : world) (a k : Z) : Z := sload_l (w_store w) a k.
Definition set_accts (w : world) (x : list (Z * account)) : world :=
  mkWorld x (w_store w) (w_logs w) (w_refund w) (w_transfers w) (w_suicided w).
Definition set_store (w : world) (x : list (Z * Z * Z)) : world :=
  mkWorld (w_accts w) x (w_logs w) (w_refund w) (w_transfers w) (w_suicided w).
Definition sstore (w : world) (a k v : Z) : world := set_store w ((a, k, v) :: w_store w).
Definition add_log (w : world) (l : log) : world :=
  mkWorld (w_accts w) (w_store w) (l :: w_logs w) (w_refund w) (w_transfers w) (w_suicided w).
Definition add_refund (w : world) (g : Z) : world :=
  mkWorld (w_accts w) (w_store w) (w_logs w) (w_refund w + g) (w_transfers w) (w_suicided w).
Definition add_transfer (w : world) (t : Z * Z * Z) : world :=
  mkWorld (w_accts w) (w_store w) (w_logs w) (w_refund w) (t :: w_transfers w) (w_suicided w).
Definition mark_suicided (w : world) (a : Z) : world :=
  mkWorld (w_accts w) (w_store w) (w_logs w) (w_refund w) (w_transfers w) (a :: w_suicided w).
Fixpoint acct_l (l : list (Z * account)) (a : Z) : account :=
  match l with [] => empty_acc | (a', x) :: t => if a' =? a then x else acct_l t a end.
Definition acct (w : world) (a : Z) : account := acct_l (w_accts w) a.
Definition set_acct (w : world) (a : Z) (x : account) : world := set_accts w ((a, x) :: w_accts w).
Definition balance (w : world) (a : Z) : Z := a_bal (acct w a).
Definition code_of (w : world) (a : Z) : list Z := a_code (acct w a).
Definition is_nil {A} (l : list A) : bool := match l with [] => true | _ => false end.
(* state.Exists = !Account.IsEmpty() *)
Definition exists_acct (w : world) (a : Z) : bool :=
  let x := acct w a in negb (a_bal x =? 0) || negb (is_nil (a_code x)) || a_master x.
Definition set_bal (w : world) (a v : Z) : world :=
  let x := acct w a in set_acct w a (mkAcc v (a_code x) (a_master x)).
Definition set_code (w : world) (a : Z) (c : list Z) : world :=
  let x := acct w a in set_acct w a (mkAcc (a_bal x) c (a_master x)).
Definition set_master (w : world) (a : Z) : world :=
  let x := acct w a in set_acct w a (mkAcc (a_bal x) (a_code x) true).
(* runtime.newEVM Transfer: nothing for amount 0; SubBalance, AddBalance, AddTransfer *)
Definition transfer (w : world) (from to amount : Z) : world :=
  if amount =? 0 then w else
  let w1 := set_bal w from (balance w from - amount) in
  let w2 := set_bal w1 to (balance w1 to + amount) in
  add_transfer w2 (from, to, amount).
Fixpoint has (l : list Z) (a : Z) : bool := match l with [] => false | x :: t => (x =? a) || has t a end.
Fixpoint wipe_l (l : list (Z * Z * Z)) (a : Z) : list (Z * Z * Z) :=
  match l with [] => [] | (a', k, v) :: t => if a' =? a then wipe_l t a else (a', k, v) :: wipe_l t a end.
(* opSuicide: runtime.OnSuicideContract (balance to the receiver + transfer record; energy is 0), then statedb.Suicide:
   if the account exists, state.Delete (balance, code, master cleared; storage barrier raised) and the flag is set *)
Definition selfdestruct (w : world) (self recv : Z) : world :=
  let bal := balance w self in
  let w1 := if bal =? 0 then w else add_transfer (set_bal w recv (balance w recv + bal)) (self, recv, bal) in
  if exists_acct w1 self
  then mark_suicided (set_store (set_acct w1 self empty_acc) (wipe_l (w_store w1) self)) self
  else w1.
Fixpoint list_eqb (a b : list Z) : bool :=
  match a, b with [] , [] => true | x :: a', y :: b' => (x =? y) && list_eqb a' b' | _, _ => false end.
Fixpoint hash_l (l : list (list Z * Z)) (d : list Z) : option Z :=
  match l with [] => None | (p, h) :: t => if list_eqb p d then Some h else hash_l t d end.
Definition keccak (E : env) (d : list Z) : option Z := hash_l (e_hashes E) d.
Fixpoint nth_opt (l : list Z) (i : Z) : option Z :=
  match l with [] => None | x :: t => if i <=? 0 then Some x else nth_opt t (i - 1) end.
Definition ADDR_MOD : Z := 1461501637330902918203684832716283019655932542976.     (* 2^160 *)

(* ------------------------------------------------------------------ decoding (Shanghai jump table) *)
Inductive call_kind := K_CALL | K_CALLCODE | K_DELEGATE | K_STATIC.
Inductive instr :=
  | I_STOP | I_ALU (a : alu_op) | I_SHA3 | I_ADDRESS | I_BALANCE | I_ORIGIN | I_CALLER | I_CALLVALUE | I_CALLDATALOAD
  | I_CALLDATASIZE | I_CALLDATACOPY | I_CODESIZE | I_CODECOPY | I_GASPRICE | I_EXTCODESIZE | I_EXTCODECOPY
  | I_RETURNDATASIZE | I_RETURNDATACOPY | I_EXTCODEHASH | I_BLOCKHASH | I_COINBASE | I_TIMESTAMP | I_NUMBER
  | I_DIFFICULTY | I_GASLIMIT | I_CHAINID | I_SELFBALANCE | I_BASEFEE | I_POP | I_MLOAD | I_MSTORE | I_MSTORE8
  | I_SLOAD | I_SSTORE | I_JUMP | I_JUMPI | I_PC | I_MSIZE | I_GAS | I_JUMPDEST | I_PUSH (n : Z) | I_DUP (n : Z)
  | I_SWAP (n : Z) | I_LOG (n : nat) | I_CREATE | I_CALLI (k : call_kind) | I_RETURN | I_CREATE2 | I_REVERT | I_SELFDESTRUCT.

Definition decode (b : Z) : option instr :=
  if (96 <=? b) && (b <=? 127) then Some (I_PUSH (b - 95))
  else if (128 <=? b) && (b <=? 143) then Some (I_DUP (b - 127))
  else if (144 <=? b) && (b <=? 159) then Some (I_SWAP (b - 143))
  else if (160 <=? b) && (b <=? 164) then Some (I_LOG (Z.to_nat (b - 160)))
  else match b with
  | 0 => Some I_STOP | 1 => Some (I_ALU A_ADD) | 2 => Some (I_ALU A_MUL) | 3 => Some (I_ALU A_SUB)
  | 4 => Some (I_ALU A_DIV) | 5 => Some (I_ALU A_SDIV) | 6 => Some (I_ALU A_MOD) | 7 => Some (I_ALU A_SMOD)
  | 8 => Some (I_ALU A_ADDMOD) | 9 => Some (I_ALU A_MULMOD) | 10 => Some (I_ALU A_EXP) | 11 => Some (I_ALU A_SIGNEXTEND)
  | 16 => Some (I_ALU A_LT) | 17 => Some (I_ALU A_GT) | 18 => Some (I_ALU A_SLT) | 19 => Some (I_ALU A_SGT)
  | 20 => Some (I_ALU A_EQ) | 21 => Some (I_ALU A_ISZERO) | 22 => Some (I_ALU A_AND) | 23 => Some (I_ALU A_OR)
  | 24 => Some (I_ALU A_XOR) | 25 => Some (I_ALU A_NOT) | 26 => Some (I_ALU A_BYTE) | 27 => Some (I_ALU A_SHL)
  | 28 => Some (I_ALU A_SHR) | 29 => Some (I_ALU A_SAR) | 32 => Some I_SHA3
  | 48 => Some I_ADDRESS | 49 => Some I_BALANCE | 50 => Some I_ORIGIN | 51 => Some I_CALLER | 52 => Some I_CALLVALUE
  | 53 => Some I_CALLDATALOAD | 54 => Some I_CALLDATASIZE | 55 => Some I_CALLDATACOPY | 56 => Some I_CODESIZE
  | 57 => Some I_CODECOPY | 58 => Some I_GASPRICE | 59 => Some I_EXTCODESIZE | 60 => Some I_EXTCODECOPY
  | 61 => Some I_RETURNDATASIZE | 62 => Some I_RETURNDATACOPY | 63 => Some I_EXTCODEHASH
  | 64 => Some I_BLOCKHASH | 65 => Some I_COINBASE | 66 => Some I_TIMESTAMP | 67 => Some I_NUMBER
  | 68 => Some I_DIFFICULTY | 69 => Some I_GASLIMIT | 70 => Some I_CHAINID | 71 => Some I_SELFBALANCE | 72 => Some I_BASEFEE
  | 80 => Some I_POP | 81 => Some I_MLOAD | 82 => Some I_MSTORE | 83 => Some I_MSTORE8 | 84 => Some I_SLOAD
  | 85 => Some I_SSTORE | 86 => Some I_JUMP | 87 => Some I_JUMPI | 88 => Some I_PC | 89 => Some I_MSIZE | 90 => Some I_GAS
  | 91 => Some I_JUMPDEST | 95 => Some (I_PUSH 0)
  | 240 => Some I_CREATE | 241 => Some (I_CALLI K_CALL) | 242 => Some (I_CALLI K_CALLCODE) | 243 => Some I_RETURN
  | 244 => Some (I_CALLI K_DELEGATE) | 245 => Some I_CREATE2 | 250 => Some (I_CALLI K_STATIC) | 253 => Some I_REVERT
  | 255 => Some I_SELFDESTRUCT
  | _ => None
  end.

(* jump_table.go: which instructions each fork's table contains (runtime.New turns ETH_CONST / ETH_IST / GALACTICA into the
   Constantinople / Istanbul / Shanghai blocks; Homestead .. Byzantium are always active).  The gas table changes only by
   ExtcodeHash, an instruction that exists from Constantinople on. *)
Definition min_fork (i : instr) : Z :=
  match i with
  | I_ALU A_SHL | I_ALU A_SHR | I_ALU A_SAR | I_EXTCODEHASH | I_CREATE2 => 1
  | I_CHAINID | I_SELFBALANCE => 2
  | I_BASEFEE => 3
  | I_PUSH n => if n =? 0 then 3 else 0
  | _ => 0
  end.
Definition decode_at (fork b : Z) : option instr :=
  match decode b with
  | Some i => if min_fork i <=? fork then Some i else None
  | None => None
  end.

(* stack_table.go: (pop, push) *)
Definition stack_req (i : instr) : Z * Z :=
  match i with
  | I_STOP | I_JUMPDEST => (0, 0)
  | I_ALU a => (alu_arity a, 1)
  | I_SHA3 => (2, 1)
  | I_ADDRESS | I_ORIGIN | I_CALLER | I_CALLVALUE | I_CALLDATASIZE | I_CODESIZE | I_GASPRICE | I_RETURNDATASIZE
  | I_COINBASE | I_TIMESTAMP | I_NUMBER | I_DIFFICULTY | I_GASLIMIT | I_CHAINID | I_SELFBALANCE | I_BASEFEE
  | I_PC | I_MSIZE | I_GAS | I_PUSH _ => (0, 1)
  | I_BALANCE | I_CALLDATALOAD | I_EXTCODESIZE | I_EXTCODEHASH | I_BLOCKHASH | I_MLOAD | I_SLOAD => (1, 1)
  | I_CALLDATACOPY | I_CODECOPY | I_RETURNDATACOPY => (3, 0)
  | I_EXTCODECOPY => (4, 0)
  | I_POP | I_JUMP | I_SELFDESTRUCT => (1, 0)
  | I_MSTORE | I_MSTORE8 | I_SSTORE | I_JUMPI | I_RETURN | I_REVERT => (2, 0)
  | I_DUP n => (n, n + 1)
  | I_SWAP n => (n + 1, n + 1)
  | I_LOG n => (Z.of_nat n + 2, 0)
  | I_CREATE => (3, 1)
  | I_CREATE2 => (4, 1)
  | I_CALLI K_CALL | I_CALLI K_CALLCODE => (7, 1)
  | I_CALLI K_DELEGATE | I_CALLI K_STATIC => (6, 1)
  end.

Definition writes (i : instr) : bool :=
  match i with I_SSTORE | I_LOG _ | I_CREATE | I_CREATE2 | I_SELFDESTRUCT => true | _ => false end.

(* not modelled: the step yields O_unsupported (after stack validation and the static restriction, as those come first) *)
Definition unsupported (i : instr) (st : list Z) : bool :=
  match i with I_BLOCKHASH => true | _ => false end.

(* ------------------------------------------------------------------ memory size (memory_table.go, common.go) *)
Definition calc_mem (off len : Z) : option Z :=
  if W64 <=? len then None
  else if len =? 0 then Some 0
  else if W64 <=? off then None
  else if W64 <=? off + len then None else Some (off + len).
Definition calc_mem_u (off len64 : Z) : option Z :=
  if len64 =? 0 then Some 0
  else if W64 <=? off then None
  else if W64 <=? off + len64 then None else Some (off + len64).
Definition omax (a b : option Z) : option Z :=
  match a, b with Some x, Some y => Some (Z.max x y) | _, _ => None end.
Definition mem_req (i : instr) (st : list Z) : option Z :=
  let s := nthz st in
  match i with
  | I_MLOAD | I_MSTORE => calc_mem_u (s 0) 32
  | I_MSTORE8 => calc_mem_u (s 0) 1
  | I_RETURN | I_REVERT | I_LOG _ | I_SHA3 => calc_mem (s 0) (s 1)
  | I_CALLDATACOPY | I_CODECOPY | I_RETURNDATACOPY => calc_mem (s 0) (s 2)
  | I_EXTCODECOPY => calc_mem (s 1) (s 3)
  | I_CREATE | I_CREATE2 => calc_mem (s 1) (s 2)
  | I_CALLI K_CALL | I_CALLI K_CALLCODE => omax (calc_mem (s 5) (s 6)) (calc_mem (s 3) (s 4))
  | I_CALLI K_DELEGATE | I_CALLI K_STATIC => omax (calc_mem (s 4) (s 5)) (calc_mem (s 2) (s 3))
  | _ => Some 0
  end.
Definition to_words (size : Z) : Z := (size + 31) / 32.

(* ------------------------------------------------------------------ gas (gas_table.go, gas.go) *)
Definition mem_total (words : Z) : Z := words * 3 + words * words / 512.
(* memoryGasCost; mem.lastGasCost always equals mem_total (len/32), so it is recomputed instead of cached *)
Definition mem_gas (msize newsize : Z) : option Z :=
  if newsize =? 0 then Some 0
  else if 1099511627744 <? newsize then None                     (* 0xffffffffe0 *)
  else let words := to_words newsize in
       if msize <? words * 32 then Some (mem_total words - mem_total (msize / 32)) else Some 0.
Definition bit_len (x : Z) : Z := if x <=? 0 then 0 else Z.log2 x + 1.
(* gas.go callGas with gasTable.CreateBySuicide > 0; uint64 arithmetic *)
Definition call_gas (avail base cost : Z) : Z :=
  let a := (avail - base) mod W64 in
  let g := a - a / 64 in
  if (W64 <=? cost) || (g <? cost) then g else cost.
Definition alu_gas (a : alu_op) (st : list Z) : Z :=
  match a with
  | A_ADD | A_SUB | A_LT | A_GT | A_SLT | A_SGT | A_EQ | A_ISZERO | A_AND | A_OR | A_XOR | A_NOT | A_BYTE
  | A_SHL | A_SHR | A_SAR => 3
  | A_MUL | A_DIV | A_SDIV | A_MOD | A_SMOD | A_SIGNEXTEND => 5
  | A_ADDMOD | A_MULMOD => 8
  | A_EXP => 10 + ((bit_len (nthz st 1) + 7) / 8) * 50
  end.
Definition oadd (a : option Z) (b : Z) : option Z :=
  match a with Some x => if W64 <=? x + b then None else Some (x + b) | None => None end.

(* the value operand of a call instruction (third stack item of CALL / CALLCODE; the other two carry none) *)
Definition call_value (k : call_kind) (st : list Z) : Z :=
  match k with K_CALL | K_CALLCODE => nthz st 2 | _ => 0 end.

(* result of the gas function: cost, the call gas handed to the callee (evm.callGasTemp), and the world (gasSStore and
   gasSuicide add their refund while computing the price) *)
Definition gas_cost (cx : ctx) (s : mstate) (i : instr) (newsize : Z) : option (Z * Z * world) :=
  let st := s_stack s in
  let w := s_world s in
  let mg := mem_gas (s_msize s) newsize in
  let plain (c : option Z) := match c with Some c => Some (c, 0, w) | None => None end in
  match i with
  | I_STOP => plain (Some 0)
  | I_ALU a => plain (Some (alu_gas a st))
  | I_ADDRESS | I_ORIGIN | I_CALLER | I_CALLVALUE | I_CALLDATASIZE | I_CODESIZE | I_GASPRICE | I_RETURNDATASIZE
  | I_COINBASE | I_TIMESTAMP | I_NUMBER | I_DIFFICULTY | I_GASLIMIT | I_CHAINID | I_BASEFEE | I_POP | I_PC | I_MSIZE
  | I_GAS => plain (Some 2)
  | I_PUSH n => plain (Some (if n =? 0 then 2 else 3))
  | I_CALLDATALOAD | I_DUP _ | I_SWAP _ => plain (Some 3)
  | I_SELFBALANCE => plain (Some 5)
  | I_BALANCE | I_EXTCODEHASH => plain (Some 400)
  | I_EXTCODESIZE => plain (Some 700)
  | I_BLOCKHASH => plain (Some 20)
  | I_CALLDATACOPY | I_CODECOPY | I_RETURNDATACOPY =>
      plain (oadd (oadd mg 3) (to_words (nthz st 2) * 3))
  | I_EXTCODECOPY => plain (oadd (oadd mg 700) (to_words (nthz st 3) * 3))
  | I_SHA3 => plain (oadd (oadd mg 30) (to_words (nthz st 1) * 6))
  | I_MLOAD | I_MSTORE | I_MSTORE8 => plain (oadd mg 3)
  | I_SLOAD => plain (Some 200)
  | I_SSTORE =>
      let cur := sload w (c_addr cx) (nthz st 0) in
      let y := nthz st 1 in
      if (cur =? 0) && negb (y =? 0) then Some (20000, 0, w)
      else if negb (cur =? 0) && (y =? 0) then Some (5000, 0, add_refund w 15000)
      else Some (5000, 0, w)
  | I_JUMP => plain (Some 8)
  | I_JUMPI => plain (Some 10)
  | I_JUMPDEST => plain (Some 1)
  | I_LOG n =>
      let size := nthz st 1 in
      if W64 <=? size then None
      else if W64 <=? size * 8 then None
      else plain (oadd (oadd (oadd mg 375) (Z.of_nat n * 375)) (size * 8))
  | I_RETURN | I_REVERT => plain mg
  | I_CREATE => plain (oadd mg 32000)
  | I_CREATE2 => plain (oadd (oadd mg 32000) (to_words (nthz st 2) * 6))
  | I_SELFDESTRUCT =>
      let recv := nthz st 0 mod ADDR_MOD in
      let g := 5000 + (if negb (exists_acct w recv) && negb (balance w (c_addr cx) =? 0) then 25000 else 0) in
      Some (g, 0, if has (w_suicided w) (c_addr cx) then w else add_refund w 24000)
  | I_CALLI k =>
      (* gasCall: 700, + 25000 if value goes to an empty account, + 9000 if value; gasCallCode: 700, + 9000 if value *)
      let v := call_value k st in
      let to := nthz st 1 mod ADDR_MOD in
      let extra :=
        (match k with K_CALL => if negb (v =? 0) && negb (exists_acct w to) then 25000 else 0 | _ => 0 end)
        + (if negb (v =? 0) then 9000 else 0) in
      match oadd mg (700 + extra) with
      | None => None
      | Some base =>
          let cg := call_gas (s_gas s) base (nthz st 0) in
          if W64 <=? base + cg then None else Some (base + cg, cg, w)
      end
  end.

(* ------------------------------------------------------------------ jump destinations (contract.go, analysis.go) *)
(* is position target an instruction (not push data)?  walk the code, skipping the operand bytes of PUSH1..PUSH32 *)
Fixpoint is_code_from (code : list Z) (skip i target : Z) : bool :=
  match code with
  | [] => false
  | b :: t =>
      if i =? target then skip =? 0
      else if 0 <? skip then is_code_from t (skip - 1) (i + 1) target
      else is_code_from t (if (96 <=? b) && (b <=? 127) then b - 95 else 0) (i + 1) target
  end.
Definition valid_jumpdest (cx : ctx) (dest : Z) : bool :=
  (dest <? W64) && (dest <? c_codelen cx) && (nthz (c_code cx) dest =? 91) && is_code_from (c_code cx) 0 0 dest.

(* ------------------------------------------------------------------ one interpreter iteration *)
Definition halt (o : outcome) (d : list Z) (s : mstate) : sres := S_halt (mkRes o d (s_gas s) (s_world s) (s_cc s)).
Definition fail (e : err) (s : mstate) : sres := halt (O_err e) [] s.
(* all updates of a running frame except gas and memory size go through upd *)
Definition upd (s : mstate) (pc : Z) (st mem ret : list Z) (w : world) : mstate :=
  mkSt pc st mem (s_msize s) (s_gas s) ret w (s_cc s).
(* stack.push stores a uint256: every pushed value is reduced to 256 bits (the identity on all values that can occur) *)
Definition pushw (v : Z) (st : list Z) : list Z := wrap v :: st.
Definition next (s : mstate) (st : list Z) : sres :=
  S_next (upd s (s_pc s + 1) st (s_mem s) (s_ret s) (s_world s)).
Definition next_mem (s : mstate) (st mem : list Z) : sres :=
  S_next (upd s (s_pc s + 1) st mem (s_ret s) (s_world s)).

Inductive pre_res := P_halt (r : sres) | P_ok (i : instr) (s1 : mstate) (callgas : Z).

(* decode, validateStack, enforceRestrictions, memorySize, gasCost + UseGas, Resize *)
Definition pre (E : env) (cx : ctx) (s : mstate) : pre_res :=
  let b := if s_pc s <? c_codelen cx then nthz (c_code cx) (s_pc s) else 0 in
  match decode_at (e_fork E) b with
  | None => P_halt (fail E_invalid s)
  | Some i =>
      let st := s_stack s in
      let n := zlen st in
      let '(pops, pushes) := stack_req i in
      if n <? pops then P_halt (fail E_underflow s)
      else if 1024 <? n + pushes - pops then P_halt (fail E_overflow s)
      else if c_static cx && (writes i || (match i with I_CALLI K_CALL => negb (nthz st 2 =? 0) | _ => false end))
      then P_halt (fail E_write s)
      else if unsupported i st then P_halt (halt O_unsupported [] s)
      else match mem_req i st with
      | None => P_halt (fail E_gasoverflow s)
      | Some need =>
          let newsize := to_words need * 32 in
          if W64 <=? newsize then P_halt (fail E_gasoverflow s)
          else match gas_cost cx s i newsize with
          | None => P_halt (fail E_oog s)
          | Some (cost, cg, w') =>
              if s_gas s <? cost then P_halt (fail E_oog s)
              else
                let grow := (0 <? newsize) && (s_msize s <? newsize) in
                let mem' := if grow then s_mem s ++ zeros (newsize - s_msize s) else s_mem s in
                let msize' := if grow then newsize else s_msize s in
                P_ok i (mkSt (s_pc s) st mem' msize' (s_gas s - cost) (s_ret s) w' (s_cc s)) cg
          end
      end
  end.

Definition push_bytes (cx : ctx) (pc n : Z) : Z :=
  be_to_z (pad_right (takez n (dropz (pc + 1) (c_code cx))) n).

(* every instruction except the call family; s has gas charged and memory resized *)
Definition exec_plain (E : env) (cx : ctx) (i : instr) (s : mstate) : sres :=
  let st := s_stack s in
  let a := nthz st 0 in let b := nthz st 1 in let c := nthz st 2 in
  match i with
  | I_STOP => halt O_ok [] s
  | I_ALU op => next s (pushw (i_alu op a b c) (dropz (alu_arity op) st))
  | I_ADDRESS => next s (pushw (c_addr cx) (st))
  | I_ORIGIN => next s (pushw (e_origin E) (st))
  | I_CALLER => next s (pushw (c_caller cx) (st))
  | I_CALLVALUE => next s (pushw (c_value cx) (st))
  | I_CALLDATALOAD =>
      next s (pushw (if a <? W64 then be_to_z (get_data (c_input cx) a 32) else 0) (dropz 1 st))
  | I_CALLDATASIZE => next s (pushw (zlen (c_input cx)) (st))
  | I_CALLDATACOPY =>
      next_mem s (dropz 3 st) (mset (s_mem s) a c (get_data (c_input cx) (if b <? W64 then b else W64 - 1) c))
  | I_CODESIZE => next s (pushw (c_codelen cx) (st))
  | I_CODECOPY =>
      next_mem s (dropz 3 st) (mset (s_mem s) a c (get_data (c_code cx) (if b <? W64 then b else W64 - 1) c))
  | I_GASPRICE => next s (pushw (e_gasprice E) (st))
  | I_RETURNDATASIZE => next s (pushw (zlen (s_ret s)) (st))
  | I_RETURNDATACOPY =>
      if W64 <=? b then fail E_retdata s
      else let e := (b + c) mod W in
           if (W64 <=? e) || (zlen (s_ret s) <? e) then fail E_retdata s
           else next_mem s (dropz 3 st) (mset (s_mem s) a c (takez (e - b) (dropz b (s_ret s))))
  | I_COINBASE => next s (pushw (e_coinbase E) (st))
  | I_TIMESTAMP => next s (pushw (e_timestamp E) (st))
  | I_NUMBER => next s (pushw (e_number E) (st))
  | I_DIFFICULTY => next s (pushw (e_difficulty E) (st))
  | I_GASLIMIT => next s (pushw (e_gaslimit E) (st))
  | I_CHAINID => next s (pushw (e_chainid E) (st))
  | I_BASEFEE => next s (pushw (e_basefee E) (st))
  | I_POP => next s (dropz 1 st)
  | I_MLOAD => next s (pushw (be_to_z (mslice (s_mem s) a 32)) (dropz 1 st))
  | I_MSTORE => next_mem s (dropz 2 st) (mwrite (s_mem s) a (word_bytes b))
  | I_MSTORE8 => next_mem s (dropz 2 st) (mwrite (s_mem s) a [Z.land b 255])
  | I_SLOAD => next s (pushw (sload (s_world s) (c_addr cx) a) (dropz 1 st))
  | I_SSTORE =>
      S_next (upd s (s_pc s + 1) (dropz 2 st) (s_mem s) (s_ret s) (sstore (s_world s) (c_addr cx) a b))
  | I_JUMP =>
      if valid_jumpdest cx a then S_next (upd s a (dropz 1 st) (s_mem s) (s_ret s) (s_world s)) else fail E_jump s
  | I_JUMPI =>
      if negb (b =? 0) then
        (if valid_jumpdest cx a then S_next (upd s a (dropz 2 st) (s_mem s) (s_ret s) (s_world s)) else fail E_jump s)
      else next s (dropz 2 st)
  | I_PC => next s (pushw (s_pc s) (st))
  | I_MSIZE => next s (pushw (s_msize s) (st))
  | I_GAS => next s (pushw (s_gas s) (st))
  | I_JUMPDEST => next s st
  | I_PUSH n =>
      S_next (upd s (s_pc s + n + 1) (pushw (push_bytes cx (s_pc s) n) st) (s_mem s) (s_ret s) (s_world s))
  | I_DUP n => next s (pushw (nthz st (n - 1)) (st))
  | I_SWAP n => next s (nthz st n :: takez (n - 1) (dropz 1 st) ++ a :: dropz (n + 1) st)
  | I_LOG n =>
      let l := mkLog (c_addr cx) (takez (Z.of_nat n) (dropz 2 st)) (mslice (s_mem s) a b) in
      S_next (upd s (s_pc s + 1) (dropz (Z.of_nat n + 2) st) (s_mem s) (s_ret s) (add_log (s_world s) l))
  | I_RETURN => halt O_ok (mslice (s_mem s) a b) s
  | I_REVERT => halt O_revert (mslice (s_mem s) a b) s
  | I_BALANCE => next s (pushw (balance (s_world s) (a mod ADDR_MOD)) (dropz 1 st))
  | I_SELFBALANCE => next s (pushw (balance (s_world s) (c_addr cx)) st)
  | I_EXTCODESIZE => next s (pushw (zlen (code_of (s_world s) (a mod ADDR_MOD))) (dropz 1 st))
  | I_EXTCODECOPY =>
      let d := nthz st 3 in
      next_mem s (dropz 4 st)
        (mset (s_mem s) b d (get_data (code_of (s_world s) (a mod ADDR_MOD)) (if c <? W64 then c else W64 - 1) d))
  | I_EXTCODEHASH =>
      (* Empty -> 0 ; no code -> hash of the empty string ; else hash of the code *)
      if negb (exists_acct (s_world s) (a mod ADDR_MOD)) then next s (pushw 0 (dropz 1 st))
      else match keccak E (code_of (s_world s) (a mod ADDR_MOD)) with
           | Some h => next s (pushw h (dropz 1 st))
           | None => halt O_unsupported [] s
           end
  | I_SHA3 =>
      match keccak E (mslice (s_mem s) a b) with
      | Some h => next s (pushw h (dropz 2 st))
      | None => halt O_unsupported [] s
      end
  | I_SELFDESTRUCT =>
      S_halt (mkRes O_ok [] (s_gas s) (selfdestruct (s_world s) (c_addr cx) (a mod ADDR_MOD)) (s_cc s))
  | _ => halt O_unsupported [] s
  end.

(* contracts.go: Byzantium/Constantinople have precompiles 1..8, Istanbul and Shanghai 1..9 *)
Definition precompile (E : env) (a : Z) : bool := (1 <=? a) && (a <=? (if e_fork E <? 2 then 8 else 9)).

(* evm.go call / CallCode / DelegateCall / StaticCall.  d = evm.depth at the call (depth of the calling frame, 0 for the
   top-level entry).  runf is the interpreter for the callee frame.  A failing frame returns the world it was entered with
   (RevertToSnapshot) and, unless it reverted, no gas.  v is the value operand (0 for DELEGATECALL / STATICCALL). *)
Definition do_call (runf : ctx -> mstate -> fres) (E : env)
           (self caller_of_self value_of_self : Z) (static : bool) (d : Z)
           (k : call_kind) (to : Z) (v : Z) (args : list Z) (gas : Z) (w : world) (cc : Z) : fres :=
  if 1024 <? d then mkRes (O_err E_depth) [] gas w cc
  else if (match k with K_CALL => negb (v =? 0) | K_CALLCODE => true | _ => false end) && (balance w self <? v)
  then mkRes (O_err E_balance) [] gas w cc
  else if precompile E to then mkRes O_unsupported [] gas w cc
  else if (match k with K_CALL => true | _ => false end) && negb (exists_acct w to) && (v =? 0)
  then mkRes O_ok [] gas w cc                                   (* CALL: !Exist && value == 0 -> return *)
  else
    let w1 := match k with K_CALL => transfer w self to v | _ => w end in
    let code := code_of w1 to in
    match code with
    | [] => mkRes O_ok [] gas w1 cc                             (* Run with no code -> nil, nil *)
    | _ =>
        let cx' :=
          match k with
          | K_CALL => mkCtx to self v code (zlen code) args static (d + 1)
          | K_STATIC => mkCtx to self 0 code (zlen code) args true (d + 1)
          | K_CALLCODE => mkCtx self self v code (zlen code) args static (d + 1)
          | K_DELEGATE => mkCtx self caller_of_self value_of_self code (zlen code) args static (d + 1)
          end in
        let r := runf cx' (mkSt 0 [] [] 0 gas [] w1 cc) in
        match r_out r with
        | O_ok => r
        | O_revert => mkRes O_revert (r_data r) (r_gas r) w (r_cc r)
        | O_err e => mkRes (O_err e) [] 0 w (r_cc r)
        | O_unsupported => mkRes O_unsupported [] 0 w (r_cc r)
        | O_fuel => mkRes O_fuel [] 0 w (r_cc r)
        end
    end.

(* opCall / opCallCode / opDelegateCall / opStaticCall *)
Definition exec_call (runf : ctx -> mstate -> fres) (E : env) (cx : ctx) (k : call_kind) (s : mstate) (cg : Z) : sres :=
  let st := s_stack s in
  let to := nthz st 1 mod ADDR_MOD in                                             (* Bytes20: low 160 bits *)
  let hv := match k with K_CALL | K_CALLCODE => 1 | _ => 0 end in                 (* these two carry a value operand *)
  let v := call_value k st in
  let in_off := nthz st (2 + hv) in let in_size := nthz st (3 + hv) in
  let ret_off := nthz st (4 + hv) in let ret_size := nthz st (5 + hv) in
  let args := mslice (s_mem s) in_off in_size in
  let gas := if v =? 0 then cg else cg + 2300 in                                  (* params.CallStipend *)
  let r := do_call runf E (c_addr cx) (c_caller cx) (c_value cx) (c_static cx) (c_depth cx) k to v args gas
                   (s_world s) (s_cc s) in
  match r_out r with
  | O_unsupported | O_fuel => S_halt (mkRes (r_out r) [] 0 (s_world s) (r_cc r))
  | o =>
      let flag := match o with O_ok => 1 | _ => 0 end in
      let mem' := match o with O_ok | O_revert => mset (s_mem s) ret_off ret_size (r_data r) | _ => s_mem s end in
      S_next (mkSt (s_pc s + 1) (flag :: dropz (6 + hv) st) mem' (s_msize s) (s_gas s + r_gas r) (r_data r) (r_world r)
                   (r_cc r))
  end.

(* evm.go create(): depth, balance, (nonce: no-op in thor), creation counter, collision, snapshot, OnCreateContract (master +
   $Master log), transfer, run the init code, size / 0xEF / deposit-gas checks, SetCode; failure reverts to the snapshot.
   addr is the new contract's address (computed by the caller of create()). *)
Definition do_create (runf : ctx -> mstate -> fres) (E : env) (self : Z) (static : bool) (d : Z)
           (addr : Z) (init : list Z) (v : Z) (gas : Z) (w : world) (cc : Z) : fres :=
  if 1024 <? d then mkRes (O_err E_depth) [] gas w cc
  else if balance w self <? v then mkRes (O_err E_balance) [] gas w cc
  else
    let cc1 := cc + 1 in
    if negb (is_nil (code_of w addr)) then mkRes (O_err E_collision) [] 0 w cc1
    else
      let w1 := add_log (set_master w addr) (mkLog addr [e_master_topic E] (word_bytes self)) in
      let w2 := transfer w1 self addr v in
      let cx' := mkCtx addr self v init (zlen init) [] static (d + 1) in
      let r := match init with
               | [] => mkRes O_ok [] gas w2 cc1
               | _ => runf cx' (mkSt 0 [] [] 0 gas [] w2 cc1)
               end in
      match r_out r with
      | O_ok =>
          let ret := r_data r in
          if 24576 <? zlen ret then mkRes (O_err E_codesize) [] 0 w (r_cc r)
          else if (3 <=? e_fork E) && negb (is_nil ret) && (nthz ret 0 =? 239) then mkRes (O_err E_invalidcode) [] 0 w (r_cc r)    (* 0xEF *)
          else if r_gas r <? zlen ret * 200 then mkRes (O_err E_codestore) [] 0 w (r_cc r)
          else mkRes O_ok [] (r_gas r - zlen ret * 200) (set_code (r_world r) addr ret) (r_cc r)
      | O_revert => mkRes O_revert (r_data r) (r_gas r) w (r_cc r)
      | O_err e => mkRes (O_err e) [] 0 w (r_cc r)
      | O_unsupported => mkRes O_unsupported [] 0 w (r_cc r)
      | O_fuel => mkRes O_fuel [] 0 w (r_cc r)
      end.

(* instructions.go opCreate / opCreate2 *)
Definition exec_create (runf : ctx -> mstate -> fres) (E : env) (cx : ctx) (two : bool) (s : mstate) : sres :=
  let st := s_stack s in
  let v := nthz st 0 in
  let init := mslice (s_mem s) (nthz st 1) (nthz st 2) in
  let gas := s_gas s - s_gas s / 64 in
  let keep := s_gas s - gas in
  let oaddr :=
    if two then
      match keccak E init with
      | None => None
      | Some h1 =>
          match keccak E (255 :: dropz 12 (word_bytes (c_addr cx)) ++ word_bytes (nthz st 3) ++ word_bytes h1) with
          | None => None
          | Some h2 => Some (h2 mod ADDR_MOD)
          end
      end
    else nth_opt (e_newaddrs E) (s_cc s) in
  match oaddr with
  | None => halt O_unsupported [] s
  | Some addr =>
      let r := do_create runf E (c_addr cx) (c_static cx) (c_depth cx) addr init v gas (s_world s) (s_cc s) in
      match r_out r with
      | O_unsupported | O_fuel => S_halt (mkRes (r_out r) [] 0 (s_world s) (r_cc r))
      | o =>
          let res := match o with O_ok => addr | _ => 0 end in
          let rd := match o with O_revert => r_data r | _ => [] end in
          S_next (mkSt (s_pc s + 1) (pushw res (dropz (if two then 4 else 3) st)) (s_mem s) (s_msize s) (keep + r_gas r) rd
                       (r_world r) (r_cc r))
      end
  end.

Definition step (runf : ctx -> mstate -> fres) (E : env) (cx : ctx) (s : mstate) : sres :=
  match pre E cx s with
  | P_halt r => r
  | P_ok (I_CALLI k) s1 cg => exec_call runf E cx k s1 cg
  | P_ok I_CREATE s1 _ => exec_create runf E cx false s1
  | P_ok I_CREATE2 s1 _ => exec_create runf E cx true s1
  | P_ok i s1 _ => exec_plain E cx i s1
  end.

(* interpreter.Run: the loop.  One unit of fuel per iteration; a callee runs on the remaining fuel. *)
Fixpoint run (fuel : nat) (E : env) (cx : ctx) (s : mstate) : fres :=
  match fuel with
  | O => mkRes O_fuel [] 0 (s_world s) (s_cc s)
  | S f =>
      match step (run f E) E cx s with
      | S_next s' => run f E cx s'
      | S_halt r => r
      end
  end.

(* the entry used by runtime.PrepareClause: evm.Call(origin, to, input, gas, value) at depth 0, creation counter 0 *)
Definition call_top (fuel : nat) (E : env) (static : bool) (to : Z) (v : Z) (input : list Z) (gas : Z) (w : world) : fres :=
  do_call (run fuel E) E (e_origin E) (e_origin E) 0 static 0 K_CALL to v input gas w 0.

(* ------------------------------------------------------------------ canonical view of the final storage (newest binding
   per (contract, slot), in first-seen order); used by the oracle driver for printing *)
Fixpoint seen_in (l : list (Z * Z)) (a k : Z) : bool :=
  match l with [] => false | (a', k') :: t => ((a' =? a) && (k' =? k)) || seen_in t a k end.
Fixpoint store_view_l (l : list (Z * Z * Z)) (seen : list (Z * Z)) : list (Z * Z * Z) :=
  match l with
  | [] => []
  | (a, k, v) :: t => if seen_in seen a k then store_view_l t seen else (a, k, v) :: store_view_l t ((a, k) :: seen)
  end.
Definition store_view (w : world) : list (Z * Z * Z) := store_view_l (w_store w) [].

(* newest binding per account, first-seen order *)
Fixpoint acct_view_l (l : list (Z * account)) (seen : list Z) : list (Z * account) :=
  match l with
  | [] => []
  | (a, x) :: t => if has seen a then acct_view_l t seen else (a, x) :: acct_view_l t (a :: seen)
  end.
Definition acct_view (w : world) : list (Z * account) := acct_view_l (w_accts w) [].
