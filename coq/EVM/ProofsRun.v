(* EVM/ProofsRun.v — properties of the interpreter model for ALL programs, worlds and inputs:
   gas never increases and every non-halting iteration costs at least 1 (so fuel = gas + 1 suffices),
   a static frame changes nothing at any depth, a failing frame returns the world it was entered with. *)
From Coq Require Import ZArith List Bool Lia.
From Verif Require Import EVM.Word EVM.ProofsALU EVM.Model.
Import ListNotations.
Open Scope Z_scope.

(* ------------------------------------------------------------------ invariants *)
Definition stack_ok (st : list Z) : Prop := Forall in_word st.
Definition inv (s : mstate) : Prop := stack_ok (s_stack s) /\ 0 <= s_msize s /\ 0 <= s_gas s.

Lemma wrap_in_word v : in_word (wrap v).
Proof. unfold in_word. rewrite wrap_mod. apply Z.mod_pos_bound. exact W_pos. Qed.
Lemma in_word_0 : in_word 0. Proof. pose proof W_pos. unfold in_word. lia. Qed.
Lemma in_word_1 : in_word 1. Proof. pose proof W_half. pose proof HALF_pos. unfold in_word. lia. Qed.
Lemma nthz_ok st : stack_ok st -> forall i, in_word (nthz st i).
Proof.
  induction 1 as [|x t Hx Ht IH]; intros i; cbn [nthz]. apply in_word_0.
  destruct (i <=? 0); auto.
Qed.
Lemma dropz_ok st : stack_ok st -> forall n, stack_ok (dropz n st).
Proof.
  induction 1 as [|x t Hx Ht IH]; intros n; cbn [dropz]. constructor.
  destruct (n <=? 0). constructor; auto. apply IH.
Qed.
Lemma takez_ok st : stack_ok st -> forall n, stack_ok (takez n st).
Proof.
  induction 1 as [|x t Hx Ht IH]; intros n; cbn [takez]. constructor.
  destruct (n <=? 0). constructor. constructor; auto. apply IH.
Qed.
Lemma pushw_ok v st : stack_ok st -> stack_ok (pushw v st).
Proof. intros. constructor; auto using wrap_in_word. Qed.
Lemma swap_ok st n : stack_ok st -> stack_ok (nthz st n :: takez (n - 1) (dropz 1 st) ++ nthz st 0 :: dropz (n + 1) st).
Proof.
  intros H. constructor. apply nthz_ok; auto. apply Forall_app. split.
  apply takez_ok, dropz_ok; auto. constructor. apply nthz_ok; auto. apply dropz_ok; auto.
Qed.

(* ------------------------------------------------------------------ gas arithmetic *)
Lemma mem_total_mono a b : 0 <= a <= b -> mem_total a <= mem_total b.
Proof.
  intros H. unfold mem_total. assert (a * a <= b * b) by nia.
  assert (a * a / 512 <= b * b / 512) by (apply Z.div_le_mono; lia). lia.
Qed.
Lemma mem_gas_nonneg msize n g : 0 <= msize -> mem_gas msize n = Some g -> 0 <= g.
Proof.
  intros Hm. unfold mem_gas. destruct (n =? 0). { inversion 1; lia. }
  destruct (1099511627744 <? n). { discriminate. }
  destruct (Z.ltb_spec msize (to_words n * 32)); inversion 1; [|lia].
  assert (0 <= msize / 32) by (apply Z.div_pos; lia).
  assert (msize / 32 < to_words n) by (apply Z.div_lt_upper_bound; lia).
  pose proof (mem_total_mono (msize / 32) (to_words n)). lia.
Qed.
Lemma oadd_some a b c : oadd a b = Some c -> exists x, a = Some x /\ c = x + b.
Proof. unfold oadd. destruct a as [x|]; [|discriminate]. destruct (W64 <=? x + b); [discriminate|]. inversion 1. eauto. Qed.
Lemma to_words_nonneg x : 0 <= x -> 0 <= to_words x.
Proof. intros. unfold to_words. apply Z.div_pos; lia. Qed.
Lemma bit_len_nonneg x : 0 <= bit_len x.
Proof. unfold bit_len. destruct (x <=? 0). lia. pose proof (Z.log2_nonneg x). lia. Qed.
Lemma alu_gas_pos a st : 3 <= alu_gas a st.
Proof.
  destruct a; cbn [alu_gas]; try lia.
  pose proof (bit_len_nonneg (nthz st 1)).
  assert (0 <= (bit_len (nthz st 1) + 7) / 8) by (apply Z.div_pos; lia). lia.
Qed.
Lemma call_gas_nonneg avail base c : 0 <= c -> 0 <= call_gas avail base c.
Proof.
  intros Hc. unfold call_gas. set (a := (avail - base) mod W64).
  assert (0 <= a < W64). { apply Z.mod_pos_bound. rewrite W64_eq. lia. }
  assert (a / 64 <= a). { apply Z.div_le_upper_bound; lia. }
  destruct ((W64 <=? c) || (a - a / 64 <? c)); lia.
Qed.

Definition halting (i : instr) : bool := match i with I_STOP | I_RETURN | I_REVERT => true | _ => false end.

Ltac inv_some :=
  repeat match goal with
  | H : Some _ = Some _ |- _ => inversion H; subst; clear H
  | H : None = Some _ |- _ => discriminate H
  | H : oadd _ _ = Some _ |- _ => apply oadd_some in H; destruct H as (? & ? & ?); subst
  end.

Lemma gas_cost_bound cx s i n cost cg w' :
  stack_ok (s_stack s) -> 0 <= s_msize s ->
  gas_cost cx s i n = Some (cost, cg, w') ->
  0 <= cost /\ 0 <= cg /\ (halting i = false -> 1 <= cost) /\
  (forall k, i = I_CALLI k -> 700 + (if call_value k (s_stack s) =? 0 then 0 else 2300) <= cost - cg).
Proof.
  intros Hst Hm H.
  assert (Hmg : forall g, mem_gas (s_msize s) n = Some g -> 0 <= g) by (intros; eapply mem_gas_nonneg; eauto).
  pose proof (nthz_ok _ Hst) as Hn.
  assert (H0 : 0 <= nthz (s_stack s) 0) by apply Hn. assert (H1 : 0 <= nthz (s_stack s) 1) by apply Hn.
  assert (H2 : 0 <= nthz (s_stack s) 2) by apply Hn.
  assert (H3 : 0 <= nthz (s_stack s) 3) by apply Hn.
  pose proof (to_words_nonneg _ H2) as Hw2. pose proof (to_words_nonneg _ H1) as Hw1. pose proof (to_words_nonneg _ H3) as Hw3.
  destruct i; cbn [gas_cost halting] in H |- *;
    try discriminate;
    repeat match goal with
    | H : context [match ?x with _ => _ end] |- _ => destruct x eqn:?
    end; inv_some;
    try match goal with Hq : mem_gas _ _ = Some ?g |- _ => pose proof (Hmg _ Hq) end;
    try (specialize (Hmg _ eq_refl));
    try (repeat split; try lia; try (intros; discriminate); try (intros ? ?; discriminate); fail).
  all: try (match goal with |- context [alu_gas ?a ?st] => pose proof (alu_gas_pos a st) end; repeat split; try lia; intros; discriminate).
  all: match goal with |- context [call_gas ?a ?b ?c] => pose proof (call_gas_nonneg a b c H0) end;
    repeat split; try lia; intros k0 Hk; inversion Hk; subst;
    destruct (call_value _ (s_stack s) =? 0) eqn:E;
    repeat match goal with Hq : context [call_value _ _ =? 0] |- _ => rewrite E in Hq end;
    cbn [negb andb] in *; try discriminate; lia.
Qed.

Lemma gas_cost_world cx s i n cost cg w' :
  gas_cost cx s i n = Some (cost, cg, w') -> writes i = false -> w' = s_world s.
Proof.
  intros H Hw. destruct i; cbn [gas_cost writes] in H, Hw; try discriminate;
    repeat match goal with
    | H : context [match ?x with _ => _ end] |- _ => destruct x eqn:?
    end; inv_some; try reflexivity; try discriminate.
Qed.

(* ------------------------------------------------------------------ pre *)
Lemma pre_halt E cx s r : pre E cx s = P_halt r ->
  exists res, r = S_halt res /\ r_world res = s_world s /\ r_gas res = s_gas s /\ r_out res <> O_fuel.
Proof.
  unfold pre, fail, halt. intros H.
  repeat match goal with
  | H : context [match ?x with _ => _ end] |- _ => destruct x eqn:?
  | H : context [let '(_, _) := ?x in _] |- _ => destruct x eqn:?
  end; try discriminate; inversion H; subst; eexists; (split; [reflexivity|]); cbn; repeat split; try reflexivity; discriminate.
Qed.

Lemma pre_ok E cx s i s1 cg : inv s -> pre E cx s = P_ok i s1 cg ->
  inv s1 /\ s_stack s1 = s_stack s /\
  (exists cost, s_gas s1 = s_gas s - cost /\ 0 <= cost <= s_gas s /\ 0 <= cg /\
                (halting i = false -> 1 <= cost) /\
                (forall k, i = I_CALLI k -> 700 + (if call_value k (s_stack s) =? 0 then 0 else 2300) <= cost - cg)).
Proof.
  intros (Hst & Hm & Hg). unfold pre. intros H.
  repeat match goal with
  | H : context [match ?x with _ => _ end] |- _ => destruct x eqn:?
  | H : context [let '(_, _) := ?x in _] |- _ => destruct x eqn:?
  end; try discriminate.
  all: inversion H; subst; clear H.
  all: match goal with Hc : gas_cost _ _ _ _ = Some _ |- _ => pose proof (gas_cost_bound _ _ _ _ _ _ _ Hst Hm Hc) as (B1 & B2 & B3 & B4) end.
  all: match goal with Hc : (s_gas _ <? ?c) = false |- _ => apply Z.ltb_ge in Hc end.
  all: unfold inv; cbn [s_stack s_msize s_gas]; repeat split; auto; try lia.
  all: try (eexists; repeat split; try reflexivity; try lia; auto).
  all: try match goal with H : (_ && (s_msize _ <? ?n)) = true |- _ => apply andb_prop in H; destruct H as [H' _]; apply Z.ltb_lt in H'; lia end.
Qed.

Lemma pre_static E cx s i s1 cg : pre E cx s = P_ok i s1 cg -> c_static cx = true ->
  s_world s1 = s_world s /\ writes i = false /\ (i = I_CALLI K_CALL -> call_value K_CALL (s_stack s1) = 0).
Proof.
  unfold pre. intros H Hs. rewrite Hs in H.
  repeat match goal with
  | H : context [match ?x with _ => _ end] |- _ => destruct x eqn:?
  | H : context [let '(_, _) := ?x in _] |- _ => destruct x eqn:?
  end; try discriminate.
  all: inversion H; subst; clear H; cbn [s_world s_stack].
  all: match goal with Hw : (true && (writes ?i || _)) = false |- _ =>
         cbn [andb] in Hw; apply orb_false_elim in Hw; destruct Hw as [Hw Hv] end.
  all: split; [eapply gas_cost_world; eauto | split; [assumption|] ].
  all: try (intros; discriminate).
  all: intros _; unfold call_value; apply negb_false_iff in Hv; apply Z.eqb_eq in Hv; exact Hv.
Qed.

(* ------------------------------------------------------------------ exec_plain *)
Lemma exec_plain_world E cx i s :
  match exec_plain E cx i s with
  | S_next s2 => (writes i = false -> s_world s2 = s_world s) /\ s_cc s2 = s_cc s
  | S_halt r => (writes i = false -> r_world r = s_world s) /\ r_gas r = s_gas s /\ r_out r <> O_fuel /\ r_cc r = s_cc s
  end.
Proof.
  destruct i; cbn [exec_plain]; unfold next, next_mem, halt, fail, upd;
    repeat match goal with
    | |- context [if ?c then _ else _] => destruct c
    | |- context [match keccak ?e ?d with _ => _ end] => destruct (keccak e d)
    end;
    cbn; repeat split; try reflexivity; try discriminate; try (intros; reflexivity); try (intros; discriminate).
Qed.

Lemma exec_plain_gas E cx i s s2 : stack_ok (s_stack s) -> exec_plain E cx i s = S_next s2 ->
  s_gas s2 = s_gas s /\ s_msize s2 = s_msize s /\ stack_ok (s_stack s2) /\ halting i = false.
Proof.
  intros Hst. pose proof (dropz_ok _ Hst) as Hd. pose proof (nthz_ok _ Hst) as Hn.
  destruct i; cbn [exec_plain]; unfold next, next_mem, halt, fail, upd;
    repeat match goal with
    | |- context [if ?c then _ else _] => destruct c
    | |- context [match keccak ?e ?d with _ => _ end] => destruct (keccak e d)
    end;
    intros H; inversion H; subst; clear H; cbn [s_gas s_msize s_stack halting];
    repeat split; auto using pushw_ok, swap_ok.
Qed.

(* ------------------------------------------------------------------ calls and creations *)
Lemma transfer_zero w a b : transfer w a b 0 = w.
Proof. reflexivity. Qed.

Lemma do_call_world runf E self cs vs static d k to v args gas w cc :
  (forall cx' s', c_static cx' = true -> r_world (runf cx' s') = s_world s') ->
  static = true \/ k = K_STATIC -> (k = K_CALL -> v = 0) ->
  r_world (do_call runf E self cs vs static d k to v args gas w cc) = w.
Proof.
  intros Hrun Hs Hv. unfold do_call.
  destruct (1024 <? d); [reflexivity|]. destruct (_ && (balance w self <? v)); [reflexivity|].
  destruct (precompile E to); [reflexivity|].
  destruct (_ && negb (exists_acct w to) && (v =? 0)); [reflexivity|].
  assert (Hw1 : (match k with K_CALL => transfer w self to v | _ => w end) = w).
  { destruct k; try reflexivity. rewrite (Hv eq_refl). reflexivity. }
  rewrite Hw1.
  destruct (code_of w to) eqn:Hc; [reflexivity|].
  match goal with |- context [runf ?c ?st] => set (cx' := c); set (s' := st) end.
  assert (Hst : c_static cx' = true). { unfold cx'. destruct Hs as [->| ->]; try destruct k; reflexivity. }
  pose proof (Hrun cx' s' Hst) as Hw. destruct (r_out (runf cx' s')); try reflexivity. exact Hw.
Qed.

Lemma do_call_failed runf E self cs vs static d k to v args gas w cc :
  let r := do_call runf E self cs vs static d k to v args gas w cc in
  r_out r <> O_ok -> r_world r = w.
Proof.
  unfold do_call.
  destruct (1024 <? d); [reflexivity|]. destruct (_ && (balance w self <? v)); [reflexivity|].
  destruct (precompile E to); [reflexivity|].
  destruct (_ && negb (exists_acct w to) && (v =? 0)); [reflexivity|].
  destruct (code_of _ to); [cbn; congruence|].
  match goal with |- context [runf ?c ?st] => set (r := runf c st) end.
  destruct (r_out r) eqn:Ho; cbn; try reflexivity. rewrite Ho. congruence.
Qed.

Lemma do_create_failed runf E self static d addr init v gas w cc :
  let r := do_create runf E self static d addr init v gas w cc in
  r_out r <> O_ok -> r_world r = w.
Proof.
  unfold do_create.
  destruct (1024 <? d); [reflexivity|]. destruct (balance w self <? v); [reflexivity|].
  destruct (negb (is_nil (code_of w addr))); [reflexivity|].
  match goal with |- context [match r_out ?x with _ => _ end] => set (r := x) end.
  destruct (r_out r) eqn:Ho; cbn [r_world r_out]; try reflexivity.
  repeat match goal with |- context [if ?c then _ else _] => destruct c end; cbn [r_world r_out]; try reflexivity; congruence.
Qed.

Lemma do_call_gas runf E self cs vs static d k to v args gas w cc (F : Z) :
  (forall cx' s', inv s' -> s_gas s' < F ->
     r_out (runf cx' s') <> O_fuel /\ 0 <= r_gas (runf cx' s') <= s_gas s') ->
  0 <= gas < F ->
  let r := do_call runf E self cs vs static d k to v args gas w cc in
  r_out r <> O_fuel /\ 0 <= r_gas r <= gas.
Proof.
  intros Hrun Hg. unfold do_call.
  destruct (1024 <? d). { cbn. split; [discriminate|lia]. }
  destruct (_ && (balance w self <? v)). { cbn. split; [discriminate|lia]. }
  destruct (precompile E to). { cbn. split; [discriminate|lia]. }
  destruct (_ && negb (exists_acct w to) && (v =? 0)). { cbn. split; [discriminate|lia]. }
  destruct (code_of _ to). { cbn. split; [discriminate|lia]. }
  match goal with |- context [runf ?c ?st] => set (cx' := c); set (s' := st) end.
  assert (Hi : inv s'). { unfold inv, s'; cbn. repeat split; try lia. constructor. }
  destruct (Hrun cx' s' Hi) as (H1 & H2). { unfold s'; cbn; lia. }
  unfold s' in H2; cbn [s_gas] in H2. fold s' in H2.
  destruct (r_out (runf cx' s')) eqn:Ho; cbn; try (split; [discriminate|lia]).
  - rewrite Ho. split; [discriminate|lia].
  - congruence.
Qed.

Lemma zlen_nonneg {A} (l : list A) : 0 <= zlen l.
Proof. induction l; cbn [zlen]; lia. Qed.

Lemma do_create_gas runf E self static d addr init v gas w cc (F : Z) :
  (forall cx' s', inv s' -> s_gas s' < F ->
     r_out (runf cx' s') <> O_fuel /\ 0 <= r_gas (runf cx' s') <= s_gas s') ->
  0 <= gas < F ->
  let r := do_create runf E self static d addr init v gas w cc in
  r_out r <> O_fuel /\ 0 <= r_gas r <= gas.
Proof.
  intros Hrun Hg. unfold do_create.
  destruct (1024 <? d). { cbn. split; [discriminate|lia]. }
  destruct (balance w self <? v). { cbn. split; [discriminate|lia]. }
  destruct (negb (is_nil (code_of w addr))). { cbn. split; [discriminate|lia]. }
  match goal with |- context [match r_out ?x with _ => _ end] => set (r := x) end.
  assert (Hr : r_out r <> O_fuel /\ 0 <= r_gas r <= gas).
  { unfold r. destruct init as [|b0 init']. { cbn. split; [discriminate|lia]. }
    match goal with |- context [runf ?c ?st] => set (cx' := c); set (s' := st) end.
    assert (Hi : inv s'). { unfold inv, s'; cbn. repeat split; try lia. constructor. }
    destruct (Hrun cx' s' Hi) as (H1 & H2). { unfold s'; cbn; lia. }
    unfold s' in H2; cbn [s_gas] in H2. split; [exact H1|exact H2]. }
  destruct Hr as (Hr1 & Hr2). pose proof (zlen_nonneg (r_data r)) as Hz.
  destruct (r_out r) eqn:Ho; cbn [r_out r_gas]; try (split; [discriminate|lia]); try congruence.
  repeat match goal with |- context [if ?c then _ else _] => destruct c eqn:? end; cbn [r_out r_gas]; split; try discriminate; try lia.
Qed.

Inductive step_kind := SK_call (k : call_kind) | SK_create (two : bool) | SK_plain.
Definition kind_of (i : instr) : step_kind :=
  match i with I_CALLI k => SK_call k | I_CREATE => SK_create false | I_CREATE2 => SK_create true | _ => SK_plain end.
Lemma step_plain runf E cx s i s1 cg : pre E cx s = P_ok i s1 cg -> kind_of i = SK_plain ->
  step runf E cx s = exec_plain E cx i s1.
Proof. intros H Hn. unfold step. rewrite H. destruct i; try reflexivity; discriminate. Qed.
Lemma step_call runf E cx s k s1 cg : pre E cx s = P_ok (I_CALLI k) s1 cg ->
  step runf E cx s = exec_call runf E cx k s1 cg.
Proof. intros H. unfold step. rewrite H. reflexivity. Qed.
Lemma step_create runf E cx s i two s1 cg : pre E cx s = P_ok i s1 cg -> kind_of i = SK_create two ->
  step runf E cx s = exec_create runf E cx two s1.
Proof. intros H Hk. unfold step. rewrite H. destruct i; try discriminate; inversion Hk; reflexivity. Qed.
Lemma kind_call i k : kind_of i = SK_call k -> i = I_CALLI k.
Proof. destruct i; cbn; try discriminate. inversion 1; reflexivity. Qed.
Lemma kind_create_writes i two : kind_of i = SK_create two -> writes i = true /\ halting i = false.
Proof. destruct i; cbn; try discriminate; auto. Qed.

(* ------------------------------------------------------------------ termination and gas *)
Lemma run_gas fuel : forall E cx s, inv s -> s_gas s < Z.of_nat fuel ->
  r_out (run fuel E cx s) <> O_fuel /\ 0 <= r_gas (run fuel E cx s) <= s_gas s.
Proof.
  induction fuel as [|f IH]; intros E cx s Hinv Hlt.
  { destruct Hinv as (_ & _ & Hg). lia. }
  cbn [run]. destruct (pre E cx s) as [r0|i s1 cg] eqn:Hpre.
  - (* halted before execution *)
    destruct (pre_halt _ _ _ _ Hpre) as (res & -> & _ & Hgas & Hout).
    unfold step. rewrite Hpre. rewrite Hgas. destruct Hinv as (_ & _ & Hg). split; [assumption|lia].
  - destruct (pre_ok _ _ _ _ _ _ Hinv Hpre) as (Hinv1 & Hstk & cost & Hg1 & Hc & Hcg & Hnh & Hcall).
    destruct Hinv1 as (Hst1 & Hm1 & Hgas1).
    destruct (kind_of i) as [k|two|] eqn:Hic.
    + (* call family *)
      apply kind_call in Hic. subst i. rewrite (step_call _ _ _ _ _ _ _ Hpre).
      specialize (Hcall k eq_refl). rewrite <- Hstk in Hcall.
      unfold exec_call.
      set (v := call_value k (s_stack s1)) in *.
      set (gas' := if v =? 0 then cg else cg + 2300).
      assert (Hgas' : 0 <= gas' /\ gas' <= cg + (if v =? 0 then 0 else 2300) /\ gas' < Z.of_nat f).
      { unfold gas'. destruct (v =? 0); lia. }
      match goal with |- context [do_call ?rf ?e ?a ?b ?c ?d ?dd ?kk ?t ?vv ?ar ?g ?w ?ccc] =>
        pose proof (do_call_gas rf e a b c d dd kk t vv ar g w ccc (Z.of_nat f)) as Hd;
        set (r := do_call rf e a b c d dd kk t vv ar g w ccc) in * end.
      destruct Hd as (Ho & Hrg).
      { intros cx' s' Hi' Hl'. apply IH; assumption. }
      { lia. }
      destruct (r_out r) eqn:Hor; try congruence.
      * match goal with |- context [run f E cx ?st2] => set (s2 := st2) end.
        assert (Hi2 : inv s2). { unfold inv, s2; cbn. repeat split; try lia. constructor. apply in_word_1. apply dropz_ok; assumption. }
        destruct (IH E cx s2 Hi2) as (A & B). { unfold s2; cbn. lia. }
        unfold s2 in B; cbn [s_gas] in B. fold s2 in B. split; [exact A|lia].
      * match goal with |- context [run f E cx ?st2] => set (s2 := st2) end.
        assert (Hi2 : inv s2). { unfold inv, s2; cbn. repeat split; try lia. constructor. apply in_word_0. apply dropz_ok; assumption. }
        destruct (IH E cx s2 Hi2) as (A & B). { unfold s2; cbn. lia. }
        unfold s2 in B; cbn [s_gas] in B. fold s2 in B. split; [exact A|lia].
      * match goal with |- context [run f E cx ?st2] => set (s2 := st2) end.
        assert (Hi2 : inv s2). { unfold inv, s2; cbn. repeat split; try lia. constructor. apply in_word_0. apply dropz_ok; assumption. }
        destruct (IH E cx s2 Hi2) as (A & B). { unfold s2; cbn. lia. }
        unfold s2 in B; cbn [s_gas] in B. fold s2 in B. split; [exact A|lia].
      * cbn. split; [discriminate|lia].
    + (* CREATE / CREATE2 *)
      destruct (kind_create_writes _ _ Hic) as (_ & Hh). specialize (Hnh Hh).
      rewrite (step_create _ _ _ _ _ _ _ _ Hpre Hic). unfold exec_create.
      match goal with |- context [match ?o with Some _ => _ | None => _ end] => destruct o as [addr|] end.
      2:{ cbn. split; [discriminate|lia]. }
      assert (Hq : 0 <= s_gas s1 / 64 <= s_gas s1). { split. apply Z.div_pos; lia. apply Z.div_le_upper_bound; lia. }
      match goal with |- context [do_create ?rf ?e ?a ?b ?c ?ad ?ini ?vv ?g ?w ?ccc] =>
        pose proof (do_create_gas rf e a b c ad ini vv g w ccc (Z.of_nat f)) as Hd;
        set (r := do_create rf e a b c ad ini vv g w ccc) in * end.
      destruct Hd as (Ho & Hrg).
      { intros cx' s' Hi' Hl'. apply IH; assumption. }
      { lia. }
      destruct (r_out r) eqn:Hor; try congruence.
      * match goal with |- context [run f E cx ?st2] => set (s2 := st2) end.
        assert (Hi2 : inv s2) by (unfold inv, s2; cbn; repeat split; try lia; apply pushw_ok, dropz_ok; assumption).
        destruct (IH E cx s2 Hi2) as (A & B). { unfold s2; cbn; lia. }
        unfold s2 in B; cbn [s_gas] in B; fold s2 in B. split; [exact A|lia].
      * match goal with |- context [run f E cx ?st2] => set (s2 := st2) end.
        assert (Hi2 : inv s2) by (unfold inv, s2; cbn; repeat split; try lia; apply pushw_ok, dropz_ok; assumption).
        destruct (IH E cx s2 Hi2) as (A & B). { unfold s2; cbn; lia. }
        unfold s2 in B; cbn [s_gas] in B; fold s2 in B. split; [exact A|lia].
      * match goal with |- context [run f E cx ?st2] => set (s2 := st2) end.
        assert (Hi2 : inv s2) by (unfold inv, s2; cbn; repeat split; try lia; apply pushw_ok, dropz_ok; assumption).
        destruct (IH E cx s2 Hi2) as (A & B). { unfold s2; cbn; lia. }
        unfold s2 in B; cbn [s_gas] in B; fold s2 in B. split; [exact A|lia].
      * cbn. split; [discriminate|lia].
    + (* every other instruction *)
      rewrite (step_plain _ _ _ _ _ _ _ Hpre Hic).
      pose proof (exec_plain_world E cx i s1) as Hw.
      destruct (exec_plain E cx i s1) as [s2|res] eqn:Hex.
      * destruct (exec_plain_gas _ _ _ _ _ Hst1 Hex) as (G1 & G2 & G3 & G4).
        specialize (Hnh G4).
        assert (Hi2 : inv s2) by (unfold inv; repeat split; try assumption; lia).
        destruct (IH E cx s2 Hi2) as (A & B). { lia. }
        split; [exact A|lia].
      * destruct Hw as (_ & Hg2 & Ho & _). rewrite Hg2. split; [exact Ho|lia].
Qed.

(* ------------------------------------------------------------------ static frames write nothing *)
Lemma run_static fuel : forall E cx s, c_static cx = true -> r_world (run fuel E cx s) = s_world s.
Proof.
  induction fuel as [|f IH]; intros E cx s Hs. { reflexivity. }
  cbn [run]. destruct (pre E cx s) eqn:Hpre.
  - destruct (pre_halt _ _ _ _ Hpre) as (res & -> & Hw & _ & _). unfold step. rewrite Hpre. exact Hw.
  - destruct (pre_static _ _ _ _ _ _ Hpre Hs) as (Hw1 & Hwr & Hval).
    destruct (kind_of i) as [k|two|] eqn:Hic.
    + apply kind_call in Hic. subst i. rewrite (step_call _ _ _ _ _ _ _ Hpre).
      unfold exec_call.
      match goal with |- context [do_call ?rf ?e ?a ?b ?c ?d ?dd ?kk ?t ?vv ?ar ?g ?w ?ccc] =>
        pose proof (do_call_world rf e a b c d dd kk t vv ar g w ccc) as Hd;
        set (r := do_call rf e a b c d dd kk t vv ar g w ccc) in * end.
      assert (Hrw : r_world r = s_world s1).
      { apply Hd. intros; apply IH; assumption. left; exact Hs. intros ->. apply Hval. reflexivity. }
      destruct (r_out r); try (cbn; congruence);
        (rewrite IH by exact Hs; cbn [s_world]; congruence).
    + destruct (kind_create_writes _ _ Hic) as (Hx & _). congruence.
    + rewrite (step_plain _ _ _ _ _ _ _ Hpre Hic).
      pose proof (exec_plain_world E cx i s1) as Hw.
      destruct (exec_plain E cx i s1) as [s2|res].
      * rewrite IH by exact Hs. destruct Hw as (Hw & _). rewrite (Hw Hwr). exact Hw1.
      * destruct Hw as (Hw & _). rewrite (Hw Hwr). exact Hw1.
Qed.

(* ------------------------------------------------------------------ the entry point *)
Theorem call_top_terminates fuel E static to v input gas w :
  0 <= gas < Z.of_nat fuel ->
  let r := call_top fuel E static to v input gas w in
  r_out r <> O_fuel /\ 0 <= r_gas r <= gas.
Proof.
  intros Hg. unfold call_top. apply do_call_gas with (F := Z.of_nat fuel); [|exact Hg].
  intros cx' s' Hi Hl. apply run_gas; assumption.
Qed.

Theorem call_top_failed fuel E static to v input gas w :
  let r := call_top fuel E static to v input gas w in
  r_out r <> O_ok -> r_world r = w.
Proof. unfold call_top. apply do_call_failed. Qed.

Theorem call_top_static fuel E to input gas w :
  r_world (call_top fuel E true to 0 input gas w) = w.
Proof.
  unfold call_top. apply do_call_world; [|left; reflexivity|reflexivity].
  intros cx' s' Hs. apply run_static. exact Hs.
Qed.

Theorem frame_failed fuel E self cs vs static d k to v args gas w cc :
  let r := do_call (run fuel E) E self cs vs static d k to v args gas w cc in
  r_out r <> O_ok -> r_world r = w.
Proof. apply do_call_failed. Qed.
Theorem create_failed fuel E self static d addr init v gas w cc :
  let r := do_create (run fuel E) E self static d addr init v gas w cc in
  r_out r <> O_ok -> r_world r = w.
Proof. apply do_create_failed. Qed.
Theorem frame_static fuel E self cs vs static d k to v args gas w cc :
  static = true \/ k = K_STATIC -> (k = K_CALL -> v = 0) ->
  r_world (do_call (run fuel E) E self cs vs static d k to v args gas w cc) = w.
Proof. intros H Hv. apply do_call_world; [|exact H|exact Hv]. intros; apply run_static; assumption. Qed.

(* the ALU instructions of a running frame push the mathematical result *)
Theorem alu_step_math E cx op s : stack_ok (s_stack s) ->
  exec_plain E cx (I_ALU op) s =
  next s (pushw (m_alu op (nthz (s_stack s) 0) (nthz (s_stack s) 1) (nthz (s_stack s) 2)) (dropz (alu_arity op) (s_stack s))).
Proof.
  intros H. cbn [exec_plain]. rewrite alu_matches_math_lemma by (apply nthz_ok; assumption). reflexivity.
Qed.

(* ------------------------------------------------------------------ more fuel never changes a finished run *)
Lemma step_mono runf rung E cx s :
  (forall cx' s', r_out (runf cx' s') <> O_fuel -> rung cx' s' = runf cx' s') ->
  (forall res, step runf E cx s = S_halt res -> r_out res <> O_fuel) ->
  step rung E cx s = step runf E cx s.
Proof.
  intros Hsame Hnf. unfold step in *. destruct (pre E cx s) as [r|i s1 cg]; [reflexivity|].
  assert (D : forall x, r_out x = O_fuel \/ r_out x <> O_fuel).
  { intros x. destruct (r_out x); (left; reflexivity) || (right; discriminate). }
  destruct i; try reflexivity.
  - (* CREATE *)
    unfold exec_create, do_create in *.
    match goal with |- context [match ?o with Some _ => _ | None => _ end] => destruct o as [addr|]; [|reflexivity] end.
    destruct (1024 <? c_depth cx); [reflexivity|]. destruct (balance _ _ <? _); [reflexivity|].
    destruct (negb (is_nil _)); [reflexivity|].
    destruct (mslice _ _ _) eqn:Hinit; [reflexivity|].
    match goal with |- context [rung ?c ?st] => set (cx' := c) in *; set (s' := st) in * end.
    destruct (D (runf cx' s')) as [Hf|Hn].
    + exfalso. rewrite Hf in Hnf. cbn in Hnf. eapply Hnf; reflexivity.
    + rewrite (Hsame _ _ Hn). reflexivity.
  - (* CALL family *)
    unfold exec_call, do_call in *.
    destruct (1024 <? c_depth cx); [reflexivity|]. destruct (_ && (balance _ _ <? _)); [reflexivity|].
    destruct (precompile _); [reflexivity|].
    destruct (_ && negb (exists_acct _ _) && (_ =? 0)); [reflexivity|].
    destruct (code_of _ _); [reflexivity|].
    match goal with |- context [rung ?c ?st] => set (cx' := c) in *; set (s' := st) in * end.
    destruct (D (runf cx' s')) as [Hf|Hn].
    + exfalso. rewrite Hf in Hnf. cbn in Hnf. eapply Hnf; reflexivity.
    + rewrite (Hsame _ _ Hn). reflexivity.
  - (* CREATE2 *)
    unfold exec_create, do_create in *.
    match goal with |- context [match ?o with Some _ => _ | None => _ end] => destruct o as [addr|]; [|reflexivity] end.
    destruct (1024 <? c_depth cx); [reflexivity|]. destruct (balance _ _ <? _); [reflexivity|].
    destruct (negb (is_nil _)); [reflexivity|].
    destruct (mslice _ _ _) eqn:Hinit; [reflexivity|].
    match goal with |- context [rung ?c ?st] => set (cx' := c) in *; set (s' := st) in * end.
    destruct (D (runf cx' s')) as [Hf|Hn].
    + exfalso. rewrite Hf in Hnf. cbn in Hnf. eapply Hnf; reflexivity.
    + rewrite (Hsame _ _ Hn). reflexivity.
Qed.

Lemma run_mono f : forall E cx s, r_out (run f E cx s) <> O_fuel ->
  forall f', (f <= f')%nat -> run f' E cx s = run f E cx s.
Proof.
  induction f as [|f IH]; intros E cx s Hnf f' Hle. { cbn in Hnf. congruence. }
  destruct f' as [|g]; [lia|]. assert (Hfg : (f <= g)%nat) by lia.
  cbn [run] in *.
  assert (Hstep : step (run g E) E cx s = step (run f E) E cx s).
  { apply step_mono.
    - intros cx' s' H. apply IH; assumption.
    - intros res Hres. rewrite Hres in Hnf. exact Hnf. }
  rewrite Hstep. destruct (step (run f E) E cx s) as [s2|res]; [|reflexivity].
  apply IH; assumption.
Qed.

Theorem call_top_fuel_irrelevant f f' E static to v input gas w :
  r_out (call_top f E static to v input gas w) <> O_fuel -> (f <= f')%nat ->
  call_top f' E static to v input gas w = call_top f E static to v input gas w.
Proof.
  intros Hnf Hle. unfold call_top, do_call in *.
  destruct (1024 <? 0); [reflexivity|]. destruct (_ && (balance _ _ <? _)); [reflexivity|].
  destruct (precompile E to); [reflexivity|].
  destruct (_ && negb (exists_acct _ _) && (_ =? 0)); [reflexivity|].
  destruct (code_of _ to); [reflexivity|].
  match goal with |- context [run f' E ?c ?st] => set (cx' := c) in *; set (s' := st) in * end.
  assert (D : r_out (run f E cx' s') = O_fuel \/ r_out (run f E cx' s') <> O_fuel).
  { destruct (r_out (run f E cx' s')); (left; reflexivity) || (right; discriminate). }
  destruct D as [Hf|Hn].
  - exfalso. rewrite Hf in Hnf. apply Hnf. reflexivity.
  - rewrite (run_mono f E cx' s' Hn f' Hle). reflexivity.
Qed.
