(* EVM/Journal.v — the mechanism behind vm.StateDB.Snapshot / RevertToSnapshot in thor, as coded:
   /repo/stackedmap/stackedmap.go (levels of puts; Push / Put / Get / Pop / PopTo / Journal),
   /repo/runtime/statedb/statedb.go  Snapshot():  srev := state.NewCheckpoint(); repo.Put(stateRevKey, srev); return repo.Push()
                                     RevertToSnapshot(rev): repo.PopTo(rev); srev := repo.Get(stateRevKey); state.RevertTo(srev)
   /repo/state/state.go              NewCheckpoint() = sm.Push(), RevertTo(rev) = sm.PopTo(rev)   (a second StackedMap).
   Keys and values are Z here (Go: any).  StackedMap.keyRevisionMap is an index (key -> levels holding it) that makes Get O(1);
   Get's result is the value in the highest level that holds the key, which is what get_levels computes by search.
   Definitions only; proofs in ProofsJournal.v. *)
From Coq Require Import ZArith List Bool.
Import ListNotations.
Open Scope Z_scope.

Definition level := list (Z * Z).            (* the puts of one level, newest first (kvs = newest binding per key) *)
Definition smap := list level.               (* mapStack, top of the stack first; never empty (New creates one level) *)

Definition depth (sm : smap) : nat := length sm.                                   (* Depth() = len(mapStack) *)
Definition push (sm : smap) : smap * nat := ([] :: sm, depth sm).                 (* Push(): returns len-1 after the push *)
Definition put (sm : smap) (k v : Z) : smap :=
  match sm with l :: t => ((k, v) :: l) :: t | [] => [] end.                      (* Put: into the top level *)
Fixpoint pop_to (sm : smap) (d : nat) : smap :=                                   (* PopTo(d): Pop while len > d *)
  match sm with
  | [] => []
  | _ :: t => if Nat.leb (length sm) d then sm else pop_to t d
  end.
Fixpoint find_l (l : level) (k : Z) : option Z :=
  match l with [] => None | (k', v) :: t => if k' =? k then Some v else find_l t k end.
Fixpoint get_levels (sm : smap) (k : Z) : option Z :=
  match sm with [] => None | l :: t => match find_l l k with Some v => Some v | None => get_levels t k end end.
Definition get (src : Z -> option Z) (sm : smap) (k : Z) : option Z :=           (* Get: levels, then the MapGetter *)
  match get_levels sm k with Some v => Some v | None => src k end.
Definition journal (sm : smap) : list (Z * Z) := concat (rev (map (@rev (Z * Z)) sm)).   (* Journal(): all puts, oldest first *)

(* statedb.StateDB = the state's stacked map + the repo (refund, logs, transfers, suicide flags, stateRevKey) *)
Record sdb := mkSdb { d_state : smap; d_repo : smap }.
Definition SRK : Z := -1.                                                         (* stateRevKey{} *)
Definition snapshot (s : sdb) : sdb * nat :=
  let '(st', srev) := push (d_state s) in
  let '(repo', rev) := push (put (d_repo s) SRK (Z.of_nat srev)) in
  (mkSdb st' repo', rev).
Definition revert_to (s : sdb) (rev : nat) : sdb :=
  let repo' := pop_to (d_repo s) rev in
  match get_levels repo' SRK with
  | Some srev => mkSdb (pop_to (d_state s) (Z.to_nat srev)) repo'
  | None => s                                                                     (* Go: panic("state checkpoint missing") *)
  end.

(* what a call frame does to the StateDB: writes to the state (storage, balances, code, ...), writes to the repo (logs, refund,
   ...), and nested frames, each of which takes a snapshot, runs, and reverts to it iff it failed (evm.go call/create) *)
Inductive act := A_state (k v : Z) | A_repo (k v : Z) | A_frame (body : list act) (failed : bool).
Fixpoint run_act (a : act) (s : sdb) : sdb :=
  match a with
  | A_state k v => mkSdb (put (d_state s) k v) (d_repo s)
  | A_repo k v => mkSdb (d_state s) (put (d_repo s) k v)
  | A_frame body failed =>
      let '(s1, rev) := snapshot s in
      let s2 := fold_left (fun st a' => run_act a' st) body s1 in
      if failed then revert_to s2 rev else s2
  end.
Definition run_acts (l : list act) (s : sdb) : sdb := fold_left (fun st a => run_act a st) l s.
