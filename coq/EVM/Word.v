(* EVM/Word.v — 256-bit words as Z in [0, 2^256): (1) the *mathematical* definition of every arithmetic,
   comparison, bitwise and shift instruction (Yellow Paper / EIP-145), prefix m_ ; (2) the *interpreter's* version,
   prefix i_, transcribed from /repo/vm/instructions.go and the holiman/uint256 v1.2.4 methods it calls
   (Div/Mod shortcuts, SDiv/SMod via Sign/Neg, Slt/Sgt via sign cases, ExtendSign via bit test and masks, Byte via
   limb selection, Exp by square-and-multiply over the exponent's bits, Lsh/Rsh/SRsh with their >= 256 cut-offs and
   the sign fill).  Limb-level carry chains, udivrem, umul and reduce4 are represented by Z arithmetic (tied by the
   correspondence run only).  Definitions only; proofs are in ProofsALU.v.
   Operand order everywhere: first argument = top of stack, second = next, third = third. *)
From Coq Require Import ZArith Bool.
Open Scope Z_scope.

Definition W    : Z := Eval vm_compute in 2 ^ 256.
Definition HALF : Z := Eval vm_compute in 2 ^ 255.
Definition W64  : Z := Eval vm_compute in 2 ^ 64.
Definition MASK : Z := Eval vm_compute in 2 ^ 256 - 1.
(* reduction modulo 2^256 as the implementation does it: keep the low 256 bits (= x mod W, lemma wrap_mod) *)
Definition wrap (x : Z) : Z := Z.land x MASK.
Definition in_word (x : Z) : Prop := 0 <= x < W.
Definition signed (x : Z) : Z := if x <? HALF then x else x - W.
Definition b2w (b : bool) : Z := if b then 1 else 0.

(* ------------------------------------------------------------------ mathematical definitions *)
Definition m_add a b := (a + b) mod W.
Definition m_mul a b := (a * b) mod W.
Definition m_sub a b := (a - b) mod W.
Definition m_div a b := if b =? 0 then 0 else a / b.
Definition m_sdiv a b := if b =? 0 then 0 else (Z.quot (signed a) (signed b)) mod W.     (* truncated *)
Definition m_mod a b := if b =? 0 then 0 else a mod b.
Definition m_smod a b := if b =? 0 then 0 else (Z.rem (signed a) (signed b)) mod W.      (* sign of dividend *)
Definition m_addmod a b n := if n =? 0 then 0 else (a + b) mod n.                        (* unbounded intermediate *)
Definition m_mulmod a b n := if n =? 0 then 0 else (a * b) mod n.
Definition m_exp a b := (a ^ b) mod W.
(* value of the low t bits read as a t-bit two's complement number *)
Definition signed_t (t v : Z) : Z := if v <? 2 ^ (t - 1) then v else v - 2 ^ t.
Definition m_signextend k x := if k <? 32 then let t := 8 * (k + 1) in (signed_t t (x mod 2 ^ t)) mod W else x.
Definition m_lt a b := b2w (a <? b).
Definition m_gt a b := b2w (b <? a).
Definition m_slt a b := b2w (signed a <? signed b).
Definition m_sgt a b := b2w (signed b <? signed a).
Definition m_eq a b := b2w (a =? b).
Definition m_iszero a := b2w (a =? 0).
Definition m_and a b := Z.land a b.
Definition m_or a b := Z.lor a b.
Definition m_xor a b := Z.lxor a b.
Definition m_not a := W - 1 - a.
Definition m_byte i x := if i <? 32 then (x / 2 ^ (8 * (31 - i))) mod 256 else 0.
Definition m_shl n x := (x * 2 ^ n) mod W.
Definition m_shr n x := x / 2 ^ n.
Definition m_sar n x := (signed x / 2 ^ n) mod W.                                         (* floor *)

(* ------------------------------------------------------------------ uint256 methods as used by the interpreter *)
Definition u_add x y := wrap (x + y).
Definition u_sub x y := wrap (x - y).
Definition u_mul x y := wrap (x * y).
Definition u_neg x := u_sub 0 x.
Definition u_sign x : Z := if x =? 0 then 0 else if x <? HALF then 1 else -1.
(* Div: y == 0 || y > x -> 0 ; x == y -> 1 ; (uint64 shortcut / udivrem) -> quotient *)
Definition u_div x y := if (y =? 0) || (x <? y) then 0 else if x =? y then 1 else x / y.
(* Mod: x == 0 || y == 0 -> 0 ; x < y -> x ; x == y -> 0 ; else remainder *)
Definition u_mod x y :=
  if (x =? 0) || (y =? 0) then 0 else
  match x ?= y with Lt => x | Eq => 0 | Gt => x mod y end.
Definition u_sdiv n d :=
  if 0 <? u_sign n then
    (if 0 <? u_sign d then u_div n d else u_neg (u_div n (u_neg d)))
  else if u_sign d <? 0 then u_div (u_neg n) (u_neg d)
  else u_neg (u_div (u_neg n) d).
Definition u_smod x y :=
  let ys := u_sign y in let xs := u_sign x in
  let x' := if xs =? -1 then u_neg x else x in
  let y' := if ys =? -1 then u_neg y else y in
  let z := u_mod x' y' in
  if xs =? -1 then u_neg z else z.
Definition u_slt z x :=
  let zs := u_sign z in let xs := u_sign x in
  if (0 <=? zs) && (xs <? 0) then false
  else if (zs <? 0) && (0 <=? xs) then true
  else z <? x.
Definition u_sgt z x :=
  let zs := u_sign z in let xs := u_sign x in
  if (0 <=? zs) && (xs <? 0) then true
  else if (zs <? 0) && (0 <=? xs) then false
  else x <? z.
Definition u_not x := wrap (Z.lnot x).
(* the four 64-bit limbs z[0] (least significant) .. z[3] *)
Definition limb (x i : Z) : Z := Z.land (Z.shiftr x (64 * i)) 18446744073709551615.
(* bits.Sub64(a, b, borrowIn): borrowOut = 1 iff a < b + borrowIn *)
Definition borrow64 (a b : Z) (bin : bool) : bool := a <? b + b2w bin.
(* Lt: the borrow out of the limb-wise subtraction chain z - x *)
Definition u_lt (z x : Z) : bool :=
  let c0 := borrow64 (limb z 0) (limb x 0) false in
  let c1 := borrow64 (limb z 1) (limb x 1) c0 in
  let c2 := borrow64 (limb z 2) (limb x 2) c1 in
  borrow64 (limb z 3) (limb x 3) c2.
(* Eq: all four limbs equal; IsZero: the OR of the limbs is 0 *)
Definition u_eq (z x : Z) : bool :=
  (limb z 0 =? limb x 0) && (limb z 1 =? limb x 1) && (limb z 2 =? limb x 2) && (limb z 3 =? limb x 3).
Definition u_iszero (z : Z) : bool := Z.lor (Z.lor (Z.lor (limb z 0) (limb z 1)) (limb z 2)) (limb z 3) =? 0.
Definition u_lsh x n := if 256 <=? n then 0 else wrap (Z.shiftl x n).
Definition u_rsh x n := if 256 <=? n then 0 else Z.shiftr x n.
(* SRsh: MSB clear -> Rsh ; otherwise shift and fill the vacated top n bits with ones (all ones from 256 on) *)
Definition u_srsh x n :=
  if negb (Z.testbit x 255) then u_rsh x n
  else if 256 <=? n then W - 1
  else Z.lor (Z.shiftr x n) (Z.shiftl (Z.ones n) (256 - n)).
(* Exp: res := 1, multiplier := base; for each bit of the exponent, least significant first:
   if set, res *= multiplier; multiplier squared.  The loop stops at the exponent's bit length. *)
Fixpoint exp_loop (res mult : Z) (e : positive) : Z :=
  match e with
  | xH => u_mul res mult
  | xO p => exp_loop res (u_mul mult mult) p
  | xI p => exp_loop (u_mul res mult) (u_mul mult mult) p
  end.
Definition u_exp base e := match e with Zpos p => exp_loop 1 base p | _ => 1 end.
(* ExtendSign(x, byteNum) *)
Definition u_extendsign x b :=
  if 31 <? b then x else
  let bit := b * 8 + 7 in
  let mask := u_sub (u_lsh 1 bit) 1 in
  if Z.testbit x bit then Z.lor x (u_not mask) else Z.land x mask.
(* Byte(n): limb z[3 - n/8], mask 0xff00000000000000 >> 8*(n%8), shifted down *)
Definition u_byte val n :=
  if n <? 32 then
    let number := (val / 2 ^ (64 * (3 - n / 8))) mod W64 in
    let offset := (n mod 8) * 8 in
    Z.shiftr (Z.land number (Z.shiftr 18374686479671623680 offset)) (56 - offset)
  else 0.
(* AddMod.  Fast path (m[3] != 0, x[3] <= m[3], y[3] <= m[3]): subtract m once from x and from y if that does not borrow,
   add with carry c1, subtract m with borrow c2, keep the sum iff c1 = 0 and c2 = 1.  General path: AddOverflow; on overflow
   the 257-bit number 2^256 + (x + y mod 2^256) is reduced by udivrem, else Mod.  (opAddmod tests m = 0 before.) *)
Definition u_addmod x y m :=
  let hi v := v / 6277101735386680763835789423207666416102355444464034512896 in          (* v[3] = v / 2^192 *)
  if negb (hi m =? 0) && (hi x <=? hi m) && (hi y <=? hi m) then
    let x' := if m <=? x then x - m else x in
    let y' := if m <=? y then y - m else y in
    let res := wrap (x' + y') in
    let c1 := W <=? x' + y' in
    let tmp := wrap (res - m) in
    let c2 := res <? m in
    if negb c1 && c2 then res else tmp
  else if m =? 0 then 0
  else let s := wrap (x + y) in
       if W <=? x + y then (s + W) mod m else u_mod s m.
Definition u_mulmod x y m := if (x =? 0) || (y =? 0) || (m =? 0) then 0 else (x * y) mod m.

(* ------------------------------------------------------------------ the instructions (vm/instructions.go) *)
Definition i_add := u_add.
Definition i_mul := u_mul.
Definition i_sub := u_sub.
Definition i_div := u_div.
Definition i_sdiv := u_sdiv.
Definition i_mod := u_mod.
Definition i_smod := u_smod.
Definition i_addmod x y z := if z =? 0 then 0 else u_addmod x y z.          (* opAddmod tests z.IsZero() itself *)
Definition i_mulmod := u_mulmod.
Definition i_exp := u_exp.
Definition i_signextend back num := u_extendsign num back.
Definition i_lt x y := b2w (u_lt x y).
Definition i_gt x y := b2w (u_lt y x).                                        (* Gt: x.Lt(z) *)
Definition i_slt x y := b2w (u_slt x y).
Definition i_sgt x y := b2w (u_sgt x y).
Definition i_eq x y := b2w (u_eq x y).
Definition i_iszero x := b2w (u_iszero x).
Definition i_and x y := Z.land x y.
Definition i_or x y := Z.lor x y.
Definition i_xor x y := Z.lxor x y.
Definition i_not := u_not.
Definition i_byte th val := u_byte val th.
Definition i_shl shift value := if shift <? 256 then u_lsh value shift else 0.
Definition i_shr shift value := if shift <? 256 then u_rsh value shift else 0.
Definition i_sar shift value :=
  if 256 <? shift then (if 0 <=? u_sign value then 0 else W - 1)            (* GtUint64(256): 256 itself goes to SRsh *)
  else u_srsh value shift.

Inductive alu_op :=
  | A_ADD | A_MUL | A_SUB | A_DIV | A_SDIV | A_MOD | A_SMOD | A_ADDMOD | A_MULMOD | A_EXP | A_SIGNEXTEND
  | A_LT | A_GT | A_SLT | A_SGT | A_EQ | A_ISZERO | A_AND | A_OR | A_XOR | A_NOT | A_BYTE | A_SHL | A_SHR | A_SAR.

(* a = top of stack, b = second, c = third (unused operands are ignored) *)
Definition i_alu (op : alu_op) (a b c : Z) : Z :=
  match op with
  | A_ADD => i_add a b | A_MUL => i_mul a b | A_SUB => i_sub a b | A_DIV => i_div a b | A_SDIV => i_sdiv a b
  | A_MOD => i_mod a b | A_SMOD => i_smod a b | A_ADDMOD => i_addmod a b c | A_MULMOD => i_mulmod a b c
  | A_EXP => i_exp a b | A_SIGNEXTEND => i_signextend a b
  | A_LT => i_lt a b | A_GT => i_gt a b | A_SLT => i_slt a b | A_SGT => i_sgt a b | A_EQ => i_eq a b
  | A_ISZERO => i_iszero a | A_AND => i_and a b | A_OR => i_or a b | A_XOR => i_xor a b | A_NOT => i_not a
  | A_BYTE => i_byte a b | A_SHL => i_shl a b | A_SHR => i_shr a b | A_SAR => i_sar a b
  end.
Definition m_alu (op : alu_op) (a b c : Z) : Z :=
  match op with
  | A_ADD => m_add a b | A_MUL => m_mul a b | A_SUB => m_sub a b | A_DIV => m_div a b | A_SDIV => m_sdiv a b
  | A_MOD => m_mod a b | A_SMOD => m_smod a b | A_ADDMOD => m_addmod a b c | A_MULMOD => m_mulmod a b c
  | A_EXP => m_exp a b | A_SIGNEXTEND => m_signextend a b
  | A_LT => m_lt a b | A_GT => m_gt a b | A_SLT => m_slt a b | A_SGT => m_sgt a b | A_EQ => m_eq a b
  | A_ISZERO => m_iszero a | A_AND => m_and a b | A_OR => m_or a b | A_XOR => m_xor a b | A_NOT => m_not a
  | A_BYTE => m_byte a b | A_SHL => m_shl a b | A_SHR => m_shr a b | A_SAR => m_sar a b
  end.
Definition alu_arity (op : alu_op) : Z :=
  match op with A_ISZERO | A_NOT => 1 | A_ADDMOD | A_MULMOD => 3 | _ => 2 end.
