(* EVM/ProofsRefund.v — the refund counter of the world (statedb.AddRefund / GetRefund) never decreases along a run, for ALL
   programs, worlds and inputs: the gas functions add 15000 (gasSStore, clearing a slot) or 24000 (gasSuicide, first
   self-destruct of the contract) and nothing else touches it; every other world update (accounts, storage, logs, transfer
   records, self-destruct set, code, master) keeps it; a frame that does not end successfully returns the world it was
   entered with, refund counter included (the counter is journalled with the rest of the statedb), so its caller continues
   from the value it had at the call.  Same shape as run_static / run_gas of ProofsRun.v (induction on the fuel, one case per
   kind of step).  Consumer: Compose/EvmOracle.v (C07's oracle_ok, clause `refund counter >= 0`). *)
From Coq Require Import ZArith List Bool Lia.
From Verif Require Import EVM.Word EVM.Model EVM.ProofsRun.
Import ListNotations.
Open Scope Z_scope.

(* ------------------------------------------------------------------ world updates that keep the counter *)
Lemma transfer_refund w a b v : w_refund (transfer w a b v) = w_refund w.
Proof. unfold transfer. destruct (v =? 0); reflexivity. Qed.

Lemma selfdestruct_refund w self recv : w_refund (selfdestruct w self recv) = w_refund w.
Proof.
  unfold selfdestruct. cbv zeta.
  destruct (balance w self =? 0) eqn:Eb.
  - destruct (exists_acct w self); reflexivity.
  - match goal with |- context [if ?c then _ else _] => destruct c end; reflexivity.
Qed.

Lemma set_code_refund w a c : w_refund (set_code w a c) = w_refund w.
Proof. reflexivity. Qed.

(* ------------------------------------------------------------------ the gas functions only add *)
Lemma gas_cost_refund cx s i n cost cg w' :
  gas_cost cx s i n = Some (cost, cg, w') -> w_refund (s_world s) <= w_refund w'.
Proof.
  intros H. destruct i; cbn [gas_cost] in H; try discriminate;
    repeat match goal with
    | H : context [match ?x with _ => _ end] |- _ => destruct x eqn:?
    end; inv_some; cbn [add_refund w_refund]; lia.
Qed.

Lemma pre_refund E cx s i s1 cg : pre E cx s = P_ok i s1 cg -> w_refund (s_world s) <= w_refund (s_world s1).
Proof.
  unfold pre. intros H.
  repeat match goal with
  | H : context [match ?x with _ => _ end] |- _ => destruct x eqn:?
  | H : context [let '(_, _) := ?x in _] |- _ => destruct x eqn:?
  end; try discriminate.
  all: inversion H; subst; clear H; cbn [s_world].
  all: eapply gas_cost_refund; eassumption.
Qed.

(* ------------------------------------------------------------------ no instruction body touches it *)
Lemma exec_plain_refund E cx i s :
  match exec_plain E cx i s with
  | S_next s2 => w_refund (s_world s2) = w_refund (s_world s)
  | S_halt r => w_refund (r_world r) = w_refund (s_world s)
  end.
Proof.
  destruct i; cbn [exec_plain]; unfold next, next_mem, halt, fail, upd;
    repeat match goal with
    | |- context [if ?c then _ else _] => destruct c
    | |- context [match keccak ?e ?d with _ => _ end] => destruct (keccak e d)
    end;
    cbn [s_world r_world]; try reflexivity.
  apply selfdestruct_refund.
Qed.

(* ------------------------------------------------------------------ calls and creations *)
Lemma do_call_refund runf E self cs vs static d k to v args gas w cc :
  (forall cx' s', w_refund (s_world s') <= w_refund (r_world (runf cx' s'))) ->
  w_refund w <= w_refund (r_world (do_call runf E self cs vs static d k to v args gas w cc)).
Proof.
  intros Hrun. unfold do_call.
  destruct (1024 <? d); [cbn [r_world]; lia|]. destruct (_ && (balance w self <? v)); [cbn [r_world]; lia|].
  destruct (precompile E to); [cbn [r_world]; lia|].
  destruct (_ && negb (exists_acct w to) && (v =? 0)); [cbn [r_world]; lia|].
  set (w1 := match k with K_CALL => transfer w self to v | _ => w end).
  assert (Hw1 : w_refund w1 = w_refund w). { unfold w1. destruct k; try reflexivity. apply transfer_refund. }
  destruct (code_of w1 to) eqn:Hc; [cbn [r_world]; lia|].
  match goal with |- context [runf ?c ?st] => set (cx' := c); set (s' := st) end.
  pose proof (Hrun cx' s') as Hr. unfold s' in Hr at 1. cbn [s_world] in Hr.
  destruct (r_out (runf cx' s')); cbn [r_world]; lia.
Qed.

Lemma do_create_refund runf E self static d addr init v gas w cc :
  (forall cx' s', w_refund (s_world s') <= w_refund (r_world (runf cx' s'))) ->
  w_refund w <= w_refund (r_world (do_create runf E self static d addr init v gas w cc)).
Proof.
  intros Hrun. unfold do_create.
  destruct (1024 <? d); [cbn [r_world]; lia|]. destruct (balance w self <? v); [cbn [r_world]; lia|].
  destruct (negb (is_nil (code_of w addr))); [cbn [r_world]; lia|].
  match goal with |- context [match r_out ?x with _ => _ end] => set (r := x) end.
  assert (Hr : w_refund w <= w_refund (r_world r)).
  { unfold r. destruct init as [|b0 init'].
    - cbn [r_world]. rewrite transfer_refund. cbn [add_log set_master set_acct set_accts w_refund]. lia.
    - match goal with |- context [runf ?c ?st] => pose proof (Hrun c st) as Hq end.
      cbn [s_world] in Hq. rewrite transfer_refund in Hq. cbn [add_log set_master set_acct set_accts w_refund] in Hq. exact Hq. }
  destruct (r_out r); cbn [r_world]; try lia.
  repeat match goal with |- context [if ?c then _ else _] => destruct c end; cbn [r_world]; try lia.
  rewrite set_code_refund. exact Hr.
Qed.

(* ------------------------------------------------------------------ the run *)
Lemma run_refund fuel : forall E cx s, w_refund (s_world s) <= w_refund (r_world (run fuel E cx s)).
Proof.
  induction fuel as [|f IH]; intros E cx s. { cbn [run r_world]. lia. }
  cbn [run]. destruct (pre E cx s) as [r0|i s1 cg] eqn:Hpre.
  - destruct (pre_halt _ _ _ _ Hpre) as (res & -> & Hw & _ & _). unfold step. rewrite Hpre. rewrite Hw. lia.
  - pose proof (pre_refund _ _ _ _ _ _ Hpre) as H1.
    destruct (kind_of i) as [k|two|] eqn:Hic.
    + apply kind_call in Hic. subst i. rewrite (step_call _ _ _ _ _ _ _ Hpre).
      unfold exec_call.
      match goal with |- context [do_call ?rf ?e ?a ?b ?c ?d ?dd ?kk ?t ?vv ?ar ?g ?w ?ccc] =>
        pose proof (do_call_refund rf e a b c d dd kk t vv ar g w ccc (IH E)) as Hd;
        set (r := do_call rf e a b c d dd kk t vv ar g w ccc) in * end.
      destruct (r_out r); try (cbn [r_world]; lia);
        match goal with |- context [run f E cx ?st2] => pose proof (IH E cx st2) as H2; cbn [s_world] in H2; lia end.
    + rewrite (step_create _ _ _ _ _ _ _ _ Hpre Hic). unfold exec_create.
      match goal with |- context [match ?o with Some _ => _ | None => _ end] => destruct o as [addr|] end.
      2:{ unfold halt. cbn [r_world]. lia. }
      match goal with |- context [do_create ?rf ?e ?a ?b ?c ?ad ?ini ?vv ?g ?w ?ccc] =>
        pose proof (do_create_refund rf e a b c ad ini vv g w ccc (IH E)) as Hd;
        set (r := do_create rf e a b c ad ini vv g w ccc) in * end.
      destruct (r_out r); try (cbn [r_world]; lia);
        match goal with |- context [run f E cx ?st2] => pose proof (IH E cx st2) as H2; cbn [s_world] in H2; lia end.
    + rewrite (step_plain _ _ _ _ _ _ _ Hpre Hic).
      pose proof (exec_plain_refund E cx i s1) as Hw.
      destruct (exec_plain E cx i s1) as [s2|res].
      * pose proof (IH E cx s2) as H2. lia.
      * lia.
Qed.

(* ------------------------------------------------------------------ the entry points *)
Theorem call_top_refund fuel E static to v input gas w :
  w_refund w <= w_refund (r_world (call_top fuel E static to v input gas w)).
Proof. unfold call_top. apply do_call_refund. intros cx' s'. apply run_refund. Qed.

Theorem frame_refund fuel E self cs vs static d k to v args gas w cc :
  w_refund w <= w_refund (r_world (do_call (run fuel E) E self cs vs static d k to v args gas w cc)).
Proof. apply do_call_refund. intros cx' s'. apply run_refund. Qed.

Theorem create_refund fuel E self static d addr init v gas w cc :
  w_refund w <= w_refund (r_world (do_create (run fuel E) E self static d addr init v gas w cc)).
Proof. apply do_create_refund. intros cx' s'. apply run_refund. Qed.
