(* EVM/RefSpec.v — an INDEPENDENT reference semantics for a core fragment of the EVM, written declaratively from the
   Yellow Paper (sections 9.4, 9.4.2 exceptional halting Z, 9.4.3 jump destinations D, appendix G fee schedule, appendix H
   delta/alpha and the per-instruction state changes), not from interpreter.go:

     STOP, the 25 ALU instructions (by their mathematical definition Word.m_alu), POP, PUSH0..PUSH32, DUP1..16, SWAP1..16,
     JUMP, JUMPI, JUMPDEST, PC, GAS, MSIZE, MLOAD, MSTORE, MSTORE8, SLOAD, SSTORE, RETURN, REVERT, invalid opcodes,
     and the reads of the execution environment I / block header H (9.3): ADDRESS (I_a), ORIGIN (I_o), CALLER (I_s),
     CALLVALUE (I_v), CALLDATASIZE, CALLDATALOAD (I_d), CODESIZE (I_b), GASPRICE (I_p), RETURNDATASIZE (mu_o), COINBASE,
     TIMESTAMP, NUMBER, DIFFICULTY, GASLIMIT, CHAINID, BASEFEE — the environment is the pair of records (env, ctx).

   Everything else (calls, creations, SELFDESTRUCT, the copy instructions, logs, account reads, SHA3) is "outside": a reference
   run stops with RR_outside pc i at the first such instruction and says nothing about what follows.
   Shared with the model (and therefore NOT independently specified): the opcode table (decode_at), the byte layout of memory
   words and PUSH operands (word_bytes, be_to_z, mwrite, mslice, push_bytes), the SWAP permutation on lists, the containers for
   storage and logs (storage is constrained extensionally through sload).  Independent: delta/alpha, the exceptional-halting
   conditions, jump-destination validity (inductive instruction positions), gas (W-classes, C_mem via GasSpec, SSTORE schedule,
   EXP), the ALU results, program-counter and stack discipline, storage and refund effects, result class / data / gas.
   One deliberate deviation from the letter of the Yellow Paper: an access whose end lies beyond 0xffffffffe0 bytes is an
   exceptional halt outright (in the YP it merely costs >= 3 * 2^35 gas, more than any gas this development considers).
   Definitions only; the refinement proof is in ProofsRef.v. *)
From Coq Require Import ZArith List Bool.
From Verif Require Import EVM.Word EVM.Model EVM.GasSpec.
Import ListNotations.
Open Scope Z_scope.

Definition in_fragment (i : instr) : bool :=
  match i with
  | I_STOP | I_ALU _ | I_POP | I_PUSH _ | I_DUP _ | I_SWAP _ | I_JUMP | I_JUMPI | I_JUMPDEST | I_PC | I_GAS | I_MSIZE
  | I_MLOAD | I_MSTORE | I_MSTORE8 | I_SLOAD | I_SSTORE | I_RETURN | I_REVERT
  | I_ADDRESS | I_ORIGIN | I_CALLER | I_CALLVALUE | I_CALLDATASIZE | I_CALLDATALOAD | I_CODESIZE | I_GASPRICE
  | I_RETURNDATASIZE | I_COINBASE | I_TIMESTAMP | I_NUMBER | I_DIFFICULTY | I_GASLIMIT | I_CHAINID | I_BASEFEE => true
  | _ => false
  end.

(* appendix H: items removed / added *)
Definition R_delta (i : instr) : Z :=
  match i with
  | I_ALU A_ISZERO | I_ALU A_NOT => 1
  | I_ALU A_ADDMOD | I_ALU A_MULMOD => 3
  | I_ALU _ => 2
  | I_POP | I_JUMP | I_MLOAD | I_SLOAD | I_CALLDATALOAD => 1
  | I_MSTORE | I_MSTORE8 | I_SSTORE | I_JUMPI | I_RETURN | I_REVERT => 2
  | I_DUP n => n
  | I_SWAP n => n + 1
  | _ => 0
  end.
Definition R_alpha (i : instr) : Z :=
  match i with
  | I_ALU _ | I_MLOAD | I_SLOAD | I_PUSH _ | I_PC | I_GAS | I_MSIZE
  | I_ADDRESS | I_ORIGIN | I_CALLER | I_CALLVALUE | I_CALLDATASIZE | I_CALLDATALOAD | I_CODESIZE | I_GASPRICE
  | I_RETURNDATASIZE | I_COINBASE | I_TIMESTAMP | I_NUMBER | I_DIFFICULTY | I_GASLIMIT | I_CHAINID | I_BASEFEE => 1
  | I_DUP n => n + 1
  | I_SWAP n => n + 1
  | _ => 0
  end.

(* 9.4.3: D(c) — the positions of JUMPDEST instructions, where instruction positions are obtained by walking the code from 0
   and stepping over the operand bytes of PUSH1..PUSH32 *)
Definition operand_len (b : Z) : Z := if (96 <=? b) && (b <=? 127) then b - 95 else 0.
Inductive instr_pos (code : list Z) : Z -> Prop :=
  | IP_start : instr_pos code 0
  | IP_next i : instr_pos code i -> 0 <= i < zlen code -> instr_pos code (i + 1 + operand_len (nthz code i)).
Definition R_valid_dest (code : list Z) (d : Z) : Prop :=
  instr_pos code d /\ 0 <= d < zlen code /\ nthz code d = 91.

(* the memory range an instruction touches *)
Definition R_range (i : instr) (st : list Z) : Z * Z :=
  match i with
  | I_MLOAD | I_MSTORE => (nthz st 0, 32)
  | I_MSTORE8 => (nthz st 0, 1)
  | I_RETURN | I_REVERT => (nthz st 0, nthz st 1)
  | _ => (0, 0)
  end.
Definition R_addressable (off len : Z) : Prop := len = 0 \/ off + len <= 1099511627744.
Definition R_words (s : mstate) (i : instr) : Z :=
  let '(off, len) := R_range i (s_stack s) in words_after (s_msize s / 32) off len.

(* appendix G *)
Definition G_zero := 0. Definition G_base := 2. Definition G_verylow := 3. Definition G_low := 5. Definition G_mid := 8.
Definition G_high := 10. Definition G_jumpdest := 1. Definition G_sload := 200. Definition G_sset := 20000.
Definition G_sreset := 5000. Definition R_sclear := 15000. Definition G_exp := 10. Definition G_expbyte := 50.
(* number of bytes of the exponent: 1 + floor(log_256 e) for e > 0 *)
Definition exp_bytes (e : Z) : Z := if e <=? 0 then 0 else Z.log2 e / 8 + 1.
Definition R_instr_cost (cx : ctx) (s : mstate) (i : instr) : Z :=
  let st := s_stack s in
  match i with
  | I_STOP | I_RETURN | I_REVERT => G_zero
  | I_POP | I_PC | I_GAS | I_MSIZE
  | I_ADDRESS | I_ORIGIN | I_CALLER | I_CALLVALUE | I_CALLDATASIZE | I_CODESIZE | I_GASPRICE | I_RETURNDATASIZE
  | I_COINBASE | I_TIMESTAMP | I_NUMBER | I_DIFFICULTY | I_GASLIMIT | I_CHAINID | I_BASEFEE => G_base
  | I_PUSH n => if n =? 0 then G_base else G_verylow
  | I_ALU A_MUL | I_ALU A_DIV | I_ALU A_SDIV | I_ALU A_MOD | I_ALU A_SMOD | I_ALU A_SIGNEXTEND => G_low
  | I_ALU A_ADDMOD | I_ALU A_MULMOD => G_mid
  | I_ALU A_EXP => G_exp + G_expbyte * exp_bytes (nthz st 1)
  | I_ALU _ | I_DUP _ | I_SWAP _ | I_MLOAD | I_MSTORE | I_MSTORE8 | I_CALLDATALOAD => G_verylow
  | I_JUMP => G_mid
  | I_JUMPI => G_high
  | I_JUMPDEST => G_jumpdest
  | I_SLOAD => G_sload
  | I_SSTORE =>
      if negb (nthz st 1 =? 0) && (sload (s_world s) (c_addr cx) (nthz st 0) =? 0) then G_sset else G_sreset
  | _ => 0
  end.
Definition R_cost (cx : ctx) (s : mstate) (i : instr) : Z :=
  R_instr_cost cx s i + expansion_cost (s_msize s / 32) (R_words s i).

(* 9.4.2: Z *)
Definition R_exceptional (cx : ctx) (s : mstate) (i : instr) : Prop :=
  let st := s_stack s in
  zlen st < R_delta i \/
  1024 < zlen st - R_delta i + R_alpha i \/
  (c_static cx = true /\ i = I_SSTORE) \/
  ~ R_addressable (fst (R_range i st)) (snd (R_range i st)) \/
  s_gas s < R_cost cx s i \/
  (i = I_JUMP /\ ~ R_valid_dest (c_code cx) (nthz st 0)) \/
  (i = I_JUMPI /\ nthz st 1 <> 0 /\ ~ R_valid_dest (c_code cx) (nthz st 0)).

(* memory after the (possible) extension; byte layout shared with the model *)
Definition R_mem (s : mstate) (i : instr) : list Z :=
  let n := 32 * R_words s i in
  if (0 <? n) && (s_msize s <? n) then s_mem s ++ zeros (n - s_msize s) else s_mem s.

(* appendix H: the machine state after a non-halting instruction *)
Definition R_effect (E : env) (cx : ctx) (s : mstate) (i : instr) (s' : mstate) : Prop :=
  let st := s_stack s in
  let a := nthz st 0 in let b := nthz st 1 in let c := nthz st 2 in
  let rest := dropz (R_delta i) st in
  let g' := s_gas s - R_cost cx s i in
  let m := R_mem s i in
  s_gas s' = g' /\ s_msize s' = Z.max (s_msize s) (32 * R_words s i) /\ s_ret s' = s_ret s /\ s_cc s' = s_cc s /\
  (* program counter *)
  s_pc s' = (match i with
             | I_JUMP => a
             | I_JUMPI => if b =? 0 then s_pc s + 1 else a
             | I_PUSH n => s_pc s + n + 1
             | _ => s_pc s + 1
             end) /\
  (* stack *)
  s_stack s' = (match i with
                | I_ALU op => (m_alu op a b c) mod W :: rest
                | I_PUSH n => (push_bytes cx (s_pc s) n) mod W :: st
                | I_DUP n => (nthz st (n - 1)) mod W :: st
                | I_SWAP n => nthz st n :: takez (n - 1) (dropz 1 st) ++ a :: dropz (n + 1) st
                | I_PC => (s_pc s) mod W :: st
                | I_GAS => g' mod W :: st
                | I_MSIZE => (s_msize s) mod W :: st
                | I_MLOAD => (be_to_z (mslice m a 32)) mod W :: rest
                | I_SLOAD => (sload (s_world s) (c_addr cx) a) mod W :: rest
                (* environment: I_a, I_o, I_s, I_v, |I_d|, I_d[a..a+31] (zero beyond the end), |I_b|, I_p, |mu_o|, block header *)
                | I_ADDRESS => (c_addr cx) mod W :: st
                | I_ORIGIN => (e_origin E) mod W :: st
                | I_CALLER => (c_caller cx) mod W :: st
                | I_CALLVALUE => (c_value cx) mod W :: st
                | I_CALLDATASIZE => (zlen (c_input cx)) mod W :: st
                | I_CALLDATALOAD => (if a <? W64 then be_to_z (get_data (c_input cx) a 32) else 0) mod W :: rest
                | I_CODESIZE => (zlen (c_code cx)) mod W :: st
                | I_GASPRICE => (e_gasprice E) mod W :: st
                | I_RETURNDATASIZE => (zlen (s_ret s)) mod W :: st
                | I_COINBASE => (e_coinbase E) mod W :: st
                | I_TIMESTAMP => (e_timestamp E) mod W :: st
                | I_NUMBER => (e_number E) mod W :: st
                | I_DIFFICULTY => (e_difficulty E) mod W :: st
                | I_GASLIMIT => (e_gaslimit E) mod W :: st
                | I_CHAINID => (e_chainid E) mod W :: st
                | I_BASEFEE => (e_basefee E) mod W :: st
                | _ => rest
                end) /\
  (* memory *)
  s_mem s' = (match i with
              | I_MSTORE => mwrite m a (word_bytes b)
              | I_MSTORE8 => mwrite m a [b mod 256]
              | _ => m
              end) /\
  (* world state: storage (extensionally), refund; everything else untouched *)
  (match i with
   | I_SSTORE =>
       (forall a' k', sload (s_world s') a' k' = if (a' =? c_addr cx) && (k' =? a) then b else sload (s_world s) a' k') /\
       w_refund (s_world s') = w_refund (s_world s) +
         (if (b =? 0) && negb (sload (s_world s) (c_addr cx) a =? 0) then R_sclear else 0) /\
       w_accts (s_world s') = w_accts (s_world s) /\ w_logs (s_world s') = w_logs (s_world s) /\
       w_transfers (s_world s') = w_transfers (s_world s) /\ w_suicided (s_world s') = w_suicided (s_world s)
   | _ => s_world s' = s_world s
   end).

(* RR_outside pc i: the reference stops, silent, at program counter pc where instruction i (outside the fragment) stands *)
Inductive rres := RR_fail | RR_outside (pc : Z) (i : instr) | RR_done (o : outcome) (data : list Z) (gas : Z) (w : world).
Inductive rstep := RS_to (s' : mstate) | RS_stop (r : rres).

Definition fetch (cx : ctx) (s : mstate) : Z := if s_pc s <? zlen (c_code cx) then nthz (c_code cx) (s_pc s) else 0.

Inductive ref_step (E : env) (cx : ctx) (s : mstate) : rstep -> Prop :=
  | RS_invalid : decode_at (e_fork E) (fetch cx s) = None -> ref_step E cx s (RS_stop RR_fail)
  | RS_outside i : decode_at (e_fork E) (fetch cx s) = Some i -> in_fragment i = false ->
      ref_step E cx s (RS_stop (RR_outside (s_pc s) i))
  | RS_exc i : decode_at (e_fork E) (fetch cx s) = Some i -> in_fragment i = true -> R_exceptional cx s i ->
      ref_step E cx s (RS_stop RR_fail)
  | RS_halt i : decode_at (e_fork E) (fetch cx s) = Some i -> ~ R_exceptional cx s i ->
      forall o data,
      (i = I_STOP /\ o = O_ok /\ data = []) \/
      (i = I_RETURN /\ o = O_ok /\ data = mslice (R_mem s i) (nthz (s_stack s) 0) (nthz (s_stack s) 1)) \/
      (i = I_REVERT /\ o = O_revert /\ data = mslice (R_mem s i) (nthz (s_stack s) 0) (nthz (s_stack s) 1)) ->
      ref_step E cx s (RS_stop (RR_done o data (s_gas s - R_cost cx s i) (s_world s)))
  | RS_ok i s' : decode_at (e_fork E) (fetch cx s) = Some i -> in_fragment i = true ->
      i <> I_STOP -> i <> I_RETURN -> i <> I_REVERT ->
      ~ R_exceptional cx s i -> R_effect E cx s i s' -> ref_step E cx s (RS_to s').

(* big step: the reflexive-transitive closure up to a stop *)
Inductive ref_run (E : env) (cx : ctx) : mstate -> rres -> Prop :=
  | RRun_stop s r : ref_step E cx s (RS_stop r) -> ref_run E cx s r
  | RRun_step s s' r : ref_step E cx s (RS_to s') -> ref_run E cx s' r -> ref_run E cx s r.
