(* EVM/ProofsGas.v — the interpreter's gas functions (Model.v: mem_gas, call_gas; transcribed from gas_table.go / gas.go) equal
   the declarative specification of GasSpec.v; C_mem is monotone and expansion costs add up. *)
From Coq Require Import ZArith Lia.
From Verif Require Import EVM.Word EVM.ProofsALU EVM.Model EVM.GasSpec EVM.ProofsRun.
Open Scope Z_scope.

Lemma mem_total_is_mem_cost w : mem_total w = mem_cost w.
Proof. unfold mem_total, mem_cost. rewrite Z.pow_2_r. lia. Qed.

Lemma mem_cost_monotone a b : 0 <= a <= b -> mem_cost a <= mem_cost b.
Proof. intros. rewrite <- !mem_total_is_mem_cost. apply mem_total_mono; assumption. Qed.

Lemma expansion_cost_nonneg a b : 0 <= a <= b -> 0 <= expansion_cost a b.
Proof. intros H. unfold expansion_cost. pose proof (mem_cost_monotone a b H). lia. Qed.

(* growing in two steps costs the same as growing at once *)
Lemma expansion_cost_additive a b c : expansion_cost a b + expansion_cost b c = expansion_cost a c.
Proof. unfold expansion_cost. lia. Qed.

(* memoryGasCost: memory currently holds ow words; the instruction needs the range [off, off+len) (len > 0 case folded into
   need = off + len, need = 0 for len = 0); within the 0xffffffffe0 bound the charge is C_mem(new) - C_mem(old) *)
Theorem mem_gas_matches_spec ow need :
  0 <= ow -> 0 <= need -> to_words need * 32 <= 1099511627744 ->
  mem_gas (32 * ow) (to_words need * 32) = Some (expansion_cost ow (Z.max ow (to_words need))).
Proof.
  intros How Hn Hb. unfold mem_gas, expansion_cost.
  assert (Hw : 0 <= to_words need) by (apply to_words_nonneg; assumption).
  assert (Hdiv : 32 * ow / 32 = ow) by (rewrite Z.mul_comm; apply Z.div_mul; lia).
  assert (Hidem : to_words (to_words need * 32) = to_words need).
  { unfold to_words at 1. replace (to_words need * 32 + 31) with (31 + to_words need * 32) by lia.
    rewrite Z.div_add by lia. rewrite (Z.div_small 31 32) by lia. lia. }
  destruct (Z.eqb_spec (to_words need * 32) 0) as [E|E].
  { assert (to_words need = 0) by lia. rewrite H. rewrite Z.max_l by lia. f_equal. lia. }
  destruct (Z.ltb_spec 1099511627744 (to_words need * 32)); [lia|].
  rewrite Hidem, Hdiv, !mem_total_is_mem_cost.
  destruct (Z.ltb_spec (32 * ow) (to_words need * 32)).
  - rewrite Z.max_r by lia. reflexivity.
  - rewrite Z.max_l by lia. f_equal. lia.
Qed.

(* the word count the interpreter resizes to is the specification's words_after *)
Lemma words_after_to_words ow off len : 0 <= off -> 0 < len ->
  words_after ow off len = Z.max ow (to_words (off + len)).
Proof. intros. unfold words_after, to_words. destruct (Z.eqb_spec len 0); [lia|reflexivity]. Qed.

(* callGas (EIP-150): for a call whose own cost is affordable, the callee receives min(requested, L(available - base)) *)
Theorem call_gas_matches_spec avail base req :
  0 <= base <= avail -> avail < W64 -> 0 <= req ->
  call_gas avail base req = callee_gas avail base req.
Proof.
  intros Hb Ha Hr. unfold call_gas, callee_gas, all_but_one_64th.
  rewrite (Z.mod_small (avail - base)) by lia.
  set (g := avail - base - (avail - base) / 64).
  assert (Hg : 0 <= g < W64).
  { unfold g. assert (0 <= (avail - base) / 64 <= avail - base).
    { split. apply Z.div_pos; lia. apply Z.div_le_upper_bound; lia. } lia. }
  destruct (Z.leb_spec W64 req); cbn [orb]. { rewrite Z.min_r by lia. reflexivity. }
  destruct (Z.ltb_spec g req). { rewrite Z.min_r by lia. reflexivity. } rewrite Z.min_l by lia. reflexivity.
Qed.

(* ... and a call whose own cost exceeds the available gas can never pass the gas check, whatever the wrapped uint64
   subtraction in callGas produced *)
Theorem call_gas_unaffordable avail base req :
  0 <= avail < base -> base < W64 -> 0 <= req ->
  W64 <= base + call_gas avail base req \/ avail < base + call_gas avail base req.
Proof.
  intros Ha Hb Hr. right. pose proof (call_gas_nonneg avail base req Hr). lia.
Qed.
