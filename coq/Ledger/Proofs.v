(* Ledger/Proofs.v — conservation of VET, exact VTHO delta, the self-destruct-to-self deficit. *)
From Coq Require Import ZArith List Bool Lia.
From Verif Require Import Ledger.Model.
Import ListNotations.
Open Scope Z_scope.

Section Sums.
  Variable f : account -> Z.
  Lemma sumf_upd_notin dom s a v : ~ In a dom -> sumf f dom (upd s a v) = sumf f dom s.
  Proof.
    induction dom as [|x t IH]; intros H; cbn; [reflexivity|].
    rewrite IH by (intros C; apply H; right; exact C).
    unfold upd at 1. destruct (x =? a) eqn:E; [apply Z.eqb_eq in E; subst; exfalso; apply H; left; reflexivity|reflexivity].
  Qed.

  Lemma sumf_upd_in dom s a v : NoDup dom -> In a dom -> sumf f dom (upd s a v) = sumf f dom s - f (s a) + f v.
  Proof.
    induction dom as [|x t IH]; intros ND HI; [contradiction|]. inversion ND as [|? ? Hx ND']; subst.
    cbn. destruct HI as [->|HI].
    - rewrite sumf_upd_notin by exact Hx. unfold upd at 1. rewrite Z.eqb_refl. lia.
    - rewrite IH by assumption. unfold upd at 1.
      destruct (x =? a) eqn:E; [apply Z.eqb_eq in E; subst; contradiction|]. lia.
  Qed.
End Sums.


Lemma energy_at_settled T S b e : energy_at T S (mkAcc b e T) = e.
Proof.
  unfold energy_at; cbn. destruct (T =? 0); [reflexivity|]. destruct (b =? 0); [reflexivity|].
  rewrite Z.leb_refl. reflexivity.
Qed.
Lemma energy_at_empty T S : energy_at T S empty_acc = 0.
Proof. reflexivity. Qed.

Ltac upd_simpl :=
  repeat (rewrite sumf_upd_in by assumption);
  unfold upd, empty_acc; cbn [a_bal a_eng a_bt l_acc];
  repeat rewrite Z.eqb_refl;
  repeat match goal with H : (_ =? _) = _ |- _ => rewrite H end;
  cbn [a_bal a_eng a_bt l_acc]; rewrite ?energy_at_settled.

(* ------------------------------------------------------------------ per-primitive lemmas: balances *)

Lemma energy_add_bal T S l a amt dom : NoDup dom -> In a dom ->
  sum_bal dom (l_acc (energy_add T S l a amt)) = sum_bal dom (l_acc l).
Proof.
  intros ND HI. unfold sum_bal. unfold energy_add. destruct (amt =? 0); [reflexivity|].
  unfold set_energy, set_acc; cbn [l_acc]. upd_simpl. lia.
Qed.

Lemma energy_sub_bal T S l a amt dom : NoDup dom -> In a dom ->
  sum_bal dom (l_acc (fst (energy_sub T S l a amt))) = sum_bal dom (l_acc l).
Proof.
  intros ND HI. unfold sum_bal. unfold energy_sub. destruct (amt =? 0); [reflexivity|].
  destruct (_ <? amt); [reflexivity|]. unfold set_energy, set_acc; cbn [fst l_acc]. upd_simpl. lia.
Qed.

Lemma transfer_bal T S l s r amt dom : NoDup dom -> In s dom -> In r dom ->
  sum_bal dom (l_acc (transfer T S l s r amt)) = sum_bal dom (l_acc l).
Proof.
  intros ND Hs Hr. unfold sum_bal. unfold transfer. destruct (amt =? 0); [reflexivity|].
  unfold add_balance, set_energy, set_acc; cbn [l_acc].
  destruct (r =? s) eqn:E.
  - apply Z.eqb_eq in E; subst r. upd_simpl. lia.
  - assert (E' : (s =? r) = false) by (rewrite Z.eqb_sym; exact E). upd_simpl. lia.
Qed.

Lemma energy_move_bal T S l s r amt dom : NoDup dom -> In s dom -> In r dom ->
  sum_bal dom (l_acc (energy_move T S l s r amt)) = sum_bal dom (l_acc l).
Proof.
  intros ND Hs Hr. unfold energy_move. destruct (energy_sub T S l s amt) as [l1 ok] eqn:E.
  destruct ok; [|reflexivity]. rewrite energy_add_bal by assumption.
  replace l1 with (fst (energy_sub T S l s amt)) by (rewrite E; reflexivity).
  apply energy_sub_bal; assumption.
Qed.

Lemma suicide_bal T S l c r dom : NoDup dom -> In c dom -> In r dom ->
  sum_bal dom (l_acc (suicide T S l c r)) =
  sum_bal dom (l_acc l) - (if c =? r then a_bal (l_acc l c) else 0).
Proof.
  intros ND Hc Hr. unfold sum_bal. unfold suicide, add_balance, set_energy, set_acc, get_energy.
  destruct (c =? r) eqn:E.
  - apply Z.eqb_eq in E; subst r.
    destruct (a_bal (l_acc l c) =? 0) eqn:B; destruct (energy_at T S (l_acc l c) =? 0) eqn:EE; cbn [negb orb l_acc];
      upd_simpl; try (apply Z.eqb_eq in B); lia.
  - assert (E' : (r =? c) = false) by (rewrite Z.eqb_sym; exact E).
    destruct (a_bal (l_acc l c) =? 0) eqn:B; destruct (energy_at T S (l_acc l c) =? 0) eqn:EE; cbn [negb orb l_acc];
      upd_simpl; try (apply Z.eqb_eq in B); lia.
Qed.

Lemma distribute_bal T S l b d rw p h dom : NoDup dom -> In b dom -> In d dom ->
  sum_bal dom (l_acc (distribute T S l b d rw p h)) = sum_bal dom (l_acc l).
Proof.
  intros ND Hb Hd. unfold sum_bal. unfold distribute, set_energy, set_acc, get_energy. cbn [l_acc].
  destruct (h && _); cbn [l_acc].
  - destruct (b =? d) eqn:E.
    + apply Z.eqb_eq in E; subst d. upd_simpl. lia.
    + assert (E' : (d =? b) = false) by (rewrite Z.eqb_sym; exact E). upd_simpl. lia.
  - upd_simpl. lia.
Qed.

(* ------------------------------------------------------------------ per-primitive lemmas: energy at block time *)

Lemma energy_add_eng T S l a amt dom : NoDup dom -> In a dom ->
  sum_eng T S dom (l_acc (energy_add T S l a amt)) = sum_eng T S dom (l_acc l) + amt.
Proof.
  intros ND HI. unfold sum_eng. unfold energy_add. destruct (amt =? 0) eqn:A; [apply Z.eqb_eq in A; lia|].
  unfold set_energy, set_acc, get_energy; cbn [l_acc]. upd_simpl. lia.
Qed.

Lemma energy_sub_eng T S l a amt dom : NoDup dom -> In a dom ->
  sum_eng T S dom (l_acc (fst (energy_sub T S l a amt))) =
  sum_eng T S dom (l_acc l) - (if snd (energy_sub T S l a amt) then amt else 0).
Proof.
  intros ND HI. unfold sum_eng. unfold energy_sub. destruct (amt =? 0) eqn:A; [apply Z.eqb_eq in A; cbn; lia|].
  destruct (_ <? amt); [cbn; lia|]. unfold set_energy, set_acc, get_energy; cbn [fst snd l_acc]. upd_simpl. lia.
Qed.

Lemma transfer_eng T S l s r amt dom : NoDup dom -> In s dom -> In r dom ->
  sum_eng T S dom (l_acc (transfer T S l s r amt)) = sum_eng T S dom (l_acc l).
Proof.
  intros ND Hs Hr. unfold sum_eng. unfold transfer. destruct (amt =? 0); [reflexivity|].
  unfold add_balance, set_energy, set_acc, get_energy; cbn [l_acc].
  destruct (r =? s) eqn:E.
  - apply Z.eqb_eq in E; subst r. upd_simpl. lia.
  - assert (E' : (s =? r) = false) by (rewrite Z.eqb_sym; exact E). upd_simpl. lia.
Qed.

Lemma energy_move_eng T S l s r amt dom : NoDup dom -> In s dom -> In r dom ->
  sum_eng T S dom (l_acc (energy_move T S l s r amt)) = sum_eng T S dom (l_acc l).
Proof.
  intros ND Hs Hr. unfold energy_move. destruct (energy_sub T S l s amt) as [l1 ok] eqn:E.
  destruct ok; [|reflexivity]. rewrite energy_add_eng by assumption.
  pose proof (energy_sub_eng T S l s amt dom ND Hs) as H. rewrite E in H; cbn [fst snd] in H. lia.
Qed.

Lemma suicide_eng T S l c r dom : NoDup dom -> In c dom -> In r dom ->
  sum_eng T S dom (l_acc (suicide T S l c r)) =
  sum_eng T S dom (l_acc l) - (if c =? r then energy_at T S (l_acc l c) else 0).
Proof.
  intros ND Hc Hr. unfold sum_eng. unfold suicide, add_balance, set_energy, set_acc, get_energy.
  destruct (c =? r) eqn:E.
  - apply Z.eqb_eq in E; subst r.
    destruct (a_bal (l_acc l c) =? 0) eqn:B; destruct (energy_at T S (l_acc l c) =? 0) eqn:EE; cbn [negb orb l_acc];
      upd_simpl; change (energy_at T S (mkAcc 0 0 0)) with 0; try (apply Z.eqb_eq in EE); lia.
  - assert (E' : (r =? c) = false) by (rewrite Z.eqb_sym; exact E).
    destruct (a_bal (l_acc l c) =? 0) eqn:B; destruct (energy_at T S (l_acc l c) =? 0) eqn:EE; cbn [negb orb l_acc];
      upd_simpl; change (energy_at T S (mkAcc 0 0 0)) with 0; try (apply Z.eqb_eq in EE); lia.
Qed.

Lemma distribute_eng T S l b d rw p h dom : NoDup dom -> In b dom -> In d dom ->
  sum_eng T S dom (l_acc (distribute T S l b d rw p h)) = sum_eng T S dom (l_acc l) + rw.
Proof.
  intros ND Hb Hd. unfold sum_eng. unfold distribute, proposer_share, set_energy, set_acc, get_energy. cbn [l_acc].
  destruct (h && _); cbn [l_acc].
  - destruct (b =? d) eqn:E.
    + apply Z.eqb_eq in E; subst d. upd_simpl. lia.
    + assert (E' : (d =? b) = false) by (rewrite Z.eqb_sym; exact E). upd_simpl. lia.
  - upd_simpl. lia.
Qed.

(* ------------------------------------------------------------------ op level *)

Definition covers (dom : list Z) (o : op) : Prop := forall a, In a (touches o) -> In a dom.

Lemma vet_conserved_op T S l o dom : NoDup dom -> covers dom o -> self_destruct_to_self o = false ->
  sum_bal dom (l_acc (apply_op T S l o)) = sum_bal dom (l_acc l).
Proof.
  intros ND C NS. destruct o; cbn [apply_op]; unfold covers in C; cbn in C.
  - apply transfer_bal; auto.
  - apply energy_add_bal; auto.
  - apply energy_sub_bal; auto.
  - apply energy_move_bal; auto.
  - cbn in NS. rewrite suicide_bal by auto. rewrite NS. lia.
  - apply distribute_bal; auto.
Qed.

Lemma suicide_self_burns_lemma T S l c dom : NoDup dom -> In c dom ->
  sum_bal dom (l_acc (apply_op T S l (OSuicide c c))) = sum_bal dom (l_acc l) - a_bal (l_acc l c) /\
  sum_eng T S dom (l_acc (apply_op T S l (OSuicide c c))) = sum_eng T S dom (l_acc l) - energy_at T S (l_acc l c).
Proof.
  intros ND HI. cbn [apply_op]. rewrite suicide_bal, suicide_eng by auto. rewrite Z.eqb_refl. split; reflexivity.
Qed.

Lemma vtho_delta_op T S l o dom : NoDup dom -> covers dom o -> self_destruct_to_self o = false ->
  sum_eng T S dom (l_acc (apply_op T S l o)) = sum_eng T S dom (l_acc l) + energy_delta T S l o.
Proof.
  intros ND C NS. destruct o; cbn [apply_op energy_delta]; unfold covers in C; cbn in C.
  - rewrite transfer_eng by auto. lia.
  - rewrite energy_add_eng by auto. lia.
  - rewrite energy_sub_eng by auto. destruct (snd _); lia.
  - rewrite energy_move_eng by auto. lia.
  - cbn in NS. rewrite suicide_eng by auto. rewrite NS. lia.
  - rewrite distribute_eng by auto. lia.
Qed.

Lemma vet_conserved_ops T S os : forall l dom, NoDup dom ->
  (forall o, In o os -> covers dom o /\ self_destruct_to_self o = false) ->
  sum_bal dom (l_acc (apply_ops T S l os)) = sum_bal dom (l_acc l).
Proof.
  induction os as [|o t IH]; intros l dom ND H; [reflexivity|]. unfold apply_ops in *. cbn [fold_left].
  rewrite IH by (auto; intros; apply H; right; assumption).
  destruct (H o (or_introl eq_refl)). apply vet_conserved_op; assumption.
Qed.

Lemma vtho_delta_ops T S os : forall l dom, NoDup dom ->
  (forall o, In o os -> covers dom o /\ self_destruct_to_self o = false) ->
  sum_eng T S dom (l_acc (apply_ops T S l os)) = sum_eng T S dom (l_acc l) + energy_delta_ops T S l os.
Proof.
  induction os as [|o t IH]; intros l dom ND H; [cbn; lia|]. unfold apply_ops in *. cbn [fold_left energy_delta_ops].
  rewrite IH by (auto; intros; apply H; right; assumption).
  destruct (H o (or_introl eq_refl)). rewrite vtho_delta_op by assumption. lia.
Qed.

(* accounts outside the touched set are not modified at all *)
Lemma upd_other s x v a : a <> x -> upd s x v a = s a.
Proof. intros H. unfold upd. destruct (a =? x) eqn:E; [apply Z.eqb_eq in E; contradiction|reflexivity]. Qed.

Lemma untouched_op T S l o a : ~ In a (touches o) -> l_acc (apply_op T S l o) a = l_acc l a.
Proof.
  intros H. destruct o; cbn [apply_op]; cbn in H;
    unfold transfer, energy_move, energy_add, energy_sub, suicide, distribute, add_balance, set_energy, set_acc;
    repeat match goal with |- context [if ?c then _ else _] => destruct c eqn:? end;
    cbn [l_acc fst snd]; rewrite ?upd_other by (intro; subst; tauto); reflexivity.
Qed.

(* ------------------------------------------------------------------ totals over ANY address set (dom need not contain the
   touched account): used for per-account statements (dom = [a]) *)
Definition member (a : Z) (dom : list Z) : bool := existsb (Z.eqb a) dom.
Lemma member_in a dom : member a dom = true <-> In a dom.
Proof.
  unfold member. rewrite existsb_exists. split.
  - intros [x [Hx E]]. apply Z.eqb_eq in E. subst. exact Hx.
  - intros H. exists a. split; [exact H|apply Z.eqb_refl].
Qed.
Lemma member_not_in a dom : member a dom = false -> ~ In a dom.
Proof. intros H C. apply member_in in C. congruence. Qed.

Lemma energy_add_eng_any T S l a amt dom : NoDup dom ->
  sum_eng T S dom (l_acc (energy_add T S l a amt)) = sum_eng T S dom (l_acc l) + (if member a dom then amt else 0).
Proof.
  intros ND. destruct (member a dom) eqn:M.
  - apply member_in in M. apply energy_add_eng; assumption.
  - apply member_not_in in M. unfold sum_eng, energy_add. destruct (amt =? 0); [lia|].
    unfold set_energy, set_acc; cbn [l_acc]. rewrite sumf_upd_notin by exact M. lia.
Qed.
Lemma energy_add_bal_any T S l a amt dom : NoDup dom ->
  sum_bal dom (l_acc (energy_add T S l a amt)) = sum_bal dom (l_acc l).
Proof.
  intros ND. destruct (member a dom) eqn:M.
  - apply member_in in M. apply energy_add_bal; assumption.
  - apply member_not_in in M. unfold sum_bal, energy_add. destruct (amt =? 0); [reflexivity|].
    unfold set_energy, set_acc; cbn [l_acc]. rewrite sumf_upd_notin by exact M. reflexivity.
Qed.
Lemma energy_sub_eng_any T S l a amt dom : NoDup dom ->
  sum_eng T S dom (l_acc (fst (energy_sub T S l a amt))) =
  sum_eng T S dom (l_acc l) - (if snd (energy_sub T S l a amt) && member a dom then amt else 0).
Proof.
  intros ND. destruct (member a dom) eqn:M.
  - apply member_in in M. rewrite energy_sub_eng by assumption. rewrite andb_true_r. reflexivity.
  - apply member_not_in in M. rewrite andb_false_r. unfold sum_eng, energy_sub. destruct (amt =? 0); [cbn; lia|].
    destruct (_ <? amt); [cbn; lia|]. unfold set_energy, set_acc; cbn [fst l_acc]. rewrite sumf_upd_notin by exact M. lia.
Qed.
Lemma energy_sub_bal_any T S l a amt dom : NoDup dom ->
  sum_bal dom (l_acc (fst (energy_sub T S l a amt))) = sum_bal dom (l_acc l).
Proof.
  intros ND. destruct (member a dom) eqn:M.
  - apply member_in in M. apply energy_sub_bal; assumption.
  - apply member_not_in in M. unfold sum_bal, energy_sub. destruct (amt =? 0); [reflexivity|].
    destruct (_ <? amt); [reflexivity|]. unfold set_energy, set_acc; cbn [fst l_acc]. rewrite sumf_upd_notin by exact M. reflexivity.
Qed.

(* ------------------------------------------------------------------ exact totals along ANY op list, self-destructs to self included *)
Lemma op_totals_exact T S l o dom : NoDup dom -> covers dom o ->
  sum_bal dom (l_acc (apply_op T S l o)) = sum_bal dom (l_acc l) - fst (burned T S l [o]) /\
  sum_eng T S dom (l_acc (apply_op T S l o)) = sum_eng T S dom (l_acc l) + energy_delta T S l o - snd (burned T S l [o]).
Proof.
  intros ND C. destruct (self_destruct_to_self o) eqn:SS.
  - destruct o; try discriminate. cbn in SS. apply Z.eqb_eq in SS. subst r.
    assert (In c dom) by (apply C; left; reflexivity).
    destruct (suicide_self_burns_lemma T S l c dom ND H) as [A B]. rewrite A, B.
    cbn [burned energy_delta]. rewrite Z.eqb_refl. cbn [fst snd]. split; lia.
  - rewrite vet_conserved_op, vtho_delta_op by assumption.
    destruct o; cbn [burned fst snd]; try (split; lia). cbn in SS. rewrite SS. cbn [fst snd]. split; lia.
Qed.

Lemma burned_cons T S l o t :
  burned T S l (o :: t) = (fst (burned T S l [o]) + fst (burned T S (apply_op T S l o) t),
                           snd (burned T S l [o]) + snd (burned T S (apply_op T S l o) t)).
Proof.
  cbn [burned]. destruct (burned T S (apply_op T S l o) t) as [b e]. cbn [fst snd].
  destruct o; try (cbn; f_equal; lia). destruct (c =? r); cbn [fst snd]; f_equal; lia.
Qed.

Lemma ops_totals_exact T S os : forall l dom, NoDup dom -> (forall o, In o os -> covers dom o) ->
  sum_bal dom (l_acc (apply_ops T S l os)) = sum_bal dom (l_acc l) - fst (burned T S l os) /\
  sum_eng T S dom (l_acc (apply_ops T S l os)) = sum_eng T S dom (l_acc l) + energy_delta_ops T S l os - snd (burned T S l os).
Proof.
  induction os as [|o t IH]; intros l dom ND H; [cbn; split; lia|].
  unfold apply_ops in *. cbn [fold_left energy_delta_ops]. rewrite burned_cons. cbn [fst snd].
  destruct (IH (apply_op T S l o) dom ND ltac:(intros; apply H; right; assumption)) as [A B].
  destruct (op_totals_exact T S l o dom ND (H o (or_introl eq_refl))) as [C D]. rewrite A, B, C, D. split; lia.
Qed.

Lemma clause_ops_no_delta T S os : forall l, (forall o, In o os -> clause_kind o = true) -> energy_delta_ops T S l os = 0.
Proof.
  induction os as [|o t IH]; intros l H; [reflexivity|]. cbn [energy_delta_ops].
  rewrite IH by (intros; apply H; right; assumption).
  pose proof (H o (or_introl eq_refl)) as K. destruct o; cbn in K; try discriminate; reflexivity.
Qed.

Lemma burned_none T S os : forall l, (forall o, In o os -> self_destruct_to_self o = false) -> burned T S l os = (0, 0).
Proof.
  induction os as [|o t IH]; intros l H; [reflexivity|]. cbn [burned].
  rewrite IH by (intros; apply H; right; assumption).
  pose proof (H o (or_introl eq_refl)) as K. destruct o; try reflexivity. cbn in K. rewrite K. reflexivity.
Qed.

Lemma untouched_ops T S os a : forall l, (forall o, In o os -> ~ In a (touches o)) -> l_acc (apply_ops T S l os) a = l_acc l a.
Proof.
  induction os as [|o t IH]; intros l H; [reflexivity|]. unfold apply_ops in *. cbn [fold_left].
  rewrite IH by (intros; apply H; right; assumption). apply untouched_op. apply H. left. reflexivity.
Qed.

Lemma sumf_ext f dom (s1 s2 : accts) : (forall a, In a dom -> s1 a = s2 a) -> sumf f dom s1 = sumf f dom s2.
Proof.
  induction dom as [|x t IH]; intros H; [reflexivity|]. cbn. rewrite (H x (or_introl eq_refl)).
  rewrite IH by (intros; apply H; right; assumption). reflexivity.
Qed.

(* a VET transfer leaves every account's energy at block time unchanged (both sides are settled at T first) *)
Lemma transfer_energy_at T S l s r amt a :
  energy_at T S (l_acc (transfer T S l s r amt) a) = energy_at T S (l_acc l a).
Proof.
  unfold transfer. destruct (amt =? 0); [reflexivity|].
  unfold add_balance, set_energy, set_acc, get_energy; cbn [l_acc].
  destruct (Z.eq_dec a r) as [Er|Nr]; destruct (Z.eq_dec a s) as [Es|Ns]; subst.
  - unfold upd. rewrite !Z.eqb_refl. cbn [a_bal a_eng a_bt]. rewrite energy_at_settled. reflexivity.
  - assert (E : (s =? r) = false) by (apply Z.eqb_neq; auto). assert (E' : (r =? s) = false) by (apply Z.eqb_neq; auto).
    unfold upd. rewrite !Z.eqb_refl, ?E, ?E'. cbn [a_bal a_eng a_bt]. rewrite ?Z.eqb_refl, ?E, ?E'. cbn [a_bal a_eng a_bt].
    rewrite energy_at_settled. reflexivity.
  - assert (E : (s =? r) = false) by (apply Z.eqb_neq; auto). assert (E' : (r =? s) = false) by (apply Z.eqb_neq; auto).
    unfold upd. rewrite !Z.eqb_refl, ?E, ?E'. cbn [a_bal a_eng a_bt]. rewrite ?Z.eqb_refl, ?E, ?E'. cbn [a_bal a_eng a_bt].
    rewrite energy_at_settled. reflexivity.
  - rewrite !upd_other by assumption. reflexivity.
Qed.

Lemma sumf_ext_f f dom (s1 s2 : accts) : (forall a, In a dom -> f (s1 a) = f (s2 a)) -> sumf f dom s1 = sumf f dom s2.
Proof.
  induction dom as [|x t IH]; intros H; [reflexivity|]. cbn. rewrite (H x (or_introl eq_refl)).
  rewrite IH by (intros; apply H; right; assumption). reflexivity.
Qed.

(* ops that, as far as the addresses of dom are concerned, are only VET transfers: the energy total over dom is unchanged *)
Definition energy_quiet (dom : list Z) (o : op) : Prop :=
  (exists s r amt, o = OTransfer s r amt) \/ (forall a, In a (touches o) -> ~ In a dom).

Lemma energy_quiet_ops T S dom os : forall l, (forall o, In o os -> energy_quiet dom o) ->
  sum_eng T S dom (l_acc (apply_ops T S l os)) = sum_eng T S dom (l_acc l).
Proof.
  induction os as [|o t IH]; intros l H; [reflexivity|]. unfold apply_ops in *. cbn [fold_left].
  rewrite IH by (intros; apply H; right; assumption).
  destruct (H o (or_introl eq_refl)) as [[s [r [amt ->]]]|AV]; unfold sum_eng.
  - apply sumf_ext_f. intros a _. cbn [apply_op]. apply transfer_energy_at.
  - apply sumf_ext. intros a Ha. apply untouched_op. intros C. exact (AV a C Ha).
Qed.
