(* Ledger/Model.v — the VET / VTHO ledger as the code moves funds (definitions only).
   Sources: state/account.go CalcEnergy; builtin/energy/energy.go Get/Add/Sub/DistributeRewards;
   runtime/runtime.go newEVM: Transfer hook, OnSuicideContract hook, vm opSuicide -> StateDB.Suicide -> state.Delete;
   builtin/gen/energy.sol _transfer (require(native_sub); native_add).
   big.Int = Z.  Addresses are numbers.  T = block time, S = energy growth stop time (MaxUint64 before HAYABUSA). *)
From Coq Require Import ZArith List Bool.
Import ListNotations.
Open Scope Z_scope.

Record account := mkAcc { a_bal : Z; a_eng : Z; a_bt : Z }.
Definition empty_acc : account := mkAcc 0 0 0.

Definition accts := Z -> account.
Definition upd (s : accts) (a : Z) (v : account) : accts := fun x => if x =? a then v else s x.

Definition energy_growth_rate : Z := 5000000000.          (* thor.EnergyGrowthRate *)
Definition e18 : Z := 1000000000000000000.

(* state/account.go CalcEnergy *)
Definition energy_at (T S : Z) (a : account) : Z :=
  if a_bt a =? 0 then a_eng a
  else if a_bal a =? 0 then a_eng a
  else if T <=? a_bt a then a_eng a
  else if a_bt a <? S then
    let dt := if T <=? S then T - a_bt a else S - a_bt a in
    a_eng a + dt * a_bal a * energy_growth_rate / e18
  else a_eng a.

Record ledger := mkL { l_acc : accts; l_add : Z; l_sub : Z; l_issued : Z }.

Definition set_acc (l : ledger) (a : Z) (v : account) : ledger :=
  mkL (upd (l_acc l) a v) (l_add l) (l_sub l) (l_issued l).

(* state.SetEnergy(addr, energy, blockTime) *)
Definition set_energy (l : ledger) (a : Z) (e T : Z) : ledger :=
  set_acc l a (mkAcc (a_bal (l_acc l a)) e T).
(* stateDB.AddBalance / SubBalance *)
Definition add_balance (l : ledger) (a : Z) (d : Z) : ledger :=
  let x := l_acc l a in set_acc l a (mkAcc (a_bal x + d) (a_eng x) (a_bt x)).

Definition get_energy (T S : Z) (l : ledger) (a : Z) : Z := energy_at T S (l_acc l a).

(* energy.Add *)
Definition energy_add (T S : Z) (l : ledger) (a amt : Z) : ledger :=
  if amt =? 0 then l
  else let e := get_energy T S l a in
       let l1 := mkL (l_acc l) (l_add l + amt) (l_sub l) (l_issued l) in
       set_energy l1 a (e + amt) T.

(* energy.Sub : (new ledger, sufficient) *)
Definition energy_sub (T S : Z) (l : ledger) (a amt : Z) : ledger * bool :=
  if amt =? 0 then (l, true)
  else let e := get_energy T S l a in
       if e <? amt then (l, false)
       else let l1 := mkL (l_acc l) (l_add l) (l_sub l + amt) (l_issued l) in
            (set_energy l1 a (e - amt) T, true).

(* runtime.go Transfer hook: both energies settled at block time before VET moves *)
Definition transfer (T S : Z) (l : ledger) (s r amt : Z) : ledger :=
  if amt =? 0 then l
  else let se := get_energy T S l s in
       let re := get_energy T S l r in
       let l1 := set_energy l s se T in
       let l2 := set_energy l1 r re T in
       let l3 := add_balance l2 s (- amt) in
       add_balance l3 r amt.

(* energy.sol _transfer *)
Definition energy_move (T S : Z) (l : ledger) (s r amt : Z) : ledger :=
  let '(l1, ok) := energy_sub T S l s amt in
  if ok then energy_add T S l1 r amt else l.

(* OnSuicideContract hook, then StateDB.Suicide -> state.Delete *)
Definition suicide (T S : Z) (l : ledger) (c r : Z) : ledger :=
  let e := get_energy T S l c in
  let b := a_bal (l_acc l c) in
  let l1 := if (negb (b =? 0)) || (negb (e =? 0))
            then set_energy l r (get_energy T S l r + e) T else l in
  let l2 := if negb (b =? 0) then add_balance l1 r b else l1 in
  set_acc l2 c empty_acc.

(* energy.DistributeRewards : reward computed by CalculateRewards (input) *)
Definition proposer_share (reward perc : Z) (has_delegations : bool) : Z :=
  let perc := if perc =? 0 then 30 else perc in       (* thor.InitialValidatorRewardPercentage *)
  if has_delegations && (perc <? 100) then reward * perc / 100 else reward.
Definition distribute (T S : Z) (l : ledger) (benef deleg reward perc : Z) (has_delegations : bool) : ledger :=
  let perc' := if perc =? 0 then 30 else perc in
  let pr := proposer_share reward perc has_delegations in
  let l1 := if has_delegations && (perc' <? 100)
            then set_energy l deleg (get_energy T S l deleg + (reward - pr)) T else l in
  let l2 := set_energy l1 benef (get_energy T S l1 benef + pr) T in
  mkL (l_acc l2) (l_add l2) (l_sub l2) (l_issued l2 + reward).

Inductive op :=
| OTransfer (s r amt : Z)
| OEnergyAdd (a amt : Z)
| OEnergySub (a amt : Z)
| OEnergyMove (s r amt : Z)
| OSuicide (c r : Z)
| ODistribute (benef deleg reward perc : Z) (has_delegations : bool).

Definition apply_op (T S : Z) (l : ledger) (o : op) : ledger :=
  match o with
  | OTransfer s r amt => transfer T S l s r amt
  | OEnergyAdd a amt => energy_add T S l a amt
  | OEnergySub a amt => fst (energy_sub T S l a amt)
  | OEnergyMove s r amt => energy_move T S l s r amt
  | OSuicide c r => suicide T S l c r
  | ODistribute b d rw p h => distribute T S l b d rw p h
  end.

Definition apply_ops (T S : Z) (l : ledger) (os : list op) : ledger := fold_left (apply_op T S) os l.

Definition touches (o : op) : list Z :=
  match o with
  | OTransfer s r _ => [s; r] | OEnergyAdd a _ => [a] | OEnergySub a _ => [a]
  | OEnergyMove s r _ => [s; r] | OSuicide c r => [c; r] | ODistribute b d _ _ _ => [b; d]
  end.

Definition self_destruct_to_self (o : op) : bool :=
  match o with OSuicide c r => c =? r | _ => false end.

(* totals over a finite address set *)
Fixpoint sumf (f : account -> Z) (dom : list Z) (s : accts) : Z :=
  match dom with [] => 0 | a :: t => f (s a) + sumf f t s end.
Definition sum_bal (dom : list Z) (s : accts) : Z := sumf a_bal dom s.
Definition sum_eng (T S : Z) (dom : list Z) (s : accts) : Z := sumf (energy_at T S) dom s.

(* the VTHO change the property allows for each primitive *)
Definition energy_delta (T S : Z) (l : ledger) (o : op) : Z :=
  match o with
  | OEnergyAdd _ amt => amt
  | OEnergySub a amt => if snd (energy_sub T S l a amt) then - amt else 0
  | ODistribute _ _ rw _ _ => rw
  | _ => 0
  end.
Fixpoint energy_delta_ops (T S : Z) (l : ledger) (os : list op) : Z :=
  match os with [] => 0 | o :: t => energy_delta T S l o + energy_delta_ops T S (apply_op T S l o) t end.

(* the primitives a clause (the EVM with the runtime's hooks and the energy builtin) can perform; energy add / sub and reward
   distribution are the transaction wrapper's and the block's own operations *)
Definition clause_kind (o : op) : bool :=
  match o with OTransfer _ _ _ | OEnergyMove _ _ _ | OSuicide _ _ => true | _ => false end.

(* what self-destructs whose beneficiary is the contract itself destroy along an op list: (VET, VTHO at block time), each
   measured on the ledger at the moment of the self-destruct *)
Fixpoint burned (T S : Z) (l : ledger) (os : list op) : Z * Z :=
  match os with
  | [] => (0, 0)
  | o :: t =>
    let '(b, e) := burned T S (apply_op T S l o) t in
    match o with
    | OSuicide c r => if c =? r then (a_bal (l_acc l c) + b, energy_at T S (l_acc l c) + e) else (b, e)
    | _ => (b, e)
    end
  end.

(* executable projection used by the correspondence: (balance, energy at T) of an address *)
Definition view (T S : Z) (l : ledger) (a : Z) : Z * Z := (a_bal (l_acc l a), get_energy T S l a).
